/-
  Lemmas for the statements about the whole program (`Props/Cli.lean`); statements in
  `Props/CliDefs.lean`.
-/
import Depccg.Props.CliDefs
import Depccg.Props.TopLevel
import Depccg.Props.File
import Depccg.Props.C05
import Depccg.Proofs.C05Lemmas
import Depccg.Proofs.C08Lemmas
import Depccg.Proofs.FileLemmas

namespace Depccg.CliProps
open Depccg Str Search GlueRun Lazy Print Cli Read FileProps LazyProps

/-! ### decimal digits -/

/-- every character is a decimal digit -/
def IsDigits (s : Str) : Prop := ∀ c ∈ s, 48 ≤ c ∧ c ≤ 57

/-- the step of `digitsVal` -/
def dstep (acc : Option Nat) (c : Nat) : Option Nat :=
  match acc with
  | some a => if 48 ≤ c ∧ c ≤ 57 then some (a * 10 + (c - 48)) else none
  | none => none

/-- the value of a digit string continuing the number `a` -/
def dnum (a : Nat) (s : Str) : Nat := s.foldl (fun a c => a * 10 + (c - 48)) a

theorem cli_digitsVal_eq (s : Str) : digitsVal s = s.foldl dstep (some 0) := by
  cases s with
  | nil => rfl
  | cons c cs => rfl

theorem cli_foldl_dstep : ∀ (s : Str) (a : Nat), IsDigits s →
    s.foldl dstep (some a) = some (dnum a s)
  | [], a, _ => rfl
  | c :: cs, a, h => by
    have hc : 48 ≤ c ∧ c ≤ 57 := h c (by simp)
    have hcs : IsDigits cs := fun x hx => h x (by simp [hx])
    simp only [List.foldl_cons, dstep, if_pos hc, dnum]
    exact cli_foldl_dstep cs _ hcs

theorem cli_digitsVal_of_digits (s : Str) (h : IsDigits s) : digitsVal s = some (dnum 0 s) := by
  rw [cli_digitsVal_eq, cli_foldl_dstep s 0 h]

theorem cli_dnum_append (a : Nat) (s t : Str) : dnum a (s ++ t) = dnum (dnum a s) t := by
  simp only [dnum, List.foldl_append]

theorem cli_dnum_replicate_zero : ∀ j : Nat, dnum 0 (List.replicate j 48) = 0
  | 0 => rfl
  | j + 1 => by
    rw [List.replicate_succ]
    simp only [dnum, List.foldl_cons]
    exact cli_dnum_replicate_zero j

theorem cli_isDigits_append {s t : Str} (hs : IsDigits s) (ht : IsDigits t) : IsDigits (s ++ t) := by
  intro c hc
  rcases List.mem_append.1 hc with h | h
  · exact hs c h
  · exact ht c h

theorem cli_isDigits_replicate (j : Nat) : IsDigits (List.replicate j 48) := by
  intro c hc
  have := List.eq_of_mem_replicate hc
  omega

theorem cli_isDigits_not_mem {s : Str} (hs : IsDigits s) {c : Nat} (hc : c < 48 ∨ 57 < c) : c ∉ s := by
  intro hm
  have := hs c hm
  omega

/-- `natDigitsAux` with enough fuel: the decimal digits of `n` in front of `acc` -/
theorem cli_natDigitsAux_spec : ∀ (fuel n : Nat) (acc : Str), n < fuel →
    ∃ d, natDigitsAux fuel n acc = d ++ acc ∧ IsDigits d ∧ d ≠ [] ∧ dnum 0 d = n ∧
      ∀ k, 1 ≤ k → n < 10 ^ k → d.length ≤ k
  | 0, n, acc, h => absurd h (Nat.not_lt_zero n)
  | fuel + 1, n, acc, h => by
    unfold natDigitsAux
    split
    · next hlt =>
      refine ⟨[48 + n], rfl, ?_, by simp, ?_, ?_⟩
      · intro c hc
        simp only [List.mem_singleton] at hc
        omega
      · simp only [dnum, List.foldl_cons, List.foldl_nil]
        omega
      · intro k hk _
        simpa using hk
    · next hge =>
      have hlt' : n / 10 < fuel := by omega
      obtain ⟨d, hd, hdig, _, hval, hlen⟩ := cli_natDigitsAux_spec fuel (n / 10) ((48 + n % 10) :: acc) hlt'
      refine ⟨d ++ [48 + n % 10], ?_, ?_, by simp, ?_, ?_⟩
      · rw [hd]; simp
      · apply cli_isDigits_append hdig
        intro c hc
        simp only [List.mem_singleton] at hc
        omega
      · rw [cli_dnum_append, hval]
        simp only [dnum, List.foldl_cons, List.foldl_nil]
        omega
      · intro k hk hn
        have hk2 : 2 ≤ k := by
          rcases Nat.lt_or_ge k 2 with h1 | h2
          · have : k = 1 := by omega
            subst this
            simp at hn
            omega
          · exact h2
        have hpow : 10 ^ k = 10 * 10 ^ (k - 1) := by
          have : k = (k - 1) + 1 := by omega
          rw [this, Nat.pow_succ, Nat.mul_comm]
          simp
        have hdiv : n / 10 < 10 ^ (k - 1) := by
          apply Nat.div_lt_of_lt_mul
          rw [← hpow]; exact hn
        have := hlen (k - 1) (by omega) hdiv
        simp only [List.length_append, List.length_singleton]
        omega

theorem cli_ofNat_spec (n : Nat) :
    IsDigits (Str.ofNat n) ∧ Str.ofNat n ≠ [] ∧ dnum 0 (Str.ofNat n) = n ∧
      ∀ k, 1 ≤ k → n < 10 ^ k → (Str.ofNat n).length ≤ k := by
  obtain ⟨d, hd, h1, h2, h3, h4⟩ := cli_natDigitsAux_spec (n + 1) n [] (Nat.lt_succ_self n)
  have : Str.ofNat n = d := by simpa [Str.ofNat] using hd
  rw [this]
  exact ⟨h1, h2, h3, h4⟩

theorem cli_ofNat_digits (n : Nat) : IsDigits (Str.ofNat n) := (cli_ofNat_spec n).1
theorem cli_ofNat_ne_nil (n : Nat) : Str.ofNat n ≠ [] := (cli_ofNat_spec n).2.1
theorem cli_ofNat_val (n : Nat) : digitsVal (Str.ofNat n) = some n := by
  rw [cli_digitsVal_of_digits _ (cli_ofNat_digits n), (cli_ofNat_spec n).2.2.1]

theorem cli_padDigits_spec (m : Nat) (hm : m < 10 ^ 6) :
    IsDigits (padDigits 6 m) ∧ (padDigits 6 m).length = 6 ∧ dnum 0 (padDigits 6 m) = m := by
  obtain ⟨hd, _, hv, hl⟩ := cli_ofNat_spec m
  have hlen := hl 6 (by omega) hm
  refine ⟨?_, ?_, ?_⟩
  · exact cli_isDigits_append (cli_isDigits_replicate _) hd
  · simp only [padDigits, List.length_append, List.length_replicate]
    omega
  · simp only [padDigits]
    rw [cli_dnum_append, cli_dnum_replicate_zero, hv]

/-! ### `fmt8` read back -/

/-- `readFmt8` after the sign -/
def readBody (neg : Bool) (body : Str) : Option Int :=
  match splitOn 46 body with
  | [ip, fp] =>
    if fp.length = 8 ∧ ip ≠ [] then
      match digitsVal ip, digitsVal fp with
      | some i, some f =>
        if (f * 64) % 100000000 = 0 then
          let k : Int := (i * 64 + f * 64 / 100000000 : Nat)
          some (if neg then -k else k)
        else none
      | _, _ => none
    else none
  | _ => none

theorem cli_readFmt8_neg (r : Str) : readFmt8 (45 :: r) = readBody true r := rfl

theorem cli_readFmt8_pos (s : Str) (h : s.head? ≠ some 45) : readFmt8 s = readBody false s := by
  unfold readFmt8
  split
  · next neg body hm =>
    split at hm
    · next r => simp at h
    · cases hm; rfl

/-- the unsigned text `i.ffffff00` reads back to `i * 64 + f` -/
theorem cli_readBody (neg : Bool) (a : Nat) :
    readBody neg (Str.ofNat (a / 64) ++ [46] ++ padDigits 6 ((a % 64) * 15625) ++ [48, 48]) =
      some (if neg then -(a : Int) else (a : Int)) := by
  have hm : (a % 64) * 15625 < 10 ^ 6 := by
    have : a % 64 < 64 := Nat.mod_lt _ (by omega)
    omega
  obtain ⟨hpd, hpl, hpv⟩ := cli_padDigits_spec _ hm
  have hid := cli_ofNat_digits (a / 64)
  have hfd : IsDigits (padDigits 6 ((a % 64) * 15625) ++ [48, 48]) := by
    apply cli_isDigits_append hpd
    intro c hc
    simp only [List.mem_cons, List.not_mem_nil, or_false] at hc
    omega
  have hsplit : splitOn 46 (Str.ofNat (a / 64) ++ [46] ++ padDigits 6 ((a % 64) * 15625) ++ [48, 48]) =
      [Str.ofNat (a / 64), padDigits 6 ((a % 64) * 15625) ++ [48, 48]] := by
    have : Str.ofNat (a / 64) ++ [46] ++ padDigits 6 ((a % 64) * 15625) ++ [48, 48] =
        Str.ofNat (a / 64) ++ 46 :: (padDigits 6 ((a % 64) * 15625) ++ [48, 48]) := by simp
    rw [this, C05.splitOn_sep _ _ _ (cli_isDigits_not_mem hid (Or.inl (by omega))),
      C05.splitOn_last _ _ (cli_isDigits_not_mem hfd (Or.inl (by omega)))]
  have hfv : digitsVal (padDigits 6 ((a % 64) * 15625) ++ [48, 48]) = some ((a % 64) * 15625 * 100) := by
    rw [cli_digitsVal_of_digits _ hfd, cli_dnum_append, hpv]
    simp only [dnum, List.foldl_cons, List.foldl_nil]
    congr 1
    omega
  have hlen : (padDigits 6 ((a % 64) * 15625) ++ [48, 48]).length = 8 := by
    simp [hpl]
  unfold readBody
  rw [hsplit]
  simp only [hlen, cli_ofNat_ne_nil, ne_eq, not_false_eq_true, and_self, if_true, cli_ofNat_val, hfv]
  have h1 : (a % 64) * 15625 * 100 * 64 % 100000000 = 0 := by omega
  have h2 : a / 64 * 64 + (a % 64) * 15625 * 100 * 64 / 100000000 = a := by omega
  rw [if_pos h1, h2]

theorem cli_fmt8_roundtrip (k : Int) : readFmt8 (fmt8 k) = some k := by
  by_cases hk : k < 0
  · have hf : fmt8 k = 45 :: (Str.ofNat (k.natAbs / 64) ++ [46] ++ padDigits 6 ((k.natAbs % 64) * 15625) ++ [48, 48]) := by
      simp [fmt8, hk]
    rw [hf, cli_readFmt8_neg, cli_readBody true k.natAbs]
    simp only [if_true]
    congr 1
    omega
  · have hf : fmt8 k = Str.ofNat (k.natAbs / 64) ++ [46] ++ padDigits 6 ((k.natAbs % 64) * 15625) ++ [48, 48] := by
      simp [fmt8, hk]
    rw [hf, cli_readFmt8_pos, cli_readBody false k.natAbs]
    · simp only [Bool.false_eq_true, if_false]
      congr 1
      omega
    · obtain ⟨hd, hne, _⟩ := cli_ofNat_spec (k.natAbs / 64)
      cases hs : Str.ofNat (k.natAbs / 64) with
      | nil => exact absurd hs hne
      | cons c cs =>
        have := hd c (by rw [hs]; simp)
        simp only [List.append_assoc, List.cons_append, List.head?_cons, ne_eq, Option.some.injEq]
        omega

/-! ### the score text is a legal score text -/

theorem cli_digit_not_space (c : Nat) (h : 48 ≤ c ∧ c ≤ 57) : isPySpace c = false := by
  simp [isPySpace]
  omega

theorem cli_fmt8_no_space (k : Int) : ∀ c ∈ fmt8 k, isPySpace c = false := by
  intro c hc
  have h45 : isPySpace 45 = false := by decide
  have h46 : isPySpace 46 = false := by decide
  have h48 : isPySpace 48 = false := by decide
  have hm : (k.natAbs % 64) * 15625 < 10 ^ 6 := by
    have : k.natAbs % 64 < 64 := Nat.mod_lt _ (by omega)
    omega
  unfold fmt8 at hc
  simp only [List.mem_append, List.mem_cons, List.not_mem_nil, or_false] at hc
  rcases hc with ((((hc | hc) | hc) | hc) | hc)
  · split at hc
    · simp only [List.mem_cons, List.not_mem_nil, or_false] at hc
      rw [hc]; exact h45
    · simp at hc
  · exact cli_digit_not_space c (cli_ofNat_digits _ c hc)
  · rw [hc]; exact h46
  · exact cli_digit_not_space c ((cli_padDigits_spec _ hm).1 c hc)
  · rcases hc with hc | hc <;> (rw [hc]; exact h48)

theorem cli_scoreText_ok (k : Option Int) : ScoreOK (scoreText k) := by
  apply fl_scoreOK_of_all
  cases k with
  | none => decide
  | some k =>
    rw [List.all_eq_true]
    intro c hc
    simp only [scoreText] at hc
    simp [cli_fmt8_no_space k c hc]

/-! ### `split` of joined fields -/

theorem cli_splitOn_joinSep (c : Nat) : ∀ (ws : List Str), ws ≠ [] → (∀ w ∈ ws, c ∉ w) →
    splitOn c (joinSep c ws) = ws
  | [], h, _ => absurd rfl h
  | [w], _, hw => by
    simp only [joinSep]
    exact C05.splitOn_last c w (hw w (by simp))
  | w :: v :: rest, _, hw => by
    simp only [joinSep]
    rw [C05.splitOn_sep c w _ (hw w (by simp)),
      cli_splitOn_joinSep c (v :: rest) (by simp) (fun x hx => hw x (by simp [hx]))]

theorem cli_mapExcept_ok {α β : Type} (f : α → β) : ∀ (l : List α),
    Cli.mapExcept (fun x => (Except.ok (f x) : Except Err β)) l = .ok (l.map f)
  | [] => rfl
  | x :: xs => by simp only [Cli.mapExcept, cli_mapExcept_ok f xs, List.map_cons]

theorem cli_mapExcept_map_ok {α β : Type} (g : β → Except Err α) (f : α → β) : ∀ (l : List α),
    (∀ x ∈ l, g (f x) = .ok x) → Cli.mapExcept g (l.map f) = .ok l
  | [], _ => rfl
  | x :: xs, h => by
    simp only [List.map_cons, Cli.mapExcept, h x (by simp),
      cli_mapExcept_map_ok g f xs (fun y hy => h y (by simp [hy]))]

theorem cli_mapExcept_id_map {α β : Type} (f : α → Except Err β) : ∀ (l : List α),
    Cli.mapExcept (fun r => r) (l.map f) = Cli.mapExcept f l
  | [] => rfl
  | x :: xs => by
    simp only [List.map_cons, Cli.mapExcept, cli_mapExcept_id_map f xs]

theorem cli_ofPiped (w l p e c : Str) (hw : NoBar w) (hl : NoBar l) (hp : NoBar p) (he : NoBar e)
    (hc : NoBar c) :
    ofPiped (joinSep cBar [w, l, p, e, c]) =
      .ok [(lit "word", w), (lit "lemma", l), (lit "pos", p), (lit "entity", e), (lit "chunk", c)] ∧
    ofPiped (joinSep cBar [w, l, p, e]) =
      .ok [(lit "word", w), (lit "lemma", l), (lit "pos", p), (lit "entity", e), (lit "chunk", lit "XX")] ∧
    ofPiped (joinSep cBar [w, p, e]) =
      .ok [(lit "word", w), (lit "lemma", lit "XX"), (lit "pos", p), (lit "entity", e), (lit "chunk", lit "XX")] := by
  have h5 : splitOn cBar (joinSep cBar [w, l, p, e, c]) = [w, l, p, e, c] := by
    apply cli_splitOn_joinSep _ _ (by simp)
    intro x hx
    simp only [List.mem_cons, List.not_mem_nil, or_false] at hx
    rcases hx with rfl | rfl | rfl | rfl | rfl <;> assumption
  have h4 : splitOn cBar (joinSep cBar [w, l, p, e]) = [w, l, p, e] := by
    apply cli_splitOn_joinSep _ _ (by simp)
    intro x hx
    simp only [List.mem_cons, List.not_mem_nil, or_false] at hx
    rcases hx with rfl | rfl | rfl | rfl <;> assumption
  have h3 : splitOn cBar (joinSep cBar [w, p, e]) = [w, p, e] := by
    apply cli_splitOn_joinSep _ _ (by simp)
    intro x hx
    simp only [List.mem_cons, List.not_mem_nil, or_false] at hx
    rcases hx with rfl | rfl | rfl <;> assumption
  refine ⟨?_, ?_, ?_⟩
  · unfold ofPiped; rw [h5]
  · unfold ofPiped; rw [h4]
  · unfold ofPiped; rw [h3]

theorem cli_tokensOfLine (ws : List Str) (hne : ws ≠ []) (hw : ∀ w ∈ ws, NoBlank w) :
    tokensOfLine false (joinSep cSpace ws) = .ok (ws.map Token.ofWord) := by
  unfold tokensOfLine
  rw [cli_splitOn_joinSep cSpace ws hne hw]
  simp only [Bool.false_eq_true, if_false]
  exact cli_mapExcept_ok Token.ofWord ws

theorem cli_rootsOf (cs : List Cat) (hne : cs ≠ []) (h : ∀ c ∈ cs, C05.WF c ∧ NoBar c.str) :
    rootsOf (joinSep cBar (cs.map Cat.str)) = .ok cs := by
  unfold rootsOf
  rw [cli_splitOn_joinSep cBar (cs.map Cat.str) (by simpa using hne)]
  · exact cli_mapExcept_map_ok Cat.parse Cat.str cs (fun c hc => C05.parse_print c (h c hc).1)
  · intro w hw
    obtain ⟨c, hc, rfl⟩ := List.mem_map.1 hw
    exact (h c hc).2

/-! ### the whole program -/

/-- with the three readers successful, the program prints the records of `map solo` -/
theorem cli_mainText_ok (G : GlueRun.CatGrammar) (o : Opts) (lines tagCats : List Str) (scores : List Scores)
    (roots categories : List Cat) (doc : List (List Token))
    (hr : rootsOf o.rootCats = .ok roots) (hd : Cli.mapExcept (tokensOfLine o.piped) lines = .ok doc)
    (hc : Cli.mapExcept Cat.parse tagCats = .ok categories) (hnd : categories.Nodup)
    (hlex : ∀ x ∈ zipSents doc scores, LexOK categories x) :
    mainText G o lines tagCats scores =
      match Cli.mapExcept (fun x => (sentenceL pickHeap G (addRoots categories roots).2 o.cfg (some o.maxLength)
          (GlueRun.init categories roots) x).1) (zipSents doc scores) with
      | .error e => .error e
      | .ok results => printText o.format results := by
  unfold mainText
  simp only [hr, hd, hc]
  rw [parsing_run_eq_map_solo G categories roots o.cfg (some o.maxLength) 20 o.procs (zipSents doc scores) hnd hlex]
  simp only [cli_mapExcept_id_map]
  cases Cli.mapExcept (fun x => (sentenceL pickHeap G (addRoots categories roots).2 o.cfg (some o.maxLength)
      (GlueRun.init categories roots) x).1) (zipSents doc scores) <;> rfl

theorem cli_main_eq_map_solo : MainEqMapSoloStatement := by
  intro G o lines tagCats scores roots categories doc hr hd hc hnd hlex results hres
  rw [cli_mainText_ok G o lines tagCats scores roots categories doc hr hd hc hnd hlex, hres]

theorem cli_main_procs_irrelevant : MainProcsIrrelevantStatement := by
  intro G o procs' lines tagCats scores categories hc hnd hlex
  cases hr : rootsOf o.rootCats with
  | error e => simp only [mainText, hr]
  | ok roots =>
    cases hd : Cli.mapExcept (tokensOfLine o.piped) lines with
    | error e => simp only [mainText, hr, hd]
    | ok doc =>
      rw [cli_mainText_ok G o lines tagCats scores roots categories doc hr hd hc hnd (hlex doc hd),
        cli_mainText_ok G { o with procs := procs' } lines tagCats scores roots categories doc hr hd hc hnd
          (hlex doc hd)]

/-! ### the AUTO text is read back -/

theorem cli_scored_batchOK (lang : Lang) (results : List SentResult)
    (h : ∀ r ∈ results, ∀ ts ∈ scored r, AutoTreeOK lang ts.1) :
    BatchOK (AutoTreeOK lang) (results.map scored) := by
  intro trees htr ts hts
  obtain ⟨r, hr, rfl⟩ := List.mem_map.1 htr
  refine ⟨h r hr ts hts, ?_⟩
  cases r with
  | failed =>
    simp only [scored, List.mem_singleton] at hts
    rw [hts]
    exact cli_scoreText_ok none
  | parsed l =>
    simp only [scored] at hts
    obtain ⟨tk, _, rfl⟩ := List.mem_map.1 hts
    exact cli_scoreText_ok (some tk.2)

/-- the newline `print` adds is not seen by `read_auto` -/
theorem cli_readAutoFile_newline (lang : Lang) (t : Str) :
    readAutoFile lang (t ++ [10]) = readAutoFile lang t := by
  rw [fl_readAutoFile_split, fl_readAutoFile_split, C08.splitOn_append_sep, fl_splitOn_nil,
    fl_readAutoLoop_snoc_nil]

theorem cli_main_auto_reads_back : MainAutoReadsBackStatement := by
  intro lang results text hok hp
  have hp' : (match toStringLines Fmt.auto.fn (Fmt.auto == Fmt.conll) (results.map scored) with
      | .error e => Except.error e
      | .ok s => Except.ok (s ++ [10])) = Except.ok text := hp
  have hp := hp'
  have hf : (Fmt.auto == Fmt.conll) = false := by decide
  rw [hf] at hp
  cases ht : toStringLines Fmt.auto.fn false (results.map scored) with
  | error e => rw [ht] at hp; cases hp
  | ok t0 =>
    rw [ht] at hp
    cases hp
    obtain ⟨rs, h1, h2⟩ := auto_file_roundtrip lang (results.map scored) t0
      (cli_scored_batchOK lang results hok) ht
    exact ⟨rs, h1, by rw [cli_readAutoFile_newline, h2]⟩

end Depccg.CliProps
