/-
  Lemmas for the file-level round trips (`Props/File.lean`); statements in `Props/FileDefs.lean`.
-/
import Depccg.Props.FileDefs
import Depccg.Proofs.C08Lemmas
import Depccg.Proofs.C20Lemmas
import Depccg.Props.C08
import Depccg.Props.C20

namespace Depccg.FileProps
open Depccg Str Print Read TextProps C20

/-! ### `strip` -/

theorem fl_lstrip_cons {a : Nat} {r : Str} (h : isPySpace a = false) : lstrip (a :: r) = a :: r := by
  simp [lstrip, List.dropWhile, h]

theorem fl_rstrip_snoc {b : Nat} {p : Str} (h : isPySpace b = false) : rstrip (p ++ [b]) = p ++ [b] := by
  simp [rstrip, h]

theorem fl_eq_snoc_of_getLast? {s : Str} {b : Nat} (h : s.getLast? = some b) : ∃ p, s = p ++ [b] := by
  rcases C20.eq_nil_or_snoc s with rfl | ⟨p, x, rfl⟩
  · simp at h
  · simp at h; subst h; exact ⟨p, rfl⟩

theorem fl_eq_cons_of_head? {s : Str} {a : Nat} (h : s.head? = some a) : ∃ r, s = a :: r := by
  cases s with
  | nil => simp at h
  | cons x r => simp at h; subst h; exact ⟨r, rfl⟩

theorem fl_strip_noop (s : Str) (a b : Nat) (ha : s.head? = some a) (hb : s.getLast? = some b)
    (hna : isPySpace a = false) (hnb : isPySpace b = false) : strip s = s := by
  obtain ⟨r, hr⟩ := fl_eq_cons_of_head? ha
  obtain ⟨p, hp⟩ := fl_eq_snoc_of_getLast? hb
  unfold strip
  rw [hr, fl_lstrip_cons hna, ← hr, hp, fl_rstrip_snoc hnb]

/-- the form used for printed lines: known first and last characters -/
theorem fl_strip_ends {s r p : Str} {a b : Nat} (hr : s = a :: r) (hp : s = p ++ [b])
    (hna : isPySpace a = false) (hnb : isPySpace b = false) : strip s = s := by
  apply fl_strip_noop s a b _ _ hna hnb
  · rw [hr]; rfl
  · rw [hp]; simp

theorem fl_dropWhile_all {p : Nat → Bool} : ∀ (s : Str), (∀ c ∈ s, p c = true) → s.dropWhile p = []
  | [], _ => rfl
  | x :: xs, h => by
    have hx : p x = true := h x (by simp)
    simp only [List.dropWhile, hx]
    exact fl_dropWhile_all xs (fun c hc => h c (List.mem_cons_of_mem _ hc))

theorem fl_strip_blank (s : Str) (h : ∀ c ∈ s, isPySpace c = true) : strip s = [] := by
  simp [strip, lstrip, rstrip, fl_dropWhile_all s h]

theorem fl_strip_nil : strip [] = [] := rfl

theorem fl_dropWhile_head {p : Nat → Bool} : ∀ (s : Str) (a : Nat),
    (s.dropWhile p).head? = some a → p a = false
  | [], _, h => by simp at h
  | x :: xs, a, h => by
    cases hx : p x with
    | true => simp only [List.dropWhile, hx] at h; exact fl_dropWhile_head xs a h
    | false => simp only [List.dropWhile, hx] at h; simp at h; subst h; exact hx

theorem fl_rstrip_last (s : Str) (b : Nat) (h : (rstrip s).getLast? = some b) : isPySpace b = false := by
  unfold rstrip at h
  rw [List.getLast?_reverse] at h
  exact fl_dropWhile_head _ b h

theorem fl_dropWhile_suffix {p : Nat → Bool} : ∀ (s : Str), ∃ q, s = q ++ s.dropWhile p
  | [] => ⟨[], rfl⟩
  | x :: xs => by
    cases hx : p x with
    | true =>
      obtain ⟨q, hq⟩ := fl_dropWhile_suffix (p := p) xs
      refine ⟨x :: q, ?_⟩
      simp only [List.dropWhile, hx, List.cons_append]
      rw [← hq]
    | false => exact ⟨[], by simp [List.dropWhile, hx]⟩

/-- `rstrip` keeps a prefix -/
theorem fl_rstrip_prefix (s : Str) : ∃ q, s = rstrip s ++ q := by
  obtain ⟨q, hq⟩ := fl_dropWhile_suffix (p := isPySpace) s.reverse
  refine ⟨q.reverse, ?_⟩
  have := congrArg List.reverse hq
  simpa [rstrip] using this

theorem fl_rstrip_head (s : Str) (a a' : Nat) (hs : s.head? = some a)
    (h : (rstrip s).head? = some a') : a' = a := by
  obtain ⟨q, hq⟩ := fl_rstrip_prefix s
  cases hr : rstrip s with
  | nil => rw [hr] at h; simp at h
  | cons x r =>
    rw [hr] at h hq
    simp at h
    rw [hq] at hs
    simp at hs
    omega

theorem fl_strip_head (s : Str) (a : Nat) (h : (strip s).head? = some a) : isPySpace a = false := by
  unfold strip at h
  cases hl : lstrip s with
  | nil => rw [hl] at h; simp [rstrip] at h
  | cons x r =>
    have hx : isPySpace x = false := fl_dropWhile_head s x (by
      have : (lstrip s).head? = some x := by rw [hl]; rfl
      exact this)
    rw [hl] at h
    have := fl_rstrip_head (x :: r) x a rfl h
    rw [this]; exact hx

theorem fl_strip_last (s : Str) (b : Nat) (h : (strip s).getLast? = some b) : isPySpace b = false :=
  fl_rstrip_last _ b h

theorem fl_strip_idem (s : Str) : strip (strip s) = strip s := by
  cases hs : strip s with
  | nil => rfl
  | cons x r =>
    have hne : (x :: r) ≠ [] := by simp
    have hl : (x :: r).getLast? = some ((x :: r).getLast hne) := List.getLast?_eq_some_getLast hne
    apply fl_strip_noop (x :: r) x _ rfl hl
    · exact fl_strip_head s x (by rw [hs]; rfl)
    · exact fl_strip_last s _ (by rw [hs]; exact hl)

/-! ### the lines of a file; a final empty line is harmless -/

theorem fl_fileLines_cases (text : Str) :
    fileLines text = splitOn 10 text ∨ fileLines text ++ [[]] = splitOn 10 text := by
  unfold fileLines
  simp only
  split
  · next h =>
    right
    rcases C20.eq_nil_or_snoc (splitOn 10 text) with hn | ⟨p, x, hp⟩
    · exact absurd hn (C08.splitOn_ne_nil 10 text)
    · rw [hp] at h ⊢
      simp at h
      subst h
      simp
  · left; rfl

theorem fl_readAutoLoop_snoc_nil (lang : Lang) : ∀ (ls : List Str) (name : Option Str),
    readAutoLoop lang (ls ++ [[]]) name = readAutoLoop lang ls name
  | [], name => by simp [readAutoLoop, fl_strip_nil]
  | l :: rest, name => by
    simp only [List.cons_append, readAutoLoop, fl_readAutoLoop_snoc_nil lang rest]

theorem fl_readPtbLoop_snoc_nil (lang : Lang) : ∀ (ls : List Str) (i : Nat) (name : Option Str),
    readPtbLoop lang (ls ++ [[]]) i name = readPtbLoop lang ls i name
  | [], i, name => by simp [readPtbLoop, fl_strip_nil]
  | l :: rest, i, name => by
    simp only [List.cons_append, readPtbLoop, fl_readPtbLoop_snoc_nil lang rest]

theorem fl_readJaLoop_snoc_nil : ∀ (ls : List Str) (i : Nat),
    readJaLoop (ls ++ [[]]) i = readJaLoop ls i
  | [], i => by simp [readJaLoop, fl_strip_nil]
  | l :: rest, i => by
    simp only [List.cons_append, readJaLoop, fl_readJaLoop_snoc_nil rest]

/-- the readers do not see whether the lines are cut Python's way or by a plain `split('\n')` -/
theorem fl_readAutoFile_split (lang : Lang) (text : Str) :
    readAutoFile lang text = readAutoLoop lang (splitOn 10 text) none := by
  unfold readAutoFile
  rcases fl_fileLines_cases text with h | h
  · rw [h]
  · rw [← h, fl_readAutoLoop_snoc_nil]

theorem fl_readPtbFile_split (lang : Lang) (text : Str) :
    readPtbFile lang text = readPtbLoop lang (splitOn 10 text) 0 none := by
  unfold readPtbFile
  rcases fl_fileLines_cases text with h | h
  · rw [h]
  · rw [← h, fl_readPtbLoop_snoc_nil]

theorem fl_readJaFile_split (text : Str) :
    readJaFile text = readJaLoop (splitOn 10 text) 0 := by
  unfold readJaFile
  rcases fl_fileLines_cases text with h | h
  · rw [h]
  · rw [← h, fl_readJaLoop_snoc_nil]

/-! ### kinds of lines -/

/-- a line the readers take for a tree line, unchanged by `strip` -/
def TreeLine (s : Str) : Prop :=
  10 ∉ s ∧ strip s = s ∧ s.isEmpty = false ∧ startsWith s (lit "ID") = false

/-- a line the readers take for an `ID` line, unchanged by `strip` -/
def IdLine (s : Str) : Prop :=
  10 ∉ s ∧ strip s = s ∧ s.isEmpty = false ∧ startsWith s (lit "ID") = true

theorem fl_lit_ID : lit "ID" = [73, 68] := by decide
theorem fl_lit_IDeq : lit "ID=" = [73, 68, 61] := by decide

theorem fl_treeLine_of_ends {s r p : Str} {a b : Nat} (h10 : 10 ∉ s) (hr : s = a :: r)
    (hp : s = p ++ [b]) (hna : isPySpace a = false) (hnb : isPySpace b = false) (ha : a ≠ 73) :
    TreeLine s := by
  refine ⟨h10, fl_strip_ends hr hp hna hnb, ?_, ?_⟩
  · rw [hr]; rfl
  · rw [hr, fl_lit_ID]; simp [startsWith, ha]

theorem fl_header_idLine (i : Nat) (sc : Str) (h : ScoreOK sc) : IdLine (header false i sc) := by
  have hh : header false i sc = 73 :: (68 :: 61 :: (Str.ofNat i ++ lit ", log probability=" ++ sc)) := by
    simp [header, fl_lit_IDeq]
  have hlit : (10 : Nat) ∉ lit ", log probability=" := by decide
  refine ⟨?_, ?_, ?_, ?_⟩
  · rw [hh]
    intro hm
    simp only [List.mem_cons, List.mem_append] at hm
    rcases hm with hm | hm | hm | (hm | hm) | hm
    · omega
    · omega
    · omega
    · exact C08.ofNat_no10 i hm
    · exact hlit hm
    · exact h.1 hm
  · rcases C20.eq_nil_or_snoc sc with rfl | ⟨q, x, rfl⟩
    · have hl : lit ", log probability=" = lit ", log probability" ++ [61] := by decide
      refine fl_strip_ends (b := 61) (p := 73 :: 68 :: 61 :: (Str.ofNat i ++ lit ", log probability"))
        hh ?_ (by decide) (by decide)
      rw [hh, hl]; simp
    · have hx : isPySpace x = false := h.2 x (by simp)
      refine fl_strip_ends (b := x) (p := 73 :: 68 :: 61 :: (Str.ofNat i ++ lit ", log probability=" ++ q))
        hh ?_ (by decide) hx
      rw [hh]; simp
  · rw [hh]; rfl
  · rw [hh, fl_lit_ID]; simp [startsWith]

/-! ### printed AUTO lines are tree lines -/

theorem fl_last_append (a b : Str) (x : Nat) (h : b.getLast? = some x) : (a ++ b).getLast? = some x := by
  rw [List.getLast?_append, h]; rfl

theorem fl_last_cons (a : Nat) (b : Str) (x : Nat) (h : b.getLast? = some x) :
    (a :: b).getLast? = some x := fl_last_append [a] b x h

/-- the last character of a nest of `::` / `++` ending in a literal -/
macro "fl_last" : tactic =>
  `(tactic| repeat (first | rfl | apply fl_last_append | apply fl_last_cons))

theorem fl_autoOf_noTN : ∀ (t : Tree) (s : Str), AllCats CatOK t → AllToks TokOK t →
    autoOf t = .ok s → C08.NoTN s
  | .leaf c tok a b, s, hc, ht, h => by
    obtain ⟨w, hw, rfl⟩ := C08.autoOf_leaf_inv h
    obtain ⟨w', hw', hp⟩ := C08.TokOK.word ht
    rw [hw] at hw'; cases hw'
    exact C08.leafText_noTN hc (C08.pos_plain ht C08.POS_plain) (C08.denormalize_plain hp)
  | .un c a b ch, s, hc, ht, h => by
    obtain ⟨s', hs', rfl⟩ := C08.autoOf_un_inv h
    have ih := fl_autoOf_noTN ch s' hc.2 ht hs'
    have hsp : (32 : Nat) ≠ 9 ∧ (32 : Nat) ≠ 10 := by decide
    exact (C08.unHead_noTN hc.1).append (C08.NoTN.cons hsp (ih.append
      (C08.NoTN.cons hsp (C08.noTN_closed [41] (by decide)))))
  | .bin c a b hd l r, s, hc, ht, h => by
    obtain ⟨sl, sr, hl, hr, rfl⟩ := C08.autoOf_bin_inv h
    have ihl := fl_autoOf_noTN l sl hc.2.1 ht.1 hl
    have ihr := fl_autoOf_noTN r sr hc.2.2 ht.2 hr
    have hsp : (32 : Nat) ≠ 9 ∧ (32 : Nat) ≠ 10 := by decide
    exact (C08.binHead_noTN hc.1 hd).append (C08.NoTN.cons hsp (ihl.append (C08.NoTN.cons hsp
      (ihr.append (C08.NoTN.cons hsp (C08.noTN_closed [41] (by decide)))))))

theorem fl_autoOf_last : ∀ (t : Tree) (s : Str), autoOf t = .ok s → ∃ p, s = p ++ [41]
  | .leaf c tok a b, s, h => by
    obtain ⟨w, _, rfl⟩ := C08.autoOf_leaf_inv h
    exact fl_eq_snoc_of_getLast? (by simp only [C08.leafText]; fl_last)
  | .un c a b ch, s, h => by
    obtain ⟨s', _, rfl⟩ := C08.autoOf_un_inv h
    exact fl_eq_snoc_of_getLast? (by simp only [C08.unText]; fl_last)
  | .bin c a b hd l r, s, h => by
    obtain ⟨sl, sr, _, _, rfl⟩ := C08.autoOf_bin_inv h
    exact fl_eq_snoc_of_getLast? (by simp only [C08.binText]; fl_last)

theorem fl_autoOf_treeLine (t : Tree) (s : Str) (hc : AllCats CatOK t) (ht : AllToks TokOK t)
    (h : autoOf t = .ok s) : TreeLine s := by
  obtain ⟨r, hr⟩ := C08.autoOf_head h
  obtain ⟨p, hp⟩ := fl_autoOf_last t s h
  exact fl_treeLine_of_ends (fun hm => (fl_autoOf_noTN t s hc ht h 10 hm).2 rfl) hr hp
    (by decide) (by decide) (by decide)

/-! ### printed PTB lines are tree lines -/

theorem fl_ptbRec_no10 : ∀ (t : Tree) (s : Str), AllCats CatOK t → AllToks PtbTokOK t →
    ptbRec t = .ok s → 10 ∉ s := by
  intro t
  induction t with
  | leaf c tok sS sY =>
    intro s hc htok h
    obtain ⟨w, hw, _, hok⟩ := C20.ptbTok_word htok
    simp only [ptbRec, hw] at h
    injection h with h
    subst h
    have h1 := C08.catOK_no10 hc
    have h2 := C08.no10_of_plain (C08.denormalize_plain hok.1)
    simp [cLPar, cSpace, cRPar, h1, h2]
  | un c sS sY ch ih =>
    intro s hc htok h
    simp only [ptbRec] at h
    cases hch : ptbRec ch with
    | error e => simp [hch] at h
    | ok a =>
      simp only [hch] at h
      injection h with h
      subst h
      have h1 := C08.catOK_no10 hc.1
      have h2 := ih a hc.2 htok hch
      simp [cLPar, cSpace, cRPar, h1, h2]
  | bin c sS sY hd l r ihl ihr =>
    intro s hc htok h
    simp only [ptbRec] at h
    cases hl : ptbRec l with
    | error e => simp [hl] at h
    | ok a =>
      cases hr : ptbRec r with
      | error e => simp [hl, hr] at h
      | ok b =>
        simp only [hl, hr] at h
        injection h with h
        subst h
        have h1 := C08.catOK_no10 hc.1
        have h2 := ihl a hc.2.1 htok.1 hl
        have h3 := ihr b hc.2.2 htok.2 hr
        simp [cLPar, cSpace, cRPar, h1, h2, h3]

theorem fl_ptbOf_inv (t : Tree) (s : Str) (h : ptbOf t = .ok s) :
    ∃ body, ptbRec t = .ok body ∧ s = lit "(ROOT " ++ body ++ [41] := by
  unfold ptbOf at h
  cases hb : ptbRec t with
  | error e => simp [hb] at h
  | ok body =>
    simp only [hb] at h
    injection h with h
    exact ⟨body, rfl, h.symm⟩

theorem fl_ptbOf_treeLine (t : Tree) (s : Str) (hc : AllCats CatOK t) (ht : AllToks PtbTokOK t)
    (h : ptbOf t = .ok s) : TreeLine s := by
  obtain ⟨body, hb, rfl⟩ := fl_ptbOf_inv t s h
  have h10 := fl_ptbRec_no10 t body hc ht hb
  refine fl_treeLine_of_ends (a := 40) (b := 41) (r := [82, 79, 79, 84, 32] ++ body ++ [41])
    (p := lit "(ROOT " ++ body) ?_ ?_ rfl (by decide) (by decide) (by decide)
  · simp [C20.lit_root, h10]
  · simp [C20.lit_root]

/-! ### printed Japanese lines are tree lines -/

theorem fl_normalize_no10 {w : Str} (h : 10 ∉ w) : 10 ∉ normalize w := by
  unfold normalize
  repeat' split
  all_goals first | exact h | decide

theorem fl_combinators_no10 : ∀ y ∈ jaCombinators, 10 ∉ y := by decide

theorem fl_jaOf_no10 : ∀ (t : Tree) (s : Str), AllToks JaTokOK t → SymOK t → JaNoNL t →
    jaOf t = .ok s → 10 ∉ s := by
  intro t
  induction t with
  | leaf c tok sS sY =>
    intro s htok _ hnl h
    obtain ⟨⟨w, hw, hok⟩, _, _⟩ := htok
    have hw' := C20.Token.get_of_get? hw
    simp only [jaOf, hw'] at h
    injection h with h
    subst h
    have h1 : 10 ∉ c.str := hnl.1
    have h2 : 10 ∉ normalize w := fl_normalize_no10 (fun hm => (hok.1.2 10 hm).2.2.1 rfl)
    have h3 := hnl.2.1
    have h4 := hnl.2.2
    simp [cLBrace, cSpace, cSlash, cRBrace, h1, h2, h3, h4]
  | un c sS sY ch ih =>
    intro s htok hsym hnl h
    simp only [jaOf] at h
    cases hch : jaOf ch with
    | error e => simp [hch] at h
    | ok a =>
      simp only [hch] at h
      injection h with h
      subst h
      have h1 : 10 ∉ c.str := hnl.1.1
      have h2 := ih a htok hsym.2 ⟨hnl.1.2, hnl.2⟩ hch
      have h3 := fl_combinators_no10 sY hsym.1
      simp [cLBrace, cSpace, cRBrace, h1, h2, h3]
  | bin c sS sY hd l r ihl ihr =>
    intro s htok hsym hnl h
    simp only [jaOf] at h
    cases hl : jaOf l with
    | error e => simp [hl] at h
    | ok a =>
      cases hr : jaOf r with
      | error e => simp [hl, hr] at h
      | ok b =>
        simp only [hl, hr] at h
        injection h with h
        subst h
        have h1 : 10 ∉ c.str := hnl.1.1
        have h2 := ihl a htok.1 hsym.2.1 ⟨hnl.1.2.1, hnl.2.1⟩ hl
        have h3 := ihr b htok.2 hsym.2.2 ⟨hnl.1.2.2, hnl.2.2⟩ hr
        have h4 := fl_combinators_no10 sY hsym.1
        simp [cLBrace, cSpace, cRBrace, h1, h2, h3, h4]

theorem fl_jaOf_last (t : Tree) (s : Str) (h : jaOf t = .ok s) : ∃ p, s = p ++ [125] := by
  apply fl_eq_snoc_of_getLast?
  cases t with
  | leaf c tok sS sY =>
    simp only [jaOf] at h
    split at h
    · exact absurd h (by simp)
    · injection h with h; subst h; fl_last
  | un c sS sY ch =>
    simp only [jaOf] at h
    split at h
    · exact absurd h (by simp)
    · injection h with h; subst h; fl_last
  | bin c sS sY hd l r =>
    simp only [jaOf] at h
    split at h
    · injection h with h; subst h; fl_last
    · exact absurd h (by simp)
    · exact absurd h (by simp)

theorem fl_jaOf_treeLine (t : Tree) (s : Str) (htok : AllToks JaTokOK t) (hsym : SymOK t)
    (hnl : JaNoNL t) (h : jaOf t = .ok s) : TreeLine s := by
  obtain ⟨r, hr⟩ := C20.jaOf_head t s h
  obtain ⟨p, hp⟩ := fl_jaOf_last t s h
  exact fl_treeLine_of_ends (fl_jaOf_no10 t s htok hsym hnl h) hr hp (by decide) (by decide)
    (by decide)

/-! ### one step of the loops -/

theorem fl_auto_step_blank (lang : Lang) (l : Str) (rest : List Str) (name : Option Str)
    (h : strip l = []) : readAutoLoop lang (l :: rest) name = readAutoLoop lang rest name := by
  simp [readAutoLoop, h]

theorem fl_auto_step_id (lang : Lang) (l : Str) (rest : List Str) (name : Option Str)
    (h : IdLine l) : readAutoLoop lang (l :: rest) name = readAutoLoop lang rest (some l) := by
  obtain ⟨_, hs, hne, hid⟩ := h
  simp [readAutoLoop, hs, hne, hid]

theorem fl_auto_step_tree (lang : Lang) (l : Str) (rest : List Str) (n : Str)
    (h : TreeLine l) (t' : Tree) (toks : List Token) (hr : readAutoLine lang l = .ok (t', toks))
    (rs : List ReaderResult) (hrest : readAutoLoop lang rest (some n) = .ok rs) :
    readAutoLoop lang (l :: rest) (some n) = .ok ((n, toks, t') :: rs) := by
  obtain ⟨_, hs, hne, hid⟩ := h
  simp [readAutoLoop, hs, hne, hid, hr, hrest]

theorem fl_auto_step_tree_none (lang : Lang) (l : Str) (rest : List Str)
    (h : TreeLine l) (t' : Tree) (toks : List Token) (hr : readAutoLine lang l = .ok (t', toks)) :
    readAutoLoop lang (l :: rest) none = .error .runtime := by
  obtain ⟨_, hs, hne, hid⟩ := h
  simp [readAutoLoop, hs, hne, hid, hr]

theorem fl_ptb_step_blank (lang : Lang) (l : Str) (rest : List Str) (i : Nat) (name : Option Str)
    (h : strip l = []) : readPtbLoop lang (l :: rest) i name = readPtbLoop lang rest (i + 1) name := by
  simp [readPtbLoop, h]

theorem fl_ptb_step_id (lang : Lang) (l : Str) (rest : List Str) (i : Nat) (name : Option Str)
    (h : IdLine l) : readPtbLoop lang (l :: rest) i name = readPtbLoop lang rest (i + 1) (some l) := by
  obtain ⟨_, hs, hne, hid⟩ := h
  simp [readPtbLoop, hs, hne, hid]

theorem fl_ptb_step_tree (lang : Lang) (l : Str) (rest : List Str) (i : Nat) (name : Option Str)
    (h : TreeLine l) (t' : Tree) (toks : List Token) (hr : parsePtb lang l = .ok (t', toks))
    (rs : List ReaderResult) (hrest : readPtbLoop lang rest (i + 1) name = .ok rs) :
    readPtbLoop lang (l :: rest) i name =
      .ok ((name.getD (lit "ID=" ++ Str.ofNat i), toks, t') :: rs) := by
  obtain ⟨_, hs, hne, hid⟩ := h
  cases name <;> simp [readPtbLoop, hs, hne, hid, hr, hrest]

theorem fl_ja_step_blank (l : Str) (rest : List Str) (i : Nat) (h : strip l = []) :
    readJaLoop (l :: rest) i = readJaLoop rest (i + 1) := by
  simp [readJaLoop, h]

theorem fl_ja_step_tree (l : Str) (rest : List Str) (i : Nat) (h : TreeLine l) (t' : Tree)
    (toks : List Token) (hr : readJaLine l = .ok (t', toks))
    (rs : List ReaderResult) (hrest : readJaLoop rest (i + 1) = .ok rs) :
    readJaLoop (l :: rest) i = .ok ((Str.ofNat i, toks, t') :: rs) := by
  obtain ⟨_, hs, hne, _⟩ := h
  simp [readJaLoop, hs, hne, hr, hrest]

/-! ### the printed records, one by one -/

theorem fl_catExcept_cons_inv {α : Type} (f : α → Except Err Str) (x : α) (xs : List α) (text : Str)
    (h : catExcept f (x :: xs) = .ok text) :
    ∃ s r, f x = .ok s ∧ catExcept f xs = .ok r ∧ text = s ++ r := by
  simp only [catExcept] at h
  cases hx : f x with
  | error e => simp [hx] at h
  | ok s =>
    cases hr : catExcept f xs with
    | error e => simp [hx, hr] at h
    | ok r =>
      simp only [hx, hr] at h
      injection h with h
      exact ⟨s, r, rfl, rfl, h.symm⟩

theorem fl_catExcept_cons_ok {α : Type} (f : α → Except Err Str) (x : α) (xs : List α) (s r : Str)
    (hx : f x = .ok s) (hr : catExcept f xs = .ok r) : catExcept f (x :: xs) = .ok (s ++ r) := by
  simp [catExcept, hx, hr]

theorem fl_map_ok_inv {α β : Type} {x : Except Err α} {g : α → β} {y : β} (h : x.map g = .ok y) :
    ∃ a, x = .ok a ∧ y = g a := by
  cases x with
  | error e => simp [Except.map] at h
  | ok a => simp only [Except.map] at h; injection h with h; exact ⟨a, rfl, h.symm⟩

theorem fl_splitOn_nil : splitOn 10 [] = [[]] := rfl

theorem fl_mapExcept_cons_ok {α β : Type} (f : α → Except Err β) (x : α) (xs : List α) (y : β)
    (ys : List β) (hx : f x = .ok y) (hxs : mapExcept f xs = .ok ys) :
    mapExcept f (x :: xs) = .ok (y :: ys) := by
  simp [mapExcept, hx, hxs]

theorem fl_auto_records (lang : Lang) : ∀ (recs : List (Nat × (Tree × Str))) (text : Str),
    (∀ p ∈ recs, AutoTreeOK lang p.2.1 ∧ ScoreOK p.2.2) →
    catExcept (fun p : Nat × (Tree × Str) =>
      (autoOf p.2.1).map fun s => header false p.1 p.2.2 ++ [10] ++ s ++ [10]) recs = .ok text →
    ∀ name, ∃ rs,
      mapExcept (fun p : Nat × (Tree × Str) =>
        (autoImage lang p.2.1).map fun t' => (header false p.1 p.2.2, t'.tokens, t')) recs = .ok rs ∧
      readAutoLoop lang (splitOn 10 text) name = .ok rs
  | [], text, _, h, name => by
    simp only [catExcept] at h
    injection h with h
    subst h
    exact ⟨[], rfl, by simp [fl_splitOn_nil, readAutoLoop, fl_strip_nil]⟩
  | p :: recs, text, hok, h, name => by
    obtain ⟨rec, r, h1, h2, rfl⟩ := fl_catExcept_cons_inv _ _ _ _ h
    obtain ⟨s, hs, rfl⟩ := fl_map_ok_inv h1
    obtain ⟨hp, hsc⟩ := hok p (by simp)
    obtain ⟨t', him, hread⟩ := C08.auto_roundtrip lang p.2.1 s hp.1 hp.2.1 hp.2.2 hs
    obtain ⟨rs, hrs, hloop⟩ := fl_auto_records lang recs r
      (fun q hq => hok q (List.mem_cons_of_mem _ hq)) h2 (some (header false p.1 p.2.2))
    have hid := fl_header_idLine p.1 p.2.2 hsc
    have htl := fl_autoOf_treeLine p.2.1 s hp.1 hp.2.2 hs
    refine ⟨(header false p.1 p.2.2, t'.tokens, t') :: rs, ?_, ?_⟩
    · exact fl_mapExcept_cons_ok _ _ _ _ _ (by rw [him]; rfl) hrs
    · have e : header false p.1 p.2.2 ++ [10] ++ s ++ [10] ++ r
          = header false p.1 p.2.2 ++ 10 :: (s ++ 10 :: r) := by simp
      rw [e, C05.splitOn_sep 10 _ _ hid.1, C05.splitOn_sep 10 _ _ htl.1,
        fl_auto_step_id _ _ _ _ hid, fl_auto_step_tree _ _ _ _ htl t' _ hread rs hloop]

theorem fl_ptb_records (lang : Lang) : ∀ (recs : List (Nat × (Tree × Str))) (text : Str),
    (∀ p ∈ recs, PtbTreeOK lang p.2.1 ∧ ScoreOK p.2.2) →
    catExcept (fun p : Nat × (Tree × Str) =>
      (ptbOf p.2.1).map fun s => header false p.1 p.2.2 ++ [10] ++ s ++ [10]) recs = .ok text →
    ∀ i name, ∃ rs,
      mapExcept (fun p : Nat × (Tree × Str) =>
        (ptbImage lang p.2.1).map fun t' => (header false p.1 p.2.2, t'.tokens, t')) recs = .ok rs ∧
      readPtbLoop lang (splitOn 10 text) i name = .ok rs
  | [], text, _, h, i, name => by
    simp only [catExcept] at h
    injection h with h
    subst h
    exact ⟨[], rfl, by simp [fl_splitOn_nil, readPtbLoop, fl_strip_nil]⟩
  | p :: recs, text, hok, h, i, name => by
    obtain ⟨rec, r, h1, h2, rfl⟩ := fl_catExcept_cons_inv _ _ _ _ h
    obtain ⟨s, hs, rfl⟩ := fl_map_ok_inv h1
    obtain ⟨hp, hsc⟩ := hok p (by simp)
    obtain ⟨t', him, hread⟩ := C20.ptb_roundtrip lang p.2.1 s hp.1 hp.2.1 hp.2.2 hs
    obtain ⟨rs, hrs, hloop⟩ := fl_ptb_records lang recs r
      (fun q hq => hok q (List.mem_cons_of_mem _ hq)) h2 (i + 1 + 1) (some (header false p.1 p.2.2))
    have hid := fl_header_idLine p.1 p.2.2 hsc
    have htl := fl_ptbOf_treeLine p.2.1 s hp.1 hp.2.2 hs
    refine ⟨(header false p.1 p.2.2, t'.tokens, t') :: rs, ?_, ?_⟩
    · exact fl_mapExcept_cons_ok _ _ _ _ _ (by rw [him]; rfl) hrs
    · have e : header false p.1 p.2.2 ++ [10] ++ s ++ [10] ++ r
          = header false p.1 p.2.2 ++ 10 :: (s ++ 10 :: r) := by simp
      rw [e, C05.splitOn_sep 10 _ _ hid.1, C05.splitOn_sep 10 _ _ htl.1,
        fl_ptb_step_id _ _ _ _ _ hid, fl_ptb_step_tree _ _ _ _ _ htl t' _ hread rs hloop]
      rfl

/-! ### Japanese lines -/

theorem fl_ja_records : ∀ (trees : List Tree) (text : Str) (i : Nat),
    (∀ t ∈ trees, JaTreeOK t ∧ JaNoNL t) → jaFileLines trees = .ok text →
    ∃ rs, readJaLoop (splitOn 10 text) i = .ok rs ∧ Forall2 JaResultOK (trees.zipIdx i) rs
  | [], text, i, _, h => by
    simp only [jaFileLines, catExcept] at h
    injection h with h
    subst h
    exact ⟨[], by simp [fl_splitOn_nil, readJaLoop, fl_strip_nil], .nil⟩
  | t :: trees, text, i, hok, h => by
    obtain ⟨rec, r, h1, h2, rfl⟩ := fl_catExcept_cons_inv _ _ _ _ h
    obtain ⟨s, hs, rfl⟩ := fl_map_ok_inv h1
    obtain ⟨⟨hc, htok, hinfl, hsym⟩, hnl⟩ := hok t (by simp)
    obtain ⟨t', toks, him, hread, hsurf⟩ := C20.ja_roundtrip_partial t s hc htok hinfl hsym hs
    obtain ⟨rs, hloop, hrs⟩ := fl_ja_records trees r (i + 1)
      (fun q hq => hok q (List.mem_cons_of_mem _ hq)) h2
    have htl := fl_jaOf_treeLine t s htok hsym hnl hs
    refine ⟨(Str.ofNat i, toks, t') :: rs, ?_, ?_⟩
    · have e : s ++ [10] ++ r = s ++ 10 :: r := by simp
      rw [e, C05.splitOn_sep 10 _ _ htl.1, fl_ja_step_tree _ _ _ htl t' _ hread rs hloop]
    · rw [List.zipIdx_cons]
      exact .cons ⟨rfl, t', him, rfl, hsurf⟩ hrs

theorem fl_frontText_joinSep : ∀ (lines : List Str), lines ≠ [] →
    C08.frontText 10 lines = joinSep 10 lines ++ [10]
  | [], h => absurd rfl h
  | [x], _ => by simp [C08.frontText, joinSep]
  | x :: y :: r, _ => by
    have ih := fl_frontText_joinSep (y :: r) (by simp)
    simp only [C08.frontText, List.map_cons, List.flatten_cons] at ih ⊢
    rw [ih]
    simp [joinSep]

theorem fl_jaJoined_lines : ∀ (trees : List Tree) (lines : List Str),
    mapExcept jaOf trees = .ok lines → jaFileLines trees = .ok (C08.frontText 10 lines)
  | [], lines, h => by
    simp only [mapExcept] at h
    injection h with h
    subst h
    rfl
  | t :: trees, lines, h => by
    simp only [mapExcept] at h
    cases ht : jaOf t with
    | error e => simp [ht] at h
    | ok s =>
      cases hr : mapExcept jaOf trees with
      | error e => simp [ht, hr] at h
      | ok ls =>
        simp only [ht, hr] at h
        injection h with h
        subst h
        have ih := fl_jaJoined_lines trees ls hr
        simp only [jaFileLines] at ih ⊢
        have e : C08.frontText 10 (s :: ls) = (s ++ [10]) ++ C08.frontText 10 ls := by
          simp [C08.frontText]
        rw [e]
        exact fl_catExcept_cons_ok _ _ _ _ _ (by rw [ht]; rfl) ih

theorem fl_mapExcept_nil_inv {α β : Type} (f : α → Except Err β) (xs : List α)
    (h : mapExcept f xs = .ok []) : xs = [] := by
  cases xs with
  | nil => rfl
  | cons x xs =>
    simp only [mapExcept] at h
    cases hx : f x with
    | error e => simp [hx] at h
    | ok y =>
      cases hr : mapExcept f xs with
      | error e => simp [hx, hr] at h
      | ok ys => simp [hx, hr] at h

theorem fl_ja_file (trees : List Tree) (text : Str)
    (hok : ∀ t ∈ trees, JaTreeOK t ∧ JaNoNL t)
    (h : jaFileLines trees = .ok text ∨ jaFileJoined trees = .ok text) :
    ∃ rs, readJaFile text = .ok rs ∧ Forall2 JaResultOK trees.zipIdx rs := by
  rw [fl_readJaFile_split]
  rcases h with h | h
  · exact fl_ja_records trees text 0 hok h
  · obtain ⟨lines, hl, rfl⟩ := fl_map_ok_inv h
    have h' := fl_jaJoined_lines trees lines hl
    by_cases hne : lines = []
    · subst hne
      have := fl_mapExcept_nil_inv _ _ hl
      subst this
      exact ⟨[], by simp [joinSep, fl_splitOn_nil, readJaLoop, fl_strip_nil], .nil⟩
    · rw [fl_frontText_joinSep lines hne] at h'
      obtain ⟨rs, hloop, hrs⟩ := fl_ja_records trees _ 0 hok h'
      have e : joinSep 10 lines ++ [10] = joinSep 10 lines ++ 10 :: [] := rfl
      rw [e, C08.splitOn_append_sep, fl_splitOn_nil, fl_readJaLoop_snoc_nil] at hloop
      exact ⟨rs, hloop, hrs⟩

/-! ### `mapExcept` -/

theorem fl_mapExcept_spec {α β : Type} (f : α → Except Err β) : ∀ (xs : List α) (ys : List β),
    mapExcept f xs = .ok ys ↔ Forall2 (fun x y => f x = .ok y) xs ys
  | [], ys => by
    constructor
    · intro h
      simp only [mapExcept] at h
      injection h with h
      subst h
      exact .nil
    · intro h
      cases h
      rfl
  | x :: xs, ys => by
    constructor
    · intro h
      simp only [mapExcept] at h
      cases hx : f x with
      | error e => simp [hx] at h
      | ok y =>
        cases hr : mapExcept f xs with
        | error e => simp [hx, hr] at h
        | ok ys' =>
          simp only [hx, hr] at h
          injection h with h
          subst h
          exact .cons hx ((fl_mapExcept_spec f xs ys').1 hr)
    · intro h
      cases h with
      | cons hx hr => exact fl_mapExcept_cons_ok f x xs _ _ hx ((fl_mapExcept_spec f xs _).2 hr)

/-! ### a tree line before any `ID` line -/

theorem fl_blankFront_split : ∀ (pre : List Str) (rest : Str), (∀ l ∈ pre, 10 ∉ l) →
    splitOn 10 (blankFront pre ++ rest) = pre ++ splitOn 10 rest
  | [], rest, _ => by simp [blankFront]
  | l :: pre, rest, h => by
    have e : blankFront (l :: pre) ++ rest = l ++ 10 :: (blankFront pre ++ rest) := by
      simp [blankFront]
    rw [e, C05.splitOn_sep 10 _ _ (h l (by simp)),
      fl_blankFront_split pre rest (fun q hq => h q (List.mem_cons_of_mem _ hq))]
    rfl

theorem fl_auto_skip_blanks (lang : Lang) : ∀ (pre rest : List Str) (name : Option Str),
    (∀ l ∈ pre, strip l = []) → readAutoLoop lang (pre ++ rest) name = readAutoLoop lang rest name
  | [], _, _, _ => rfl
  | l :: pre, rest, name, h => by
    rw [List.cons_append, fl_auto_step_blank _ _ _ _ (h l (by simp)),
      fl_auto_skip_blanks lang pre rest name (fun q hq => h q (List.mem_cons_of_mem _ hq))]

theorem fl_ptb_skip_blanks (lang : Lang) : ∀ (pre rest : List Str) (i : Nat) (name : Option Str),
    (∀ l ∈ pre, strip l = []) →
    readPtbLoop lang (pre ++ rest) i name = readPtbLoop lang rest (i + pre.length) name
  | [], _, _, _, _ => rfl
  | l :: pre, rest, i, name, h => by
    rw [List.cons_append, fl_ptb_step_blank _ _ _ _ _ (h l (by simp)),
      fl_ptb_skip_blanks lang pre rest (i + 1) name (fun q hq => h q (List.mem_cons_of_mem _ hq))]
    simp only [List.length_cons]
    congr 1
    omega

theorem fl_split_line_post (s post : Str) (h10 : 10 ∉ s) (hpost : post = [] ∨ post.head? = some 10) :
    ∃ rest, splitOn 10 (s ++ post) = s :: rest := by
  rcases hpost with rfl | hp
  · exact ⟨[], by rw [List.append_nil]; exact C05.splitOn_last 10 s h10⟩
  · obtain ⟨r, rfl⟩ := fl_eq_cons_of_head? hp
    exact ⟨_, C05.splitOn_sep 10 s r h10⟩

theorem fl_auto_needs_id (lang : Lang) (pre : List Str) (t : Tree) (s post : Str)
    (hpre : ∀ l ∈ pre, 10 ∉ l ∧ ∀ c ∈ l, isPySpace c = true)
    (ht : AutoTreeOK lang t) (hs : autoOf t = .ok s)
    (hpost : post = [] ∨ post.head? = some 10) :
    readAutoFile lang (blankFront pre ++ s ++ post) = .error .runtime := by
  obtain ⟨t', _, hread⟩ := C08.auto_roundtrip lang t s ht.1 ht.2.1 ht.2.2 hs
  have htl := fl_autoOf_treeLine t s ht.1 ht.2.2 hs
  obtain ⟨rest, hsplit⟩ := fl_split_line_post s post htl.1 hpost
  rw [fl_readAutoFile_split, List.append_assoc, fl_blankFront_split pre _ (fun l hl => (hpre l hl).1),
    hsplit, fl_auto_skip_blanks lang pre _ _ (fun l hl => fl_strip_blank l (hpre l hl).2)]
  exact fl_auto_step_tree_none lang s rest htl t' _ hread

theorem fl_ptb_default_name (lang : Lang) (pre : List Str) (t : Tree) (s post : Str)
    (hpre : ∀ l ∈ pre, 10 ∉ l ∧ ∀ c ∈ l, isPySpace c = true)
    (ht : PtbTreeOK lang t) (hs : ptbOf t = .ok s)
    (hpost : post = [] ∨ post = [10]) :
    ∃ t', ptbImage lang t = .ok t' ∧
      readPtbFile lang (blankFront pre ++ s ++ post) =
        .ok [(lit "ID=" ++ Str.ofNat pre.length, t'.tokens, t')] := by
  obtain ⟨t', him, hread⟩ := C20.ptb_roundtrip lang t s ht.1 ht.2.1 ht.2.2 hs
  have htl := fl_ptbOf_treeLine t s ht.1 ht.2.2 hs
  refine ⟨t', him, ?_⟩
  have hsplit : ∃ rest, splitOn 10 (s ++ post) = s :: rest ∧
      readPtbLoop lang rest (0 + pre.length + 1) none = .ok [] := by
    rcases hpost with rfl | rfl
    · exact ⟨[], by rw [List.append_nil]; exact C05.splitOn_last 10 s htl.1, rfl⟩
    · exact ⟨[[]], C05.splitOn_sep 10 s [] htl.1, by simp [readPtbLoop, fl_strip_nil]⟩
  obtain ⟨rest, hsp, hrest⟩ := hsplit
  rw [fl_readPtbFile_split, List.append_assoc, fl_blankFront_split pre _ (fun l hl => (hpre l hl).1),
    hsp, fl_ptb_skip_blanks lang pre _ _ _ (fun l hl => fl_strip_blank l (hpre l hl).2),
    fl_ptb_step_tree lang s rest _ none htl t' _ hread [] hrest]
  simp

/-! ### score texts; results position by position -/

theorem fl_scoreOK_of_all (sc : Str) (h : sc.all (fun c => !isPySpace c) = true) : ScoreOK sc := by
  have hall : ∀ c ∈ sc, isPySpace c = false := by
    intro c hc
    have := List.all_eq_true.1 h c hc
    simpa using this
  refine ⟨fun hm => ?_, fun c hc => hall c (List.mem_of_getLast? hc)⟩
  have := hall 10 hm
  exact absurd this (by decide)

theorem fl_scoreOK_of_plain (sc : Str) (hp : PlainWord sc)
    (hl : ∀ c, sc.getLast? = some c → isPySpace c = false) : ScoreOK sc :=
  ⟨fun hm => (hp.2 10 hm).2.2.1 rfl, hl⟩

theorem fl_forall2_imp {α β : Type} {R S : α → β → Prop} (hRS : ∀ a b, R a b → S a b) :
    ∀ {xs : List α} {ys : List β}, Forall2 R xs ys → Forall2 S xs ys
  | _, _, .nil => .nil
  | _, _, .cons h t => .cons (hRS _ _ h) (fl_forall2_imp hRS t)

theorem fl_forall2_length {α β : Type} {R : α → β → Prop} :
    ∀ {xs : List α} {ys : List β}, Forall2 R xs ys → xs.length = ys.length
  | _, _, .nil => rfl
  | _, _, .cons _ t => by simp [fl_forall2_length t]

/-- `fileImage … = .ok rs` spelled out: one result per record, named by the record's header,
    carrying the image of the record's tree -/
theorem fl_fileImage_pointwise (img : Tree → Except Err Tree) (batch : List (List (Tree × Str)))
    (rs : List ReaderResult) (h : fileImage img batch = .ok rs) :
    Forall2 (fun (p : Nat × (Tree × Str)) (r : ReaderResult) =>
        r.1 = header false p.1 p.2.2 ∧ img p.2.1 = .ok r.2.2 ∧ r.2.1 = r.2.2.tokens)
      (numbered batch) rs := by
  have := (fl_mapExcept_spec _ _ _).1 h
  refine fl_forall2_imp ?_ this
  intro p r hr
  obtain ⟨t', ht', rfl⟩ := fl_map_ok_inv hr
  exact ⟨rfl, ht', rfl⟩

theorem fl_numbered_mem {α : Type} (batch : List (List α)) (p : Nat × α) (hp : p ∈ numbered batch) :
    ∃ trees, trees ∈ batch ∧ p.2 ∈ trees := by
  unfold numbered at hp
  rw [List.mem_flatten] at hp
  obtain ⟨l, hl, hpl⟩ := hp
  rw [List.mem_map] at hl
  obtain ⟨⟨trees, i⟩, hti, rfl⟩ := hl
  have hmem := List.fst_mem_of_mem_zipIdx hti
  rw [List.mem_map] at hpl
  obtain ⟨t, ht, rfl⟩ := hpl
  exact ⟨trees, hmem, ht⟩

end Depccg.FileProps
