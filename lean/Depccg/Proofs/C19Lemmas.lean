/-
  C19  helper lemmas: totality of the printers on trees whose tokens have a word.
-/
import Depccg.Props.C19Defs

namespace Depccg.C19
open Depccg Str Print TextProps

theorem get_of_hasWord {tok : Token} (h : HasWord tok) : ∃ w, Token.get tok (lit "word") = .ok w := by
  obtain ⟨w, hw⟩ := h
  refine ⟨w, ?_⟩
  simp only [Token.get?] at hw
  simp only [Token.get, hw]

/-! ### line formats -/

theorem autoOf_total : ∀ (t : Tree), AllToks HasWord t → ∃ s, autoOf t = .ok s
  | .leaf c tok a b, h => by
    obtain ⟨w, hw⟩ := get_of_hasWord h
    simp only [autoOf, hw]; exact ⟨_, rfl⟩
  | .un c a b ch, h => by
    obtain ⟨s, hs⟩ := autoOf_total ch h
    simp only [autoOf, hs]; exact ⟨_, rfl⟩
  | .bin c a b hd l r, h => by
    obtain ⟨sl, hl⟩ := autoOf_total l h.1
    obtain ⟨sr, hr⟩ := autoOf_total r h.2
    simp only [autoOf, hl, hr]; exact ⟨_, rfl⟩

theorem autoExtOf_total : ∀ (t : Tree), AllToks HasWord t → ∃ s, autoExtOf t = .ok s
  | .leaf c tok a b, h => by
    obtain ⟨w, hw⟩ := get_of_hasWord h
    simp only [autoExtOf, hw]; exact ⟨_, rfl⟩
  | .un c a b ch, h => by
    obtain ⟨s, hs⟩ := autoExtOf_total ch h
    simp only [autoExtOf, hs]; exact ⟨_, rfl⟩
  | .bin c a b hd l r, h => by
    obtain ⟨sl, hl⟩ := autoExtOf_total l h.1
    obtain ⟨sr, hr⟩ := autoExtOf_total r h.2
    simp only [autoExtOf, hl, hr]; exact ⟨_, rfl⟩

theorem ptbRec_total : ∀ (t : Tree), AllToks HasWord t → ∃ s, ptbRec t = .ok s
  | .leaf c tok a b, h => by
    obtain ⟨w, hw⟩ := get_of_hasWord h
    simp only [ptbRec, hw]; exact ⟨_, rfl⟩
  | .un c a b ch, h => by
    obtain ⟨s, hs⟩ := ptbRec_total ch h
    simp only [ptbRec, hs]; exact ⟨_, rfl⟩
  | .bin c a b hd l r, h => by
    obtain ⟨sl, hl⟩ := ptbRec_total l h.1
    obtain ⟨sr, hr⟩ := ptbRec_total r h.2
    simp only [ptbRec, hl, hr]; exact ⟨_, rfl⟩

theorem ptbOf_total (t : Tree) (h : AllToks HasWord t) : ∃ s, ptbOf t = .ok s := by
  obtain ⟨s, hs⟩ := ptbRec_total t h
  simp only [ptbOf, hs]; exact ⟨_, rfl⟩

theorem jaOf_total : ∀ (t : Tree), AllToks HasWord t → ∃ s, jaOf t = .ok s
  | .leaf c tok a b, h => by
    obtain ⟨w, hw⟩ := get_of_hasWord h
    simp only [jaOf, hw]; exact ⟨_, rfl⟩
  | .un c a b ch, h => by
    obtain ⟨s, hs⟩ := jaOf_total ch h
    simp only [jaOf, hs]; exact ⟨_, rfl⟩
  | .bin c a b hd l r, h => by
    obtain ⟨sl, hl⟩ := jaOf_total l h.1
    obtain ⟨sr, hr⟩ := jaOf_total r h.2
    simp only [jaOf, hl, hr]; exact ⟨_, rfl⟩

/-! ### conll: the index `counter - 1` stays below the number of leaves -/

theorem resolveDeps_length : ∀ (t : Tree) (res : List (Option Nat)),
    (resolveDeps t res).2.length = res.length + t.numLeaves
  | .leaf .., res => by simp [resolveDeps, Tree.numLeaves]
  | .un _ _ _ ch, res => by simp only [resolveDeps, Tree.numLeaves]; exact resolveDeps_length ch res
  | .bin _ _ _ h l r, res => by
    have hl := resolveDeps_length l res
    have hr := resolveDeps_length r (resolveDeps l res).2
    simp only [resolveDeps, Tree.numLeaves]
    split <;> simp only [List.length_set] <;> omega

theorem conllRec_total (deps : List (Option Nat)) : ∀ (t : Tree), AllToks HasWord t →
    ∀ st : ConllSt, 1 ≤ st.counter → st.counter - 1 + t.numLeaves ≤ deps.length →
    ∃ out st', conllRec deps t st = .ok (out, st') ∧ st'.counter = st.counter + t.numLeaves
  | .leaf c tok a b, h, st, h1, h2 => by
    obtain ⟨w, hw⟩ := get_of_hasWord h
    simp only [Tree.numLeaves] at h2
    have hlt : st.counter - 1 < deps.length := by omega
    simp only [conllRec, hw, List.getElem?_eq_getElem hlt]
    exact ⟨_, _, rfl, rfl⟩
  | .un c a b ch, h, st, h1, h2 => by
    obtain ⟨out, st', he, hc⟩ := conllRec_total deps ch h
      { st with stack := st.stack ++ [sp [lit "(<T", c.str, lit "0", lit "1>"]] } h1 h2
    simp only [conllRec, he]
    exact ⟨_, _, rfl, hc⟩
  | .bin c a b hd l r, h, st, h1, h2 => by
    simp only [Tree.numLeaves] at h2
    obtain ⟨o1, st1, he1, hc1⟩ := conllRec_total deps l h.1
      { st with stack := st.stack ++ [sp [lit "(<T", c.str, (if hd then lit "0" else lit "1"), lit "2>"]] }
      h1 (by simp only; omega)
    have hc1' : st1.counter = st.counter + l.numLeaves := hc1
    obtain ⟨o2, st2, he2, hc2⟩ := conllRec_total deps r h.2 st1 (by omega) (by omega)
    simp only [conllRec, he1, he2]
    refine ⟨_, _, rfl, ?_⟩
    simp only [Tree.numLeaves]
    omega

theorem conllOf_total (t : Tree) (h : AllToks HasWord t) : ∃ c, conllOf t = .ok c := by
  have hlen := resolveDeps_length t []
  obtain ⟨out, st', he, _⟩ := conllRec_total (resolveDeps t []).2 t h { stack := [], counter := 1 }
    (by simp) (by simp only [hlen]; simp)
  simp only [conllOf, he]
  exact ⟨_, rfl⟩

/-! ### deriv -/

theorem leafCatsWords_total : ∀ (t : Tree), AllToks HasWord t → ∃ cw, leafCatsWords t = .ok cw
  | .leaf c tok a b, h => by
    obtain ⟨w, hw⟩ := get_of_hasWord h
    simp only [leafCatsWords, hw]; exact ⟨_, rfl⟩
  | .un c a b ch, h => by
    simp only [leafCatsWords]; exact leafCatsWords_total ch h
  | .bin c a b hd l r, h => by
    obtain ⟨sl, hl⟩ := leafCatsWords_total l h.1
    obtain ⟨sr, hr⟩ := leafCatsWords_total r h.2
    simp only [leafCatsWords, hl, hr]; exact ⟨_, rfl⟩

theorem derivRec_total : ∀ (t : Tree), AllToks HasWord t → ∀ lw, ∃ p, derivRec t lw = .ok p
  | .leaf c tok a b, h, lw => by
    obtain ⟨w, hw⟩ := get_of_hasWord h
    simp only [derivRec, hw]; exact ⟨_, rfl⟩
  | .un c a b ch, h, lw => by
    obtain ⟨⟨r, out⟩, hs⟩ := derivRec_total ch h lw
    simp only [derivRec, hs]; exact ⟨_, rfl⟩
  | .bin c a b hd l r, h, lw => by
    obtain ⟨⟨r1, out1⟩, hl⟩ := derivRec_total l h.1 lw
    obtain ⟨⟨r2, out2⟩, hr⟩ := derivRec_total r h.2 (max lw r1)
    simp only [derivRec, hl, hr]; exact ⟨_, rfl⟩

theorem derivOf_total (t : Tree) (h : AllToks HasWord t) : ∃ s, derivOf t = .ok s := by
  obtain ⟨cw, hcw⟩ := leafCatsWords_total t h
  obtain ⟨⟨r, lines⟩, hd⟩ := derivRec_total t h 0
  simp only [derivOf, hcw, hd]; exact ⟨_, rfl⟩

/-! ### batches -/

theorem catExcept_total {α : Type} (f : α → Except Err Str) :
    ∀ (xs : List α), (∀ x ∈ xs, ∃ s, f x = .ok s) → ∃ s, catExcept f xs = .ok s
  | [], _ => ⟨_, rfl⟩
  | x :: xs, h => by
    obtain ⟨s, hs⟩ := h x (List.mem_cons_self ..)
    obtain ⟨r, hr⟩ := catExcept_total f xs fun y hy => h y (List.mem_cons_of_mem _ hy)
    simp only [catExcept, hs, hr]; exact ⟨_, rfl⟩

/-- every numbered record comes from some list of the batch -/
theorem mem_numbered {α : Type} {batch : List (List α)} {p : Nat × α} (h : p ∈ numbered batch) :
    ∃ trees ∈ batch, p.2 ∈ trees := by
  simp only [numbered, List.mem_flatten, List.mem_map] at h
  obtain ⟨l, ⟨⟨trees, i⟩, hti, rfl⟩, hp⟩ := h
  simp only [List.mem_map] at hp
  obtain ⟨t, ht, rfl⟩ := hp
  exact ⟨trees, List.fst_mem_of_mem_zipIdx hti, ht⟩

theorem map_ok {α β : Type} {x : Except Err α} {a : α} (g : α → β) (h : x = .ok a) :
    x.map g = .ok (g a) := by
  subst h; rfl

/-! ### prolog -/

theorem catLeft_of_isFunctor {c : Cat} (h : c.isFunctor = true) : ∃ l, catLeft c = .ok l := by
  cases c with
  | atom b f => simp [Cat.isFunctor] at h
  | fn l s r => exact ⟨l, rfl⟩

theorem prologEnRec_total : ∀ (t : Tree), AllToks HasWord t → EnPrologOK t →
    ∀ depth, ∃ s, prologEnRec t depth = .ok s
  | .leaf c tok a b, h, _, depth => by
    obtain ⟨w, hw⟩ := get_of_hasWord h
    simp only [prologEnRec, hw]; exact ⟨_, rfl⟩
  | .un c a b ch, h, ho, depth => by
    obtain ⟨s, hs⟩ := prologEnRec_total ch h ho (depth + 1)
    simp only [prologEnRec, hs]; exact ⟨_, rfl⟩
  | .bin c os b hd l r, h, ho, depth => by
    obtain ⟨hm, hconj, hol, hor⟩ := ho
    obtain ⟨head, hhead⟩ := Option.isSome_iff_exists.mp hm
    have h3 : ∃ part3, (if (os == lit "conj") = true
        then (catLeft c).map fun cl => lit " " ++ prologCat cl ++ lit "," else .ok []) = .ok part3 := by
      by_cases hc : (os == lit "conj") = true
      · obtain ⟨cl, hcl⟩ := catLeft_of_isFunctor (hconj (by simpa using hc))
        rw [if_pos hc, map_ok _ hcl]; exact ⟨_, rfl⟩
      · rw [if_neg hc]; exact ⟨_, rfl⟩
    obtain ⟨part3, hp3⟩ := h3
    obtain ⟨sl, hl⟩ := prologEnRec_total l h.1 hol
      ((if (os == lit "lp") = true then (if (os == lit "conj2") = true then depth + 1 else depth) + 1
        else (if (os == lit "conj2") = true then depth + 1 else depth)) + 1)
    obtain ⟨sr, hr⟩ := prologEnRec_total r h.2 hor
      ((if (os == lit "lp") = true then (if (os == lit "conj2") = true then depth + 1 else depth) + 1
        else (if (os == lit "conj2") = true then depth + 1 else depth)) + 1)
    simp only [prologEnRec, hhead, hp3, hl, hr]; exact ⟨_, rfl⟩

theorem prologJaRec_total : ∀ (t : Tree), AllToks HasWord t → JaPrologOK t →
    ∀ depth, ∃ s, prologJaRec t depth = .ok s
  | .leaf c tok a b, h, _, depth => by
    obtain ⟨w, hw⟩ := get_of_hasWord h
    simp only [prologJaRec, hw]; exact ⟨_, rfl⟩
  | .un c a y ch, h, ho, depth => by
    obtain ⟨rule, hrule⟩ := Option.isSome_iff_exists.mp ho.1
    obtain ⟨s, hs⟩ := prologJaRec_total ch h ho.2 (depth + 1)
    simp only [prologJaRec, hrule, hs]; exact ⟨_, rfl⟩
  | .bin c a y hd l r, h, ho, depth => by
    obtain ⟨rule, hrule⟩ := Option.isSome_iff_exists.mp ho.1
    obtain ⟨sl, hl⟩ := prologJaRec_total l h.1 ho.2.1 (depth + 1)
    obtain ⟨sr, hr⟩ := prologJaRec_total r h.2 ho.2.2 (depth + 1)
    simp only [prologJaRec, hrule, hl, hr]; exact ⟨_, rfl⟩

/-! ### jigg -/

theorem jiggOfAux_total (useSymbol : Bool) : ∀ (batch : List (List Tree)) (sid : Nat),
    (∀ trees ∈ batch, trees ≠ []) → ∃ ss, Xml.jiggOfAux useSymbol batch sid = .ok ss
  | [], _, _ => ⟨_, rfl⟩
  | [] :: _, _, h => absurd rfl (h [] (List.mem_cons_self ..))
  | (t :: ts) :: rest, sid, h => by
    obtain ⟨more, hm⟩ := jiggOfAux_total useSymbol rest (sid + 1) fun x hx => h x (List.mem_cons_of_mem _ hx)
    simp only [Xml.jiggOfAux, hm]; exact ⟨_, rfl⟩

end Depccg.C19
