/-
  C08  helper lemmas: strings, the AUTO printer, the cursor reader on printed text,
  the conll fragments, the CCGbank repair on printed categories.
-/
import Depccg.Props.C08Defs
import Depccg.Props.C05
import Depccg.Props.C14

namespace Depccg.C08
open Depccg Str Print Read TextProps

/-! ### literals -/

theorem lit_L : lit "(<L" = [40, 60, 76] := by decide
theorem lit_T : lit "(<T" = [40, 60, 84] := by decide
theorem lit_close : lit ">)" = [62, 41] := by decide
theorem lit_rpar : lit ")" = [41] := by decide
theorem lit_0 : lit "0" = [48] := by decide
theorem lit_1 : lit "1" = [49] := by decide
theorem lit_1gt : lit "1>" = [49, 62] := by decide
theorem lit_2gt : lit "2>" = [50, 62] := by decide
theorem lit_sprpar : lit " )" = [32, 41] := by decide

/-! ### `findChar`, `autoNext`, `charAt` on suffixes -/

theorem findChar_field (c : Nat) (field rest : Str) (h : c ∉ field) :
    findChar c (field ++ c :: rest) = some field.length := by
  induction field with
  | nil => simp [findChar]
  | cons x xs ih =>
    have hx : x ≠ c := fun e => h (by simp [e])
    have hxs : c ∉ xs := fun m => h (by simp [m])
    simp [findChar, hx, ih hxs]

theorem findChar_none (c : Nat) (s : Str) (h : c ∉ s) : findChar c s = none := by
  induction s with
  | nil => rfl
  | cons x xs ih =>
    have hx : x ≠ c := fun e => h (by simp [e])
    have hxs : c ∉ xs := fun m => h (by simp [m])
    simp [findChar, hx, ih hxs]

/-- reading one blank-terminated field -/
theorem autoNext_field {line : Str} {idx : Nat} {field rest : Str} (h : 32 ∉ field)
    (hd : line.drop idx = field ++ 32 :: rest) :
    ∃ i, autoNext line idx = (field, i) ∧ line.drop i = rest ∧ i = idx + field.length + 1 := by
  refine ⟨idx + field.length + 1, ?_, ?_, rfl⟩
  · simp only [autoNext, hd, cSpace, findChar_field 32 field rest h]
    simp
  · have : line.drop (idx + (field.length + 1)) = (line.drop idx).drop (field.length + 1) := by
      rw [List.drop_drop]
    rw [Nat.add_assoc, this, hd]
    simp

/-- the last field of a line: the index restarts at 0 -/
theorem autoNext_last {line : Str} {idx : Nat} (h : 32 ∉ line.drop idx) :
    ∃ x, autoNext line idx = (x, 0) := by
  simp only [autoNext, cSpace, findChar_none 32 _ h]
  exact ⟨_, rfl⟩

theorem charAt_of_drop {line : Str} {idx : Nat} {s : Str} (hd : line.drop idx = s) (j : Nat) (c : Nat)
    (hs : s[j]? = some c) : charAt line (idx + j) = .ok c := by
  have : line[idx + j]? = some c := by rw [← List.getElem?_drop, hd, hs]
  simp [charAt, this]

theorem charAt_of_drop0 {line : Str} {idx : Nat} {c : Nat} {s : Str} (hd : line.drop idx = c :: s) :
    charAt line idx = .ok c := by
  have := charAt_of_drop hd 0 c (by simp)
  simpa using this

/-! ### one step of the reader -/

theorem autoNode_leaf_eq (lang : Lang) (line : Str) (fuel idx : Nat) (toks : List Token)
    {x catT t1 t2 w y : Str} {i1 i2 i3 i4 i5 i6 : Nat} {cat : Cat}
    (h2 : charAt line (idx + 2) = .ok 76) (h0 : charAt line idx = .ok 40)
    (h1 : charAt line (idx + 1) = .ok 60)
    (e1 : autoNext line idx = (x, i1)) (e2 : autoNext line i1 = (catT, i2))
    (hp : Cat.parse (fixCat catT) = .ok cat)
    (e3 : autoNext line i2 = (t1, i3)) (e4 : autoNext line i3 = (t2, i4))
    (e5 : autoNext line i4 = (w, i5)) (e6 : autoNext line i5 = (y, i6)) :
    autoNode lang line (fuel + 1) idx toks =
      .ok (Tree.mkTerminal (autoToken (dropBackslashes w) t1 t2) cat, i6,
           toks ++ [autoToken (dropBackslashes w) t1 t2]) := by
  rw [autoNode]
  simp [h2, h0, h1, e1, e2, hp, e3, e4, e5, e6, cLPar, cLt]

theorem autoNode_un_eq (lang : Lang) (line : Str) (fuel idx : Nat) (toks : List Token)
    {x catT h z y : Str} {i1 i2 i3 i4 i5 i6 : Nat} {cat : Cat} {ch : Tree}
    {toks' : List Token}
    (h2 : charAt line (idx + 2) = .ok 84) (h0 : charAt line idx = .ok 40)
    (h1 : charAt line (idx + 1) = .ok 60)
    (e1 : autoNext line idx = (x, i1)) (e2 : autoNext line i1 = (catT, i2))
    (hp : Cat.parse (fixCat catT) = .ok cat)
    (e3 : autoNext line i2 = (h, i3)) (e4 : autoNext line i3 = (z, i4))
    (hc : autoChildren lang line fuel i4 toks [] = .ok ([ch], i5, toks'))
    (e5 : autoNext line i5 = (y, i6)) :
    autoNode lang line (fuel + 1) idx toks = .ok (Tree.mkUnary cat ch, i6, toks') := by
  rw [autoNode]
  simp only [h2, h0, h1, e1, e2, hp, e3, e4, hc, e5, cLPar, cLt]
  rfl

theorem autoNode_bin_eq (lang : Lang) (line : Str) (fuel idx : Nat) (toks : List Token)
    {x catT h z y : Str} {i1 i2 i3 i4 i5 i6 : Nat} {cat : Cat} {l r : Tree} {rule : RuleRes}
    {toks' : List Token}
    (h2 : charAt line (idx + 2) = .ok 84) (h0 : charAt line idx = .ok 40)
    (h1 : charAt line (idx + 1) = .ok 60)
    (e1 : autoNext line idx = (x, i1)) (e2 : autoNext line i1 = (catT, i2))
    (hp : Cat.parse (fixCat catT) = .ok cat)
    (e3 : autoNext line i2 = (h, i3)) (e4 : autoNext line i3 = (z, i4))
    (hc : autoChildren lang line fuel i4 toks [] = .ok ([l, r], i5, toks'))
    (e5 : autoNext line i5 = (y, i6))
    (hg : guess lang cat l.cat r.cat = .ok rule) :
    autoNode lang line (fuel + 1) idx toks =
      .ok (.bin cat rule.opString rule.opSymbol (h == lit "0") l r, i6, toks') := by
  rw [autoNode]
  simp only [h2, h0, h1, e1, e2, hp, e3, e4, hc, e5, cLPar, cLt, hg]
  rfl

theorem autoChildren_stop (lang : Lang) (line : Str) (fuel idx : Nat) (toks : List Token)
    (acc : List Tree) (h : charAt line idx = .ok 41) :
    autoChildren lang line (fuel + 1) idx toks acc = .ok (acc, idx, toks) := by
  rw [autoChildren]
  simp [h, cRPar]

theorem autoChildren_step (lang : Lang) (line : Str) (fuel idx : Nat) (toks : List Token)
    (acc : List Tree) {c : Nat} {t : Tree} {idx' : Nat} {toks' : List Token}
    (h : charAt line idx = .ok c) (hc : c ≠ 41)
    (hn : autoNode lang line fuel idx toks = .ok (t, idx', toks')) :
    autoChildren lang line (fuel + 1) idx toks acc =
      autoChildren lang line fuel idx' toks' (acc ++ [t]) := by
  rw [autoChildren]
  simp [h, cRPar, hc, hn]

/-! ### tokens -/

theorem dict_get?_mem {t : Token} {k v : Str} (h : Dict.get? t k = some v) : (k, v) ∈ t := by
  induction t with
  | nil => simp [Dict.get?] at h
  | cons kv rest ih =>
    obtain ⟨k', v'⟩ := kv
    simp only [Dict.get?] at h
    split at h
    · next e => cases h; simp [e]
    · exact List.mem_cons_of_mem _ (ih h)

theorem get?_mem {t : Token} {k v : Str} (h : Token.get? t k = some v) : (k, v) ∈ t :=
  dict_get?_mem h

theorem get_of_get? {t : Token} {k v : Str} (h : Token.get? t k = some v) : Token.get t k = .ok v := by
  simp only [Token.get?] at h
  simp [Token.get, h]

theorem get_ok_iff {t : Token} {k v : Str} : Token.get t k = .ok v ↔ Token.get? t k = some v := by
  simp only [Token.get, Token.get?]
  cases Dict.get? t k <;> simp

theorem TokOK.word {t : Token} (h : TokOK t) : ∃ w, Token.get t (lit "word") = .ok w ∧ PlainWord w := by
  obtain ⟨⟨w, hw⟩, hall⟩ := h
  exact ⟨w, get_of_get? hw, hall _ (get?_mem hw)⟩

/-- a character class closed under the defaults: what `getD` returns is in the class -/
theorem getD_all {t : Token} {k d : Str} {P : Nat → Prop} (ht : ∀ kv ∈ t, ∀ c ∈ kv.2, P c)
    (hd : ∀ c ∈ d, P c) : ∀ c ∈ Token.getD t k d, P c := by
  simp only [Token.getD]
  cases h : Dict.get? t k with
  | none => simpa using hd
  | some v => simpa using ht _ (dict_get?_mem h)

theorem getD_ne_nil {t : Token} {k d : Str} (ht : ∀ kv ∈ t, kv.2 ≠ []) (hd : d ≠ []) :
    Token.getD t k d ≠ [] := by
  simp only [Token.getD]
  cases h : Dict.get? t k with
  | none => simpa using hd
  | some v => simpa using ht _ (dict_get?_mem h)

theorem getD_of_get? {t : Token} {k d v : Str} (h : Token.get? t k = some v) : Token.getD t k d = v := by
  simp only [Token.get?] at h
  simp [Token.getD, h]

/-! ### `replaceChar`, `denormalize`, `dropBackslashes` -/

theorem replaceChar_mem {old : Nat} {new s : Str} {c : Nat} (h : c ∈ replaceChar old new s) :
    c ∈ new ∨ (c ∈ s ∧ c ≠ old) := by
  induction s with
  | nil => simp [replaceChar] at h
  | cons x xs ih =>
    simp only [replaceChar] at h
    split at h
    · rcases List.mem_append.1 h with h | h
      · exact Or.inl h
      · rcases ih h with h | ⟨h, hne⟩
        · exact Or.inl h
        · exact Or.inr ⟨List.mem_cons_of_mem _ h, hne⟩
    · next hx =>
      rcases List.mem_cons.1 h with h | h
      · exact Or.inr ⟨by simp [h], by rw [h]; exact hx⟩
      · rcases ih h with h | ⟨h, hne⟩
        · exact Or.inl h
        · exact Or.inr ⟨List.mem_cons_of_mem _ h, hne⟩

theorem replaceChar_id {old : Nat} {new s : Str} (h : old ∉ s) : replaceChar old new s = s := by
  induction s with
  | nil => rfl
  | cons x xs ih =>
    have hx : x ≠ old := fun e => h (by simp [e])
    have hxs : old ∉ xs := fun m => h (by simp [m])
    simp [replaceChar, hx, ih hxs]

theorem replaceChar_eq_nil {old : Nat} {new s : Str} (hn : new ≠ []) (h : replaceChar old new s = []) :
    s = [] := by
  cases s with
  | nil => rfl
  | cons x xs =>
    simp only [replaceChar] at h
    split at h
    · simp [hn] at h
    · simp at h

theorem replaceChar_eq_singleton {old : Nat} {new s : Str} {c : Nat} (hn : 2 ≤ new.length)
    (h : replaceChar old new s = [c]) : s = [c] := by
  have hn' : new ≠ [] := by intro e; simp [e] at hn
  cases s with
  | nil => simp [replaceChar] at h
  | cons x xs =>
    simp only [replaceChar] at h
    split at h
    · have := congrArg List.length h
      simp at this
      omega
    · simp only [List.cons.injEq] at h
      rw [h.1, replaceChar_eq_nil hn' h.2]

def brackets : List Nat := [40, 41, 123, 125, 91, 93]

def escapes : List Str := [lit "-LRB-", lit "-RRB-", lit "-LCB-", lit "-RCB-", lit "-LSB-", lit "-RSB-"]

def escChars : List Nat := [45, 76, 82, 66, 67, 83, 65]

theorem denormalize_cases (w : Str) :
    ((∃ c ∈ brackets, w = [c]) ∧ denormalize w ∈ escapes) ∨
    ((∀ c ∈ brackets, w ≠ [c]) ∧
      denormalize w = replaceChar cLt (lit "-LAB-") (replaceChar cGt (lit "-RAB-") w)) := by
  simp only [denormalize]
  split
  · next h => exact Or.inl ⟨⟨40, by decide, by simpa [lit] using h⟩, by simp [escapes]⟩
  split
  · next h => exact Or.inl ⟨⟨41, by decide, by simpa [lit] using h⟩, by simp [escapes]⟩
  split
  · next h => exact Or.inl ⟨⟨123, by decide, by simpa [lit] using h⟩, by simp [escapes]⟩
  split
  · next h => exact Or.inl ⟨⟨125, by decide, by simpa [lit] using h⟩, by simp [escapes]⟩
  split
  · next h => exact Or.inl ⟨⟨91, by decide, by simpa [lit] using h⟩, by simp [escapes]⟩
  split
  · next h => exact Or.inl ⟨⟨93, by decide, by simpa [lit] using h⟩, by simp [escapes]⟩
  refine Or.inr ⟨?_, rfl⟩
  intro c hc e
  subst e
  simp only [brackets, List.mem_cons, List.not_mem_nil, or_false] at hc
  rcases hc with rfl | rfl | rfl | rfl | rfl | rfl <;> simp_all [lit]

theorem escapes_chars : ∀ e ∈ escapes, ∀ c ∈ e, c ∈ escChars := by decide
theorem lab_chars : ∀ c ∈ lit "-LAB-", c ∈ escChars := by decide
theorem rab_chars : ∀ c ∈ lit "-RAB-", c ∈ escChars := by decide

theorem denormalize_mem {w : Str} {c : Nat} (h : c ∈ denormalize w) : c ∈ w ∨ c ∈ escChars := by
  rcases denormalize_cases w with ⟨_, he⟩ | ⟨_, he⟩
  · exact Or.inr (escapes_chars _ he _ h)
  · rw [he] at h
    rcases replaceChar_mem h with h | ⟨h, _⟩
    · exact Or.inr (lab_chars _ h)
    · rcases replaceChar_mem h with h | ⟨h, _⟩
      · exact Or.inr (rab_chars _ h)
      · exact Or.inl h

theorem denormalize_ne_nil {w : Str} (hw : w ≠ []) : denormalize w ≠ [] := by
  rcases denormalize_cases w with ⟨_, he⟩ | ⟨_, he⟩
  · intro e; rw [e] at he; revert he; decide
  · rw [he]
    intro e
    exact hw (replaceChar_eq_nil (by decide) (replaceChar_eq_nil (by decide) e))

theorem denormalize_idem (w : Str) : denormalize (denormalize w) = denormalize w := by
  rcases denormalize_cases w with ⟨_, he⟩ | ⟨hw, he⟩
  · have : ∀ e ∈ escapes, denormalize e = e := by decide
    exact this _ he
  · rcases denormalize_cases (denormalize w) with ⟨⟨c, hc, hs⟩, _⟩ | ⟨_, he'⟩
    · exfalso
      rw [he] at hs
      exact hw c hc (replaceChar_eq_singleton (by decide)
        (replaceChar_eq_singleton (by decide) hs))
    · rw [he']
      have h62 : cGt ∉ denormalize w := by
        intro hm
        rw [he] at hm
        rcases replaceChar_mem hm with h | ⟨h, _⟩
        · revert h; decide
        · rcases replaceChar_mem h with h | ⟨_, h⟩
          · revert h; decide
          · exact h rfl
      have h60 : cLt ∉ denormalize w := by
        intro hm
        rw [he] at hm
        rcases replaceChar_mem hm with h | ⟨_, h⟩
        · revert h; decide
        · exact h rfl
      rw [replaceChar_id h62, replaceChar_id h60]

theorem dropBackslashes_id {w : Str} (h : cBSlash ∉ w) : dropBackslashes w = w := by
  simp only [dropBackslashes]
  rw [List.filter_eq_self]
  intro a ha
  simp only [bne_iff_ne, ne_eq]
  intro e
  exact h (e ▸ ha)

/-- the class of characters of plain words -/
def PlainCh (c : Nat) : Prop := c ≠ 32 ∧ c ≠ 9 ∧ c ≠ 10 ∧ c ≠ 13 ∧ c ≠ cBSlash

theorem escChars_plain : ∀ c ∈ escChars, PlainCh c := by
  simp only [PlainCh]; decide

theorem denormalize_plain {w : Str} (hw : PlainWord w) : ∀ c ∈ denormalize w, PlainCh c := by
  intro c hc
  rcases denormalize_mem hc with h | h
  · exact hw.2 c h
  · exact escChars_plain c h

/-! ### category text -/

theorem plainChar_ne_space {c : Nat} (h : C05.plainChar c = true) : c ≠ 32 :=
  ((C05.plainChar_iff c).1 h).2

theorem featStr_plain (f : Feat) (hf : C05.WFFeat f) : ∀ ch ∈ f.str, C05.plainChar ch = true := by
  by_cases hne : f = .un none
  · subst hne; simp [Feat.str]
  · exact (C05.Feat.str_plainTok f hf hne).2

theorem wrapS_noSpace (c : Cat) (h : ∀ ch ∈ c.str, ch ≠ 32) : ∀ ch ∈ C05.wrapS c, ch ≠ 32 := by
  intro ch hm
  simp only [C05.wrapS] at hm
  split at hm
  · simp only [List.mem_cons, List.mem_append, List.not_mem_nil, or_false] at hm
    rcases hm with (rfl | hm) | rfl
    · decide
    · exact h _ hm
    · decide
  · exact h _ hm

theorem catStr_noSpace (c : Cat) (hc : C05.WF c) : ∀ ch ∈ c.str, ch ≠ 32 := by
  induction c with
  | atom b f =>
    obtain ⟨hb, hf, _⟩ := hc
    intro ch hm
    rw [C05.str_atom] at hm
    split at hm
    · exact plainChar_ne_space (hb.2 _ hm)
    · simp only [List.mem_cons, List.mem_append, List.not_mem_nil, or_false] at hm
      rcases hm with (hm | rfl | hm) | rfl
      · exact plainChar_ne_space (hb.2 _ hm)
      · decide
      · exact plainChar_ne_space (featStr_plain f hf _ hm)
      · decide
  | fn l s r ihl ihr =>
    obtain ⟨hl, hs, hr⟩ := hc
    intro ch hm
    rw [C05.str_fn] at hm
    simp only [List.mem_cons, List.mem_append] at hm
    rcases hm with hm | rfl | hm
    · exact wrapS_noSpace l (ihl hl) _ hm
    · exact C05.isSpecial_ne_space (C05.special_of_slash hs)
    · exact wrapS_noSpace r (ihr hr) _ hm

theorem nonEmptyBases_of_WF (c : Cat) (hc : C05.WF c) : C14.NonEmptyBases c := by
  induction c with
  | atom b f => exact hc.1.1
  | fn l s r ihl ihr => exact ⟨ihl hc.1, ihr hc.2.2⟩

theorem catOK_parse {c : Cat} (h : CatOK c) : Cat.parse (fixCat c.str) = .ok c := by
  rw [h.2.1]; exact C05.parse_print c h.1

/-! ### the printed forms -/

def leafText (c : Cat) (pos w : Str) : Str :=
  [40, 60, 76] ++ 32 :: (c.str ++ 32 :: (pos ++ 32 :: (pos ++ 32 :: (w ++ 32 :: (c.str ++ [62, 41])))))

def unHead (c : Cat) : Str := [40, 60, 84] ++ 32 :: (c.str ++ 32 :: ([48] ++ 32 :: [49, 62]))

def binHead (c : Cat) (h : Bool) : Str :=
  [40, 60, 84] ++ 32 :: (c.str ++ 32 :: ((if h then [48] else [49]) ++ 32 :: [50, 62]))

def unText (c : Cat) (s : Str) : Str := unHead c ++ 32 :: (s ++ 32 :: [41])

def binText (c : Cat) (h : Bool) (a b : Str) : Str := binHead c h ++ 32 :: (a ++ 32 :: (b ++ 32 :: [41]))

theorem sp_leaf (c : Cat) (pos w : Str) :
    sp [lit "(<L", c.str, pos, pos, w, c.str ++ lit ">)"] = leafText c pos w := by
  simp [sp, joinSep, leafText, lit_L, lit_close, cSpace]

theorem sp_unHead (c : Cat) : sp [lit "(<T", c.str, lit "0", lit "1>"] = unHead c := by
  simp [sp, joinSep, unHead, lit_T, lit_0, lit_1gt, cSpace]

theorem sp_binHead (c : Cat) (h : Bool) :
    sp [lit "(<T", c.str, (if h then lit "0" else lit "1"), lit "2>"] = binHead c h := by
  cases h <;> simp [sp, joinSep, binHead, lit_T, lit_0, lit_1, lit_2gt, cSpace]

theorem sp_un (c : Cat) (s : Str) :
    sp [lit "(<T", c.str, lit "0", lit "1>", s, lit ")"] = unText c s := by
  simp [sp, joinSep, unText, unHead, lit_T, lit_0, lit_1gt, lit_rpar, cSpace]

theorem sp_bin (c : Cat) (h : Bool) (a b : Str) :
    sp [lit "(<T", c.str, (if h then lit "0" else lit "1"), lit "2>", a, b, lit ")"] =
      binText c h a b := by
  cases h <;> simp [sp, joinSep, binText, binHead, lit_T, lit_0, lit_1, lit_2gt, lit_rpar, cSpace]

theorem autoOf_leaf_inv {c : Cat} {tok : Token} {a b s : Str} (h : autoOf (.leaf c tok a b) = .ok s) :
    ∃ w, Token.get tok (lit "word") = .ok w ∧
      s = leafText c (Token.getD tok (lit "pos") (lit "POS")) (denormalize w) := by
  simp only [autoOf] at h
  split at h
  · cases h
  · next w hw =>
    simp only [sp_leaf] at h
    cases h
    exact ⟨w, hw, rfl⟩

theorem autoOf_un_inv {c : Cat} {a b s : Str} {ch : Tree} (h : autoOf (.un c a b ch) = .ok s) :
    ∃ s', autoOf ch = .ok s' ∧ s = unText c s' := by
  simp only [autoOf] at h
  split at h
  · cases h
  · next s' hs' =>
    simp only [sp_un] at h
    cases h
    exact ⟨s', hs', rfl⟩

theorem autoOf_bin_inv {c : Cat} {a b s : Str} {hd : Bool} {l r : Tree}
    (h : autoOf (.bin c a b hd l r) = .ok s) :
    ∃ sl sr, autoOf l = .ok sl ∧ autoOf r = .ok sr ∧ s = binText c hd sl sr := by
  simp only [autoOf] at h
  split at h
  · next sl sr hl hr =>
    simp only [sp_bin] at h
    cases h
    exact ⟨sl, sr, hl, hr, rfl⟩
  · cases h
  · cases h

theorem autoOf_leaf_of {c : Cat} {tok : Token} {a b w : Str} (h : Token.get tok (lit "word") = .ok w) :
    autoOf (.leaf c tok a b) =
      .ok (leafText c (Token.getD tok (lit "pos") (lit "POS")) (denormalize w)) := by
  simp only [autoOf, h, sp_leaf]

theorem autoOf_un_of {c : Cat} {a b s : Str} {ch : Tree} (h : autoOf ch = .ok s) :
    autoOf (.un c a b ch) = .ok (unText c s) := by
  simp only [autoOf, h, sp_un]

theorem autoOf_bin_of {c : Cat} {a b sl sr : Str} {hd : Bool} {l r : Tree}
    (hl : autoOf l = .ok sl) (hr : autoOf r = .ok sr) :
    autoOf (.bin c a b hd l r) = .ok (binText c hd sl sr) := by
  simp only [autoOf, hl, hr, sp_bin]

/-! ### `autoImage` -/

theorem autoImage_leaf_inv {lang : Lang} {c : Cat} {tok : Token} {a b : Str} {t' : Tree}
    (h : autoImage lang (.leaf c tok a b) = .ok t') :
    ∃ w, Token.get tok (lit "word") = .ok w ∧
      t' = Tree.mkTerminal (autoToken (denormalize w) (Token.getD tok (lit "pos") (lit "POS"))
        (Token.getD tok (lit "pos") (lit "POS"))) c := by
  simp only [autoImage] at h
  split at h
  · cases h
  · next w hw =>
    cases h
    exact ⟨w, hw, rfl⟩

theorem autoImage_un_inv {lang : Lang} {c : Cat} {a b : Str} {ch t' : Tree}
    (h : autoImage lang (.un c a b ch) = .ok t') :
    ∃ ch', autoImage lang ch = .ok ch' ∧ t' = Tree.mkUnary c ch' := by
  simp only [autoImage] at h
  split at h
  · cases h
  · next ch' hc =>
    cases h
    exact ⟨ch', hc, rfl⟩

theorem autoImage_bin_inv {lang : Lang} {c : Cat} {a b : Str} {hd : Bool} {l r t' : Tree}
    (h : autoImage lang (.bin c a b hd l r) = .ok t') :
    ∃ l' r' rule, autoImage lang l = .ok l' ∧ autoImage lang r = .ok r' ∧
      guess lang c l'.cat r'.cat = .ok rule ∧
      t' = .bin c rule.opString rule.opSymbol hd l' r' := by
  simp only [autoImage] at h
  split at h
  · next l' r' hl hr =>
    split at h
    · cases h
    · next rule hg =>
      cases h
      exact ⟨l', r', rule, hl, hr, hg, rfl⟩
  · cases h
  · cases h

theorem autoImage_cat {lang : Lang} : ∀ {t t' : Tree}, autoImage lang t = .ok t' → t'.cat = t.cat
  | .leaf .., _, h => by obtain ⟨w, _, rfl⟩ := autoImage_leaf_inv h; rfl
  | .un .., _, h => by obtain ⟨ch', _, rfl⟩ := autoImage_un_inv h; rfl
  | .bin .., _, h => by obtain ⟨l', r', rule, _, _, _, rfl⟩ := autoImage_bin_inv h; rfl

theorem autoImage_skel {lang : Lang} : ∀ {t t' : Tree}, autoImage lang t = .ok t' → skel t' = skel t
  | .leaf .., _, h => by obtain ⟨w, _, rfl⟩ := autoImage_leaf_inv h; rfl
  | .un _ _ _ ch, _, h => by
    obtain ⟨ch', hc, rfl⟩ := autoImage_un_inv h
    simp only [Tree.mkUnary, skel, autoImage_skel hc]
  | .bin _ _ _ _ l r, _, h => by
    obtain ⟨l', r', rule, hl, hr, _, rfl⟩ := autoImage_bin_inv h
    simp only [skel, autoImage_skel hl, autoImage_skel hr]

/-! ### printing never fails -/

theorem autoOf_total : ∀ (t : Tree), AllToks TokOK t → ∃ s, autoOf t = .ok s
  | .leaf c tok a b, h => by
    obtain ⟨w, hw, _⟩ := TokOK.word h
    exact ⟨_, autoOf_leaf_of hw⟩
  | .un c a b ch, h => by
    obtain ⟨s, hs⟩ := autoOf_total ch h
    exact ⟨_, autoOf_un_of hs⟩
  | .bin c a b hd l r, h => by
    obtain ⟨sl, hl⟩ := autoOf_total l h.1
    obtain ⟨sr, hr⟩ := autoOf_total r h.2
    exact ⟨_, autoOf_bin_of hl hr⟩

theorem resolveDeps_length : ∀ (t : Tree) (res : List (Option Nat)),
    (resolveDeps t res).2.length = res.length + t.numLeaves
  | .leaf .., res => by simp [resolveDeps, Tree.numLeaves]
  | .un _ _ _ ch, res => by simp only [resolveDeps, Tree.numLeaves]; exact resolveDeps_length ch res
  | .bin _ _ _ h l r, res => by
    have hl := resolveDeps_length l res
    have hr := resolveDeps_length r (resolveDeps l res).2
    simp only [resolveDeps, Tree.numLeaves]
    split <;> simp only [List.length_set] <;> omega

theorem conllRec_total (deps : List (Option Nat)) : ∀ (t : Tree), AllToks TokOK t →
    ∀ st : ConllSt, 1 ≤ st.counter → st.counter - 1 + t.numLeaves ≤ deps.length →
    ∃ out st', conllRec deps t st = .ok (out, st') ∧ st'.counter = st.counter + t.numLeaves
  | .leaf c tok a b, h, st, h1, h2 => by
    obtain ⟨w, hw, _⟩ := TokOK.word h
    simp only [Tree.numLeaves] at h2
    have hlt : st.counter - 1 < deps.length := by omega
    simp only [conllRec, hw, List.getElem?_eq_getElem hlt]
    exact ⟨_, _, rfl, rfl⟩
  | .un c a b ch, h, st, h1, h2 => by
    obtain ⟨out, st', he, hc⟩ := conllRec_total deps ch h
      { st with stack := st.stack ++ [sp [lit "(<T", c.str, lit "0", lit "1>"]] } h1 h2
    simp only [conllRec, he]
    exact ⟨_, _, rfl, hc⟩
  | .bin c a b hd l r, h, st, h1, h2 => by
    simp only [Tree.numLeaves] at h2
    obtain ⟨o1, st1, he1, hc1⟩ := conllRec_total deps l h.1
      { st with stack := st.stack ++ [sp [lit "(<T", c.str, (if hd then lit "0" else lit "1"), lit "2>"]] }
      h1 (by simp only; omega)
    have hc1' : st1.counter = st.counter + l.numLeaves := hc1
    obtain ⟨o2, st2, he2, hc2⟩ := conllRec_total deps r h.2 st1 (by omega) (by omega)
    simp only [conllRec, he1, he2]
    refine ⟨_, _, rfl, ?_⟩
    simp only [Tree.numLeaves]
    omega

theorem conllOf_total (t : Tree) (h : AllToks TokOK t) : ∃ c, conllOf t = .ok c := by
  have hlen := resolveDeps_length t []
  obtain ⟨out, st', he, _⟩ := conllRec_total (resolveDeps t []).2 t h { stack := [], counter := 1 }
    (by simp) (by simp only [hlen]; simp)
  simp only [conllOf, he]
  exact ⟨_, rfl⟩

/-! ### printing the image reproduces the line -/

theorem autoToken_word (w p q : Str) : Token.get (autoToken w p q) (lit "word") = .ok w := by
  simp [Token.get, Dict.get?, autoToken]

theorem autoToken_pos (w p q d : Str) : Token.getD (autoToken w p q) (lit "pos") d = p := by
  have : lit "word" ≠ lit "pos" := by decide
  simp [Token.getD, Dict.get?, autoToken, this]

theorem autoOf_image {lang : Lang} : ∀ {t t' : Tree} {s : Str},
    autoOf t = .ok s → autoImage lang t = .ok t' → autoOf t' = .ok s
  | .leaf .., _, _, hs, hi => by
    obtain ⟨w, hw, rfl⟩ := autoOf_leaf_inv hs
    obtain ⟨w', hw', rfl⟩ := autoImage_leaf_inv hi
    rw [hw] at hw'; cases hw'
    simp only [Tree.mkTerminal]
    rw [autoOf_leaf_of (autoToken_word _ _ _), autoToken_pos, denormalize_idem]
  | .un _ _ _ ch, _, _, hs, hi => by
    obtain ⟨s', hs', rfl⟩ := autoOf_un_inv hs
    obtain ⟨ch', hc, rfl⟩ := autoImage_un_inv hi
    exact autoOf_un_of (autoOf_image hs' hc)
  | .bin _ _ _ _ l r, _, _, hs, hi => by
    obtain ⟨sl, sr, hl, hr, rfl⟩ := autoOf_bin_inv hs
    obtain ⟨l', r', rule, hl', hr', _, rfl⟩ := autoImage_bin_inv hi
    exact autoOf_bin_of (autoOf_image hl hl') (autoOf_image hr hr')

/-! ### fields of printed lines contain no blank -/

theorem PlainCh.ne_space {c : Nat} (h : PlainCh c) : c ≠ 32 := h.1

theorem notMem_of_all {P : Nat → Prop} {s : Str} {x : Nat} (h : ∀ c ∈ s, P c) (hx : ¬ P x) : x ∉ s :=
  fun hm => hx (h x hm)

theorem catOK_noSpace {c : Cat} (h : CatOK c) : 32 ∉ c.str := fun hm => catStr_noSpace c h.1 32 hm rfl

theorem catOK_noSpace' {c : Cat} (h : CatOK c) : 32 ∉ c.str ++ [62, 41] := by
  intro hm
  rcases List.mem_append.1 hm with hm | hm
  · exact catOK_noSpace h hm
  · revert hm; decide

theorem pos_plain {tok : Token} (h : TokOK tok) {d : Str} (hd : ∀ c ∈ d, PlainCh c) :
    ∀ c ∈ Token.getD tok (lit "pos") d, PlainCh c :=
  getD_all (fun kv hkv => (h.2 kv hkv).2) hd

theorem POS_plain : ∀ c ∈ lit "POS", PlainCh c := by simp only [PlainCh]; decide
theorem underscore_plain : ∀ c ∈ lit "_", PlainCh c := by simp only [PlainCh]; decide

theorem autoOf_head : ∀ {t : Tree} {s : Str}, autoOf t = .ok s → ∃ r, s = 40 :: r
  | .leaf .., _, h => by obtain ⟨w, _, rfl⟩ := autoOf_leaf_inv h; exact ⟨_, rfl⟩
  | .un .., _, h => by obtain ⟨w, _, rfl⟩ := autoOf_un_inv h; exact ⟨_, rfl⟩
  | .bin .., _, h => by obtain ⟨_, _, _, _, rfl⟩ := autoOf_bin_inv h; exact ⟨_, rfl⟩

/-! ### the reader on a printed subtree -/

/-- fuel that suffices for a subtree -/
def bound : Tree → Nat
  | .leaf .. => 1
  | .un _ _ _ ch => bound ch + 2
  | .bin _ _ _ _ l r => bound l + bound r + 3

theorem bound_pos : ∀ t : Tree, 1 ≤ bound t
  | .leaf .. => by simp [bound]
  | .un .. => by simp [bound]
  | .bin .. => by simp [bound]

theorem drop_after {line : Str} {idx : Nat} {s p : Str} (hd : line.drop idx = s ++ 32 :: p) :
    line.drop (idx + s.length + 1) = p := by
  have : line.drop (idx + (s.length + 1)) = (line.drop idx).drop (s.length + 1) := by
    rw [List.drop_drop]
  rw [Nat.add_assoc, this, hd]
  simp

theorem head_eq (hd : Bool) : ((if hd then [48] else [49] : Str) == lit "0") = hd := by
  cases hd <;> decide

theorem head_noSpace (hd : Bool) : 32 ∉ (if hd then [48] else [49] : Str) := by
  cases hd <;> decide

/-- the closing `)` of a node, followed by the end of the line or a blank -/
theorem autoNext_close {line : Str} {i : Nat} {post : Str} (hd : line.drop i = 41 :: post)
    (hpost : post = [] ∨ ∃ p, post = 32 :: p) :
    ∃ y i', autoNext line i = (y, i') ∧ ∀ p, post = 32 :: p → i' = i + 2 := by
  rcases hpost with rfl | ⟨p, rfl⟩
  · obtain ⟨y, hy⟩ := autoNext_last (line := line) (idx := i) (by rw [hd]; decide)
    exact ⟨y, 0, hy, fun p hp => by cases hp⟩
  · obtain ⟨i', e, _, hi⟩ := autoNext_field (line := line) (idx := i) (field := [41]) (rest := p)
      (by decide) (by rw [hd]; rfl)
    exact ⟨_, i', e, fun _ _ => by rw [hi]; rfl⟩

theorem autoNode_spec (lang : Lang) (line : Str) : ∀ (t : Tree) (s : Str) (t' : Tree),
    AllCats CatOK t → AllToks TokOK t → autoOf t = .ok s → autoImage lang t = .ok t' →
    ∀ (fuel idx : Nat) (toks : List Token) (post : Str),
      bound t ≤ fuel → line.drop idx = s ++ post → (post = [] ∨ ∃ p, post = 32 :: p) →
      ∃ idx', autoNode lang line fuel idx toks = .ok (t', idx', toks ++ t'.tokens) ∧
        (∀ p, post = 32 :: p → idx' = idx + s.length + 1)
  | .leaf c tok a b, s, t', hcat, htok, hs, hi, fuel, idx, toks, post, hf, hd, hpost => by
    obtain ⟨w, hw, rfl⟩ := autoOf_leaf_inv hs
    obtain ⟨w', hw', rfl⟩ := autoImage_leaf_inv hi
    rw [hw] at hw'; cases hw'
    obtain ⟨f, rfl⟩ : ∃ f, fuel = f + 1 := ⟨fuel - 1, by simp only [bound] at hf; omega⟩
    have hcat : CatOK c := hcat
    have htok : TokOK tok := htok
    have hwp : PlainWord w := by
      obtain ⟨w2, hw2, hp⟩ := TokOK.word htok
      rw [hw] at hw2; cases hw2; exact hp
    generalize hpos : Token.getD tok (lit "pos") (lit "POS") = pos at *
    have hposP : ∀ c ∈ pos, PlainCh c := hpos ▸ pos_plain htok POS_plain
    have hW : ∀ c ∈ denormalize w, PlainCh c := denormalize_plain hwp
    generalize denormalize w = W at *
    have hd' : line.drop idx = [40, 60, 76] ++ 32 :: (c.str ++ 32 :: (pos ++ 32 :: (pos ++ 32 ::
        (W ++ 32 :: ((c.str ++ [62, 41]) ++ post))))) := by
      rw [hd]; simp [leafText]
    have h2 := charAt_of_drop hd' 2 76 (by simp)
    have h0 := charAt_of_drop hd' 0 40 (by simp)
    have h1 := charAt_of_drop hd' 1 60 (by simp)
    obtain ⟨i1, e1, d1, q1⟩ := autoNext_field (by decide) hd'
    obtain ⟨i2, e2, d2, q2⟩ := autoNext_field (catOK_noSpace hcat) d1
    obtain ⟨i3, e3, d3, q3⟩ := autoNext_field (notMem_of_all hposP (fun h => h.1 rfl)) d2
    obtain ⟨i4, e4, d4, q4⟩ := autoNext_field (notMem_of_all hposP (fun h => h.1 rfl)) d3
    obtain ⟨i5, e5, d5, q5⟩ := autoNext_field (notMem_of_all hW (fun h => h.1 rfl)) d4
    have hdb : dropBackslashes W = W := dropBackslashes_id (notMem_of_all hW (fun h => h.2.2.2.2 rfl))
    rcases hpost with rfl | ⟨p, rfl⟩
    · obtain ⟨y, e6⟩ := autoNext_last (line := line) (idx := i5) (by
        rw [d5, List.append_nil]; exact (catOK_noSpace' hcat))
      refine ⟨0, ?_, fun p hp => by cases hp⟩
      rw [autoNode_leaf_eq lang line f idx toks h2 (by simpa using h0) h1 e1 e2 (catOK_parse hcat) e3 e4 e5 e6, hdb]
      rfl
    · obtain ⟨i6, e6, d6, q6⟩ := autoNext_field (catOK_noSpace' hcat) d5
      refine ⟨i6, ?_, fun p hp => ?_⟩
      · rw [autoNode_leaf_eq lang line f idx toks h2 (by simpa using h0) h1 e1 e2 (catOK_parse hcat) e3 e4 e5 e6, hdb]
        rfl
      · simp only [leafText, List.length_append, List.length_cons, List.length_nil] at *
        omega
  | .un c a b ch, s, t', hcat, htok, hs, hi, fuel, idx, toks, post, hf, hd, hpost => by
    obtain ⟨s1, hs1, rfl⟩ := autoOf_un_inv hs
    obtain ⟨ch', hc', rfl⟩ := autoImage_un_inv hi
    obtain ⟨hcat, hcatch⟩ : CatOK c ∧ AllCats CatOK ch := hcat
    have htok : AllToks TokOK ch := htok
    simp only [bound] at hf
    have hb := bound_pos ch
    obtain ⟨f, rfl⟩ : ∃ f, fuel = f + 3 := ⟨fuel - 3, by omega⟩
    have hd' : line.drop idx = [40, 60, 84] ++ 32 :: (c.str ++ 32 :: ([48] ++ 32 :: ([49, 62] ++ 32 ::
        (s1 ++ 32 :: (41 :: post))))) := by
      rw [hd]; simp [unText, unHead]
    have h2 := charAt_of_drop hd' 2 84 (by simp)
    have h0 := charAt_of_drop hd' 0 40 (by simp)
    have h1 := charAt_of_drop hd' 1 60 (by simp)
    obtain ⟨i1, e1, d1, q1⟩ := autoNext_field (by decide) hd'
    obtain ⟨i2, e2, d2, q2⟩ := autoNext_field (catOK_noSpace hcat) d1
    obtain ⟨i3, e3, d3, q3⟩ := autoNext_field (by decide) d2
    obtain ⟨i4, e4, d4, q4⟩ := autoNext_field (by decide) d3
    -- the child
    obtain ⟨i5, hn, q5⟩ := autoNode_spec lang line ch s1 ch' hcatch htok hs1 hc' (f + 1) i4 toks
      (32 :: 41 :: post) (by omega) d4 (Or.inr ⟨_, rfl⟩)
    have q5 := q5 _ rfl
    have d5 : line.drop i5 = 41 :: post := by rw [q5]; exact drop_after d4
    obtain ⟨r1, hr1⟩ := autoOf_head hs1
    have c4 : charAt line i4 = .ok 40 := charAt_of_drop0 (by rw [d4, hr1]; rfl)
    have hch : autoChildren lang line (f + 2) i4 toks [] = .ok ([ch'], i5, toks ++ ch'.tokens) := by
      rw [autoChildren_step lang line (f + 1) i4 toks [] c4 (by decide) hn]
      exact autoChildren_stop lang line f i5 _ _ (charAt_of_drop0 d5)
    obtain ⟨y, i6, e6, q6⟩ := autoNext_close d5 hpost
    refine ⟨i6, ?_, fun p hp => ?_⟩
    · rw [autoNode_un_eq lang line (f + 2) idx toks h2 (by simpa using h0) h1 e1 e2 (catOK_parse hcat) e3 e4 hch e6]
      rfl
    · have q6 := q6 p hp
      simp only [unText, unHead, List.length_append, List.length_cons, List.length_nil] at *
      omega
  | .bin c a b hdl l r, s, t', hcat, htok, hs, hi, fuel, idx, toks, post, hf, hd, hpost => by
    obtain ⟨sl, sr, hsl, hsr, rfl⟩ := autoOf_bin_inv hs
    obtain ⟨l', r', rule, hl', hr', hg, rfl⟩ := autoImage_bin_inv hi
    obtain ⟨hcat, hcatl, hcatr⟩ : CatOK c ∧ AllCats CatOK l ∧ AllCats CatOK r := hcat
    obtain ⟨htokl, htokr⟩ : AllToks TokOK l ∧ AllToks TokOK r := htok
    simp only [bound] at hf
    have hbl := bound_pos l
    have hbr := bound_pos r
    obtain ⟨f, rfl⟩ : ∃ f, fuel = f + 4 := ⟨fuel - 4, by omega⟩
    have hd' : line.drop idx = [40, 60, 84] ++ 32 :: (c.str ++ 32 :: ((if hdl then [48] else [49]) ++ 32 ::
        ([50, 62] ++ 32 :: (sl ++ 32 :: (sr ++ 32 :: (41 :: post)))))) := by
      rw [hd]; simp [binText, binHead]
    have h2 := charAt_of_drop hd' 2 84 (by simp)
    have h0 := charAt_of_drop hd' 0 40 (by simp)
    have h1 := charAt_of_drop hd' 1 60 (by simp)
    obtain ⟨i1, e1, d1, q1⟩ := autoNext_field (by decide) hd'
    obtain ⟨i2, e2, d2, q2⟩ := autoNext_field (catOK_noSpace hcat) d1
    obtain ⟨i3, e3, d3, q3⟩ := autoNext_field (head_noSpace hdl) d2
    obtain ⟨i4, e4, d4, q4⟩ := autoNext_field (by decide) d3
    -- the left child
    obtain ⟨i5, hn5, q5⟩ := autoNode_spec lang line l sl l' hcatl htokl hsl hl' (f + 2) i4 toks
      (32 :: (sr ++ 32 :: (41 :: post))) (by omega) d4 (Or.inr ⟨_, rfl⟩)
    have q5 := q5 _ rfl
    have d5 : line.drop i5 = sr ++ 32 :: (41 :: post) := by rw [q5]; exact drop_after d4
    -- the right child
    obtain ⟨i6, hn6, q6⟩ := autoNode_spec lang line r sr r' hcatr htokr hsr hr' (f + 1) i5
      (toks ++ l'.tokens) (32 :: 41 :: post) (by omega) d5 (Or.inr ⟨_, rfl⟩)
    have q6 := q6 _ rfl
    have d6 : line.drop i6 = 41 :: post := by rw [q6]; exact drop_after d5
    obtain ⟨rl, hrl⟩ := autoOf_head hsl
    obtain ⟨rr, hrr⟩ := autoOf_head hsr
    have c4 : charAt line i4 = .ok 40 := charAt_of_drop0 (by rw [d4, hrl]; rfl)
    have c5 : charAt line i5 = .ok 40 := charAt_of_drop0 (by rw [d5, hrr]; rfl)
    have hch : autoChildren lang line (f + 3) i4 toks [] =
        .ok ([l', r'], i6, toks ++ l'.tokens ++ r'.tokens) := by
      rw [autoChildren_step lang line (f + 2) i4 toks [] c4 (by decide) hn5,
        autoChildren_step lang line (f + 1) i5 _ _ c5 (by decide) hn6]
      exact autoChildren_stop lang line f i6 _ _ (charAt_of_drop0 d6)
    obtain ⟨y, i7, e7, q7⟩ := autoNext_close d6 hpost
    refine ⟨i7, ?_, fun p hp => ?_⟩
    · rw [autoNode_bin_eq lang line (f + 3) idx toks h2 (by simpa using h0) h1 e1 e2 (catOK_parse hcat) e3 e4 hch e7 hg,
        head_eq]
      simp [Tree.tokens]
    · have q7 := q7 p hp
      have hlen : (if hdl then [48] else [49] : Str).length = 1 := by cases hdl <;> rfl
      simp only [binText, binHead, List.length_append, List.length_cons, List.length_nil, hlen] at *
      omega

/-! ### the whole line -/

theorem bound_le : ∀ {t : Tree} {s : Str}, autoOf t = .ok s → bound t ≤ 2 * s.length
  | .leaf .., _, h => by
    obtain ⟨w, _, rfl⟩ := autoOf_leaf_inv h
    simp only [bound, leafText, List.length_append, List.length_cons, List.length_nil]
    omega
  | .un _ _ _ ch, _, h => by
    obtain ⟨s1, h1, rfl⟩ := autoOf_un_inv h
    have := bound_le h1
    simp only [bound, unText, unHead, List.length_append, List.length_cons, List.length_nil]
    omega
  | .bin _ _ _ _ l r, _, h => by
    obtain ⟨sl, sr, hl, hr, rfl⟩ := autoOf_bin_inv h
    have := bound_le hl
    have := bound_le hr
    simp only [bound, binText, binHead, List.length_append, List.length_cons, List.length_nil]
    omega

theorem allCats_cat {p : Cat → Prop} : ∀ {t : Tree}, AllCats p t → p t.cat
  | .leaf .., h => h
  | .un .., h => h.1
  | .bin .., h => h.1

theorem guess_total (lang : Lang) (target x y : Cat) (hx : OneSystem lang x) (hy : OneSystem lang y)
    (wx : C05.WF x) (wy : C05.WF y) : ∃ r, guess lang target x y = .ok r := by
  have hrs : ∃ rs, binaryRules lang x y = .ok rs := by
    cases lang with
    | en => exact C14.total_en none x y hx hy (nonEmptyBases_of_WF x wx) (nonEmptyBases_of_WF y wy)
    | ja => exact C14.total_ja none x y hx hy
  obtain ⟨rs, hrs⟩ := hrs
  simp only [guess, hrs]
  split
  · exact ⟨_, rfl⟩
  · exact ⟨_, rfl⟩

theorem autoImage_total (lang : Lang) : ∀ (t : Tree), AllCats CatOK t → AllCats (OneSystem lang) t →
    AllToks TokOK t → ∃ t', autoImage lang t = .ok t'
  | .leaf c tok a b, _, _, ht => by
    obtain ⟨w, hw, _⟩ := TokOK.word ht
    simp only [autoImage, hw]
    exact ⟨_, rfl⟩
  | .un c a b ch, hc, ho, ht => by
    obtain ⟨ch', h⟩ := autoImage_total lang ch hc.2 ho.2 ht
    simp only [autoImage, h]
    exact ⟨_, rfl⟩
  | .bin c a b hd l r, hc, ho, ht => by
    obtain ⟨l', hl⟩ := autoImage_total lang l hc.2.1 ho.2.1 ht.1
    obtain ⟨r', hr⟩ := autoImage_total lang r hc.2.2 ho.2.2 ht.2
    obtain ⟨rule, hg⟩ := guess_total lang c l'.cat r'.cat
      (by rw [autoImage_cat hl]; exact allCats_cat ho.2.1)
      (by rw [autoImage_cat hr]; exact allCats_cat ho.2.2)
      (by rw [autoImage_cat hl]; exact (allCats_cat hc.2.1).1)
      (by rw [autoImage_cat hr]; exact (allCats_cat hc.2.2).1)
    simp only [autoImage, hl, hr, hg]
    exact ⟨_, rfl⟩

theorem readAutoLine_printed (lang : Lang) (t t' : Tree) (s : Str)
    (hc : AllCats CatOK t) (ht : AllToks TokOK t) (hs : autoOf t = .ok s)
    (hi : autoImage lang t = .ok t') : readAutoLine lang s = .ok (t', t'.tokens) := by
  obtain ⟨idx', h, _⟩ := autoNode_spec lang s t s t' hc ht hs hi (2 * s.length + 2) 0 [] []
    (by have := bound_le hs; omega) (by simp) (Or.inl rfl)
  simp only [readAutoLine, h, List.nil_append]

/-! ### `joinSep` and `splitOn` -/

theorem joinSep_cons_of_ne (sep : Nat) (x : Str) {l : List Str} (h : l ≠ []) :
    joinSep sep (x :: l) = x ++ sep :: joinSep sep l := by
  cases l with
  | nil => exact absurd rfl h
  | cons y ys => rfl

/-- the text in front of the last part -/
def frontText (sep : Nat) (parts : List Str) : Str := (parts.map (· ++ [sep])).flatten

theorem joinSep_snoc (sep : Nat) (parts : List Str) (y : Str) :
    joinSep sep (parts ++ [y]) = frontText sep parts ++ y := by
  induction parts with
  | nil => rfl
  | cons x xs ih =>
    rw [List.cons_append, joinSep_cons_of_ne sep x (by simp), ih]
    simp [frontText]

theorem joinSep_append (sep : Nat) {A B : List Str} (hA : A ≠ []) (hB : B ≠ []) :
    joinSep sep (A ++ B) = joinSep sep A ++ sep :: joinSep sep B := by
  induction A with
  | nil => exact absurd rfl hA
  | cons x xs ih =>
    cases xs with
    | nil => rw [List.singleton_append, joinSep_cons_of_ne sep x hB]; rfl
    | cons y ys =>
      rw [List.cons_append, joinSep_cons_of_ne sep x (by simp), ih (by simp),
        joinSep_cons_of_ne sep x (by simp)]
      simp

theorem splitOnAux_append_sep (c : Nat) (a b : Str) : ∀ acc : Str,
    splitOnAux c acc (a ++ c :: b) = splitOnAux c acc a ++ splitOn c b := by
  induction a with
  | nil => intro acc; simp [splitOnAux, splitOn]
  | cons x xs ih =>
    intro acc
    simp only [List.cons_append, splitOnAux]
    split
    · rw [ih]; rfl
    · rw [ih]

theorem splitOn_append_sep (c : Nat) (a b : Str) :
    splitOn c (a ++ c :: b) = splitOn c a ++ splitOn c b :=
  splitOnAux_append_sep c a b []

theorem splitOnAux_ne_nil (c : Nat) : ∀ (s acc : Str), splitOnAux c acc s ≠ []
  | [], acc => by simp [splitOnAux]
  | x :: xs, acc => by
    simp only [splitOnAux]
    split
    · simp
    · exact splitOnAux_ne_nil c xs _

theorem splitOn_ne_nil (c : Nat) (s : Str) : splitOn c s ≠ [] := splitOnAux_ne_nil c s []

theorem getLastD_append_of_ne {α : Type} (A B : List α) (d : α) (h : B ≠ []) :
    (A ++ B).getLastD d = B.getLastD d := by
  rw [List.getLastD_eq_getLast?, List.getLastD_eq_getLast?, List.getLast?_append]
  cases hb : B.getLast? with
  | none => simp [List.getLast?_eq_none_iff] at hb; exact absurd hb h
  | some v => rfl

theorem lastCol_cons (f rest : Str) :
    (splitOn 9 (f ++ 9 :: rest)).getLastD [] = (splitOn 9 rest).getLastD [] := by
  rw [splitOn_append_sep, getLastD_append_of_ne _ _ _ (splitOn_ne_nil 9 rest)]

theorem lastCol_front (fs : List Str) (r : Str) :
    (splitOn 9 (frontText 9 fs ++ r)).getLastD [] = (splitOn 9 r).getLastD [] := by
  induction fs with
  | nil => rfl
  | cons f fs ih =>
    have : frontText 9 (f :: fs) ++ r = f ++ 9 :: (frontText 9 fs ++ r) := by simp [frontText]
    rw [this, lastCol_cons, ih]

theorem lastColumns_append_nl (a b : Str) :
    lastColumns (a ++ 10 :: b) = lastColumns a ++ lastColumns b := by
  simp only [lastColumns, splitOn_append_sep, List.map_append]

theorem lastColumns_ne_nil (s : Str) : lastColumns s ≠ [] := by
  simp only [lastColumns, ne_eq, List.map_eq_nil_iff]
  exact splitOn_ne_nil 10 s

/-- no tab, no newline -/
def NoTN (s : Str) : Prop := ∀ c ∈ s, c ≠ 9 ∧ c ≠ 10

theorem NoTN.append {a b : Str} (ha : NoTN a) (hb : NoTN b) : NoTN (a ++ b) := by
  intro c hc
  rcases List.mem_append.1 hc with h | h
  · exact ha c h
  · exact hb c h

theorem NoTN.cons {a : Nat} {b : Str} (ha : a ≠ 9 ∧ a ≠ 10) (hb : NoTN b) : NoTN (a :: b) := by
  intro c hc
  rcases List.mem_cons.1 hc with h | h
  · rw [h]; exact ha
  · exact hb c h

theorem NoTN.nil : NoTN [] := fun _ h => by cases h

theorem NoTN.of_plain {s : Str} (h : ∀ c ∈ s, PlainCh c) : NoTN s :=
  fun c hc => ⟨(h c hc).2.1, (h c hc).2.2.1⟩

theorem frontText_noTN {stack : List Str} (h : ∀ e ∈ stack, NoTN e) : NoTN (frontText 32 stack) := by
  induction stack with
  | nil => exact NoTN.nil
  | cons e es ih =>
    have : frontText 32 (e :: es) = e ++ 32 :: frontText 32 es := by simp [frontText]
    rw [this]
    exact (h e (by simp)).append (NoTN.cons (by decide) (ih fun e' he' => h e' (by simp [he'])))

/-- one row of the table: the last column is what follows the last tab -/
theorem lastColumns_row (fs : List Str) (last x : Str) (h10 : ∀ f ∈ fs, 10 ∉ f) (hl : NoTN last)
    (hx : NoTN x) : lastColumns (tab (fs ++ [last]) ++ x) = [last ++ x] := by
  have hlx : NoTN (last ++ x) := hl.append hx
  rw [tab, joinSep_snoc, List.append_assoc]
  have h10' : (10 : Nat) ∉ frontText 9 fs ++ (last ++ x) := by
    intro hm
    rcases List.mem_append.1 hm with hm | hm
    · simp only [frontText, List.mem_flatten, List.mem_map] at hm
      obtain ⟨l, ⟨f, hf, rfl⟩, hm⟩ := hm
      rcases List.mem_append.1 hm with hm | hm
      · exact h10 f hf hm
      · revert hm; decide
    · exact (hlx 10 hm).2 rfl
  simp only [lastColumns, C05.splitOn_last 10 _ h10', List.map_cons, List.map_nil, lastCol_front]
  rw [C05.splitOn_last 9 _ (fun hm => (hlx 9 hm).1 rfl)]
  rfl

/-! ### digits -/

theorem natDigitsAux_digits : ∀ (fuel n : Nat) (acc : Str), (∀ c ∈ acc, 48 ≤ c ∧ c ≤ 57) →
    ∀ c ∈ natDigitsAux fuel n acc, 48 ≤ c ∧ c ≤ 57
  | 0, _, acc, h => by simpa [natDigitsAux] using h
  | fuel + 1, n, acc, h => by
    simp only [natDigitsAux]
    split
    · intro c hc
      rcases List.mem_cons.1 hc with rfl | hc
      · omega
      · exact h c hc
    · apply natDigitsAux_digits fuel
      intro c hc
      rcases List.mem_cons.1 hc with rfl | hc
      · omega
      · exact h c hc

theorem ofNat_no10 (n : Nat) : 10 ∉ Str.ofNat n := by
  intro hm
  have := natDigitsAux_digits (n + 1) n [] (fun _ h => by cases h) 10 hm
  omega

/-! ### the conll fragments -/

def HasPos (tok : Token) : Prop := ∃ p, Token.get? tok (lit "pos") = some p

theorem catOK_noTN {c : Cat} (h : CatOK c) : NoTN c.str := fun ch hc => ⟨(h.2.2 ch hc).1, (h.2.2 ch hc).2.1⟩

theorem catOK_no10 {c : Cat} (h : CatOK c) : 10 ∉ c.str := fun hm => (catOK_noTN h 10 hm).2 rfl

theorem no10_of_plain {s : Str} (h : ∀ c ∈ s, PlainCh c) : 10 ∉ s := fun hm => (h 10 hm).2.2.1 rfl

theorem noTN_closed (s : Str) (h : s.all (fun c => c != 9 && c != 10) = true) : NoTN s := by
  intro c hc
  have := List.all_eq_true.1 h c hc
  simpa using this

theorem leafText_noTN {c : Cat} {pos w : Str} (hc : CatOK c) (hp : ∀ c ∈ pos, PlainCh c)
    (hw : ∀ c ∈ w, PlainCh c) : NoTN (leafText c pos w) := by
  have h1 := catOK_noTN hc
  have h2 := NoTN.of_plain hp
  have h3 := NoTN.of_plain hw
  have hsp : (32 : Nat) ≠ 9 ∧ (32 : Nat) ≠ 10 := by decide
  simp only [leafText]
  exact NoTN.append (noTN_closed _ (by decide)) <| NoTN.cons hsp <| h1.append <| NoTN.cons hsp <|
    h2.append <| NoTN.cons hsp <| h2.append <| NoTN.cons hsp <| h3.append <| NoTN.cons hsp <|
    h1.append (noTN_closed _ (by decide))

theorem unHead_noTN {c : Cat} (hc : CatOK c) : NoTN (unHead c) := by
  have h1 := catOK_noTN hc
  have hsp : (32 : Nat) ≠ 9 ∧ (32 : Nat) ≠ 10 := by decide
  simp only [unHead]
  exact NoTN.append (noTN_closed _ (by decide)) <| NoTN.cons hsp <| h1.append <|
    noTN_closed _ (by decide)

theorem binHead_noTN {c : Cat} (hc : CatOK c) (h : Bool) : NoTN (binHead c h) := by
  have h1 := catOK_noTN hc
  have hsp : (32 : Nat) ≠ 9 ∧ (32 : Nat) ≠ 10 := by decide
  simp only [binHead]
  refine NoTN.append (noTN_closed _ (by decide)) <| NoTN.cons hsp <| h1.append <| NoTN.cons hsp ?_
  cases h <;> exact noTN_closed _ (by decide)

theorem noTN_sprpar : NoTN (lit " )") := noTN_closed _ (by decide)

theorem sp_single (y : Str) : sp [y] = y := rfl

theorem conllRec_spec (deps : List (Option Nat)) : ∀ (t : Tree) (s : Str),
    AllToks TokOK t → AllToks HasPos t → AllCats CatOK t → autoOf t = .ok s →
    ∀ (st st' : ConllSt) (out x : Str), (∀ e ∈ st.stack, NoTN e) → NoTN x →
      conllRec deps t st = .ok (out, st') →
      st'.stack = [] ∧ sp (lastColumns (out ++ x)) = frontText 32 st.stack ++ s ++ x
  | .leaf c tok a b, s, htok, hpos, hcat, hs, st, st', out, x, hst, hx, h => by
    obtain ⟨w, hw, rfl⟩ := autoOf_leaf_inv hs
    have htok : TokOK tok := htok
    have hcat : CatOK c := hcat
    obtain ⟨p, hp⟩ : HasPos tok := hpos
    have hwp : PlainWord w := by
      obtain ⟨w2, hw2, hp⟩ := TokOK.word htok
      rw [hw] at hw2; cases hw2; exact hp
    have hW : ∀ c ∈ denormalize w, PlainCh c := denormalize_plain hwp
    have hpP : ∀ c ∈ p, PlainCh c := (htok.2 _ (get?_mem hp)).2
    have hlem : ∀ c ∈ Token.getD tok (lit "lemma") (lit "_"), PlainCh c :=
      getD_all (fun kv hkv => (htok.2 kv hkv).2) underscore_plain
    simp only [conllRec, hw, getD_of_get? hp, sp_leaf] at h
    split at h
    · cases h
    · next d hd =>
      simp only [Except.ok.injEq, Prod.mk.injEq] at h
      obtain ⟨rfl, rfl⟩ := h
      refine ⟨rfl, ?_⟩
      rw [getD_of_get? hp]
      generalize denormalize w = W at *
      simp only [sp, cSpace, joinSep_snoc]
      have hrow := fun dep : Nat => lastColumns_row
        [Str.ofNat st.counter, W, Token.getD tok (lit "lemma") (lit "_"), p, p, lit "_",
          Str.ofNat dep, c.str, lit "_"]
        (frontText 32 st.stack ++ leafText c p W) x
        (by
          simp only [List.forall_mem_cons]
          refine ⟨ofNat_no10 _, no10_of_plain hW, no10_of_plain hlem, no10_of_plain hpP,
            no10_of_plain hpP, by decide, ofNat_no10 _, catOK_no10 hcat, by decide, ?_⟩
          intro _ h; cases h)
        ((frontText_noTN hst).append (leafText_noTN hcat hpP hW)) hx
      simp only [List.cons_append, List.nil_append] at hrow
      rw [hrow]
      simp [joinSep]
  | .un c a b ch, s, htok, hpos, hcat, hs, st, st', out, x, hst, hx, h => by
    obtain ⟨s1, hs1, rfl⟩ := autoOf_un_inv hs
    obtain ⟨hcat, hcatch⟩ : CatOK c ∧ AllCats CatOK ch := hcat
    simp only [conllRec, sp_unHead] at h
    split at h
    · cases h
    · next o st2 he =>
      simp only [Except.ok.injEq, Prod.mk.injEq] at h
      obtain ⟨rfl, rfl⟩ := h
      have hx' : NoTN (lit " )" ++ x) := NoTN.append noTN_sprpar hx
      obtain ⟨h1, h2⟩ := conllRec_spec deps ch s1 htok hpos hcatch hs1 _ _ _ (lit " )" ++ x)
        (by
          intro e he'
          rcases List.mem_append.1 he' with he' | he'
          · exact hst e he'
          · simp only [List.mem_singleton] at he'; rw [he']; exact unHead_noTN hcat)
        hx' he
      refine ⟨h1, ?_⟩
      rw [List.append_assoc, h2]
      simp [frontText, unText, lit_sprpar]
  | .bin c a b hd l r, s, htok, hpos, hcat, hs, st, st', out, x, hst, hx, h => by
    obtain ⟨sl, sr, hsl, hsr, rfl⟩ := autoOf_bin_inv hs
    obtain ⟨hcat, hcatl, hcatr⟩ : CatOK c ∧ AllCats CatOK l ∧ AllCats CatOK r := hcat
    simp only [conllRec, sp_binHead] at h
    split at h
    · cases h
    · next o1 st1 he1 =>
      split at h
      · cases h
      · next o2 st2 he2 =>
        simp only [Except.ok.injEq, Prod.mk.injEq] at h
        obtain ⟨rfl, rfl⟩ := h
        have hx' : NoTN (lit " )" ++ x) := NoTN.append noTN_sprpar hx
        obtain ⟨h1, h2⟩ := conllRec_spec deps l sl htok.1 hpos.1 hcatl hsl _ _ _ []
          (by
            intro e he'
            rcases List.mem_append.1 he' with he' | he'
            · exact hst e he'
            · simp only [List.mem_singleton] at he'; rw [he']; exact binHead_noTN hcat hd)
          NoTN.nil he1
        obtain ⟨h3, h4⟩ := conllRec_spec deps r sr htok.2 hpos.2 hcatr hsr _ _ _ (lit " )" ++ x)
          (by rw [h1]; intro e he'; cases he') hx' he2
        refine ⟨h3, ?_⟩
        have e : o1 ++ 10 :: o2 ++ lit " )" ++ x = o1 ++ 10 :: (o2 ++ (lit " )" ++ x)) := by simp
        rw [e, lastColumns_append_nl, sp, cSpace,
          joinSep_append 32 (lastColumns_ne_nil _) (lastColumns_ne_nil _)]
        rw [List.append_nil] at h2
        simp only [sp, cSpace] at h2 h4
        rw [h2, h4, h1]
        simp [frontText, binText, lit_sprpar]

theorem conll_fragments_aux (t : Tree) (s c : Str) (htok : AllToks TokOK t)
    (hpos : AllToks HasPos t) (hcat : AllCats CatOK t) (hs : autoOf t = .ok s)
    (hc : conllOf t = .ok c) : joinSep cSpace (lastColumns c) = s := by
  simp only [conllOf] at hc
  split at hc
  · cases hc
  · next out st' he =>
    cases hc
    have := (conllRec_spec _ t s htok hpos hcat hs _ _ _ [] (by intro e h; cases h) NoTN.nil he).2
    simpa [sp, frontText] using this

/-! ### the CCGbank repair leaves printed categories alone -/

/-- how the reversed text of a well-formed category starts: a plain character or `)`, or
    `]`, plain characters, `[`, a plain character -/
def EndsOK (r : Str) : Prop :=
  (∃ x r', r = x :: r' ∧ (C05.plainChar x = true ∨ x = 41)) ∨
  (∃ g x r', r = 93 :: (g ++ 91 :: x :: r') ∧ (∀ ch ∈ g, C05.plainChar ch = true) ∧
    C05.plainChar x = true)

theorem EndsOK.append {r : Str} (h : EndsOK r) (more : Str) : EndsOK (r ++ more) := by
  rcases h with ⟨x, r', rfl, hx⟩ | ⟨g, x, r', rfl, hg, hx⟩
  · exact Or.inl ⟨x, r' ++ more, rfl, hx⟩
  · exact Or.inr ⟨g, x, r' ++ more, by simp, hg, hx⟩

theorem plain_ne {x : Nat} (h : C05.plainChar x = true) : x ≠ 41 ∧ x ≠ 93 ∧ x ≠ 91 ∧ x ≠ 47 := by
  refine ⟨?_, ?_, ?_, ?_⟩ <;> (rintro rfl; revert h; decide)

theorem endsOK_atom (b : Str) (f : Feat) (hc : C05.WF (.atom b f)) : EndsOK (Cat.atom b f).str.reverse := by
  obtain ⟨hb, hf, _⟩ := hc
  obtain ⟨x, br, hbr⟩ : ∃ x br, b.reverse = x :: br := by
    cases h : b.reverse with
    | nil => exact absurd (List.reverse_eq_nil_iff.1 h) hb.1
    | cons x br => exact ⟨x, br, rfl⟩
  have hx : C05.plainChar x = true := hb.2 x (by rw [← List.mem_reverse, hbr]; simp)
  rw [C05.str_atom]
  split
  · exact Or.inl ⟨x, br, hbr, Or.inl hx⟩
  · refine Or.inr ⟨f.str.reverse, x, br, ?_, ?_, hx⟩
    · simp [hbr, cLBr, cRBr]
    · intro ch hm
      exact featStr_plain f hf ch (List.mem_reverse.1 hm)

theorem endsOK_wrapS (c : Cat) (hc : C05.WF c) : EndsOK (C05.wrapS c).reverse := by
  cases c with
  | atom b f => exact endsOK_atom b f hc
  | fn l s r =>
    refine Or.inl ⟨41, ((Cat.fn l s r).str.reverse ++ [40]), ?_, Or.inr rfl⟩
    simp [C05.wrapS, Cat.isFunctor, cLPar, cRPar]

theorem endsOK_str (c : Cat) (hc : C05.WF c) : EndsOK c.str.reverse := by
  cases c with
  | atom b f => exact endsOK_atom b f hc
  | fn l s r =>
    rw [C05.str_fn, List.reverse_append, List.reverse_cons, List.append_assoc]
    exact (endsOK_wrapS r hc.2.2).append _

theorem startsWith_conj (g : Str) (x y : Nat) (r' : Str) (hg : ∀ ch ∈ g, C05.plainChar ch = true)
    (hx : C05.plainChar x = true) (hy : y = 41 ∨ y = 93) :
    startsWith (g ++ 91 :: x :: r') [106, 110, 111, 99, 91, y] = false := by
  have hx' := plain_ne hx
  have hxy : x ≠ y := by rcases hy with rfl | rfl; exact hx'.1; exact hx'.2.1
  rcases g with _ | ⟨a, _ | ⟨b, _ | ⟨c, _ | ⟨d, _ | ⟨e, g'⟩⟩⟩⟩⟩
  · simp [startsWith]
  · simp [startsWith]
  · simp [startsWith]
  · simp [startsWith]
  · simp [startsWith, hxy]
  · have he : e ≠ 91 := (plain_ne (hg e (by simp))).2.2.1
    simp [startsWith, he]

theorem endsWith_conj {s : Str} (h : EndsOK s.reverse) (y : Nat) (hy : y = 41 ∨ y = 93) :
    endsWith s [y, 91, 99, 111, 110, 106, 93] = false := by
  have hrev : [y, 91, 99, 111, 110, 106, 93].reverse = [93, 106, 110, 111, 99, 91, y] := rfl
  rw [endsWith, hrev]
  rcases h with ⟨x, r', hr, hx⟩ | ⟨g, x, r', hr, hg, hx⟩
  · rw [hr]
    have : x ≠ 93 := by
      rcases hx with hx | rfl
      · exact (plain_ne hx).2.1
      · decide
    simp [startsWith, this]
  · rw [hr]
    simp only [startsWith, startsWith_conj g x y r' hg hx hy]
    simp

theorem fixCat_of_endsOK {s : Str} (h : EndsOK s.reverse) : fixCat s = s := by
  have h1 : (s == lit "((S[b]\\NP)/NP)/") = false := by
    rw [beq_eq_false_iff_ne]
    intro e
    rw [e] at h
    rcases h with ⟨x, r', hr, hx⟩ | ⟨g, x, r', hr, _, _⟩
    · have hx47 : x = 47 := by
        have := congrArg List.head? hr
        simpa [lit] using this.symm
      subst hx47
      rcases hx with hx | hx
      · revert hx; decide
      · cases hx
    · have := congrArg List.head? hr
      simp [lit] at this
  have h2 : endsWith s (lit ")[conj]") = false := endsWith_conj h 41 (Or.inl rfl)
  have h3 : endsWith s (lit "][conj]") = false := endsWith_conj h 93 (Or.inr rfl)
  simp [fixCat, h1, h2, h3]

end Depccg.C08
