/-
  Helper lemmas for the feature-system closure theorems (`Depccg/Props/System.lean`): the rule
  functions, given categories of one feature system, return categories of that system; the
  category table of a run stays inside the system.  Core Lean only.

  The rule-by-rule analysis is done once, for a predicate `CatP Q F` that asks `Q` of every atom
  name and `F` of every feature; `InEn` and `InJa` are instances.
-/
import Depccg.Props.SystemDefs
import Depccg.Props.C14
import Depccg.Props.Lazy
import Depccg.Proofs.C03Lemmas
import Depccg.Proofs.C04Lemmas
import Depccg.Proofs.ClosureLemmas

namespace Depccg.SystemProps
open Depccg Cat Str Unify C06 C14 GlueRun

/-- `Q` of every atom name, `F` of every feature -/
def CatP (Q : Str → Prop) (F : Feat → Prop) : Cat → Prop
  | .atom b f => Q b ∧ F f
  | .fn l _ r => CatP Q F l ∧ CatP Q F r

def IsUn (f : Feat) : Prop := ∃ v, f = .un v
def IsTri (f : Feat) : Prop := ∃ k1 v1 k2 v2 k3 v3, f = .tri k1 v1 k2 v2 k3 v3

theorem sy_inEn_iff (c : Cat) : InEn c ↔ CatP (fun b => b ≠ []) IsUn c := by
  induction c with
  | atom b f =>
    cases f with
    | un v => simp [InEn, AllUnary, NonEmptyBases, CatP, IsUn]
    | tri k1 v1 k2 v2 k3 v3 => simp [InEn, AllUnary, CatP, IsUn]
  | fn l s r ihl ihr =>
    simp only [InEn, AllUnary, NonEmptyBases, CatP] at ihl ihr ⊢
    rw [← ihl, ← ihr]
    constructor
    · rintro ⟨⟨a, b⟩, c, d⟩; exact ⟨⟨a, c⟩, b, d⟩
    · rintro ⟨⟨a, c⟩, b, d⟩; exact ⟨⟨a, b⟩, c, d⟩

theorem sy_inJa_iff (c : Cat) : InJa c ↔ CatP (fun _ => True) IsTri c := by
  induction c with
  | atom b f =>
    cases f with
    | un v => simp [InJa, AllTernary, CatP, IsTri]
    | tri k1 v1 k2 v2 k3 v3 => simp [InJa, AllTernary, CatP, IsTri]
  | fn l s r ihl ihr =>
    simp only [InJa, AllTernary, CatP] at ihl ihr ⊢
    rw [← ihl, ← ihr]

section Generic
variable {Q : Str → Prop} {F : Feat → Prop}

theorem sy_mk_fn {l r : Cat} (s : Nat) (hl : CatP Q F l) (hr : CatP Q F r) : CatP Q F (.fn l s r) :=
  ⟨hl, hr⟩

/-- `clear_features` (as the function `erase`, C14) stays inside a system that has the absent
    feature -/
theorem sy_erase (hn : F (.un none)) (p : Feat → Bool) {c : Cat} (h : CatP Q F c) :
    CatP Q F (C14.erase p c) := by
  induction c with
  | atom b f =>
    simp only [C14.erase]
    split
    · exact ⟨h.1, hn⟩
    · exact h
  | fn l s r ihl ihr => exact ⟨ihl h.1, ihr h.2⟩

theorem sy_feats {t : Cat} (ht : CatP Q F t) : ∀ f ∈ feats t, F f := by
  induction t with
  | atom b g =>
    intro f hf
    simp only [feats, List.mem_singleton] at hf
    subst hf
    exact ht.2
  | fn l s r ihl ihr =>
    intro f hf
    simp only [feats, List.mem_append] at hf
    rcases hf with hf | hf
    · exact ihl ht.1 f hf
    · exact ihr ht.2 f hf

theorem sy_matched {p t : Cat} {v : Str} {c : Cat} (h : (v, c) ∈ matched p t) (ht : CatP Q F t) :
    CatP Q F c := by
  induction p generalizing t with
  | atom w g =>
    simp only [matched, List.mem_singleton, Prod.mk.injEq] at h
    rw [h.2]; exact ht
  | fn pl ps pr ihl ihr =>
    cases t with
    | atom b g => simp [matched] at h
    | fn tl ts tr =>
      simp only [matched, List.mem_append] at h
      rcases h with h | h
      · exact ihl h ht.1
      · exact ihr h ht.2

theorem sy_instance {pool : List Feat} (hp : ∀ f ∈ pool, F f) {b c : Cat}
    (h : InstanceOf pool b c) (hc : CatP Q F c) : CatP Q F b := by
  induction b generalizing c with
  | atom n f =>
    cases c with
    | atom n' f' =>
      obtain ⟨rfl, h2⟩ := h
      rcases h2 with rfl | ⟨_, hf⟩
      · exact hc
      · exact ⟨hc.1, hp f hf⟩
    | fn l' s' r' => exact h.elim
  | fn l s r ihl ihr =>
    cases c with
    | atom n' f' => exact h.elim
    | fn l' s' r' =>
      obtain ⟨h1, rfl, h3⟩ := h
      exact ⟨ihl h1 hc.1, ihr h3 hc.2⟩

/-- every binding of a successful match of categories of the system is in the system -/
theorem sy_binding {px py x y : Cat} {σ : Bindings} (hx : CatP Q F x) (hy : CatP Q F y)
    (h : unify px py x y = .ok (some σ)) {k : Str} {b : Cat} (hg : σ.get k = .ok b) :
    CatP Q F b := by
  obtain ⟨cats1, xf, cats2, yf, m, h1, h2, ha, rfl⟩ := unify_some_iff.1 h
  obtain ⟨_, rfl, rfl⟩ := scan_ok h1
  obtain ⟨_, rfl, rfl⟩ := scan_ok h2
  have hm : MapOK (feats x ++ feats y) m :=
    agree_mapOK (fun k f hf => List.mem_append_left _ (writes_values hf))
      (fun k f hf => List.mem_append_right _ (writes_values hf)) (MapOK.nil _) ha
  have hpool : ∀ f ∈ feats x ++ feats y, F f := by
    intro f hf
    rcases List.mem_append.1 hf with hf | hf
    · exact sy_feats hx f hf
    · exact sy_feats hy f hf
  simp only [Bindings.get] at hg
  cases hc : Dict.get? (setAll (setAll ([] : Dict Str Cat) (matched px x)) (matched py y)) k with
  | none => rw [hc] at hg; cases hg
  | some c =>
    rw [hc] at hg
    cases hg
    have hwc : CatP Q F c := by
      rcases get?_setAll_sub _ _ hc with h' | h'
      · exact sy_matched h' hy
      · rcases get?_setAll_sub _ _ h' with h'' | h''
        · exact sy_matched h'' hx
        · simp [Dict.get?] at h''
    exact sy_instance hpool (instanceOf_subst hm c) hwc

theorem sy_functorOf {y l r c : Cat} (hl : CatP Q F l) (hr : CatP Q F r)
    (h : En.functorOf y l r = .ok c) : CatP Q F c := by
  cases y with
  | atom b f => cases h
  | fn yl s yr =>
    simp only [En.functorOf, Except.ok.injEq] at h
    subst h
    exact ⟨hl, hr⟩

/-! ### the English combinators -/

section En
set_option linter.unusedSectionVars false
variable {x y : Cat} {r : RuleRes} (hx : CatP Q F x) (hy : CatP Q F y)
  (hsb : CatP Q F (.fn En.sNP cBSlash En.sNP)) (hsf : CatP Q F (.fn En.sNP cSlash En.sNP))
include hx hy

theorem sy_en_fa (h : En.forwardApplication x y = .ok (some r)) : CatP Q F r.cat := by
  unfold En.forwardApplication at h
  split at h
  · cases h
  · cases h
  · rename_i σ hu
    split at h
    · rw [C03.mk_inv h]; exact hy
    · split at h
      · rename_i a ha
        rw [C03.mk_inv h]; exact sy_binding hx hy hu ha
      · cases h

theorem sy_en_ba (h : En.backwardApplication x y = .ok (some r)) : CatP Q F r.cat := by
  unfold En.backwardApplication at h
  split at h
  · rw [C03.mk_inv h]; exact hx
  · split at h
    · cases h
    · cases h
    · rename_i σ hu
      split at h
      · rw [C03.mk_inv h]; exact hx
      · split at h
        · rename_i a ha
          rw [C03.mk_inv h]; exact sy_binding hx hy hu ha
        · cases h

theorem sy_en_fc (h : En.forwardComposition x y = .ok (some r)) : CatP Q F r.cat := by
  unfold En.forwardComposition at h
  split at h
  · cases h
  · cases h
  · rename_i σ hu
    split at h
    · rw [C03.mk_inv h]; exact hy
    · split at h
      · rename_i a c ha hc
        rw [C03.mk_inv h]
        exact sy_mk_fn _ (sy_binding hx hy hu ha) (sy_binding hx hy hu hc)
      · cases h
      · cases h

theorem sy_en_bx (h : En.backwardComposition x y = .ok (some r)) : CatP Q F r.cat := by
  unfold En.backwardComposition at h
  split at h
  · cases h
  · cases h
  · rename_i σ hu
    split at h
    · cases h
    · split at h
      · cases h
      · split at h
        · rw [C03.mk_inv h]; exact hx
        · split at h
          · rename_i a c ha hc
            rw [C03.mk_inv h]
            exact sy_mk_fn _ (sy_binding hx hy hu ha) (sy_binding hx hy hu hc)
          · cases h
          · cases h

theorem sy_en_gfc (h : En.generalizedForwardComposition x y = .ok (some r)) : CatP Q F r.cat := by
  unfold En.generalizedForwardComposition at h
  split at h
  · cases h
  · cases h
  · rename_i σ hu
    split at h
    · rw [C03.mk_inv h]; exact hy
    · split at h
      · rename_i a c d ha hc hd
        split at h
        · rename_i q hq
          rw [C03.mk_inv h]
          exact sy_functorOf
            (sy_mk_fn _ (sy_binding hx hy hu ha) (sy_binding hx hy hu hc))
            (sy_binding hx hy hu hd) hq
        · cases h
      · cases h
      · cases h
      · cases h

theorem sy_en_gbx (h : En.generalizedBackwardComposition x y = .ok (some r)) : CatP Q F r.cat := by
  unfold En.generalizedBackwardComposition at h
  split at h
  · cases h
  · cases h
  · rename_i σ hu
    split at h
    · cases h
    · split at h
      · cases h
      · split at h
        · rw [C03.mk_inv h]; exact hx
        · split at h
          · rename_i a c d ha hc hd
            split at h
            · rename_i q hq
              rw [C03.mk_inv h]
              exact sy_functorOf
                (sy_mk_fn _ (sy_binding hx hy hu ha) (sy_binding hx hy hu hc))
                (sy_binding hx hy hu hd) hq
            · cases h
          · cases h
          · cases h
          · cases h

theorem sy_en_conj (h : En.conjunction x y = .ok (some r)) : CatP Q F r.cat := by
  unfold En.conjunction at h
  split at h
  · cases h
  · split at h
    · rw [C03.mk_inv h]; exact sy_mk_fn _ hy hy
    · cases h

theorem sy_en_conj2 (h : En.conjunction2 x y = .ok (some r)) : CatP Q F r.cat := by
  unfold En.conjunction2 at h
  split at h
  · rw [C03.mk_inv h]; exact hy
  · cases h

theorem sy_en_rp1 (h : En.removePunctuation1 x y = .ok (some r)) : CatP Q F r.cat := by
  unfold En.removePunctuation1 at h
  split at h
  · cases h
  · rw [C03.mk_inv h]; exact hy
  · cases h

theorem sy_en_rp2 (h : En.removePunctuation2 x y = .ok (some r)) : CatP Q F r.cat := by
  unfold En.removePunctuation2 at h
  split at h
  · cases h
  · rw [C03.mk_inv h]; exact hx
  · cases h

theorem sy_en_rpl (h : En.removePunctuationLeft x y = .ok (some r)) : CatP Q F r.cat := by
  unfold En.removePunctuationLeft at h
  split at h
  · rw [C03.mk_inv h]; exact sy_mk_fn _ hy hy
  · cases h

include hsb in
theorem sy_en_comma (h : En.commaVpToAdv x y = .ok (some r)) : CatP Q F r.cat := by
  unfold En.commaVpToAdv at h
  split at h
  · rw [C03.mk_inv h]; exact hsb
  · cases h

include hsf in
theorem sy_en_pds (h : En.parentheticalDirectSpeech x y = .ok (some r)) : CatP Q F r.cat := by
  unfold En.parentheticalDirectSpeech at h
  split at h
  · rw [C03.mk_inv h]; exact hsf
  · cases h

include hsb hsf in
/-- every English combinator stays inside the system -/
theorem sy_en_comb {c : En.Comb} (hc : c ∈ En.combinators) (h : c x y = .ok (some r)) :
    CatP Q F r.cat := by
  rcases C03.mem_combinators hc with
    rfl | rfl | rfl | rfl | rfl | rfl | rfl | rfl | rfl | rfl | rfl | rfl | rfl
  · exact sy_en_fa hx hy h
  · exact sy_en_ba hx hy h
  · exact sy_en_fc hx hy h
  · exact sy_en_bx hx hy h
  · exact sy_en_gfc hx hy h
  · exact sy_en_gbx hx hy h
  · exact sy_en_conj hx hy h
  · exact sy_en_conj2 hx hy h
  · exact sy_en_rp1 hx hy h
  · exact sy_en_rp2 hx hy h
  · exact sy_en_rpl hx hy h
  · exact sy_en_comma hx hy hsb h
  · exact sy_en_pds hx hy hsf h

end En

/-! ### the Japanese combinators -/

theorem sy_leftOf {x l : Cat} (hx : CatP Q F x) (h : Ja.leftOf x = .ok l) : CatP Q F l := by
  cases x with
  | atom b f => cases h
  | fn xl s xr =>
    simp only [Ja.leftOf, Except.ok.injEq] at h
    subst h
    exact hx.1

theorem sy_get2 {σ : Bindings} {k1 k2 : Nat} {f : Cat → Cat → Except Err Cat} {c : Cat}
    (hb : ∀ k b, σ.get k = .ok b → CatP Q F b)
    (hf : ∀ a c' q, CatP Q F a → CatP Q F c' → f a c' = .ok q → CatP Q F q)
    (h : Ja.get2 σ k1 k2 f = .ok c) : CatP Q F c := by
  unfold Ja.get2 at h
  split at h
  · cases h
  · rename_i a ha
    split at h
    · cases h
    · rename_i c' hc
      exact hf a c' c (hb _ _ ha) (hb _ _ hc) h

theorem sy_get3 {σ : Bindings} {k1 k2 k3 : Nat} {f : Cat → Cat → Cat → Except Err Cat} {c : Cat}
    (hb : ∀ k b, σ.get k = .ok b → CatP Q F b)
    (hf : ∀ a c' d q, CatP Q F a → CatP Q F c' → CatP Q F d → f a c' d = .ok q → CatP Q F q)
    (h : Ja.get3 σ k1 k2 k3 f = .ok c) : CatP Q F c := by
  unfold Ja.get3 at h
  refine sy_get2 hb ?_ h
  intro a c' q ha hc hq
  split at hq
  · cases hq
  · rename_i d hd
    exact hf a c' d q ha hc (hb _ _ hd) hq

section Ja
set_option linter.unusedSectionVars false
variable {x y : Cat} {r : RuleRes} (hx : CatP Q F x) (hy : CatP Q F y)
include hx hy

theorem sy_ja_fa (h : Ja.forwardApplication x y = .ok (some r)) : CatP Q F r.cat := by
  obtain ⟨σ, hu, ⟨_, rfl⟩ | ⟨_, c, hc, rfl⟩⟩ := C04.viaUnify_inv h
  · exact hy
  · exact sy_binding hx hy hu hc

theorem sy_ja_ba (h : Ja.backwardApplication x y = .ok (some r)) : CatP Q F r.cat := by
  obtain ⟨σ, hu, ⟨_, rfl⟩ | ⟨_, c, hc, rfl⟩⟩ := C04.viaUnify_inv h
  · exact hx
  · exact sy_binding hx hy hu hc

theorem sy_ja_fc (h : Ja.forwardComposition x y = .ok (some r)) : CatP Q F r.cat := by
  obtain ⟨σ, hu, ⟨_, rfl⟩ | ⟨_, c, hc, rfl⟩⟩ := C04.viaUnify_inv h
  · exact hy
  · refine sy_get2 (fun k b => sy_binding hx hy hu) ?_ hc
    intro a c' q ha hc' hq
    cases hq
    exact sy_mk_fn _ ha hc'

theorem sy_ja_gbc1 (h : Ja.generalizedBackwardComposition1 x y = .ok (some r)) : CatP Q F r.cat := by
  obtain ⟨σ, hu, ⟨_, rfl⟩ | ⟨_, c, hc, rfl⟩⟩ := C04.viaUnify_inv h
  · exact hx
  · refine sy_get2 (fun k b => sy_binding hx hy hu) ?_ hc
    intro a c' q ha hc' hq
    cases hq
    exact sy_mk_fn _ ha hc'

theorem sy_ja_gbc2 (h : Ja.generalizedBackwardComposition2 x y = .ok (some r)) : CatP Q F r.cat := by
  obtain ⟨σ, hu, ⟨_, rfl⟩ | ⟨_, c, hc, rfl⟩⟩ := C04.viaUnify_inv h
  · exact hx
  · refine sy_get3 (fun k b => sy_binding hx hy hu) ?_ hc
    intro a c' d q ha hc' hd hq
    exact sy_functorOf (sy_mk_fn _ ha hc') hd hq

theorem sy_ja_gbc3 (h : Ja.generalizedBackwardComposition3 x y = .ok (some r)) : CatP Q F r.cat := by
  obtain ⟨σ, hu, ⟨_, rfl⟩ | ⟨_, c, hc, rfl⟩⟩ := C04.viaUnify_inv h
  · exact hx
  · refine sy_get3 (fun k b => sy_binding hx hy hu) ?_ hc
    intro a c' d q ha hc' hd hq
    split at hq
    · cases hq
    · rename_i xl hxl
      split at hq
      · cases hq
      · rename_i inner hin
        split at hq
        · cases hq
        · rename_i e he
          exact sy_functorOf (sy_functorOf (sy_mk_fn _ ha hc') hd hin)
            (sy_binding hx hy hu he) hq

theorem sy_ja_gbc4 (h : Ja.generalizedBackwardComposition4 x y = .ok (some r)) : CatP Q F r.cat := by
  obtain ⟨σ, hu, ⟨_, rfl⟩ | ⟨_, c, hc, rfl⟩⟩ := C04.viaUnify_inv h
  · exact hx
  · refine sy_get3 (fun k b => sy_binding hx hy hu) ?_ hc
    intro a c' d q ha hc' hd hq
    split at hq
    · cases hq
    · rename_i xl hxl
      split at hq
      · cases hq
      · rename_i xll hxll
        split at hq
        · cases hq
        · rename_i i1 hi1
          split at hq
          · cases hq
          · rename_i e he
            split at hq
            · cases hq
            · rename_i i2 hi2
              split at hq
              · cases hq
              · rename_i f hf
                have w1 := sy_functorOf (sy_mk_fn _ ha hc') hd hi1
                have w2 := sy_functorOf w1 (sy_binding hx hy hu he) hi2
                exact sy_functorOf w2 (sy_binding hx hy hu hf) hq

theorem sy_ja_gfc1 (h : Ja.generalizedForwardComposition1 x y = .ok (some r)) : CatP Q F r.cat := by
  obtain ⟨σ, hu, ⟨_, rfl⟩ | ⟨_, c, hc, rfl⟩⟩ := C04.viaUnify_inv h
  · exact hy
  · refine sy_get2 (fun k b => sy_binding hx hy hu) ?_ hc
    intro a c' q ha hc' hq
    cases hq
    exact sy_mk_fn _ ha hc'

theorem sy_ja_gfc2 (h : Ja.generalizedForwardComposition2 x y = .ok (some r)) : CatP Q F r.cat := by
  obtain ⟨σ, hu, ⟨_, rfl⟩ | ⟨_, c, hc, rfl⟩⟩ := C04.viaUnify_inv h
  · exact hy
  · refine sy_get3 (fun k b => sy_binding hx hy hu) ?_ hc
    intro a c' d q ha hc' hd hq
    exact sy_functorOf (sy_mk_fn _ ha hc') hd hq

theorem sy_ja_gfc3 (h : Ja.generalizedForwardComposition3 x y = .ok (some r)) : CatP Q F r.cat := by
  obtain ⟨σ, hu, ⟨_, rfl⟩ | ⟨_, c, hc, rfl⟩⟩ := C04.viaUnify_inv h
  · exact hy
  · refine sy_get3 (fun k b => sy_binding hx hy hu) ?_ hc
    intro a c' d q ha hc' hd hq
    split at hq
    · cases hq
    · rename_i yl hyl
      split at hq
      · cases hq
      · rename_i inner hin
        split at hq
        · cases hq
        · rename_i e he
          exact sy_functorOf (sy_functorOf (sy_mk_fn _ ha hc') hd hin)
            (sy_binding hx hy hu he) hq

theorem sy_ja_conjoin (h : Ja.conjoin x y = .ok (some r)) : CatP Q F r.cat := by
  simp only [Ja.conjoin] at h
  split at h
  · simp only [Ja.mk] at h
    cases h
    exact hy
  · cases h

/-- every Japanese combinator stays inside the system -/
theorem sy_ja_comb {c : Ja.Comb} (hc : c ∈ Ja.combinators) (h : c x y = .ok (some r)) :
    CatP Q F r.cat := by
  simp only [Ja.combinators, List.mem_cons, List.not_mem_nil, or_false] at hc
  rcases hc with rfl | rfl | rfl | rfl | rfl | rfl | rfl | rfl | rfl | rfl | rfl
  · exact sy_ja_fa hx hy h
  · exact sy_ja_ba hx hy h
  · exact sy_ja_fc hx hy h
  · exact sy_ja_gbc1 hx hy h
  · exact sy_ja_gbc2 hx hy h
  · exact sy_ja_gbc3 hx hy h
  · exact sy_ja_gbc4 hx hy h
  · exact sy_ja_gfc1 hx hy h
  · exact sy_ja_gfc2 hx hy h
  · exact sy_ja_gfc3 hx hy h
  · exact sy_ja_conjoin hx hy h

end Ja
end Generic

/-! ### the two systems -/

theorem sy_un_none : IsUn (.un none) := ⟨none, rfl⟩

theorem sy_sNP_bwd : CatP (fun b => b ≠ []) IsUn (.fn En.sNP cBSlash En.sNP) := by
  refine ⟨⟨⟨?_, sy_un_none⟩, ⟨?_, sy_un_none⟩⟩, ⟨⟨?_, sy_un_none⟩, ⟨?_, sy_un_none⟩⟩⟩ <;> decide

theorem sy_sNP_fwd : CatP (fun b => b ≠ []) IsUn (.fn En.sNP cSlash En.sNP) := by
  refine ⟨⟨⟨?_, sy_un_none⟩, ⟨?_, sy_un_none⟩⟩, ⟨⟨?_, sy_un_none⟩, ⟨?_, sy_un_none⟩⟩⟩ <;> decide

theorem sy_en_applyBinary {seen : Option (List (Cat × Cat))} {x y : Cat} {rs : List RuleRes}
    (hx : InEn x) (hy : InEn y) (h : En.applyBinary seen x y = .ok rs) : ∀ r ∈ rs, InEn r.cat := by
  intro r hr
  obtain ⟨c, hc, hcr⟩ := C03.applyBinary_mem (C14.clear_nb_eq x) (C14.clear_nb_eq y) h hr
  rw [sy_inEn_iff] at hx hy ⊢
  exact sy_en_comb (sy_erase sy_un_none _ hx) (sy_erase sy_un_none _ hy) sy_sNP_bwd sy_sNP_fwd hc hcr

theorem sy_ja_applyBinary {seen : Option (List (Cat × Cat))} {x y : Cat} {rs : List RuleRes}
    (hx : InJa x) (hy : InJa y) (h : Ja.applyBinary seen x y = .ok rs) : ∀ r ∈ rs, InJa r.cat := by
  intro r hr
  obtain ⟨c, hc, hcr⟩ := C04.applyBinary_mem h hr
  rw [sy_inJa_iff] at hx hy ⊢
  exact sy_ja_comb hx hy hc hcr

/-! ### the shipped grammars and the category table -/

theorem sy_resultAtom {x : Cat} (h : AllTernary x) :
    ∃ b k1 v1 k2 v2 k3 v3, Ja.resultAtom x = .atom b (.tri k1 v1 k2 v2 k3 v3) := by
  induction x with
  | atom b f =>
    cases f with
    | un v => exact h.elim
    | tri k1 v1 k2 v2 k3 v3 => exact ⟨b, k1, v1, k2, v2, k3, v3, rfl⟩
  | fn l s r ihl _ =>
    simp only [Ja.resultAtom]
    exact ihl h.1

/-- inside one system no rule function raises -/
theorem sy_noRaise (en : Bool) (seen : Option (List (Cat × Cat))) (table : List (Cat × List Cat))
    {x y : Cat} (hx : InSys en x) (hy : InSys en y) : NoRaise en seen table x y := by
  cases en with
  | true =>
    simp only [InSys, if_true] at hx hy
    simp only [NoRaise, if_true]
    exact total_en seen x y hx.1 hy.1 hx.2 hy.2
  | false =>
    simp only [InSys, Bool.false_eq_true, if_false] at hx hy
    simp only [NoRaise, Bool.false_eq_true, if_false]
    refine ⟨total_ja seen x y hx hy, ?_⟩
    obtain ⟨b, k1, v1, k2, v2, k3, v3, hr⟩ := sy_resultAtom hx
    exact unary_total_ja table x b k1 v1 k2 v2 k3 v3 hr

/-- the binary rule function of the shipped grammar stays inside the system -/
theorem sy_shipped_bin (en : Bool) (seen : Option (List (Cat × Cat))) (table : List (Cat × List Cat))
    {x y : Cat} (hx : InSys en x) (hy : InSys en y) :
    ∀ r ∈ (OutputWF.shipped en seen table).bin x y, InSys en r.cat := by
  intro r hr
  cases en with
  | true =>
    simp only [InSys, if_true] at hx hy ⊢
    simp only [OutputWF.shipped, if_true, EndToEnd.enGrammar] at hr
    split at hr
    · rename_i rs h
      exact sy_en_applyBinary hx hy h r hr
    · cases hr
  | false =>
    simp only [InSys, Bool.false_eq_true, if_false] at hx hy ⊢
    simp only [OutputWF.shipped, Bool.false_eq_true, if_false, EndToEnd.jaGrammar] at hr
    split at hr
    · rename_i rs h
      exact sy_ja_applyBinary hx hy h r hr
    · cases hr

/-- the unary rule function of the shipped grammar returns targets of the table -/
theorem sy_shipped_un (en : Bool) (seen : Option (List (Cat × Cat))) (table : List (Cat × List Cat))
    (ht : TableIn (InSys en) table) (x : Cat) :
    ∀ r ∈ (OutputWF.shipped en seen table).un x, InSys en r.cat := by
  intro r hr
  cases en with
  | true =>
    simp only [OutputWF.shipped, if_true, EndToEnd.enGrammar] at hr
    obtain ⟨p, hp, hc⟩ := Closure.cl_en_applyUnary hr
    exact ht p hp _ hc
  | false =>
    simp only [OutputWF.shipped, Bool.false_eq_true, if_false, EndToEnd.jaGrammar] at hr
    split at hr
    · rename_i rs h
      obtain ⟨p, hp, hc⟩ := Closure.cl_ja_applyUnary h hr
      exact ht p hp _ hc
    · cases hr

theorem sy_addGet_mem {cats : List Cat} {c d : Cat} (h : d ∈ (addGet cats c).1) : d ∈ cats ∨ d = c := by
  unfold addGet at h
  split at h
  · exact Or.inl h
  · simp only [List.mem_append, List.mem_singleton] at h
    exact h

theorem sy_addAll_mem {P : Cat → Prop} (rs : List RuleRes) : ∀ (cats : List Cat),
    (∀ c ∈ cats, P c) → (∀ r ∈ rs, P r.cat) → ∀ c ∈ (addAll cats rs).1, P c := by
  induction rs with
  | nil => intro cats hc _ c h; exact hc c h
  | cons r rs ih =>
    intro cats hc hr c h
    rw [GlueRunProps.gr_addAll_cons] at h
    refine ih (addGet cats r.cat).1 ?_ (fun r' h' => hr r' (List.mem_cons_of_mem _ h')) c h
    intro d hd
    rcases sy_addGet_mem hd with hd | rfl
    · exact hc d hd
    · exact hr r (List.mem_cons_self ..)

theorem sy_addRoots_mem {P : Cat → Prop} (roots : List Cat) : ∀ (cats : List Cat),
    (∀ c ∈ cats, P c) → (∀ c ∈ roots, P c) → ∀ c ∈ (addRoots cats roots).1, P c := by
  induction roots with
  | nil => intro cats hc _ c h; exact hc c h
  | cons r rs ih =>
    intro cats hc hr c h
    have h' : c ∈ (addRoots (addGet cats r).1 rs).1 := h
    refine ih (addGet cats r).1 ?_ (fun r' h' => hr r' (List.mem_cons_of_mem _ h')) c h'
    intro d hd
    rcases sy_addGet_mem hd with hd | rfl
    · exact hc d hd
    · exact hr d (List.mem_cons_self ..)

/-- one callback keeps the table inside any set of categories closed under the rule functions -/
theorem sy_step {P : Cat → Prop} {G : CatGrammar}
    (hb : ∀ x y, P x → P y → ∀ r ∈ G.bin x y, P r.cat) (hu : ∀ x, P x → ∀ r ∈ G.un x, P r.cat)
    {st : GSt} (hst : ∀ c ∈ st.cats, P c) (call : Call) : ∀ c ∈ (step G st call).cats, P c := by
  cases call with
  | bin x y =>
    simp only [step, binCall]
    split
    · exact hst
    · split
      · rename_i cx cy hx hy
        exact sy_addAll_mem _ _ hst
          (hb cx cy (hst cx (List.mem_of_getElem? hx)) (hst cy (List.mem_of_getElem? hy)))
      · exact hst
  | un x =>
    simp only [step, unCall]
    split
    · exact hst
    · split
      · rename_i cx hx
        exact sy_addAll_mem _ _ hst (hu cx (hst cx (List.mem_of_getElem? hx)))
      · exact hst

theorem sy_foldl {P : Cat → Prop} {G : CatGrammar}
    (hb : ∀ x y, P x → P y → ∀ r ∈ G.bin x y, P r.cat) (hu : ∀ x, P x → ∀ r ∈ G.un x, P r.cat)
    (calls : List Call) : ∀ (st : GSt), (∀ c ∈ st.cats, P c) →
    ∀ c ∈ (calls.foldl (step G) st).cats, P c := by
  induction calls with
  | nil => intro st h; exact h
  | cons call calls ih =>
    intro st h
    exact ih _ (sy_step hb hu h call)

theorem sy_history (en : Bool) (seen : Option (List (Cat × Cat))) (table : List (Cat × List Cat))
    (gst : GSt) (calls : List Call) (ht : TableIn (InSys en) table) (hg : ∀ c ∈ gst.cats, InSys en c) :
    ∀ c ∈ (calls.foldl (step (OutputWF.shipped en seen table)) gst).cats, InSys en c :=
  sy_foldl (fun _ _ hx hy => sy_shipped_bin en seen table hx hy)
    (fun x _ => sy_shipped_un en seen table ht x) calls gst hg

theorem sy_lazy (pick : Search.Pick) (en : Bool) (seen : Option (List (Cat × Cat)))
    (table : List (Cat × List Cat)) (gst : GSt) (s : Search.Sent) (cfg : Search.Cfg)
    (ht : TableIn (InSys en) table) (hg : ∀ c ∈ gst.cats, InSys en c) :
    ∀ c ∈ (Lazy.runLWith pick (OutputWF.shipped en seen table) gst s cfg).2.cats, InSys en c := by
  obtain ⟨calls, hc⟩ := LazyProps.lazy_reachable pick (OutputWF.shipped en seen table) gst s cfg
  rw [hc]
  exact sy_history en seen table gst calls ht hg

end Depccg.SystemProps
