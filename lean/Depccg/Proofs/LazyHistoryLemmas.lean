/-
  Lemmas for `LazyHistoryIndependentStatement` / `BatchEqMapSoloStatement`: two lazy runs of one
  sentence from two table / cache states that satisfy the glue invariant and extend a common
  prefix (the caller's categories + roots) proceed in lock step; their search states differ by an
  injective renumbering `σ` of the category ids (read off the two FINAL tables), and the trees
  decoded from the results are equal.
-/
import Depccg.Props.LazyDefs
import Depccg.Proofs.C11Lemmas

namespace Depccg.LazyProps
open Depccg Search SearchProps GlueTree GlueRun Lazy GlueRunProps
open Depccg.C11 (renameItem renameDeriv renameRule renameSt renamePick)

/-! ### lists -/

theorem lh_getElem?_lt {α : Type} {l : List α} {i : Nat} {c : α} (h : l[i]? = some c) :
    i < l.length := by
  apply Nat.lt_of_not_le
  intro hle
  rw [List.getElem?_eq_none hle] at h
  cases h

theorem lh_nodup_inj {l : List Cat} (hnd : l.Nodup) {i j : Nat} {c : Cat}
    (hi : l[i]? = some c) (hj : l[j]? = some c) : i = j := by
  have hil := lh_getElem?_lt hi
  have hjl := lh_getElem?_lt hj
  rw [List.getElem?_eq_getElem hil] at hi
  rw [List.getElem?_eq_getElem hjl] at hj
  have e1 := hnd.idxOf_getElem i hil
  have e2 := hnd.idxOf_getElem j hjl
  injection hi with hi
  injection hj with hj
  rw [hi] at e1
  rw [hj] at e2
  exact e1.symm.trans e2

theorem lh_get_idxOf {l : List Cat} {c : Cat} (h : c ∈ l) : l[l.idxOf c]? = some c := by
  have hlt : l.idxOf c < l.length := List.idxOf_lt_length_iff.mpr h
  rw [List.getElem?_eq_getElem hlt]
  exact congrArg some (List.getElem_idxOf hlt)

/-! ### the renumbering read off two tables -/

/-- an id of table `FA` whose category also occurs in `FB` goes to that category's id in `FB`;
    every other id goes beyond `FB` -/
def lhSig (FA FB : List Cat) (i : Nat) : Nat :=
  match FA[i]? with
  | some c => if c ∈ FB then FB.idxOf c else FB.length + i
  | none => FB.length + i

/-- what the simulation needs of a renumbering -/
structure LhGood (σ : Nat → Nat) (FA FB : List Cat) : Prop where
  inj : ∀ a b, σ a = σ b → a = b
  agree : ∀ i c, FA[i]? = some c → c ∈ FB → FB[σ i]? = some c

theorem lh_sig_cases (FA FB : List Cat) (i : Nat) :
    (∃ c, FA[i]? = some c ∧ c ∈ FB ∧ lhSig FA FB i = FB.idxOf c) ∨
    (lhSig FA FB i = FB.length + i) := by
  unfold lhSig
  cases h : FA[i]? with
  | none => exact Or.inr rfl
  | some c =>
    by_cases hc : c ∈ FB
    · exact Or.inl ⟨c, rfl, hc, by simp only [if_pos hc]⟩
    · exact Or.inr (by simp only [if_neg hc])

theorem lh_sig_good (FA FB : List Cat) (hA : FA.Nodup) : LhGood (lhSig FA FB) FA FB := by
  constructor
  · intro a b hab
    rcases lh_sig_cases FA FB a with ⟨c, hc, hm, e⟩ | e
    · rcases lh_sig_cases FA FB b with ⟨c', hc', hm', e'⟩ | e'
      · rw [e, e'] at hab
        have h1 := lh_get_idxOf hm
        have h2 := lh_get_idxOf hm'
        rw [hab] at h1
        rw [h1] at h2
        injection h2 with h2
        subst h2
        exact lh_nodup_inj hA hc hc'
      · rw [e, e'] at hab
        have := List.idxOf_lt_length_iff.mpr hm
        omega
    · rcases lh_sig_cases FA FB b with ⟨c', hc', hm', e'⟩ | e'
      · rw [e, e'] at hab
        have := List.idxOf_lt_length_iff.mpr hm'
        omega
      · rw [e, e'] at hab
        omega
  · intro i c hi hm
    rcases lh_sig_cases FA FB i with ⟨c', hc', _, e⟩ | e
    · rw [hi] at hc'
      injection hc' with hc'
      subst hc'
      rw [e]
      exact lh_get_idxOf hm
    · exfalso
      unfold lhSig at e
      rw [hi] at e
      simp only [if_pos hm] at e
      have := List.idxOf_lt_length_iff.mpr hm
      omega

/-- a good renumbering fixes the ids of a common prefix -/
theorem lh_good_fix {σ : Nat → Nat} {FA FB P : List Cat} (h : LhGood σ FA FB) (hB : FB.Nodup)
    (hPA : P <+: FA) (hPB : P <+: FB) {i : Nat} (hi : i < P.length) : σ i = i := by
  have hp : P[i]? = some P[i] := List.getElem?_eq_getElem hi
  have h1 := gr_prefix_get hPA hp
  have h2 := gr_prefix_get hPB hp
  have h3 := h.agree i _ h1 (List.mem_of_getElem? h2)
  exact lh_nodup_inj hB h3 h2

/-! ### growth of table and cache -/

/-- the table grew by a suffix, stored rows are still there -/
structure LhExt (g g' : GSt) : Prop where
  cats : g.cats <+: g'.cats
  bin : ∀ x y row, binRow g x y = some row → binRow g' x y = some row
  un : ∀ x row, unRow g x = some row → unRow g' x = some row

theorem lh_ext_refl (g : GSt) : LhExt g g :=
  ⟨List.prefix_refl _, fun _ _ _ h => h, fun _ _ h => h⟩

theorem lh_ext_trans {a b c : GSt} (h1 : LhExt a b) (h2 : LhExt b c) : LhExt a c :=
  ⟨List.IsPrefix.trans h1.cats h2.cats, fun x y row h => h2.bin x y row (h1.bin x y row h),
    fun x row h => h2.un x row (h1.un x row h)⟩

theorem lh_unCall_ext (G : GlueRun.CatGrammar) (g : GSt) (x : Nat) (h : Inv' G g) :
    Inv' G (unCall G g x) ∧ LhExt g (unCall G g x) := by
  obtain ⟨h1, h2, h3, h4⟩ := step_inv_partial G g (.un x) h
  exact ⟨h1, ⟨h2, h3, h4⟩⟩

theorem lh_binCall_ext (G : GlueRun.CatGrammar) (g : GSt) (x y : Nat) (h : Inv' G g) :
    Inv' G (binCall G g x y) ∧ LhExt g (binCall G g x y) := by
  obtain ⟨h1, h2, h3, h4⟩ := step_inv_partial G g (.bin x y) h
  exact ⟨h1, ⟨h2, h3, h4⟩⟩

/-! ### corresponding ids, derivations, items -/

/-- id `i` of run A and id `σ i` of run B name the same category -/
def LhCorr (σ : Nat → Nat) (gA gB : GSt) (i : Nat) : Prop :=
  ∃ c, gA.cats[i]? = some c ∧ gB.cats[σ i]? = some c

/-- every id of the derivation corresponds, and every node was read off a stored row whose entry
    carries the same labels in both caches -/
def LhDerivSim (σ : Nat → Nat) (gA gB : GSt) : Deriv → Prop
  | .leaf _ c => LhCorr σ gA gB c
  | .un c rid d => LhDerivSim σ gA gB d ∧ LhCorr σ gA gB c ∧
      ∃ rA rB eA eB, unRow gA (dcatId d) = some rA ∧ unRow gB (σ (dcatId d)) = some rB ∧
        rA[rid]? = some eA ∧ rB[rid]? = some eB ∧
        eB.opString = eA.opString ∧ eB.opSymbol = eA.opSymbol
  | .bin c rid _ l r => LhDerivSim σ gA gB l ∧ LhDerivSim σ gA gB r ∧ LhCorr σ gA gB c ∧
      ∃ rA rB eA eB, binRow gA (dcatId l) (dcatId r) = some rA ∧
        binRow gB (σ (dcatId l)) (σ (dcatId r)) = some rB ∧
        rA[rid]? = some eA ∧ rB[rid]? = some eB ∧
        eB.opString = eA.opString ∧ eB.opSymbol = eA.opSymbol ∧ eB.headLeft = eA.headLeft

def LhItemSim (σ : Nat → Nat) (gA gB : GSt) (it : Item) : Prop :=
  dcatId it.d = it.cat ∧ LhDerivSim σ gA gB it.d

theorem lh_corr_mono {σ : Nat → Nat} {gA gB gA' gB' : GSt} (hA : LhExt gA gA') (hB : LhExt gB gB')
    {i : Nat} (h : LhCorr σ gA gB i) : LhCorr σ gA' gB' i := by
  obtain ⟨c, h1, h2⟩ := h
  exact ⟨c, gr_prefix_get hA.cats h1, gr_prefix_get hB.cats h2⟩

theorem lh_derivSim_mono {σ : Nat → Nat} {gA gB gA' gB' : GSt} (hA : LhExt gA gA') (hB : LhExt gB gB')
    (d : Deriv) (h : LhDerivSim σ gA gB d) : LhDerivSim σ gA' gB' d := by
  induction d with
  | leaf t c => exact lh_corr_mono hA hB h
  | un c rid d ih =>
    obtain ⟨h1, h2, rA, rB, eA, eB, h3, h4, h5⟩ := h
    exact ⟨ih h1, lh_corr_mono hA hB h2, rA, rB, eA, eB, hA.un _ _ h3, hB.un _ _ h4, h5⟩
  | bin c rid hl l r ihl ihr =>
    obtain ⟨h1, h1', h2, rA, rB, eA, eB, h3, h4, h5⟩ := h
    exact ⟨ihl h1, ihr h1', lh_corr_mono hA hB h2, rA, rB, eA, eB, hA.bin _ _ _ h3,
      hB.bin _ _ _ h4, h5⟩

theorem lh_itemSim_mono {σ : Nat → Nat} {gA gB gA' gB' : GSt} (hA : LhExt gA gA') (hB : LhExt gB gB')
    {it : Item} (h : LhItemSim σ gA gB it) : LhItemSim σ gA' gB' it :=
  ⟨h.1, lh_derivSim_mono hA hB _ h.2⟩

theorem lh_dcatId_rename (σ : Nat → Nat) (d : Deriv) : dcatId (renameDeriv σ d) = σ (dcatId d) := by
  cases d <;> rfl

theorem lh_derivSim_corr {σ : Nat → Nat} {gA gB : GSt} {d : Deriv} (h : LhDerivSim σ gA gB d) :
    LhCorr σ gA gB (dcatId d) := by
  cases d with
  | leaf t c => exact h
  | un c rid d => exact h.2.1
  | bin c rid hl l r => exact h.2.2.1

theorem lh_itemSim_corr {σ : Nat → Nat} {gA gB : GSt} {it : Item} (h : LhItemSim σ gA gB it) :
    LhCorr σ gA gB it.cat := by
  have := lh_derivSim_corr h.2
  rw [h.1] at this
  exact this

/-- the two caches decode corresponding derivations to the same tree -/
theorem lh_retrieve_sim {σ : Nat → Nat} {gA gB : GSt} (tokens : List Token) (d : Deriv)
    (h : LhDerivSim σ gA gB d) :
    retrieve (tablesOf gB) tokens (renameDeriv σ d) = retrieve (tablesOf gA) tokens d := by
  induction d with
  | leaf t c =>
    obtain ⟨cat, h1, h2⟩ := h
    simp only [renameDeriv, retrieve, tablesOf, h1, h2]
  | un c rid d ih =>
    obtain ⟨hd, ⟨cat, h1, h2⟩, rA, rB, eA, eB, h3, h4, h5, h6, h7, h8⟩ := h
    simp only [renameDeriv, retrieve, ih hd, lh_dcatId_rename]
    cases retrieve (tablesOf gA) tokens d with
    | error e => rfl
    | ok child =>
      simp only [tablesOf, h1, h2, h3, h4, Option.getD_some, h5, h6, h7, h8]
  | bin c rid hl l r ihl ihr =>
    obtain ⟨hl', hr', ⟨cat, h1, h2⟩, rA, rB, eA, eB, h3, h4, h5, h6, h7, h8, h9⟩ := h
    simp only [renameDeriv, retrieve, ihl hl', ihr hr', lh_dcatId_rename]
    cases retrieve (tablesOf gA) tokens l with
    | error e => rfl
    | ok tl =>
      cases retrieve (tablesOf gA) tokens r with
      | error e => rfl
      | ok tr =>
        simp only [tablesOf, h1, h2, h3, h4, Option.getD_some, h5, h6, h7, h8, h9]

/-! ### a stored row is the result list -/

/-- `row` is the result list `rs` under the ids of the table `cats` (`hl`: head flags too) -/
def LhRowSpec (cats : List Cat) (rs : List RuleRes) (row : List CacheEntry) (hl : Bool) : Prop :=
  row.length = rs.length ∧
  ∀ (rid : Nat) (r : RuleRes), rs[rid]? = some r →
    ∃ e : CacheEntry, row[rid]? = some e ∧ cats[e.catId]? = some r.cat ∧
      e.opString = r.opString ∧ e.opSymbol = r.opSymbol ∧ (hl = true → e.headLeft = r.headLeft)

theorem lh_binRow_after (G : GlueRun.CatGrammar) (g : GSt) (x y : Nat) (cx cy : Cat)
    (h : Inv' G g) (hx : g.cats[x]? = some cx) (hy : g.cats[y]? = some cy) :
    ∃ row, binRow (binCall G g x y) x y = some row ∧
      LhRowSpec (binCall G g x y).cats (G.bin cx cy) row true := by
  obtain ⟨row, h1, h2, h3⟩ := row_is_result_list_partial G g x y cx cy h hx hy
  refine ⟨row, h1, h2, ?_⟩
  intro rid r hr
  obtain ⟨e, e1, e2, e3, e4, e5⟩ := h3 rid r hr
  exact ⟨e, e1, e2, e4, e5, fun _ => e3⟩

theorem lh_unRow_after (G : GlueRun.CatGrammar) (g : GSt) (x : Nat) (cx : Cat)
    (h : Inv' G g) (hx : g.cats[x]? = some cx) :
    ∃ row, unRow (unCall G g x) x = some row ∧
      LhRowSpec (unCall G g x).cats (G.un cx) row false := by
  cases hrow : unRow g x with
  | none =>
    rw [gr_unCall_fresh G g x cx hrow hx]
    refine ⟨(addAll g.cats (G.un cx)).2, ?_, gr_addAll_length _ _, ?_⟩
    · rw [gr_unRow_cons, if_pos rfl]
    · intro rid r hr
      obtain ⟨e, e1, e2, _, e4, e5⟩ := gr_addAll_entries _ g.cats rid r hr
      exact ⟨e, e1, e2, e4, e5, fun h => by cases h⟩
  | some row =>
    rw [gr_unCall_some G g x row hrow]
    obtain ⟨⟨_, ⟨_, hru⟩, _⟩, _, hcu⟩ := h
    obtain ⟨cx', hx2, hl⟩ := hcu x row hrow
    rw [hx] at hx2; cases hx2
    refine ⟨row, hrow, hl, ?_⟩
    intro rid r hr
    have hlt : rid < row.length := by
      rw [hl]
      exact lh_getElem?_lt hr
    have he : ((tablesOf g).un x)[rid]? = some row[rid] := by
      simp only [tablesOf, hrow, Option.getD_some]
      exact List.getElem?_eq_getElem hlt
    obtain ⟨r', h1, h2, h3, h4⟩ := hru x cx hx rid row[rid] he
    have h1' : (G.un cx)[rid]? = some r' := h1
    rw [hr] at h1'
    cases h1'
    exact ⟨row[rid], List.getElem?_eq_getElem hlt, h2, h3, h4, fun h => by cases h⟩

/-- two rows for the same result list, under two tables: entry by entry the ids correspond -/
def LhRowSim (σ : Nat → Nat) (cA cB : List Cat) (rA rB : List CacheEntry) (hl : Bool) : Prop :=
  rA.length = rB.length ∧
  ∀ (rid : Nat) (eA : CacheEntry), rA[rid]? = some eA →
    ∃ eB : CacheEntry, rB[rid]? = some eB ∧ eB.catId = σ eA.catId ∧
      eB.opString = eA.opString ∧ eB.opSymbol = eA.opSymbol ∧
      (hl = true → eB.headLeft = eA.headLeft) ∧
      ∃ c, cA[eA.catId]? = some c ∧ cB[σ eA.catId]? = some c

theorem lh_rowSpec_sim {σ : Nat → Nat} {FA FB cA cB : List Cat} (hσ : LhGood σ FA FB)
    (hnd : FB.Nodup) (hA : cA <+: FA) (hB : cB <+: FB) {rs : List RuleRes}
    {rA rB : List CacheEntry} {hl : Bool}
    (sA : LhRowSpec cA rs rA hl) (sB : LhRowSpec cB rs rB hl) : LhRowSim σ cA cB rA rB hl := by
  refine ⟨sA.1.trans sB.1.symm, ?_⟩
  intro rid eA heA
  have hlt : rid < rs.length := by
    rw [← sA.1]
    exact lh_getElem?_lt heA
  have hr : rs[rid]? = some rs[rid] := List.getElem?_eq_getElem hlt
  obtain ⟨eA', a1, a2, a3, a4, a5⟩ := sA.2 rid _ hr
  rw [heA] at a1
  cases a1
  obtain ⟨eB, b1, b2, b3, b4, b5⟩ := sB.2 rid _ hr
  have fA := gr_prefix_get hA a2
  have fB := gr_prefix_get hB b2
  have fB' := hσ.agree _ _ fA (List.mem_of_getElem? fB)
  have e : σ eA.catId = eB.catId := lh_nodup_inj hnd fB' fB
  refine ⟨eB, b1, e.symm, b3.trans a3.symm, b4.trans a4.symm, ?_, rs[rid].cat, a2, ?_⟩
  · intro h
    exact (b5 h).trans (a5 h).symm
  · rw [e]
    exact b2

theorem lh_rowSim_map {σ : Nat → Nat} {cA cB : List Cat} {rA rB : List CacheEntry} {hl : Bool}
    {β : Type} (f : CacheEntry → β) (k : β → β) (h : LhRowSim σ cA cB rA rB hl)
    (hk : ∀ eA eB : CacheEntry, eB.catId = σ eA.catId → (hl = true → eB.headLeft = eA.headLeft) →
      f eB = k (f eA)) :
    rB.map f = (rA.map f).map k := by
  apply List.ext_getElem?
  intro i
  simp only [List.getElem?_map]
  cases hA : rA[i]? with
  | none =>
    have : rB[i]? = none := by
      rw [List.getElem?_eq_none_iff] at hA ⊢
      rw [← h.1]
      exact hA
    rw [this]
    rfl
  | some eA =>
    obtain ⟨eB, b1, b2, _, _, b5, _⟩ := h.2 i eA hA
    rw [b1]
    simp only [Option.map_some, hk eA eB b2 b5]

/-! ### the related table / cache states -/

structure LhGSim (G : GlueRun.CatGrammar) (FA FB : List Cat) (gA gB : GSt) : Prop where
  invA : Inv' G gA
  invB : Inv' G gB
  preA : gA.cats <+: FA
  preB : gB.cats <+: FB

theorem lh_view_un (g : GSt) (x : Nat) :
    (view g).un x = ((unRow g x).getD []).map (·.catId) := rfl

theorem lh_view_bin (g : GSt) (x y : Nat) :
    (view g).bin x y = ((binRow g x y).getD []).map fun e => ⟨e.catId, e.headLeft⟩ := rfl

/-! ### the unary request -/

theorem lh_unary_sim {σ : Nat → Nat} {FA FB : List Cat} (hσ : LhGood σ FA FB) (hnd : FB.Nodup)
    {G : GlueRun.CatGrammar} {gA gB : GSt} (cfg : Cfg) (it : Item)
    (h : LhGSim G FA FB gA gB) (hit : LhItemSim σ gA gB it)
    (hA : (unCall G gA it.cat).cats <+: FA) (hB : (unCall G gB (σ it.cat)).cats <+: FB) :
    unaryItems (view (unCall G gB (σ it.cat))) cfg (renameItem σ it)
      = (unaryItems (view (unCall G gA it.cat)) cfg it).map (renameItem σ) ∧
    LhGSim G FA FB (unCall G gA it.cat) (unCall G gB (σ it.cat)) ∧
    ∀ n ∈ unaryItems (view (unCall G gA it.cat)) cfg it,
      LhItemSim σ (unCall G gA it.cat) (unCall G gB (σ it.cat)) n := by
  obtain ⟨cx, hx, hx'⟩ := lh_itemSim_corr hit
  obtain ⟨iA, xA⟩ := lh_unCall_ext G gA it.cat h.invA
  obtain ⟨iB, xB⟩ := lh_unCall_ext G gB (σ it.cat) h.invB
  obtain ⟨rA, hrA, sA⟩ := lh_unRow_after G gA it.cat cx h.invA hx
  obtain ⟨rB, hrB, sB⟩ := lh_unRow_after G gB (σ it.cat) cx h.invB hx'
  have rs := lh_rowSpec_sim hσ hnd hA hB sA sB
  have hun : (view (unCall G gB (σ it.cat))).un (σ it.cat)
      = ((view (unCall G gA it.cat)).un it.cat).map σ := by
    rw [lh_view_un, lh_view_un, hrA, hrB]
    exact lh_rowSim_map (·.catId) σ rs (fun _ _ h _ => h)
  refine ⟨?_, ⟨iA, iB, hA, hB⟩, ?_⟩
  · unfold unaryItems
    rw [C11.renameItem_cat, hun, C11.zipIdx_map', List.map_map, List.map_map]
    rfl
  · intro n hn
    unfold unaryItems at hn
    rw [List.mem_map] at hn
    obtain ⟨⟨c, rid⟩, hm, rfl⟩ := hn
    rw [List.mem_zipIdx_iff_getElem?, lh_view_un, hrA] at hm
    simp only [Option.getD_some, List.getElem?_map, Option.map_eq_some_iff] at hm
    obtain ⟨eA, heA, rfl⟩ := hm
    obtain ⟨eB, b1, b2, b3, b4, _, c', b6, b7⟩ := rs.2 rid eA heA
    refine ⟨rfl, lh_derivSim_mono xA xB _ hit.2, ⟨c', b6, b7⟩, rA, rB, eA, eB, ?_, ?_, heA, b1,
      b3, b4⟩
    · rw [hit.1]; exact hrA
    · rw [hit.1]; exact hrB

/-! ### one binary request -/

theorem lh_binary_sim {σ : Nat → Nat} {FA FB : List Cat} (hσ : LhGood σ FA FB) (hnd : FB.Nodup)
    {G : GlueRun.CatGrammar} {gA gB : GSt} (s : Sent) (l r : Item)
    (h : LhGSim G FA FB gA gB) (hl : LhItemSim σ gA gB l) (hr : LhItemSim σ gA gB r)
    (hA : (binCall G gA l.cat r.cat).cats <+: FA)
    (hB : (binCall G gB (σ l.cat) (σ r.cat)).cats <+: FB) :
    binaryItems (view (binCall G gB (σ l.cat) (σ r.cat))) s (renameItem σ l) (renameItem σ r)
      = (binaryItems (view (binCall G gA l.cat r.cat)) s l r).map (renameItem σ) ∧
    LhGSim G FA FB (binCall G gA l.cat r.cat) (binCall G gB (σ l.cat) (σ r.cat)) ∧
    ∀ n ∈ binaryItems (view (binCall G gA l.cat r.cat)) s l r,
      LhItemSim σ (binCall G gA l.cat r.cat) (binCall G gB (σ l.cat) (σ r.cat)) n := by
  obtain ⟨cx, hx, hx'⟩ := lh_itemSim_corr hl
  obtain ⟨cy, hy, hy'⟩ := lh_itemSim_corr hr
  obtain ⟨iA, xA⟩ := lh_binCall_ext G gA l.cat r.cat h.invA
  obtain ⟨iB, xB⟩ := lh_binCall_ext G gB (σ l.cat) (σ r.cat) h.invB
  obtain ⟨rA, hrA, sA⟩ := lh_binRow_after G gA l.cat r.cat cx cy h.invA hx hy
  obtain ⟨rB, hrB, sB⟩ := lh_binRow_after G gB (σ l.cat) (σ r.cat) cx cy h.invB hx' hy'
  have rs := lh_rowSpec_sim hσ hnd hA hB sA sB
  have hbin : (view (binCall G gB (σ l.cat) (σ r.cat))).bin (σ l.cat) (σ r.cat)
      = ((view (binCall G gA l.cat r.cat)).bin l.cat r.cat).map (renameRule σ) := by
    rw [lh_view_bin, lh_view_bin, hrA, hrB]
    refine lh_rowSim_map (fun e => (⟨e.catId, e.headLeft⟩ : Rule)) (renameRule σ) rs ?_
    intro eA eB h1 h2
    simp only [renameRule, h1, h2 rfl]
  refine ⟨?_, ⟨iA, iB, hA, hB⟩, ?_⟩
  · unfold binaryItems
    rw [C11.renameItem_cat, C11.renameItem_cat, hbin, C11.zipIdx_map', List.map_map, List.map_map]
    apply List.map_congr_left
    intro p _
    simp only [Function.comp, renameItem, renameRule, renameDeriv]
    rfl
  · intro n hn
    unfold binaryItems at hn
    rw [List.mem_map] at hn
    obtain ⟨⟨rule, rid⟩, hm, rfl⟩ := hn
    rw [List.mem_zipIdx_iff_getElem?, lh_view_bin, hrA] at hm
    simp only [Option.getD_some, List.getElem?_map, Option.map_eq_some_iff] at hm
    obtain ⟨eA, heA, rfl⟩ := hm
    obtain ⟨eB, b1, b2, b3, b4, b5, c', b6, b7⟩ := rs.2 rid eA heA
    refine ⟨rfl, lh_derivSim_mono xA xB _ hl.2, lh_derivSim_mono xA xB _ hr.2, ⟨c', b6, b7⟩,
      rA, rB, eA, eB, ?_, ?_, heA, b1, b3, b4, b5 rfl⟩
    · rw [hl.1, hr.1]; exact hrA
    · rw [hl.1, hr.1]; exact hrB

/-! ### the loop over the neighbours -/

theorem lh_binL_cons_true (G : GlueRun.CatGrammar) (s : Sent) (it o : Item) (os : List Item)
    (g : GSt) :
    binL G s it true g (o :: os) =
      (binaryItems (view (binCall G g it.cat o.cat)) s it o
          ++ (binL G s it true (binCall G g it.cat o.cat) os).1,
        (binL G s it true (binCall G g it.cat o.cat) os).2) := rfl

theorem lh_binL_cons_false (G : GlueRun.CatGrammar) (s : Sent) (it o : Item) (os : List Item)
    (g : GSt) :
    binL G s it false g (o :: os) =
      (binaryItems (view (binCall G g o.cat it.cat)) s o it
          ++ (binL G s it false (binCall G g o.cat it.cat) os).1,
        (binL G s it false (binCall G g o.cat it.cat) os).2) := rfl

theorem lh_binL_ext (G : GlueRun.CatGrammar) (s : Sent) (it : Item) (left : Bool) :
    ∀ (os : List Item) (g : GSt), Inv' G g →
      Inv' G (binL G s it left g os).2 ∧ LhExt g (binL G s it left g os).2 := by
  intro os
  induction os with
  | nil => intro g h; exact ⟨h, lh_ext_refl g⟩
  | cons o os ih =>
    intro g h
    cases left with
    | true =>
      rw [lh_binL_cons_true]
      obtain ⟨h1, x1⟩ := lh_binCall_ext G g it.cat o.cat h
      obtain ⟨h2, x2⟩ := ih _ h1
      exact ⟨h2, lh_ext_trans x1 x2⟩
    | false =>
      rw [lh_binL_cons_false]
      obtain ⟨h1, x1⟩ := lh_binCall_ext G g o.cat it.cat h
      obtain ⟨h2, x2⟩ := ih _ h1
      exact ⟨h2, lh_ext_trans x1 x2⟩

theorem lh_binL_sim {σ : Nat → Nat} {FA FB : List Cat} (hσ : LhGood σ FA FB) (hnd : FB.Nodup)
    {G : GlueRun.CatGrammar} (s : Sent) (it : Item) (left : Bool) :
    ∀ (os : List Item) (gA gB : GSt), LhGSim G FA FB gA gB → LhItemSim σ gA gB it →
      (∀ o ∈ os, LhItemSim σ gA gB o) →
      (binL G s it left gA os).2.cats <+: FA →
      (binL G s (renameItem σ it) left gB (os.map (renameItem σ))).2.cats <+: FB →
      (binL G s (renameItem σ it) left gB (os.map (renameItem σ))).1
        = (binL G s it left gA os).1.map (renameItem σ) ∧
      LhGSim G FA FB (binL G s it left gA os).2
        (binL G s (renameItem σ it) left gB (os.map (renameItem σ))).2 ∧
      ∀ n ∈ (binL G s it left gA os).1,
        LhItemSim σ (binL G s it left gA os).2
          (binL G s (renameItem σ it) left gB (os.map (renameItem σ))).2 n := by
  intro os
  induction os with
  | nil =>
    intro gA gB h _ _ _ _
    exact ⟨rfl, h, fun n hn => by cases hn⟩
  | cons o os ih =>
    intro gA gB h hit hos hA hB
    have ho := hos o (List.mem_cons_self ..)
    cases left with
    | true =>
      rw [List.map_cons, lh_binL_cons_true] at hB ⊢
      rw [lh_binL_cons_true] at hA ⊢
      simp only [C11.renameItem_cat] at hB ⊢
      obtain ⟨iA1, xA1⟩ := lh_binCall_ext G gA it.cat o.cat h.invA
      obtain ⟨iB1, xB1⟩ := lh_binCall_ext G gB (σ it.cat) (σ o.cat) h.invB
      obtain ⟨_, xA2⟩ := lh_binL_ext G s it true os _ iA1
      obtain ⟨_, xB2⟩ := lh_binL_ext G s (renameItem σ it) true (os.map (renameItem σ)) _ iB1
      obtain ⟨e1, g1, n1⟩ := lh_binary_sim hσ hnd s it o h hit ho
        (List.IsPrefix.trans xA2.cats hA) (List.IsPrefix.trans xB2.cats hB)
      obtain ⟨e2, g2, n2⟩ := ih _ _ g1 (lh_itemSim_mono xA1 xB1 hit)
        (fun o' ho' => lh_itemSim_mono xA1 xB1 (hos o' (List.mem_cons_of_mem _ ho'))) hA hB
      refine ⟨?_, g2, ?_⟩
      · rw [e1, e2, List.map_append]
      · intro n hn
        rcases List.mem_append.1 hn with hn | hn
        · exact lh_itemSim_mono xA2 xB2 (n1 n hn)
        · exact n2 n hn
    | false =>
      rw [List.map_cons, lh_binL_cons_false] at hB ⊢
      rw [lh_binL_cons_false] at hA ⊢
      simp only [C11.renameItem_cat] at hB ⊢
      obtain ⟨iA1, xA1⟩ := lh_binCall_ext G gA o.cat it.cat h.invA
      obtain ⟨iB1, xB1⟩ := lh_binCall_ext G gB (σ o.cat) (σ it.cat) h.invB
      obtain ⟨_, xA2⟩ := lh_binL_ext G s it false os _ iA1
      obtain ⟨_, xB2⟩ := lh_binL_ext G s (renameItem σ it) false (os.map (renameItem σ)) _ iB1
      obtain ⟨e1, g1, n1⟩ := lh_binary_sim hσ hnd s o it h ho hit
        (List.IsPrefix.trans xA2.cats hA) (List.IsPrefix.trans xB2.cats hB)
      obtain ⟨e2, g2, n2⟩ := ih _ _ g1 (lh_itemSim_mono xA1 xB1 hit)
        (fun o' ho' => lh_itemSim_mono xA1 xB1 (hos o' (List.mem_cons_of_mem _ ho'))) hA hB
      refine ⟨?_, g2, ?_⟩
      · rw [e1, e2, List.map_append]
      · intro n hn
        rcases List.mem_append.1 hn with hn | hn
        · exact lh_itemSim_mono xA2 xB2 (n1 n hn)
        · exact n2 n hn

/-! ### `expandL` -/

/-- the unary part of `expandL` -/
def lhUPart (G : GlueRun.CatGrammar) (s : Sent) (cfg : Cfg) (it : Item) (g : GSt) : List Item × GSt :=
  if s.n = 1 ∨ it.len ≠ s.n then unaryL G cfg g it else ([], g)

def lhRPart (G : GlueRun.CatGrammar) (s : Sent) (cfg : Cfg) (chart : List Item) (it : Item) (g : GSt) :
    List Item × GSt :=
  binL G s it true (lhUPart G s cfg it g).2 (neighbours chart fun o => o.start == it.stop)

def lhLPart (G : GlueRun.CatGrammar) (s : Sent) (cfg : Cfg) (chart : List Item) (it : Item) (g : GSt) :
    List Item × GSt :=
  binL G s it false (lhRPart G s cfg chart it g).2 (neighbours chart fun o => o.stop == it.start)

theorem lh_expandL_eq (G : GlueRun.CatGrammar) (s : Sent) (cfg : Cfg) (chart : List Item)
    (it : Item) (g : GSt) :
    expandL G s cfg chart it g =
      ((if it.len = s.n ∧ s.roots.elem it.cat then [finItem s it] else [])
        ++ (lhUPart G s cfg it g).1 ++ (lhRPart G s cfg chart it g).1 ++ (lhLPart G s cfg chart it g).1,
       (lhLPart G s cfg chart it g).2) := rfl

theorem lh_uPart_ext (G : GlueRun.CatGrammar) (s : Sent) (cfg : Cfg) (it : Item) (g : GSt)
    (h : Inv' G g) : Inv' G (lhUPart G s cfg it g).2 ∧ LhExt g (lhUPart G s cfg it g).2 := by
  unfold lhUPart
  split
  · exact lh_unCall_ext G g it.cat h
  · exact ⟨h, lh_ext_refl g⟩

theorem lh_expandL_ext (G : GlueRun.CatGrammar) (s : Sent) (cfg : Cfg) (chart : List Item)
    (it : Item) (g : GSt) (h : Inv' G g) :
    Inv' G (expandL G s cfg chart it g).2 ∧ LhExt g (expandL G s cfg chart it g).2 := by
  rw [lh_expandL_eq]
  obtain ⟨h1, x1⟩ := lh_uPart_ext G s cfg it g h
  obtain ⟨h2, x2⟩ := lh_binL_ext G s it true (neighbours chart fun o => o.start == it.stop) _ h1
  obtain ⟨h3, x3⟩ := lh_binL_ext G s it false (neighbours chart fun o => o.stop == it.start) _ h2
  exact ⟨h3, lh_ext_trans x1 (lh_ext_trans x2 x3)⟩

theorem lh_uPart_sim {σ : Nat → Nat} {FA FB : List Cat} (hσ : LhGood σ FA FB) (hnd : FB.Nodup)
    {G : GlueRun.CatGrammar} {gA gB : GSt} (s : Sent) (cfg : Cfg) (it : Item)
    (h : LhGSim G FA FB gA gB) (hit : LhItemSim σ gA gB it)
    (hA : (lhUPart G s cfg it gA).2.cats <+: FA)
    (hB : (lhUPart G s cfg (renameItem σ it) gB).2.cats <+: FB) :
    (lhUPart G s cfg (renameItem σ it) gB).1 = (lhUPart G s cfg it gA).1.map (renameItem σ) ∧
    LhGSim G FA FB (lhUPart G s cfg it gA).2 (lhUPart G s cfg (renameItem σ it) gB).2 ∧
    ∀ n ∈ (lhUPart G s cfg it gA).1,
      LhItemSim σ (lhUPart G s cfg it gA).2 (lhUPart G s cfg (renameItem σ it) gB).2 n := by
  unfold lhUPart at hA hB ⊢
  rw [C11.renameItem_len] at hB ⊢
  by_cases hc : s.n = 1 ∨ it.len ≠ s.n
  · simp only [if_pos hc] at hA hB ⊢
    exact lh_unary_sim hσ hnd cfg it h hit hA hB
  · simp only [if_neg hc] at hA hB ⊢
    exact ⟨rfl, h, fun n hn => by cases hn⟩

theorem lh_expandL_sim {σ : Nat → Nat} {FA FB : List Cat} (hσ : LhGood σ FA FB) (hnd : FB.Nodup)
    {G : GlueRun.CatGrammar} {gA gB : GSt} (s : Sent)
    (hroots : ∀ c, s.roots.elem (σ c) = s.roots.elem c) (cfg : Cfg) (chart : List Item) (it : Item)
    (h : LhGSim G FA FB gA gB) (hit : LhItemSim σ gA gB it) (hch : ∀ o ∈ chart, LhItemSim σ gA gB o)
    (hA : (expandL G s cfg chart it gA).2.cats <+: FA)
    (hB : (expandL G s cfg (chart.map (renameItem σ)) (renameItem σ it) gB).2.cats <+: FB) :
    (expandL G s cfg (chart.map (renameItem σ)) (renameItem σ it) gB).1
      = (expandL G s cfg chart it gA).1.map (renameItem σ) ∧
    LhGSim G FA FB (expandL G s cfg chart it gA).2
      (expandL G s cfg (chart.map (renameItem σ)) (renameItem σ it) gB).2 ∧
    ∀ n ∈ (expandL G s cfg chart it gA).1,
      LhItemSim σ (expandL G s cfg chart it gA).2
        (expandL G s cfg (chart.map (renameItem σ)) (renameItem σ it) gB).2 n := by
  rw [lh_expandL_eq] at hA hB ⊢
  rw [lh_expandL_eq]
  have nR : neighbours (chart.map (renameItem σ)) (fun o => o.start == (renameItem σ it).stop)
      = (neighbours chart fun o => o.start == it.stop).map (renameItem σ) :=
    C11.c11_neighbours_map (renameItem σ) (fun _ => rfl) _ _ (fun _ => rfl) chart
  have nL : neighbours (chart.map (renameItem σ)) (fun o => o.stop == (renameItem σ it).start)
      = (neighbours chart fun o => o.stop == it.start).map (renameItem σ) :=
    C11.c11_neighbours_map (renameItem σ) (fun _ => rfl) _ _ (fun _ => rfl) chart
  simp only [lhLPart, lhRPart, nR, nL] at hA hB ⊢
  -- the states along the way
  obtain ⟨iA1, xA1⟩ := lh_uPart_ext G s cfg it gA h.invA
  obtain ⟨iB1, xB1⟩ := lh_uPart_ext G s cfg (renameItem σ it) gB h.invB
  obtain ⟨iA2, xA2⟩ := lh_binL_ext G s it true (neighbours chart fun o => o.start == it.stop) _ iA1
  obtain ⟨iB2, xB2⟩ := lh_binL_ext G s (renameItem σ it) true
    ((neighbours chart fun o => o.start == it.stop).map (renameItem σ)) _ iB1
  obtain ⟨_, xA3⟩ := lh_binL_ext G s it false (neighbours chart fun o => o.stop == it.start) _ iA2
  obtain ⟨_, xB3⟩ := lh_binL_ext G s (renameItem σ it) false
    ((neighbours chart fun o => o.stop == it.start).map (renameItem σ)) _ iB2
  have pA2 := List.IsPrefix.trans xA3.cats hA
  have pB2 := List.IsPrefix.trans xB3.cats hB
  have pA1 := List.IsPrefix.trans xA2.cats pA2
  have pB1 := List.IsPrefix.trans xB2.cats pB2
  obtain ⟨e1, g1, n1⟩ := lh_uPart_sim hσ hnd s cfg it h hit pA1 pB1
  have hit1 := lh_itemSim_mono xA1 xB1 hit
  obtain ⟨e2, g2, n2⟩ := lh_binL_sim hσ hnd s it true _ _ _ g1 hit1
    (fun o ho => lh_itemSim_mono xA1 xB1 (hch o (mem_neighbours.1 ho).1)) pA2 pB2
  have hit2 := lh_itemSim_mono xA2 xB2 hit1
  obtain ⟨e3, g3, n3⟩ := lh_binL_sim hσ hnd s it false _ _ _ g2 hit2
    (fun o ho => lh_itemSim_mono (lh_ext_trans xA1 xA2) (lh_ext_trans xB1 xB2)
      (hch o (mem_neighbours.1 ho).1)) hA hB
  refine ⟨?_, g3, ?_⟩
  · rw [e1, e2, e3, C11.renameItem_len, C11.renameItem_cat, hroots,
      C11.finItem_rename (s := s) (s' := s) rfl]
    simp only [List.map_append]
    split <;> rfl
  · intro n hn
    simp only [List.mem_append] at hn
    rcases hn with ((hn | hn) | hn) | hn
    · have e : n = finItem s it := by
        split at hn
        · exact List.mem_singleton.1 hn
        · cases hn
      subst e
      exact lh_itemSim_mono (lh_ext_trans xA1 (lh_ext_trans xA2 xA3))
        (lh_ext_trans xB1 (lh_ext_trans xB2 xB3)) hit
    · exact lh_itemSim_mono (lh_ext_trans xA2 xA3) (lh_ext_trans xB2 xB3) (n1 n hn)
    · exact lh_itemSim_mono xA3 xB3 (n2 n hn)
    · exact n3 n hn

/-! ### one step, the loop -/

def lhPopSt (st : St) (it : Item) (rest : List Item) : St :=
  { st with agenda := rest, popped := it :: st.popped, steps := st.steps + 1,
            tie := st.tie || rest.any fun o => o.prio == it.prio }

def lhAfterPop (pick : Pick) (G : GlueRun.CatGrammar) (s : Sent) (cfg : Cfg) (ls : LSt) (it : Item)
    (rest : List Item) : LSt :=
  if it.fin then
    if cfg.nbest ≤ 1 ∧ inGoal ls.st.goal it then { st := lhPopSt ls.st it rest, gst := ls.gst }
    else { st := { lhPopSt ls.st it rest with goal := it :: ls.st.goal }, gst := ls.gst }
  else if cfg.nbest ≤ 1 ∧ inChart ls.st.chart it then { st := lhPopSt ls.st it rest, gst := ls.gst }
  else
    { st := { lhPopSt ls.st it rest with
                chart := it :: ls.st.chart,
                agenda := pick.push (expandL G s cfg ls.st.chart it ls.gst).1 rest },
      gst := (expandL G s cfg ls.st.chart it ls.gst).2 }

theorem lh_stepL_eq (pick : Pick) (G : GlueRun.CatGrammar) (s : Sent) (cfg : Cfg) (ls : LSt) :
    stepL pick G s cfg ls =
      if cfg.nbest ≤ ls.st.goal.length then none else
      match pick.pop ls.st.agenda with
      | none => none
      | some (it, rest) => some (lhAfterPop pick G s cfg ls it rest) := by
  unfold stepL
  by_cases h : cfg.nbest ≤ ls.st.goal.length
  · simp only [if_pos h]
  · simp only [if_neg h]
    cases pick.pop ls.st.agenda with
    | none => rfl
    | some p =>
      obtain ⟨it, rest⟩ := p
      simp only [lhAfterPop, lhPopSt]
      by_cases hf : it.fin = true
      · simp only [if_pos hf]
        by_cases hc : cfg.nbest ≤ 1 ∧ inGoal ls.st.goal it = true
        · simp only [if_pos hc]
        · simp only [if_neg hc]
      · simp only [if_neg hf]
        by_cases hc : cfg.nbest ≤ 1 ∧ inChart ls.st.chart it = true
        · simp only [if_pos hc]
        · simp only [if_neg hc]

structure LhLSim (G : GlueRun.CatGrammar) (σ : Nat → Nat) (FA FB : List Cat) (lsA lsB : LSt) : Prop where
  st : lsB.st = renameSt σ lsA.st
  g : LhGSim G FA FB lsA.gst lsB.gst
  ag : ∀ it ∈ lsA.st.agenda, LhItemSim σ lsA.gst lsB.gst it
  ch : ∀ it ∈ lsA.st.chart, LhItemSim σ lsA.gst lsB.gst it
  go : ∀ it ∈ lsA.st.goal, LhItemSim σ lsA.gst lsB.gst it

theorem lh_popSt_rename (σ : Nat → Nat) (st : St) (it : Item) (rest : List Item) :
    lhPopSt (renameSt σ st) (renameItem σ it) (rest.map (renameItem σ))
      = renameSt σ (lhPopSt st it rest) := by
  simp only [lhPopSt, renameSt, List.map_cons, C11.anyPrio_map]

theorem lh_afterPop_sim {σ : Nat → Nat} {FA FB : List Cat} (hσ : LhGood σ FA FB) (hnd : FB.Nodup)
    {G : GlueRun.CatGrammar} (s : Sent)
    (hroots : ∀ c, s.roots.elem (σ c) = s.roots.elem c) (cfg : Cfg) (lsA lsB : LSt)
    (it : Item) (rest : List Item) (h : LhLSim G σ FA FB lsA lsB)
    (hit : LhItemSim σ lsA.gst lsB.gst it) (hrest : ∀ o ∈ rest, o ∈ lsA.st.agenda)
    (hA : (lhAfterPop pickHeap G s cfg lsA it rest).gst.cats <+: FA)
    (hB : (lhAfterPop pickHeap G s cfg lsB (renameItem σ it) (rest.map (renameItem σ))).gst.cats <+: FB) :
    LhLSim G σ FA FB (lhAfterPop pickHeap G s cfg lsA it rest)
      (lhAfterPop pickHeap G s cfg lsB (renameItem σ it) (rest.map (renameItem σ))) := by
  obtain ⟨stA, gA⟩ := lsA
  obtain ⟨stB, gB⟩ := lsB
  obtain ⟨hst, hg, hag, hch, hgo⟩ := h
  simp only at hst hg hag hch hgo hrest hit
  subst hst
  have e1 : (renameSt σ stA).goal = stA.goal.map (renameItem σ) := rfl
  have e2 : (renameSt σ stA).chart = stA.chart.map (renameItem σ) := rfl
  unfold lhAfterPop at hA hB ⊢
  simp only [C11.renameItem_fin, e1, e2, C11.inGoal_map hσ.inj, C11.inChart_map hσ.inj,
    lh_popSt_rename] at hA hB ⊢
  by_cases hf : it.fin = true
  · simp only [if_pos hf] at hA hB ⊢
    by_cases hc : cfg.nbest ≤ 1 ∧ inGoal stA.goal it = true
    · simp only [if_pos hc] at hA hB ⊢
      exact ⟨rfl, hg, fun o ho => hag o (hrest o ho), hch, hgo⟩
    · simp only [if_neg hc] at hA hB ⊢
      refine ⟨rfl, hg, fun o ho => hag o (hrest o ho), hch, ?_⟩
      intro o ho
      rcases List.mem_cons.1 ho with rfl | ho
      · exact hit
      · exact hgo o ho
  · simp only [if_neg hf] at hA hB ⊢
    by_cases hc : cfg.nbest ≤ 1 ∧ inChart stA.chart it = true
    · simp only [if_pos hc] at hA hB ⊢
      exact ⟨rfl, hg, fun o ho => hag o (hrest o ho), hch, hgo⟩
    · simp only [if_neg hc] at hA hB ⊢
      obtain ⟨e, g', n'⟩ := lh_expandL_sim hσ hnd s hroots cfg stA.chart it hg hit hch hA hB
      obtain ⟨_, xA⟩ := lh_expandL_ext G s cfg stA.chart it gA hg.invA
      obtain ⟨_, xB⟩ := lh_expandL_ext G s cfg (stA.chart.map (renameItem σ)) (renameItem σ it) gB hg.invB
      refine ⟨?_, g', ?_, ?_, ?_⟩
      · simp only [e, C11.c11_pickHeap_push_map, renameSt, lhPopSt, List.map_cons]
      · intro o ho
        have := (pickHeap_ok.2.2 _ _).mem_iff.1 ho
        rcases List.mem_append.1 this with ho | ho
        · exact n' o ho
        · exact lh_itemSim_mono xA xB (hag o (hrest o ho))
      · intro o ho
        rcases List.mem_cons.1 ho with rfl | ho
        · exact lh_itemSim_mono xA xB hit
        · exact lh_itemSim_mono xA xB (hch o ho)
      · intro o ho
        exact lh_itemSim_mono xA xB (hgo o ho)

theorem lh_pop_mem {l rest : List Item} {it : Item} (h : pickHeap.pop l = some (it, rest)) :
    it ∈ l ∧ ∀ o ∈ rest, o ∈ l := by
  have hne : l ≠ [] := by
    intro e
    subst e
    rw [pickHeap_ok.1] at h
    cases h
  obtain ⟨it', rest', h1, h2, _⟩ := pickHeap_ok.2.1 l hne
  rw [h] at h1
  injection h1 with h1
  injection h1 with h1 h1'
  subst h1
  subst h1'
  exact ⟨h2.mem_iff.1 (List.mem_cons_self ..), fun o ho => h2.mem_iff.1 (List.mem_cons_of_mem _ ho)⟩

theorem lh_afterPop_ext (pick : Pick) (G : GlueRun.CatGrammar) (s : Sent) (cfg : Cfg) (ls : LSt)
    (it : Item) (rest : List Item) (h : Inv' G ls.gst) :
    Inv' G (lhAfterPop pick G s cfg ls it rest).gst ∧ LhExt ls.gst (lhAfterPop pick G s cfg ls it rest).gst := by
  unfold lhAfterPop
  split
  · split
    · exact ⟨h, lh_ext_refl _⟩
    · exact ⟨h, lh_ext_refl _⟩
  · split
    · exact ⟨h, lh_ext_refl _⟩
    · exact lh_expandL_ext G s cfg ls.st.chart it ls.gst h

theorem lh_stepL_ext (pick : Pick) (G : GlueRun.CatGrammar) (s : Sent) (cfg : Cfg) (ls ls' : LSt)
    (h : Inv' G ls.gst) (hs : stepL pick G s cfg ls = some ls') :
    Inv' G ls'.gst ∧ LhExt ls.gst ls'.gst := by
  rw [lh_stepL_eq] at hs
  split at hs
  · cases hs
  · split at hs
    · cases hs
    · injection hs with hs
      subst hs
      exact lh_afterPop_ext pick G s cfg ls _ _ h

theorem lh_loopL_ext (pick : Pick) (G : GlueRun.CatGrammar) (s : Sent) (cfg : Cfg) (fuel : Nat) :
    ∀ ls : LSt, Inv' G ls.gst →
      Inv' G (loopL pick G s cfg fuel ls).gst ∧ LhExt ls.gst (loopL pick G s cfg fuel ls).gst := by
  induction fuel with
  | zero => intro ls h; exact ⟨h, lh_ext_refl _⟩
  | succ fuel ih =>
    intro ls h
    simp only [loopL]
    cases hs : stepL pick G s cfg ls with
    | none => exact ⟨h, lh_ext_refl _⟩
    | some ls' =>
      obtain ⟨h1, x1⟩ := lh_stepL_ext pick G s cfg ls ls' h hs
      obtain ⟨h2, x2⟩ := ih ls' h1
      exact ⟨h2, lh_ext_trans x1 x2⟩

theorem lh_stepL_sim {σ : Nat → Nat} {FA FB : List Cat} (hσ : LhGood σ FA FB) (hnd : FB.Nodup)
    {G : GlueRun.CatGrammar} (s : Sent)
    (hroots : ∀ c, s.roots.elem (σ c) = s.roots.elem c) (cfg : Cfg) (lsA lsB : LSt)
    (h : LhLSim G σ FA FB lsA lsB)
    (hA : ∀ l, stepL pickHeap G s cfg lsA = some l → l.gst.cats <+: FA)
    (hB : ∀ l, stepL pickHeap G s cfg lsB = some l → l.gst.cats <+: FB) :
    (stepL pickHeap G s cfg lsA = none ∧ stepL pickHeap G s cfg lsB = none) ∨
    ∃ lA lB, stepL pickHeap G s cfg lsA = some lA ∧ stepL pickHeap G s cfg lsB = some lB ∧
      LhLSim G σ FA FB lA lB := by
  rw [lh_stepL_eq] at hA hB ⊢
  rw [lh_stepL_eq]
  have eg : lsB.st.goal.length = lsA.st.goal.length := by
    rw [h.st]; simp only [renameSt, List.length_map]
  have ea : lsB.st.agenda = lsA.st.agenda.map (renameItem σ) := by
    rw [h.st]; rfl
  rw [eg, ea, C11.c11_pickHeap_pop_map] at hB ⊢
  by_cases hn : cfg.nbest ≤ lsA.st.goal.length
  · simp only [if_pos hn]
    exact Or.inl ⟨trivial, trivial⟩
  · simp only [if_neg hn] at hA hB ⊢
    cases hp : pickHeap.pop lsA.st.agenda with
    | none => exact Or.inl ⟨rfl, rfl⟩
    | some p =>
      obtain ⟨it, rest⟩ := p
      rw [hp] at hA hB
      simp only [Option.map_some, renamePick] at hA hB ⊢
      obtain ⟨m1, m2⟩ := lh_pop_mem hp
      exact Or.inr ⟨_, _, rfl, rfl,
        lh_afterPop_sim hσ hnd s hroots cfg lsA lsB it rest h (h.ag it m1) m2 (hA _ rfl) (hB _ rfl)⟩

theorem lh_loopL_sim {σ : Nat → Nat} {FA FB : List Cat} (hσ : LhGood σ FA FB) (hnd : FB.Nodup)
    {G : GlueRun.CatGrammar} (s : Sent)
    (hroots : ∀ c, s.roots.elem (σ c) = s.roots.elem c) (cfg : Cfg) (fuel : Nat) :
    ∀ (lsA lsB : LSt), LhLSim G σ FA FB lsA lsB →
      (loopL pickHeap G s cfg fuel lsA).gst.cats <+: FA →
      (loopL pickHeap G s cfg fuel lsB).gst.cats <+: FB →
      LhLSim G σ FA FB (loopL pickHeap G s cfg fuel lsA) (loopL pickHeap G s cfg fuel lsB) := by
  induction fuel with
  | zero => intro lsA lsB h _ _; exact h
  | succ fuel ih =>
    intro lsA lsB h hA hB
    simp only [loopL] at hA hB ⊢
    have hA' : ∀ l, stepL pickHeap G s cfg lsA = some l → l.gst.cats <+: FA := by
      intro l hl
      rw [hl] at hA
      obtain ⟨i1, _⟩ := lh_stepL_ext pickHeap G s cfg lsA l h.g.invA hl
      exact List.IsPrefix.trans (lh_loopL_ext pickHeap G s cfg fuel l i1).2.cats hA
    have hB' : ∀ l, stepL pickHeap G s cfg lsB = some l → l.gst.cats <+: FB := by
      intro l hl
      rw [hl] at hB
      obtain ⟨i1, _⟩ := lh_stepL_ext pickHeap G s cfg lsB l h.g.invB hl
      exact List.IsPrefix.trans (lh_loopL_ext pickHeap G s cfg fuel l i1).2.cats hB
    rcases lh_stepL_sim hσ hnd s hroots cfg lsA lsB h hA' hB' with ⟨e1, e2⟩ | ⟨lA, lB, e1, e2, h'⟩
    · rw [e1, e2]
      exact h
    · rw [e1] at hA ⊢
      rw [e2] at hB ⊢
      exact ih lA lB h' hA hB
/-! ### a whole search -/

theorem lh_runLWith_eq (pick : Pick) (G : GlueRun.CatGrammar) (g : GSt) (s : Sent) (cfg : Cfg) :
    runLWith pick G g s cfg =
      ({ results := sortDesc (loopL pick G s cfg cfg.maxStep ⟨init pick s cfg, g⟩).st.goal,
         popped := (loopL pick G s cfg cfg.maxStep ⟨init pick s cfg, g⟩).st.popped.reverse,
         steps := (loopL pick G s cfg cfg.maxStep ⟨init pick s cfg, g⟩).st.steps,
         tie := (loopL pick G s cfg cfg.maxStep ⟨init pick s cfg, g⟩).st.tie },
       (loopL pick G s cfg cfg.maxStep ⟨init pick s cfg, g⟩).gst) := rfl

theorem lh_runLWith_ext (pick : Pick) (G : GlueRun.CatGrammar) (g : GSt) (s : Sent) (cfg : Cfg)
    (h : Inv' G g) : Inv' G (runLWith pick G g s cfg).2 ∧ LhExt g (runLWith pick G g s cfg).2 :=
  lh_loopL_ext pick G s cfg cfg.maxStep ⟨init pick s cfg, g⟩ h

/-- the grammar without rules (only its leaves matter for `init`) -/
def lhNoRules : Grammar := { bin := fun _ _ => [], un := fun _ => [] }

theorem lh_roots_fixed {σ : Nat → Nat} (hinj : ∀ a b, σ a = σ b → a = b) {n : Nat}
    (hfix : ∀ i, i < n → σ i = i) (roots : List Nat) (hroot : ∀ r ∈ roots, r < n) (c : Nat) :
    roots.elem (σ c) = roots.elem c := by
  have : σ c ∈ roots ↔ c ∈ roots := by
    constructor
    · intro h
      have e := hfix _ (hroot _ h)
      have e' := hinj _ _ e
      rw [e'] at h
      exact h
    · intro h
      rw [hfix _ (hroot _ h)]
      exact h
  simp only [List.elem_eq_mem, this]

/-- two lazy searches for one sentence, from two states that satisfy the glue invariant and share
    the prefix `P` holding the lexical and the root ids, run in lock step -/
theorem lh_run_sim (G : GlueRun.CatGrammar) (P : List Cat) (gA gB : GSt) (s : Sent) (cfg : Cfg)
    (iA : Inv' G gA) (iB : Inv' G gB) (pA : P <+: gA.cats) (pB : P <+: gB.cats)
    (hlex : ∀ row ∈ s.tags, row.length ≤ P.length) (hroot : ∀ r ∈ s.roots, r < P.length) :
    ∃ σ : Nat → Nat,
      (runLWith pickHeap G gB s cfg).1.results
        = (runLWith pickHeap G gA s cfg).1.results.map (renameItem σ) ∧
      (runLWith pickHeap G gB s cfg).1.popped
        = (runLWith pickHeap G gA s cfg).1.popped.map (renameItem σ) ∧
      (runLWith pickHeap G gB s cfg).1.steps = (runLWith pickHeap G gA s cfg).1.steps ∧
      (runLWith pickHeap G gB s cfg).1.tie = (runLWith pickHeap G gA s cfg).1.tie ∧
      ∀ r ∈ (runLWith pickHeap G gA s cfg).1.results,
        LhItemSim σ (runLWith pickHeap G gA s cfg).2 (runLWith pickHeap G gB s cfg).2 r := by
  rw [lh_runLWith_eq, lh_runLWith_eq]
  obtain ⟨iFA, xA⟩ := lh_loopL_ext pickHeap G s cfg cfg.maxStep ⟨init pickHeap s cfg, gA⟩ iA
  obtain ⟨iFB, xB⟩ := lh_loopL_ext pickHeap G s cfg cfg.maxStep ⟨init pickHeap s cfg, gB⟩ iB
  generalize hFA : (loopL pickHeap G s cfg cfg.maxStep ⟨init pickHeap s cfg, gA⟩) = lA at iFA xA ⊢
  generalize hFB : (loopL pickHeap G s cfg cfg.maxStep ⟨init pickHeap s cfg, gB⟩) = lB at iFB xB ⊢
  have hσ := lh_sig_good lA.gst.cats lB.gst.cats iFA.1.1
  have hnd : lB.gst.cats.Nodup := iFB.1.1
  refine ⟨lhSig lA.gst.cats lB.gst.cats, ?_⟩
  generalize lhSig lA.gst.cats lB.gst.cats = σ at hσ ⊢
  have hfix : ∀ i, i < P.length → σ i = i := fun i hi =>
    lh_good_fix hσ hnd (List.IsPrefix.trans pA xA.cats) (List.IsPrefix.trans pB xB.cats) hi
  have hroots := lh_roots_fixed hσ.inj hfix s.roots hroot
  have hR : C11.Renamed σ lhNoRules lhNoRules s s :=
    { inj := hσ.inj
      lex := fun row hr c hc => hfix c (Nat.lt_of_lt_of_le hc (hlex row hr))
      bin := fun _ _ => rfl
      un := fun _ => rfl
      n := rfl, tags := rfl, deps := rfl, passes := rfl
      roots := hroots }
  have h0 : LhLSim G σ lA.gst.cats lB.gst.cats ⟨init pickHeap s cfg, gA⟩ ⟨init pickHeap s cfg, gB⟩ := by
    refine ⟨C11.init_rename hR cfg, ⟨iA, iB, xA.cats, xB.cats⟩, ?_, ?_, ?_⟩
    · intro it hit
      have hm : it ∈ leafItems s cfg := by
        have := (pickHeap_ok.2.2 (leafItems s cfg) []).mem_iff.1 hit
        simpa using this
      obtain ⟨tok, c, _, hc, rfl⟩ := mem_leafItems hm
      have hlt := (mem_admitted hc).1
      have hrow : s.tags.getD tok [] ∈ s.tags := by
        rw [List.getD_eq_getElem?_getD] at hlt ⊢
        cases hrow : s.tags[tok]? with
        | none => rw [hrow] at hlt; simp at hlt
        | some row => exact List.mem_of_getElem? hrow
      have hP : c.2 < P.length := Nat.lt_of_lt_of_le hlt (hlex _ hrow)
      have hp : P[c.2]? = some P[c.2] := List.getElem?_eq_getElem hP
      refine ⟨rfl, P[c.2], gr_prefix_get pA hp, ?_⟩
      show gB.cats[σ c.2]? = _
      rw [hfix _ hP]
      exact gr_prefix_get pB hp
    · intro it hit; cases hit
    · intro it hit; cases hit
  have hL := lh_loopL_sim hσ hnd s hroots cfg cfg.maxStep _ _ h0
    (by rw [hFA]; exact List.prefix_refl _) (by rw [hFB]; exact List.prefix_refl _)
  rw [hFA, hFB] at hL
  obtain ⟨hst, _, _, _, hgo⟩ := hL
  simp only [hst, renameSt, C11.sortDesc_map, List.map_reverse, true_and]
  intro r hr
  exact hgo r ((sortDesc_perm _).mem_iff.1 hr)

/-! ### the finaliser, one sentence -/

theorem lh_treesOf_sim {σ : Nat → Nat} {gA gB : GSt} (tokens : List Token) (rs : List Item)
    (h : ∀ r ∈ rs, LhItemSim σ gA gB r) :
    treesOf gB tokens (rs.map (renameItem σ)) = treesOf gA tokens rs := by
  induction rs with
  | nil => rfl
  | cons r rs ih =>
    have h1 := lh_retrieve_sim tokens r.d (h r (List.mem_cons_self ..)).2
    have h2 := ih (fun r' hr' => h r' (List.mem_cons_of_mem _ hr'))
    simp only [List.map_cons, treesOf, C11.renameItem_d, C11.renameItem_prio, h1, h2]

theorem lh_go_eq (pick : Pick) (G : GlueRun.CatGrammar) (rootIds : List Nat) (cfg : Cfg) (g : GSt)
    (x : SentIn) :
    sentenceL.go pick G rootIds cfg g x =
      if (runLWith pick G g (sentOf rootIds x) cfg).1.results.isEmpty then
        (.ok .failed, (runLWith pick G g (sentOf rootIds x) cfg).1,
          (runLWith pick G g (sentOf rootIds x) cfg).2)
      else match treesOf (runLWith pick G g (sentOf rootIds x) cfg).2 x.tokens
          (runLWith pick G g (sentOf rootIds x) cfg).1.results with
        | .error e => (.error e, (runLWith pick G g (sentOf rootIds x) cfg).1,
            (runLWith pick G g (sentOf rootIds x) cfg).2)
        | .ok ts => (.ok (.parsed ts), (runLWith pick G g (sentOf rootIds x) cfg).1,
            (runLWith pick G g (sentOf rootIds x) cfg).2) := rfl

theorem lh_go_gst (pick : Pick) (G : GlueRun.CatGrammar) (rootIds : List Nat) (cfg : Cfg) (g : GSt)
    (x : SentIn) :
    (sentenceL.go pick G rootIds cfg g x).2.2 = (runLWith pick G g (sentOf rootIds x) cfg).2 := by
  rw [lh_go_eq]
  split
  · rfl
  · split <;> rfl

theorem lh_sentenceL_ext (pick : Pick) (G : GlueRun.CatGrammar) (rootIds : List Nat) (cfg : Cfg)
    (maxLength : Option Nat) (g : GSt) (x : SentIn) (h : Inv' G g) :
    Inv' G (sentenceL pick G rootIds cfg maxLength g x).2.2 ∧
      LhExt g (sentenceL pick G rootIds cfg maxLength g x).2.2 := by
  have hgo : Inv' G (sentenceL.go pick G rootIds cfg g x).2.2 ∧
      LhExt g (sentenceL.go pick G rootIds cfg g x).2.2 := by
    rw [lh_go_gst]
    exact lh_runLWith_ext pick G g _ cfg h
  unfold sentenceL
  cases maxLength with
  | none => exact hgo
  | some m =>
    simp only
    split
    · exact ⟨h, lh_ext_refl g⟩
    · exact hgo

theorem lh_go_sim (G : GlueRun.CatGrammar) (P : List Cat) (gA gB : GSt) (rootIds : List Nat)
    (cfg : Cfg) (x : SentIn)
    (iA : Inv' G gA) (iB : Inv' G gB) (pA : P <+: gA.cats) (pB : P <+: gB.cats)
    (hlex : ∀ row ∈ x.tags, row.length ≤ P.length) (hroot : ∀ r ∈ rootIds, r < P.length) :
    (sentenceL.go pickHeap G rootIds cfg gB x).1 = (sentenceL.go pickHeap G rootIds cfg gA x).1 ∧
    (sentenceL.go pickHeap G rootIds cfg gB x).2.1.steps
      = (sentenceL.go pickHeap G rootIds cfg gA x).2.1.steps := by
  obtain ⟨σ, e1, _, e3, _, e5⟩ :=
    lh_run_sim G P gA gB (sentOf rootIds x) cfg iA iB pA pB hlex hroot
  have et := lh_treesOf_sim x.tokens _ e5
  rw [← e1] at et
  have ee : (runLWith pickHeap G gB (sentOf rootIds x) cfg).1.results.isEmpty
      = (runLWith pickHeap G gA (sentOf rootIds x) cfg).1.results.isEmpty := by
    rw [e1]
    cases (runLWith pickHeap G gA (sentOf rootIds x) cfg).1.results <;> rfl
  rw [lh_go_eq, lh_go_eq, ee, et]
  split
  · exact ⟨rfl, e3⟩
  · split
    · exact ⟨rfl, e3⟩
    · exact ⟨rfl, e3⟩

theorem lh_sentence_sim (G : GlueRun.CatGrammar) (P : List Cat) (gA gB : GSt) (rootIds : List Nat)
    (cfg : Cfg) (maxLength : Option Nat) (x : SentIn)
    (iA : Inv' G gA) (iB : Inv' G gB) (pA : P <+: gA.cats) (pB : P <+: gB.cats)
    (hlex : ∀ row ∈ x.tags, row.length ≤ P.length) (hroot : ∀ r ∈ rootIds, r < P.length) :
    (sentenceL pickHeap G rootIds cfg maxLength gB x).1
      = (sentenceL pickHeap G rootIds cfg maxLength gA x).1 ∧
    (sentenceL pickHeap G rootIds cfg maxLength gB x).2.1.steps
      = (sentenceL pickHeap G rootIds cfg maxLength gA x).2.1.steps := by
  have hgo := lh_go_sim G P gA gB rootIds cfg x iA iB pA pB hlex hroot
  unfold sentenceL
  cases maxLength with
  | none => exact hgo
  | some m =>
    simp only
    split
    · exact ⟨rfl, rfl⟩
    · exact hgo

/-! ### the ids handed out by `addRoots` -/

theorem lh_addGet_lt (l : List Cat) (c : Cat) : (addGet l c).2 < (addGet l c).1.length :=
  lh_getElem?_lt (gr_addGet_get l c)

theorem lh_addRoots_lt (rs : List Cat) : ∀ (l : List Cat), ∀ k ∈ (addRoots l rs).2,
    k < (addRoots l rs).1.length := by
  induction rs with
  | nil => intro l k hk; cases hk
  | cons r rs ih =>
    intro l k hk
    rw [gr_addRoots_cons] at hk ⊢
    rcases List.mem_cons.1 hk with rfl | hk
    · exact Nat.lt_of_lt_of_le (lh_addGet_lt l r) (gr_addRoots_prefix rs _).length_le
    · exact ih _ k hk

/-- history independence for any state that satisfies the glue invariant and extends the
    initial table -/
theorem lh_sentence_indep (G : GlueRun.CatGrammar) (categories roots : List Cat) (cfg : Cfg)
    (maxLength : Option Nat) (x : SentIn) (gB : GSt)
    (hnd : categories.Nodup) (hlex : LexOK categories x) (iB : Inv' G gB)
    (pB : (GlueRun.init categories roots).cats <+: gB.cats) :
    (sentenceL pickHeap G (addRoots categories roots).2 cfg maxLength gB x).1
      = (sentenceL pickHeap G (addRoots categories roots).2 cfg maxLength
          (GlueRun.init categories roots) x).1 ∧
    (sentenceL pickHeap G (addRoots categories roots).2 cfg maxLength gB x).2.1.steps
      = (sentenceL pickHeap G (addRoots categories roots).2 cfg maxLength
          (GlueRun.init categories roots) x).2.1.steps := by
  refine lh_sentence_sim G (GlueRun.init categories roots).cats _ gB _ cfg maxLength x
    (init_inv' G categories roots hnd) iB (List.prefix_refl _) pB ?_ ?_
  · intro row hr
    exact Nat.le_trans (hlex row hr) (gr_addRoots_prefix roots categories).length_le
  · intro r hr
    exact lh_addRoots_lt roots categories r hr

/-! ### the batch -/

theorem lh_sentencesL_cons (pick : Pick) (G : GlueRun.CatGrammar) (rootIds : List Nat) (cfg : Cfg)
    (maxLength : Option Nat) (g : GSt) (x : SentIn) (xs : List SentIn) :
    sentencesL pick G rootIds cfg maxLength g (x :: xs) =
      (((sentenceL pick G rootIds cfg maxLength g x).1,
          (sentenceL pick G rootIds cfg maxLength g x).2.1) ::
        (sentencesL pick G rootIds cfg maxLength (sentenceL pick G rootIds cfg maxLength g x).2.2 xs).1,
       (sentencesL pick G rootIds cfg maxLength (sentenceL pick G rootIds cfg maxLength g x).2.2 xs).2) :=
  rfl

theorem lh_sentencesL_indep (G : GlueRun.CatGrammar) (categories roots : List Cat) (cfg : Cfg)
    (maxLength : Option Nat) (hnd : categories.Nodup) :
    ∀ (doc : List SentIn) (g : GSt), (∀ x ∈ doc, LexOK categories x) → Inv' G g →
      (GlueRun.init categories roots).cats <+: g.cats →
      (sentencesL pickHeap G (addRoots categories roots).2 cfg maxLength g doc).1.map (·.1)
        = doc.map fun x => (sentenceL pickHeap G (addRoots categories roots).2 cfg maxLength
            (GlueRun.init categories roots) x).1 := by
  intro doc
  induction doc with
  | nil => intro g _ _ _; rfl
  | cons x xs ih =>
    intro g hlex ig pg
    rw [lh_sentencesL_cons]
    obtain ⟨i1, x1⟩ := lh_sentenceL_ext pickHeap G (addRoots categories roots).2 cfg maxLength g x ig
    have h1 := (lh_sentence_indep G categories roots cfg maxLength x g hnd
      (hlex x (List.mem_cons_self ..)) ig pg).1
    have h2 := ih _ (fun y hy => hlex y (List.mem_cons_of_mem _ hy)) i1
      (List.IsPrefix.trans pg x1.cats)
    simp only [List.map_cons, h1, h2]

end Depccg.LazyProps
