/-
  Helper lemmas for `Depccg/Props/FullOptimal.lean`: every derivation the rule functions license
  (`CLicensed`, over categories) has an id-level counterpart licensed by the view of a cache
  obtained from any given one by further callbacks.

  * `Match cats cd d`: `d` is `cd` with every category replaced by an id the table `cats` gives it.
  * `fo_licensed_mono`: licensing is monotone along `Grows` (rows persist, the table grows).
  * `fo_build`: the callbacks (children first, then the node's own request) that make a
    category-level derivation licensed at the id level.
-/
import Depccg.Props.FullOptimalDefs
import Depccg.Props.LazySearch
import Depccg.Props.EndToEnd

namespace Depccg.FullOptimal
open Depccg Search SearchProps GlueTree GlueRun Lazy LazyProps GlueRunProps

/-! ### id-level counterparts -/

/-- `d` is `cd` under the numbering `cats` -/
def Match (cats : List Cat) : CDeriv → Deriv → Prop
  | .leaf t col c, .leaf t' col' => t = t' ∧ col = col' ∧ cats[col]? = some c
  | .un c rid cd, .un i rid' d => rid = rid' ∧ cats[i]? = some c ∧ Match cats cd d
  | .bin c rid hl l r, .bin i rid' hl' dl dr =>
    rid = rid' ∧ hl = hl' ∧ cats[i]? = some c ∧ Match cats l dl ∧ Match cats r dr
  | _, _ => False

theorem fo_match_mono {cats cats' : List Cat} (hp : cats <+: cats') :
    ∀ (cd : CDeriv) (d : Deriv), Match cats cd d → Match cats' cd d := by
  intro cd
  induction cd with
  | leaf t col c =>
    intro d h
    cases d with
    | leaf t' col' => exact ⟨h.1, h.2.1, gr_prefix_get hp h.2.2⟩
    | un _ _ _ => exact h.elim
    | bin _ _ _ _ _ => exact h.elim
  | un c rid cd ih =>
    intro d h
    cases d with
    | leaf _ _ => exact h.elim
    | un i rid' d => exact ⟨h.1, gr_prefix_get hp h.2.1, ih d h.2.2⟩
    | bin _ _ _ _ _ => exact h.elim
  | bin c rid hl l r ihl ihr =>
    intro d h
    cases d with
    | leaf _ _ => exact h.elim
    | un _ _ _ => exact h.elim
    | bin i rid' hl' dl dr =>
      exact ⟨h.1, h.2.1, gr_prefix_get hp h.2.2.1, ihl dl h.2.2.2.1, ihr dr h.2.2.2.2⟩

/-- everything spans, heads and scores depend on is shared with the skeleton -/
theorem fo_match_skel {cats : List Cat} (s : Sent) :
    ∀ (cd : CDeriv) (d : Deriv), Match cats cd d →
      cats[dcat d]? = some (ccat cd) ∧ dstart d = dstart (skel cd) ∧ dlen d = dlen (skel cd) ∧
      dhead d = dhead (skel cd) ∧ nUnary d = nUnary (skel cd) ∧ tagSum s d = tagSum s (skel cd) ∧
      depSum s d = depSum s (skel cd) ∧ leafCats d = leafCats (skel cd) := by
  intro cd
  induction cd with
  | leaf t col c =>
    intro d h
    cases d with
    | leaf t' col' =>
      obtain ⟨rfl, rfl, hc⟩ := h
      exact ⟨hc, rfl, rfl, rfl, rfl, rfl, rfl, rfl⟩
    | un _ _ _ => exact h.elim
    | bin _ _ _ _ _ => exact h.elim
  | un c rid cd ih =>
    intro d h
    cases d with
    | leaf _ _ => exact h.elim
    | un i rid' d =>
      obtain ⟨rfl, hc, hm⟩ := h
      obtain ⟨-, h1, h2, h3, h4, h5, h6, h7⟩ := ih d hm
      refine ⟨hc, h1, h2, h3, ?_, h5, h6, h7⟩
      simp only [nUnary, skel, h4]
    | bin _ _ _ _ _ => exact h.elim
  | bin c rid hl l r ihl ihr =>
    intro d h
    cases d with
    | leaf _ _ => exact h.elim
    | un _ _ _ => exact h.elim
    | bin i rid' hl' dl dr =>
      obtain ⟨rfl, rfl, hc, hml, hmr⟩ := h
      obtain ⟨-, l1, l2, l3, l4, l5, l6, l7⟩ := ihl dl hml
      obtain ⟨-, r1, r2, r3, r4, r5, r6, r7⟩ := ihr dr hmr
      refine ⟨hc, l1, ?_, ?_, ?_, ?_, ?_, ?_⟩
      · simp only [dlen, skel, l2, r2]
      · simp only [dhead, skel, l3, r3]
      · simp only [nUnary, skel, l4, r4]
      · simp only [tagSum, skel, l5, r5]
      · simp only [depSum, skel, l6, r6, l3, r3]
      · simp only [leafCats, skel, l7, r7]

theorem fo_match_score {cats : List Cat} (s : Sent) (cfg : Cfg) (cd : CDeriv) (d : Deriv)
    (h : Match cats cd d) : modelScore s cfg d = cScore s cfg cd := by
  obtain ⟨-, -, -, h3, h4, h5, h6, -⟩ := fo_match_skel s cd d h
  simp only [cScore, modelScore, h3, h4, h5, h6]

/-! ### licensing is monotone -/

theorem fo_licensed_sub {g g' : Grammar} (h : Sub g g') (s : Sent) (cfg : Cfg) (d : Deriv)
    (hd : Licensed g s cfg d) : Licensed g' s cfg d := by
  induction hd with
  | leaf t c sc ht hc => exact Licensed.leaf t c sc ht hc
  | un c rid d _ hr hn ih =>
    refine Licensed.un c rid d ih ?_ hn
    have hne : g.un (dcat d) ≠ [] := by
      intro e
      rw [e] at hr
      simp at hr
    rw [h.1 _ hne]
    exact hr
  | bin c rid hl l r _ _ hadj hr ihl ihr =>
    refine Licensed.bin c rid hl l r ihl ihr hadj ?_
    have hne : g.bin (dcat l) (dcat r) ≠ [] := by
      intro e
      rw [e] at hr
      simp at hr
    rw [h.2 _ _ hne]
    exact hr

/-- rows are never rewritten and the table only grows: what a cache licenses, every later cache
    licenses -/
theorem fo_licensed_mono {a b : GSt} (h : Grows a b) (s : Sent) (cfg : Cfg) (d : Deriv)
    (hd : Licensed (view a) s cfg d) : Licensed (view b) s cfg d :=
  fo_licensed_sub (lz_sub_of_grows h) s cfg d hd

/-! ### the row after a callback -/

/-- the unary analogue of `row_is_result_list_partial` -/
theorem fo_un_row (G : GlueRun.CatGrammar) (st : GSt) (x : Nat) (cx : Cat) (h : Inv' G st)
    (hx : st.cats[x]? = some cx) :
    ∃ row, unRow (unCall G st x) x = some row ∧
      ∀ (rid : Nat) (r : RuleRes), (G.un cx)[rid]? = some r →
        ∃ e : CacheEntry, row[rid]? = some e ∧ (unCall G st x).cats[e.catId]? = some r.cat := by
  cases hrow : unRow st x with
  | none =>
    rw [gr_unCall_fresh G st x cx hrow hx]
    refine ⟨(addAll st.cats (G.un cx)).2, ?_, ?_⟩
    · rw [gr_unRow_cons, if_pos rfl]
    · intro rid r hr
      obtain ⟨e, he, hc, -⟩ := gr_addAll_entries _ st.cats rid r hr
      exact ⟨e, he, hc⟩
  | some row =>
    rw [gr_unCall_some G st x row hrow]
    obtain ⟨⟨_, ⟨_, hru⟩, _⟩, _, hcu⟩ := h
    obtain ⟨cx', hx2, hl⟩ := hcu x row hrow
    rw [hx] at hx2; cases hx2
    refine ⟨row, hrow, ?_⟩
    intro rid r hr
    have hlt : rid < row.length := by
      rw [hl]
      apply Nat.lt_of_not_le
      intro hle
      rw [List.getElem?_eq_none hle] at hr
      cases hr
    have he : ((tablesOf st).un x)[rid]? = some row[rid] := by
      simp only [tablesOf, hrow, Option.getD_some]
      exact List.getElem?_eq_getElem hlt
    obtain ⟨r', h1, h2, -⟩ := hru x cx hx rid row[rid] he
    have h1' : (G.un cx)[rid]? = some r' := h1
    rw [hr] at h1'
    cases h1'
    exact ⟨row[rid], List.getElem?_eq_getElem hlt, h2⟩

theorem fo_view_un_get {g : GSt} {x rid : Nat} {row : List CacheEntry} {e : CacheEntry}
    (hrow : unRow g x = some row) (he : row[rid]? = some e) :
    ((view g).un x)[rid]? = some e.catId := by
  rw [lz_view_un, hrow]
  simp [he]

theorem fo_view_bin_get {g : GSt} {x y rid : Nat} {row : List CacheEntry} {e : CacheEntry}
    (hrow : binRow g x y = some row) (he : row[rid]? = some e) :
    ((view g).bin x y)[rid]? = some ⟨e.catId, e.headLeft⟩ := by
  rw [lz_view_bin, hrow]
  simp [he]

/-! ### the callbacks that realise a category-level derivation -/

theorem fo_foldl_inv {G : GlueRun.CatGrammar} {g : GSt} (later : List Call) (h : Inv' G g) :
    Inv' G (later.foldl (GlueRun.step G) g) := (gr_run_inv' G later g h).1

/-- from any cache satisfying the invariant whose table extends the caller's list: callbacks
    after which the derivation is licensed at the id level -/
theorem fo_build (G : GlueRun.CatGrammar) (categories : List Cat) (s : Sent) (cfg : Cfg)
    (cd : CDeriv) (hcd : CLicensed G categories s cfg cd) :
    ∀ g : GSt, Inv' G g → categories <+: g.cats →
      ∃ (later : List Call) (d : Deriv),
        Licensed (view (later.foldl (GlueRun.step G) g)) s cfg d ∧
        Match (later.foldl (GlueRun.step G) g).cats cd d := by
  induction hcd with
  | leaf t col c sc ht hadm hc =>
    intro g _ hp
    exact ⟨[], .leaf t col, Licensed.leaf t col sc ht hadm, rfl, rfl, gr_prefix_get hp hc⟩
  | un c rid cd r _ hr hrc hn ih =>
    intro g hinv hp
    obtain ⟨later1, d1, hl1, hm1⟩ := ih g hinv hp
    have hinv1 := fo_foldl_inv later1 hinv
    obtain ⟨g1, hg1⟩ : ∃ g1, g1 = later1.foldl (GlueRun.step G) g := ⟨_, rfl⟩
    rw [← hg1] at hl1 hm1 hinv1
    obtain ⟨hx, -, hlen, -⟩ := fo_match_skel s cd d1 hm1
    obtain ⟨row, hrow, hent⟩ := fo_un_row G g1 (dcat d1) (ccat cd) hinv1 hx
    obtain ⟨e, he, hec⟩ := hent rid r hr
    have hg : Grows g1 (unCall G g1 (dcat d1)) := lz_step_grows G g1 (.un (dcat d1))
    refine ⟨later1 ++ [.un (dcat d1)], .un e.catId rid d1, ?_, ?_⟩
    · rw [List.foldl_append, ← hg1]
      show Licensed (view (unCall G g1 (dcat d1))) s cfg (.un e.catId rid d1)
      refine Licensed.un e.catId rid d1 (fo_licensed_mono hg s cfg d1 hl1) (fo_view_un_get hrow he) ?_
      rw [hlen]
      exact hn
    · rw [List.foldl_append, ← hg1]
      show Match (unCall G g1 (dcat d1)).cats (.un c rid cd) (.un e.catId rid d1)
      rw [hrc] at hec
      exact ⟨rfl, hec, fo_match_mono hg.1 cd d1 hm1⟩
  | bin c rid hl l r res _ _ hadj hr hrc hrh ihl ihr =>
    intro g hinv hp
    obtain ⟨later1, d1, hl1, hm1⟩ := ihl g hinv hp
    have hinv1 := fo_foldl_inv later1 hinv
    have hp1 : categories <+: (later1.foldl (GlueRun.step G) g).cats :=
      List.IsPrefix.trans hp (lz_foldl_grows G later1 g).1
    obtain ⟨g1, hg1⟩ : ∃ g1, g1 = later1.foldl (GlueRun.step G) g := ⟨_, rfl⟩
    rw [← hg1] at hl1 hm1 hinv1 hp1
    obtain ⟨later2, d2, hl2, hm2⟩ := ihr g1 hinv1 hp1
    have hinv2 := fo_foldl_inv later2 hinv1
    have hg12 : Grows g1 (later2.foldl (GlueRun.step G) g1) := lz_foldl_grows G later2 g1
    obtain ⟨g2, hg2⟩ : ∃ g2, g2 = later2.foldl (GlueRun.step G) g1 := ⟨_, rfl⟩
    rw [← hg2] at hl2 hm2 hinv2 hg12
    have hl1' := fo_licensed_mono hg12 s cfg d1 hl1
    have hm1' := fo_match_mono hg12.1 l d1 hm1
    obtain ⟨hx, ls, ll, -⟩ := fo_match_skel s l d1 hm1'
    obtain ⟨hy, rs, rl, -⟩ := fo_match_skel s r d2 hm2
    obtain ⟨row, hrow, -, hent⟩ :=
      row_is_result_list_partial G g2 (dcat d1) (dcat d2) (ccat l) (ccat r) hinv2 hx hy
    obtain ⟨e, he, hec, hehl, -⟩ := hent rid res hr
    have hg : Grows g2 (binCall G g2 (dcat d1) (dcat d2)) :=
      lz_step_grows G g2 (.bin (dcat d1) (dcat d2))
    refine ⟨later1 ++ later2 ++ [.bin (dcat d1) (dcat d2)], .bin e.catId rid hl d1 d2, ?_, ?_⟩
    · rw [List.foldl_append, List.foldl_append, ← hg1, ← hg2]
      show Licensed (view (binCall G g2 (dcat d1) (dcat d2))) s cfg (.bin e.catId rid hl d1 d2)
      refine Licensed.bin e.catId rid hl d1 d2 (fo_licensed_mono hg s cfg d1 hl1')
        (fo_licensed_mono hg s cfg d2 hl2) ?_ ?_
      · unfold dstop at hadj ⊢
        rw [ls, ll, rs]
        exact hadj
      · have := fo_view_bin_get hrow he
        rw [hehl, hrh] at this
        exact this
    · rw [List.foldl_append, List.foldl_append, ← hg1, ← hg2]
      show Match (binCall G g2 (dcat d1) (dcat d2)).cats (.bin c rid hl l r) (.bin e.catId rid hl d1 d2)
      rw [hrc] at hec
      exact ⟨rfl, rfl, hec, fo_match_mono hg.1 l d1 hm1', fo_match_mono hg.1 r d2 hm2⟩

/-! ### head direction, roots -/

/-- a cache that represents head-uniform rule functions is head-uniform -/
theorem fo_head_uniform {G : GlueRun.CatGrammar} {g : GSt} (hu : HeadUniformG G) (hinv : Inv' G g) :
    HeadUniform (view g) := by
  obtain ⟨⟨_, hrep, hk⟩, _⟩ := hinv
  rcases hu with h | h
  · left
    intro x y r hr
    obtain ⟨cx, cy, res, hres, hhl⟩ := EndToEnd.e2e_bin_entry _ _ hk hrep x y r hr
    rw [hhl]
    exact h cx cy res hres
  · right
    intro x y r hr
    obtain ⟨cx, cy, res, hres, hhl⟩ := EndToEnd.e2e_bin_entry _ _ hk hrep x y r hr
    rw [hhl]
    exact h cx cy res hres

theorem fo_nodup_idx {l : List Cat} (hnd : l.Nodup) {i j : Nat} {c : Cat}
    (hi : l[i]? = some c) (hj : l[j]? = some c) : i = j := by
  obtain ⟨hil, -⟩ := List.getElem?_eq_some_iff.1 hi
  exact (List.getElem?_inj hil hnd).1 (hi.trans hj.symm)

/-- the id a root category got before any parsing is the id every later table gives it -/
theorem fo_root_id (G : GlueRun.CatGrammar) (categories roots : List Cat) (hnd : categories.Nodup)
    {g : GSt} (hp : (GlueRun.init categories roots).cats <+: g.cats) (hgn : g.cats.Nodup)
    {c : Cat} (hc : c ∈ roots) {k : Nat} (hk : g.cats[k]? = some c) :
    k ∈ (addRoots categories roots).2 := by
  obtain ⟨i, hi⟩ := List.getElem?_of_mem hc
  obtain ⟨k', hk', hck'⟩ := (init_inv G categories roots hnd).2.2.2 i c hi
  have : k = k' := fo_nodup_idx hgn hk (gr_prefix_get hp hck')
  rw [this]
  exact List.mem_of_getElem? hk'

/-! ### the reduction -/

/-- a complete derivation licensed by the rule functions is a complete derivation licensed by the
    view of some cache reached from the final cache of the lazy run by further callbacks, and the
    lazy run is the pure run over that view -/
theorem fo_reduce (G : GlueRun.CatGrammar) (categories roots : List Cat) (calls : List Call)
    (cfg : Cfg) (x : SentIn) (hnd : categories.Nodup) (hlex : LexOK categories x) (cd : CDeriv)
    (hcd : CLicensedRoot G categories roots (sentOf (addRoots categories roots).2 x) cfg cd) :
    ∃ (g' : GSt) (d : Deriv),
      Inv' G g' ∧
      SameOutcome
        (runL G (calls.foldl (GlueRun.step G) (GlueRun.init categories roots))
          (sentOf (addRoots categories roots).2 x) cfg).1
        (run (view g') (sentOf (addRoots categories roots).2 x) cfg) ∧
      LicensedRoot (view g') (sentOf (addRoots categories roots).2 x) cfg d ∧
      Match g'.cats cd d := by
  obtain ⟨hlic, h0, hn, hroot⟩ := hcd
  have hready := ready_of_history G categories roots calls x hnd hlex
  have hpH : (GlueRun.init categories roots).cats <+:
      (calls.foldl (GlueRun.step G) (GlueRun.init categories roots)).cats :=
    (lz_foldl_grows G calls _).1
  generalize calls.foldl (GlueRun.step G) (GlueRun.init categories roots) = gstH at hready hpH ⊢
  generalize hs : sentOf (addRoots categories roots).2 x = s at hready hlic h0 hn ⊢
  obtain ⟨hinvF, hpF⟩ := lazy_inv pickHeap G gstH s cfg hready.inv
  have hpI : (GlueRun.init categories roots).cats <+: (runLWith pickHeap G gstH s cfg).2.cats :=
    List.IsPrefix.trans hpH hpF
  have hpC : categories <+: (runLWith pickHeap G gstH s cfg).2.cats :=
    List.IsPrefix.trans (gr_addRoots_prefix roots categories) hpI
  obtain ⟨later, d, hld, hmd⟩ := fo_build G categories s cfg cd hlic _ hinvF hpC
  have heq := lazy_eq_final_partial pickHeap G gstH s cfg later pickHeap_ok hready.inv hready.lex
  have hinv' := fo_foldl_inv later hinvF
  have hp' : (GlueRun.init categories roots).cats <+:
      (later.foldl (GlueRun.step G) (runLWith pickHeap G gstH s cfg).2).cats :=
    List.IsPrefix.trans hpI (lz_foldl_grows G later _).1
  generalize later.foldl (GlueRun.step G) (runLWith pickHeap G gstH s cfg).2 = g' at hld hmd heq hinv' hp'
  obtain ⟨hc, hst, hlen, -⟩ := fo_match_skel s cd d hmd
  refine ⟨g', d, hinv', heq, ⟨hld, by rw [hst, h0], by rw [hlen, hn], ?_⟩, hmd⟩
  have := fo_root_id G categories roots hnd hp' hinv'.1.1 hroot hc
  rw [← hs]
  exact this

end Depccg.FullOptimal
