/-
  Lemmas for C07 / conll: the decimal numbers, one row and its line, the lines `conllRec`
  produces, the head column, the fragments.
-/
import Depccg.Props.C07ConllDefs
import Depccg.Proofs.C07Lemmas
import Depccg.Proofs.C08Lemmas

namespace Depccg.C07
open Depccg Str Print Read TextProps

/-! ### decimal numbers -/

theorem cn_natDigitsAux_acc : ∀ (fuel n : Nat) (acc : Str),
    natDigitsAux fuel n acc = natDigitsAux fuel n [] ++ acc
  | 0, _, acc => by simp [natDigitsAux]
  | fuel + 1, n, acc => by
    simp only [natDigitsAux]
    split
    · simp
    · rw [cn_natDigitsAux_acc fuel (n / 10) ((48 + n % 10) :: acc),
        cn_natDigitsAux_acc fuel (n / 10) [48 + n % 10]]
      simp

theorem cn_conllDigits_append : ∀ (s : Str) (a : Nat) (c : Nat), 48 ≤ c → c ≤ 57 →
    ∀ v, conllDigits a s = some v → conllDigits a (s ++ [c]) = some (v * 10 + (c - 48))
  | [], a, c, h1, h2, v, h => by
    simp only [conllDigits, Option.some.injEq] at h
    subst h
    simp [conllDigits, h1, h2]
  | x :: xs, a, c, h1, h2, v, h => by
    simp only [conllDigits] at h
    split at h
    · next hx =>
      simp only [List.cons_append, conllDigits, hx, and_self, if_true]
      exact cn_conllDigits_append xs _ c h1 h2 v h
    · cases h

/-- the digits of `n` read back to `n`, and there is no superfluous leading zero -/
theorem cn_digits_spec : ∀ (fuel n : Nat), n < fuel →
    conllDigits 0 (natDigitsAux fuel n []) = some n ∧
    ∃ c r, natDigitsAux fuel n [] = c :: r ∧ (c = 48 → n = 0)
  | 0, n, h => by omega
  | fuel + 1, n, h => by
    simp only [natDigitsAux]
    split
    · next hn =>
      refine ⟨?_, 48 + n, [], rfl, by omega⟩
      have h1 : 48 ≤ 48 + n ∧ 48 + n ≤ 57 := by omega
      simp only [conllDigits, h1, and_self, if_true]
      congr 1
      omega
    · next hn =>
      have hlt : n / 10 < fuel := by omega
      obtain ⟨ih1, c, r, ih2, ih3⟩ := cn_digits_spec fuel (n / 10) hlt
      rw [cn_natDigitsAux_acc]
      refine ⟨?_, c, r ++ [48 + n % 10], by rw [ih2]; rfl, ?_⟩
      · rw [cn_conllDigits_append _ 0 (48 + n % 10) (by omega) (by omega) _ ih1]
        congr 1
        omega
      · intro hc
        have := ih3 hc
        omega

theorem cn_conllNat_ofNat (n : Nat) : conllNat (Str.ofNat n) = some n := by
  obtain ⟨h1, c, r, h2, h3⟩ := cn_digits_spec (n + 1) n (Nat.lt_succ_self n)
  unfold Str.ofNat
  rw [h2] at h1 ⊢
  cases r with
  | nil => exact h1
  | cons d r' =>
    simp only [conllNat]
    split
    · next hc =>
      have hn := h3 hc
      subst hn
      simp [natDigitsAux] at h2
    · exact h1

/-! ### cells -/

theorem cn_cell_nil : Cell [] := ⟨by simp, by simp⟩

theorem cn_cell_append {a b : Str} (ha : Cell a) (hb : Cell b) : Cell (a ++ b) :=
  ⟨fun h => (List.mem_append.1 h).elim ha.1 hb.1, fun h => (List.mem_append.1 h).elim ha.2 hb.2⟩

theorem cn_cell_cons {x : Nat} {b : Str} (h9 : x ≠ 9) (h10 : x ≠ 10) (hb : Cell b) : Cell (x :: b) :=
  ⟨fun h => (List.mem_cons.1 h).elim (fun e => h9 e.symm) hb.1,
   fun h => (List.mem_cons.1 h).elim (fun e => h10 e.symm) hb.2⟩

theorem cn_cell_closed (s : Str) (h : s.all (fun c => c != 9 && c != 10) = true) : Cell s := by
  have h' := List.all_eq_true.1 h
  refine ⟨fun hm => ?_, fun hm => ?_⟩
  · have := h' 9 hm; simp at this
  · have := h' 10 hm; simp at this

theorem cn_cell_sp : ∀ (parts : List Str), (∀ p ∈ parts, Cell p) → Cell (sp parts)
  | [], _ => cn_cell_nil
  | [x], h => h x (by simp)
  | x :: y :: rest, h => by
    have ih := cn_cell_sp (y :: rest) (fun p hp => h p (List.mem_cons_of_mem _ hp))
    exact cn_cell_append (h x (by simp)) (cn_cell_cons (by decide) (by decide) ih)

theorem cn_cell_closers : ∀ k, Cell (closers k)
  | 0 => cn_cell_nil
  | k + 1 => cn_cell_append (cn_cell_closed _ (by decide)) (cn_cell_closers k)

theorem cn_cell_denormalize {w : Str} (hw : Cell w) : Cell (denormalize w) := by
  refine ⟨fun hm => ?_, fun hm => ?_⟩
  · rcases C08.denormalize_mem hm with h | h
    · exact hw.1 h
    · exact (C08.escChars_plain 9 h).2.1 rfl
  · rcases C08.denormalize_mem hm with h | h
    · exact hw.2 h
    · exact (C08.escChars_plain 10 h).2.2.1 rfl

theorem cn_cell_getD {tok : Token} {k d : Str} (h : ∀ v, Token.get? tok k = some v → Cell v)
    (hd : Cell d) : Cell (Token.getD tok k d) := by
  simp only [Token.getD]
  cases hg : Dict.get? tok k with
  | none => exact hd
  | some v => exact h v hg

theorem cn_cell_digits (n : Nat) : Cell (Str.ofNat n) := by
  refine ⟨fun hm => ?_, fun hm => ?_⟩
  · have := C08.natDigitsAux_digits (n + 1) n [] (fun _ h => by cases h) 9 hm
    omega
  · have := C08.natDigitsAux_digits (n + 1) n [] (fun _ h => by cases h) 10 hm
    omega

/-! ### one row and its line -/

/-- the line of a row -/
def render (r : ConllRow) : Str :=
  tab [Str.ofNat r.id, r.word, r.lemma, r.pos, r.pos2, lit "_", Str.ofNat r.head, r.cat, lit "_",
    r.fragment]

/-- the free columns of a row are cells -/
def RowOK (r : ConllRow) : Prop :=
  Cell r.word ∧ Cell r.lemma ∧ Cell r.pos ∧ Cell r.pos2 ∧ Cell r.cat ∧ Cell r.fragment

theorem cn_cell_underscore : Cell (lit "_") := cn_cell_closed _ (by decide)

theorem cn_mem_joinSep {sep c : Nat} : ∀ {parts : List Str}, c ∈ joinSep sep parts →
    c = sep ∨ ∃ p ∈ parts, c ∈ p
  | [], h => by simp [joinSep] at h
  | [x], h => Or.inr ⟨x, by simp, h⟩
  | x :: y :: rest, h => by
    simp only [joinSep, List.mem_append, List.mem_cons] at h
    rcases h with h | h | h
    · exact Or.inr ⟨x, by simp, h⟩
    · exact Or.inl h
    · rcases cn_mem_joinSep (parts := y :: rest) h with h | ⟨p, hp, hc⟩
      · exact Or.inl h
      · exact Or.inr ⟨p, List.mem_cons_of_mem _ hp, hc⟩

theorem cn_row_cells {r : ConllRow} (h : RowOK r) :
    ∀ f ∈ [Str.ofNat r.id, r.word, r.lemma, r.pos, r.pos2, lit "_", Str.ofNat r.head, r.cat, lit "_",
      r.fragment], Cell f := by
  obtain ⟨h1, h2, h3, h4, h5, h6⟩ := h
  simp only [List.forall_mem_cons]
  exact ⟨cn_cell_digits _, h1, h2, h3, h4, cn_cell_underscore, cn_cell_digits _, h5,
    cn_cell_underscore, h6, fun _ h => by cases h⟩

theorem cn_render_no10 {r : ConllRow} (h : RowOK r) : 10 ∉ render r := by
  intro hm
  rcases cn_mem_joinSep hm with e | ⟨p, hp, hc⟩
  · cases e
  · exact (cn_row_cells h p hp).2 hc

theorem cn_decRow_render {r : ConllRow} (h : RowOK r) : decConllRow (render r) = some r := by
  have hs := splitOn_joinSep 9 _ (by simp) (fun f hf => (cn_row_cells h f hf).1)
  have hu : conllBlankCol (lit "_") = true := by decide
  simp only [decConllRow, render, tab, hs, hu, cn_conllNat_ofNat, Bool.and_self, if_true]

theorem cn_decRows_render : ∀ (rows : List ConllRow), (∀ r ∈ rows, RowOK r) →
    decConllRows (rows.map render) = some rows
  | [], _ => rfl
  | r :: rs, h => by
    simp only [List.map_cons, decConllRows, cn_decRow_render (h r (by simp)),
      cn_decRows_render rs (fun r' hr' => h r' (List.mem_cons_of_mem _ hr'))]

/-- the table of a non-empty list of rows reads back to the rows -/
theorem cn_decConll_render (rows : List ConllRow) (hne : rows ≠ []) (h : ∀ r ∈ rows, RowOK r) :
    decConll (joinSep 10 (rows.map render)) = some rows := by
  unfold decConll
  rw [splitOn_joinSep 10 _ (by simpa using hne)]
  · exact cn_decRows_render rows h
  · intro f hf
    obtain ⟨r, hr, rfl⟩ := List.mem_map.1 hf
    exact cn_render_no10 (h r hr)

/-! ### the head column, top-down -/

/-- the printer's column (`none` = Python's -1) of a subtree, top-down: `u` is the entry of its
    head word -/
def rawHeads : Tree → Nat → Option Nat → List (Option Nat)
  | .leaf .., _, u => [u]
  | .un _ _ _ ch, off, u => rawHeads ch off u
  | .bin _ _ _ h l r, off, u =>
    rawHeads l off (if h then u else some (headIdx r (off + l.numLeaves))) ++
    rawHeads r (off + l.numLeaves) (if h then some (headIdx l off) else u)

/-- the number printed for an entry -/
def depNum : Option Nat → Nat
  | some h => h + 1
  | none => 0

theorem cn_rawHeads_length : ∀ (t : Tree) (off : Nat) (u : Option Nat),
    (rawHeads t off u).length = t.numLeaves
  | .leaf .., _, _ => rfl
  | .un _ _ _ ch, off, u => cn_rawHeads_length ch off u
  | .bin _ _ _ h l r, off, u => by
    simp only [rawHeads, List.length_append, cn_rawHeads_length, Tree.numLeaves]

/-- overwriting the entry of the head word -/
theorem cn_rawHeads_set : ∀ (t : Tree) (off : Nat) (u v : Option Nat),
    (rawHeads t off u).set (headIdx t off - off) v = rawHeads t off v
  | .leaf .., off, u, v => by simp [rawHeads, headIdx]
  | .un _ _ _ ch, off, u, v => cn_rawHeads_set ch off u v
  | .bin _ _ _ h l r, off, u, v => by
    have hl := headIdx_bounds l off
    have hr := headIdx_bounds r (off + l.numLeaves)
    cases h with
    | true =>
      simp only [rawHeads, headIdx, if_true]
      rw [List.set_append_left _ _ (by rw [cn_rawHeads_length]; omega), cn_rawHeads_set l off u v]
    | false =>
      simp only [rawHeads, headIdx, Bool.false_eq_true, if_false]
      rw [List.set_append_right _ _ (by rw [cn_rawHeads_length]; omega), cn_rawHeads_length]
      have e : headIdx r (off + l.numLeaves) - off - l.numLeaves =
          headIdx r (off + l.numLeaves) - (off + l.numLeaves) := by omega
      rw [e, cn_rawHeads_set r (off + l.numLeaves) u v]

/-- `_resolve_dependencies` appends the top-down column of the subtree -/
theorem cn_resolveDeps_raw : ∀ (t : Tree) (res : List (Option Nat)),
    (resolveDeps t res).2 = res ++ rawHeads t res.length none
  | .leaf .., res => rfl
  | .un _ _ _ ch, res => cn_resolveDeps_raw ch res
  | .bin c s y h l r, res => by
    have hl := headIdx_bounds l res.length
    have hr := headIdx_bounds r (res.length + l.numLeaves)
    have A := cn_resolveDeps_raw l res
    have B := cn_resolveDeps_raw r (resolveDeps l res).2
    have Af := (resolveDeps_spec l res).fst
    have Bf := (resolveDeps_spec r (resolveDeps l res).2).fst
    rw [A] at B Bf
    simp only [List.length_append, cn_rawHeads_length] at B Bf
    cases h with
    | true =>
      simp only [resolveDeps_bin, if_true, rawHeads, A, B, Bf, Af]
      rw [List.set_append_right _ _ (by simp only [List.length_append, cn_rawHeads_length]; omega)]
      simp only [List.length_append, cn_rawHeads_length, cn_rawHeads_set, List.append_assoc]
    | false =>
      simp only [resolveDeps_bin, Bool.false_eq_true, if_false, rawHeads, A, B, Bf, Af]
      rw [List.set_append_left _ _ (by simp only [List.length_append, cn_rawHeads_length]; omega),
        List.set_append_right _ _ (by omega)]
      simp only [cn_rawHeads_set, List.append_assoc]

/-! ### the lines `conllRec` writes -/

theorem cn_viewRows_ne_nil : ∀ (t : Tree) (off up : Nat) (pre : List Str) (k : Nat),
    viewRows t off up pre k ≠ []
  | .leaf .., _, _, _, _ => by simp [viewRows]
  | .un _ _ _ ch, off, up, pre, k => cn_viewRows_ne_nil ch off up _ _
  | .bin _ _ _ h l r, off, up, pre, k => by
    simp only [viewRows, ne_eq, List.append_eq_nil_iff, not_and]
    intro h1
    exact absurd h1 (cn_viewRows_ne_nil l off _ _ _)

theorem cn_tab_last (a b c d e f g h i x y : Str) :
    tab [a, b, c, d, e, f, g, h, i, x] ++ y = tab [a, b, c, d, e, f, g, h, i, x ++ y] := by
  simp [tab, joinSep]

theorem cn_closers_succ (k : Nat) : closers (k + 1) = lit " )" ++ closers k := rfl

theorem cn_depNum_if (h : Bool) (u : Option Nat) (j : Nat) :
    depNum (if h then u else some j) = if h then depNum u else j + 1 := by
  cases h <;> rfl

theorem cn_depNum_if' (h : Bool) (u : Option Nat) (j : Nat) :
    depNum (if h then some j else u) = if h then j + 1 else depNum u := by
  cases h <;> rfl

/-- the text of a subtree, with the closers of the enclosing nodes that end with it, is the table
    of its view rows; `deps` contains the top-down column of the subtree at its place -/
theorem cn_conllRec_spec (deps : List (Option Nat)) : ∀ (t : Tree) (st st' : ConllSt) (out : Str)
    (u : Option Nat) (k : Nat) (A B : List (Option Nat)),
    deps = A ++ rawHeads t A.length u ++ B → st.counter = A.length + 1 →
    conllRec deps t st = .ok (out, st') →
    st'.stack = [] ∧ st'.counter = st.counter + t.numLeaves ∧
    out ++ closers k = joinSep 10 ((viewRows t A.length (depNum u) st.stack k).map render)
  | .leaf c tok a b, st, st', out, u, k, A, B, hd, hc, h => by
    simp only [conllRec] at h
    split at h
    · cases h
    · next w hw =>
      have hw' : Token.getD tok (lit "word") [] = w := C08.getD_of_get? (C08.get_ok_iff.1 hw)
      have hidx : deps[st.counter - 1]? = some u := by
        rw [hd, hc]
        simp [rawHeads]
      simp only [hidx] at h
      simp only [Except.ok.injEq, Prod.mk.injEq] at h
      obtain ⟨rfl, rfl⟩ := h
      refine ⟨rfl, rfl, ?_⟩
      rw [cn_tab_last]
      simp only [viewRows, List.map_cons, List.map_nil, joinSep, render, leafFrag, hw', hc]
      cases u <;> rfl
  | .un c a b ch, st, st', out, u, k, A, B, hd, hc, h => by
    simp only [conllRec] at h
    split at h
    · cases h
    · next o st2 he =>
      simp only [Except.ok.injEq, Prod.mk.injEq] at h
      obtain ⟨rfl, rfl⟩ := h
      obtain ⟨h1, h2, h3⟩ := cn_conllRec_spec deps ch
        { st with stack := st.stack ++ [unOpener c] } st2 o u (k + 1) A B hd hc he
      refine ⟨h1, h2, ?_⟩
      rw [List.append_assoc, ← cn_closers_succ, h3]
      rfl
  | .bin c a b hh l r, st, st', out, u, k, A, B, hd, hc, h => by
    simp only [conllRec] at h
    split at h
    · cases h
    · next o1 st1 he1 =>
      split at h
      · cases h
      · next o2 st2 he2 =>
        simp only [Except.ok.injEq, Prod.mk.injEq] at h
        obtain ⟨rfl, rfl⟩ := h
        simp only [rawHeads] at hd
        obtain ⟨h1, h2, h3⟩ := cn_conllRec_spec deps l
          { st with stack := st.stack ++ [binOpener c hh] } st1 o1
          (if hh then u else some (headIdx r (A.length + l.numLeaves))) 0 A
          (rawHeads r (A.length + l.numLeaves) (if hh then some (headIdx l A.length) else u) ++ B)
          (by rw [hd]; simp only [List.append_assoc]) hc he1
        obtain ⟨h4, h5, h6⟩ := cn_conllRec_spec deps r st1 st2 o2
          (if hh then some (headIdx l A.length) else u) (k + 1)
          (A ++ rawHeads l A.length (if hh then u else some (headIdx r (A.length + l.numLeaves)))) B
          (by rw [hd]; simp only [List.length_append, cn_rawHeads_length, List.append_assoc])
          (by simp only [h2, List.length_append, cn_rawHeads_length, hc]; omega) he2
        refine ⟨h4, by simp only [h5, h2, Tree.numLeaves]; omega, ?_⟩
        simp only [closers, List.append_nil] at h3
        simp only [List.length_append, cn_rawHeads_length, h1] at h6
        have e : o1 ++ 10 :: o2 ++ lit " )" ++ closers k = o1 ++ 10 :: (o2 ++ closers (k + 1)) := by
          simp [cn_closers_succ]
        rw [e, h3, h6, viewRows, List.map_append,
          C08.joinSep_append 10 (by simpa using cn_viewRows_ne_nil _ _ _ _ _)
            (by simpa using cn_viewRows_ne_nil _ _ _ _ _),
          cn_depNum_if, cn_depNum_if']

/-- the printed table is the table of the view -/
theorem cn_conllOf_render (t : Tree) (text : Str) (h : conllOf t = .ok text) :
    text = joinSep 10 ((viewConll t).map render) := by
  simp only [conllOf] at h
  split at h
  · cases h
  · next out st' he =>
    cases h
    have := (cn_conllRec_spec (resolveDeps t []).2 t _ _ _ none 0 [] []
      (by rw [cn_resolveDeps_raw]; simp) rfl he).2.2
    simpa [closers, depNum, viewConll] using this

/-! ### the rows of the view are made of cells -/

theorem cn_cell_leafFrag {c : Cat} {tok : Token} (hc : Cell c.str) (ht : TokCells tok) :
    Cell (leafFrag c tok) := by
  have hp : Cell (Token.getD tok (lit "pos") (lit "_")) :=
    cn_cell_getD (ht _ (by simp)) cn_cell_underscore
  have hw : Cell (denormalize (Token.getD tok (lit "word") [])) :=
    cn_cell_denormalize (cn_cell_getD (ht _ (by simp)) cn_cell_nil)
  apply cn_cell_sp
  simp only [List.forall_mem_cons]
  exact ⟨cn_cell_closed _ (by decide), hc, hp, hp, hw,
    cn_cell_append hc (cn_cell_closed _ (by decide)), fun _ h => by cases h⟩

theorem cn_cell_unOpener {c : Cat} (hc : Cell c.str) : Cell (unOpener c) := by
  apply cn_cell_sp
  simp only [List.forall_mem_cons]
  exact ⟨cn_cell_closed _ (by decide), hc, cn_cell_closed _ (by decide), cn_cell_closed _ (by decide),
    fun _ h => by cases h⟩

theorem cn_cell_binOpener {c : Cat} (hc : Cell c.str) (h : Bool) : Cell (binOpener c h) := by
  apply cn_cell_sp
  simp only [List.forall_mem_cons]
  exact ⟨cn_cell_closed _ (by decide), hc, by cases h <;> exact cn_cell_closed _ (by decide),
    cn_cell_closed _ (by decide), fun _ h => by cases h⟩

theorem cn_mem_snoc_cells {pre : List Str} {x : Str} (hpre : ∀ e ∈ pre, Cell e) (hx : Cell x) :
    ∀ e ∈ pre ++ [x], Cell e := by
  intro e he
  rcases List.mem_append.1 he with he | he
  · exact hpre e he
  · simp only [List.mem_singleton] at he; rw [he]; exact hx

theorem cn_viewRows_ok : ∀ (t : Tree) (off up : Nat) (pre : List Str) (k : Nat),
    AllCats (fun c => Cell c.str) t → AllToks TokCells t → (∀ e ∈ pre, Cell e) →
    ∀ r ∈ viewRows t off up pre k, RowOK r
  | .leaf c tok _ _, off, up, pre, k, hc, ht, hpre, r, hr => by
    have hc : Cell c.str := hc
    have ht : TokCells tok := ht
    simp only [viewRows, List.mem_singleton] at hr
    subst hr
    have hp : Cell (Token.getD tok (lit "pos") (lit "_")) :=
      cn_cell_getD (ht _ (by simp)) cn_cell_underscore
    exact ⟨cn_cell_denormalize (cn_cell_getD (ht _ (by simp)) cn_cell_nil),
      cn_cell_getD (ht _ (by simp)) cn_cell_underscore, hp, hp, hc,
      cn_cell_append (cn_cell_sp _ (cn_mem_snoc_cells hpre (cn_cell_leafFrag hc ht)))
        (cn_cell_closers k)⟩
  | .un c _ _ ch, off, up, pre, k, hc, ht, hpre, r, hr => by
    obtain ⟨hc1, hc2⟩ : Cell c.str ∧ AllCats (fun c => Cell c.str) ch := hc
    exact cn_viewRows_ok ch off up _ _ hc2 ht (cn_mem_snoc_cells hpre (cn_cell_unOpener hc1)) r hr
  | .bin c _ _ h l r', off, up, pre, k, hc, ht, hpre, r, hr => by
    obtain ⟨hc1, hc2, hc3⟩ :
      Cell c.str ∧ AllCats (fun c => Cell c.str) l ∧ AllCats (fun c => Cell c.str) r' := hc
    simp only [viewRows, List.mem_append] at hr
    rcases hr with hr | hr
    · exact cn_viewRows_ok l off _ _ _ hc2 ht.1 (cn_mem_snoc_cells hpre (cn_cell_binOpener hc1 h)) r hr
    · exact cn_viewRows_ok r' _ _ _ _ hc3 ht.2 (fun _ h => by cases h) r hr

/-! ### ids and heads of the view -/

theorem cn_viewRows_length : ∀ (t : Tree) (off up : Nat) (pre : List Str) (k : Nat),
    (viewRows t off up pre k).length = t.numLeaves
  | .leaf .., _, _, _, _ => rfl
  | .un _ _ _ ch, off, up, pre, k => cn_viewRows_length ch off up _ _
  | .bin _ _ _ h l r, off, up, pre, k => by
    simp only [viewRows, List.length_append, cn_viewRows_length, Tree.numLeaves]

theorem cn_range_add (n m off : Nat) :
    (List.range (n + m)).map (· + off + 1) =
      (List.range n).map (· + off + 1) ++ (List.range m).map (· + (off + n) + 1) := by
  rw [List.range_add, List.map_append, List.map_map]
  congr 1
  apply List.map_congr_left
  intro a _
  simp only [Function.comp]
  omega

theorem cn_viewRows_ids : ∀ (t : Tree) (off up : Nat) (pre : List Str) (k : Nat),
    (viewRows t off up pre k).map (·.id) = (List.range t.numLeaves).map (· + off + 1)
  | .leaf .., off, _, _, _ => by simp [viewRows, Tree.numLeaves]
  | .un _ _ _ ch, off, up, pre, k => cn_viewRows_ids ch off up _ _
  | .bin _ _ _ h l r, off, up, pre, k => by
    simp only [viewRows, List.map_append, cn_viewRows_ids, Tree.numLeaves, cn_range_add]

theorem cn_viewRows_heads : ∀ (t : Tree) (off : Nat) (u : Option Nat) (pre : List Str) (k : Nat),
    (viewRows t off (depNum u) pre k).map (·.head) = (rawHeads t off u).map depNum
  | .leaf .., off, _, _, _ => by simp [viewRows, rawHeads]
  | .un _ _ _ ch, off, u, pre, k => cn_viewRows_heads ch off u _ _
  | .bin _ _ _ h l r, off, u, pre, k => by
    simp only [viewRows, rawHeads, List.map_append, ← cn_depNum_if, ← cn_depNum_if',
      cn_viewRows_heads]

theorem cn_viewConll_heads (t : Tree) :
    (viewConll t).map (·.head) = (resolveDeps t []).2.map depNum := by
  rw [cn_resolveDeps_raw]
  exact cn_viewRows_heads t 0 none [] 0

theorem cn_viewConll_roots (t : Tree) :
    ((viewConll t).filter fun r => r.head == 0).length =
      ((resolveDeps t []).2.filter (· == none)).length := by
  have h1 : ((viewConll t).filter fun r => r.head == 0).length =
      (((viewConll t).map (·.head)).filter (· == 0)).length := by
    rw [List.filter_map, List.length_map]
    rfl
  rw [h1, cn_viewConll_heads, List.filter_map, List.length_map]
  congr 1
  apply List.filter_congr
  intro d _
  cases d <;> rfl

/-- row `i` of the view: its id and its head -/
theorem cn_viewConll_row (t : Tree) (i : Nat) (r : ConllRow) (h : (viewConll t)[i]? = some r) :
    i < t.numLeaves ∧ r.id = i + 1 ∧ ((resolveDeps t []).2[i]?).map depNum = some r.head := by
  have hlt : i < t.numLeaves := by
    have := (List.getElem?_eq_some_iff.1 h).1
    rwa [viewConll, cn_viewRows_length] at this
  refine ⟨hlt, ?_, ?_⟩
  · have h1 : ((viewConll t).map (·.id))[i]? = some r.id := by rw [List.getElem?_map, h]; rfl
    rw [viewConll, cn_viewRows_ids, List.getElem?_map, List.getElem?_range hlt] at h1
    simpa using h1.symm
  · have h1 : ((viewConll t).map (·.head))[i]? = some r.head := by rw [List.getElem?_map, h]; rfl
    rw [cn_viewConll_heads, List.getElem?_map] at h1
    exact h1

theorem cn_numberedFrom_append : ∀ (a b : List ConllRow) (s : Nat),
    conllNumberedFrom s (a ++ b) = (conllNumberedFrom s a && conllNumberedFrom (s + a.length) b)
  | [], b, s => by simp [conllNumberedFrom]
  | r :: a, b, s => by
    simp only [List.cons_append, conllNumberedFrom, cn_numberedFrom_append a b (s + 1), List.length_cons,
      Bool.and_assoc]
    congr 3
    omega

theorem cn_viewRows_numbered : ∀ (t : Tree) (off up : Nat) (pre : List Str) (k : Nat),
    conllNumberedFrom (off + 1) (viewRows t off up pre k) = true
  | .leaf .., off, _, _, _ => by simp [viewRows, conllNumberedFrom]
  | .un _ _ _ ch, off, up, pre, k => cn_viewRows_numbered ch off up _ _
  | .bin _ _ _ h l r, off, up, pre, k => by
    simp only [viewRows, cn_numberedFrom_append, cn_viewRows_numbered, cn_viewRows_length,
      Bool.true_and]
    have e : off + 1 + l.numLeaves = off + l.numLeaves + 1 := by omega
    rw [e]
    exact cn_viewRows_numbered r _ _ _ _

/-! ### the fragments -/

theorem cn_frontText_snoc (pre : List Str) (x : Str) :
    C08.frontText 32 (pre ++ [x]) = C08.frontText 32 pre ++ x ++ [32] := by
  simp [C08.frontText]

/-- the fragments of a subtree, joined by blanks: the pending openers, the AUTO text of the
    subtree, the closers -/
theorem cn_frags_spec : ∀ (t : Tree) (off up : Nat) (pre : List Str) (k : Nat),
    sp ((viewRows t off up pre k).map (·.fragment)) = C08.frontText 32 pre ++ autoU t ++ closers k
  | .leaf c tok _ _, off, up, pre, k => by
    simp only [viewRows, List.map_cons, List.map_nil, C08.sp_single, autoU]
    rw [sp, cSpace, C08.joinSep_snoc]
  | .un c _ _ ch, off, up, pre, k => by
    rw [viewRows, cn_frags_spec ch off up _ _, cn_frontText_snoc, autoU, cn_closers_succ]
    simp [sp, joinSep, cSpace, C08.lit_sprpar, C08.lit_rpar]
  | .bin c _ _ h l r, off, up, pre, k => by
    rw [viewRows, List.map_append, sp, cSpace,
      C08.joinSep_append 32 (by simpa using cn_viewRows_ne_nil _ _ _ _ _)
        (by simpa using cn_viewRows_ne_nil _ _ _ _ _)]
    have hl := cn_frags_spec l off (if h then up else headIdx r (off + l.numLeaves) + 1)
      (pre ++ [binOpener c h]) 0
    have hr := cn_frags_spec r (off + l.numLeaves) (if h then headIdx l off + 1 else up) [] (k + 1)
    simp only [sp, cSpace] at hl hr
    rw [hl, hr, cn_frontText_snoc, autoU, cn_closers_succ]
    simp [sp, joinSep, cSpace, C08.lit_sprpar, C08.lit_rpar, closers, C08.frontText]

theorem cn_unOpener_eq (c : Cat) : unOpener c = C08.unHead c := C08.sp_unHead c
theorem cn_binOpener_eq (c : Cat) (h : Bool) : binOpener c h = C08.binHead c h := C08.sp_binHead c h

/-- with a tag on every token the table's spelling of the AUTO line is the AUTO line -/
theorem cn_autoU_of_autoOf : ∀ (t : Tree) (s : Str),
    AllToks (fun tok => ∃ p, Token.get? tok (lit "pos") = some p) t → autoOf t = .ok s → autoU t = s
  | .leaf c tok _ _, s, hp, hs => by
    obtain ⟨w, hw, rfl⟩ := C08.autoOf_leaf_inv hs
    obtain ⟨p, hp⟩ : ∃ p, Token.get? tok (lit "pos") = some p := hp
    simp only [autoU, leafFrag, C08.getD_of_get? hp, C08.getD_of_get? (C08.get_ok_iff.1 hw),
      C08.sp_leaf]
  | .un c _ _ ch, s, hp, hs => by
    obtain ⟨s', hs', rfl⟩ := C08.autoOf_un_inv hs
    rw [autoU, cn_autoU_of_autoOf ch s' hp hs', cn_unOpener_eq]
    simp [sp, joinSep, cSpace, C08.unText, C08.lit_rpar]
  | .bin c _ _ h l r, s, hp, hs => by
    obtain ⟨sl, sr, hl, hr, rfl⟩ := C08.autoOf_bin_inv hs
    rw [autoU, cn_autoU_of_autoOf l sl hp.1 hl, cn_autoU_of_autoOf r sr hp.2 hr, cn_binOpener_eq]
    simp [sp, joinSep, cSpace, C08.binText, C08.lit_rpar]

/-- a sufficient, decidable form of `TokCells`: every attribute value is a cell -/
theorem cn_tokCells_of_all {tok : Token} (h : ∀ kv ∈ tok, Cell kv.2) : TokCells tok :=
  fun _ _ _ hv => h _ (C08.get?_mem hv)

/-- `TokOK` / `CatOK` (Props/TextDefs.lean) are stronger than what the table needs -/
theorem cn_tokCells_of_tokOK {tok : Token} (h : TokOK tok) : TokCells tok :=
  cn_tokCells_of_all fun kv hkv =>
    ⟨fun hm => (h.2 kv hkv).2 9 hm |>.2.1 rfl, fun hm => (h.2 kv hkv).2 10 hm |>.2.2.1 rfl⟩

theorem cn_cell_of_catOK {c : Cat} (h : CatOK c) : Cell c.str :=
  ⟨fun hm => (h.2.2 9 hm).1 rfl, fun hm => (h.2.2 10 hm).2.1 rfl⟩

/-! ### the converse: a table that reads back to the view has cells everywhere -/

theorem cn_splitOnAux_length (c : Nat) : ∀ (s acc : Str),
    (splitOnAux c acc s).length = s.count c + 1
  | [], acc => by simp [splitOnAux]
  | x :: xs, acc => by
    simp only [splitOnAux]
    split
    · next h => rw [List.length_cons, cn_splitOnAux_length c xs [], h]; simp
    · next h =>
      rw [cn_splitOnAux_length c xs (x :: acc), List.count_cons_of_ne (fun e => h e)]

theorem cn_splitOn_length (c : Nat) (s : Str) : (splitOn c s).length = s.count c + 1 :=
  cn_splitOnAux_length c s []

theorem cn_count_joinSep (sep : Nat) : ∀ (parts : List Str), parts ≠ [] →
    (joinSep sep parts).count sep + 1 = parts.length + (parts.map (·.count sep)).sum
  | [], h => absurd rfl h
  | [x], _ => by simp [joinSep]; omega
  | x :: y :: rest, _ => by
    have ih := cn_count_joinSep sep (y :: rest) (by simp)
    simp only [joinSep, List.count_append, List.count_cons_self, List.length_cons, List.map_cons,
      List.sum_cons] at ih ⊢
    omega

theorem cn_sum_zero : ∀ (l : List Nat), l.sum = 0 → ∀ x ∈ l, x = 0
  | [], _, x, hx => by cases hx
  | a :: l, h, x, hx => by
    simp only [List.sum_cons] at h
    rcases List.mem_cons.1 hx with rfl | hx
    · omega
    · exact cn_sum_zero l (by omega) x hx

/-- if joining and splitting again gives as many parts as before, no part contains the separator -/
theorem cn_parts_free (sep : Nat) (parts : List Str) (hne : parts ≠ [])
    (h : (splitOn sep (joinSep sep parts)).length = parts.length) : ∀ p ∈ parts, sep ∉ p := by
  rw [cn_splitOn_length] at h
  have h2 := cn_count_joinSep sep parts hne
  intro p hp
  have := cn_sum_zero _ (by omega : (parts.map (·.count sep)).sum = 0) (p.count sep)
    (List.mem_map.2 ⟨p, hp, rfl⟩)
  exact List.count_eq_zero.1 this

theorem cn_decRows_length : ∀ (ls : List Str) (rows : List ConllRow),
    decConllRows ls = some rows → ls.length = rows.length ∧ ∀ l ∈ ls, ∃ r, decConllRow l = some r
  | [], rows, h => by
    simp only [decConllRows, Option.some.injEq] at h
    subst h
    exact ⟨rfl, fun _ h => by cases h⟩
  | l :: ls, rows, h => by
    simp only [decConllRows] at h
    split at h
    · next r rs h1 h2 =>
      cases h
      obtain ⟨ih1, ih2⟩ := cn_decRows_length ls rs h2
      refine ⟨by simp [ih1], ?_⟩
      intro l' hl'
      rcases List.mem_cons.1 hl' with rfl | hl'
      · exact ⟨r, h1⟩
      · exact ih2 l' hl'
    · cases h

theorem cn_decRow_columns {l : Str} {r : ConllRow} (h : decConllRow l = some r) :
    (splitOn 9 l).length = 10 := by
  unfold decConllRow at h
  split at h
  · next heq => rw [heq]; rfl
  · cases h

theorem cn_mem_joinSep_of_mem {sep c : Nat} : ∀ {parts : List Str} {p : Str}, p ∈ parts → c ∈ p →
    c ∈ joinSep sep parts
  | [], _, hp, _ => by cases hp
  | [x], p, hp, hc => by
    simp only [List.mem_singleton] at hp
    subst hp
    exact hc
  | x :: y :: rest, p, hp, hc => by
    simp only [joinSep, List.mem_append, List.mem_cons]
    rcases List.mem_cons.1 hp with rfl | hp
    · exact Or.inl hc
    · exact Or.inr (Or.inr (cn_mem_joinSep_of_mem hp hc))

/-- a table that reads back to as many rows as it was made of has cells in all columns -/
theorem cn_rows_ok_of_dec (rows rows' : List ConllRow) (hne : rows ≠ [])
    (hlen : rows'.length = rows.length)
    (h : decConll (joinSep 10 (rows.map render)) = some rows') : ∀ r ∈ rows, RowOK r := by
  unfold decConll at h
  obtain ⟨h1, _⟩ := cn_decRows_length _ _ h
  have hne' : rows.map render ≠ [] := by simpa using hne
  have hfree := cn_parts_free 10 (rows.map render) hne' (by rw [h1, hlen, List.length_map])
  rw [splitOn_joinSep 10 _ hne' hfree] at h
  obtain ⟨_, h2⟩ := cn_decRows_length _ _ h
  intro r hr
  obtain ⟨r', hr'⟩ := h2 (render r) (List.mem_map.2 ⟨r, hr, rfl⟩)
  have hcol := cn_decRow_columns hr'
  have h9 := cn_parts_free 9 [Str.ofNat r.id, r.word, r.lemma, r.pos, r.pos2, lit "_", Str.ofNat r.head,
    r.cat, lit "_", r.fragment] (by simp) hcol
  have h10 : ∀ f ∈ [Str.ofNat r.id, r.word, r.lemma, r.pos, r.pos2, lit "_", Str.ofNat r.head, r.cat,
      lit "_", r.fragment], 10 ∉ f :=
    fun f hf hm => hfree (render r) (List.mem_map.2 ⟨r, hr, rfl⟩) (cn_mem_joinSep_of_mem hf hm)
  simp only [List.forall_mem_cons] at h9 h10
  exact ⟨⟨h9.2.1, h10.2.1⟩, ⟨h9.2.2.1, h10.2.2.1⟩, ⟨h9.2.2.2.1, h10.2.2.2.1⟩,
    ⟨h9.2.2.2.2.1, h10.2.2.2.2.1⟩, ⟨h9.2.2.2.2.2.2.2.1, h10.2.2.2.2.2.2.2.1⟩,
    ⟨h9.2.2.2.2.2.2.2.2.2.1, h10.2.2.2.2.2.2.2.2.2.1⟩⟩

theorem cn_cell_of_append {a b : Str} (h : Cell (a ++ b)) : Cell a ∧ Cell b :=
  ⟨⟨fun hm => h.1 (List.mem_append_left _ hm), fun hm => h.2 (List.mem_append_left _ hm)⟩,
   ⟨fun hm => h.1 (List.mem_append_right _ hm), fun hm => h.2 (List.mem_append_right _ hm)⟩⟩

theorem cn_cell_of_sp {parts : List Str} (h : Cell (sp parts)) : ∀ p ∈ parts, Cell p :=
  fun _ hp => ⟨fun hm => h.1 (cn_mem_joinSep_of_mem hp hm), fun hm => h.2 (cn_mem_joinSep_of_mem hp hm)⟩

theorem cn_mem_replaceChar {old c : Nat} {new : Str} (hc : c ≠ old) : ∀ {s : Str}, c ∈ s →
    c ∈ replaceChar old new s
  | [], h => by cases h
  | x :: xs, h => by
    simp only [replaceChar]
    split
    · next hx =>
      rcases List.mem_cons.1 h with rfl | h
      · exact absurd hx hc
      · exact List.mem_append_right _ (cn_mem_replaceChar hc h)
    · rcases List.mem_cons.1 h with rfl | h
      · exact List.mem_cons_self
      · exact List.mem_cons_of_mem _ (cn_mem_replaceChar hc h)

theorem cn_mem_denormalize {w : Str} {c : Nat} (h : c ∈ w) (h1 : c ∉ C08.brackets) (h2 : c ≠ cLt)
    (h3 : c ≠ cGt) : c ∈ denormalize w := by
  rcases C08.denormalize_cases w with ⟨⟨b, hb, rfl⟩, _⟩ | ⟨_, he⟩
  · simp only [List.mem_singleton] at h
    subst h
    exact absurd hb h1
  · rw [he]
    exact cn_mem_replaceChar h2 (cn_mem_replaceChar h3 h)

theorem cn_cell_of_denormalize {w : Str} (h : Cell (denormalize w)) : Cell w :=
  ⟨fun hm => h.1 (cn_mem_denormalize hm (by decide) (by decide) (by decide)),
   fun hm => h.2 (cn_mem_denormalize hm (by decide) (by decide) (by decide))⟩

theorem cn_viewRows_ok_conv : ∀ (t : Tree) (off up : Nat) (pre : List Str) (k : Nat),
    (∀ r ∈ viewRows t off up pre k, RowOK r) →
    (∀ e ∈ pre, Cell e) ∧ AllCats (fun c => Cell c.str) t ∧ AllToks TokCells t
  | .leaf c tok _ _, off, up, pre, k, h => by
    simp only [viewRows, List.mem_singleton, forall_eq] at h
    obtain ⟨hw, hl, hp, _, hc, hf⟩ := h
    refine ⟨fun e he => cn_cell_of_sp (cn_cell_of_append hf).1 e (List.mem_append_left _ he), hc, ?_⟩
    intro key hkey v hv
    simp only [List.mem_cons, List.not_mem_nil, or_false] at hkey
    rcases hkey with rfl | rfl | rfl
    · rw [C08.getD_of_get? hv] at hw; exact cn_cell_of_denormalize hw
    · rw [C08.getD_of_get? hv] at hl; exact hl
    · rw [C08.getD_of_get? hv] at hp; exact hp
  | .un c _ _ ch, off, up, pre, k, h => by
    obtain ⟨h1, h2, h3⟩ := cn_viewRows_ok_conv ch off up (pre ++ [unOpener c]) (k + 1) h
    have hc : Cell c.str := cn_cell_of_sp (h1 (unOpener c) (by simp)) c.str (by simp)
    exact ⟨fun e he => h1 e (List.mem_append_left _ he), ⟨hc, h2⟩, h3⟩
  | .bin c _ _ hh l r, off, up, pre, k, h => by
    simp only [viewRows, List.mem_append] at h
    obtain ⟨h1, h2, h3⟩ := cn_viewRows_ok_conv l off _ (pre ++ [binOpener c hh]) 0
      (fun r' hr' => h r' (Or.inl hr'))
    obtain ⟨_, h5, h6⟩ := cn_viewRows_ok_conv r _ _ [] (k + 1) (fun r' hr' => h r' (Or.inr hr'))
    have hc : Cell c.str := cn_cell_of_sp (h1 (binOpener c hh) (by simp)) c.str (by simp)
    exact ⟨fun e he => h1 e (List.mem_append_left _ he), ⟨hc, h2, h5⟩, h3, h6⟩

theorem cn_allCats_mono {p q : Cat → Prop} (h : ∀ c, p c → q c) : ∀ t : Tree, AllCats p t → AllCats q t
  | .leaf .., hc => h _ hc
  | .un _ _ _ ch, hc => ⟨h _ hc.1, cn_allCats_mono h ch hc.2⟩
  | .bin _ _ _ _ l r, hc => ⟨h _ hc.1, cn_allCats_mono h l hc.2.1, cn_allCats_mono h r hc.2.2⟩

theorem cn_allToks_mono {p q : Token → Prop} (h : ∀ c, p c → q c) : ∀ t : Tree, AllToks p t → AllToks q t
  | .leaf .., hc => h _ hc
  | .un _ _ _ ch, hc => cn_allToks_mono h ch hc
  | .bin _ _ _ _ l r, hc => ⟨cn_allToks_mono h l hc.1, cn_allToks_mono h r hc.2⟩

/-! ### the token columns, over the leaves -/

theorem cn_viewRows_columns : ∀ (t : Tree) (off up : Nat) (pre : List Str) (k : Nat),
    (viewRows t off up pre k).map (fun r => (r.word, r.lemma, r.pos, r.pos2)) =
      t.tokens.map (fun tok =>
        (denormalize (Token.getD tok (lit "word") []), Token.getD tok (lit "lemma") (lit "_"),
          Token.getD tok (lit "pos") (lit "_"), Token.getD tok (lit "pos") (lit "_"))) ∧
    (viewRows t off up pre k).map (·.cat) = t.leaves.map (·.cat.str)
  | .leaf .., _, _, _, _ => ⟨rfl, rfl⟩
  | .un _ _ _ ch, off, up, pre, k => cn_viewRows_columns ch off up _ _
  | .bin _ _ _ h l r, off, up, pre, k => by
    simp only [viewRows, List.map_append, Tree.tokens, Tree.leaves,
      (cn_viewRows_columns l _ _ _ _).1, (cn_viewRows_columns l _ _ _ _).2,
      (cn_viewRows_columns r _ _ _ _).1, (cn_viewRows_columns r _ _ _ _).2, and_self]

end Depccg.C07
