/-
  Lemmas for `--format deriv` at the level of the whole output: the lines of a block, the run of
  `Read.decBlockDoc` over the lines of one record and of all records, the lines of a printed
  derivation.
-/
import Depccg.Props.MainDerivDefs
import Depccg.Proofs.MainLineLemmas
import Depccg.Proofs.C07DerivLemmas

namespace Depccg.CliProps
open Depccg Str Search GlueRun Lazy Print Cli LazyProps Read C07 TextProps FileProps

/-! ### the lines of a block -/

theorem md_blockText_cons (l : Str) (ls : List Str) :
    blockText (l :: ls) = l ++ 10 :: blockText ls := by
  simp [blockText]

theorem md_blockText_append (a b : List Str) : blockText (a ++ b) = blockText a ++ blockText b := by
  simp [blockText]

theorem md_split_block : ∀ (ls : List Str) (rest : Str), (∀ l ∈ ls, 10 ∉ l) →
    splitOn 10 (blockText ls ++ rest) = ls ++ splitOn 10 rest
  | [], _, _ => rfl
  | l :: ls, rest, h => by
    rw [md_blockText_cons, List.append_assoc, List.cons_append,
      C05.splitOn_sep 10 _ _ (h l (by simp)), md_split_block ls rest (fun x hx => h x (by simp [hx]))]
    rfl

/-- the lines of the header and the block of one record, followed by the rest of the text -/
theorem md_lines_record (n : Nat) (sc : Str) (ls : List Str) (rest : Str) (hsc : 10 ∉ sc)
    (hls : ∀ l ∈ ls, 10 ∉ l) :
    splitOn 10 (header false n sc ++ [10] ++ blockText ls ++ [10] ++ rest) =
      header false n sc :: (ls ++ [] :: splitOn 10 rest) := by
  have h1 : header false n sc ++ [10] ++ blockText ls ++ [10] ++ rest =
      header false n sc ++ 10 :: (blockText ls ++ ([] ++ 10 :: rest)) := by simp
  rw [h1, C05.splitOn_sep 10 _ _ (ml_header_no10 n sc hsc), md_split_block ls _ hls,
    C05.splitOn_sep 10 _ _ (by simp)]

/-! ### the run over the lines of one record -/

theorem md_run_lines : ∀ (ls : List Str), (∀ l ∈ ls, l ≠ []) →
    ∀ (n : Nat) (s : Str) (rows : List Str) (acc : List BlockRecord) (more : List Str),
    blockDocRun (.block n s rows) acc (ls ++ more) =
      blockDocRun (.block n s (ls.reverse ++ rows)) acc more
  | [], _ => fun _ _ _ _ _ => rfl
  | l :: ls, h => by
    intro n s rows acc more
    have hl : l.isEmpty = false := by
      cases l with
      | nil => exact absurd rfl (h [] (by simp))
      | cons _ _ => rfl
    simp only [List.cons_append, blockDocRun, blockDocStep, hl, Bool.false_eq_true, if_false]
    rw [md_run_lines ls (fun x hx => h x (by simp [hx]))]
    simp

theorem md_run_record (n : Nat) (sc : Str) (ls : List Str) (hne : ls ≠ []) (hls : ∀ l ∈ ls, l ≠ [])
    (acc : List BlockRecord) (more : List Str) :
    blockDocRun .between acc (header false n sc :: (ls ++ [] :: more)) =
      blockDocRun .between ((n, sc, blockText ls) :: acc) more := by
  have h1 : blockDocRun .between acc (header false n sc :: (ls ++ [] :: more)) =
      blockDocRun (.block n sc []) acc (ls ++ [] :: more) := by
    simp only [blockDocRun, blockDocStep, ml_header_ne_nil, Bool.false_eq_true, if_false,
      ml_decHeader]
  rw [h1, md_run_lines ls hls, List.append_nil]
  cases hr : ls.reverse with
  | nil => exact absurd (List.reverse_eq_nil_iff.1 hr) hne
  | cons x xs =>
    simp only [blockDocRun, blockDocStep, List.isEmpty_nil, if_true]
    rw [← hr, List.reverse_reverse]

theorem md_run_empty (acc : List BlockRecord) (more : List Str) :
    blockDocRun .between acc ([] :: more) = blockDocRun .between acc more := by
  simp only [blockDocRun, blockDocStep, List.isEmpty_nil, if_true]

theorem md_run_end : ∀ (tail : List Str) (acc : List BlockRecord),
    tail.all (fun l => l.isEmpty) = true → blockDocRun .between acc tail = some acc.reverse
  | [], _, _ => rfl
  | l :: tail, acc, h => by
    simp only [List.all_cons, Bool.and_eq_true] at h
    cases l with
    | nil => rw [md_run_empty]; exact md_run_end tail acc h.2
    | cons x xs => cases h.1

/-! ### the run over the printed records -/

/-- a block, by its lines -/
theorem md_isBlock_lines {s : Str} (h : IsBlock s) :
    ∃ ls : List Str, ls ≠ [] ∧ (∀ l ∈ ls, l ≠ []) ∧ (∀ l ∈ ls, 10 ∉ l) ∧ s = blockText ls := by
  obtain ⟨ls, h1, h2, h3⟩ := h
  exact ⟨ls, h1, fun l hl => (h2 l hl).1, fun l hl => (h2 l hl).2, h3⟩

/-- the condition on one record -/
def BlockOK (fmt : Tree → Except Err Str) (p : Nat × (Tree × Str)) : Prop :=
  10 ∉ p.2.2 ∧ ∀ s, fmt p.2.1 = .ok s → IsBlock s

/-- the run over the lines of the printed records (the last line is the empty one after the last
    newline): the reader is between two records again and has collected one record per tree -/
theorem md_run_recs (fmt : Tree → Except Err Str) : ∀ (recs : List (Nat × (Tree × Str))) (text : Str),
    (∀ p ∈ recs, BlockOK fmt p) →
    catExcept (fun (p : Nat × (Tree × Str)) =>
      (fmt p.2.1).map fun s => header false p.1 p.2.2 ++ [10] ++ s ++ [10]) recs = .ok text →
    ∃ out, Forall2 (LineRecOf fmt) recs out ∧
      ∀ (acc : List BlockRecord) (tail : List Str),
        blockDocRun .between acc (splitOn 10 text ++ tail) =
          blockDocRun .between (out.reverse ++ acc) tail
  | [], text, _, h => by
    simp only [catExcept, Except.ok.injEq] at h
    subst h
    refine ⟨[], .nil, fun acc tail => ?_⟩
    rw [fl_splitOn_nil, List.cons_append, List.nil_append, md_run_empty]
    rfl
  | p :: recs, text, hok, h => by
    simp only [catExcept] at h
    cases hc : fmt p.2.1 with
    | error e => rw [hc] at h; cases h
    | ok s =>
      rw [hc] at h
      simp only [Except.map] at h
      split at h
      · cases h
      · next rtext hr =>
        cases h
        obtain ⟨h3, h4⟩ := hok p (by simp)
        obtain ⟨ls, hne, hls, hnl, rfl⟩ := md_isBlock_lines (h4 s hc)
        obtain ⟨out, hf, hrun⟩ := md_run_recs fmt recs rtext (fun q hq => hok q (by simp [hq])) hr
        refine ⟨(p.1, p.2.2, blockText ls) :: out, .cons ⟨rfl, rfl, hc⟩ hf, fun acc tail => ?_⟩
        rw [md_lines_record p.1 p.2.2 ls rtext h3 hnl, List.cons_append, List.append_assoc,
          List.cons_append, md_run_record p.1 p.2.2 ls hne hls, hrun]
        simp

theorem md_blockOK_numbered (fmt : Tree → Except Err Str) (batch : List (List (Tree × Str)))
    (h : ∀ ts ∈ batch, ∀ p ∈ ts, 10 ∉ p.2 ∧ ∀ s, fmt p.1 = .ok s → IsBlock s) :
    ∀ p ∈ numbered batch, BlockOK fmt p := by
  intro p hp
  obtain ⟨ts, hts, hm⟩ := fl_numbered_mem batch p hp
  exact h ts hts p.2 hm

/-- the run over the whole printed text, with the empty lines that may follow -/
theorem md_run_doc (fmt : Tree → Except Err Str) (batch : List (List (Tree × Str))) (text : Str)
    (h : ∀ ts ∈ batch, ∀ p ∈ ts, 10 ∉ p.2 ∧ ∀ s, fmt p.1 = .ok s → IsBlock s)
    (hp : toStringLines fmt false batch = .ok text) :
    ∃ out, Forall2 (LineRecOf fmt) (numbered batch) out ∧
      ∀ (tail : List Str), tail.all (fun l => l.isEmpty) = true →
        blockDocRun .between [] (splitOn 10 text ++ tail) = some out := by
  obtain ⟨out, hf, hrun⟩ := md_run_recs fmt (numbered batch) text (md_blockOK_numbered fmt batch h) hp
  refine ⟨out, hf, fun tail ht => ?_⟩
  rw [hrun, md_run_end _ _ ht]
  simp

/-! ### a printed derivation, by its lines -/

theorem md_dd_rule_ne (lw wd : Nat) (y : Str) (hwd : 0 < wd) : dd_rule lw wd y ≠ [] := by
  obtain ⟨n, rfl⟩ : ∃ n, wd = n + 1 := ⟨wd - 1, by omega⟩
  simp [dd_rule, List.replicate_succ]

theorem md_dd_catLine_ne (p : Int) (cat : Str) (hc : cat ≠ []) : dd_catLine p cat ≠ [] := by
  simp [dd_catLine, hc]

/-- the rule lines are the text of their lines -/
theorem md_ruleLines_text : ∀ (t : Tree) (lw : Nat), ruleLines t lw = blockText (dd_lines t lw)
  | .leaf .., _ => rfl
  | .un c _ y ch, lw => by
    simp only [ruleLines, dd_lines, md_blockText_append, md_blockText_cons, md_ruleLines_text ch lw,
      dd_rule, dd_catLine]
    simp [blockText]
  | .bin c _ y _ l r, lw => by
    simp only [ruleLines, dd_lines, md_blockText_append, md_blockText_cons, md_ruleLines_text l lw,
      md_ruleLines_text r (lw + width l), dd_rule, dd_catLine]
    simp [blockText]

/-- every rule line and category line is non-empty and holds no newline -/
theorem md_dd_lines_ok : ∀ (t : Tree) (lw : Nat), AllCats (fun c => Field c.str) t → SymsOK t →
    ∀ l ∈ dd_lines t lw, l ≠ [] ∧ 10 ∉ l
  | .leaf .., _, _, _, l, hl => by simp [dd_lines] at hl
  | .un c _ y ch, lw, hc, hy, l, hl => by
    simp only [dd_lines, List.mem_append, List.mem_cons, List.not_mem_nil, or_false] at hl
    rcases hl with hl | rfl | rfl
    · exact md_dd_lines_ok ch lw hc.2 hy.2 l hl
    · exact ⟨md_dd_rule_ne _ _ _ (dd_width_pos ch), dd_rule_noNL _ _ _ hy.1.noNL⟩
    · exact ⟨md_dd_catLine_ne _ _ hc.1.1, dd_catLine_noNL _ _ hc.1.noNL⟩
  | .bin c _ y _ l' r, lw, hc, hy, l, hl => by
    simp only [dd_lines, List.mem_append, List.mem_cons, List.not_mem_nil, or_false] at hl
    rcases hl with hl | hl | rfl | rfl
    · exact md_dd_lines_ok l' lw hc.2.1 hy.2.1 l hl
    · exact md_dd_lines_ok r _ hc.2.2 hy.2.2 l hl
    · have := dd_width_pos l'
      exact ⟨md_dd_rule_ne _ _ _ (by omega), dd_rule_noNL _ _ _ hy.1.noNL⟩
    · exact ⟨md_dd_catLine_ne _ _ hc.1.1, dd_catLine_noNL _ _ hc.1.noNL⟩

theorem md_dd_cw_ne : ∀ (t : Tree), dd_cw t ≠ []
  | .leaf .. => by simp [dd_cw]
  | .un _ _ _ ch => md_dd_cw_ne ch
  | .bin _ _ _ _ l r => by
    simp only [dd_cw, ne_eq, List.append_eq_nil_iff, not_and]
    exact fun h => absurd h (md_dd_cw_ne l)

/-- a stripped header line with a field is not empty -/
theorem md_rstrip_ne (s : Str) (h : fields s ≠ []) : rstripSp s ≠ [] := by
  intro h0
  apply h
  rw [← dd_fields_rstrip, h0]
  rfl

/-! ### `Forall2` -/

theorem md_forall2_imp {α β : Type} {R S : α → β → Prop} {as : List α} {bs : List β}
    (h : Forall2 R as bs) : (∀ a ∈ as, ∀ b, R a b → S a b) → Forall2 S as bs := by
  induction h with
  | nil => exact fun _ => .nil
  | cons hab _ ih =>
    exact fun hi => .cons (hi _ (by simp) _ hab) (ih (fun a ha => hi a (by simp [ha])))

end Depccg.CliProps
