/-
  Helper lemmas for the html (MathML) part of C07: escaping, the tokeniser `htmlTokens` on
  concatenations, and the reader on the token lists of printed subtrees.
-/
import Depccg.Print.Html

namespace Depccg.C07
open Depccg Str Print

/-! ### escaping -/

/-- the replacement of one character -/
def html_escChar (c : Nat) : Str :=
  if c == 38 then lit "&amp;" else if c == 60 then lit "&lt;" else if c == 62 then lit "&gt;"
  else if c == 34 then lit "&quot;" else if c == 39 then lit "&#x27;" else [c]

theorem html_escape_cons (c : Nat) (cs : Str) :
    htmlEscape (c :: cs) = html_escChar c ++ htmlEscape cs := rfl

theorem html_escChar_safe (c : Nat) :
    ∀ d ∈ html_escChar c, d ≠ 60 ∧ d ≠ 62 ∧ d ≠ 34 ∧ d ≠ 39 := by
  unfold html_escChar
  split
  · decide
  split
  · decide
  split
  · decide
  split
  · decide
  split
  · decide
  · intro d hd
    simp only [List.mem_singleton] at hd
    subst hd
    simp_all

theorem html_escape_safe_all : ∀ (s : Str), ∀ c ∈ htmlEscape s, c ≠ 60 ∧ c ≠ 62 ∧ c ≠ 34 ∧ c ≠ 39
  | [] => by intro c hc; cases hc
  | c :: cs => by
    intro d hd
    rw [html_escape_cons, List.mem_append] at hd
    rcases hd with hd | hd
    · exact html_escChar_safe c d hd
    · exact html_escape_safe_all cs d hd

theorem html_escape_no_lt (s : Str) : 60 ∉ htmlEscape s :=
  fun h => (html_escape_safe_all s 60 h).1 rfl

theorem html_escape_eq_nil {s : Str} (h : htmlEscape s = []) : s = [] := by
  cases s with
  | nil => rfl
  | cons c cs =>
    rw [html_escape_cons] at h
    have h1 : html_escChar c = [] := (List.append_eq_nil_iff.1 h).1
    exfalso
    revert h1
    unfold html_escChar
    split
    · decide
    split
    · decide
    split
    · decide
    split
    · decide
    split
    · decide
    · simp

theorem html_unescape_escape : ∀ (s : Str) (fuel : Nat), (htmlEscape s).length ≤ fuel →
    htmlUnescape (fuel + 1) (htmlEscape s) = s
  | [], fuel, _ => by simp [htmlEscape, htmlUnescape]
  | c :: cs, fuel, h => by
    rw [html_escape_cons] at h ⊢
    rw [List.length_append] at h
    unfold html_escChar at h ⊢
    by_cases h38 : c = 38
    · subst h38
      have h' : (htmlEscape cs).length ≤ fuel - 1 := by simp [lit] at h; omega
      have hf : fuel = (fuel - 1) + 1 := by simp [lit] at h; omega
      have := html_unescape_escape cs (fuel - 1) h'
      rw [hf]
      simp [htmlUnescape, unescapeEntity, lit, startsWith] at this ⊢
      exact this
    by_cases h60 : c = 60
    · subst h60
      have h' : (htmlEscape cs).length ≤ fuel - 1 := by simp [lit] at h; omega
      have hf : fuel = (fuel - 1) + 1 := by simp [lit] at h; omega
      have := html_unescape_escape cs (fuel - 1) h'
      rw [hf]
      simp [htmlUnescape, unescapeEntity, lit, startsWith] at this ⊢
      exact this
    by_cases h62 : c = 62
    · subst h62
      have h' : (htmlEscape cs).length ≤ fuel - 1 := by simp [lit] at h; omega
      have hf : fuel = (fuel - 1) + 1 := by simp [lit] at h; omega
      have := html_unescape_escape cs (fuel - 1) h'
      rw [hf]
      simp [htmlUnescape, unescapeEntity, lit, startsWith] at this ⊢
      exact this
    by_cases h34 : c = 34
    · subst h34
      have h' : (htmlEscape cs).length ≤ fuel - 1 := by simp [lit] at h; omega
      have hf : fuel = (fuel - 1) + 1 := by simp [lit] at h; omega
      have := html_unescape_escape cs (fuel - 1) h'
      rw [hf]
      simp [htmlUnescape, unescapeEntity, lit, startsWith] at this ⊢
      exact this
    by_cases h39 : c = 39
    · subst h39
      have h' : (htmlEscape cs).length ≤ fuel - 1 := by simp [lit] at h; omega
      have hf : fuel = (fuel - 1) + 1 := by simp [lit] at h; omega
      have := html_unescape_escape cs (fuel - 1) h'
      rw [hf]
      simp [htmlUnescape, unescapeEntity, lit, startsWith] at this ⊢
      exact this
    · have h' : (htmlEscape cs).length ≤ fuel - 1 := by simp [h38, h60, h62, h34, h39] at h; omega
      have hf : fuel = (fuel - 1) + 1 := by simp [h38, h60, h62, h34, h39] at h; omega
      have := html_unescape_escape cs (fuel - 1) h'
      rw [hf]
      simp [htmlUnescape, h38, h60, h62, h34, h39] at this ⊢
      exact this

theorem html_unesc_escape (s : Str) : unesc (htmlEscape s) = s :=
  html_unescape_escape s _ (Nat.le_refl _)

/-! ### the tokeniser -/

theorem html_length_dropWhile_le (p : Nat → Bool) (l : Str) : (l.dropWhile p).length ≤ l.length :=
  (List.dropWhile_suffix p).length_le

theorem html_tokens_mono : ∀ (f1 f2 : Nat) (s : Str), s.length ≤ f1 → s.length ≤ f2 →
    htmlTokens f1 s = htmlTokens f2 s
  | _, _, [], _, _ => by
    rename_i f1 f2
    cases f1 <;> cases f2 <;> rfl
  | 0, _, _ :: _, h, _ => by simp at h
  | _ + 1, 0, _ :: _, _, h => by simp at h
  | f1 + 1, f2 + 1, c :: cs, h1, h2 => by
    simp only [List.length_cons, Nat.add_le_add_iff_right] at h1 h2
    unfold htmlTokens
    split
    · congr 1
      apply html_tokens_mono
      · have := html_length_dropWhile_le (· != 62) cs
        simp only [List.length_drop]; omega
      · have := html_length_dropWhile_le (· != 62) cs
        simp only [List.length_drop]; omega
    · rename_i hc
      have hc' : c ≠ 60 := by simpa using hc
      have hd : ((c :: cs).dropWhile (· != 60)) = cs.dropWhile (· != 60) := by
        simp [hc']
      congr 1
      rw [hd]
      apply html_tokens_mono
      · have := html_length_dropWhile_le (· != 60) cs; omega
      · have := html_length_dropWhile_le (· != 60) cs; omega

/-- the fuel-free tokeniser -/
def html_toks (s : Str) : List HTok := htmlTokens s.length s

theorem html_tokens_eq_toks (s : Str) (f : Nat) (h : s.length ≤ f) : htmlTokens f s = html_toks s :=
  html_tokens_mono f s.length s h (Nat.le_refl _)

theorem html_takeWhile_ne (x : Nat) : ∀ (t k : Str), x ∉ t →
    (t ++ x :: k).takeWhile (· != x) = t ∧ (t ++ x :: k).dropWhile (· != x) = x :: k
  | [], k, _ => by simp
  | c :: cs, k, h => by
    have hc : c ≠ x := fun e => h (by simp [e])
    have ht : x ∉ cs := fun e => h (by simp [e])
    have := html_takeWhile_ne x cs k ht
    simp [hc, this]

theorem html_takeWhile_all (x : Nat) : ∀ (t : Str), x ∉ t →
    t.takeWhile (· != x) = t ∧ t.dropWhile (· != x) = []
  | [], _ => by simp
  | c :: cs, h => by
    have hc : c ≠ x := fun e => h (by simp [e])
    have ht : x ∉ cs := fun e => h (by simp [e])
    have := html_takeWhile_all x cs ht
    simp [hc, this]

/-- a continuation at which a text token may end: the end of the string or a `<` -/
def html_StartsOk (k : Str) : Prop := k = [] ∨ ∃ k', k = 60 :: k'

theorem html_startsOk_nil : html_StartsOk [] := Or.inl rfl
theorem html_startsOk_lt (k : Str) : html_StartsOk (60 :: k) := Or.inr ⟨k, rfl⟩

theorem html_toks_nil : html_toks [] = [] := rfl

theorem html_toks_tag (t k : Str) (ht : 62 ∉ t) :
    html_toks (60 :: (t ++ 62 :: k)) = HTok.tag t :: html_toks k := by
  have h := html_takeWhile_ne 62 t k ht
  show htmlTokens ((t ++ 62 :: k).length + 1) (60 :: (t ++ 62 :: k)) = _
  unfold htmlTokens
  simp only [h.1, h.2, List.drop_one, List.tail_cons]
  simp only [beq_self_eq_true, if_true]
  congr 1
  apply html_tokens_eq_toks
  simp only [List.length_append, List.length_cons]; omega

theorem html_toks_text (t k : Str) (hne : t ≠ []) (ht : 60 ∉ t) (hk : html_StartsOk k) :
    html_toks (t ++ k) = HTok.text t :: html_toks k := by
  have h : (t ++ k).takeWhile (· != 60) = t ∧ (t ++ k).dropWhile (· != 60) = k := by
    rcases hk with rfl | ⟨k', rfl⟩
    · simpa using html_takeWhile_all 60 t ht
    · exact html_takeWhile_ne 60 t k' ht
  cases t with
  | nil => exact absurd rfl hne
  | cons c cs =>
    have hc : (c == 60) = false := by
      have : c ≠ 60 := fun e => ht (by simp [e])
      simpa using this
    show htmlTokens ((c :: cs ++ k).length) (c :: cs ++ k) = _
    rw [List.cons_append] at h ⊢
    rw [List.length_cons]
    unfold htmlTokens
    simp only [hc, h.1, h.2]
    simp only [Bool.false_eq_true, if_false]
    congr 1
    apply html_tokens_eq_toks
    simp

/-- the tokens of a possibly empty text -/
def html_textToks (s : Str) : List HTok := if s.isEmpty then [] else [HTok.text s]

theorem html_toks_textToks (t k : Str) (ht : 60 ∉ t) (hk : html_StartsOk k) :
    html_toks (t ++ k) = html_textToks t ++ html_toks k := by
  cases t with
  | nil => simp [html_textToks]
  | cons c cs =>
    rw [html_toks_text _ _ (by simp) ht hk]
    simp [html_textToks]

/-- the text of a token -/
def html_render : HTok → Str
  | .tag t => 60 :: (t ++ [62])
  | .text t => t

def html_renderAll : List HTok → Str
  | [] => []
  | x :: xs => html_render x ++ html_renderAll xs

/-- well-formed token lists: no `>` in tags, texts non-empty and without `<`, no two
    adjacent texts -/
def html_wf : List HTok → Bool
  | [] => true
  | .tag t :: rest => !t.elem 62 && html_wf rest
  | [.text t] => !t.isEmpty && !t.elem 60
  | .text t :: .tag u :: rest => !t.isEmpty && !t.elem 60 && html_wf (.tag u :: rest)
  | .text _ :: .text _ :: _ => false

def html_endsInText : List HTok → Bool
  | [] => false
  | [.text _] => true
  | [.tag _] => false
  | _ :: y :: rest => html_endsInText (y :: rest)

theorem html_toks_renderAll : ∀ (l : List HTok) (k : Str), html_wf l = true →
    (html_endsInText l = true → html_StartsOk k) → html_toks (html_renderAll l ++ k) = l ++ html_toks k
  | [], k, _, _ => rfl
  | .tag t :: rest, k, hw, he => by
    simp only [html_wf, Bool.and_eq_true, Bool.not_eq_true', List.elem_eq_mem, decide_eq_false_iff_not] at hw
    have he' : html_endsInText rest = true → html_StartsOk k := by
      intro h; apply he
      cases rest with
      | nil => simp [html_endsInText] at h
      | cons y ys => simpa [html_endsInText] using h
    have ih := html_toks_renderAll rest k hw.2 he'
    show html_toks (60 :: (t ++ [62]) ++ html_renderAll rest ++ k) = _
    have : 60 :: (t ++ [62]) ++ html_renderAll rest ++ k = 60 :: (t ++ 62 :: (html_renderAll rest ++ k)) := by
      simp
    rw [this, html_toks_tag _ _ hw.1, ih]; rfl
  | [.text t], k, hw, he => by
    simp only [html_wf, Bool.and_eq_true, Bool.not_eq_true', List.elem_eq_mem, decide_eq_false_iff_not,
      List.isEmpty_eq_false_iff] at hw
    show html_toks (t ++ [] ++ k) = _
    rw [List.append_nil, html_toks_text t k hw.1 hw.2 (he rfl)]; rfl
  | .text t :: .tag u :: rest, k, hw, he => by
    simp only [html_wf, Bool.and_eq_true, Bool.not_eq_true', List.elem_eq_mem, decide_eq_false_iff_not,
      List.isEmpty_eq_false_iff] at hw
    have he' : html_endsInText (.tag u :: rest) = true → html_StartsOk k := by
      intro h; apply he; simpa [html_endsInText] using h
    have hw' : html_wf (.tag u :: rest) = true := by
      simp only [html_wf, Bool.and_eq_true, Bool.not_eq_true', List.elem_eq_mem, decide_eq_false_iff_not]
      exact hw.2
    have ih := html_toks_renderAll (.tag u :: rest) k hw' he'
    show html_toks (t ++ (60 :: (u ++ [62]) ++ html_renderAll rest) ++ k) = _
    have e : t ++ (60 :: (u ++ [62]) ++ html_renderAll rest) ++ k
        = t ++ 60 :: (u ++ [62] ++ html_renderAll rest ++ k) := by simp
    rw [e, html_toks_text t _ hw.1.1 hw.1.2 (html_startsOk_lt _)]
    show _ :: html_toks (html_renderAll (.tag u :: rest) ++ k) = _
    rw [ih]; rfl
  | .text _ :: .text _ :: _, _, hw, _ => by simp [html_wf] at hw

theorem html_startsOk_render (t : Str) (rest : List HTok) (x : Str) :
    html_StartsOk (html_renderAll (.tag t :: rest) ++ x) := Or.inr ⟨_, rfl⟩

def html_startsTag : List HTok → Bool
  | .tag _ :: _ => true
  | _ => false

theorem html_startsOk_piece (l : List HTok) (x : Str) (h : html_startsTag l = true) :
    html_StartsOk (html_renderAll l ++ x) := by
  cases l with
  | nil => cases h
  | cons a rest =>
    cases a with
    | tag t => exact html_startsOk_render t rest x
    | text t => cases h

/-! ### the literal pieces of the templates -/

def html_openT : List HTok :=
  [.tag (lit "mrow"), .text (lit "\n  "), .tag (lit "mfrac linethickness='2px'"), .text (lit "\n    "),
   .tag (lit "mtext mathsize='1.0' mathcolor='Black'")]
def html_nopenT : List HTok :=
  [.tag (lit "mrow"), .text (lit "\n  "), .tag (lit "mfrac  linethickness='2px'"), .text (lit "\n    "),
   .tag (lit "mrow")]
def html_midT : List HTok :=
  [.tag (lit "/mtext"), .text (lit "\n    "), .tag (lit "mstyle mathcolor='Red'")]
def html_nmidT : List HTok :=
  [.tag (lit "/mrow"), .text (lit "\n    "), .tag (lit "mstyle mathcolor='Red'")]
def html_afterT : List HTok :=
  [.tag (lit "/mstyle"), .text (lit "\n  "), .tag (lit "/mfrac"), .text (lit "\n  "),
   .tag (lit "mtext mathsize='0.8' mathcolor='Black'")]
def html_closeT : List HTok :=
  [.tag (lit "/mtext"), .text (lit "\n"), .tag (lit "/mrow"), .text (lit "\n")]
def html_redT : List HTok := [.tag tagMiRed]
def html_subRedT : List HTok := [.tag (lit "msub"), .tag tagMiRed]
def html_miCloseT : List HTok := [.tag (lit "/mi")]
def html_segMidT : List HTok :=
  [.tag (lit "/mi"), .text (lit "\n  "), .tag (lit "mrow"), .text (lit "\n  "), .tag tagMiPurple]
def html_segEndT : List HTok :=
  [.tag (lit "/mi"), .text (lit "\n  "), .tag (lit "/mrow"), .text (lit "\n"), .tag (lit "/msub")]

theorem html_termOpen_eq : termOpen = html_renderAll html_openT := by decide
theorem html_nontermOpen_eq : nontermOpen = html_renderAll html_nopenT := by decide
theorem html_mid_eq : lit "</mtext>" ++ midStyle = html_renderAll html_midT := by decide
theorem html_nmid_eq : lit "</mrow>" ++ midStyle = html_renderAll html_nmidT := by decide
theorem html_after_eq : afterStyle = html_renderAll html_afterT := by decide
theorem html_close_eq : subtreeClose = html_renderAll html_closeT := by decide
theorem html_red_eq : miRed = html_renderAll html_redT := by decide
theorem html_subRed_eq : lit "<msub>" ++ miRed = html_renderAll html_subRedT := by decide
theorem html_miClose_eq : lit "</mi>" = html_renderAll html_miCloseT := by decide
theorem html_segMid_eq : lit "</mi>" ++ (lit "\n  <mrow>\n  " ++ miPurple) = html_renderAll html_segMidT := by
  decide
theorem html_segEnd_eq : lit "</mi>\n  </mrow>\n</msub>" = html_renderAll html_segEndT := by decide

theorem html_openT_wf : html_wf html_openT = true ∧ html_endsInText html_openT = false := by decide
theorem html_nopenT_wf : html_wf html_nopenT = true ∧ html_endsInText html_nopenT = false := by decide
theorem html_midT_wf : html_wf html_midT = true ∧ html_endsInText html_midT = false := by decide
theorem html_nmidT_wf : html_wf html_nmidT = true ∧ html_endsInText html_nmidT = false := by decide
theorem html_afterT_wf : html_wf html_afterT = true ∧ html_endsInText html_afterT = false := by decide
theorem html_closeT_wf : html_wf html_closeT = true := by decide
theorem html_redT_wf : html_wf html_redT = true ∧ html_endsInText html_redT = false := by decide
theorem html_subRedT_wf : html_wf html_subRedT = true ∧ html_endsInText html_subRedT = false := by decide
theorem html_miCloseT_wf : html_wf html_miCloseT = true ∧ html_endsInText html_miCloseT = false := by decide
theorem html_segMidT_wf : html_wf html_segMidT = true ∧ html_endsInText html_segMidT = false := by decide
theorem html_segEndT_wf : html_wf html_segEndT = true ∧ html_endsInText html_segEndT = false := by decide

/-- a literal piece ending in a tag, before any continuation -/
theorem html_toks_piece (l : List HTok) (k : Str) (h : html_wf l = true ∧ html_endsInText l = false) :
    html_toks (html_renderAll l ++ k) = l ++ html_toks k :=
  html_toks_renderAll l k h.1 (fun e => by rw [h.2] at e; cases e)

/-! ### token lists of the printed pieces -/

def html_segToks (p : Str × Str) : List HTok :=
  if p.2.isEmpty then html_redT ++ (html_textToks (htmlEscape p.1) ++ html_miCloseT)
  else html_subRedT ++ (html_textToks (htmlEscape p.1) ++ (html_segMidT ++
    (html_textToks (htmlEscape p.2) ++ html_segEndT)))

def html_leafToks (w : Str) (segs : List (Str × Str)) : List HTok :=
  html_openT ++ (html_textToks (htmlEscape w) ++ (html_midT ++ (segs.flatMap html_segToks ++
    (html_afterT ++ (html_textToks (htmlEscape (lit "lex")) ++ html_closeT)))))

def html_nodeToks (op : Str) (segs : List (Str × Str)) (ch : List HTok) : List HTok :=
  html_nopenT ++ (ch ++ (html_nmidT ++ (segs.flatMap html_segToks ++
    (html_afterT ++ (html_textToks (htmlEscape op) ++ html_closeT)))))

theorem html_toks_seg (p : Str × Str) (k : Str) :
    html_toks (mathmlSeg p ++ k) = html_segToks p ++ html_toks k := by
  by_cases hp : p.2.isEmpty = true
  · have e : mathmlSeg p ++ k = html_renderAll html_redT ++ (htmlEscape p.1 ++
        (html_renderAll html_miCloseT ++ k)) := by
      simp only [mathmlSeg, hp, if_true, List.append_assoc, html_red_eq, html_miClose_eq]
    rw [e, html_toks_piece _ _ html_redT_wf,
      html_toks_textToks _ _ (html_escape_no_lt _) (html_startsOk_piece html_miCloseT _ rfl),
      html_toks_piece _ _ html_miCloseT_wf]
    simp only [html_segToks, hp, if_true, List.append_assoc]
  · have e : mathmlSeg p ++ k = html_renderAll html_subRedT ++ (htmlEscape p.1 ++
        (html_renderAll html_segMidT ++ (htmlEscape p.2 ++ (html_renderAll html_segEndT ++ k)))) := by
      simp only [mathmlSeg, hp, if_false, List.append_assoc, ← html_segMid_eq, ← html_segEnd_eq,
        ← html_subRed_eq, Bool.false_eq_true]
    rw [e, html_toks_piece _ _ html_subRedT_wf,
      html_toks_textToks _ _ (html_escape_no_lt _) (html_startsOk_piece html_segMidT _ rfl),
      html_toks_piece _ _ html_segMidT_wf,
      html_toks_textToks _ _ (html_escape_no_lt _) (html_startsOk_piece html_segEndT _ rfl),
      html_toks_piece _ _ html_segEndT_wf]
    simp only [html_segToks, hp, if_false, List.append_assoc, Bool.false_eq_true]

theorem html_toks_segs : ∀ (segs : List (Str × Str)) (k : Str),
    html_toks (segs.flatMap mathmlSeg ++ k) = segs.flatMap html_segToks ++ html_toks k
  | [], k => rfl
  | p :: ps, k => by
    simp only [List.flatMap_cons, List.append_assoc]
    rw [html_toks_seg, html_toks_segs ps k]

theorem html_toks_terminal (w c k : Str) (hk : html_StartsOk k) :
    html_toks (mathmlTerminal w c ++ k) = html_leafToks w (mathmlCat c) ++ html_toks k := by
  have e : mathmlTerminal w c ++ k = html_renderAll html_openT ++ (htmlEscape w ++
      (html_renderAll html_midT ++ ((mathmlCat c).flatMap mathmlSeg ++ (html_renderAll html_afterT ++
        (htmlEscape (lit "lex") ++ (html_renderAll html_closeT ++ k)))))) := by
    have hl : htmlEscape (lit "lex") = lit "lex" := by decide
    simp only [mathmlTerminal, mathmlCatText, List.append_assoc, ← html_termOpen_eq, ← html_mid_eq,
      ← html_after_eq, ← html_close_eq, hl]
  rw [e, html_toks_piece _ _ html_openT_wf,
    html_toks_textToks _ _ (html_escape_no_lt _) (html_startsOk_piece html_midT _ rfl),
    html_toks_piece _ _ html_midT_wf, html_toks_segs, html_toks_piece _ _ html_afterT_wf,
    html_toks_textToks _ _ (html_escape_no_lt _) (html_startsOk_piece html_closeT _ rfl),
    html_toks_renderAll _ _ html_closeT_wf (fun _ => hk)]
  simp only [html_leafToks, List.append_assoc]

theorem html_toks_nonterminal (children c op k : Str) (ch : List HTok)
    (hch : ∀ k, html_StartsOk k → html_toks (children ++ k) = ch ++ html_toks k)
    (hk : html_StartsOk k) :
    html_toks (mathmlNonterminal children c op ++ k)
      = html_nodeToks op (mathmlCat c) ch ++ html_toks k := by
  have e : mathmlNonterminal children c op ++ k = html_renderAll html_nopenT ++ (children ++
      (html_renderAll html_nmidT ++ ((mathmlCat c).flatMap mathmlSeg ++ (html_renderAll html_afterT ++
        (htmlEscape op ++ (html_renderAll html_closeT ++ k)))))) := by
    simp only [mathmlNonterminal, mathmlCatText, List.append_assoc, ← html_nontermOpen_eq,
      ← html_nmid_eq, ← html_after_eq, ← html_close_eq]
  rw [e, html_toks_piece _ _ html_nopenT_wf, hch _ (html_startsOk_piece html_nmidT _ rfl),
    html_toks_piece _ _ html_nmidT_wf, html_toks_segs, html_toks_piece _ _ html_afterT_wf,
    html_toks_textToks _ _ (html_escape_no_lt _) (html_startsOk_piece html_closeT _ rfl),
    html_toks_renderAll _ _ html_closeT_wf (fun _ => hk)]
  simp only [html_nodeToks, List.append_assoc]

/-! ### the reader on token lists -/

theorem html_readText_textToks (close w : Str) (rest : List HTok) :
    readText close (html_textToks (htmlEscape w) ++ HTok.tag close :: rest) = some (w, rest) := by
  unfold html_textToks
  by_cases he : (htmlEscape w).isEmpty = true
  · have hw : w = [] := html_escape_eq_nil (List.isEmpty_iff.1 he)
    subst hw
    simp [htmlEscape, readText]
  · simp [he, readText, html_unesc_escape]

theorem html_readMiRed (w : Str) (rest : List HTok) :
    readMiRed (HTok.tag tagMiRed :: (html_textToks (htmlEscape w) ++ HTok.tag (lit "/mi") :: rest))
      = some (w, rest) := by
  simp [readMiRed, html_readText_textToks]

theorem html_tag_ne1 : (tagMiRed == lit "/mstyle") = false := by decide
theorem html_tag_ne2 : (tagMiRed == lit "msub") = false := by decide
theorem html_tag_ne3 : (lit "msub" == lit "/mstyle") = false := by decide
theorem html_tag_ne4 : (lit "mrow" == lit "/mrow") = false := by decide
theorem html_tag_ne5 : (lit "mfrac  linethickness='2px'" == lit "mfrac linethickness='2px'") = false := by
  decide

theorem html_segToks_length_pos (p : Str × Str) : 1 ≤ (html_segToks p).length := by
  unfold html_segToks
  split <;> simp [html_redT, html_subRedT]

theorem html_segs_length : ∀ (segs : List (Str × Str)), segs.length ≤ (segs.flatMap html_segToks).length
  | [] => Nat.le_refl _
  | p :: ps => by
    have := html_segToks_length_pos p
    have := html_segs_length ps
    simp only [List.flatMap_cons, List.length_append, List.length_cons]; omega

theorem html_readSegs : ∀ (segs : List (Str × Str)) (fuel : Nat) (rest : List HTok),
    segs.length < fuel →
    readSegs fuel (segs.flatMap html_segToks ++ HTok.tag (lit "/mstyle") :: rest) = some (segs, rest)
  | [], 0, _, h => by simp at h
  | [], f + 1, rest, _ => by simp [readSegs]
  | _ :: _, 0, _, h => by simp at h
  | p :: ps, f + 1, rest, h => by
    have ih := html_readSegs ps f rest (by simpa using h)
    obtain ⟨p1, p2⟩ := p
    by_cases hp : p2.isEmpty = true
    · have hp2 : p2 = [] := List.isEmpty_iff.1 hp
      subst hp2
      simp only [List.flatMap_cons, html_segToks, List.isEmpty_nil, if_true, html_redT, html_miCloseT,
        List.append_assoc, List.cons_append, List.nil_append]
      unfold readSegs
      simp only [html_tag_ne1, html_tag_ne2, Bool.false_eq_true, if_false, html_readMiRed, ih]
    · simp only [List.flatMap_cons, html_segToks, hp, if_false, html_subRedT, html_segMidT, html_segEndT,
        List.append_assoc, List.cons_append, List.nil_append, Bool.false_eq_true]
      unfold readSegs
      simp only [html_tag_ne3, Bool.false_eq_true, if_false, beq_self_eq_true, if_true, html_readMiRed,
        Bool.and_self, html_readText_textToks, ih]

/-- the tokens after the category segments -/
def html_tailToks (op : Str) : List HTok :=
  html_afterT ++ (html_textToks (htmlEscape op) ++ html_closeT)

/-- the tokens after `</mstyle>` -/
def html_labelToks (op : Str) (rest : List HTok) : List HTok :=
  HTok.text (lit "\n  ") :: HTok.tag (lit "/mfrac") :: HTok.text (lit "\n  ") ::
    HTok.tag (lit "mtext mathsize='0.8' mathcolor='Black'") ::
    (html_textToks (htmlEscape op) ++ HTok.tag (lit "/mtext") :: HTok.text (lit "\n") ::
      HTok.tag (lit "/mrow") :: HTok.text (lit "\n") :: rest)

theorem html_readSegs_label (segs : List (Str × Str)) (op : Str) (rest : List HTok) :
    ∃ rest3, readSegs ((segs.flatMap html_segToks ++ (html_tailToks op ++ rest)).length + 1)
        (segs.flatMap html_segToks ++ (html_tailToks op ++ rest)) = some (segs, rest3) ∧
      readLabel rest3 = some (op, rest) := by
  refine ⟨html_labelToks op rest, ?_, ?_⟩
  · have e : segs.flatMap html_segToks ++ (html_tailToks op ++ rest)
        = segs.flatMap html_segToks ++ HTok.tag (lit "/mstyle") :: html_labelToks op rest := by
      simp [html_tailToks, html_afterT, html_closeT, html_labelToks]
    rw [e]
    apply html_readSegs
    have := html_segs_length segs
    simp only [List.length_append, List.length_cons]; omega
  · simp [readLabel, html_readText_textToks, html_labelToks]

theorem html_readSub_leaf (w : Str) (segs : List (Str × Str)) (f : Nat) (rest : List HTok) :
    readSub (f + 1) (html_leafToks w segs ++ rest) = some (HSkel.leaf w segs, rest) := by
  obtain ⟨rest3, h1, h2⟩ := html_readSegs_label segs (lit "lex") rest
  have e : html_leafToks w segs ++ rest = HTok.tag (lit "mrow") :: HTok.text (lit "\n  ") ::
      HTok.tag (lit "mfrac linethickness='2px'") :: HTok.text (lit "\n    ") ::
      HTok.tag (lit "mtext mathsize='1.0' mathcolor='Black'") ::
      (html_textToks (htmlEscape w) ++ HTok.tag (lit "/mtext") :: HTok.text (lit "\n    ") ::
        HTok.tag (lit "mstyle mathcolor='Red'") ::
        (segs.flatMap html_segToks ++ (html_tailToks (lit "lex") ++ rest))) := by
    simp [html_leafToks, html_openT, html_midT, html_tailToks]
  rw [e]
  unfold readSub
  simp only [bne_self_eq_false, Bool.false_eq_true, if_false, beq_self_eq_true, if_true,
    html_readText_textToks, h1, h2]

theorem html_readSubs_nil (f : Nat) (rest : List HTok) :
    readSubs (f + 1) (HTok.tag (lit "/mrow") :: rest) = some ([], rest) := by
  unfold readSubs
  simp

theorem html_readSubs_cons (f : Nat) (tl x y : List HTok) (c : HSkel) (cs : List HSkel)
    (h1 : readSub f (HTok.tag (lit "mrow") :: tl ++ x) = some (c, x))
    (h2 : readSubs f x = some (cs, y)) :
    readSubs (f + 1) (HTok.tag (lit "mrow") :: tl ++ x) = some (c :: cs, y) := by
  unfold readSubs
  simp only [List.cons_append] at h1 ⊢
  simp only [html_tag_ne4, Bool.false_eq_true, if_false, h1, h2]

theorem html_readSub_node (op : Str) (segs : List (Str × Str)) (ch : List HTok) (children : List HSkel)
    (f : Nat) (rest : List HTok)
    (h : ∀ x, readSubs f (ch ++ HTok.tag (lit "/mrow") :: x) = some (children, x)) :
    readSub (f + 1) (html_nodeToks op segs ch ++ rest) = some (HSkel.node op segs children, rest) := by
  obtain ⟨rest3, h1, h2⟩ := html_readSegs_label segs op rest
  have e : html_nodeToks op segs ch ++ rest = HTok.tag (lit "mrow") :: HTok.text (lit "\n  ") ::
      HTok.tag (lit "mfrac  linethickness='2px'") :: HTok.text (lit "\n    ") ::
      HTok.tag (lit "mrow") ::
      (ch ++ HTok.tag (lit "/mrow") :: (HTok.text (lit "\n    ") ::
        HTok.tag (lit "mstyle mathcolor='Red'") ::
        (segs.flatMap html_segToks ++ (html_tailToks op ++ rest)))) := by
    simp [html_nodeToks, html_nopenT, html_nmidT, html_tailToks]
  rw [e]
  unfold readSub
  simp only [bne_self_eq_false, Bool.false_eq_true, if_false, beq_self_eq_true, if_true,
    html_tag_ne5, h, h1, h2]

/-! ### the tree -/

def html_fuelOf : Tree → Nat
  | .leaf .. => 1
  | .un _ _ _ ch => html_fuelOf ch + 2
  | .bin _ _ _ _ l r => html_fuelOf l + html_fuelOf r + 3

theorem html_fuelOf_pos : ∀ t, 1 ≤ html_fuelOf t
  | .leaf .. => Nat.le_refl _
  | .un .. => by simp [html_fuelOf]
  | .bin .. => by simp [html_fuelOf]

/-- what is known of the printed text of a tree -/
structure html_Printed (t : Tree) (s : Str) (sk : HSkel) (tl : List HTok) : Prop where
  toks : ∀ k, html_StartsOk k → html_toks (s ++ k) = (HTok.tag (lit "mrow") :: tl) ++ html_toks k
  read : ∀ fuel rest, html_fuelOf t ≤ fuel →
    readSub fuel ((HTok.tag (lit "mrow") :: tl) ++ rest) = some (sk, rest)
  len : html_fuelOf t ≤ tl.length
  starts : ∃ s', s = 60 :: s'

theorem html_terminal_starts (w c : Str) : ∃ s', mathmlTerminal w c = 60 :: s' := by
  unfold mathmlTerminal
  rw [html_termOpen_eq]
  exact ⟨_, rfl⟩

theorem html_nonterminal_starts (ch c op : Str) : ∃ s', mathmlNonterminal ch c op = 60 :: s' := by
  unfold mathmlNonterminal
  rw [html_nontermOpen_eq]
  exact ⟨_, rfl⟩

theorem html_leafToks_cons (w : Str) (segs : List (Str × Str)) :
    ∃ tl, html_leafToks w segs = HTok.tag (lit "mrow") :: tl ∧ 1 ≤ tl.length :=
  ⟨_, rfl, by simp⟩

theorem html_nodeToks_cons (op : Str) (segs : List (Str × Str)) (ch : List HTok) :
    ∃ tl, html_nodeToks op segs ch = HTok.tag (lit "mrow") :: tl ∧ ch.length + 4 ≤ tl.length :=
  ⟨_, rfl, by simp [html_nmidT] <;> omega⟩

theorem html_printed : ∀ (t : Tree) (s : Str), mathmlSubtree t = .ok s →
    ∃ sk tl, skelOf t = .ok sk ∧ html_Printed t s sk tl
  | .leaf c tok _ _, s, h => by
    simp only [mathmlSubtree] at h
    cases hw : Token.get tok (lit "word") with
    | error e => rw [hw] at h; cases h
    | ok w =>
      rw [hw] at h
      injection h with h
      subst h
      obtain ⟨tl, htl, hlen⟩ := html_leafToks_cons w (mathmlCat (Cat.str c))
      refine ⟨HSkel.leaf w (mathmlCat (Cat.str c)), tl, by simp [skelOf, hw], ?_, ?_, ?_, ?_⟩
      · intro k hk
        rw [html_toks_terminal _ _ _ hk, htl]
      · intro fuel rest hf
        obtain ⟨f, rfl⟩ : ∃ f, fuel = f + 1 := ⟨fuel - 1, by simp [html_fuelOf] at hf; omega⟩
        rw [← htl]
        exact html_readSub_leaf _ _ _ _
      · simpa [html_fuelOf] using hlen
      · exact html_terminal_starts _ _
  | .un c opS _ ch, s, h => by
    simp only [mathmlSubtree] at h
    cases hc : mathmlSubtree ch with
    | error e => rw [hc] at h; cases h
    | ok sc =>
      rw [hc] at h
      injection h with h
      subst h
      obtain ⟨skc, tlc, hsk, hp⟩ := html_printed ch sc hc
      obtain ⟨tl, htl, hlen⟩ := html_nodeToks_cons opS (mathmlCat (Cat.str c)) (HTok.tag (lit "mrow") :: tlc)
      refine ⟨HSkel.node opS (mathmlCat (Cat.str c)) [skc], tl, by simp [skelOf, hsk], ?_, ?_, ?_, ?_⟩
      · intro k hk
        rw [html_toks_nonterminal _ _ _ _ _ hp.toks hk, htl]
      · intro fuel rest hf
        simp only [html_fuelOf] at hf
        obtain ⟨f, rfl⟩ : ∃ f, fuel = f + 2 := ⟨fuel - 2, by omega⟩
        rw [← htl]
        apply html_readSub_node
        intro x
        apply html_readSubs_cons
        · exact hp.read _ _ (by omega)
        · have := html_fuelOf_pos ch
          obtain ⟨g, rfl⟩ : ∃ g, f = g + 1 := ⟨f - 1, by omega⟩
          exact html_readSubs_nil _ _
      · have := hp.len
        simp only [html_fuelOf, List.length_cons] at hlen ⊢; omega
      · exact html_nonterminal_starts _ _ _
  | .bin c opS _ _ l r, s, h => by
    simp only [mathmlSubtree] at h
    cases hl : mathmlSubtree l with
    | error e => rw [hl] at h; cases h
    | ok sl =>
      rw [hl] at h
      cases hr : mathmlSubtree r with
      | error e => rw [hr] at h; cases h
      | ok sr =>
        rw [hr] at h
        injection h with h
        subst h
        obtain ⟨skl, tll, hskl, hpl⟩ := html_printed l sl hl
        obtain ⟨skr, tlr, hskr, hpr⟩ := html_printed r sr hr
        obtain ⟨tl, htl, hlen⟩ := html_nodeToks_cons opS (mathmlCat (Cat.str c))
          ((HTok.tag (lit "mrow") :: tll) ++ (HTok.tag (lit "mrow") :: tlr))
        refine ⟨HSkel.node opS (mathmlCat (Cat.str c)) [skl, skr], tl, by simp [skelOf, hskl, hskr],
          ?_, ?_, ?_, ?_⟩
        · intro k hk
          rw [html_toks_nonterminal _ _ _ _ _ ?_ hk, htl]
          intro k' hk'
          obtain ⟨sr', hsr'⟩ := hpr.starts
          rw [List.append_assoc, hpl.toks _ (by rw [hsr']; exact html_startsOk_lt _), hpr.toks _ hk',
            List.append_assoc]
        · intro fuel rest hf
          simp only [html_fuelOf] at hf
          have := html_fuelOf_pos l
          have := html_fuelOf_pos r
          obtain ⟨f, rfl⟩ : ∃ f, fuel = f + 4 := ⟨fuel - 4, by omega⟩
          rw [← htl]
          apply html_readSub_node
          intro x
          rw [List.append_assoc]
          apply html_readSubs_cons
          · exact hpl.read _ _ (by omega)
          · apply html_readSubs_cons
            · exact hpr.read _ _ (by omega)
            · exact html_readSubs_nil _ _
        · have := hpl.len
          have := hpr.len
          simp only [html_fuelOf, List.length_cons, List.length_append] at hlen ⊢; omega
        · exact html_nonterminal_starts _ _ _

theorem html_readMathml (t : Tree) (s : Str) (sk : HSkel) (tl : List HTok) (h : html_Printed t s sk tl) :
    readMathml s = some sk := by
  have h1 : htmlTokens (s.length + 1) s = HTok.tag (lit "mrow") :: tl := by
    rw [html_tokens_eq_toks _ _ (Nat.le_succ _)]
    have := h.toks [] html_startsOk_nil
    simpa [html_toks_nil] using this
  have h2 := h.read ((HTok.tag (lit "mrow") :: tl).length + 1) [] (by have := h.len; simp; omega)
  simp only [List.append_nil] at h2
  simp only [readMathml, h1, h2]

/-! ### a checker for concrete examples -/

mutual
/-- boolean equality of skeletons (for kernel evaluation of examples) -/
def html_skelBeq : HSkel → HSkel → Bool
  | .leaf w c, .leaf w' c' => w == w' && c == c'
  | .node o c ch, .node o' c' ch' => o == o' && c == c' && html_skelsBeq ch ch'
  | _, _ => false
termination_by structural a => a
def html_skelsBeq : List HSkel → List HSkel → Bool
  | [], [] => true
  | a :: as, b :: bs => html_skelBeq a b && html_skelsBeq as bs
  | _, _ => false
termination_by structural a => a
end

mutual
theorem html_skelBeq_sound : ∀ (a b : HSkel), html_skelBeq a b = true → a = b
  | .leaf w c, .leaf w' c', h => by
    simp only [html_skelBeq, Bool.and_eq_true, beq_iff_eq] at h
    rw [h.1, h.2]
  | .node o c ch, .node o' c' ch', h => by
    simp only [html_skelBeq, Bool.and_eq_true, beq_iff_eq] at h
    rw [h.1.1, h.1.2, html_skelsBeq_sound ch ch' h.2]
  | .leaf .., .node .., h => by simp [html_skelBeq] at h
  | .node .., .leaf .., h => by simp [html_skelBeq] at h
theorem html_skelsBeq_sound : ∀ (a b : List HSkel), html_skelsBeq a b = true → a = b
  | [], [], _ => rfl
  | a :: as, b :: bs, h => by
    simp only [html_skelsBeq, Bool.and_eq_true] at h
    rw [html_skelBeq_sound a b h.1, html_skelsBeq_sound as bs h.2]
  | [], _ :: _, h => by simp [html_skelsBeq] at h
  | _ :: _, [], h => by simp [html_skelsBeq] at h
end

/-- the conclusion of `html_decode`, as a boolean -/
def html_decodeCheck (t : Tree) : Bool :=
  match mathmlSubtree t, skelOf t with
  | .ok s, .ok sk =>
    match readMathml s with
    | some sk' => html_skelBeq sk' sk
    | none => false
  | _, _ => false

theorem html_decodeCheck_sound (t : Tree) (h : html_decodeCheck t = true) :
    ∃ s sk, mathmlSubtree t = .ok s ∧ skelOf t = .ok sk ∧ readMathml s = some sk := by
  unfold html_decodeCheck at h
  split at h
  · rename_i s sk hs hsk
    split at h
    · rename_i sk' hr
      exact ⟨s, sk, hs, hsk, by rw [hr, html_skelBeq_sound _ _ h]⟩
    · cases h
  · cases h

end Depccg.C07
