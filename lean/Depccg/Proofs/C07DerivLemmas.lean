/-
  C07, `deriv` format: helper lemmas for the decoder statement (`Read.decDeriv` reads back every
  printed derivation).
-/
import Depccg.Props.C07DerivDefs
import Depccg.Proofs.C07Lemmas

namespace Depccg.C07
open Depccg Str Print Read TextProps

/-! ### counting runs -/

theorem dd_countWhile_replicate (c n : Nat) (r : Str) (h : r.head? ≠ some c) :
    countWhile c (List.replicate n c ++ r) = n := by
  induction n with
  | zero =>
    cases r with
    | nil => rfl
    | cons x xs =>
      have hx : x ≠ c := by simp at h; exact h
      simp [countWhile, hx]
  | succ n ih => simp [List.replicate_succ, countWhile, ih]

theorem dd_drop_replicate (c n : Nat) (r : Str) : (List.replicate n c ++ r).drop n = r := by
  induction n with
  | zero => rfl
  | succ n ih => simp [List.replicate_succ]

theorem dd_head_dashes (wd : Nat) (y : Str) (hwd : 0 < wd) :
    (List.replicate wd 45 ++ y).head? ≠ some cSpace := by
  obtain ⟨n, rfl⟩ : ∃ n, wd = n + 1 := ⟨wd - 1, by omega⟩
  simp [List.replicate_succ, cSpace]

/-- the blanks, the dashes and the symbol of a rule line -/
theorem dd_rule_lw (lw wd : Nat) (y : Str) (hwd : 0 < wd) :
    countWhile cSpace (spaces lw ++ List.replicate wd 45 ++ y) = lw := by
  rw [List.append_assoc]
  exact dd_countWhile_replicate cSpace lw _ (dd_head_dashes wd y hwd)

theorem dd_rule_drop (lw wd : Nat) (y : Str) :
    (spaces lw ++ List.replicate wd 45 ++ y).drop lw = List.replicate wd 45 ++ y := by
  rw [List.append_assoc]
  exact dd_drop_replicate cSpace lw _

/-! ### `fields` -/

theorem dd_fields_nil : fields [] = [] := rfl

theorem dd_fields_append_sp (a b : Str) : fields (a ++ 32 :: b) = fields a ++ fields b := by
  unfold fields
  rw [show cSpace = 32 from rfl, C08.splitOn_append_sep, List.filter_append]

theorem dd_fields_spaces_left (n : Nat) (s : Str) : fields (spaces n ++ s) = fields s := by
  induction n with
  | zero => rfl
  | succ n ih =>
    have : spaces (n + 1) ++ s = [] ++ 32 :: (spaces n ++ s) := rfl
    rw [this, dd_fields_append_sp, dd_fields_nil, List.nil_append, ih]

theorem dd_fields_spaces (n : Nat) : fields (spaces n) = [] := by
  have := dd_fields_spaces_left n []
  rwa [List.append_nil] at this

theorem dd_fields_spaces_right (n : Nat) (s : Str) : fields (s ++ spaces n) = fields s := by
  cases n with
  | zero => simp [spaces]
  | succ n =>
    have : s ++ spaces (n + 1) = s ++ 32 :: spaces n := rfl
    rw [this, dd_fields_append_sp, dd_fields_spaces, List.append_nil]

theorem dd_fields_one (f : Str) (hne : f ≠ []) (h32 : 32 ∉ f) : fields f = [f] := by
  unfold fields
  rw [show cSpace = 32 from rfl, C05.splitOn_last 32 f h32]
  cases f with
  | nil => exact absurd rfl hne
  | cons x xs => rfl

/-- one centred column of a header line -/
theorem dd_fields_block (a b : Nat) (f rest : Str) (hne : f ≠ []) (h32 : 32 ∉ f) (hb : 0 < b) :
    fields (spaces a ++ f ++ spaces b ++ rest) = f :: fields rest := by
  obtain ⟨n, rfl⟩ : ∃ n, b = n + 1 := ⟨b - 1, by omega⟩
  have : spaces a ++ f ++ spaces (n + 1) ++ rest = spaces a ++ (f ++ 32 :: (spaces n ++ rest)) := by
    simp [spaces, List.replicate_succ, cSpace]
  rw [this, dd_fields_spaces_left, dd_fields_append_sp, dd_fields_one f hne h32, dd_fields_spaces_left]
  rfl

/-- a centred category line -/
theorem dd_fields_catLine (p : Int) (cat : Str) (hne : cat ≠ []) (h32 : 32 ∉ cat) :
    fields (spacesI p ++ cat) = [cat] := by
  have : spacesI p = spaces p.toNat := rfl
  rw [this, dd_fields_spaces_left, dd_fields_one cat hne h32]

/-! ### `rstripSp` -/

theorem dd_takeWhile_all (p : Nat → Bool) : ∀ (l : Str), ∀ b ∈ l.takeWhile p, p b = true
  | [], b, hb => by simp at hb
  | x :: xs, b, hb => by
    by_cases hx : p x = true
    · simp only [List.takeWhile_cons, hx, if_true, List.mem_cons] at hb
      rcases hb with rfl | hb
      · exact hx
      · exact dd_takeWhile_all p xs b hb
    · simp [hx] at hb

theorem dd_rstrip_decomp (s : Str) : ∃ k, s = rstripSp s ++ spaces k := by
  refine ⟨(s.reverse.takeWhile (· == cSpace)).length, ?_⟩
  have h1 : s.reverse.takeWhile (· == cSpace) ++ s.reverse.dropWhile (· == cSpace) = s.reverse :=
    List.takeWhile_append_dropWhile
  have h2 : s.reverse.takeWhile (· == cSpace) =
      List.replicate (s.reverse.takeWhile (· == cSpace)).length cSpace := by
    rw [List.eq_replicate_iff]
    refine ⟨rfl, fun b hb => ?_⟩
    have := dd_takeWhile_all (· == cSpace) _ b hb
    simpa using this
  have h3 : s = (s.reverse.dropWhile (· == cSpace)).reverse ++ (s.reverse.takeWhile (· == cSpace)).reverse := by
    rw [← List.reverse_append, h1, List.reverse_reverse]
  unfold rstripSp spaces
  rw [← List.reverse_replicate, ← h2]
  exact h3

theorem dd_fields_rstrip (s : Str) : fields (rstripSp s) = fields s := by
  obtain ⟨k, hk⟩ := dd_rstrip_decomp s
  conv => rhs; rw [hk]
  rw [dd_fields_spaces_right]

theorem dd_rstrip_noNL (s : Str) (h : 10 ∉ s) : 10 ∉ rstripSp s := by
  obtain ⟨k, hk⟩ := dd_rstrip_decomp s
  intro hm
  apply h
  rw [hk]
  exact List.mem_append_left _ hm

/-! ### the header lines -/

theorem dd_header_cons (c w : Str) (rest : List (Str × Str)) :
    derivHeader ((c, w) :: rest) =
      (spaces ((2 + max w.length c.length - c.length) / 2) ++ c ++
          spaces ((2 + max w.length c.length - c.length) / 2 + (2 + max w.length c.length - c.length) % 2) ++
          (derivHeader rest).1,
       spaces ((2 + max w.length c.length - w.length) / 2) ++ w ++
          spaces ((2 + max w.length c.length - w.length) / 2 + (2 + max w.length c.length - w.length) % 2) ++
          (derivHeader rest).2) := rfl

theorem dd_header_fields : ∀ (cw : List (Str × Str)),
    (∀ p ∈ cw, (p.1 ≠ [] ∧ 32 ∉ p.1) ∧ (p.2 ≠ [] ∧ 32 ∉ p.2)) →
    fields (derivHeader cw).1 = cw.map (·.1) ∧ fields (derivHeader cw).2 = cw.map (·.2)
  | [], _ => ⟨rfl, rfl⟩
  | (c, w) :: rest, h => by
    obtain ⟨ih1, ih2⟩ := dd_header_fields rest (fun p hp => h p (List.mem_cons_of_mem _ hp))
    obtain ⟨⟨hc1, hc2⟩, hw1, hw2⟩ := h (c, w) (List.mem_cons_self ..)
    rw [dd_header_cons]
    refine ⟨?_, ?_⟩
    · simp only [List.map_cons]
      rw [dd_fields_block _ _ c _ hc1 hc2 (by omega), ih1]
    · simp only [List.map_cons]
      rw [dd_fields_block _ _ w _ hw1 hw2 (by omega), ih2]

theorem dd_spaces_noNL (n : Nat) : 10 ∉ spaces n := by
  simp [spaces, cSpace]

theorem dd_header_noNL : ∀ (cw : List (Str × Str)), (∀ p ∈ cw, 10 ∉ p.1 ∧ 10 ∉ p.2) →
    10 ∉ (derivHeader cw).1 ∧ 10 ∉ (derivHeader cw).2
  | [], _ => ⟨by simp [derivHeader], by simp [derivHeader]⟩
  | (c, w) :: rest, h => by
    obtain ⟨ih1, ih2⟩ := dd_header_noNL rest (fun p hp => h p (List.mem_cons_of_mem _ hp))
    obtain ⟨hc, hw⟩ := h (c, w) (List.mem_cons_self ..)
    rw [dd_header_cons]
    simp only [List.mem_append, not_or]
    exact ⟨⟨⟨⟨dd_spaces_noNL _, hc⟩, dd_spaces_noNL _⟩, ih1⟩, ⟨⟨dd_spaces_noNL _, hw⟩, dd_spaces_noNL _⟩, ih2⟩

/-! ### the leaves of a tree and their columns -/

/-- (category, word) of the leaves, left to right -/
def dd_cw : Tree → List (Str × Str)
  | .leaf c tok _ _ => [(c.str, Token.getD tok (lit "word") [])]
  | .un _ _ _ ch => dd_cw ch
  | .bin _ _ _ _ l r => dd_cw l ++ dd_cw r

theorem dd_leafCatsWords : ∀ (t : Tree),
    AllToks (fun tok => ∃ w, Token.get? tok (lit "word") = some w) t → leafCatsWords t = .ok (dd_cw t)
  | .leaf c tok _ _, h => by
    obtain ⟨w, hw⟩ := h
    obtain ⟨h1, h2⟩ := get_getD_of_get? hw
    simp only [leafCatsWords, h1, dd_cw, h2]
  | .un _ _ _ ch, h => by
    simp only [leafCatsWords, dd_cw]
    exact dd_leafCatsWords ch h
  | .bin _ _ _ _ l r, h => by
    simp only [leafCatsWords, dd_cw, dd_leafCatsWords l h.1, dd_leafCatsWords r h.2]

theorem dd_cw_fields : ∀ (t : Tree), AllCats (fun c => Field c.str) t →
    AllToks (fun tok => ∃ w, Token.get? tok (lit "word") = some w ∧ Field w) t →
    ∀ p ∈ dd_cw t, Field p.1 ∧ Field p.2
  | .leaf c tok _ _, hc, ht, p, hp => by
    obtain ⟨w, hw, hf⟩ := ht
    simp only [dd_cw, List.mem_singleton] at hp
    subst hp
    rw [(get_getD_of_get? hw).2]
    exact ⟨hc, hf⟩
  | .un _ _ _ ch, hc, ht, p, hp => dd_cw_fields ch hc.2 ht p hp
  | .bin _ _ _ _ l r, hc, ht, p, hp => by
    simp only [dd_cw, List.mem_append] at hp
    rcases hp with hp | hp
    · exact dd_cw_fields l hc.2.1 ht.1 p hp
    · exact dd_cw_fields r hc.2.2 ht.2 p hp

/-- total width of a list of columns -/
def dd_total : List (Str × Str) → Nat
  | [] => 0
  | (c, w) :: rest => (2 + max w.length c.length) + dd_total rest

theorem dd_total_append (a b : List (Str × Str)) : dd_total (a ++ b) = dd_total a + dd_total b := by
  induction a with
  | nil => simp [dd_total]
  | cons p rest ih =>
    obtain ⟨c, w⟩ := p
    simp only [List.cons_append, dd_total, ih]
    omega

theorem dd_total_cw : ∀ t : Tree, dd_total (dd_cw t) = width t
  | .leaf .. => by simp [dd_cw, dd_total, width, leafWidth]
  | .un _ _ _ ch => dd_total_cw ch
  | .bin _ _ _ _ l r => by
    simp only [dd_cw, dd_total_append, width, dd_total_cw l, dd_total_cw r]

theorem dd_width_pos : ∀ t : Tree, 0 < width t
  | .leaf .. => by simp only [width, leafWidth]; omega
  | .un _ _ _ ch => dd_width_pos ch
  | .bin _ _ _ _ l r => by
    have := dd_width_pos l
    simp only [width]; omega

/-- the initial forest over the columns starting at `off` -/
def dd_entries : Nat → List (Str × Str) → List ((Nat × Nat) × DView)
  | _, [] => []
  | off, (c, w) :: rest =>
    ((off, off + (2 + max w.length c.length)), DView.leaf c w)
      :: dd_entries (off + (2 + max w.length c.length)) rest

theorem dd_entries_append : ∀ (a b : List (Str × Str)) (off : Nat),
    dd_entries off (a ++ b) = dd_entries off a ++ dd_entries (off + dd_total a) b
  | [], b, off => by simp [dd_entries, dd_total]
  | (c, w) :: rest, b, off => by
    simp only [List.cons_append, dd_entries, dd_total, dd_entries_append rest b, Nat.add_assoc]

theorem dd_leafForest : ∀ (cw : List (Str × Str)) (off : Nat),
    leafForest off (cw.map (·.1)) (cw.map (·.2)) = some (dd_entries off cw)
  | [], _ => rfl
  | (c, w) :: rest, off => by
    simp only [List.map_cons, leafForest, dd_leafForest rest, dd_entries]

/-! ### the rule lines as a list of lines -/

/-- a rule line: blanks, dashes, symbol -/
def dd_rule (lw wd : Nat) (y : Str) : Str := spaces lw ++ List.replicate wd 45 ++ y

/-- a category line -/
def dd_catLine (p : Int) (cat : Str) : Str := spacesI p ++ cat

/-- the lines of `ruleLines t lw` -/
def dd_lines : Tree → Nat → List Str
  | .leaf .., _ => []
  | .un c _ y ch, lw =>
    dd_lines ch lw ++ [dd_rule lw (width ch) y, dd_catLine (((width ch : Int) - c.str.length) / 2 + lw) c.str]
  | .bin c _ y _ l r, lw =>
    dd_lines l lw ++ (dd_lines r (lw + width l) ++ [dd_rule lw (width l + width r) y,
      dd_catLine ((((width l + width r : Nat) : Int) - c.str.length) / 2 + lw) c.str])

theorem dd_node_text (A : Str) (lw wd : Nat) (y : Str) (p : Int) (cat rest : Str) :
    A ++ spaces lw ++ List.replicate wd 45 ++ y ++ [10] ++ spacesI p ++ cat ++ [10] ++ rest =
      A ++ (dd_rule lw wd y ++ 10 :: (dd_catLine p cat ++ 10 :: rest)) := by
  simp only [dd_rule, dd_catLine, List.append_assoc, List.cons_append, List.nil_append]

theorem dd_rule_noNL (lw wd : Nat) (y : Str) (hy : 10 ∉ y) :
    10 ∉ dd_rule lw wd y := by
  simp only [dd_rule, List.mem_append, not_or]
  exact ⟨⟨dd_spaces_noNL _, by simp⟩, hy⟩

theorem dd_catLine_noNL (p : Int) (cat : Str) (hc : 10 ∉ cat) : 10 ∉ dd_catLine p cat := by
  simp only [dd_catLine, List.mem_append, not_or]
  exact ⟨dd_spaces_noNL _, hc⟩

theorem dd_split_node (lw wd : Nat) (y : Str) (p : Int) (cat rest : Str) (hy : 10 ∉ y) (hc : 10 ∉ cat) :
    splitOn 10 (dd_rule lw wd y ++ 10 :: (dd_catLine p cat ++ 10 :: rest)) =
      dd_rule lw wd y :: dd_catLine p cat :: splitOn 10 rest := by
  rw [C05.splitOn_sep 10 _ _ (dd_rule_noNL lw wd y hy), C05.splitOn_sep 10 _ _ (dd_catLine_noNL p cat hc)]

theorem Field.noNL {s : Str} (h : Field s) : 10 ∉ s := fun hm => (h.2 10 hm).2 rfl
theorem Field.noSp {s : Str} (h : Field s) : 32 ∉ s := fun hm => (h.2 32 hm).1 rfl
theorem SymOK.noNL {s : Str} (h : SymOK s) : 10 ∉ s := fun hm => (h.1 10 hm).2 rfl

theorem dd_split_ruleLines : ∀ (t : Tree) (lw : Nat) (rest : Str),
    AllCats (fun c => Field c.str) t → SymsOK t →
    splitOn 10 (ruleLines t lw ++ rest) = dd_lines t lw ++ splitOn 10 rest
  | .leaf .., _, _, _, _ => rfl
  | .un c _ y ch, lw, rest, hc, hy => by
    simp only [ruleLines, dd_lines]
    rw [dd_node_text, dd_split_ruleLines ch lw _ hc.2 hy.2, dd_split_node _ _ _ _ _ _ hy.1.noNL hc.1.noNL]
    simp only [List.append_assoc, List.cons_append, List.nil_append]
  | .bin c _ y _ l r, lw, rest, hc, hy => by
    simp only [ruleLines, dd_lines]
    rw [dd_node_text, List.append_assoc, dd_split_ruleLines l lw _ hc.2.1 hy.2.1,
      dd_split_ruleLines r _ _ hc.2.2 hy.2.2, dd_split_node _ _ _ _ _ _ hy.1.noNL hc.1.noNL]
    simp only [List.append_assoc, List.cons_append, List.nil_append]

/-! ### one rule line -/

theorem dd_reduce (forest : List ((Nat × Nat) × DView)) (lw wd : Nat) (y : Str) (p : Int) (cat : Str)
    (hwd : 0 < wd) (hy : SymOK y) (hc : Field cat) :
    reduce forest (dd_rule lw wd y) (dd_catLine p cat) = rewriteAt lw wd cat y forest := by
  unfold reduce dd_rule dd_catLine
  simp only [dd_rule_lw lw wd y hwd, dd_rule_drop, dd_countWhile_replicate 45 wd y hy.2,
    dd_drop_replicate, dd_fields_catLine p cat hc.1 hc.noSp]

theorem dd_reduceAll_step (forest forest' : List ((Nat × Nat) × DView)) (rule catLine : Str) (rest : List Str)
    (h : reduce forest rule catLine = some forest') :
    reduceAll forest (rule :: catLine :: rest) = reduceAll forest' rest := by
  rw [reduceAll, h]

/-- entries left of column `lw` are skipped -/
theorem dd_rewriteAt_skip (lw wd : Nat) (cat sym : Str) : ∀ (P F F' : List ((Nat × Nat) × DView)),
    (∀ e ∈ P, e.1.1 < lw) → rewriteAt lw wd cat sym F = some F' →
    rewriteAt lw wd cat sym (P ++ F) = some (P ++ F')
  | [], _, _, _, h => h
  | ((s, e), v) :: P, F, F', hP, h => by
    have hs : s ≠ lw := Nat.ne_of_lt (hP ((s, e), v) (List.mem_cons_self ..))
    have ih := dd_rewriteAt_skip lw wd cat sym P F F' (fun e he => hP e (List.mem_cons_of_mem _ he)) h
    simp only [List.cons_append, rewriteAt, hs, if_false, ih]

theorem dd_rewriteAt_un (lw wd : Nat) (cat sym : Str) (v : DView) (S : List ((Nat × Nat) × DView)) :
    rewriteAt lw wd cat sym (((lw, lw + wd), v) :: S) = some (((lw, lw + wd), DView.un cat sym v) :: S) := by
  simp [rewriteAt]

theorem dd_rewriteAt_bin (lw w1 w2 : Nat) (cat sym : Str) (v1 v2 : DView) (S : List ((Nat × Nat) × DView))
    (h2 : 0 < w2) :
    rewriteAt lw (w1 + w2) cat sym (((lw, lw + w1), v1) :: ((lw + w1, lw + w1 + w2), v2) :: S) =
      some (((lw, lw + (w1 + w2)), DView.bin cat sym v1 v2) :: S) := by
  have he : lw + w1 + w2 = lw + (w1 + w2) := by omega
  have h0 : w2 ≠ 0 := by omega
  simp [rewriteAt, he, h0]

/-! ### the rule lines of a subtree rewrite its leaves into its view -/

theorem dd_reduceAll_tree : ∀ (t : Tree) (lw : Nat) (P S : List ((Nat × Nat) × DView)) (R : List Str),
    AllCats (fun c => Field c.str) t → SymsOK t → (∀ e ∈ P, e.1.1 < lw) →
    reduceAll (P ++ (dd_entries lw (dd_cw t) ++ S)) (dd_lines t lw ++ R) =
      reduceAll (P ++ ((lw, lw + width t), viewDeriv t) :: S) R
  | .leaf c tok _ _, lw, P, S, R, _, _, _ => by
    simp only [dd_cw, dd_entries, dd_lines, width, leafWidth, viewDeriv, List.nil_append, List.cons_append]
  | .un c _ y ch, lw, P, S, R, hc, hy, hP => by
    simp only [dd_cw, dd_lines, width, viewDeriv, List.append_assoc, List.cons_append, List.nil_append]
    rw [dd_reduceAll_tree ch lw P S _ hc.2 hy.2 hP]
    apply dd_reduceAll_step
    rw [dd_reduce _ _ _ _ _ _ (dd_width_pos ch) hy.1 hc.1]
    exact dd_rewriteAt_skip _ _ _ _ P _ _ hP (dd_rewriteAt_un ..)
  | .bin c _ y _ l r, lw, P, S, R, hc, hy, hP => by
    have hl := dd_width_pos l
    have hr := dd_width_pos r
    simp only [dd_cw, dd_lines, width, viewDeriv, List.append_assoc, List.cons_append, List.nil_append,
      dd_entries_append, dd_total_cw]
    rw [dd_reduceAll_tree l lw P _ _ hc.2.1 hy.2.1 hP]
    have hP' : ∀ e ∈ P ++ [((lw, lw + width l), viewDeriv l)], e.1.1 < lw + width l := by
      intro e he
      rcases List.mem_append.1 he with he | he
      · have := hP e he; omega
      · rw [List.mem_singleton] at he; subst he; simp only; omega
    have ih := dd_reduceAll_tree r (lw + width l) (P ++ [((lw, lw + width l), viewDeriv l)]) S
      ([dd_rule lw (width l + width r) y,
        dd_catLine ((((width l + width r : Nat) : Int) - c.str.length) / 2 + lw) c.str] ++ R) hc.2.2 hy.2.2 hP'
    simp only [List.append_assoc, List.cons_append, List.nil_append] at ih
    rw [ih]
    apply dd_reduceAll_step
    rw [dd_reduce _ _ _ _ _ _ (by omega) hy.1 hc.1]
    exact dd_rewriteAt_skip _ _ _ _ P _ _ hP (dd_rewriteAt_bin lw _ _ _ _ _ _ _ hr)

/-! ### the printed text -/

theorem dd_allToks_weaken : ∀ (t : Tree),
    AllToks (fun tok => ∃ w, Token.get? tok (lit "word") = some w ∧ Field w) t →
    AllToks (fun tok => ∃ w, Token.get? tok (lit "word") = some w) t
  | .leaf .., h => by obtain ⟨w, hw, _⟩ := h; exact ⟨w, hw⟩
  | .un _ _ _ ch, h => dd_allToks_weaken ch h
  | .bin _ _ _ _ l r, h => ⟨dd_allToks_weaken l h.1, dd_allToks_weaken r h.2⟩

theorem dd_derivOf (t : Tree) (s : Str)
    (ht : AllToks (fun tok => ∃ w, Token.get? tok (lit "word") = some w) t) (h : derivOf t = .ok s) :
    s = rstripSp (derivHeader (dd_cw t)).1 ++ 10 :: (rstripSp (derivHeader (dd_cw t)).2 ++ 10 :: ruleLines t 0) := by
  unfold derivOf at h
  rw [dd_leafCatsWords t ht] at h
  simp only [derivRec_spec t 0 ht] at h
  cases h
  simp only [List.append_assoc, List.cons_append, List.nil_append]

end Depccg.C07
