/-
  Lemmas for C11: chunking arithmetic, the batch driver, the shape check, and the commutation of
  every function of the search model with an injective renumbering of the derived categories.
  Core Lean only.
-/
import Depccg.Props.C11Defs
import Depccg.Proofs.SearchLemmas
import Depccg.Proofs.HeapLemmas

namespace Depccg.C11
open Depccg Search Glue SearchProps

/-! ### `_chunks` -/

theorem chunksAux_flatten {α : Type} (sp : Nat) (hsp : 1 ≤ sp) :
    ∀ (fuel : Nat) (l : List α), l.length ≤ fuel → (chunksAux sp fuel l).flatten = l := by
  intro fuel
  induction fuel with
  | zero =>
    intro l h
    cases l with
    | nil => rfl
    | cons x xs => simp at h
  | succ fuel ih =>
    intro l h
    cases l with
    | nil => rfl
    | cons x xs =>
      simp only [chunksAux, List.flatten_cons]
      rw [ih]
      · exact List.take_append_drop _ _
      · simp only [List.length_drop, List.length_cons] at *; omega

theorem chunksAux_ne_nil {α : Type} (sp : Nat) (hsp : 1 ≤ sp) :
    ∀ (fuel : Nat) (l : List α), ∀ c ∈ chunksAux sp fuel l, c ≠ [] := by
  intro fuel
  induction fuel with
  | zero => intro l c hc; simp [chunksAux] at hc
  | succ fuel ih =>
    intro l c hc
    cases l with
    | nil => simp [chunksAux] at hc
    | cons x xs =>
      simp only [chunksAux, List.mem_cons] at hc
      rcases hc with rfl | hc
      · obtain ⟨sp', rfl⟩ : ∃ sp', sp = sp' + 1 := ⟨sp - 1, by omega⟩
        simp
      · exact ih _ c hc

theorem chunksAux_length {α : Type} (sp : Nat) (_hsp : 1 ≤ sp) :
    ∀ (fuel : Nat) (l : List α) (m : Nat), l.length ≤ sp * m →
      (chunksAux sp fuel l).length ≤ m := by
  intro fuel
  induction fuel with
  | zero => intro l m _; simp [chunksAux]
  | succ fuel ih =>
    intro l m h
    cases l with
    | nil => simp [chunksAux]
    | cons x xs =>
      cases m with
      | zero => simp at h
      | succ m =>
        simp only [chunksAux, List.length_cons]
        have := ih ((x :: xs).drop sp) m (by
          simp only [List.length_drop, List.length_cons] at *
          rw [Nat.mul_succ] at h
          omega)
        omega

theorem splits_pos {len k : Nat} (h : 1 ≤ len) : 1 ≤ splits len k := by
  unfold splits
  have hm : 1 ≤ max k 1 := Nat.le_max_right _ _
  generalize max k 1 = m at *
  apply (Nat.le_div_iff_mul_le (by omega)).2
  omega

theorem splits_mul_ge (len k : Nat) : len ≤ splits len k * max k 1 := by
  unfold splits
  have hm : 1 ≤ max k 1 := Nat.le_max_right _ _
  generalize max k 1 = m at *
  have h1 := Nat.div_add_mod (len + m - 1) m
  have h2 := Nat.mod_lt (len + m - 1) (by omega : m > 0)
  rw [Nat.mul_comm]
  generalize (len + m - 1) / m = q at *
  generalize (len + m - 1) % m = r at *
  generalize m * q = p at *
  omega

theorem chunks_ok {α : Type} {l : List α} {k : Nat} {cs : List (List α)}
    (h : chunks l k = .ok cs) :
    l ≠ [] ∧ cs = chunksAux (splits l.length k) l.length l := by
  unfold chunks at h
  split at h
  · cases h
  · rename_i hne
    injection h with h
    refine ⟨?_, h.symm⟩
    intro e; subst e; simp at hne

theorem length_pos_of_ne_nil' {α : Type} {l : List α} (h : l ≠ []) : 1 ≤ l.length := by
  cases l with
  | nil => exact absurd rfl h
  | cons x xs => simp

theorem chunks_flatten {α : Type} {l : List α} {k : Nat} {cs : List (List α)}
    (h : chunks l k = .ok cs) : cs.flatten = l := by
  obtain ⟨hne, rfl⟩ := chunks_ok h
  exact chunksAux_flatten _ (splits_pos (length_pos_of_ne_nil' hne)) _ _ (Nat.le_refl _)

theorem chunks_exists {α : Type} {l : List α} (k : Nat) (hne : l ≠ []) :
    ∃ cs, chunks l k = .ok cs := by
  unfold chunks
  cases l with
  | nil => exact absurd rfl hne
  | cons x xs => exact ⟨_, rfl⟩

/-! ### the batch driver -/

theorem runBatch_eq {σ ρ : Type} (solo : σ → ρ) (doc : List σ) (maxChunk procs : Nat) :
    runBatch solo doc maxChunk procs = .ok (doc.map solo) := by
  unfold runBatch
  split
  · rfl
  · rename_i hlen
    have hne : doc ≠ [] := by intro e; subst e; simp at hlen
    obtain ⟨cs, hcs⟩ := chunks_exists procs hne
    rw [hcs]
    have hf := chunks_flatten hcs
    show Except.ok _ = Except.ok _
    rw [← hf, List.map_flatten]

/-! ### the shape check -/

theorem shapesOK_false {numCats : Nat} {sents : List Shapes}
    (h : ∃ s ∈ sents, s.tag ≠ (s.tokens, numCats) ∨ s.dep ≠ (s.tokens, s.tokens + 1)) :
    shapesOK numCats sents = false := by
  induction sents with
  | nil => obtain ⟨s, hs, _⟩ := h; cases hs
  | cons x xs ih =>
    obtain ⟨s, hs, hbad⟩ := h
    rcases List.mem_cons.1 hs with rfl | hs
    · rcases hbad with hb | hb <;> simp [shapesOK, hb]
    · have := ih ⟨s, hs, hbad⟩
      simp [shapesOK, this]

theorem shapesOK_true {numCats : Nat} {sents : List Shapes}
    (h : ∀ s ∈ sents, s.tag = (s.tokens, numCats) ∧ s.dep = (s.tokens, s.tokens + 1)) :
    shapesOK numCats sents = true := by
  induction sents with
  | nil => rfl
  | cons x xs ih =>
    obtain ⟨h1, h2⟩ := h x (List.mem_cons_self ..)
    have := ih (fun s hs => h s (List.mem_cons_of_mem _ hs))
    simp [shapesOK, h1, h2, this]

/-! ### renaming: items -/

section Rename
variable {σ : Nat → Nat}

@[simp] theorem renameItem_prio (σ : Nat → Nat) (it : Item) : (renameItem σ it).prio = it.prio := rfl
@[simp] theorem renameItem_stop (σ : Nat → Nat) (it : Item) : (renameItem σ it).stop = it.stop := rfl
@[simp] theorem renameItem_fin (σ : Nat → Nat) (it : Item) : (renameItem σ it).fin = it.fin := rfl
@[simp] theorem renameItem_cat (σ : Nat → Nat) (it : Item) : (renameItem σ it).cat = σ it.cat := rfl
@[simp] theorem renameItem_start (σ : Nat → Nat) (it : Item) : (renameItem σ it).start = it.start := rfl
@[simp] theorem renameItem_len (σ : Nat → Nat) (it : Item) : (renameItem σ it).len = it.len := rfl
@[simp] theorem renameItem_head (σ : Nat → Nat) (it : Item) : (renameItem σ it).head = it.head := rfl
@[simp] theorem renameItem_rule (σ : Nat → Nat) (it : Item) : (renameItem σ it).rule = it.rule := rfl
@[simp] theorem renameItem_inS (σ : Nat → Nat) (it : Item) : (renameItem σ it).inS = it.inS := rfl
@[simp] theorem renameItem_outS (σ : Nat → Nat) (it : Item) : (renameItem σ it).outS = it.outS := rfl
@[simp] theorem renameItem_d (σ : Nat → Nat) (it : Item) :
    (renameItem σ it).d = renameDeriv σ it.d := rfl

/-- the renaming of a search state -/
def renameSt (σ : Nat → Nat) (st : St) : St :=
  { agenda := st.agenda.map (renameItem σ), chart := st.chart.map (renameItem σ),
    goal := st.goal.map (renameItem σ), popped := st.popped.map (renameItem σ),
    steps := st.steps, tie := st.tie }

/-! ### renaming: the pick -/

theorem foldl_maxPrio_map (σ : Nat → Nat) (l : List Item) (a : Int) :
    (l.map (renameItem σ)).foldl (fun m i => max m i.prio) a
      = l.foldl (fun m i => max m i.prio) a := by
  induction l generalizing a with
  | nil => rfl
  | cons x xs ih => simp only [List.map_cons, List.foldl_cons, renameItem_prio, ih]

theorem maxPrio_map (σ : Nat → Nat) (l : List Item) :
    maxPrio (l.map (renameItem σ)) = maxPrio l := by
  cases l with
  | nil => rfl
  | cons x xs => simp only [List.map_cons, maxPrio, foldl_maxPrio_map, renameItem_prio]

def renamePick (σ : Nat → Nat) (p : Item × List Item) : Item × List Item :=
  (renameItem σ p.1, p.2.map (renameItem σ))

theorem removeFirst_map (σ : Nat → Nat) (p : Item → Bool)
    (hp : ∀ x, p (renameItem σ x) = p x) (l : List Item) :
    removeFirst p (l.map (renameItem σ)) = (removeFirst p l).map (renamePick σ) := by
  induction l with
  | nil => rfl
  | cons x xs ih =>
    simp only [List.map_cons, removeFirst, hp]
    split
    · rfl
    · rw [ih]
      cases removeFirst p xs with
      | none => rfl
      | some q => obtain ⟨y, rest⟩ := q; rfl

theorem c11_popFirstMax_map (σ : Nat → Nat) (l : List Item) :
    popFirstMax (l.map (renameItem σ)) = (popFirstMax l).map (renamePick σ) := by
  unfold popFirstMax
  rw [maxPrio_map]
  cases maxPrio l with
  | none => rfl
  | some m => exact removeFirst_map σ _ (fun _ => rfl) l

/-! ### renaming: the binary heap

Every comparison made by `siftUp` / `sink` / the guard of `popHeap` looks at `Item.prio` only, so the
heap operations commute with any map that preserves the priorities. -/

theorem c11_swapIfInBounds_map {α β : Type} (f : α → β) (a : Array α) (i j : Nat) :
    (a.map f).swapIfInBounds i j = (a.swapIfInBounds i j).map f := by
  unfold Array.swapIfInBounds
  simp only [Array.size_map]
  split
  · split
    · apply Array.ext
      · simp
      · intro k h1 h2
        simp [Array.getElem_swap]
        split
        · rfl
        · split <;> rfl
    · rfl
  · rfl

section HeapMap
variable (f : Item → Item) (hf : ∀ x, (f x).prio = x.prio)
include hf

theorem c11_siftUp_map (fuel : Nat) : ∀ (a : Array Item) (i : Nat),
    siftUp (a.map f) fuel i = (siftUp a fuel i).map f := by
  induction fuel with
  | zero => intro a i; rfl
  | succ fuel ih =>
    intro a i
    simp only [siftUp]
    split
    · rfl
    · simp only [Array.getElem?_map]
      cases hp : a[(i - 1) / 2]? with
      | none => rfl
      | some x =>
        cases hi : a[i]? with
        | none => rfl
        | some v =>
          simp only [Option.map_some, hf]
          split
          · rw [c11_swapIfInBounds_map, ih]
          · rfl

theorem c11_heapPush_map (a : Array Item) (v : Item) :
    heapPush (a.map f) (f v) = (heapPush a v).map f := by
  unfold heapPush
  rw [← Array.map_push, c11_siftUp_map f hf, Array.size_map]

theorem c11_childIdx_map (a : Array Item) (h : Nat) :
    heap_childIdx (a.map f) h = heap_childIdx a h := by
  unfold heap_childIdx
  simp only [Array.getElem?_map]
  cases a[2 * (h + 1)]? <;> cases a[2 * (h + 1) - 1]? <;>
    simp only [Option.map_some, Option.map_none, hf]

theorem c11_sink_map (len : Nat) (fuel : Nat) : ∀ (a : Array Item) (h : Nat),
    sink len (a.map f) fuel h = ((sink len a fuel h).1.map f, (sink len a fuel h).2) := by
  induction fuel with
  | zero => intro a h; rfl
  | succ fuel ih =>
    intro a h
    simp only [heap_sink_succ, c11_childIdx_map f hf]
    split
    · rw [c11_swapIfInBounds_map, ih]
    · split
      · rw [c11_swapIfInBounds_map]
      · rfl

theorem c11_heapPop_map (a : Array Item) :
    heapPop (a.map f) = (heapPop a).map fun p => (f p.1, p.2.map f) := by
  unfold heapPop
  simp only [Array.getElem?_map, Array.size_map]
  cases a[0]? with
  | none => rfl
  | some top =>
    simp only [Option.map_some]
    split
    · simp
    · simp only [c11_swapIfInBounds_map, ← Array.map_pop, c11_sink_map f hf, Array.size_map,
        c11_siftUp_map f hf, Option.map_some]

theorem c11_foldl_heapPush_map (new : List Item) : ∀ (arr : Array Item),
    (new.map f).foldl heapPush (arr.map f) = (new.foldl heapPush arr).map f := by
  induction new with
  | nil => intro arr; rfl
  | cons x xs ih =>
    intro arr
    simp only [List.map_cons, List.foldl_cons, c11_heapPush_map f hf, ih]

theorem c11_pushHeap_map (new old : List Item) :
    pushHeap (new.map f) (old.map f) = (pushHeap new old).map f := by
  unfold pushHeap
  rw [← List.map_toArray, c11_foldl_heapPush_map f hf, Array.toList_map]

theorem c11_allLe_map (l : List Item) (m : Int) :
    ((l.map f).all fun o => o.prio ≤ m) = l.all fun o => o.prio ≤ m := by
  induction l with
  | nil => rfl
  | cons x xs ih =>
    simp only [List.map_cons, List.all_cons]
    rw [ih, hf x]

end HeapMap

theorem c11_popHeap_map (σ : Nat → Nat) (l : List Item) :
    popHeap (l.map (renameItem σ)) = (popHeap l).map (renamePick σ) := by
  cases l with
  | nil => rfl
  | cons top xs =>
    have hg : ((renameItem σ top :: xs.map (renameItem σ)).all
          fun o => o.prio ≤ (renameItem σ top).prio)
        = (top :: xs).all fun o => o.prio ≤ top.prio :=
      c11_allLe_map (renameItem σ) (fun _ => rfl) (top :: xs) top.prio
    have hp := c11_heapPop_map (renameItem σ) (fun _ => rfl) (top :: xs).toArray
    rw [List.map_toArray, List.map_cons] at hp
    by_cases hc : ((top :: xs).all fun o => o.prio ≤ top.prio) = true
    · have hc' := hg.trans hc
      simp only [popHeap, List.map_cons, if_pos hc, if_pos hc', hp]
      cases heapPop (top :: xs).toArray with
      | none => rfl
      | some q => simp only [Option.map_some, renamePick, Array.toList_map]
    · have hc' : ¬ ((renameItem σ top :: xs.map (renameItem σ)).all
          fun o => o.prio ≤ (renameItem σ top).prio) = true := fun h => hc (hg.symm.trans h)
      simp only [popHeap, List.map_cons, if_neg hc, if_neg hc']
      exact c11_popFirstMax_map σ (top :: xs)

theorem c11_pickHeap_pop_map (σ : Nat → Nat) (l : List Item) :
    pickHeap.pop (l.map (renameItem σ)) = (pickHeap.pop l).map (renamePick σ) :=
  c11_popHeap_map σ l

theorem c11_pickHeap_push_map (σ : Nat → Nat) (new old : List Item) :
    pickHeap.push (new.map (renameItem σ)) (old.map (renameItem σ))
      = (pickHeap.push new old).map (renameItem σ) :=
  c11_pushHeap_map (renameItem σ) (fun _ => rfl) new old

/-! ### renaming: the chart walk -/

theorem c11_flatMap_congr {α β : Type} (l : List α) (f f' : α → List β)
    (h : ∀ a ∈ l, f a = f' a) : l.flatMap f = l.flatMap f' := by
  induction l with
  | nil => rfl
  | cons x xs ih =>
    simp only [List.flatMap_cons]
    rw [h x (List.mem_cons_self ..), ih (fun a ha => h a (List.mem_cons_of_mem _ ha))]

theorem c11_neighbours_map (f : Item → Item) (hlen : ∀ x, (f x).len = x.len)
    (p p' : Item → Bool) (hp : ∀ o, p' (f o) = p o) (chart : List Item) :
    neighbours (chart.map f) p' = (neighbours chart p).map f := by
  unfold neighbours
  have hc : (chart.map f).filter p' = (chart.filter p).map f := by
    rw [List.filter_map]
    congr 1
    apply List.filter_congr
    intro o _
    exact hp o
  simp only [hc]
  have hk : ((chart.filter p).map f).reverse.map (·.len) = (chart.filter p).reverse.map (·.len) := by
    rw [← List.map_reverse, List.map_map]
    apply List.map_congr_left
    intro o _
    exact hlen o
  rw [hk, List.map_flatMap]
  apply c11_flatMap_congr
  intro k _
  rw [List.filter_map]
  congr 1
  apply List.filter_congr
  intro o _
  simp only [Function.comp, hlen]

/-! ### renaming: closed-set tests -/

theorem inChart_map (hinj : ∀ a b, σ a = σ b → a = b) (chart : List Item) (it : Item) :
    inChart (chart.map (renameItem σ)) (renameItem σ it) = inChart chart it := by
  unfold inChart
  induction chart with
  | nil => rfl
  | cons o os ih =>
    have e : (σ o.cat = σ it.cat) ↔ (o.cat = it.cat) := ⟨hinj _ _, fun h => by rw [h]⟩
    simp only [List.map_cons, List.any_cons, renameItem_start, renameItem_len,
      renameItem_cat, e] at ih ⊢
    rw [ih]

theorem inGoal_map (hinj : ∀ a b, σ a = σ b → a = b) (goal : List Item) (it : Item) :
    inGoal (goal.map (renameItem σ)) (renameItem σ it) = inGoal goal it := by
  unfold inGoal
  induction goal with
  | nil => rfl
  | cons o os ih =>
    have e : (σ o.cat = σ it.cat) ↔ (o.cat = it.cat) := ⟨hinj _ _, fun h => by rw [h]⟩
    simp only [List.map_cons, List.any_cons, renameItem_cat, e] at ih ⊢
    rw [ih]

theorem anyPrio_map (σ : Nat → Nat) (rest : List Item) (it : Item) :
    ((rest.map (renameItem σ)).any fun o => o.prio == (renameItem σ it).prio)
      = rest.any fun o => o.prio == it.prio := by
  induction rest with
  | nil => rfl
  | cons o os ih =>
    simp only [List.map_cons, List.any_cons, renameItem_prio] at ih ⊢
    rw [ih]

/-! ### the sentence: everything but `roots` is shared -/

theorem depAt_congr {s s' : Sent} (hd : s'.deps = s.deps) (a b : Nat) :
    depAt s' a b = depAt s a b := by
  unfold depAt; rw [hd]

theorem bestTag_congr {s s' : Sent} (ht : s'.tags = s.tags) : bestTag s' = bestTag s := by
  funext t; unfold bestTag; rw [ht]

theorem bestDep_congr {s s' : Sent} (hd : s'.deps = s.deps) : bestDep s' = bestDep s := by
  funext t; unfold bestDep; rw [hd]

theorem binOut_congr {s s' : Sent} (hn : s'.n = s.n) (ht : s'.tags = s.tags)
    (hd : s'.deps = s.deps) (a b c : Nat) : binOut s' a b c = binOut s a b c := by
  unfold binOut; rw [bestTag_congr ht, bestDep_congr hd, hn]

theorem leafOut_congr {s s' : Sent} (hn : s'.n = s.n) (ht : s'.tags = s.tags)
    (hd : s'.deps = s.deps) (t : Nat) : leafOut s' t = leafOut s t := by
  unfold leafOut depLeafOut; rw [bestTag_congr ht, bestDep_congr hd, hn]

theorem admitted_congr {s s' : Sent} (ht : s'.tags = s.tags) (hp : s'.passes = s.passes)
    (cfg : Cfg) (tok : Nat) : admitted s' cfg tok = admitted s cfg tok := by
  unfold admitted candidates; rw [ht, hp]

/-! ### renaming: successors -/

theorem finItem_rename {s s' : Sent} (hd : s'.deps = s.deps) (it : Item) :
    finItem s' (renameItem σ it) = renameItem σ (finItem s it) := by
  simp only [finItem, renameItem, depAt_congr hd]

theorem zipIdx_map' {α β : Type} (f : α → β) (l : List α) (k : Nat) :
    (l.map f).zipIdx k = (l.zipIdx k).map fun p => (f p.1, p.2) := by
  induction l generalizing k with
  | nil => rfl
  | cons x xs ih => simp only [List.map_cons, List.zipIdx_cons, ih]

theorem unaryItems_rename {g g' : Grammar} (hun : ∀ x, g'.un (σ x) = (g.un x).map σ)
    (cfg : Cfg) (it : Item) :
    unaryItems g' cfg (renameItem σ it) = (unaryItems g cfg it).map (renameItem σ) := by
  unfold unaryItems
  rw [renameItem_cat, hun, zipIdx_map', List.map_map, List.map_map]
  rfl

theorem binaryItems_rename {g g' : Grammar} {s s' : Sent}
    (hbin : ∀ x y, g'.bin (σ x) (σ y) = (g.bin x y).map (renameRule σ))
    (hn : s'.n = s.n) (ht : s'.tags = s.tags) (hd : s'.deps = s.deps) (l r : Item) :
    binaryItems g' s' (renameItem σ l) (renameItem σ r)
      = (binaryItems g s l r).map (renameItem σ) := by
  unfold binaryItems
  rw [renameItem_cat, renameItem_cat, hbin, zipIdx_map', List.map_map, List.map_map]
  apply List.map_congr_left
  intro p _
  simp only [Function.comp, renameItem, renameRule, depAt_congr hd, binOut_congr hn ht hd,
    renameDeriv]
  rfl

theorem c11_neighbours_flatMap_rename (p p' : Item → Bool) (f f' : Item → List Item)
    (hp : ∀ o, p' (renameItem σ o) = p o)
    (hf : ∀ o, f' (renameItem σ o) = (f o).map (renameItem σ)) (chart : List Item) :
    (neighbours (chart.map (renameItem σ)) p').flatMap f'
      = ((neighbours chart p).flatMap f).map (renameItem σ) := by
  rw [c11_neighbours_map (renameItem σ) (fun _ => rfl) p p' hp, List.flatMap_map,
    List.map_flatMap]
  apply c11_flatMap_congr
  intro o _
  exact hf o

theorem expand_rename {g g' : Grammar} {s s' : Sent} (h : Renamed σ g g' s s') (cfg : Cfg)
    (chart : List Item) (it : Item) :
    expand g' s' cfg (chart.map (renameItem σ)) (renameItem σ it)
      = (expand g s cfg chart it).map (renameItem σ) := by
  unfold expand
  simp only [List.map_append]
  congr 1
  · congr 1
    · congr 1
      · rw [renameItem_len, renameItem_cat, h.n, h.roots, finItem_rename h.deps]
        split <;> rfl
      · rw [renameItem_len, h.n, unaryItems_rename h.un]
        split <;> rfl
    · exact c11_neighbours_flatMap_rename _ _ _ _ (fun _ => rfl)
        (fun o => binaryItems_rename h.bin h.n h.tags h.deps it o) chart
  · exact c11_neighbours_flatMap_rename _ _ _ _ (fun _ => rfl)
      (fun o => binaryItems_rename h.bin h.n h.tags h.deps o it) chart

/-! ### renaming: the leaves are fixed -/

theorem admitted_fixed {g g' : Grammar} {s s' : Sent} (h : Renamed σ g g' s s') {cfg : Cfg}
    {tok : Nat} {c : Int × Nat} (hc : c ∈ admitted s cfg tok) : σ c.2 = c.2 := by
  have hlt := (SearchProps.mem_admitted hc).1
  apply h.lex (s.tags.getD tok []) _ c.2 hlt
  rw [List.getD_eq_getElem?_getD] at hlt ⊢
  cases hrow : s.tags[tok]? with
  | none => rw [hrow] at hlt; simp at hlt
  | some row => exact List.mem_of_getElem? hrow

theorem flatMap_congr' {α β : Type} (l : List α) (f f' : α → List β)
    (h : ∀ a ∈ l, f a = f' a) : l.flatMap f = l.flatMap f' := by
  induction l with
  | nil => rfl
  | cons x xs ih =>
    simp only [List.flatMap_cons]
    rw [h x (List.mem_cons_self ..), ih (fun a ha => h a (List.mem_cons_of_mem _ ha))]

theorem leafItems_rename {g g' : Grammar} {s s' : Sent} (h : Renamed σ g g' s s') (cfg : Cfg) :
    leafItems s' cfg = (leafItems s cfg).map (renameItem σ) := by
  unfold leafItems
  rw [h.n, List.map_flatMap]
  apply flatMap_congr'
  intro tok _
  rw [admitted_congr h.tags h.passes, List.map_map]
  apply List.map_congr_left
  intro c hc
  have hfix := admitted_fixed h hc
  simp only [Function.comp, leafItem, renameItem, renameDeriv, hfix,
    leafOut_congr h.n h.tags h.deps]

/-! ### renaming: one step, the loop, the run -/

theorem stepWith_rename {g g' : Grammar} {s s' : Sent} (h : Renamed σ g g' s s') (cfg : Cfg)
    (st : St) :
    stepWith pickHeap g' s' cfg (renameSt σ st)
      = (stepWith pickHeap g s cfg st).map (renameSt σ) := by
  unfold stepWith
  simp only [renameSt, List.length_map]
  split
  · rfl
  · rw [c11_pickHeap_pop_map]
    cases pickHeap.pop st.agenda with
    | none => rfl
    | some p =>
      obtain ⟨it, rest⟩ := p
      simp only [Option.map_some, renamePick, anyPrio_map, renameItem_fin,
        inGoal_map h.inj, inChart_map h.inj, expand_rename h]
      split
      · split <;> rfl
      · split
        · rfl
        · simp only [Option.map_some, renameSt, c11_pickHeap_push_map, List.map_cons]

theorem loop_rename {g g' : Grammar} {s s' : Sent} (h : Renamed σ g g' s s') (cfg : Cfg)
    (fuel : Nat) (st : St) :
    loop pickHeap g' s' cfg fuel (renameSt σ st)
      = renameSt σ (loop pickHeap g s cfg fuel st) := by
  induction fuel generalizing st with
  | zero => rfl
  | succ fuel ih =>
    simp only [loop, stepWith_rename h]
    cases stepWith pickHeap g s cfg st with
    | none => rfl
    | some st' => exact ih st'

theorem init_rename {g g' : Grammar} {s s' : Sent} (h : Renamed σ g g' s s') (cfg : Cfg) :
    init pickHeap s' cfg = renameSt σ (init pickHeap s cfg) := by
  unfold init renameSt
  rw [leafItems_rename h]
  have hp := c11_pickHeap_push_map σ (leafItems s cfg) []
  rw [List.map_nil] at hp
  rw [hp]
  rfl

theorem insertDesc_map (σ : Nat → Nat) (it : Item) (l : List Item) :
    insertDesc (renameItem σ it) (l.map (renameItem σ)) = (insertDesc it l).map (renameItem σ) := by
  induction l with
  | nil => rfl
  | cons o os ih =>
    by_cases hle : o.prio ≤ it.prio
    · have hle' : (renameItem σ o).prio ≤ (renameItem σ it).prio := hle
      simp only [List.map_cons, insertDesc, if_pos hle, if_pos hle']
    · have hle' : ¬ (renameItem σ o).prio ≤ (renameItem σ it).prio := hle
      simp only [List.map_cons, insertDesc, if_neg hle, if_neg hle', ih]

theorem sortDesc_map (σ : Nat → Nat) (l : List Item) :
    sortDesc (l.map (renameItem σ)) = (sortDesc l).map (renameItem σ) := by
  induction l with
  | nil => rfl
  | cons o os ih =>
    show insertDesc (renameItem σ o) (sortDesc (os.map (renameItem σ))) = _
    rw [ih, insertDesc_map]
    rfl

theorem run_rename_all {g g' : Grammar} {s s' : Sent} (h : Renamed σ g g' s s') (cfg : Cfg) :
    (run g' s' cfg).results = (run g s cfg).results.map (renameItem σ) ∧
    (run g' s' cfg).popped = (run g s cfg).popped.map (renameItem σ) ∧
    (run g' s' cfg).steps = (run g s cfg).steps ∧
    (run g' s' cfg).tie = (run g s cfg).tie := by
  unfold run runWith
  simp only [init_rename h, loop_rename h]
  refine ⟨?_, ?_, rfl, rfl⟩
  · exact sortDesc_map σ _
  · simp only [renameSt, List.map_reverse]

end Rename

end Depccg.C11
