/-
  Helper lemmas for C04 (Japanese combinatory rules are sound).  Core Lean only.
-/
import Depccg.Props.C04Defs
import Depccg.Props.C06
import Depccg.Props.C14
import Depccg.Props.C13

namespace Depccg.C04
open Depccg Cat Str Unify
open Depccg.C03 (PartsMatch Inst fwdSlash bwdSlash)
open Depccg.C06 (Shape matched vars feats Linear VarsOK SharedBlind FeatCompat AllCompat SameKind
  InstanceOf lastMatched grammarPatterns)

/-! ### running the list of combinators -/

theorem applyAll_mem {cs : List En.Comb} {x y : Cat} {rs : List RuleRes}
    (h : En.applyAll cs x y = .ok rs) {r : RuleRes} (hr : r ∈ rs) :
    ∃ c ∈ cs, c x y = .ok (some r) := by
  induction cs generalizing rs with
  | nil => simp only [En.applyAll] at h; cases h; cases hr
  | cons c cs ih =>
    simp only [En.applyAll] at h
    cases hc : c x y with
    | error e => rw [hc] at h; cases h
    | ok o =>
      rw [hc] at h
      cases hcs : En.applyAll cs x y with
      | error e => rw [hcs] at h; cases h
      | ok rs' =>
        rw [hcs] at h
        simp only at h
        cases h
        cases o with
        | none =>
          obtain ⟨c', hc', h'⟩ := ih hcs hr
          exact ⟨c', List.mem_cons_of_mem _ hc', h'⟩
        | some v =>
          rcases List.mem_cons.1 hr with rfl | hr
          · exact ⟨c, List.mem_cons_self .., hc⟩
          · obtain ⟨c', hc', h'⟩ := ih hcs hr
            exact ⟨c', List.mem_cons_of_mem _ hc', h'⟩

theorem applyBinary_mem {seen : Option (List (Cat × Cat))} {x y : Cat} {rs : List RuleRes}
    (h : Ja.applyBinary seen x y = .ok rs) {r : RuleRes} (hr : r ∈ rs) :
    ∃ c ∈ Ja.combinators, c x y = .ok (some r) := by
  cases seen with
  | none => exact applyAll_mem (cs := Ja.combinators) h hr
  | some S =>
    by_cases hg : (S.any fun p => Cat.pyEq p.1 x && Cat.pyEq p.2 y) = true
    · simp only [Ja.applyBinary, hg, if_true] at h
      exact applyAll_mem h hr
    · simp only [Ja.applyBinary, hg] at h
      cases h; cases hr

/-! ### the common shape of the ten matching combinators -/

theorem viaUnify_inv {px py x y mo keep : Cat} {os sym : String} {build : Bindings → Except Err Cat}
    {r : RuleRes} (h : Ja.viaUnify px py x y mo keep os sym build = .ok (some r)) :
    ∃ σ, unify px py x y = .ok (some σ) ∧
      ((isModifier mo = true ∧ r = lab os sym keep) ∨
       (isModifier mo = false ∧ ∃ c, build σ = .ok c ∧ r = lab os sym c)) := by
  simp only [Ja.viaUnify] at h
  cases hu : unify px py x y with
  | error e => rw [hu] at h; cases h
  | ok o =>
    rw [hu] at h
    cases o with
    | none => cases h
    | some σ =>
      refine ⟨σ, rfl, ?_⟩
      simp only at h
      cases hm : isModifier mo with
      | true =>
        rw [hm] at h
        simp only [Ja.mk, if_true] at h
        cases h
        exact Or.inl ⟨rfl, rfl⟩
      | false =>
        rw [hm] at h
        simp only [Bool.false_eq_true, if_false] at h
        cases hb : build σ with
        | error e => rw [hb] at h; cases h
        | ok c =>
          rw [hb] at h
          simp only [Ja.mk] at h
          cases h
          exact Or.inr ⟨rfl, c, rfl, rfl⟩

/-- labels and head of whatever `viaUnify` returns -/
theorem viaUnify_label {px py x y mo keep : Cat} {os sym : String} {build : Bindings → Except Err Cat}
    {r : RuleRes} (h : Ja.viaUnify px py x y mo keep os sym build = .ok (some r)) :
    r.opString = lit os ∧ r.opSymbol = lit sym ∧ r.headLeft = false := by
  obtain ⟨σ, _, ⟨_, rfl⟩ | ⟨_, c, _, rfl⟩⟩ := viaUnify_inv h <;> exact ⟨rfl, rfl, rfl⟩

/-! ### three-part features -/

theorem allTernary_feats {c : Cat} (h : C14.AllTernary c) :
    ∀ f ∈ feats c, ∃ k1 v1 k2 v2 k3 v3, f = .tri k1 v1 k2 v2 k3 v3 := by
  induction c with
  | atom b f =>
    intro g hg
    simp only [feats, List.mem_singleton] at hg
    subst hg
    cases g with
    | un v => exact h.elim
    | tri k1 v1 k2 v2 k3 v3 => exact ⟨_, _, _, _, _, _, rfl⟩
  | fn l s r ihl ihr =>
    intro g hg
    simp only [feats, List.mem_append] at hg
    rcases hg with hg | hg
    · exact ihl h.1 g hg
    · exact ihr h.2 g hg

theorem sameKind_of_allTernary {x y : Cat} (hx : C14.AllTernary x) (hy : C14.AllTernary y) :
    SameKind x y := by
  refine Or.inr fun f hf => ?_
  rcases List.mem_append.1 hf with hf | hf
  · exact allTernary_feats hx f hf
  · exact allTernary_feats hy f hf

/-- everything the soundness proofs need from a successful match -/
theorem unify_facts {px py x y : Cat} {σ : Bindings} (hp : (px, py) ∈ grammarPatterns)
    (hx : C14.AllTernary x) (hy : C14.AllTernary y) (h : unify px py x y = .ok (some σ)) :
    Shape px x ∧ Shape py y ∧ SharedBlind px py x y ∧ FeatCompat px py x y ∧
      ∀ v c, lastMatched px py x y v = some c → v ∈ vars px ++ vars py →
        ∃ b, σ.get v = .ok b ∧ Inst x y b c := by
  obtain ⟨lx, ly, vx, vy⟩ := C06.grammar_patterns_ok (px, py) hp
  obtain ⟨s1, s2, hb, hc⟩ :=
    (C06.unify_ok_iff px py x y lx ly vx vy (sameKind_of_allTernary hx hy)).1 ⟨σ, h⟩
  refine ⟨s1, s2, hb, hc, ?_⟩
  intro v c hl hv
  obtain ⟨c', b, hl', hg, hi, _⟩ := C06.binding_spec px py x y σ lx ly h v hv
  rw [hl] at hl'
  cases hl'
  exact ⟨b, hg, hi⟩

theorem shape_fn_inv {pl pr t : Cat} {ps : Nat} (h : Shape (.fn pl ps pr) t) :
    ∃ tl ts tr, t = .fn tl ts tr ∧ (ps = ts ∨ ps = cBar ∨ ts = cBar) ∧ Shape pl tl ∧ Shape pr tr := by
  cases t with
  | atom b f => exact h.elim
  | fn tl ts tr => exact ⟨tl, ts, tr, rfl, h.1, h.2.1, h.2.2⟩

theorem fwd_of {s : Nat} (h : cSlash = s ∨ cSlash = cBar ∨ s = cBar) : fwdSlash s := by
  rcases h with h | h | h
  · exact Or.inl h.symm
  · exact absurd h (by decide)
  · exact Or.inr h

theorem bwd_of {s : Nat} (h : cBSlash = s ∨ cBSlash = cBar ∨ s = cBar) : bwdSlash s := by
  rcases h with h | h | h
  · exact Or.inl h.symm
  · exact absurd h (by decide)
  · exact Or.inr h

theorem isModifier_fn_true {l r : Cat} {s : Nat} (h : isModifier (.fn l s r) = true) : l = r :=
  (C13.pyEq_iff l r).1 h

theorem isModifier_fn_false {l r : Cat} {s : Nat} (h : isModifier (.fn l s r) = false) : l ≠ r := by
  intro e
  have : isModifier (.fn l s r) = true := (C13.pyEq_iff l r).2 e
  rw [h] at this
  cases this

/-! ### the combinators, one by one -/

section sound
variable {x y : Cat} {r : RuleRes} (hx : C14.AllTernary x) (hy : C14.AllTernary y)
include hx hy

open Pat in
theorem fa_sound (h : Ja.forwardApplication x y = .ok (some r)) : Justified x y r := by
  obtain ⟨σ, hσ, hr⟩ := viaUnify_inv h
  obtain ⟨sx, -, hb, hc, hbind⟩ := unify_facts (by decide) hx hy hσ
  obtain ⟨xa, s, xb, rfl, hs, -, -⟩ := shape_fn_inv sx
  have pm : PartsMatch xb y :=
    ⟨hb [98] xb y (by simp [matched, fwd, a, b]) (by simp [matched, b]),
     hc [98] xb y (by simp [matched, fwd, a, b]) (by simp [matched, b])⟩
  rcases hr with ⟨hm, rfl⟩ | ⟨hm, c, hcb, rfl⟩
  · exact .fa_mod xa xb s rfl (fwd_of hs) pm (isModifier_fn_true hm)
  · obtain ⟨ra, hga, hia⟩ := hbind [97] xa rfl (by decide)
    rw [hga] at hcb
    cases hcb
    exact .fa xa xb _ s rfl (fwd_of hs) pm (isModifier_fn_false hm) hia

open Pat in
theorem ba_sound (h : Ja.backwardApplication x y = .ok (some r)) : Justified x y r := by
  obtain ⟨σ, hσ, hr⟩ := viaUnify_inv h
  obtain ⟨-, sy, hb, hc, hbind⟩ := unify_facts (by decide) hx hy hσ
  obtain ⟨ya, s, yb, rfl, hs, -, -⟩ := shape_fn_inv sy
  have pm : PartsMatch x yb :=
    ⟨hb [98] x yb (by simp [matched, b]) (by simp [matched, bwd, a, b]),
     hc [98] x yb (by simp [matched, b]) (by simp [matched, bwd, a, b])⟩
  rcases hr with ⟨hm, rfl⟩ | ⟨hm, c, hcb, rfl⟩
  · exact .ba_mod ya yb s rfl (bwd_of hs) pm (isModifier_fn_true hm)
  · obtain ⟨ra, hga, hia⟩ := hbind [97] ya rfl (by decide)
    rw [hga] at hcb
    cases hcb
    exact .ba ya yb _ s rfl (bwd_of hs) pm (isModifier_fn_false hm) hia

open Pat in
theorem fc_sound (h : Ja.forwardComposition x y = .ok (some r)) : Justified x y r := by
  obtain ⟨σ, hσ, hr⟩ := viaUnify_inv h
  obtain ⟨sx, sy, hb, hc, hbind⟩ := unify_facts (by decide) hx hy hσ
  obtain ⟨xa, s1, xb, rfl, hs1, -, -⟩ := shape_fn_inv sx
  obtain ⟨yb, s2, yc, rfl, hs2, -, -⟩ := shape_fn_inv sy
  have pm : PartsMatch xb yb :=
    ⟨hb [98] xb yb (by simp [matched, fwd, a, b]) (by simp [matched, fwd, b, c]),
     hc [98] xb yb (by simp [matched, fwd, a, b]) (by simp [matched, fwd, b, c])⟩
  rcases hr with ⟨hm, rfl⟩ | ⟨hm, c, hcb, rfl⟩
  · exact .fc_mod xa xb yb yc s1 s2 rfl rfl (fwd_of hs1) (fwd_of hs2) pm (isModifier_fn_true hm)
  · obtain ⟨ra, hga, hia⟩ := hbind [97] xa rfl (by decide)
    obtain ⟨rc, hgc, hic⟩ := hbind [99] yc rfl (by decide)
    rw [C14.get2_eq _ hga hgc] at hcb
    cases hcb
    exact .fc xa xb yb yc ra rc s1 s2 rfl rfl (fwd_of hs1) (fwd_of hs2) pm (isModifier_fn_false hm) hia hic

open Pat in
theorem gbc1_sound (h : Ja.generalizedBackwardComposition1 x y = .ok (some r)) : Justified x y r := by
  obtain ⟨σ, hσ, hr⟩ := viaUnify_inv h
  obtain ⟨sx, sy, hb, hc, hbind⟩ := unify_facts (by decide) hx hy hσ
  obtain ⟨xb, s1, xc, rfl, hs1, -, -⟩ := shape_fn_inv sx
  obtain ⟨ya, s2, yb, rfl, hs2, -, -⟩ := shape_fn_inv sy
  have pm : PartsMatch xb yb :=
    ⟨hb [98] xb yb (by simp [matched, bwd, b, c]) (by simp [matched, bwd, a, b]),
     hc [98] xb yb (by simp [matched, bwd, b, c]) (by simp [matched, bwd, a, b])⟩
  rcases hr with ⟨hm, rfl⟩ | ⟨hm, c, hcb, rfl⟩
  · exact .b1_mod ya xb yb xc s1 s2 rfl rfl (bwd_of hs1) (bwd_of hs2) pm (isModifier_fn_true hm)
  · obtain ⟨ra, hga, hia⟩ := hbind [97] ya rfl (by decide)
    obtain ⟨rc, hgc, hic⟩ := hbind [99] xc rfl (by decide)
    rw [C14.get2_eq _ hga hgc] at hcb
    cases hcb
    exact .b1 ya xb yb xc ra rc s1 s2 rfl rfl (bwd_of hs1) (bwd_of hs2) pm (isModifier_fn_false hm) hia hic

open Pat in
theorem gbc2_sound (h : Ja.generalizedBackwardComposition2 x y = .ok (some r)) : Justified x y r := by
  obtain ⟨σ, hσ, hr⟩ := viaUnify_inv h
  obtain ⟨sx, sy, hb, hc, hbind⟩ := unify_facts (by decide) hx hy hσ
  obtain ⟨x1, s3, xd, rfl, -, sx1, -⟩ := shape_fn_inv sx
  obtain ⟨xb, s1, xc, rfl, hs1, -, -⟩ := shape_fn_inv sx1
  obtain ⟨ya, s2, yb, rfl, hs2, -, -⟩ := shape_fn_inv sy
  have pm : PartsMatch xb yb :=
    ⟨hb [98] xb yb (by simp [matched, any, bwd, b, c, d]) (by simp [matched, bwd, a, b]),
     hc [98] xb yb (by simp [matched, any, bwd, b, c, d]) (by simp [matched, bwd, a, b])⟩
  rcases hr with ⟨hm, rfl⟩ | ⟨hm, c, hcb, rfl⟩
  · exact .b2_mod ya xb yb xc xd s1 s2 s3 rfl rfl (bwd_of hs1) (bwd_of hs2) pm (isModifier_fn_true hm)
  · obtain ⟨ra, hga, hia⟩ := hbind [97] ya rfl (by decide)
    obtain ⟨rc, hgc, hic⟩ := hbind [99] xc rfl (by decide)
    obtain ⟨rd, hgd, hid⟩ := hbind [100] xd rfl (by decide)
    rw [C14.get3_eq _ hga hgc hgd] at hcb
    cases hcb
    exact .b2 ya xb yb xc xd ra rc rd s1 s2 s3 rfl rfl (bwd_of hs1) (bwd_of hs2) pm
      (isModifier_fn_false hm) hia hic hid

open Pat in
theorem gbc3_sound (h : Ja.generalizedBackwardComposition3 x y = .ok (some r)) : Justified x y r := by
  obtain ⟨σ, hσ, hr⟩ := viaUnify_inv h
  obtain ⟨sx, sy, hb, hc, hbind⟩ := unify_facts (by decide) hx hy hσ
  obtain ⟨x2, s4, xe, rfl, -, sx2, -⟩ := shape_fn_inv sx
  obtain ⟨x1, s3, xd, rfl, -, sx1, -⟩ := shape_fn_inv sx2
  obtain ⟨xb, s1, xc, rfl, hs1, -, -⟩ := shape_fn_inv sx1
  obtain ⟨ya, s2, yb, rfl, hs2, -, -⟩ := shape_fn_inv sy
  have pm : PartsMatch xb yb :=
    ⟨hb [98] xb yb (by simp [matched, any, bwd, b, c, d, e]) (by simp [matched, bwd, a, b]),
     hc [98] xb yb (by simp [matched, any, bwd, b, c, d, e]) (by simp [matched, bwd, a, b])⟩
  rcases hr with ⟨hm, rfl⟩ | ⟨hm, c, hcb, rfl⟩
  · exact .b3_mod ya xb yb xc xd xe s1 s2 s3 s4 rfl rfl (bwd_of hs1) (bwd_of hs2) pm
      (isModifier_fn_true hm)
  · obtain ⟨ra, hga, hia⟩ := hbind [97] ya rfl (by decide)
    obtain ⟨rc, hgc, hic⟩ := hbind [99] xc rfl (by decide)
    obtain ⟨rd, hgd, hid⟩ := hbind [100] xd rfl (by decide)
    obtain ⟨re, hge, hie⟩ := hbind [101] xe rfl (by decide)
    rw [C14.get3_eq _ hga hgc hgd] at hcb
    simp only [Ja.leftOf, En.functorOf, hge] at hcb
    cases hcb
    exact .b3 ya xb yb xc xd xe ra rc rd re s1 s2 s3 s4 rfl rfl (bwd_of hs1) (bwd_of hs2) pm
      (isModifier_fn_false hm) hia hic hid hie

open Pat in
theorem gbc4_sound (h : Ja.generalizedBackwardComposition4 x y = .ok (some r)) : Justified x y r := by
  obtain ⟨σ, hσ, hr⟩ := viaUnify_inv h
  obtain ⟨sx, sy, hb, hc, hbind⟩ := unify_facts (by decide) hx hy hσ
  obtain ⟨x3, s5, xf, rfl, -, sx3, -⟩ := shape_fn_inv sx
  obtain ⟨x2, s4, xe, rfl, -, sx2, -⟩ := shape_fn_inv sx3
  obtain ⟨x1, s3, xd, rfl, -, sx1, -⟩ := shape_fn_inv sx2
  obtain ⟨xb, s1, xc, rfl, hs1, -, -⟩ := shape_fn_inv sx1
  obtain ⟨ya, s2, yb, rfl, hs2, -, -⟩ := shape_fn_inv sy
  have pm : PartsMatch xb yb :=
    ⟨hb [98] xb yb (by simp [matched, any, bwd, b, c, d, e, f]) (by simp [matched, bwd, a, b]),
     hc [98] xb yb (by simp [matched, any, bwd, b, c, d, e, f]) (by simp [matched, bwd, a, b])⟩
  rcases hr with ⟨hm, rfl⟩ | ⟨hm, c, hcb, rfl⟩
  · exact .b4_mod ya xb yb xc xd xe xf s1 s2 s3 s4 s5 rfl rfl (bwd_of hs1) (bwd_of hs2) pm
      (isModifier_fn_true hm)
  · obtain ⟨ra, hga, hia⟩ := hbind [97] ya rfl (by decide)
    obtain ⟨rc, hgc, hic⟩ := hbind [99] xc rfl (by decide)
    obtain ⟨rd, hgd, hid⟩ := hbind [100] xd rfl (by decide)
    obtain ⟨re, hge, hie⟩ := hbind [101] xe rfl (by decide)
    obtain ⟨rf, hgf, hif⟩ := hbind [102] xf rfl (by decide)
    rw [C14.get3_eq _ hga hgc hgd] at hcb
    simp only [Ja.leftOf, En.functorOf, hge, hgf] at hcb
    cases hcb
    exact .b4 ya xb yb xc xd xe xf ra rc rd re rf s1 s2 s3 s4 s5 rfl rfl (bwd_of hs1) (bwd_of hs2) pm
      (isModifier_fn_false hm) hia hic hid hie hif

open Pat in
theorem gfc1_sound (h : Ja.generalizedForwardComposition1 x y = .ok (some r)) : Justified x y r := by
  obtain ⟨σ, hσ, hr⟩ := viaUnify_inv h
  obtain ⟨sx, sy, hb, hc, hbind⟩ := unify_facts (by decide) hx hy hσ
  obtain ⟨xa, s1, xb, rfl, hs1, -, -⟩ := shape_fn_inv sx
  obtain ⟨yb, s2, yc, rfl, hs2, -, -⟩ := shape_fn_inv sy
  have pm : PartsMatch xb yb :=
    ⟨hb [98] xb yb (by simp [matched, fwd, a, b]) (by simp [matched, bwd, b, c]),
     hc [98] xb yb (by simp [matched, fwd, a, b]) (by simp [matched, bwd, b, c])⟩
  rcases hr with ⟨hm, rfl⟩ | ⟨hm, c, hcb, rfl⟩
  · exact .x1_mod xa xb yb yc s1 s2 rfl rfl (fwd_of hs1) (bwd_of hs2) pm (isModifier_fn_true hm)
  · obtain ⟨ra, hga, hia⟩ := hbind [97] xa rfl (by decide)
    obtain ⟨rc, hgc, hic⟩ := hbind [99] yc rfl (by decide)
    rw [C14.get2_eq _ hga hgc] at hcb
    cases hcb
    exact .x1 xa xb yb yc ra rc s1 s2 rfl rfl (fwd_of hs1) (bwd_of hs2) pm (isModifier_fn_false hm) hia hic

open Pat in
theorem gfc2_sound (h : Ja.generalizedForwardComposition2 x y = .ok (some r)) : Justified x y r := by
  obtain ⟨σ, hσ, hr⟩ := viaUnify_inv h
  obtain ⟨sx, sy, hb, hc, hbind⟩ := unify_facts (by decide) hx hy hσ
  obtain ⟨xa, s1, xb, rfl, hs1, -, -⟩ := shape_fn_inv sx
  obtain ⟨y1, s3, yd, rfl, -, sy1, -⟩ := shape_fn_inv sy
  obtain ⟨yb, s2, yc, rfl, hs2, -, -⟩ := shape_fn_inv sy1
  have pm : PartsMatch xb yb :=
    ⟨hb [98] xb yb (by simp [matched, fwd, a, b]) (by simp [matched, any, bwd, b, c, d]),
     hc [98] xb yb (by simp [matched, fwd, a, b]) (by simp [matched, any, bwd, b, c, d])⟩
  rcases hr with ⟨hm, rfl⟩ | ⟨hm, c, hcb, rfl⟩
  · exact .x2_mod xa xb yb yc yd s1 s2 s3 rfl rfl (fwd_of hs1) (bwd_of hs2) pm (isModifier_fn_true hm)
  · obtain ⟨ra, hga, hia⟩ := hbind [97] xa rfl (by decide)
    obtain ⟨rc, hgc, hic⟩ := hbind [99] yc rfl (by decide)
    obtain ⟨rd, hgd, hid⟩ := hbind [100] yd rfl (by decide)
    rw [C14.get3_eq _ hga hgc hgd] at hcb
    cases hcb
    exact .x2 xa xb yb yc yd ra rc rd s1 s2 s3 rfl rfl (fwd_of hs1) (bwd_of hs2) pm
      (isModifier_fn_false hm) hia hic hid

open Pat in
theorem gfc3_sound (h : Ja.generalizedForwardComposition3 x y = .ok (some r)) : Justified x y r := by
  obtain ⟨σ, hσ, hr⟩ := viaUnify_inv h
  obtain ⟨sx, sy, hb, hc, hbind⟩ := unify_facts (by decide) hx hy hσ
  obtain ⟨xa, s1, xb, rfl, hs1, -, -⟩ := shape_fn_inv sx
  obtain ⟨y2, s4, ye, rfl, -, sy2, -⟩ := shape_fn_inv sy
  obtain ⟨y1, s3, yd, rfl, -, sy1, -⟩ := shape_fn_inv sy2
  obtain ⟨yb, s2, yc, rfl, hs2, -, -⟩ := shape_fn_inv sy1
  have pm : PartsMatch xb yb :=
    ⟨hb [98] xb yb (by simp [matched, fwd, a, b]) (by simp [matched, any, bwd, b, c, d, e]),
     hc [98] xb yb (by simp [matched, fwd, a, b]) (by simp [matched, any, bwd, b, c, d, e])⟩
  rcases hr with ⟨hm, rfl⟩ | ⟨hm, c, hcb, rfl⟩
  · exact .x3_mod xa xb yb yc yd ye s1 s2 s3 s4 rfl rfl (fwd_of hs1) (bwd_of hs2) pm
      (isModifier_fn_true hm)
  · obtain ⟨ra, hga, hia⟩ := hbind [97] xa rfl (by decide)
    obtain ⟨rc, hgc, hic⟩ := hbind [99] yc rfl (by decide)
    obtain ⟨rd, hgd, hid⟩ := hbind [100] yd rfl (by decide)
    obtain ⟨re, hge, hie⟩ := hbind [101] ye rfl (by decide)
    rw [C14.get3_eq _ hga hgc hgd] at hcb
    simp only [Ja.leftOf, En.functorOf, hge] at hcb
    cases hcb
    exact .x3 xa xb yb yc yd ye ra rc rd re s1 s2 s3 s4 rfl rfl (fwd_of hs1) (bwd_of hs2) pm
      (isModifier_fn_false hm) hia hic hid hie

end sound

theorem conjoin_sound {x y : Cat} {r : RuleRes} (h : Ja.conjoin x y = .ok (some r)) :
    Justified x y r := by
  have root : ∀ z, Ja.possibleRootCategories.any (Cat.pyEq z) = true → IsRoot z := by
    intro z hz
    obtain ⟨c, hc, he⟩ := List.any_eq_true.1 hz
    rw [(C13.pyEq_iff z c).1 he]
    exact hc
  simp only [Ja.conjoin] at h
  split at h
  · rename_i hg
    simp only [Ja.mk] at h
    cases h
    rw [Bool.and_eq_true] at hg
    exact .sseq (root x hg.1) (root y hg.2)
  · cases h

theorem conjoin_label {x y : Cat} {r : RuleRes} (h : Ja.conjoin x y = .ok (some r)) :
    r.opString = lit "other" ∧ r.opSymbol = lit "SSEQ" ∧ r.headLeft = false := by
  simp only [Ja.conjoin] at h
  split at h
  · simp only [Ja.mk] at h
    cases h
    exact ⟨rfl, rfl, rfl⟩
  · cases h

/-- every combinator's result is justified -/
theorem comb_sound {x y : Cat} {r : RuleRes} (hx : C14.AllTernary x) (hy : C14.AllTernary y)
    {c : Ja.Comb} (hc : c ∈ Ja.combinators) (h : c x y = .ok (some r)) : Justified x y r := by
  simp only [Ja.combinators, List.mem_cons, List.not_mem_nil, or_false] at hc
  rcases hc with rfl | rfl | rfl | rfl | rfl | rfl | rfl | rfl | rfl | rfl | rfl
  · exact fa_sound hx hy h
  · exact ba_sound hx hy h
  · exact fc_sound hx hy h
  · exact gbc1_sound hx hy h
  · exact gbc2_sound hx hy h
  · exact gbc3_sound hx hy h
  · exact gbc4_sound hx hy h
  · exact gfc1_sound hx hy h
  · exact gfc2_sound hx hy h
  · exact gfc3_sound hx hy h
  · exact conjoin_sound h

/-- every combinator's labels are in the list, the head is the right child -/
theorem comb_label {x y : Cat} {r : RuleRes} {c : Ja.Comb} (hc : c ∈ Ja.combinators)
    (h : c x y = .ok (some r)) : (r.opString, r.opSymbol) ∈ jaLabels ∧ r.headLeft = false := by
  simp only [Ja.combinators, List.mem_cons, List.not_mem_nil, or_false] at hc
  have key : ∀ {os sym : String}, (lit os, lit sym) ∈ jaLabels →
      (r.opString = lit os ∧ r.opSymbol = lit sym ∧ r.headLeft = false) →
      (r.opString, r.opSymbol) ∈ jaLabels ∧ r.headLeft = false := by
    intro os sym hm ⟨h1, h2, h3⟩
    rw [h1, h2]
    exact ⟨hm, h3⟩
  rcases hc with rfl | rfl | rfl | rfl | rfl | rfl | rfl | rfl | rfl | rfl | rfl
  · exact key (by decide) (viaUnify_label h)
  · exact key (by decide) (viaUnify_label h)
  · exact key (by decide) (viaUnify_label h)
  · exact key (by decide) (viaUnify_label h)
  · exact key (by decide) (viaUnify_label h)
  · exact key (by decide) (viaUnify_label h)
  · exact key (by decide) (viaUnify_label h)
  · exact key (by decide) (viaUnify_label h)
  · exact key (by decide) (viaUnify_label h)
  · exact key (by decide) (viaUnify_label h)
  · exact key (by decide) (conjoin_label h)

/-! ### features of a result come from the inputs -/

/-- all features of `c` occur in the inputs -/
def FeatsSub (x y c : Cat) : Prop := ∀ f ∈ feats c, f ∈ feats x ++ feats y

theorem featsSub_left (x y : Cat) : FeatsSub x y x := fun _ hf => List.mem_append_left _ hf
theorem featsSub_right (x y : Cat) : FeatsSub x y y := fun _ hf => List.mem_append_right _ hf

theorem featsSub_fn {x y l r : Cat} {s : Nat} (hl : FeatsSub x y l) (hr : FeatsSub x y r) :
    FeatsSub x y (.fn l s r) := by
  intro f hf
  simp only [feats, List.mem_append] at hf
  rcases hf with hf | hf
  · exact hl f hf
  · exact hr f hf

theorem instanceOf_sub {pool : List Feat} {r t : Cat} (h : InstanceOf pool r t)
    (ht : ∀ f ∈ feats t, f ∈ pool) : ∀ f ∈ feats r, f ∈ pool := by
  induction r generalizing t with
  | atom b g =>
    cases t with
    | fn l s r' => exact h.elim
    | atom b' g' =>
      intro f hf
      simp only [feats, List.mem_singleton] at hf
      subst hf
      rcases h.2 with e | ⟨_, hm⟩
      · exact ht f (by simp [feats, e])
      · exact hm
  | fn l s r' ihl ihr =>
    cases t with
    | atom b' g' => exact h.elim
    | fn l' s' r'' =>
      intro f hf
      simp only [feats, List.mem_append] at hf
      rcases hf with hf | hf
      · exact ihl h.1 (fun g hg => ht g (by simp [feats, hg])) f hf
      · exact ihr h.2.2 (fun g hg => ht g (by simp [feats, hg])) f hf

theorem featsSub_inst {x y r t : Cat} (h : Inst x y r t) (ht : FeatsSub x y t) : FeatsSub x y r :=
  instanceOf_sub h ht

/-- a sub-category of an input, found by unfolding `feats` -/
macro "feats_sub" : tactic =>
  `(tactic| (intro g hg; simp [C06.feats, hg]))

theorem justified_feats {x y : Cat} {r : RuleRes} (h : Justified x y r) : FeatsSub x y r.cat := by
  cases h with
  | fa_mod | fc_mod | x1_mod | x2_mod | x3_mod | sseq => exact featsSub_right x y
  | ba_mod | b1_mod | b2_mod | b3_mod | b4_mod => exact featsSub_left x y
  | fa a b r s hx' hs pm ne ia =>
    subst hx'
    exact featsSub_inst ia (by feats_sub)
  | ba a b r s hy' hs pm ne ia =>
    subst hy'
    exact featsSub_inst ia (by feats_sub)
  | fc a b b' c ra rc s1 s2 hx' hy' _ _ _ _ ia ic =>
    subst hx' hy'
    exact featsSub_fn (featsSub_inst ia (by feats_sub)) (featsSub_inst ic (by feats_sub))
  | b1 a b b' c ra rc s1 s2 hx' hy' _ _ _ _ ia ic =>
    subst hx' hy'
    exact featsSub_fn (featsSub_inst ia (by feats_sub)) (featsSub_inst ic (by feats_sub))
  | x1 a b b' c ra rc s1 s2 hx' hy' _ _ _ _ ia ic =>
    subst hx' hy'
    exact featsSub_fn (featsSub_inst ia (by feats_sub)) (featsSub_inst ic (by feats_sub))
  | b2 a b b' c d ra rc rd s1 s2 s3 hx' hy' _ _ _ _ ia ic id =>
    subst hx' hy'
    exact featsSub_fn (featsSub_fn (featsSub_inst ia (by feats_sub)) (featsSub_inst ic (by feats_sub)))
      (featsSub_inst id (by feats_sub))
  | x2 a b b' c d ra rc rd s1 s2 s3 hx' hy' _ _ _ _ ia ic id =>
    subst hx' hy'
    exact featsSub_fn (featsSub_fn (featsSub_inst ia (by feats_sub)) (featsSub_inst ic (by feats_sub)))
      (featsSub_inst id (by feats_sub))
  | b3 a b b' c d e ra rc rd re s1 s2 s3 s4 hx' hy' _ _ _ _ ia ic id ie =>
    subst hx' hy'
    exact featsSub_fn (featsSub_fn (featsSub_fn (featsSub_inst ia (by feats_sub))
      (featsSub_inst ic (by feats_sub))) (featsSub_inst id (by feats_sub))) (featsSub_inst ie (by feats_sub))
  | x3 a b b' c d e ra rc rd re s1 s2 s3 s4 hx' hy' _ _ _ _ ia ic id ie =>
    subst hx' hy'
    exact featsSub_fn (featsSub_fn (featsSub_fn (featsSub_inst ia (by feats_sub))
      (featsSub_inst ic (by feats_sub))) (featsSub_inst id (by feats_sub))) (featsSub_inst ie (by feats_sub))
  | b4 a b b' c d e f ra rc rd re rf s1 s2 s3 s4 s5 hx' hy' _ _ _ _ ia ic id ie jf =>
    subst hx' hy'
    exact featsSub_fn (featsSub_fn (featsSub_fn (featsSub_fn (featsSub_inst ia (by feats_sub))
      (featsSub_inst ic (by feats_sub))) (featsSub_inst id (by feats_sub))) (featsSub_inst ie (by feats_sub)))
      (featsSub_inst jf (by feats_sub))

/-! ### unary labels -/

/-- with pairwise different keys, "some pair is `(m, v)`" and "the first key `m` has value `v`" agree -/
theorem has_iff (k1 v1 k2 v2 k3 v3 m v : Str) (h12 : k1 ≠ k2) (h13 : k1 ≠ k3) (h23 : k2 ≠ k3) :
    ((k1 == m && v1 == v) || (k2 == m && v2 == v) || (k3 == m && v3 == v)) = true ↔
    (if k1 == m then some v1 else if k2 == m then some v2 else if k3 == m then some v3 else none)
      = some v := by
  by_cases e1 : k1 = m
  · subst e1
    have n2 : ¬ k2 = k1 := fun e => h12 e.symm
    have n3 : ¬ k3 = k1 := fun e => h13 e.symm
    simp [n2, n3]
  · by_cases e2 : k2 = m
    · subst e2
      have n3 : ¬ k3 = k2 := fun e => h23 e.symm
      simp [e1, n3]
    · by_cases e3 : k3 = m
      · subst e3
        simp [e1, e2]
      · simp [e1, e2, e3]

theorem xorEq_catS (x : Cat) : Cat.xorEq x Ja.catS = true ↔ ushape x = .s := by
  cases x with
  | atom b f =>
    simp only [Cat.xorEq, Ja.catS, ushape]
    split <;> simp_all
  | fn l s r =>
    simp only [Cat.xorEq, Ja.catS, ushape]
    split
    · split
      · split <;> simp
      · split <;> simp
    · simp

theorem xorEq_atom_iff (c : Cat) (b : String) : Cat.xorEq c (.atom (lit b) (.un none)) = isBase c b := by
  cases c <;> rfl

set_option linter.unusedSimpArgs false in
theorem xorEq_sNP (x : Cat) :
    Cat.xorEq x (.fn Ja.catS cBSlash Ja.catNP) = true ↔ ushape x = .s_np := by
  cases x with
  | atom b f => simp only [Cat.xorEq, ushape]; split <;> simp
  | fn l s r =>
    cases l with
    | atom b f =>
      simp only [Cat.xorEq, Ja.catS, Ja.catNP, ushape, xorEq_atom_iff, Bool.and_eq_true]
      by_cases h1 : (s == cBSlash) = true <;> by_cases h2 : isBase r "NP" = true <;>
        by_cases h3 : (b == lit "S") = true <;> simp [h1, h2, h3, isBase]
    | fn l2 s2 r2 =>
      simp only [Cat.xorEq, Ja.catS, ushape]
      split
      · split <;> simp
      · simp

set_option linter.unusedSimpArgs false in
theorem xorEq_sNPNP (x : Cat) :
    Cat.xorEq x (.fn (.fn Ja.catS cBSlash Ja.catNP) cBSlash Ja.catNP) = true ↔ ushape x = .s_np_np := by
  cases x with
  | atom b f => simp only [Cat.xorEq, ushape]; split <;> simp
  | fn l s r =>
    cases l with
    | atom b f =>
      simp only [Cat.xorEq, ushape]
      split
      · split <;> simp
      · simp
    | fn l2 s2 r2 =>
      simp only [Cat.xorEq, Ja.catS, Ja.catNP, ushape, xorEq_atom_iff, Bool.and_eq_true]
      by_cases h1 : (s == cBSlash) = true <;> by_cases h2 : isBase r "NP" = true <;>
        by_cases h3 : (s2 == cBSlash) = true <;> by_cases h4 : isBase r2 "NP" = true <;>
        by_cases h5 : isBase l2 "S" = true <;> simp [h1, h2, h3, h4, h5]

/-- the label the code computes is the specified one -/
theorem unaryRuleSymbol_spec {x : Cat} (hd : DistinctKeys x) {sym : Str}
    (h : Ja.unaryRuleSymbol x = .ok sym) : sym = lit (specLabel x) := by
  cases hra : Ja.resultAtom x with
  | fn l s r => simp only [Ja.unaryRuleSymbol, hra] at h; cases h
  | atom b f =>
    cases f with
    | un v => simp only [Ja.unaryRuleSymbol, hra] at h; cases h
    | tri k1 v1 k2 v2 k3 v3 =>
      obtain ⟨h12, h13, h23⟩ := hd b k1 v1 k2 v2 k3 v3 hra
      have hadn := has_iff k1 v1 k2 v2 k3 v3 (lit "mod") (lit "adn") h12 h13 h23
      have hadv := has_iff k1 v1 k2 v2 k3 v3 (lit "mod") (lit "adv") h12 h13 h23
      have hmod : modOf x = (if k1 == lit "mod" then some v1 else if k2 == lit "mod" then some v2
          else if k3 == lit "mod" then some v3 else none) := by
        simp only [modOf, hra]
      rw [← hmod] at hadn hadv
      simp only [Ja.unaryRuleSymbol, hra] at h
      unfold specLabel
      by_cases c1 : modOf x = some (lit "adn")
      · rw [if_pos (hadn.2 c1)] at h
        rw [if_pos c1]
        by_cases c2 : ushape x = .s
        · rw [if_pos ((xorEq_catS x).2 c2)] at h
          rw [if_pos c2]
          cases h; rfl
        · rw [if_neg (fun e => c2 ((xorEq_catS x).1 e))] at h
          rw [if_neg c2]
          cases h; rfl
      · rw [if_neg (fun e => c1 (hadn.1 e))] at h
        rw [if_neg c1]
        by_cases c2 : modOf x = some (lit "adv")
        · rw [if_pos (hadv.2 c2)] at h
          rw [if_pos c2]
          by_cases c3 : ushape x = .s_np
          · rw [if_pos ((xorEq_sNP x).2 c3)] at h
            rw [c3]
            cases h; rfl
          · rw [if_neg (fun e => c3 ((xorEq_sNP x).1 e))] at h
            by_cases c4 : ushape x = .s_np_np
            · rw [if_pos ((xorEq_sNPNP x).2 c4)] at h
              rw [c4]
              cases h; rfl
            · rw [if_neg (fun e => c4 ((xorEq_sNPNP x).1 e))] at h
              cases h
              cases hu : ushape x with
              | s => rfl
              | other => rfl
              | s_np => exact absurd hu c3
              | s_np_np => exact absurd hu c4
        · rw [if_neg (fun e => c2 (hadv.1 e))] at h
          rw [if_neg c2]
          cases h; rfl

/-- the label is one of the six, whatever the keys -/
theorem unaryRuleSymbol_closed {x : Cat} {sym : Str} (h : Ja.unaryRuleSymbol x = .ok sym) :
    sym ∈ jaUnaryLabels := by
  simp only [Ja.unaryRuleSymbol] at h
  split at h
  · split at h
    · split at h <;> cases h <;> decide
    · split at h
      · split at h
        · cases h; decide
        · split at h <;> cases h <;> decide
      · cases h; decide
  · cases h

/-- what `applyUnary` returns: every result carries the computed label twice and `head_is_left` -/
theorem applyUnary_inv {T : List (Cat × List Cat)} {x : Cat} {rs : List RuleRes}
    (h : Ja.applyUnary T x = .ok rs) {r : RuleRes} (hr : r ∈ rs) :
    ∃ sym, Ja.unaryRuleSymbol x = .ok sym ∧ r.opString = sym ∧ r.opSymbol = sym ∧ r.headLeft = true := by
  simp only [Ja.applyUnary] at h
  cases hf : T.find? fun p => Cat.pyEq p.1 x with
  | none => rw [hf] at h; cases h; cases hr
  | some p =>
    rw [hf] at h
    obtain ⟨a, targets⟩ := p
    cases targets with
    | nil => cases h; cases hr
    | cons t ts =>
      simp only at h
      cases hs : Ja.unaryRuleSymbol x with
      | error e => rw [hs] at h; cases h
      | ok sym =>
        rw [hs] at h
        cases h
        obtain ⟨c, _, rfl⟩ := List.mem_map.1 hr
        exact ⟨sym, rfl, rfl, rfl, rfl⟩

end Depccg.C04
