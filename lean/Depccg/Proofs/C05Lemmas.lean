/-
  Helper lemmas for C05 (category text / value round trip).
-/
import Depccg.Props.C05Defs

namespace Depccg.C05
open Depccg Cat Str

/-! ### characters -/

theorem isSpecial_iff (c : Nat) :
    Cat.isSpecial c = true ↔
      (c = 91 ∨ c = 93 ∨ c = 40 ∨ c = 41 ∨ c = 47 ∨ c = 92 ∨ c = 124 ∨ c = 60 ∨ c = 62) := by
  simp [Cat.isSpecial, cLBr, cRBr, cLPar, cRPar, cSlash, cBSlash, cBar, cLt, cGt, or_assoc]

theorem isSlashCode_iff (s : Nat) :
    Cat.isSlashCode s = true ↔ (s = 47 ∨ s = 92 ∨ s = 124) := by
  simp [Cat.isSlashCode, cSlash, cBSlash, cBar, or_assoc]

theorem plainChar_iff (c : Nat) :
    plainChar c = true ↔ (Cat.isSpecial c = false ∧ c ≠ 32) := by
  simp [plainChar, cSpace]

theorem plainChar_false_iff (c : Nat) :
    plainChar c = false ↔ (Cat.isSpecial c = true ∨ c = 32) := by
  cases h : Cat.isSpecial c <;> simp [plainChar, cSpace, h]

theorem isSpecial_ne_space {c : Nat} (h : Cat.isSpecial c = true) : c ≠ 32 := by
  rw [isSpecial_iff] at h; omega

/-- "the rest of the text does not continue a plain token" -/
def Stop (rest : Str) : Prop := rest = [] ∨ ∃ c r, rest = c :: r ∧ plainChar c = false

theorem Stop.nil : Stop [] := Or.inl rfl

theorem Stop.cons {c : Nat} (r : Str) (h : plainChar c = false) : Stop (c :: r) :=
  Or.inr ⟨c, r, rfl, h⟩

theorem Stop.special {c : Nat} (r : Str) (h : Cat.isSpecial c = true) : Stop (c :: r) :=
  Stop.cons r ((plainChar_false_iff c).2 (Or.inl h))

/-! ### the tokenizer -/

theorem tokAux_nil (acc : Str) :
    tokenizeAux acc [] = if acc.isEmpty then [] else [acc.reverse] := by
  simp [tokenizeAux]

theorem tokAux_space (acc cs : Str) :
    tokenizeAux acc (32 :: cs) =
      if acc.isEmpty then tokenizeAux [] cs else acc.reverse :: tokenizeAux [] cs := by
  simp [tokenizeAux, cSpace]

theorem tokAux_special (acc cs : Str) {c : Nat} (h : Cat.isSpecial c = true) :
    tokenizeAux acc (c :: cs) =
      if acc.isEmpty then [c] :: tokenizeAux [] cs
      else acc.reverse :: [c] :: tokenizeAux [] cs := by
  have := isSpecial_ne_space h
  simp [tokenizeAux, cSpace, h, this]

theorem tokAux_plainChar (acc cs : Str) {c : Nat} (h : plainChar c = true) :
    tokenizeAux acc (c :: cs) = tokenizeAux (c :: acc) cs := by
  rw [plainChar_iff] at h
  simp [tokenizeAux, cSpace, h.1, h.2]

theorem tokAux_plain (t : Str) (ht : ∀ c ∈ t, plainChar c = true) (acc rest : Str) :
    tokenizeAux acc (t ++ rest) = tokenizeAux (t.reverse ++ acc) rest := by
  induction t generalizing acc with
  | nil => simp
  | cons c t ih =>
    have hc := ht c (by simp)
    have ht' : ∀ c ∈ t, plainChar c = true := fun c hc => ht c (by simp [hc])
    rw [List.cons_append, tokAux_plainChar _ _ hc, ih ht']
    simp

/-- a pending non-empty accumulator is flushed where the plain token stops -/
theorem tokAux_flush (acc rest : Str) (hacc : acc ≠ []) (hs : Stop rest) :
    tokenizeAux acc rest = acc.reverse :: tokenizeAux [] rest := by
  have hne : acc.isEmpty = false := by cases acc <;> simp_all
  rcases hs with rfl | ⟨c, r, rfl, hc⟩
  · simp [tokAux_nil, hne]
  · rw [plainChar_false_iff] at hc
    rcases hc with hc | rfl
    · rw [tokAux_special _ _ hc, tokAux_special _ _ hc]; simp [hne]
    · rw [tokAux_space, tokAux_space]; simp [hne]

theorem tokenize_plain (t rest : Str) (ht : PlainTok t) (hs : Stop rest) :
    tokenize (t ++ rest) = t :: tokenize rest := by
  unfold tokenize
  rw [tokAux_plain t ht.2, tokAux_flush _ _ (by simpa using ht.1) hs]
  simp

theorem tokenize_special (c : Nat) (rest : Str) (h : Cat.isSpecial c = true) :
    tokenize (c :: rest) = [c] :: tokenize rest := by
  unfold tokenize
  rw [tokAux_special _ _ h]; simp

theorem tokenize_spaces (k : Nat) (rest : Str) :
    tokenize (List.replicate k cSpace ++ rest) = tokenize rest := by
  unfold tokenize
  induction k with
  | zero => simp
  | succ k ih =>
    rw [List.replicate_succ, List.cons_append]
    show tokenizeAux [] (32 :: _) = _
    rw [tokAux_space]; simpa using ih

theorem tokenize_nil : tokenize [] = [] := by simp [tokenize, tokenizeAux]

/-- blanks and token boundaries are exactly what `Spells` says -/
theorem tokenize_of_spells {ts : List Str} {text : Str} (h : Spells ts text) :
    tokenize text = ts := by
  induction h with
  | nil k => simpa [tokenize_nil] using tokenize_spaces k []
  | special k c ts rest hc _ ih =>
    rw [tokenize_spaces, tokenize_special c rest hc, ih]
  | plain k t ts rest ht hs _ ih =>
    rw [List.append_assoc, tokenize_spaces, tokenize_plain t rest ht hs, ih]

/-! ### `split` and the feature round trip -/

theorem splitOnAux_notMem (c : Nat) (k : Str) (hk : c ∉ k) (acc rest : Str) :
    splitOnAux c acc (k ++ rest) = splitOnAux c (k.reverse ++ acc) rest := by
  induction k generalizing acc with
  | nil => simp
  | cons x k ih =>
    have hx : x ≠ c := fun h => hk (by simp [h])
    have hk' : c ∉ k := fun h => hk (by simp [h])
    rw [List.cons_append, splitOnAux, if_neg hx, ih hk']
    simp

theorem splitOn_last (c : Nat) (k : Str) (hk : c ∉ k) : splitOn c k = [k] := by
  have := splitOnAux_notMem c k hk [] []
  simp only [List.append_nil] at this
  simp [splitOn, this, splitOnAux]

theorem splitOn_sep (c : Nat) (k rest : Str) (hk : c ∉ k) :
    splitOn c (k ++ c :: rest) = k :: splitOn c rest := by
  unfold splitOn
  rw [splitOnAux_notMem c k hk, splitOnAux, if_pos rfl]
  simp

theorem TriPart.noComma {s : Str} (h : TriPart s) : cComma ∉ s := fun hm => (h _ hm).2.2 rfl
theorem TriPart.noEq {s : Str} (h : TriPart s) : cEq ∉ s := fun hm => (h _ hm).2.1 rfl
theorem TriPart.plain {s : Str} (h : TriPart s) : ∀ c ∈ s, plainChar c = true :=
  fun c hm => (h c hm).1

theorem kv_noComma {k v : Str} (hk : TriPart k) (hv : TriPart v) : cComma ∉ k ++ cEq :: v := by
  intro h
  rcases List.mem_append.1 h with h | h
  · exact hk.noComma h
  · rcases List.mem_cons.1 h with h | h
    · exact absurd h (by decide)
    · exact hv.noComma h

theorem splitOn_kv {k v : Str} (hk : TriPart k) (hv : TriPart v) :
    splitOn cEq (k ++ cEq :: v) = [k, v] := by
  rw [splitOn_sep _ _ _ hk.noEq, splitOn_last _ _ hv.noEq]

theorem triStr_eq (k1 v1 k2 v2 k3 v3 : Str) :
    (Feat.tri k1 v1 k2 v2 k3 v3).str =
      (k1 ++ cEq :: v1) ++ cComma :: ((k2 ++ cEq :: v2) ++ cComma :: (k3 ++ cEq :: v3)) := by
  simp [Feat.str]

theorem Feat.parse_str (f : Feat) (hf : WFFeat f) (hne : f ≠ .un none) :
    Feat.parse f.str = .ok f := by
  cases f with
  | un v =>
    cases v with
    | none => exact absurd rfl hne
    | some v =>
      have h := hf.2
      show Feat.parse v = _
      unfold Feat.parse
      rw [if_neg]
      simpa using h
  | tri k1 v1 k2 v2 k3 v3 =>
    obtain ⟨hk1, hv1, hk2, hv2, hk3, hv3⟩ := hf
    rw [triStr_eq]
    have hsplit : splitOn cComma
        ((k1 ++ cEq :: v1) ++ cComma :: ((k2 ++ cEq :: v2) ++ cComma :: (k3 ++ cEq :: v3)))
        = [k1 ++ cEq :: v1, k2 ++ cEq :: v2, k3 ++ cEq :: v3] := by
      rw [splitOn_sep _ _ _ (kv_noComma hk1 hv1), splitOn_sep _ _ _ (kv_noComma hk2 hv2),
        splitOn_last _ _ (kv_noComma hk3 hv3)]
    have h1 : hasChar cEq
        ((k1 ++ cEq :: v1) ++ cComma :: ((k2 ++ cEq :: v2) ++ cComma :: (k3 ++ cEq :: v3)))
        = true := by simp [hasChar]
    have h2 : hasChar cComma
        ((k1 ++ cEq :: v1) ++ cComma :: ((k2 ++ cEq :: v2) ++ cComma :: (k3 ++ cEq :: v3)))
        = true := by simp [hasChar]
    simp only [Feat.parse, h1, h2, hsplit, splitOn_kv, hk1, hv1, hk2, hv2, hk3, hv3,
      Bool.and_self, if_true]

theorem plainChar_eq : plainChar cEq = true := by decide
theorem plainChar_comma : plainChar cComma = true := by decide

theorem Feat.str_plainTok (f : Feat) (hf : WFFeat f) (hne : f ≠ .un none) : PlainTok f.str := by
  cases f with
  | un v =>
    cases v with
    | none => exact absurd rfl hne
    | some v => exact hf.1
  | tri k1 v1 k2 v2 k3 v3 =>
    obtain ⟨hk1, hv1, hk2, hv2, hk3, hv3⟩ := hf
    rw [triStr_eq]
    refine ⟨by simp, ?_⟩
    intro c hc
    simp only [List.mem_append, List.mem_cons] at hc
    rcases hc with (hc | rfl | hc) | rfl | (hc | rfl | hc) | rfl | hc | rfl | hc
    · exact hk1.plain c hc
    · exact plainChar_eq
    · exact hv1.plain c hc
    · exact plainChar_comma
    · exact hk2.plain c hc
    · exact plainChar_eq
    · exact hv2.plain c hc
    · exact plainChar_comma
    · exact hk3.plain c hc
    · exact plainChar_eq
    · exact hv3.plain c hc

theorem Feat.str_length_eq_zero (f : Feat) (hf : WFFeat f) :
    (f.str.length == 0) = true ↔ f = .un none := by
  cases f with
  | un v =>
    cases v with
    | none => simp [Feat.str]
    | some v =>
      have : v ≠ [] := hf.1.1
      simp [Feat.str, this]
  | tri k1 v1 k2 v2 k3 v3 => simp [Feat.str]

/-! ### the printer, token by token -/

/-- the printed text of an operand of a functor -/
def wrapS (c : Cat) : Str := if c.isFunctor then cLPar :: c.str ++ [cRPar] else c.str

theorem str_fn (l r : Cat) (s : Nat) : (Cat.fn l s r).str = wrapS l ++ s :: wrapS r := rfl

theorem str_atom (b : Str) (f : Feat) :
    (Cat.atom b f).str = if f.str.length == 0 then b else b ++ cLBr :: f.str ++ [cRBr] := rfl

/-- the tokens of the printed text -/
def toks : Cat → List Str
  | .atom b f => if f.str.length == 0 then [b] else [b, [cLBr], f.str, [cRBr]]
  | .fn l s r =>
    (if l.isFunctor then [cLPar] :: toks l ++ [[cRPar]] else toks l) ++
      [s] :: (if r.isFunctor then [cLPar] :: toks r ++ [[cRPar]] else toks r)

def wrapT (c : Cat) : List Str := if c.isFunctor then [cLPar] :: toks c ++ [[cRPar]] else toks c

theorem toks_fn (l r : Cat) (s : Nat) : toks (.fn l s r) = wrapT l ++ [s] :: wrapT r := rfl

theorem special_LBr : Cat.isSpecial cLBr = true := by decide
theorem special_RBr : Cat.isSpecial cRBr = true := by decide
theorem special_LPar : Cat.isSpecial cLPar = true := by decide
theorem special_RPar : Cat.isSpecial cRPar = true := by decide
theorem special_Lt : Cat.isSpecial cLt = true := by decide
theorem special_Gt : Cat.isSpecial cGt = true := by decide

theorem special_of_slash {s : Nat} (h : Cat.isSlashCode s = true) : Cat.isSpecial s = true := by
  rw [isSlashCode_iff] at h; rw [isSpecial_iff]; omega

theorem tokenize_atom (b : Str) (f : Feat) (hb : PlainTok b) (hf : WFFeat f) (rest : Str)
    (hs : Stop rest) :
    tokenize ((Cat.atom b f).str ++ rest) = toks (.atom b f) ++ tokenize rest := by
  rw [str_atom, toks]
  by_cases h0 : (f.str.length == 0) = true
  · rw [if_pos h0, if_pos h0, tokenize_plain b rest hb hs]; rfl
  · rw [if_neg h0, if_neg h0]
    have hne : f ≠ .un none := fun h => h0 ((Feat.str_length_eq_zero f hf).2 h)
    have hfs := Feat.str_plainTok f hf hne
    have e : b ++ cLBr :: f.str ++ [cRBr] ++ rest = b ++ (cLBr :: (f.str ++ (cRBr :: rest))) := by
      simp
    rw [e, tokenize_plain b _ hb (Stop.special _ special_LBr), tokenize_special _ _ special_LBr,
      tokenize_plain _ _ hfs (Stop.special _ special_RBr), tokenize_special _ _ special_RBr]
    rfl

theorem tokenize_str (c : Cat) (hc : WF c) (rest : Str) (hs : Stop rest) :
    tokenize (c.str ++ rest) = toks c ++ tokenize rest := by
  induction c generalizing rest with
  | atom b f => exact tokenize_atom b f hc.1 hc.2.1 rest hs
  | fn l s r ihl ihr =>
    obtain ⟨hl, hsl, hr⟩ := hc
    have hsp := special_of_slash hsl
    -- an operand, printed, followed by anything that stops a token
    have wrap : ∀ (c : Cat), WF c →
        (∀ rest, Stop rest → tokenize (c.str ++ rest) = toks c ++ tokenize rest) →
        ∀ rest, Stop rest → tokenize (wrapS c ++ rest) = wrapT c ++ tokenize rest := by
      intro c _ ih rest hs
      unfold wrapS wrapT
      by_cases hfun : c.isFunctor = true
      · rw [if_pos hfun, if_pos hfun]
        have e : cLPar :: c.str ++ [cRPar] ++ rest = cLPar :: (c.str ++ (cRPar :: rest)) := by simp
        rw [e, tokenize_special _ _ special_LPar, ih _ (Stop.special _ special_RPar),
          tokenize_special _ _ special_RPar]
        simp
      · rw [if_neg hfun, if_neg hfun]; exact ih rest hs
    rw [str_fn, toks_fn]
    have e : wrapS l ++ s :: wrapS r ++ rest = wrapS l ++ (s :: (wrapS r ++ rest)) := by simp
    rw [e, wrap l hl (fun rest hs => ihl hl rest hs) _ (Stop.special _ hsp),
      tokenize_special _ _ hsp, wrap r hr (fun rest hs => ihr hr rest hs) rest hs]
    simp

theorem tokenize_str' (c : Cat) (hc : WF c) : tokenize c.str = toks c := by
  have := tokenize_str c hc [] Stop.nil
  simpa [tokenize_nil] using this

theorem operand_atom (b : Str) (f : Feat) (hc : WF (.atom b f)) :
    Operand (toks (.atom b f)) (.atom b f) := by
  obtain ⟨hb, hf, hp⟩ := hc
  rw [toks]
  by_cases h0 : (f.str.length == 0) = true
  · rw [if_pos h0]
    have : f = .un none := (Feat.str_length_eq_zero f hf).1 h0
    subst this
    exact Operand.bare b hb
  · rw [if_neg h0]
    have hne : f ≠ .un none := fun h => h0 ((Feat.str_length_eq_zero f hf).2 h)
    exact Operand.feat b f hb (fun hm => hne (hp hm)) hf hne

theorem expr_toks (c : Cat) (hc : WF c) : Expr (toks c) c := by
  induction c with
  | atom b f => exact Expr.op _ _ (operand_atom b f hc)
  | fn l s r ihl ihr =>
    obtain ⟨hl, hsl, hr⟩ := hc
    have wrap : ∀ (c : Cat), WF c → Expr (toks c) c → Operand (wrapT c) c := by
      intro c hc he
      unfold wrapT
      cases c with
      | atom b f => simpa [Cat.isFunctor] using operand_atom b f hc
      | fn l s r => simpa [Cat.isFunctor] using Operand.round _ _ he
    rw [toks_fn]
    exact Expr.bin _ _ _ _ _ (wrap l hl (ihl hl)) hsl (wrap r hr (ihr hr))

/-! ### the reader: fuel -/

theorem atomStep_length {item : Str} {buf rest : List Str} {c : Cat}
    (h : atomStep item buf = .ok (c, rest)) : rest.length ≤ buf.length := by
  unfold atomStep at h
  split at h
  · split at h
    · split at h
      · cases h
      · split at h
        · cases h; simp; omega
        · cases h
    · cases h; simp
  · cases h; simp

/-- any fuel that covers the remaining tokens gives the same result -/
theorem readLoop_fuel (f1 : Nat) : ∀ (f2 : Nat) (st : List Item) (buf : List Str),
    buf.length ≤ f1 → buf.length ≤ f2 → readLoop f1 st buf = readLoop f2 st buf := by
  induction f1 with
  | zero =>
    intro f2 st buf h1 _
    have : buf = [] := List.eq_nil_of_length_eq_zero (by omega)
    subst this
    cases f2 <;> simp [readLoop]
  | succ f1 ih =>
    intro f2 st buf h1 h2
    cases buf with
    | nil => cases f2 <;> simp [readLoop]
    | cons item buf =>
      cases f2 with
      | zero => simp at h2
      | succ f2 =>
        simp only [List.length_cons, Nat.add_le_add_iff_right] at h1 h2
        simp only [readLoop]
        rw [ih f2 _ buf h1 h2, ih f2 _ buf h1 h2]
        split
        · rfl
        · split
          · rfl
          · split
            · split
              · exact ih f2 _ buf h1 h2
              · rfl
            · split
              · rfl
              · split
                · next c rest heq =>
                  have := atomStep_length heq
                  exact ih f2 _ rest (by omega) (by omega)
                · rfl

/-- the loop with exactly the fuel `parse` supplies -/
def run (st : List Item) (buf : List Str) : Except Err (List Item) := readLoop buf.length st buf

theorem parse_eq (text : Str) :
    Cat.parse text = match run [] (tokenize text) with
      | .ok st => finish st
      | .error e => .error e := rfl

theorem run_nil (st : List Item) : run st [] = .ok st := by simp [run, readLoop]

/-! ### the reader: one step per kind of token -/

theorem plain_not_special_tok {b : Str} (hb : PlainTok b) {c : Nat}
    (hc : Cat.isSpecial c = true) : b ≠ [c] := by
  intro h
  subst h
  have := hb.2 c (by simp)
  rw [plainChar_iff] at this
  rw [hc] at this
  exact absurd this.1 (by decide)

theorem plain_tok_class {b : Str} (hb : PlainTok b) :
    isOpenTok b = false ∧ isCloseTok b = false ∧ isSlashTok b = false := by
  have h1 := plain_not_special_tok hb special_LPar
  have h2 := plain_not_special_tok hb special_Lt
  have h3 := plain_not_special_tok hb special_RPar
  have h4 := plain_not_special_tok hb special_Gt
  have h5 := plain_not_special_tok hb (c := cSlash) (by decide)
  have h6 := plain_not_special_tok hb (c := cBSlash) (by decide)
  have h7 := plain_not_special_tok hb (c := cBar) (by decide)
  simp [isOpenTok, isCloseTok, isSlashTok, h1, h2, h3, h4, h5, h6, h7]

theorem run_punct (st : List Item) (item : Str) (buf : List Str)
    (h : punctuations.elem item = true) :
    run st (item :: buf) = run (.cat (.atom item (.un none)) :: st) buf := by
  simp only [run, List.length_cons, readLoop, h, if_true]

theorem run_open (st : List Item) (o : Nat) (buf : List Str) (h : o = cLPar ∨ o = cLt) :
    run st ([o] :: buf) = run (.sym o :: st) buf := by
  rcases h with rfl | rfl
  · have h1 : punctuations.elem [cLPar] = false := by decide
    have h2 : isOpenTok [cLPar] = true := by decide
    simp only [run, List.length_cons, readLoop, h1, h2]
    rfl
  · have h1 : punctuations.elem [cLt] = false := by decide
    have h2 : isOpenTok [cLt] = true := by decide
    simp only [run, List.length_cons, readLoop, h1, h2]
    rfl

theorem run_slash (st : List Item) (s : Nat) (buf : List Str) (h : Cat.isSlashCode s = true) :
    run st ([s] :: buf) = run (.sym s :: st) buf := by
  rw [isSlashCode_iff] at h
  rcases h with rfl | rfl | rfl
  all_goals
    simp only [run, List.length_cons, readLoop]
    rfl

theorem run_close (st : List Item) (cl : Nat) (buf : List Str) (h : cl = cRPar ∨ cl = cGt) :
    run st ([cl] :: buf) =
      match closeStep [cl] st with
      | .ok st' => run st' buf
      | .error e => .error e := by
  rcases h with rfl | rfl
  · have h1 : punctuations.elem [cRPar] = false := by decide
    have h2 : isOpenTok [cRPar] = false := by decide
    have h3 : isCloseTok [cRPar] = true := by decide
    simp only [run, List.length_cons, readLoop, h1, h2, h3]
    rfl
  · have h1 : punctuations.elem [cGt] = false := by decide
    have h2 : isOpenTok [cGt] = false := by decide
    have h3 : isCloseTok [cGt] = true := by decide
    simp only [run, List.length_cons, readLoop, h1, h2, h3]
    rfl

/-- "the next token is not `[`": what follows an operand in every well-formed text -/
def NoBr (rest : List Str) : Prop := rest.head? ≠ some [cLBr]

theorem atomStep_bare (item : Str) (buf : List Str) (h : NoBr buf) :
    atomStep item buf = .ok (.atom item (.un none), buf) := by
  unfold atomStep
  split
  · next b1 b2 b3 rest =>
    have : b1 ≠ [cLBr] := by simpa [NoBr] using h
    simp [this]
  · rfl

theorem atomStep_feat (item fs : Str) (f : Feat) (buf : List Str) (h : Feat.parse fs = .ok f) :
    atomStep item ([cLBr] :: fs :: [cRBr] :: buf) = .ok (.atom item f, buf) := by
  simp [atomStep, h]

theorem run_bare (st : List Item) (b : Str) (buf : List Str) (hb : PlainTok b) (h : NoBr buf) :
    run st (b :: buf) = run (.cat (.atom b (.un none)) :: st) buf := by
  by_cases hp : punctuations.elem b = true
  · exact run_punct st b buf hp
  · obtain ⟨h1, h2, h3⟩ := plain_tok_class hb
    simp only [run, List.length_cons, readLoop, hp, h1, h2, h3, atomStep_bare b buf h]
    rfl

theorem run_feat (st : List Item) (b fs : Str) (f : Feat) (buf : List Str) (hb : PlainTok b)
    (hp : b ∉ punctuations) (hf : Feat.parse fs = .ok f) :
    run st (b :: [cLBr] :: fs :: [cRBr] :: buf) = run (.cat (.atom b f) :: st) buf := by
  obtain ⟨h1, h2, h3⟩ := plain_tok_class hb
  have hp' : punctuations.elem b = false := by simpa using hp
  simp only [run, List.length_cons, readLoop, hp', h1, h2, h3, atomStep_feat b fs f buf hf]
  exact readLoop_fuel _ _ _ _ (by omega) (by omega)

/-! ### the reader: closing brackets -/

/-- an opening bracket and the closing bracket of the same kind -/
def Pair (o cl : Nat) : Prop := (o = cLPar ∧ cl = cRPar) ∨ (o = cLt ∧ cl = cGt)

theorem Pair.isOpen {o cl : Nat} (h : Pair o cl) : o = cLPar ∨ o = cLt := by
  rcases h with ⟨h, _⟩ | ⟨h, _⟩ <;> simp [h]

theorem Pair.isClose {o cl : Nat} (h : Pair o cl) : cl = cRPar ∨ cl = cGt := by
  rcases h with ⟨_, h⟩ | ⟨_, h⟩ <;> simp [h]

theorem closeStep_match (o cl : Nat) (c : Cat) (st : List Item) (h : Pair o cl) :
    closeStep [cl] (.cat c :: .sym o :: st) = .ok (.cat c :: st) := by
  rcases h with ⟨rfl, rfl⟩ | ⟨rfl, rfl⟩ <;> simp [closeStep]

theorem closeStep_bin (o cl s : Nat) (a b : Cat) (st : List Item) (ho : o = cLPar ∨ o = cLt)
    (hs : Cat.isSlashCode s = true) :
    closeStep [cl] (.cat b :: .sym s :: .cat a :: .sym o :: st) = .ok (.cat (.fn a s b) :: st) := by
  have hs' := (isSlashCode_iff s).1 hs
  have h1 : s ≠ cLPar := by simp [cLPar]; omega
  have h2 : s ≠ cLt := by simp [cLt]; omega
  rcases ho with rfl | rfl <;> simp [closeStep, mkFunctor, hs, h1, h2]

theorem closeStep_flat (cl s1 s2 : Nat) (b c : Cat) (st : List Item)
    (hs1 : Cat.isSlashCode s1 = true) (hs2 : Cat.isSlashCode s2 = true) :
    closeStep [cl] (.cat c :: .sym s2 :: .cat b :: .sym s1 :: st) = .error .assertion := by
  have hs1' := (isSlashCode_iff s1).1 hs1
  have hs2' := (isSlashCode_iff s2).1 hs2
  have h1 : s2 ≠ cLPar := by simp [cLPar]; omega
  have h2 : s2 ≠ cLt := by simp [cLt]; omega
  have h3 : s1 ≠ cLPar := by simp [cLPar]; omega
  have h4 : s1 ≠ cLt := by simp [cLt]; omega
  simp [closeStep, h1, h2, h3, h4]

/-! ### the reader: operands and expressions -/

/-- reading an operand pushes its value, whatever is on the stack -/
def ReadsOperand (ts : List Str) (c : Cat) : Prop :=
  ∀ (st : List Item) (rest : List Str), NoBr rest → run st (ts ++ rest) = run (.cat c :: st) rest

/-- reading an expression and the bracket that closes it replaces the opener by its value -/
def ReadsExpr (ts : List Str) (c : Cat) : Prop :=
  ∀ (st : List Item) (rest : List Str) (o cl : Nat), Pair o cl →
    run (.sym o :: st) (ts ++ [cl] :: rest) = run (.cat c :: st) rest

theorem NoBr.nil : NoBr [] := by simp [NoBr]

theorem NoBr.special {c : Nat} (rest : List Str) (h : c ≠ cLBr) : NoBr ([c] :: rest) := by
  simpa [NoBr] using h

theorem NoBr.close {cl : Nat} (rest : List Str) (h : cl = cRPar ∨ cl = cGt) :
    NoBr ([cl] :: rest) := by
  apply NoBr.special
  rcases h with rfl | rfl <;> decide

theorem NoBr.slash {s : Nat} (rest : List Str) (h : Cat.isSlashCode s = true) :
    NoBr ([s] :: rest) := by
  apply NoBr.special
  rw [isSlashCode_iff] at h
  simp [cLBr]; omega

theorem reads_bracket (o cl : Nat) (ts : List Str) (c : Cat) (hp : Pair o cl)
    (ih : ReadsExpr ts c) : ReadsOperand ([o] :: ts ++ [[cl]]) c := by
  intro st rest _
  have e : [o] :: ts ++ [[cl]] ++ rest = [o] :: (ts ++ [cl] :: rest) := by simp
  rw [e, run_open st o _ hp.isOpen, ih st rest o cl hp]

theorem reads_all :
    (∀ {ts : List Str} {c : Cat}, Operand ts c → ReadsOperand ts c) ∧
    (∀ {ts : List Str} {c : Cat}, Expr ts c → ReadsExpr ts c) := by
  have bare : ∀ (b : Str), PlainTok b → ReadsOperand [b] (.atom b (.un none)) := by
    intro b hb st rest hr
    exact run_bare st b rest hb hr
  have feat : ∀ (b : Str) (f : Feat), PlainTok b → b ∉ Cat.punctuations → WFFeat f →
      f ≠ .un none → ReadsOperand [b, [cLBr], f.str, [cRBr]] (.atom b f) := by
    intro b f hb hp hf hne st rest _
    exact run_feat st b f.str f rest hb hp (Feat.parse_str f hf hne)
  have round : ∀ (ts : List Str) (c : Cat), Expr ts c → ReadsExpr ts c →
      ReadsOperand ([cLPar] :: ts ++ [[cRPar]]) c :=
    fun ts c _ ih => reads_bracket cLPar cRPar ts c (Or.inl ⟨rfl, rfl⟩) ih
  have angle : ∀ (ts : List Str) (c : Cat), Expr ts c → ReadsExpr ts c →
      ReadsOperand ([cLt] :: ts ++ [[cGt]]) c :=
    fun ts c _ ih => reads_bracket cLt cGt ts c (Or.inr ⟨rfl, rfl⟩) ih
  have op : ∀ (ts : List Str) (c : Cat), Operand ts c → ReadsOperand ts c → ReadsExpr ts c := by
    intro ts c _ ih st rest o cl hp
    rw [ih _ _ (NoBr.close rest hp.isClose), run_close _ cl rest hp.isClose,
      closeStep_match o cl c st hp]
  have bin : ∀ (t1 t2 : List Str) (a b : Cat) (s : Nat), Operand t1 a →
      Cat.isSlashCode s = true → Operand t2 b → ReadsOperand t1 a → ReadsOperand t2 b →
      ReadsExpr (t1 ++ [s] :: t2) (.fn a s b) := by
    intro t1 t2 a b s _ hs _ ih1 ih2 st rest o cl hp
    have e : t1 ++ [s] :: t2 ++ [cl] :: rest = t1 ++ ([s] :: (t2 ++ [cl] :: rest)) := by simp
    rw [e, ih1 _ _ (NoBr.slash _ hs), run_slash _ s _ hs, ih2 _ _ (NoBr.close rest hp.isClose),
      run_close _ cl rest hp.isClose, closeStep_bin o cl s a b st hp.isOpen hs]
  exact ⟨fun h => Operand.rec (motive_1 := fun ts c _ => ReadsOperand ts c)
      (motive_2 := fun ts c _ => ReadsExpr ts c) bare feat round angle op bin h,
    fun h => Expr.rec (motive_1 := fun ts c _ => ReadsOperand ts c)
      (motive_2 := fun ts c _ => ReadsExpr ts c) bare feat round angle op bin h⟩

theorem reads_operand {ts : List Str} {c : Cat} (h : Operand ts c) : ReadsOperand ts c :=
  reads_all.1 h

theorem reads_expr {ts : List Str} {c : Cat} (h : Expr ts c) : ReadsExpr ts c :=
  reads_all.2 h

/-- a whole text that is an expression reads to its value -/
theorem read_expr_top {ts : List Str} {c : Cat} (h : Expr ts c) :
    (match run [] ts with
      | .ok st => finish st
      | .error e => .error e) = .ok c := by
  cases h with
  | op ts c ho =>
    have := reads_operand ho [] [] NoBr.nil
    rw [List.append_nil] at this
    rw [this, run_nil]; rfl
  | bin t1 t2 a b s h1 hs h2 =>
    have e1 := reads_operand h1 [] ([s] :: t2) (NoBr.slash _ hs)
    have e2 := reads_operand h2 [.sym s, .cat a] [] NoBr.nil
    rw [List.append_nil] at e2
    rw [e1, run_slash _ s _ hs, e2, run_nil]
    simp [finish, mkFunctor, hs]

/-- three operands around two slashes at top level -/
theorem read_flat_top {t1 t2 t3 : List Str} {a b c : Cat} {s1 s2 : Nat}
    (h1 : Operand t1 a) (h2 : Operand t2 b) (h3 : Operand t3 c)
    (hs1 : Cat.isSlashCode s1 = true) (hs2 : Cat.isSlashCode s2 = true) :
    (match run [] (t1 ++ [s1] :: t2 ++ [s2] :: t3) with
      | .ok st => finish st
      | .error e => .error e) = .error .runtime := by
  have e : t1 ++ [s1] :: t2 ++ [s2] :: t3 = t1 ++ ([s1] :: (t2 ++ ([s2] :: (t3 ++ [])))) := by simp
  rw [e, reads_operand h1 _ _ (NoBr.slash _ hs1), run_slash _ s1 _ hs1,
    reads_operand h2 _ _ (NoBr.slash _ hs2), run_slash _ s2 _ hs2,
    reads_operand h3 _ _ NoBr.nil, run_nil]
  rfl

theorem run_openers (pre : List Str) (hpre : ∀ t ∈ pre, t = [cLPar] ∨ t = [cLt])
    (st : List Item) (rest : List Str) :
    ∃ st', run st (pre ++ rest) = run st' rest := by
  induction pre generalizing st with
  | nil => exact ⟨st, rfl⟩
  | cons t pre ih =>
    have ht := hpre t (by simp)
    have hpre' : ∀ t ∈ pre, t = [cLPar] ∨ t = [cLt] := fun t h => hpre t (by simp [h])
    have : ∃ o, t = [o] ∧ (o = cLPar ∨ o = cLt) := by
      rcases ht with rfl | rfl
      · exact ⟨_, rfl, Or.inl rfl⟩
      · exact ⟨_, rfl, Or.inr rfl⟩
    obtain ⟨o, rfl, ho⟩ := this
    obtain ⟨st', h⟩ := ih hpre' (.sym o :: st)
    exact ⟨st', by rw [List.cons_append, run_open st o _ ho, h]⟩

/-- three operands around two slashes inside brackets, after any openers, before anything -/
theorem read_flat_inner {t1 t2 t3 pre post : List Str} {a b c : Cat} {s1 s2 o cl : Nat}
    (h1 : Operand t1 a) (h2 : Operand t2 b) (h3 : Operand t3 c)
    (hs1 : Cat.isSlashCode s1 = true) (hs2 : Cat.isSlashCode s2 = true)
    (ho : o = cLPar ∨ o = cLt) (hcl : cl = cRPar ∨ cl = cGt)
    (hpre : ∀ t ∈ pre, t = [cLPar] ∨ t = [cLt]) :
    run [] (pre ++ [o] :: (t1 ++ [s1] :: t2 ++ [s2] :: t3) ++ [cl] :: post) = .error .assertion := by
  have e : pre ++ [o] :: (t1 ++ [s1] :: t2 ++ [s2] :: t3) ++ [cl] :: post =
      pre ++ ([o] :: (t1 ++ ([s1] :: (t2 ++ ([s2] :: (t3 ++ ([cl] :: post))))))) := by simp
  obtain ⟨st', h⟩ := run_openers pre hpre [] ([o] :: (t1 ++ ([s1] :: (t2 ++ ([s2] :: (t3 ++ ([cl] :: post)))))))
  rw [e, h, run_open _ o _ ho, reads_operand h1 _ _ (NoBr.slash _ hs1), run_slash _ s1 _ hs1,
    reads_operand h2 _ _ (NoBr.slash _ hs2), run_slash _ s2 _ hs2,
    reads_operand h3 _ _ (NoBr.close _ hcl), run_close _ cl _ hcl,
    closeStep_flat cl s1 s2 b c _ hs1 hs2]

end Depccg.C05
