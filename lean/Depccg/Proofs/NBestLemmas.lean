/-
  Invariants of the search in n-best mode (`1 < cfg.nbest`): no derivation is ever pushed twice
  (`NB.distinct`), every popped item is kept (`popChart`, `popGoal`), and the agenda together with
  the trace is closed under everything the chart licenses (`leafs`, `uns`, `bins`, `fins`).
  From these: every licensed derivation is either present or dominated by an agenda item
  (`cover`, `coverFin`).  Core Lean only.
-/
import Depccg.Proofs.SearchLemmas

namespace Depccg.SearchProps
open Depccg Search

/-! ### small list facts -/

theorem zipIdx_pairwise_snd {α : Type} (l : List α) :
    l.zipIdx.Pairwise (fun a b => a.2 ≠ b.2) := by
  have h : (l.zipIdx.map Prod.snd).Nodup := by
    rw [List.zipIdx_map_snd]; exact List.nodup_range' ..
  exact List.pairwise_map.1 h

theorem perm_pop {it : Item} {rest agenda popped : List Item} (h : (it :: rest).Perm agenda) :
    (rest ++ it :: popped).Perm (agenda ++ popped) :=
  List.perm_middle.trans (List.Perm.append_right popped h)

theorem perm_pop_push {it : Item} {E rest agenda popped : List Item} (h : (it :: rest).Perm agenda) :
    ((E ++ rest) ++ it :: popped).Perm (E ++ (agenda ++ popped)) := by
  rw [List.append_assoc]
  exact List.Perm.append_left E (perm_pop h)

/-- the same through an agenda whose `push` only permutes -/
theorem perm_pop_pushWith {pick : Pick} (hp : PickOK pick) {it : Item}
    {E rest agenda popped : List Item} (h : (it :: rest).Perm agenda) :
    (pick.push E rest ++ it :: popped).Perm (E ++ (agenda ++ popped)) :=
  (List.Perm.append_right _ (hp.push_perm E rest)).trans (perm_pop_push h)

/-! ### keys: an item is identified by `(fin, d)` -/

/-- the two items do not carry the same derivation at the same stage -/
def KNe (a b : Item) : Prop := ¬ (a.fin = b.fin ∧ a.d = b.d)

theorem KNe.symm {a b : Item} (h : KNe a b) : KNe b a := fun ⟨h1, h2⟩ => h ⟨h1.symm, h2.symm⟩

def kids : Deriv → List Deriv
  | .leaf _ _ => []
  | .un _ _ d => [d]
  | .bin _ _ _ l r => [l, r]

/-- the derivations whose (non-final) items must be in the chart when item `y` is pushed -/
def needs (y : Item) : List Deriv := if y.fin then [y.d] else kids y.d

theorem needs_congr {x y : Item} (h1 : x.fin = y.fin) (h2 : x.d = y.d) : needs x = needs y := by
  simp only [needs, h1, h2]

/-! ### the pieces of `expand` -/

theorem mem_finPart {s : Sent} {it x : Item} {c : Prop} [Decidable c]
    (h : x ∈ (if c then [finItem s it] else [])) : c ∧ x = finItem s it := by
  split at h
  · rename_i hc; exact ⟨hc, List.mem_singleton.1 h⟩
  · cases h

theorem mem_unPart {g : Grammar} {cfg : Cfg} {it x : Item} {c : Prop} [Decidable c]
    (h : x ∈ (if c then unaryItems g cfg it else [])) : c ∧ x ∈ unaryItems g cfg it := by
  split at h
  · rename_i hc; exact ⟨hc, h⟩
  · cases h

theorem unaryItems_shape {g : Grammar} {cfg : Cfg} {it x : Item} (h : x ∈ unaryItems g cfg it) :
    x.fin = it.fin ∧ ∃ c rid, x.d = .un c rid it.d := by
  obtain ⟨c, rid, _, rfl⟩ := mem_unaryItems h
  exact ⟨rfl, c, rid, rfl⟩

theorem binaryItems_shape {g : Grammar} {s : Sent} {l r x : Item} (h : x ∈ binaryItems g s l r) :
    x.fin = false ∧ ∃ c rid hl, x.d = .bin c rid hl l.d r.d := by
  obtain ⟨rule, rid, _, rfl⟩ := mem_binaryItems h
  exact ⟨rfl, rule.cat, rid, rule.headLeft, rfl⟩

theorem exists_unaryItem {g : Grammar} {cfg : Cfg} {it : Item} {c rid : Nat}
    (h : (g.un it.cat)[rid]? = some c) :
    ∃ x ∈ unaryItems g cfg it, x.fin = it.fin ∧ x.d = .un c rid it.d := by
  refine ⟨_, List.mem_map.2 ⟨(c, rid), List.mem_zipIdx_iff_getElem?.2 h, rfl⟩, rfl, rfl⟩

theorem exists_binaryItem {g : Grammar} {s : Sent} {l r : Item} {c rid : Nat} {hl : Bool}
    (h : (g.bin l.cat r.cat)[rid]? = some ⟨c, hl⟩) :
    ∃ x ∈ binaryItems g s l r, x.fin = false ∧ x.d = .bin c rid hl l.d r.d := by
  refine ⟨_, List.mem_map.2 ⟨(⟨c, hl⟩, rid), List.mem_zipIdx_iff_getElem?.2 h, rfl⟩, rfl, rfl⟩

theorem unaryItems_pairwise (g : Grammar) (cfg : Cfg) (it : Item) :
    (unaryItems g cfg it).Pairwise KNe := by
  unfold unaryItems
  rw [List.pairwise_map]
  refine (zipIdx_pairwise_snd _).imp ?_
  intro a b hne h
  obtain ⟨c1, r1⟩ := a
  obtain ⟨c2, r2⟩ := b
  have h2 := h.2
  simp only [Deriv.un.injEq] at h2
  exact hne h2.2.1

theorem binaryItems_pairwise (g : Grammar) (s : Sent) (l r : Item) :
    (binaryItems g s l r).Pairwise KNe := by
  unfold binaryItems
  rw [List.pairwise_map]
  refine (zipIdx_pairwise_snd _).imp ?_
  intro a b hne h
  obtain ⟨c1, r1⟩ := a
  obtain ⟨c2, r2⟩ := b
  have h2 := h.2
  simp only [Deriv.bin.injEq] at h2
  exact hne h2.2.1

/-- the walk order of the chart keeps the derivations pairwise different -/
theorem neighbours_pairwise_d {chart : List Item} (p : Item → Bool)
    (hc : chart.Pairwise (fun a b => a.d ≠ b.d)) :
    (neighbours chart p).Pairwise (fun a b => a.d ≠ b.d) :=
  ((neighbours_perm chart p).pairwise_iff (fun h => Ne.symm h)).2 (hc.filter p)

theorem binL_pairwise {g : Grammar} {s : Sent} {it : Item} {chart : List Item} (p : Item → Bool)
    (hc : chart.Pairwise (fun a b => a.d ≠ b.d)) :
    ((neighbours chart p).flatMap (fun o => binaryItems g s it o)).Pairwise KNe := by
  refine List.pairwise_flatMap.2 ⟨fun o _ => binaryItems_pairwise g s it o, ?_⟩
  refine (neighbours_pairwise_d p hc).imp ?_
  intro o1 o2 hne x hx y hy h
  obtain ⟨_, c1, r1, h1, e1⟩ := binaryItems_shape hx
  obtain ⟨_, c2, r2, h2, e2⟩ := binaryItems_shape hy
  have hd := h.2
  rw [e1, e2] at hd
  simp only [Deriv.bin.injEq] at hd
  exact hne hd.2.2.2.2

theorem binR_pairwise {g : Grammar} {s : Sent} {it : Item} {chart : List Item} (p : Item → Bool)
    (hc : chart.Pairwise (fun a b => a.d ≠ b.d)) :
    ((neighbours chart p).flatMap (fun o => binaryItems g s o it)).Pairwise KNe := by
  refine List.pairwise_flatMap.2 ⟨fun o _ => binaryItems_pairwise g s o it, ?_⟩
  refine (neighbours_pairwise_d p hc).imp ?_
  intro o1 o2 hne x hx y hy h
  obtain ⟨_, c1, r1, h1, e1⟩ := binaryItems_shape hx
  obtain ⟨_, c2, r2, h2, e2⟩ := binaryItems_shape hy
  have hd := h.2
  rw [e1, e2] at hd
  simp only [Deriv.bin.injEq] at hd
  exact hne hd.2.2.2.1

/-- where an element of `expand` comes from -/
def ExpKind (chart : List Item) (it x : Item) : Prop :=
  (x.fin = true ∧ x.d = it.d) ∨
  (x.fin = it.fin ∧ ∃ c rid, x.d = .un c rid it.d) ∨
  (x.fin = false ∧ ∃ o ∈ chart, ∃ c rid hl, x.d = .bin c rid hl it.d o.d) ∨
  (x.fin = false ∧ ∃ o ∈ chart, ∃ c rid hl, x.d = .bin c rid hl o.d it.d)

theorem mem_binL {g : Grammar} {s : Sent} {it x : Item} {chart : List Item} {p : Item → Bool}
    (h : x ∈ (neighbours chart p).flatMap (fun o => binaryItems g s it o)) :
    x.fin = false ∧ ∃ o ∈ chart, ∃ c rid hl, x.d = .bin c rid hl it.d o.d := by
  obtain ⟨o, ho, hx⟩ := List.mem_flatMap.1 h
  obtain ⟨hf, c, rid, hl, e⟩ := binaryItems_shape hx
  exact ⟨hf, o, (mem_neighbours.1 ho).1, c, rid, hl, e⟩

theorem mem_binR {g : Grammar} {s : Sent} {it x : Item} {chart : List Item} {p : Item → Bool}
    (h : x ∈ (neighbours chart p).flatMap (fun o => binaryItems g s o it)) :
    x.fin = false ∧ ∃ o ∈ chart, ∃ c rid hl, x.d = .bin c rid hl o.d it.d := by
  obtain ⟨o, ho, hx⟩ := List.mem_flatMap.1 h
  obtain ⟨hf, c, rid, hl, e⟩ := binaryItems_shape hx
  exact ⟨hf, o, (mem_neighbours.1 ho).1, c, rid, hl, e⟩

theorem mem_expand_kind {g : Grammar} {s : Sent} {cfg : Cfg} {chart : List Item} {it x : Item}
    (h : x ∈ expand g s cfg chart it) : ExpKind chart it x := by
  simp only [expand, List.mem_append] at h
  rcases h with ((h | h) | h) | h
  · obtain ⟨_, rfl⟩ := mem_finPart h
    exact Or.inl ⟨rfl, rfl⟩
  · exact Or.inr (Or.inl (unaryItems_shape (mem_unPart h).2))
  · exact Or.inr (Or.inr (Or.inl (mem_binL h)))
  · exact Or.inr (Or.inr (Or.inr (mem_binR h)))

/-- everything pushed needs `it` in the chart … -/
theorem ExpKind.needs_it {chart : List Item} {it x : Item} (hf : it.fin = false)
    (h : ExpKind chart it x) : it.d ∈ needs x := by
  rcases h with ⟨h1, h2⟩ | ⟨h1, c, rid, h2⟩ | ⟨h1, o, _, c, rid, hl, h2⟩ | ⟨h1, o, _, c, rid, hl, h2⟩
  · simp [needs, h1, h2]
  · simp [needs, h1, hf, h2, kids]
  · simp [needs, h1, h2, kids]
  · simp [needs, h1, h2, kids]

/-- … and nothing but `it` and chart items -/
theorem ExpKind.needs_sub {chart : List Item} {it x : Item} (hf : it.fin = false)
    (h : ExpKind chart it x) : ∀ k ∈ needs x, k = it.d ∨ ∃ o ∈ chart, o.d = k := by
  intro k hk
  rcases h with ⟨h1, h2⟩ | ⟨h1, c, rid, h2⟩ | ⟨h1, o, ho, c, rid, hl, h2⟩ | ⟨h1, o, ho, c, rid, hl, h2⟩
  · simp only [needs, h1, h2, if_true, List.mem_singleton] at hk
    exact Or.inl hk
  · simp only [needs, h1, hf, h2, kids, Bool.false_eq_true, if_false, List.mem_singleton] at hk
    exact Or.inl hk
  · simp only [needs, h1, h2, kids, Bool.false_eq_true, if_false, List.mem_cons, List.mem_nil_iff,
      or_false] at hk
    rcases hk with rfl | rfl
    · exact Or.inl rfl
    · exact Or.inr ⟨o, ho, rfl⟩
  · simp only [needs, h1, h2, kids, Bool.false_eq_true, if_false, List.mem_cons, List.mem_nil_iff,
      or_false] at hk
    rcases hk with rfl | rfl
    · exact Or.inr ⟨o, ho, rfl⟩
    · exact Or.inl rfl

/-- the items pushed in one step are pairwise different -/
theorem expand_pairwise {g : Grammar} {s : Sent} {cfg : Cfg} {chart : List Item} {it : Item}
    (hf : it.fin = false) (hc : chart.Pairwise (fun a b => a.d ≠ b.d))
    (hnew : ∀ o ∈ chart, o.d ≠ it.d) : (expand g s cfg chart it).Pairwise KNe := by
  unfold expand
  refine List.pairwise_append.2 ⟨List.pairwise_append.2 ⟨List.pairwise_append.2 ⟨?_, ?_, ?_⟩,
    binL_pairwise _ hc, ?_⟩, binR_pairwise _ hc, ?_⟩
  · split
    · exact List.pairwise_singleton _ _
    · exact List.Pairwise.nil
  · split
    · exact unaryItems_pairwise g cfg it
    · exact List.Pairwise.nil
  · intro x hx y hy h
    obtain ⟨_, rfl⟩ := mem_finPart hx
    have := (unaryItems_shape (mem_unPart hy).2).1
    rw [hf] at this
    rw [this] at h
    exact absurd h.1 (by simp [finItem])
  · intro x hx y hy h
    obtain ⟨hy1, o, _, c, rid, hl, hy2⟩ := mem_binL hy
    rcases List.mem_append.1 hx with hx | hx
    · obtain ⟨_, rfl⟩ := mem_finPart hx
      rw [hy1] at h
      exact absurd h.1 (by simp [finItem])
    · obtain ⟨_, c', rid', hx2⟩ := unaryItems_shape (mem_unPart hx).2
      have hd := h.2
      rw [hx2, hy2] at hd
      cases hd
  · intro x hx y hy h
    obtain ⟨hy1, o, ho, c, rid, hl, hy2⟩ := mem_binR hy
    rcases List.mem_append.1 hx with hx | hx
    · rcases List.mem_append.1 hx with hx | hx
      · obtain ⟨_, rfl⟩ := mem_finPart hx
        rw [hy1] at h
        exact absurd h.1 (by simp [finItem])
      · obtain ⟨_, c', rid', hx2⟩ := unaryItems_shape (mem_unPart hx).2
        have hd := h.2
        rw [hx2, hy2] at hd
        cases hd
    · obtain ⟨_, o', _, c', rid', hl', hx2⟩ := mem_binL hx
      have hd := h.2
      rw [hx2, hy2] at hd
      simp only [Deriv.bin.injEq] at hd
      exact hnew o ho hd.2.2.2.1.symm

/-! ### the n-best invariant -/

/-- all items created so far: waiting or popped -/
def allItems (st : St) : List Item := st.agenda ++ st.popped

def HasNF (st : St) (d : Deriv) : Prop := ∃ i ∈ allItems st, i.fin = false ∧ i.d = d
def HasF (st : St) (d : Deriv) : Prop := ∃ i ∈ allItems st, i.fin = true ∧ i.d = d

theorem HasNF.mono {st st' : St} {d : Deriv} (hsub : ∀ x ∈ allItems st, x ∈ allItems st')
    (h : HasNF st d) : HasNF st' d := by
  obtain ⟨i, hi, h⟩ := h
  exact ⟨i, hsub i hi, h⟩

theorem HasF.mono {st st' : St} {d : Deriv} (hsub : ∀ x ∈ allItems st, x ∈ allItems st')
    (h : HasF st d) : HasF st' d := by
  obtain ⟨i, hi, h⟩ := h
  exact ⟨i, hsub i hi, h⟩

structure NB (g : Grammar) (s : Sent) (cfg : Cfg) (st : St) : Prop where
  /-- A: no derivation was pushed twice -/
  distinct : (allItems st).Pairwise KNe
  chartD : st.chart.Pairwise (fun a b => a.d ≠ b.d)
  goalD : st.goal.Pairwise (fun a b => a.d ≠ b.d)
  /-- n-best mode keeps every popped item -/
  popChart : ∀ it ∈ st.popped, it.fin = false → it ∈ st.chart
  popGoal : ∀ it ∈ st.popped, it.fin = true → it ∈ st.goal
  /-- an item exists only if its children (final: its non-final twin) are in the chart -/
  sup : ∀ y ∈ allItems st, ∀ k ∈ needs y, ∃ o ∈ st.chart, o.d = k
  /-- B (local form): everything licensed over chart items has been pushed -/
  leafs : ∀ t c, Licensed g s cfg (.leaf t c) → HasNF st (.leaf t c)
  uns : ∀ o ∈ st.chart, ∀ c rid, Licensed g s cfg (.un c rid o.d) → HasNF st (.un c rid o.d)
  bins : ∀ o1 ∈ st.chart, ∀ o2 ∈ st.chart, ∀ c rid hl,
    Licensed g s cfg (.bin c rid hl o1.d o2.d) → HasNF st (.bin c rid hl o1.d o2.d)
  fins : ∀ o ∈ st.chart, LicensedRoot g s cfg o.d → HasF st o.d

/-! ### initial state -/

theorem candidates_pairwise (s : Sent) (tok : Nat) :
    (candidates s tok).Pairwise (fun a b => a.2 ≠ b.2) := by
  have h : ((candidates s tok).map (·.2)).Nodup := by
    refine (((sortCands_perm _).map _).nodup_iff).2 ?_
    rw [enumFrom_map_snd]
    exact List.nodup_range' ..
  exact List.pairwise_map.1 h

theorem admitted_pairwise (s : Sent) (cfg : Cfg) (tok : Nat) :
    (admitted s cfg tok).Pairwise (fun a b => a.2 ≠ b.2) := by
  obtain ⟨k, _, e⟩ := admitted_eq_take s cfg tok
  rw [e]
  exact (candidates_pairwise s tok).sublist (List.take_sublist _ _)

theorem leafItems_pairwise (s : Sent) (cfg : Cfg) : (leafItems s cfg).Pairwise KNe := by
  unfold leafItems
  refine List.pairwise_flatMap.2 ⟨?_, ?_⟩
  · intro tok _
    rw [List.pairwise_map]
    refine (admitted_pairwise s cfg tok).imp ?_
    intro a b hne h
    have hd := h.2
    simp only [leafItem, Deriv.leaf.injEq] at hd
    exact hne hd.2
  · have hr : (List.range s.n).Pairwise (· ≠ ·) := List.nodup_range
    refine hr.imp ?_
    intro t1 t2 hne x hx y hy h
    obtain ⟨c1, _, rfl⟩ := List.mem_map.1 hx
    obtain ⟨c2, _, rfl⟩ := List.mem_map.1 hy
    have hd := h.2
    simp only [leafItem, Deriv.leaf.injEq] at hd
    exact hne hd.1

theorem NB.init {pick : Pick} (hp : PickOK pick) (g : Grammar) (s : Sent) (cfg : Cfg) :
    NB g s cfg (init pick s cfg) where
  distinct := by
    show (pick.push (leafItems s cfg) [] ++ []).Pairwise KNe
    rw [List.append_nil]
    refine ((hp.push_perm (leafItems s cfg) []).pairwise_iff (fun h => KNe.symm h)).2 ?_
    rw [List.append_nil]; exact leafItems_pairwise s cfg
  chartD := List.Pairwise.nil
  goalD := List.Pairwise.nil
  popChart := fun _ h => by cases h
  popGoal := fun _ h => by cases h
  sup := by
    intro y hy k hk
    have hy' : y ∈ leafItems s cfg := by
      have : y ∈ pick.push (leafItems s cfg) [] ++ [] := hy
      rw [List.append_nil] at this
      exact hp.mem_push_nil.1 this
    obtain ⟨tok, c, _, _, rfl⟩ := mem_leafItems hy'
    simp [needs, leafItem, kids] at hk
  leafs := by
    intro t c h
    cases h with
    | leaf _ _ sc ht hm =>
      refine ⟨leafItem s t (sc, c), ?_, rfl, rfl⟩
      show _ ∈ pick.push (leafItems s cfg) [] ++ []
      rw [List.append_nil, hp.mem_push_nil]
      simp only [leafItems, List.mem_flatMap, List.mem_range, List.mem_map]
      exact ⟨t, ht, (sc, c), hm, rfl⟩
  uns := fun _ h => by cases h
  bins := fun _ h => by cases h
  fins := fun _ h => by cases h

/-! ### a final item is popped -/

theorem NB.stepFin {g : Grammar} {s : Sent} {cfg : Cfg} {st : St} {it : Item} {rest : List Item}
    (hok : StOK g s cfg st) (h : NB g s cfg st) (hperm : (it :: rest).Perm st.agenda)
    (hf : it.fin = true) : NB g s cfg { popSt st it rest with goal := it :: st.goal } := by
  have hP : (allItems { popSt st it rest with goal := it :: st.goal }).Perm (allItems st) :=
    perm_pop hperm
  have hsub : ∀ x ∈ allItems st, x ∈ allItems { popSt st it rest with goal := it :: st.goal } :=
    fun x hx => hP.mem_iff.2 hx
  have hitmem : it ∈ st.agenda := hperm.mem_iff.1 (List.mem_cons_self ..)
  have hcross := (List.pairwise_append.1 h.distinct).2.2
  refine ⟨?_, h.chartD, ?_, ?_, ?_, ?_, ?_, ?_, ?_, ?_⟩
  · exact (hP.pairwise_iff (fun h => KNe.symm h)).2 h.distinct
  · refine List.pairwise_cons.2 ⟨?_, h.goalD⟩
    intro o ho e
    exact hcross it hitmem o (hok.goal_sub o ho) ⟨by rw [hf, (hok.goal o ho).1], e⟩
  · intro x hx hxf
    rcases List.mem_cons.1 hx with rfl | hx
    · rw [hf] at hxf; cases hxf
    · exact h.popChart x hx hxf
  · intro x hx hxf
    rcases List.mem_cons.1 hx with rfl | hx
    · exact List.mem_cons_self ..
    · exact List.mem_cons_of_mem _ (h.popGoal x hx hxf)
  · intro y hy k hk
    exact h.sup y (hP.mem_iff.1 hy) k hk
  · exact fun t c hl => (h.leafs t c hl).mono hsub
  · exact fun o ho c rid hl => (h.uns o ho c rid hl).mono hsub
  · exact fun o1 ho1 o2 ho2 c rid hl hlic => (h.bins o1 ho1 o2 ho2 c rid hl hlic).mono hsub
  · exact fun o ho hl => (h.fins o ho hl).mono hsub

/-! ### a non-final item is popped and enters the chart -/

theorem finItem_mem_expand {g : Grammar} {s : Sent} {cfg : Cfg} {chart : List Item} {it : Item}
    (hlen : it.len = s.n) (hroot : s.roots.elem it.cat = true) :
    finItem s it ∈ expand g s cfg chart it := by
  simp only [expand, List.mem_append]
  refine Or.inl (Or.inl (Or.inl ?_))
  rw [if_pos ⟨hlen, hroot⟩]
  exact List.mem_singleton.2 rfl

theorem unary_mem_expand {g : Grammar} {s : Sent} {cfg : Cfg} {chart : List Item} {it x : Item}
    (hu : s.n = 1 ∨ it.len ≠ s.n) (hx : x ∈ unaryItems g cfg it) :
    x ∈ expand g s cfg chart it := by
  simp only [expand, List.mem_append]
  refine Or.inl (Or.inl (Or.inr ?_))
  rw [if_pos hu]
  exact hx

theorem binL_mem_expand {g : Grammar} {s : Sent} {cfg : Cfg} {chart : List Item} {it o x : Item}
    (ho : o ∈ chart) (hadj : o.start = it.stop) (hx : x ∈ binaryItems g s it o) :
    x ∈ expand g s cfg chart it := by
  simp only [expand, List.mem_append]
  refine Or.inl (Or.inr ?_)
  exact List.mem_flatMap.2 ⟨o, mem_neighbours.2 ⟨ho, by simpa using hadj⟩, hx⟩

theorem binR_mem_expand {g : Grammar} {s : Sent} {cfg : Cfg} {chart : List Item} {it o x : Item}
    (ho : o ∈ chart) (hadj : o.stop = it.start) (hx : x ∈ binaryItems g s o it) :
    x ∈ expand g s cfg chart it := by
  simp only [expand, List.mem_append]
  refine Or.inr ?_
  exact List.mem_flatMap.2 ⟨o, mem_neighbours.2 ⟨ho, by simpa using hadj⟩, hx⟩

/-- the licensed unary parents of the new chart item are pushed -/
theorem expand_has_un {g : Grammar} {s : Sent} {cfg : Cfg} {chart : List Item} {it : Item}
    (hit : NonFinOK g s cfg it) (hf : it.fin = false) {c rid : Nat}
    (hl : Licensed g s cfg (.un c rid it.d)) :
    ∃ x ∈ expand g s cfg chart it, x.fin = false ∧ x.d = .un c rid it.d := by
  cases hl with
  | un _ _ _ _ hr hu =>
    rw [← hit.cat] at hr
    rw [← hit.len] at hu
    obtain ⟨x, hx, h1, h2⟩ := exists_unaryItem (cfg := cfg) hr
    exact ⟨x, unary_mem_expand hu hx, by rw [h1, hf], h2⟩

/-- the licensed binary parents with the new item on the left -/
theorem expand_has_binL {g : Grammar} {s : Sent} {cfg : Cfg} {chart : List Item} {it o : Item}
    (hit : NonFinOK g s cfg it) (ho : o ∈ chart) (hoo : NonFinOK g s cfg o) {c rid : Nat} {hl : Bool}
    (hlic : Licensed g s cfg (.bin c rid hl it.d o.d)) :
    ∃ x ∈ expand g s cfg chart it, x.fin = false ∧ x.d = .bin c rid hl it.d o.d := by
  cases hlic with
  | bin _ _ _ _ _ _ _ hadj hr =>
    rw [← hit.cat, ← hoo.cat] at hr
    obtain ⟨x, hx, h1, h2⟩ := exists_binaryItem (s := s) hr
    refine ⟨x, binL_mem_expand ho ?_ hx, h1, h2⟩
    rw [Item.stop, hoo.start, hit.start, hit.len]
    exact hadj.symm

/-- … and on the right -/
theorem expand_has_binR {g : Grammar} {s : Sent} {cfg : Cfg} {chart : List Item} {it o : Item}
    (hit : NonFinOK g s cfg it) (ho : o ∈ chart) (hoo : NonFinOK g s cfg o) {c rid : Nat} {hl : Bool}
    (hlic : Licensed g s cfg (.bin c rid hl o.d it.d)) :
    ∃ x ∈ expand g s cfg chart it, x.fin = false ∧ x.d = .bin c rid hl o.d it.d := by
  cases hlic with
  | bin _ _ _ _ _ _ _ hadj hr =>
    rw [← hit.cat, ← hoo.cat] at hr
    obtain ⟨x, hx, h1, h2⟩ := exists_binaryItem (s := s) hr
    refine ⟨x, binR_mem_expand ho ?_ hx, h1, h2⟩
    rw [Item.stop, hoo.start, hit.start, hoo.len]
    exact hadj

theorem expand_has_fin {g : Grammar} {s : Sent} {cfg : Cfg} {chart : List Item} {it : Item}
    (hit : NonFinOK g s cfg it) (hl : LicensedRoot g s cfg it.d) :
    ∃ x ∈ expand g s cfg chart it, x.fin = true ∧ x.d = it.d := by
  obtain ⟨_, _, hlen, hroot⟩ := hl
  refine ⟨finItem s it, finItem_mem_expand ?_ ?_, rfl, rfl⟩
  · rw [hit.len]; exact hlen
  · rw [hit.cat]; simpa using hroot

theorem not_self_adjacent {g : Grammar} {s : Sent} {cfg : Cfg} {c rid : Nat} {hl : Bool} {d : Deriv}
    (h : Licensed g s cfg (.bin c rid hl d d)) : False := by
  cases h with
  | bin _ _ _ _ _ _ _ hadj _ =>
    have := dlen_pos d
    simp only [dstop] at hadj
    omega

/-- the state after the non-final `it` was popped and entered the chart -/
def pushSt (pick : Pick) (g : Grammar) (s : Sent) (cfg : Cfg) (st : St) (it : Item)
    (rest : List Item) : St :=
  { popSt st it rest with chart := it :: st.chart,
                          agenda := pick.push (expand g s cfg st.chart it) rest }

theorem NB.stepNF {pick : Pick} (hp : PickOK pick) {g : Grammar} {s : Sent} {cfg : Cfg} {st : St}
    {it : Item} {rest : List Item}
    (hok : StOK g s cfg st) (h : NB g s cfg st) (hperm : (it :: rest).Perm st.agenda)
    (hf : it.fin = false) :
    NB g s cfg (pushSt pick g s cfg st it rest) := by
  have hP : (allItems (pushSt pick g s cfg st it rest)).Perm
      (expand g s cfg st.chart it ++ allItems st) := perm_pop_pushWith hp hperm
  have hsub : ∀ x ∈ allItems st, x ∈ allItems (pushSt pick g s cfg st it rest) :=
    fun x hx => hP.mem_iff.2 (List.mem_append_right _ hx)
  have hnewmem : ∀ x ∈ expand g s cfg st.chart it, x ∈ allItems (pushSt pick g s cfg st it rest) :=
    fun x hx => hP.mem_iff.2 (List.mem_append_left _ hx)
  have hitmem : it ∈ st.agenda := hperm.mem_iff.1 (List.mem_cons_self ..)
  have hit : NonFinOK g s cfg it := (hok.agenda it hitmem).1 hf
  have hcross := (List.pairwise_append.1 h.distinct).2.2
  have hnew : ∀ o ∈ st.chart, o.d ≠ it.d := by
    intro o ho e
    exact hcross it hitmem o (hok.chart_sub o ho) ⟨by rw [hf, (hok.chart o ho).1], e.symm⟩
  have hfresh : ∀ x ∈ expand g s cfg st.chart it, ∀ y ∈ allItems st, KNe x y := by
    intro x hx y hy e
    have hk := (mem_expand_kind hx).needs_it hf
    rw [needs_congr e.1 e.2] at hk
    obtain ⟨o, ho, hod⟩ := h.sup y hy _ hk
    exact hnew o ho hod
  refine ⟨?_, ?_, h.goalD, ?_, ?_, ?_, ?_, ?_, ?_, ?_⟩
  · refine (hP.pairwise_iff (fun h => KNe.symm h)).2 ?_
    exact List.pairwise_append.2 ⟨expand_pairwise hf h.chartD hnew, h.distinct, hfresh⟩
  · exact List.pairwise_cons.2 ⟨fun o ho e => hnew o ho e.symm, h.chartD⟩
  · intro x hx hxf
    rcases List.mem_cons.1 hx with rfl | hx
    · exact List.mem_cons_self ..
    · exact List.mem_cons_of_mem _ (h.popChart x hx hxf)
  · intro x hx hxf
    rcases List.mem_cons.1 hx with rfl | hx
    · rw [hf] at hxf; cases hxf
    · exact h.popGoal x hx hxf
  · intro y hy k hk
    rcases List.mem_append.1 (hP.mem_iff.1 hy) with hy | hy
    · rcases (mem_expand_kind hy).needs_sub hf k hk with rfl | ⟨o, ho, e⟩
      · exact ⟨it, List.mem_cons_self .., rfl⟩
      · exact ⟨o, List.mem_cons_of_mem _ ho, e⟩
    · obtain ⟨o, ho, e⟩ := h.sup y hy k hk
      exact ⟨o, List.mem_cons_of_mem _ ho, e⟩
  · exact fun t c hl => (h.leafs t c hl).mono hsub
  · intro o ho c rid hl
    rcases List.mem_cons.1 ho with rfl | ho
    · obtain ⟨x, hx, hx'⟩ := expand_has_un (chart := st.chart) hit hf hl
      exact ⟨x, hnewmem x hx, hx'⟩
    · exact (h.uns o ho c rid hl).mono hsub
  · intro o1 ho1 o2 ho2 c rid hl hlic
    have ho1' : o1 = it ∨ o1 ∈ st.chart := List.mem_cons.1 ho1
    have ho2' : o2 = it ∨ o2 ∈ st.chart := List.mem_cons.1 ho2
    clear ho1 ho2
    rcases ho1' with e1 | ho1
    · rcases ho2' with e2 | ho2
      · rw [e1, e2] at hlic
        exact (not_self_adjacent hlic).elim
      · rw [e1] at hlic ⊢
        obtain ⟨x, hx, hx'⟩ := expand_has_binL hit ho2 (hok.chart o2 ho2).2 hlic
        exact ⟨x, hnewmem x hx, hx'⟩
    · rcases ho2' with e2 | ho2
      · rw [e2] at hlic ⊢
        obtain ⟨x, hx, hx'⟩ := expand_has_binR hit ho1 (hok.chart o1 ho1).2 hlic
        exact ⟨x, hnewmem x hx, hx'⟩
      · exact (h.bins o1 ho1 o2 ho2 c rid hl hlic).mono hsub
  · intro o ho hl
    rcases List.mem_cons.1 ho with rfl | ho
    · obtain ⟨x, hx, hx'⟩ := expand_has_fin (g := g) (cfg := cfg) (chart := st.chart) hit hl
      exact ⟨x, hnewmem x hx, hx'⟩
    · exact (h.fins o ho hl).mono hsub

/-! ### every reachable state -/

theorem NB.step {pick : Pick} {g : Grammar} {s : Sent} {cfg : Cfg} {st st' : St} (hp : PickOK pick)
    (hn : 1 < cfg.nbest) (hok : StOK g s cfg st) (h : NB g s cfg st)
    (hs : stepWith pick g s cfg st = some st') : NB g s cfg st' := by
  obtain ⟨-, it, rest, hpick, hcases⟩ := stepWith_cases hs
  obtain ⟨hperm, -⟩ := hp.spec hpick
  rcases hcases with ⟨_, hc, _⟩ | ⟨hf, _, rfl⟩ | ⟨_, hc, _⟩ | ⟨hf, _, rfl⟩
  · omega
  · exact h.stepFin hok hperm hf
  · omega
  · exact h.stepNF hp hok hperm hf

theorem NB.final {pick : Pick} (hp : PickOK pick) (g : Grammar) (s : Sent) (cfg : Cfg)
    (hn : 1 < cfg.nbest) :
    NB g s cfg (Search.loop pick g s cfg cfg.maxStep (Search.init pick s cfg)) := by
  have := loop_inv (pick := pick) (g := g) (s := s) (cfg := cfg)
    (fun st => StOK g s cfg st ∧ NB g s cfg st)
    (fun st st' h hstep => ⟨h.1.step hp hstep, h.2.step hp hn h.1 hstep⟩)
    cfg.maxStep (Search.init pick s cfg) ⟨StOK.init hp g s cfg, NB.init hp g s cfg⟩
  exact this.2

/-! ### the priority of a derivation -/

/-- the priority the (non-final) item of derivation `d` has -/
def dprio (s : Sent) (cfg : Cfg) (d : Deriv) : Int :=
  inScore s cfg d + binOut s (dstart d) (dstart d + dlen d) (dhead d)

theorem NonFinOK.prio_dprio {g : Grammar} {s : Sent} {cfg : Cfg} {it : Item}
    (h : NonFinOK g s cfg it) : it.prio = dprio s cfg it.d := by
  rw [Item.prio, h.inS, h.outS, h.start, h.len, h.head]
  rfl

theorem dprio_eq {g : Grammar} {s : Sent} {cfg : Cfg} {d : Deriv} (h : Licensed g s cfg d) :
    dprio s cfg d = inScore s cfg d +
      ((sumTo (bestTag s) (dstart d) + (sumTo (bestTag s) s.n - sumTo (bestTag s) (dstart d + dlen d)))
      + (sumTo (bestDep s) (dstart d) + (sumTo (bestDep s) s.n - sumTo (bestDep s) (dstart d + dlen d)))
      + bestDep s (dhead d)) := by
  have := dlen_pos d
  have sp := h.span
  rw [dprio, binOut_eq s _ (by omega) sp.2.2]

theorem dprio_un_le {s : Sent} {cfg : Cfg} (hp : 0 ≤ cfg.penalty) (c rid : Nat) (d : Deriv) :
    dprio s cfg (.un c rid d) ≤ dprio s cfg d := by
  simp only [dprio, inScore_un, dstart, dlen, dhead]
  omega

theorem dprio_bin_le {g : Grammar} {s : Sent} {cfg : Cfg} {c rid : Nat} {hl : Bool} {l r : Deriv}
    (hs : SentOK s) (hp : 0 ≤ cfg.penalty) (h : Licensed g s cfg (.bin c rid hl l r)) :
    dprio s cfg (.bin c rid hl l r) ≤ dprio s cfg l ∧ dprio s cfg (.bin c rid hl l r) ≤ dprio s cfg r := by
  have e := dprio_eq h
  cases h with
  | bin _ _ _ _ _ hl' hr' hadj _ =>
    have el := dprio_eq hl'
    have er := dprio_eq hr'
    have il := inside_le hs hp hl'
    have ir := inside_le hs hp hr'
    have sl := hl'.span
    have sr := hr'.span
    simp only [dstop] at hadj il ir
    rw [e, el, er]
    simp only [inScore_bin, dstart, dlen, dhead]
    rw [← Nat.add_assoc, hadj]
    rw [hadj] at il
    cases hl with
    | false =>
      have hd := depAt_le_bestDep hs (t := dhead l) (col := dhead r + 1) (by omega) (by omega)
      simp only [Bool.false_eq_true, if_false]
      omega
    | true =>
      have hd := depAt_le_bestDep hs (t := dhead r) (col := dhead l + 1) (by omega) (by omega)
      simp only [if_true]
      omega

theorem modelScore_le_dprio {g : Grammar} {s : Sent} {cfg : Cfg} {d : Deriv} (hs : SentOK s)
    (h : LicensedRoot g s cfg d) : modelScore s cfg d ≤ dprio s cfg d := by
  obtain ⟨hl, h0, hn, _⟩ := h
  have sp := hl.span
  have hd := depAt_le_bestDep hs (t := dhead d) (col := 0) (by omega) (by omega)
  rw [dprio_eq hl, modelScore_eq, h0, hn, Nat.zero_add]
  simp only [sumTo]
  omega

/-! ### B: every licensed derivation is present or dominated by a waiting item -/

section cover
variable {g : Grammar} {s : Sent} {cfg : Cfg} {st : St}

/-- a present non-final item is in the chart, or still waiting -/
theorem HasNF.resolve {d : Deriv} (hok : StOK g s cfg st) (h : NB g s cfg st) (hd : HasNF st d) :
    (∃ o ∈ st.chart, o.d = d) ∨ (∃ a ∈ st.agenda, dprio s cfg d ≤ a.prio) := by
  obtain ⟨i, hi, hf, rfl⟩ := hd
  rcases List.mem_append.1 hi with hi | hi
  · exact Or.inr ⟨i, hi, by rw [((hok.agenda i hi).1 hf).prio_dprio]; exact Int.le_refl _⟩
  · exact Or.inl ⟨i, h.popChart i hi hf, rfl⟩

theorem coverNB (hs : SentOK s) (hp : 0 ≤ cfg.penalty) (hok : StOK g s cfg st) (h : NB g s cfg st)
    {d : Deriv} (hd : Licensed g s cfg d) :
    (∃ o ∈ st.chart, o.d = d) ∨ (∃ a ∈ st.agenda, dprio s cfg d ≤ a.prio) := by
  induction hd with
  | leaf t c sc ht hm => exact (h.leafs t c (Licensed.leaf t c sc ht hm)).resolve hok h
  | un c rid d hd' hr hu ih =>
    have hlic := Licensed.un c rid d hd' hr hu
    rcases ih with ⟨o, ho, rfl⟩ | ⟨a, ha, hle⟩
    · exact (h.uns o ho c rid hlic).resolve hok h
    · exact Or.inr ⟨a, ha, Int.le_trans (dprio_un_le hp c rid d) hle⟩
  | bin c rid hl l r hl' hr' hadj hrule ihl ihr =>
    have hlic := Licensed.bin c rid hl l r hl' hr' hadj hrule
    have hle := dprio_bin_le hs hp hlic
    rcases ihl with ⟨o1, ho1, rfl⟩ | ⟨a, ha, hla⟩
    · rcases ihr with ⟨o2, ho2, rfl⟩ | ⟨a, ha, hra⟩
      · exact (h.bins o1 ho1 o2 ho2 c rid hl hlic).resolve hok h
      · exact Or.inr ⟨a, ha, Int.le_trans hle.2 hra⟩
    · exact Or.inr ⟨a, ha, Int.le_trans hle.1 hla⟩

/-- a complete parse has been popped as a final item (hence is in the goal list), or some waiting
    item has at least its model score -/
theorem coverFin (hs : SentOK s) (hp : 0 ≤ cfg.penalty) (hok : StOK g s cfg st) (h : NB g s cfg st)
    {d : Deriv} (hd : LicensedRoot g s cfg d) :
    (∃ r ∈ st.goal, r.d = d) ∨ (∃ a ∈ st.agenda, modelScore s cfg d ≤ a.prio) := by
  have hm := modelScore_le_dprio hs hd
  rcases coverNB hs hp hok h hd.1 with ⟨o, ho, rfl⟩ | ⟨a, ha, hle⟩
  · obtain ⟨i, hi, hf, e⟩ := h.fins o ho hd
    rcases List.mem_append.1 hi with hi | hi
    · refine Or.inr ⟨i, hi, ?_⟩
      rw [((hok.agenda i hi).2 hf).prio_eq, e]
      exact Int.le_refl _
    · exact Or.inl ⟨i, h.popGoal i hi hf, e⟩
  · exact Or.inr ⟨a, ha, Int.le_trans hm hle⟩

end cover

end Depccg.SearchProps
