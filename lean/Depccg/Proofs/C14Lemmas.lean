/-
  Helper lemmas for C14 (rule application: seen gate, unary rules, totality, order of the
  shared variables).  Core Lean only.
-/
import Depccg.Props.C14Defs

namespace Depccg.C14
open Depccg Cat Str Unify

/-! ### witnesses for `order_matters_witness` -/

def wpx : Cat := Pat.fwd Pat.a Pat.b
def wpy : Cat := Pat.b
def wS (f : String) : Cat := Cat.atom (Str.lit "S") (.un (some (Str.lit f)))
def wNP (f : String) : Cat := Cat.atom (Str.lit "NP") (.un (some (Str.lit f)))
def wx : Cat := .fn (wS "X") cSlash (.fn (wS "X") cBSlash (wNP "X"))
def wy : Cat := .fn (wS "dcl") cBSlash (wNP "b")


/-! ### clearing features, the seen gate, unary rules -/

theorem parse_X : Feat.parse (lit "X") = .ok (.un (some (lit "X"))) := by decide
theorem parse_nb : Feat.parse (lit "nb") = .ok (.un (some (lit "nb"))) := by decide

/-- erase the features satisfying `p` -/
def erase (p : Feat → Bool) : Cat → Cat
  | .atom b f => if p f then .atom b (.un none) else .atom b f
  | .fn l s r => .fn (erase p l) s (erase p r)

def isNb (f : Feat) : Bool := Feat.pyEq f (.un (some (lit "nb")))
def isNbX (f : Feat) : Bool := Feat.pyEq f (.un (some (lit "X"))) || Feat.pyEq f (.un (some (lit "nb")))

theorem featIn_nb (f : Feat) : Cat.featIn f nb = .ok (isNb f) := by
  simp only [nb, Cat.featIn, Feat.pyEqStr, parse_nb, isNb]
  cases Feat.pyEq f (.un (some (lit "nb"))) <;> rfl

theorem featIn_nbX (f : Feat) : Cat.featIn f nbX = .ok (isNbX f) := by
  simp only [nbX, Cat.featIn, Feat.pyEqStr, parse_nb, parse_X, isNbX]
  cases Feat.pyEq f (.un (some (lit "X"))) <;> cases Feat.pyEq f (.un (some (lit "nb"))) <;> rfl

theorem clear_nb_eq (c : Cat) : Cat.clear nb c = .ok (erase isNb c) := by
  induction c with
  | atom b f => simp only [Cat.clear, featIn_nb, erase]; cases isNb f <;> rfl
  | fn l s r ihl ihr => simp only [Cat.clear, ihl, ihr, erase]

theorem clear_nbX_eq (c : Cat) : Cat.clear nbX c = .ok (erase isNbX c) := by
  induction c with
  | atom b f => simp only [Cat.clear, featIn_nbX, erase]; cases isNbX f <;> rfl
  | fn l s r ihl ihr => simp only [Cat.clear, ihl, ihr, erase]

theorem isNb_none : isNb (.un none) = false := by decide
theorem isNbX_none : isNbX (.un none) = false := by decide

theorem isNb_imp_isNbX {f : Feat} (h : isNb f = true) : isNbX f = true := by
  simp only [isNb] at h; simp [isNbX, h]

theorem erase_nb_idem (c : Cat) : erase isNb (erase isNb c) = erase isNb c := by
  induction c with
  | atom b f =>
    cases h : isNb f <;> simp [erase, h, isNb_none]
  | fn l s r ihl ihr => simp [erase, ihl, ihr]

theorem erase_nbX_nb (c : Cat) : erase isNbX (erase isNb c) = erase isNbX c := by
  induction c with
  | atom b f =>
    cases h : isNb f
    · simp [erase, h]
    · simp [erase, h, isNbX_none, isNb_imp_isNbX h]
  | fn l s r ihl ihr => simp [erase, ihl, ihr]

theorem applyBinary_eq (seen : Option (List (Cat × Cat))) (x y : Cat) :
    En.applyBinary seen x y =
      if (match seen with
          | none => true
          | some S => inSeen S (erase isNbX x) (erase isNbX y))
      then En.applyAll En.combinators (erase isNb x) (erase isNb y) else .ok [] := by
  have h1 := clear_nb_eq x; have h2 := clear_nb_eq y
  have h3 := clear_nbX_eq x; have h4 := clear_nbX_eq y
  simp only [nb, nbX] at h1 h2 h3 h4
  simp only [En.applyBinary, h1, h2, h3, h4]
  cases seen <;> rfl

theorem unaryRuleSymbol_ok (x : Cat) (b k1 v1 k2 v2 k3 v3 : Str)
    (h : Ja.resultAtom x = .atom b (.tri k1 v1 k2 v2 k3 v3)) :
    ∃ s, Ja.unaryRuleSymbol x = .ok s := by
  simp only [Ja.unaryRuleSymbol, h]
  split
  · split <;> exact ⟨_, rfl⟩
  · split
    · split
      · exact ⟨_, rfl⟩
      · split <;> exact ⟨_, rfl⟩
    · exact ⟨_, rfl⟩

/-! ### dictionaries -/
section dict
variable {κ α : Type} [DecidableEq κ]

theorem get?_set (d : Dict κ α) (k k' : κ) (v : α) :
    Dict.get? (Dict.set d k v) k' = if k = k' then some v else Dict.get? d k' := by
  induction d with
  | nil => simp [Dict.set, Dict.get?]
  | cons p rest ih =>
    obtain ⟨a, w⟩ := p
    simp only [Dict.set]
    by_cases h : a = k
    · subst h; simp only [if_true, Dict.get?]
      split <;> simp [*]
    · simp only [h, if_false, Dict.get?, ih]
      by_cases h' : a = k'
      · subst h'; simp [Ne.symm h]
      · simp [h']

theorem get?_of_mem_keys (d : Dict κ α) (k : κ) (h : k ∈ Dict.keys d) :
    ∃ v, Dict.get? d k = some v := by
  induction d with
  | nil => simp [Dict.keys] at h
  | cons p rest ih =>
    obtain ⟨a, w⟩ := p
    simp only [Dict.get?]
    by_cases ha : a = k
    · exact ⟨w, by simp [ha]⟩
    · simp only [ha, if_false]
      apply ih
      simp only [Dict.keys, List.map_cons, List.mem_cons] at h
      rcases h with h | h
      · exact absurd h.symm ha
      · exact h
end dict

def HasKey (cats : Dict Str Cat) (k : Str) : Prop := ∃ c, Dict.get? cats k = some c

theorem HasKey.set_self (cats : Dict Str Cat) (k : Str) (t : Cat) : HasKey (Dict.set cats k t) k :=
  ⟨t, by simp [get?_set]⟩

theorem HasKey.set_mono {cats : Dict Str Cat} {k : Str} (b : Str) (t : Cat) (h : HasKey cats k) :
    HasKey (Dict.set cats b t) k := by
  obtain ⟨c, hc⟩ := h
  rw [HasKey, get?_set]
  split
  · exact ⟨_, rfl⟩
  · exact ⟨c, hc⟩

/-! ### patterns -/

def patKeys : Cat → List Str
  | .atom b _ => [b]
  | .fn l _ r => patKeys l ++ patKeys r

/-- the matched category is at least as deep as the pattern -/
def Shape : Cat → Cat → Prop
  | .atom .., _ => True
  | .fn pl _ pr, .fn tl _ tr => Shape pl tl ∧ Shape pr tr
  | .fn .., .atom .. => False

def Feat.isTri : Feat → Bool
  | .tri .. => true
  | .un _ => false

def CatKind (k : Bool) : Cat → Prop
  | .atom _ f => Feat.isTri f = k
  | .fn l _ r => CatKind k l ∧ CatKind k r

def DictKind (k : Bool) (d : Dict Str Feat) : Prop :=
  ∀ key f, Dict.get? d key = some f → Feat.isTri f = k

theorem DictKind.nil (k : Bool) : DictKind k [] := by
  intro key f h; simp [Dict.get?] at h

theorem DictKind.set {k : Bool} {d : Dict Str Feat} (h : DictKind k d) (key : Str) (f : Feat)
    (hf : Feat.isTri f = k) : DictKind k (Dict.set d key f) := by
  intro key' f' h'
  rw [get?_set] at h'
  split at h'
  · cases h'; exact hf
  · exact h _ _ h'

theorem allUnary_kind {c : Cat} (h : AllUnary c) : CatKind false c := by
  induction c with
  | atom b f => cases f <;> simp_all [AllUnary, CatKind, Feat.isTri]
  | fn l s r ihl ihr => exact ⟨ihl h.1, ihr h.2⟩

theorem allTernary_kind {c : Cat} (h : AllTernary c) : CatKind true c := by
  induction c with
  | atom b f => cases f <;> simp_all [AllTernary, CatKind, Feat.isTri]
  | fn l s r ihl ihr => exact ⟨ihl h.1, ihr h.2⟩

theorem scanDeep_kind {k : Bool} (t : Cat) (v : Str) (i : Nat) (res : Dict Str Feat)
    (ht : CatKind k t) (hr : DictKind k res) : DictKind k (scanDeep t v i res).2 := by
  induction t generalizing i res with
  | atom b f => exact hr.set _ _ ht
  | fn l s r ihl ihr =>
    simp only [scanDeep]
    exact ihr _ _ ht.2 (ihl _ _ ht.1 hr)

/-! ### scan -/

def atomRes (b : Str) (res : Dict Str Feat) : Cat → Dict Str Feat
  | .fn l s r => (scanDeep (.fn l s r) b 0 res).2
  | .atom _ tf => Dict.set res b tf

theorem scan_atom (b : Str) (pf : Feat) (t : Cat) (cats : Dict Str Cat) (res : Dict Str Feat)
    {cats' : Dict Str Cat} {res' : Dict Str Feat}
    (h : scan (.atom b pf) t cats res = (true, cats', res')) :
    cats' = Dict.set cats b t ∧
      res' = atomRes b res t := by
  cases hg : Dict.get? cats b with
  | none =>
    cases t <;> simp [scan, hg] at h <;> simp [h, atomRes]
  | some c =>
    cases hx : Cat.xorEq t c <;> cases t <;> simp [scan, hg, hx] at h <;> simp [h, atomRes]

theorem scan_fn (sl : Cat) (ss : Nat) (sr : Cat) (t : Cat) (cats : Dict Str Cat) (res : Dict Str Feat)
    {cats' : Dict Str Cat} {res' : Dict Str Feat}
    (h : scan (.fn sl ss sr) t cats res = (true, cats', res')) :
    ∃ tl ts tr cats1 res1, t = .fn tl ts tr ∧ scan sl tl cats res = (true, cats1, res1) ∧
      scan sr tr cats1 res1 = (true, cats', res') := by
  cases t with
  | atom b f => simp [scan] at h
  | fn tl ts tr =>
    simp only [scan] at h
    split at h
    · split at h
      · rename_i c1 r1 heq
        exact ⟨tl, ts, tr, c1, r1, rfl, heq, h⟩
      · cases h
    · cases h

theorem scan_spec (p : Cat) : ∀ (t : Cat) (cats : Dict Str Cat) (res : Dict Str Feat)
    (cats' : Dict Str Cat) (res' : Dict Str Feat),
    scan p t cats res = (true, cats', res') →
    Shape p t ∧ (∀ k, HasKey cats k → HasKey cats' k) ∧ (∀ k ∈ patKeys p, HasKey cats' k) ∧
      (∀ kd, CatKind kd t → DictKind kd res → DictKind kd res') := by
  induction p with
  | atom b pf =>
    intro t cats res cats' res' h
    obtain ⟨hc, hr⟩ := scan_atom b pf t cats res h
    subst hc
    refine ⟨trivial, fun k hk => hk.set_mono _ _, ?_, ?_⟩
    · intro k hk
      simp only [patKeys, List.mem_singleton] at hk
      subst hk; exact HasKey.set_self _ _ _
    · intro kd ht hd
      cases t with
      | atom tb tf => subst hr; exact hd.set _ _ ht
      | fn tl ts tr => subst hr; exact scanDeep_kind _ _ _ _ ht hd
  | fn sl ss sr ihl ihr =>
    intro t cats res cats' res' h
    obtain ⟨tl, ts, tr, c1, r1, rfl, h1, h2⟩ := scan_fn sl ss sr t cats res h
    obtain ⟨s1, m1, k1, d1⟩ := ihl _ _ _ _ _ h1
    obtain ⟨s2, m2, k2, d2⟩ := ihr _ _ _ _ _ h2
    refine ⟨⟨s1, s2⟩, fun k hk => m2 k (m1 k hk), ?_, ?_⟩
    · intro k hk
      simp only [patKeys, List.mem_append] at hk
      rcases hk with hk | hk
      · exact m2 k (k1 k hk)
      · exact k2 k hk
    · intro kd ht hd
      exact d2 kd ht.2 (d1 kd ht.1 hd)

/-! ### agree never raises on features of one system -/

theorem unifies_total {f g : Feat} (h : Feat.isTri f = Feat.isTri g) : ∃ b, Feat.unifies f g = .ok b := by
  cases f with
  | un v => exact ⟨_, rfl⟩
  | tri k1 v1 k2 v2 k3 v3 =>
    cases g with
    | un w => simp [Feat.isTri] at h
    | tri c1 d1 c2 d2 c3 d3 =>
      simp only [Feat.unifies]
      split
      · exact ⟨_, rfl⟩
      · split <;> exact ⟨_, rfl⟩

theorem agree_total {k : Bool} (xf yf : Dict Str Feat) (hx : DictKind k xf) (hy : DictKind k yf)
    (vs : List Str) (hv : ∀ v ∈ vs, (∃ f, Dict.get? xf v = some f) ∧ (∃ f, Dict.get? yf v = some f))
    (m : Dict Feat Feat) : ∃ r, agree xf yf vs m = .ok r := by
  induction vs generalizing m with
  | nil => exact ⟨_, rfl⟩
  | cons v vs ih =>
    obtain ⟨⟨fx, hfx⟩, ⟨fy, hfy⟩⟩ := hv v (List.mem_cons_self ..)
    have ih' := fun m => ih (fun w hw => hv w (List.mem_cons_of_mem _ hw)) m
    have kx := hx _ _ hfx
    have ky := hy _ _ hfy
    obtain ⟨b1, hb1⟩ := unifies_total (kx.trans ky.symm)
    obtain ⟨b2, hb2⟩ := unifies_total (ky.trans kx.symm)
    simp only [agree, hfx, hfy, hb1, hb2]
    cases b1
    · cases b2
      · exact ⟨_, rfl⟩
      · exact ih' _
    · exact ih' _

theorem sharedVars_mem {xf yf : Dict Str Feat} {v : Str} (h : v ∈ sharedVars xf yf) :
    (∃ f, Dict.get? xf v = some f) ∧ (∃ f, Dict.get? yf v = some f) := by
  simp only [sharedVars, List.mem_filter, Dict.contains] at h
  refine ⟨get?_of_mem_keys _ _ h.1, ?_⟩
  cases hy : Dict.get? yf v with
  | none => simp [hy] at h
  | some f => exact ⟨f, rfl⟩

theorem unify_total {k : Bool} (px py x y : Cat) (hx : CatKind k x) (hy : CatKind k y) :
    ∃ r, unify px py x y = .ok r := by
  simp only [unify, unifyOrd]
  rcases h1 : scan px x [] [] with ⟨b1, cats1, xf⟩
  cases b1 with
  | false => exact ⟨_, rfl⟩
  | true =>
  simp only []
  rcases h2 : scan py y cats1 [] with ⟨b2, cats2, yf⟩
  cases b2 with
  | false => exact ⟨_, rfl⟩
  | true =>
  simp only []
  have dx := (scan_spec _ _ _ _ _ _ h1).2.2.2 k hx (DictKind.nil k)
  have dy := (scan_spec _ _ _ _ _ _ h2).2.2.2 k hy (DictKind.nil k)
  obtain ⟨r, hr⟩ := agree_total xf yf dx dy (id (sharedVars xf yf)) (fun v hv => sharedVars_mem hv) []
  simp only [hr]
  cases r <;> exact ⟨_, rfl⟩

theorem unify_some {px py x y : Cat} {σ : Bindings} (h : unify px py x y = .ok (some σ)) :
    Shape px x ∧ Shape py y ∧ (∀ k ∈ patKeys px, ∃ c, σ.get k = .ok c) ∧
      (∀ k ∈ patKeys py, ∃ c, σ.get k = .ok c) := by
  simp only [unify, unifyOrd] at h
  rcases h1 : scan px x [] [] with ⟨b1, cats1, xf⟩
  rw [h1] at h
  cases b1
  · cases h
  rcases h2 : scan py y cats1 [] with ⟨b2, cats2, yf⟩
  simp only [h2] at h
  cases b2
  · cases h
  simp only at h
  obtain ⟨s1, _, k1, _⟩ := scan_spec _ _ _ _ _ _ h1
  obtain ⟨s2, m2, k2, _⟩ := scan_spec _ _ _ _ _ _ h2
  split at h
  · cases h
  · cases h
  · cases h
    have key : ∀ (m : Dict Feat Feat) k, HasKey cats2 k → ∃ c, Bindings.get ⟨cats2, m⟩ k = .ok c := by
      intro m k ⟨c, hc⟩
      simp only [Bindings.get, hc]; exact ⟨_, rfl⟩
    exact ⟨s1, s2, fun k hk => key _ k (m2 k (k1 k hk)), fun k hk => key _ k (k2 k hk)⟩


/-! ### totality, Japanese -/

theorem Shape.fn_inv {pl : Cat} {ps : Nat} {pr t : Cat} (h : Shape (.fn pl ps pr) t) :
    ∃ tl ts tr, t = .fn tl ts tr ∧ Shape pl tl ∧ Shape pr tr := by
  cases t with
  | atom b f => exact h.elim
  | fn tl ts tr => exact ⟨tl, ts, tr, rfl, h.1, h.2⟩

theorem applyAll_total (cs : List En.Comb) (x y : Cat) (h : ∀ c ∈ cs, ∃ r, c x y = .ok r) :
    ∃ rs, En.applyAll cs x y = .ok rs := by
  induction cs with
  | nil => exact ⟨_, rfl⟩
  | cons c cs ih =>
    obtain ⟨r, hr⟩ := h c (List.mem_cons_self ..)
    obtain ⟨rs, hrs⟩ := ih fun c' hc' => h c' (List.mem_cons_of_mem _ hc')
    simp only [En.applyAll, hr, hrs]
    exact ⟨_, rfl⟩

theorem viaUnify_total (px py x y mo keep : Cat) (os sym : String) (build : Bindings → Except Err Cat)
    (hu : ∃ r, unify px py x y = .ok r)
    (hb : ∀ σ, unify px py x y = .ok (some σ) → ∃ c, build σ = .ok c) :
    ∃ r, Ja.viaUnify px py x y mo keep os sym build = .ok r := by
  obtain ⟨r, hr⟩ := hu
  simp only [Ja.viaUnify, hr]
  cases r with
  | none => exact ⟨_, rfl⟩
  | some σ =>
    obtain ⟨c, hc⟩ := hb σ hr
    simp only [hc]
    split <;> exact ⟨_, rfl⟩

theorem get2_eq {σ : Bindings} {k1 k2 : Nat} {a c : Cat} (f : Cat → Cat → Except Err Cat)
    (h1 : σ.get [k1] = .ok a) (h2 : σ.get [k2] = .ok c) : Ja.get2 σ k1 k2 f = f a c := by
  simp only [Ja.get2, h1, h2]

theorem get3_eq {σ : Bindings} {k1 k2 k3 : Nat} {a c d : Cat} (f : Cat → Cat → Cat → Except Err Cat)
    (h1 : σ.get [k1] = .ok a) (h2 : σ.get [k2] = .ok c) (h3 : σ.get [k3] = .ok d) :
    Ja.get3 σ k1 k2 k3 f = f a c d := by
  simp only [Ja.get3, Ja.get2, h1, h2, h3]

section ja
variable {x y : Cat} (hx : CatKind true x) (hy : CatKind true y)
include hx hy

theorem ja_fa : ∃ r, Ja.forwardApplication x y = .ok r := by
  apply viaUnify_total _ _ _ _ _ _ _ _ _ (unify_total _ _ _ _ hx hy)
  intro σ hσ
  obtain ⟨sx, sy, kx, ky⟩ := unify_some hσ
  exact kx [97] (by decide)

theorem ja_ba : ∃ r, Ja.backwardApplication x y = .ok r := by
  apply viaUnify_total _ _ _ _ _ _ _ _ _ (unify_total _ _ _ _ hx hy)
  intro σ hσ
  obtain ⟨sx, sy, kx, ky⟩ := unify_some hσ
  exact ky [97] (by decide)

theorem ja_fc : ∃ r, Ja.forwardComposition x y = .ok r := by
  apply viaUnify_total _ _ _ _ _ _ _ _ _ (unify_total _ _ _ _ hx hy)
  intro σ hσ
  obtain ⟨sx, sy, kx, ky⟩ := unify_some hσ
  obtain ⟨a, ha⟩ := kx [97] (by decide)
  obtain ⟨c, hc⟩ := ky [99] (by decide)
  rw [get2_eq _ ha hc]; exact ⟨_, rfl⟩

theorem ja_gbc1 : ∃ r, Ja.generalizedBackwardComposition1 x y = .ok r := by
  apply viaUnify_total _ _ _ _ _ _ _ _ _ (unify_total _ _ _ _ hx hy)
  intro σ hσ
  obtain ⟨sx, sy, kx, ky⟩ := unify_some hσ
  obtain ⟨a, ha⟩ := ky [97] (by decide)
  obtain ⟨c, hc⟩ := kx [99] (by decide)
  rw [get2_eq _ ha hc]; exact ⟨_, rfl⟩

theorem ja_gbc2 : ∃ r, Ja.generalizedBackwardComposition2 x y = .ok r := by
  apply viaUnify_total _ _ _ _ _ _ _ _ _ (unify_total _ _ _ _ hx hy)
  intro σ hσ
  obtain ⟨sx, sy, kx, ky⟩ := unify_some hσ
  obtain ⟨a, ha⟩ := ky [97] (by decide)
  obtain ⟨c, hc⟩ := kx [99] (by decide)
  obtain ⟨d, hd⟩ := kx [100] (by decide)
  obtain ⟨x1, s1, x1r, rfl, sx1, -⟩ := sx.fn_inv
  rw [get3_eq _ ha hc hd]; exact ⟨_, rfl⟩

theorem ja_gbc3 : ∃ r, Ja.generalizedBackwardComposition3 x y = .ok r := by
  apply viaUnify_total _ _ _ _ _ _ _ _ _ (unify_total _ _ _ _ hx hy)
  intro σ hσ
  obtain ⟨sx, sy, kx, ky⟩ := unify_some hσ
  obtain ⟨a, ha⟩ := ky [97] (by decide)
  obtain ⟨c, hc⟩ := kx [99] (by decide)
  obtain ⟨d, hd⟩ := kx [100] (by decide)
  obtain ⟨e, he⟩ := kx [101] (by decide)
  obtain ⟨x1, s1, x1r, rfl, sx1, -⟩ := sx.fn_inv
  obtain ⟨x2, s2, x2r, rfl, sx2, -⟩ := sx1.fn_inv
  rw [get3_eq _ ha hc hd]
  simp only [Ja.leftOf, En.functorOf, he]; exact ⟨_, rfl⟩

theorem ja_gbc4 : ∃ r, Ja.generalizedBackwardComposition4 x y = .ok r := by
  apply viaUnify_total _ _ _ _ _ _ _ _ _ (unify_total _ _ _ _ hx hy)
  intro σ hσ
  obtain ⟨sx, sy, kx, ky⟩ := unify_some hσ
  obtain ⟨a, ha⟩ := ky [97] (by decide)
  obtain ⟨c, hc⟩ := kx [99] (by decide)
  obtain ⟨d, hd⟩ := kx [100] (by decide)
  obtain ⟨e, he⟩ := kx [101] (by decide)
  obtain ⟨f, hf⟩ := kx [102] (by decide)
  obtain ⟨x1, s1, x1r, rfl, sx1, -⟩ := sx.fn_inv
  obtain ⟨x2, s2, x2r, rfl, sx2, -⟩ := sx1.fn_inv
  obtain ⟨x3, s3, x3r, rfl, sx3, -⟩ := sx2.fn_inv
  rw [get3_eq _ ha hc hd]
  simp only [Ja.leftOf, En.functorOf, he, hf]; exact ⟨_, rfl⟩

theorem ja_gfc1 : ∃ r, Ja.generalizedForwardComposition1 x y = .ok r := by
  apply viaUnify_total _ _ _ _ _ _ _ _ _ (unify_total _ _ _ _ hx hy)
  intro σ hσ
  obtain ⟨sx, sy, kx, ky⟩ := unify_some hσ
  obtain ⟨a, ha⟩ := kx [97] (by decide)
  obtain ⟨c, hc⟩ := ky [99] (by decide)
  rw [get2_eq _ ha hc]; exact ⟨_, rfl⟩

theorem ja_gfc2 : ∃ r, Ja.generalizedForwardComposition2 x y = .ok r := by
  apply viaUnify_total _ _ _ _ _ _ _ _ _ (unify_total _ _ _ _ hx hy)
  intro σ hσ
  obtain ⟨sx, sy, kx, ky⟩ := unify_some hσ
  obtain ⟨a, ha⟩ := kx [97] (by decide)
  obtain ⟨c, hc⟩ := ky [99] (by decide)
  obtain ⟨d, hd⟩ := ky [100] (by decide)
  obtain ⟨y1, s1, y1r, rfl, sy1, -⟩ := sy.fn_inv
  rw [get3_eq _ ha hc hd]; exact ⟨_, rfl⟩

theorem ja_gfc3 : ∃ r, Ja.generalizedForwardComposition3 x y = .ok r := by
  apply viaUnify_total _ _ _ _ _ _ _ _ _ (unify_total _ _ _ _ hx hy)
  intro σ hσ
  obtain ⟨sx, sy, kx, ky⟩ := unify_some hσ
  obtain ⟨a, ha⟩ := kx [97] (by decide)
  obtain ⟨c, hc⟩ := ky [99] (by decide)
  obtain ⟨d, hd⟩ := ky [100] (by decide)
  obtain ⟨e, he⟩ := ky [101] (by decide)
  obtain ⟨y1, s1, y1r, rfl, sy1, -⟩ := sy.fn_inv
  obtain ⟨y2, s2, y2r, rfl, sy2, -⟩ := sy1.fn_inv
  rw [get3_eq _ ha hc hd]
  simp only [Ja.leftOf, En.functorOf, he]; exact ⟨_, rfl⟩

end ja

theorem ja_conjoin (x y : Cat) : ∃ r, Ja.conjoin x y = .ok r := by
  simp only [Ja.conjoin]; split <;> exact ⟨_, rfl⟩

theorem ja_all {x y : Cat} (hx : CatKind true x) (hy : CatKind true y) :
    ∃ rs, En.applyAll Ja.combinators x y = .ok rs := by
  apply applyAll_total
  intro c hc
  simp only [Ja.combinators, List.mem_cons, List.not_mem_nil, or_false] at hc
  rcases hc with rfl | rfl | rfl | rfl | rfl | rfl | rfl | rfl | rfl | rfl | rfl
  · exact ja_fa hx hy
  · exact ja_ba hx hy
  · exact ja_fc hx hy
  · exact ja_gbc1 hx hy
  · exact ja_gbc2 hx hy
  · exact ja_gbc3 hx hy
  · exact ja_gbc4 hx hy
  · exact ja_gfc1 hx hy
  · exact ja_gfc2 hx hy
  · exact ja_gfc3 hx hy
  · exact ja_conjoin x y

/-! ### totality, English -/

theorem erase_kind_false (p : Feat → Bool) {c : Cat} (h : CatKind false c) : CatKind false (erase p c) := by
  induction c with
  | atom b f => simp only [erase]; split <;> simp_all [CatKind, Feat.isTri]
  | fn l s r ihl ihr => exact ⟨ihl h.1, ihr h.2⟩

theorem erase_nonEmpty (p : Feat → Bool) {c : Cat} (h : NonEmptyBases c) : NonEmptyBases (erase p c) := by
  induction c with
  | atom b f => simp only [erase]; split <;> exact h
  | fn l s r ihl ihr => exact ⟨ihl h.1, ihr h.2⟩

theorem isPunct_total {c : Cat} (h : NonEmptyBases c) : ∃ b, En.isPunct c = .ok b := by
  cases c with
  | fn l s r => exact ⟨_, rfl⟩
  | atom b f =>
    cases b with
    | nil => exact (h rfl).elim
    | cons c0 cs => exact ⟨_, rfl⟩

theorem mk_ok (c : Cat) (os sym : String) : ∃ r, En.mk c os sym = .ok r := ⟨_, rfl⟩

section en
variable {x y : Cat} (hx : CatKind false x) (hy : CatKind false y)
include hx hy

theorem en_fa : ∃ r, En.forwardApplication x y = .ok r := by
  obtain ⟨r, hr⟩ := unify_total (Pat.fwd Pat.a Pat.b) Pat.b x y hx hy
  simp only [En.forwardApplication, hr]
  cases r with
  | none => exact ⟨_, rfl⟩
  | some σ =>
    obtain ⟨sx, sy, kx, ky⟩ := unify_some hr
    obtain ⟨a, ha⟩ := kx [97] (by decide)
    simp only [ha]
    split <;> exact mk_ok ..

theorem en_ba : ∃ r, En.backwardApplication x y = .ok r := by
  obtain ⟨r, hr⟩ := unify_total Pat.b (Pat.bwd Pat.a Pat.b) x y hx hy
  simp only [En.backwardApplication, hr]
  split
  · exact mk_ok ..
  cases r with
  | none => exact ⟨_, rfl⟩
  | some σ =>
    obtain ⟨sx, sy, kx, ky⟩ := unify_some hr
    obtain ⟨a, ha⟩ := ky [97] (by decide)
    simp only [ha]
    split <;> exact mk_ok ..

theorem en_fc : ∃ r, En.forwardComposition x y = .ok r := by
  obtain ⟨r, hr⟩ := unify_total (Pat.fwd Pat.a Pat.b) (Pat.fwd Pat.b Pat.c) x y hx hy
  simp only [En.forwardComposition, hr]
  cases r with
  | none => exact ⟨_, rfl⟩
  | some σ =>
    obtain ⟨sx, sy, kx, ky⟩ := unify_some hr
    obtain ⟨a, ha⟩ := kx [97] (by decide)
    obtain ⟨c, hc⟩ := ky [99] (by decide)
    simp only [ha, hc]
    split <;> exact mk_ok ..

theorem en_bc : ∃ r, En.backwardComposition x y = .ok r := by
  obtain ⟨r, hr⟩ := unify_total (Pat.fwd Pat.b Pat.c) (Pat.bwd Pat.a Pat.b) x y hx hy
  simp only [En.backwardComposition, hr]
  cases r with
  | none => exact ⟨_, rfl⟩
  | some σ =>
    obtain ⟨sx, sy, kx, ky⟩ := unify_some hr
    obtain ⟨a, ha⟩ := ky [97] (by decide)
    obtain ⟨b, hb⟩ := kx [98] (by decide)
    obtain ⟨c, hc⟩ := kx [99] (by decide)
    simp only [ha, hb, hc]
    split
    · exact ⟨_, rfl⟩
    · split <;> exact mk_ok ..

theorem en_gfc : ∃ r, En.generalizedForwardComposition x y = .ok r := by
  obtain ⟨r, hr⟩ := unify_total (Pat.fwd Pat.a Pat.b) (Pat.any (Pat.fwd Pat.b Pat.c) Pat.d) x y hx hy
  simp only [En.generalizedForwardComposition, hr]
  cases r with
  | none => exact ⟨_, rfl⟩
  | some σ =>
    obtain ⟨sx, sy, kx, ky⟩ := unify_some hr
    obtain ⟨a, ha⟩ := kx [97] (by decide)
    obtain ⟨c, hc⟩ := ky [99] (by decide)
    obtain ⟨d, hd⟩ := ky [100] (by decide)
    obtain ⟨y1, s1, y1r, rfl, -, -⟩ := sy.fn_inv
    simp only [ha, hc, hd, En.functorOf]
    split <;> exact mk_ok ..

theorem en_gbc : ∃ r, En.generalizedBackwardComposition x y = .ok r := by
  obtain ⟨r, hr⟩ := unify_total (Pat.any (Pat.fwd Pat.b Pat.c) Pat.d) (Pat.fwd Pat.a Pat.b) x y hx hy
  simp only [En.generalizedBackwardComposition, hr]
  cases r with
  | none => exact ⟨_, rfl⟩
  | some σ =>
    obtain ⟨sx, sy, kx, ky⟩ := unify_some hr
    obtain ⟨a, ha⟩ := ky [97] (by decide)
    obtain ⟨b, hb⟩ := kx [98] (by decide)
    obtain ⟨c, hc⟩ := kx [99] (by decide)
    obtain ⟨d, hd⟩ := kx [100] (by decide)
    obtain ⟨x1, s1, x1r, rfl, -, -⟩ := sx.fn_inv
    simp only [ha, hb, hc, hd, En.functorOf]
    split
    · exact ⟨_, rfl⟩
    · split <;> exact mk_ok ..

end en

theorem en_conj (x : Cat) {y : Cat} (hy : NonEmptyBases y) : ∃ r, En.conjunction x y = .ok r := by
  obtain ⟨b, hb⟩ := isPunct_total hy
  simp only [En.conjunction, hb]
  split
  · exact mk_ok ..
  · exact ⟨_, rfl⟩

theorem en_conj2 (x y : Cat) : ∃ r, En.conjunction2 x y = .ok r := by
  simp only [En.conjunction2]; split
  · exact mk_ok ..
  · exact ⟨_, rfl⟩

theorem en_rp1 {x : Cat} (y : Cat) (hx : NonEmptyBases x) : ∃ r, En.removePunctuation1 x y = .ok r := by
  obtain ⟨b, hb⟩ := isPunct_total hx
  simp only [En.removePunctuation1, hb]
  cases b
  · exact ⟨_, rfl⟩
  · exact mk_ok ..

theorem en_rp2 (x : Cat) {y : Cat} (hy : NonEmptyBases y) : ∃ r, En.removePunctuation2 x y = .ok r := by
  obtain ⟨b, hb⟩ := isPunct_total hy
  simp only [En.removePunctuation2, hb]
  cases b
  · exact ⟨_, rfl⟩
  · exact mk_ok ..

theorem en_rpl (x y : Cat) : ∃ r, En.removePunctuationLeft x y = .ok r := by
  simp only [En.removePunctuationLeft]; split
  · exact mk_ok ..
  · exact ⟨_, rfl⟩

theorem en_comma (x y : Cat) : ∃ r, En.commaVpToAdv x y = .ok r := by
  simp only [En.commaVpToAdv]; split
  · exact mk_ok ..
  · exact ⟨_, rfl⟩

theorem en_pds (x y : Cat) : ∃ r, En.parentheticalDirectSpeech x y = .ok r := by
  simp only [En.parentheticalDirectSpeech]; split
  · exact mk_ok ..
  · exact ⟨_, rfl⟩

theorem en_all {x y : Cat} (hx : CatKind false x) (hy : CatKind false y)
    (nx : NonEmptyBases x) (ny : NonEmptyBases y) :
    ∃ rs, En.applyAll En.combinators x y = .ok rs := by
  apply applyAll_total
  intro c hc
  simp only [En.combinators, List.mem_cons, List.not_mem_nil, or_false] at hc
  rcases hc with rfl | rfl | rfl | rfl | rfl | rfl | rfl | rfl | rfl | rfl | rfl | rfl | rfl
  · exact en_fa hx hy
  · exact en_ba hx hy
  · exact en_fc hx hy
  · exact en_bc hx hy
  · exact en_gfc hx hy
  · exact en_gbc hx hy
  · exact en_conj x ny
  · exact en_conj2 x y
  · exact en_rp1 y nx
  · exact en_rp2 x ny
  · exact en_rpl x y
  · exact en_comma x y
  · exact en_pds x y

/-! ### the visiting order of shared variables -/

/-- the shared variable `v` passes the agreement test (in one of the two directions) -/
def Passes (xf yf : Dict Str Feat) (v : Str) : Prop :=
  ∃ fx fy, Dict.get? xf v = some fx ∧ Dict.get? yf v = some fy ∧
    (Feat.unifies fx fy = .ok true ∨ (Feat.unifies fx fy = .ok false ∧ Feat.unifies fy fx = .ok true))

/-- the write made for `v` -/
def upd (xf yf : Dict Str Feat) (m : Dict Feat Feat) (v : Str) : Dict Feat Feat :=
  match assignment xf yf v with
  | some a => Dict.set m a.1 a.2
  | none => m

/-- one step of `agree` on a passing variable -/
theorem agree_cons_of_passes {xf yf : Dict Str Feat} {v : Str} (h : Passes xf yf v) (vs : List Str)
    (m : Dict Feat Feat) : agree xf yf (v :: vs) m = agree xf yf vs (upd xf yf m v) := by
  obtain ⟨fx, fy, hx, hy, h | ⟨h1, h2⟩⟩ := h
  · simp only [agree, upd, assignment, hx, hy, h]
    split <;> rfl
  · simp only [agree, upd, assignment, hx, hy, h1, h2]
    split <;> rfl

theorem passes_of_agree_cons {xf yf : Dict Str Feat} {v : Str} {vs : List Str} {m m' : Dict Feat Feat}
    (h : agree xf yf (v :: vs) m = .ok (some m')) : Passes xf yf v := by
  simp only [agree] at h
  cases hx : Dict.get? xf v with
  | none => simp [hx] at h
  | some fx =>
    cases hy : Dict.get? yf v with
    | none => simp [hx, hy] at h
    | some fy =>
      simp only [hx, hy] at h
      refine ⟨fx, fy, hx, hy, ?_⟩
      cases h1 : Feat.unifies fx fy with
      | error e => simp [h1] at h
      | ok b1 =>
        cases b1
        · right
          refine ⟨rfl, ?_⟩
          cases h2 : Feat.unifies fy fx with
          | error e => simp [h1, h2] at h
          | ok b2 =>
            cases b2
            · simp [h1, h2] at h
            · rfl
        · left; rfl

theorem agree_some_iff (xf yf : Dict Str Feat) (vs : List Str) (m : Dict Feat Feat) :
    (∃ m', agree xf yf vs m = .ok (some m')) ↔ ∀ v ∈ vs, Passes xf yf v := by
  induction vs generalizing m with
  | nil => simp [agree]
  | cons v vs ih =>
    constructor
    · rintro ⟨m', h⟩
      have hp := passes_of_agree_cons h
      rw [agree_cons_of_passes hp] at h
      intro w hw
      rcases List.mem_cons.1 hw with rfl | hw
      · exact hp
      · exact (ih _).1 ⟨m', h⟩ w hw
    · intro h
      rw [agree_cons_of_passes (h v (List.mem_cons_self ..))]
      exact (ih _).2 fun w hw => h w (List.mem_cons_of_mem _ hw)

theorem agree_some_perm {xf yf : Dict Str Feat} {l1 l2 : List Str} (hp : l1.Perm l2) (m1 m2 : Dict Feat Feat) :
    (∃ m', agree xf yf l1 m1 = .ok (some m')) ↔ (∃ m', agree xf yf l2 m2 = .ok (some m')) := by
  rw [agree_some_iff, agree_some_iff]
  exact ⟨fun h v hv => h v (hp.mem_iff.2 hv), fun h v hv => h v (hp.mem_iff.1 hv)⟩

/-- what `unifyOrd` computes, as a statement about `agree` -/
theorem unifyOrd_some_iff (ord : List Str → List Str) (px py x y : Cat) (σ : Bindings) :
    unifyOrd ord px py x y = .ok (some σ) ↔
      ∃ cats1 xf yf, scan px x [] [] = (true, cats1, xf) ∧ scan py y cats1 [] = (true, σ.cats, yf) ∧
        agree xf yf (ord (sharedVars xf yf)) [] = .ok (some σ.mapping) := by
  simp only [unifyOrd]
  rcases h1 : scan px x [] [] with ⟨b1, cats1, xf⟩
  cases b1 with
  | false => simp
  | true =>
    simp only []
    rcases h2 : scan py y cats1 [] with ⟨b2, cats2, yf⟩
    cases b2 with
    | false => simp [h2]
    | true =>
      simp only []
      obtain ⟨c, m⟩ := σ
      constructor
      · intro h
        split at h
        · cases h
        · cases h
        · rename_i m' hm
          cases h
          exact ⟨cats1, xf, yf, rfl, by rw [h2], hm⟩
      · rintro ⟨cats1', xf', yf', e1, e2, h⟩
        cases e1
        rw [h2] at e2
        cases e2
        simp only [h]

/-! ### the final dictionary -/

/-- no two writes among `V` disagree -/
def NoConf (xf yf : Dict Str Feat) (V : List Str) : Prop :=
  ∀ v ∈ V, ∀ w ∈ V, ∀ a b, assignment xf yf v = some a → assignment xf yf w = some b → a.1 = b.1 → a.2 = b.2

/-- every entry of `m` was written for some variable of `V` -/
def FromV (xf yf : Dict Str Feat) (V : List Str) (m : Dict Feat Feat) : Prop :=
  ∀ f g, Dict.get? m f = some g → ∃ v ∈ V, assignment xf yf v = some (f, g)

theorem FromV.upd {xf yf : Dict Str Feat} {V : List Str} {m : Dict Feat Feat} (h : FromV xf yf V m)
    {v : Str} (hv : v ∈ V) : FromV xf yf V (upd xf yf m v) := by
  intro f g hg
  simp only [C14.upd] at hg
  cases ha : assignment xf yf v with
  | none => rw [ha] at hg; exact h f g hg
  | some a =>
    rw [ha] at hg
    simp only [get?_set] at hg
    split at hg
    · rename_i e
      cases hg
      exact ⟨v, hv, by rw [ha, ← e]⟩
    · exact h f g hg

theorem agree_lookup {xf yf : Dict Str Feat} {V : List Str} (hc : NoConf xf yf V) (l : List Str) :
    ∀ (m m' : Dict Feat Feat), (∀ v ∈ l, v ∈ V) → FromV xf yf V m → agree xf yf l m = .ok (some m') →
      ∀ f g, Dict.get? m' f = some g ↔ ((∃ v ∈ l, assignment xf yf v = some (f, g)) ∨ Dict.get? m f = some g) := by
  induction l with
  | nil =>
    intro m m' _ _ h f g
    simp only [agree] at h; cases h
    simp
  | cons v vs ih =>
    intro m m' hl hm h f g
    have hp := passes_of_agree_cons h
    rw [agree_cons_of_passes hp] at h
    have hvV : v ∈ V := hl v (List.mem_cons_self ..)
    rw [ih _ _ (fun w hw => hl w (List.mem_cons_of_mem _ hw)) (hm.upd hvV) h f g]
    simp only [List.mem_cons, exists_eq_or_imp]
    -- compare `get? (upd m v) f` with `get? m f`
    cases ha : assignment xf yf v with
    | none =>
      simp only [upd, ha]
      simp
    | some a =>
      obtain ⟨a1, a2⟩ := a
      simp only [upd, ha, get?_set]
      by_cases e : a1 = f
      · subst e
        simp only [if_true, Option.some.injEq, Prod.mk.injEq, true_and]
        constructor
        · rintro (h | h)
          · exact Or.inl (Or.inr h)
          · exact Or.inl (Or.inl h)
        · rintro ((h | h) | h)
          · exact Or.inr h
          · exact Or.inl h
          · obtain ⟨u, hu, hau⟩ := hm _ _ h
            exact Or.inr (hc v hvV u (hu) _ _ ha hau rfl)
      · simp only [e, if_false, Option.some.injEq, Prod.mk.injEq, false_and, false_or]

theorem agree_lookup_nil {xf yf : Dict Str Feat} {V : List Str} (hc : NoConf xf yf V) {l : List Str}
    (hl : ∀ v ∈ l, v ∈ V) {m' : Dict Feat Feat} (h : agree xf yf l [] = .ok (some m')) (f g : Feat) :
    Dict.get? m' f = some g ↔ ∃ v ∈ l, assignment xf yf v = some (f, g) := by
  rw [agree_lookup hc l [] m' hl (by intro f g h; simp [Dict.get?] at h) h]
  simp [Dict.get?]

theorem subst_congr {m1 m2 : Dict Feat Feat} (h : ∀ f, Dict.get? m1 f = Dict.get? m2 f) (c : Cat) :
    subst m1 c = subst m2 c := by
  induction c with
  | atom b f => simp only [subst, h]
  | fn l s r ihl ihr => simp only [subst, ihl, ihr]

end Depccg.C14
