/-
  C07, the two Prolog formats: helper lemmas for the decoder statements (`Read.decPrologEn` and
  `Read.decPrologJa` read back every printed output).
-/
import Depccg.Props.C07PrologDefs
import Depccg.Proofs.C06Lemmas
import Depccg.Proofs.C15Lemmas
import Depccg.Proofs.C19Lemmas

namespace Depccg.C07
open Depccg Str Print Read TextProps

/-! ### white space -/

/-- a run of blanks and newlines -/
def Ws (s : Str) : Prop := ∀ ch ∈ s, ch = 32 ∨ ch = 10

theorem pl_ws_nil : Ws [] := fun _ h => by cases h

theorem pl_ws_spaces (n : Nat) : Ws (spaces n) := by
  intro ch h
  exact Or.inl (List.eq_of_mem_replicate h)

theorem pl_ws_cons {c : Nat} {s : Str} (hc : c = 32 ∨ c = 10) (hs : Ws s) : Ws (c :: s) := by
  intro ch h
  rcases List.mem_cons.1 h with rfl | h
  · exact hc
  · exact hs ch h

theorem pl_skipWs_ws (w : Str) (hw : Ws w) (s : Str) : skipWs (w ++ s) = skipWs s := by
  induction w with
  | nil => rfl
  | cons c cs ih =>
    have hc := hw c (List.mem_cons_self ..)
    have hcs : Ws cs := fun x hx => hw x (List.mem_cons_of_mem _ hx)
    simp only [List.cons_append, skipWs, hc, if_true, ih hcs]

theorem pl_skipWs_stop (c : Nat) (s : Str) (h1 : c ≠ 32) (h2 : c ≠ 10) : skipWs (c :: s) = c :: s := by
  simp [skipWs, h1, h2]

theorem pl_skipSp_stop (c : Nat) (s : Str) (h1 : c ≠ 32) : skipSp (c :: s) = c :: s := by
  simp [skipSp, h1]

theorem pl_skipSp_one (s : Str) (h : s.head? ≠ some 32) : skipSp (32 :: s) = s := by
  cases s with
  | nil => rfl
  | cons c cs =>
    have hc : c ≠ 32 := by simpa using h
    simp [skipSp, hc]

/-! ### functor names -/

/-- a functor name as the reader wants it: no blank, newline or `(` inside, and not the leaf
    functor `t` -/
def NameOK (nm : Str) : Prop := (∀ ch ∈ nm, ch ≠ 32 ∧ ch ≠ 10 ∧ ch ≠ 40) ∧ nm ≠ [116]

theorem pl_readName_aux (nm : Str) (h : ∀ ch ∈ nm, ch ≠ 40) (acc rest : Str) :
    readName acc (nm ++ 40 :: rest) = some (acc.reverse ++ nm, rest) := by
  induction nm generalizing acc with
  | nil => simp [readName]
  | cons c cs ih =>
    have hc : c ≠ 40 := h c (List.mem_cons_self ..)
    have hcs : ∀ ch ∈ cs, ch ≠ 40 := fun x hx => h x (List.mem_cons_of_mem _ hx)
    simp only [List.cons_append, readName, hc, if_false, ih hcs]
    simp

/-- white space, then a name, then `(` -/
theorem pl_readName (w nm rest : Str) (hw : Ws w) (h : ∀ ch ∈ nm, ch ≠ 32 ∧ ch ≠ 10 ∧ ch ≠ 40) :
    readName [] (skipWs (w ++ nm ++ 40 :: rest)) = some (nm, rest) := by
  rw [List.append_assoc, pl_skipWs_ws w hw]
  have : skipWs (nm ++ 40 :: rest) = nm ++ 40 :: rest := by
    cases nm with
    | nil => exact pl_skipWs_stop 40 rest (by decide) (by decide)
    | cons c cs =>
      have := h c (List.mem_cons_self ..)
      exact pl_skipWs_stop c _ this.1 this.2.1
  rw [this, pl_readName_aux nm (fun ch hc => (h ch hc).2.2)]
  rfl

/-! ### category arguments -/

theorem pl_readArg_aux (s : Str) : ∀ (d d' : Nat) (acc rest : Str), argDepth d s = some d' →
    readArg d acc (s ++ rest) = readArg d' (s.reverse ++ acc) rest := by
  induction s with
  | nil => intro d d' acc rest h; simp only [argDepth, Option.some.injEq] at h; subst h; rfl
  | cons c cs ih =>
    intro d d' acc rest h
    simp only [argDepth] at h
    simp only [List.cons_append, readArg, List.reverse_cons, List.append_assoc]
    by_cases h1 : c = 44 ∧ d = 0
    · simp [h1] at h
    · simp only [h1, if_false] at h ⊢
      by_cases h2 : c = 40
      · simp only [h2, if_true] at h ⊢
        exact ih _ _ _ _ h
      · simp only [h2, if_false] at h ⊢
        by_cases h3 : c = 41
        · simp only [h3, if_true] at h ⊢
          cases d with
          | zero => simp at h
          | succ d0 => exact ih _ _ _ _ h
        · simp only [h3, if_false] at h ⊢
          exact ih _ _ _ _ h

/-- an argument text followed by a comma is read up to that comma -/
theorem pl_readArg (s rest : Str) (h : ArgText s) :
    readArg 0 [] (s ++ 44 :: rest) = some (s, 44 :: rest) := by
  rw [pl_readArg_aux s 0 0 [] _ h]
  simp [readArg]

theorem pl_argDepth_append (a : Str) : ∀ (d d' : Nat) (b : Str), argDepth d a = some d' →
    argDepth d (a ++ b) = argDepth d' b := by
  induction a with
  | nil => intro d d' b h; simp only [argDepth, Option.some.injEq] at h; subst h; rfl
  | cons c cs ih =>
    intro d d' b h
    simp only [argDepth] at h
    simp only [List.cons_append, argDepth]
    by_cases h1 : c = 44 ∧ d = 0
    · simp [h1] at h
    · simp only [h1, if_false] at h ⊢
      by_cases h2 : c = 40
      · simp only [h2, if_true] at h ⊢
        exact ih _ _ _ h
      · simp only [h2, if_false] at h ⊢
        by_cases h3 : c = 41
        · simp only [h3, if_true] at h ⊢
          cases d with
          | zero => simp at h
          | succ d0 => exact ih _ _ _ h
        · simp only [h3, if_false] at h ⊢
          exact ih _ _ _ h

/-- `a\a` is an argument text when `a` is -/
theorem pl_argText_bs (a : Str) (h : ArgText a) : ArgText (a ++ 92 :: a) := by
  unfold ArgText at *
  rw [pl_argDepth_append a 0 0 _ h]
  simpa [argDepth] using h

theorem pl_extraText_bs (a : Str) (h : ExtraText a) : ExtraText (a ++ 92 :: a) := by
  refine ⟨pl_argText_bs a h.1, ?_, ?_⟩
  · cases a with
    | nil => simp
    | cons c cs => simpa using h.2.1
  · cases a with
    | nil => simp
    | cons c cs => simpa using h.2.2

/-! ### quoted atoms -/

theorem pl_noTrail_cons {c : Nat} {v : Str} (h : NoTrailingBackslash (c :: v)) (hv : v ≠ []) :
    NoTrailingBackslash v := by
  unfold NoTrailingBackslash at *
  cases v with
  | nil => exact absurd rfl hv
  | cons d ds => simpa [List.getLast?_cons_cons] using h

theorem pl_noTrail_single {c : Nat} (h : NoTrailingBackslash [c]) : c ≠ 92 := by
  unfold NoTrailingBackslash at h
  simpa using h

theorem pl_esc_nil : escProlog [] = [] := rfl

theorem pl_esc_quote (v : Str) : escProlog (39 :: v) = 92 :: 39 :: escProlog v := by
  simp [escProlog, replaceChar, lit]

theorem pl_esc_other (c : Nat) (v : Str) (h : c ≠ 39) : escProlog (c :: v) = c :: escProlog v := by
  simp [escProlog, replaceChar, h]

/-- the escaped value followed by the closing quote reads back, also when a backslash is pending
    (then the value must be non-empty) -/
theorem pl_readQuoted_aux (v : Str) : ∀ (pending : Bool) (acc rest : Str), NoTrailingBackslash v →
    (pending = true → v ≠ []) →
    readQuoted pending acc (escProlog v ++ 39 :: rest) =
      some ((if pending then 92 :: acc else acc).reverse ++ v, rest) := by
  induction v with
  | nil =>
    intro pending acc rest _ hp
    cases pending with
    | true => exact absurd rfl (hp rfl)
    | false => simp [pl_esc_nil, readQuoted]
  | cons c cs ih =>
    intro pending acc rest hnt _
    have hcs : cs ≠ [] → NoTrailingBackslash cs := pl_noTrail_cons hnt
    by_cases h39 : c = 39
    · subst h39
      have hnt' : NoTrailingBackslash cs := by
        cases cs with
        | nil => unfold NoTrailingBackslash; simp
        | cons d ds => exact hcs (by simp)
      rw [pl_esc_quote]
      cases pending with
      | true =>
        simp only [List.cons_append, readQuoted, if_true]
        simp only [show ¬ (92 = 39) by decide, if_false]
        rw [ih false _ _ hnt' (by simp)]
        simp
      | false =>
        simp only [List.cons_append, readQuoted]
        simp only [show ¬ (92 = 39) by decide, if_false, if_true, Bool.false_eq_true]
        rw [ih false _ _ hnt' (by simp)]
        simp
    · rw [pl_esc_other c cs h39]
      by_cases h92 : c = 92
      · subst h92
        have hne : cs ≠ [] := by
          intro e; subst e; exact pl_noTrail_single hnt rfl
        cases pending with
        | true =>
          simp only [List.cons_append, readQuoted, if_true]
          simp only [show ¬ (92 = 39) by decide, if_false]
          rw [ih true _ _ (hcs hne) (fun _ => hne)]
          simp
        | false =>
          simp only [List.cons_append, readQuoted]
          simp only [show ¬ (92 = 39) by decide, if_false, if_true, Bool.false_eq_true]
          rw [ih true _ _ (hcs hne) (fun _ => hne)]
          simp
      · have hnt' : NoTrailingBackslash cs := by
          cases cs with
          | nil => unfold NoTrailingBackslash; simp
          | cons d ds => exact hcs (by simp)
        cases pending with
        | true =>
          simp only [List.cons_append, readQuoted, if_true, h39, h92, if_false]
          rw [ih false _ _ hnt' (by simp)]
          simp
        | false =>
          simp only [List.cons_append, readQuoted, h39, h92, if_false, Bool.false_eq_true]
          rw [ih false _ _ hnt' (by simp)]
          simp

/-- a quoted, escaped value reads back when it does not end with a backslash -/
theorem pl_readQuoted (v rest : Str) (h : NoTrailingBackslash v) :
    readQuoted false [] (escProlog v ++ 39 :: rest) = some (v, rest) := by
  rw [pl_readQuoted_aux v false [] rest h (by simp)]
  simp

theorem pl_esc_raw {v : Str} (h : RawQuotable v) : escProlog v = v := C08.replaceChar_id h.1

/-! ### numbers -/

theorem pl_takeWhile_digits (ds rest : Str) (hd : ∀ c ∈ ds, isDigit c = true)
    (hr : rest.head? = none ∨ ∃ c, rest.head? = some c ∧ isDigit c = false) :
    (ds ++ rest).takeWhile isDigit = ds ∧ (ds ++ rest).dropWhile isDigit = rest := by
  induction ds with
  | nil =>
    cases rest with
    | nil => simp
    | cons c cs =>
      rcases hr with hr | ⟨c', hc', hf⟩
      · simp at hr
      · simp only [List.head?_cons, Option.some.injEq] at hc'
        subst hc'
        simp [hf]
  | cons c cs ih =>
    have hc := hd c (List.mem_cons_self ..)
    have := ih (fun x hx => hd x (List.mem_cons_of_mem _ hx))
    simp [hc, this.1, this.2]

/-- a printed number followed by a comma -/
theorem pl_readNat (n : Nat) (rest : Str) :
    readNat (Str.ofNat n ++ 44 :: rest) = some (n, 44 :: rest) := by
  have hd : ∀ c ∈ Str.ofNat n, isDigit c = true := by
    intro c hc
    have := C15.ofNat_digits n c hc
    simp [isDigit, this.1, this.2]
  obtain ⟨h1, h2⟩ := pl_takeWhile_digits (Str.ofNat n) (44 :: rest) hd
    (Or.inr ⟨44, rfl, by decide⟩)
  unfold readNat
  simp only [h1, h2]
  have hne : (Str.ofNat n).isEmpty = false := by
    cases h : Str.ofNat n with
    | nil => exact absurd h (C15.ofNat_ne_nil n)
    | cons _ _ => rfl
  rw [hne]
  have := C06.decode_ofNat n
  unfold C06.decode at this
  simp [this]

/-! ### the term reader, step by step -/

/-- a newline before a term is skipped -/
theorem pl_term_ws (w : Str) (hw : Ws w) (fuel : Nat) (x : Str) :
    readTerm fuel .term (w ++ x) = readTerm fuel .term x := by
  cases fuel with
  | zero => rfl
  | succ f => simp only [readTerm, pl_skipWs_ws w hw]

/-- `<indent>name(cat,` : the head of a rule node -/
theorem pl_term_head (fuel : Nat) (w nm cat more : Str) (hf : 0 < fuel) (hw : Ws w) (hn : NameOK nm)
    (hc : ArgText cat) :
    readTerm fuel .term (w ++ nm ++ 40 :: (cat ++ 44 :: more)) =
      readTerm (fuel - 1) (.args nm cat [] []) (44 :: more) := by
  obtain ⟨f, rfl⟩ : ∃ f, fuel = f + 1 := ⟨fuel - 1, by omega⟩
  simp only [readTerm, pl_readName w nm _ hw hn.1, pl_readArg cat more hc, hn.2, if_false,
    Nat.add_sub_cancel]

/-- `<indent>t(cat` : the head of a leaf -/
theorem pl_term_leafHead (fuel : Nat) (w cat more : Str) (hf : 0 < fuel) (hw : Ws w)
    (hc : ArgText cat) :
    readTerm fuel .term (w ++ [116] ++ 40 :: (cat ++ 44 :: more)) =
      readTerm (fuel - 1) (.fields cat []) (44 :: more) := by
  obtain ⟨f, rfl⟩ : ∃ f, fuel = f + 1 := ⟨fuel - 1, by omega⟩
  simp only [readTerm, pl_readName w [116] _ hw (by decide), pl_readArg cat more hc, if_true,
    Nat.add_sub_cancel]

/-- `, extracat` on the functor's line -/
theorem pl_args_extra (fuel : Nat) (nm cat : Str) (ex : List Str) (kids : List PView) (e more : Str)
    (hf : 0 < fuel) (he : ExtraText e) :
    readTerm fuel (.args nm cat ex kids) (44 :: 32 :: (e ++ 44 :: more)) =
      readTerm (fuel - 1) (.args nm cat (e :: ex) kids) (44 :: more) := by
  obtain ⟨f, rfl⟩ : ∃ f, fuel = f + 1 := ⟨fuel - 1, by omega⟩
  have hsk : skipSp (32 :: (e ++ 44 :: more)) = e ++ 44 :: more := by
    apply pl_skipSp_one
    cases e with
    | nil => simp
    | cons c cs => simpa using he.2.1
  have hra := pl_readArg e more he.1
  cases hx : e ++ 44 :: more with
  | nil => cases e <;> simp at hx
  | cons d r =>
    have hd : d ≠ 10 := by
      cases e with
      | nil => simp only [List.nil_append, List.cons.injEq] at hx; omega
      | cons c cs =>
        simp only [List.cons_append, List.cons.injEq] at hx
        have := he.2.2
        simp only [List.head?_cons, ne_eq, Option.some.injEq] at this
        omega
    rw [hx] at hsk hra
    simp only [readTerm, show ¬ (44 = 41) by decide, if_false, if_true, hsk, hd, hra, Nat.add_sub_cancel]

/-- `,<newline> sub-term` -/
theorem pl_args_kid (fuel : Nat) (nm cat : Str) (ex : List Str) (kids : List PView) (x r' : Str)
    (k : PView) (hf : 0 < fuel) (hk : readTerm (fuel - 1) .term x = some (k, r')) :
    readTerm fuel (.args nm cat ex kids) (44 :: 10 :: x) =
      readTerm (fuel - 1) (.args nm cat ex (k :: kids)) r' := by
  obtain ⟨f, rfl⟩ : ∃ f, fuel = f + 1 := ⟨fuel - 1, by omega⟩
  simp only [Nat.add_sub_cancel] at hk ⊢
  simp only [readTerm, show ¬ (44 = 41) by decide, if_false, if_true,
    pl_skipSp_stop 10 x (by decide), hk]

theorem pl_args_close (fuel : Nat) (nm cat : Str) (ex : List Str) (kids : List PView) (rest : Str)
    (hf : 0 < fuel) :
    readTerm fuel (.args nm cat ex kids) (41 :: rest) = some (.node nm cat ex.reverse kids.reverse, rest) := by
  obtain ⟨f, rfl⟩ : ∃ f, fuel = f + 1 := ⟨fuel - 1, by omega⟩
  simp only [readTerm, if_true]

/-- `, 'value'` inside a leaf -/
theorem pl_fields_one (fuel : Nat) (cat : Str) (acc : List Str) (v more : Str) (hf : 0 < fuel)
    (hv : NoTrailingBackslash v) :
    readTerm fuel (.fields cat acc) (44 :: 32 :: 39 :: (escProlog v ++ 39 :: more)) =
      readTerm (fuel - 1) (.fields cat (v :: acc)) more := by
  obtain ⟨f, rfl⟩ : ∃ f, fuel = f + 1 := ⟨fuel - 1, by omega⟩
  simp only [readTerm, show ¬ (44 = 41) by decide, if_false, if_true,
    pl_skipSp_one _ (show (39 :: (escProlog v ++ 39 :: more)).head? ≠ some 32 by simp),
    pl_readQuoted v more hv, Nat.add_sub_cancel]

theorem pl_fields_close (fuel : Nat) (cat : Str) (acc : List Str) (rest : Str) (hf : 0 < fuel) :
    readTerm fuel (.fields cat acc) (41 :: rest) = some (.leaf cat acc.reverse, rest) := by
  obtain ⟨f, rfl⟩ : ∃ f, fuel = f + 1 := ⟨fuel - 1, by omega⟩
  simp only [readTerm, if_true]

/-! ### the layout of a term, and reading it -/

/-- `k` is a text that reads as the view `v` (whatever follows, with any fuel not below its
    length) -/
def Reads (k : Str) (v : PView) : Prop :=
  ∀ (rest : Str) (fuel : Nat), k.length ≤ fuel → readTerm fuel .term (k ++ rest) = some (v, rest)

/-- `, 'f1', 'f2' ... )` -/
def fieldsText : List Str → Str
  | [] => [41]
  | f :: fs => 44 :: 32 :: 39 :: (escProlog f ++ 39 :: fieldsText fs)

/-- `<indent>t(cat, 'f1', ... )` -/
def leafText (w cat : Str) (fs : List Str) : Str := w ++ [116] ++ 40 :: (cat ++ fieldsText fs)

/-- `, e1, e2 ...` -/
def extrasText : List Str → Str
  | [] => []
  | e :: es => 44 :: 32 :: (e ++ extrasText es)

/-- `,\n k1,\n k2 ... )` -/
def kidsText : List Str → Str
  | [] => [41]
  | k :: ks => 44 :: 10 :: (k ++ kidsText ks)

/-- `<indent>name(cat, e1, ...,\n k1,\n k2 ... )` -/
def nodeText (w nm cat : Str) (es ks : List Str) : Str :=
  w ++ nm ++ 40 :: (cat ++ (extrasText es ++ kidsText ks))

theorem pl_fieldsText_length (fs : List Str) : fs.length + 1 ≤ (fieldsText fs).length := by
  induction fs with
  | nil => simp [fieldsText]
  | cons f fs ih => simp only [fieldsText, List.length_cons, List.length_append]; omega

theorem pl_read_fields (cat : Str) (fs : List Str) : ∀ (acc : List Str) (rest : Str) (fuel : Nat),
    (∀ f ∈ fs, NoTrailingBackslash f) → fs.length + 1 ≤ fuel →
    readTerm fuel (.fields cat acc) (fieldsText fs ++ rest) = some (.leaf cat (acc.reverse ++ fs), rest) := by
  induction fs with
  | nil =>
    intro acc rest fuel _ hf
    simp only [fieldsText, List.cons_append, List.nil_append, List.append_nil]
    exact pl_fields_close fuel cat acc rest (by omega)
  | cons f fs ih =>
    intro acc rest fuel h hf
    simp only [List.length_cons] at hf
    simp only [fieldsText, List.cons_append, List.append_assoc]
    rw [pl_fields_one fuel cat acc f _ (by omega) (h f (List.mem_cons_self ..)),
      ih (f :: acc) rest (fuel - 1) (fun g hg => h g (List.mem_cons_of_mem _ hg)) (by omega)]
    simp

/-- a leaf reads back -/
theorem pl_read_leaf (w cat : Str) (fs : List Str) (hw : Ws w) (hc : ArgText cat)
    (hfs : ∀ f ∈ fs, NoTrailingBackslash f) (hne : fs ≠ []) : Reads (leafText w cat fs) (.leaf cat fs) := by
  intro rest fuel hf
  obtain ⟨f, fs', rfl⟩ : ∃ f fs', fs = f :: fs' := by
    cases fs with
    | nil => exact absurd rfl hne
    | cons f fs' => exact ⟨f, fs', rfl⟩
  have hlen := pl_fieldsText_length (f :: fs')
  have hL : (leafText w cat (f :: fs')).length = w.length + 2 + cat.length + (fieldsText (f :: fs')).length := by
    simp only [leafText, List.length_append, List.length_cons, List.length_nil]; omega
  have e1 : leafText w cat (f :: fs') ++ rest =
      w ++ [116] ++ 40 :: (cat ++ 44 :: (32 :: 39 :: (escProlog f ++ 39 :: fieldsText fs') ++ rest)) := by
    simp [leafText, fieldsText]
  rw [e1, pl_term_leafHead fuel w cat _ (by omega) hw hc]
  have := pl_read_fields cat (f :: fs') [] rest (fuel - 1) hfs (by omega)
  simpa [fieldsText] using this

theorem pl_kidsText_length (ks : List Str) : ks.length + 1 ≤ (kidsText ks).length := by
  induction ks with
  | nil => simp [kidsText]
  | cons k ks ih => simp only [kidsText, List.length_cons, List.length_append]; omega

theorem pl_kidsText_length_mem (ks : List Str) (k : Str) (h : k ∈ ks) : k.length + 3 ≤ (kidsText ks).length := by
  induction ks with
  | nil => cases h
  | cons k' ks ih =>
    simp only [kidsText, List.length_cons, List.length_append]
    rcases List.mem_cons.1 h with rfl | h
    · have := pl_kidsText_length ks; omega
    · have := ih h; omega

/-- the sub-terms and the closing parenthesis -/
theorem pl_read_kids (nm cat : Str) (ex : List Str) (kvs : List (Str × PView)) :
    ∀ (acc : List PView) (rest : Str) (fuel : Nat), (∀ p ∈ kvs, Reads p.1 p.2) →
    (kidsText (kvs.map Prod.fst)).length ≤ fuel →
    readTerm fuel (.args nm cat ex acc) (kidsText (kvs.map Prod.fst) ++ rest) =
      some (.node nm cat ex.reverse (acc.reverse ++ kvs.map Prod.snd), rest) := by
  induction kvs with
  | nil =>
    intro acc rest fuel _ hf
    simp only [List.map_nil, kidsText, List.length_cons, List.length_nil] at hf
    simp only [List.map_nil, kidsText, List.cons_append, List.nil_append, List.append_nil]
    exact pl_args_close fuel nm cat ex acc rest (by omega)
  | cons p kvs ih =>
    intro acc rest fuel h hf
    have hlen := pl_kidsText_length (kvs.map Prod.fst)
    simp only [List.map_cons, kidsText, List.length_cons, List.length_append] at hf
    simp only [List.map_cons, kidsText, List.cons_append, List.append_assoc]
    have hk := h p (List.mem_cons_self ..) (kidsText (kvs.map Prod.fst) ++ rest) (fuel - 1) (by omega)
    rw [pl_args_kid fuel nm cat ex acc _ _ p.2 (by omega) hk,
      ih (p.2 :: acc) rest (fuel - 1) (fun q hq => h q (List.mem_cons_of_mem _ hq)) (by omega)]
    simp

/-- the extra categories (something starting with a comma must follow) -/
theorem pl_read_extras (nm cat : Str) (es : List Str) : ∀ (ex : List Str) (more : Str) (fuel : Nat),
    (∀ e ∈ es, ExtraText e) → es.length < fuel →
    readTerm fuel (.args nm cat ex []) (extrasText es ++ 44 :: more) =
      readTerm (fuel - es.length) (.args nm cat (es.reverse ++ ex) []) (44 :: more) := by
  induction es with
  | nil => intro ex more fuel _ _; rfl
  | cons e es ih =>
    intro ex more fuel h hf
    simp only [List.length_cons] at hf
    simp only [extrasText, List.cons_append, List.append_assoc]
    cases hes : extrasText es ++ 44 :: more with
    | nil => cases es <;> simp [extrasText] at hes
    | cons c more' =>
      have hc : c = 44 := by
        cases es with
        | nil => simp only [extrasText, List.nil_append, List.cons.injEq] at hes; exact hes.1.symm
        | cons e' es' => simp only [extrasText, List.cons_append, List.cons.injEq] at hes; exact hes.1.symm
      subst hc
      rw [pl_args_extra fuel nm cat ex [] e more' (by omega) (h e (List.mem_cons_self ..)), ← hes,
        ih (e :: ex) more (fuel - 1) (fun g hg => h g (List.mem_cons_of_mem _ hg)) (by omega)]
      simp only [List.length_cons, List.reverse_cons, List.append_assoc, List.singleton_append]
      congr 1
      omega

theorem pl_extrasText_length (es : List Str) : es.length ≤ (extrasText es).length := by
  induction es with
  | nil => simp [extrasText]
  | cons e es ih => simp only [extrasText, List.length_cons, List.length_append]; omega

/-- a rule node reads back when its sub-terms do -/
theorem pl_read_node (w nm cat : Str) (es : List Str) (kvs : List (Str × PView)) (hw : Ws w)
    (hn : NameOK nm) (hc : ArgText cat) (hes : ∀ e ∈ es, ExtraText e) (hne : kvs ≠ [])
    (hk : ∀ p ∈ kvs, Reads p.1 p.2) :
    Reads (nodeText w nm cat es (kvs.map Prod.fst)) (.node nm cat es (kvs.map Prod.snd)) := by
  intro rest fuel hf
  obtain ⟨p, kvs', rfl⟩ : ∃ p kvs', kvs = p :: kvs' := by
    cases kvs with
    | nil => exact absurd rfl hne
    | cons p kvs' => exact ⟨p, kvs', rfl⟩
  have hkl := pl_kidsText_length (kvs'.map Prod.fst)
  have hL : (nodeText w nm cat es ((p :: kvs').map Prod.fst)).length =
      w.length + nm.length + 1 + cat.length + (extrasText es).length +
        (2 + p.1.length + (kidsText (kvs'.map Prod.fst)).length) := by
    simp only [nodeText, kidsText, List.map_cons, List.length_append, List.length_cons]; omega
  rw [hL] at hf
  have hel := pl_extrasText_length es
  obtain ⟨more0, hm⟩ : ∃ more0, extrasText es ++ (kidsText ((p :: kvs').map Prod.fst) ++ rest) = 44 :: more0 := by
    cases es <;> simp [extrasText, kidsText]
  have e1 : nodeText w nm cat es ((p :: kvs').map Prod.fst) ++ rest = w ++ nm ++ 40 :: (cat ++ 44 :: more0) := by
    rw [← hm]; simp [nodeText]
  rw [e1, pl_term_head fuel w nm cat more0 (by omega) hw hn hc, ← hm]
  have e2 : kidsText ((p :: kvs').map Prod.fst) ++ rest =
      44 :: (10 :: (p.1 ++ kidsText (kvs'.map Prod.fst)) ++ rest) := rfl
  rw [e2, pl_read_extras nm cat es [] _ (fuel - 1) hes (by omega), ← e2,
    pl_read_kids nm cat (es.reverse ++ []) (p :: kvs') [] rest (fuel - 1 - es.length) hk
      (by simp only [kidsText, List.map_cons, List.length_append, List.length_cons]; omega)]
  simp

/-! ### literals -/

theorem pl_lit_t : lit "t(" = [116, 40] := by decide
theorem pl_lit_cs : lit ", " = [44, 32] := by decide
theorem pl_lit_rp : lit ")" = [41] := by decide
theorem pl_lit_lp : lit "(" = [40] := by decide
theorem pl_lit_c : lit "," = [44] := by decide
theorem pl_lit_star : lit "*" = [42] := by decide
theorem pl_q (s : Str) : q s = 39 :: (s ++ [39]) := rfl

theorem pl_esc_append (a b : Str) : escProlog (a ++ b) = escProlog a ++ escProlog b := by
  induction a with
  | nil => rfl
  | cons c cs ih =>
    by_cases h : c = 39
    · subst h; simp only [List.cons_append, pl_esc_quote, ih]
    · simp only [List.cons_append, pl_esc_other _ _ h, ih]

theorem pl_esc_join4 (a b c d : Str) :
    escProlog (joinSep cSlash [a, b, c, d]) = joinSep cSlash ([a, b, c, d].map escProlog) := by
  simp only [joinSep, List.map, pl_esc_append, pl_esc_other cSlash _ (show cSlash ≠ 39 by decide)]

theorem pl_esc_star : escProlog (lit "*") = lit "*" := by decide

/-! ### Japanese -/

theorem pl_jaTable : jaRuleTable = jaCombinatorTable := by decide

theorem pl_jaTable_names : ∀ p ∈ jaCombinatorTable, NameOK p.2 := by
  unfold NameOK; decide

theorem pl_ja_rule {y rule : Str} (h : Dict.get? jaCombinatorTable y = some rule) :
    NameOK rule ∧ (Dict.get? jaRuleTable y).getD [] = rule := by
  refine ⟨pl_jaTable_names (y, rule) (C08.dict_get?_mem h), ?_⟩
  rw [pl_jaTable, h]; rfl

/-- the printed Japanese leaf is the leaf layout of its five fields -/
theorem pl_ja_leaf (c : Cat) (tok : Token) (os oy : Str) (d : Nat) (s : Str)
    (h : prologJaRec (.leaf c tok os oy) d = .ok s) :
    s = 10 :: leafText (spaces d) (prologJaCat c) (jaFields tok) := by
  simp only [prologJaRec] at h
  cases hw : Token.get tok (lit "word") with
  | error e => simp [hw] at h
  | ok w =>
    have hw' : Token.getD tok (lit "word") [] = w := C08.getD_of_get? (C08.get_ok_iff.1 hw)
    simp only [hw, Except.ok.injEq] at h
    subst h
    simp only [jaFields, hw', leafText, fieldsText, List.map, List.all_cons, List.all_nil, Bool.and_true]
    split
    · simp [pl_lit_t, pl_lit_cs, pl_lit_rp, pl_q, pl_esc_star]
    · simp only [pl_esc_join4]
      simp [pl_lit_t, pl_lit_cs, pl_lit_rp, pl_q]

/-- the printed Japanese tree is a newline followed by a text that reads as its view -/
theorem pl_ja_term (t : Tree) : ∀ (d : Nat) (s : Str), prologJaRec t d = .ok s →
    AllCats JaCatOK t → AllToks JaTokOK t → ∃ r, s = 10 :: r ∧ Reads r (viewPrologJa t) := by
  induction t with
  | leaf c tok os oy =>
    intro d s h hc ht
    refine ⟨_, pl_ja_leaf c tok os oy d s h, ?_⟩
    exact pl_read_leaf (spaces d) (prologJaCat c) (jaFields tok) (pl_ws_spaces d) hc ht (by simp [jaFields])
  | un c os y ch ih =>
    intro d s h hc ht
    simp only [prologJaRec] at h
    cases hr : Dict.get? jaCombinatorTable y with
    | none => simp [hr] at h
    | some rule =>
      obtain ⟨hn, hv⟩ := pl_ja_rule hr
      cases hch : prologJaRec ch (d + 1) with
      | error e => simp [hr, hch] at h
      | ok sc =>
        obtain ⟨rc, rfl, hrc⟩ := ih (d + 1) sc hch hc.2 ht
        simp only [hr, hch, Except.ok.injEq] at h
        subst h
        refine ⟨nodeText (spaces d) rule (prologJaCat c) [] ([(rc, viewPrologJa ch)].map Prod.fst), ?_, ?_⟩
        · simp [nodeText, extrasText, kidsText, pl_lit_lp, pl_lit_c, pl_lit_rp]
        · have := pl_read_node (spaces d) rule (prologJaCat c) [] [(rc, viewPrologJa ch)] (pl_ws_spaces d)
            hn hc.1 (fun _ h => by cases h) (by simp) (by simpa using hrc)
          simpa [viewPrologJa, hv] using this
  | bin c os y hl l r ihl ihr =>
    intro d s h hc ht
    simp only [prologJaRec] at h
    cases hr : Dict.get? jaCombinatorTable y with
    | none => simp [hr] at h
    | some rule =>
      obtain ⟨hn, hv⟩ := pl_ja_rule hr
      cases hcl : prologJaRec l (d + 1) with
      | error e => simp [hr, hcl] at h
      | ok sl =>
        cases hcr : prologJaRec r (d + 1) with
        | error e => simp [hr, hcl, hcr] at h
        | ok sr =>
          obtain ⟨rl, rfl, hrl⟩ := ihl (d + 1) sl hcl hc.2.1 ht.1
          obtain ⟨rr, rfl, hrr⟩ := ihr (d + 1) sr hcr hc.2.2 ht.2
          simp only [hr, hcl, hcr, Except.ok.injEq] at h
          subst h
          refine ⟨nodeText (spaces d) rule (prologJaCat c) []
            ([(rl, viewPrologJa l), (rr, viewPrologJa r)].map Prod.fst), ?_, ?_⟩
          · simp [nodeText, extrasText, kidsText, pl_lit_lp, pl_lit_c, pl_lit_rp]
          · have := pl_read_node (spaces d) rule (prologJaCat c) []
              [(rl, viewPrologJa l), (rr, viewPrologJa r)] (pl_ws_spaces d)
              hn hc.1 (fun _ h => by cases h) (by simp) (by
                intro p hp
                simp only [List.mem_cons, List.mem_nil_iff, or_false] at hp
                rcases hp with rfl | rfl
                · exact hrl
                · exact hrr)
            simpa [viewPrologJa, hv] using this

/-! ### clauses -/

/-- `ccg(n,\n term).\n\n` -/
def clauseText (n : Nat) (r : Str) : Str :=
  99 :: 99 :: 103 :: 40 :: (Str.ofNat n ++ 44 :: 10 :: (r ++ [41, 46, 10, 10]))

/-- the clauses of an output: number, term text, view -/
def bodyText : List (Nat × Str × PView) → Str
  | [] => []
  | i :: rest => clauseText i.1 i.2.1 ++ bodyText rest

theorem pl_readClauses_end (f : Nat) (w : Str) (hw : Ws w) : readClauses (f + 1) w = some [] := by
  have : skipWs w = [] := by
    have := pl_skipWs_ws w hw []
    rw [List.append_nil] at this
    rw [this]; rfl
  simp only [readClauses, this]

theorem pl_dropLine (line more : Str) (h10 : 10 ∉ line) :
    (line ++ 10 :: more).dropWhile (· != 10) = 10 :: more := by
  induction line with
  | nil => simp
  | cons c cs ih =>
    have hc : c ≠ 10 := fun e => h10 (by simp [e])
    have hcs : 10 ∉ cs := fun m => h10 (by simp [m])
    simp [hc, ih hcs]

theorem pl_readClauses_directive (f : Nat) (w line more : Str) (hw : Ws w) (h10 : 10 ∉ line) :
    readClauses (f + 1) (w ++ 58 :: 45 :: (line ++ 10 :: more)) = readClauses f (10 :: more) := by
  have h1 : skipWs (w ++ 58 :: 45 :: (line ++ 10 :: more)) = 58 :: 45 :: (line ++ 10 :: more) := by
    rw [pl_skipWs_ws w hw]; exact pl_skipWs_stop 58 _ (by decide) (by decide)
  have h2 := pl_dropLine line more h10
  simp only [readClauses, h1, h2]

theorem pl_readClauses_clause (f : Nat) (w : Str) (n : Nat) (r : Str) (v : PView) (more : Str) (hw : Ws w)
    (hr : Reads r v) :
    readClauses (f + 1) (w ++ (clauseText n r ++ more)) =
      match readClauses f (10 :: 10 :: more) with
      | some l => some ((n, v) :: l)
      | none => none := by
  have h1 : skipWs (w ++ (clauseText n r ++ more)) =
      99 :: 99 :: 103 :: 40 :: (Str.ofNat n ++ 44 :: (10 :: (r ++ 41 :: 46 :: 10 :: 10 :: more))) := by
    rw [pl_skipWs_ws w hw]
    simp only [clauseText, List.cons_append, List.append_assoc, List.nil_append]
    exact pl_skipWs_stop 99 _ (by decide) (by decide)
  have h2 : readTerm (10 :: (r ++ 41 :: 46 :: 10 :: 10 :: more)).length .term (10 :: (r ++ 41 :: 46 :: 10 :: 10 :: more)) =
      some (v, 41 :: 46 :: 10 :: 10 :: more) := by
    have := pl_term_ws [10] (pl_ws_cons (Or.inr rfl) pl_ws_nil)
      (10 :: (r ++ 41 :: 46 :: 10 :: 10 :: more)).length (r ++ 41 :: 46 :: 10 :: 10 :: more)
    rw [List.singleton_append] at this
    rw [this]
    exact hr _ _ (by simp only [List.length_cons, List.length_append]; omega)
  simp only [readClauses, h1, pl_readNat, h2, if_true, and_self]
  cases readClauses f (10 :: 10 :: more) <;> rfl

theorem pl_bodyText_length (items : List (Nat × Str × PView)) : items.length ≤ (bodyText items).length := by
  induction items with
  | nil => simp
  | cons i rest ih => simp only [bodyText, clauseText, List.length_cons, List.length_append]; omega

/-- the clauses read back -/
theorem pl_readClauses_body (items : List (Nat × Str × PView)) : ∀ (w : Str) (fuel : Nat), Ws w →
    (∀ i ∈ items, Reads i.2.1 i.2.2) → items.length + 1 ≤ fuel →
    readClauses fuel (w ++ bodyText items) = some (items.map fun i => (i.1, i.2.2)) := by
  induction items with
  | nil =>
    intro w fuel hw _ hf
    obtain ⟨f, rfl⟩ : ∃ f, fuel = f + 1 := ⟨fuel - 1, by omega⟩
    simp only [bodyText, List.append_nil, List.map_nil]
    exact pl_readClauses_end f w hw
  | cons i rest ih =>
    intro w fuel hw h hf
    simp only [List.length_cons] at hf
    obtain ⟨f, rfl⟩ : ∃ f, fuel = f + 1 := ⟨fuel - 1, by omega⟩
    simp only [bodyText]
    rw [pl_readClauses_clause f w i.1 i.2.1 i.2.2 _ hw (h i (List.mem_cons_self ..))]
    have := ih [10, 10] f (pl_ws_cons (Or.inr rfl) (pl_ws_cons (Or.inr rfl) pl_ws_nil))
      (fun j hj => h j (List.mem_cons_of_mem _ hj)) (by omega)
    simp only [List.cons_append, List.nil_append] at this
    rw [this]
    rfl

theorem pl_header_eq : prologHeader =
    58 :: 45 :: (lit " op(601, xfx, (/))." ++ 10 ::
    (58 :: 45 :: (lit " op(601, xfx, (\\))." ++ 10 ::
    (58 :: 45 :: (lit " multifile ccg/2, id/2." ++ 10 ::
    (58 :: 45 :: (lit " discontiguous ccg/2, id/2." ++ 10 :: []))))))) := by decide

/-- the four directive lines are skipped -/
theorem pl_readClauses_header (fuel : Nat) (x : Str) (hf : 4 ≤ fuel) :
    readClauses fuel (prologHeader ++ x) = readClauses (fuel - 4) (10 :: x) := by
  obtain ⟨f, rfl⟩ : ∃ f, fuel = f + 4 := ⟨fuel - 4, by omega⟩
  rw [pl_header_eq]
  simp only [List.cons_append, List.append_assoc, List.nil_append, Nat.add_sub_cancel]
  have d1 := pl_readClauses_directive (f + 3) [] (lit " op(601, xfx, (/)).")
    (58 :: 45 :: (lit " op(601, xfx, (\\))." ++ 10 ::
      (58 :: 45 :: (lit " multifile ccg/2, id/2." ++ 10 ::
      (58 :: 45 :: (lit " discontiguous ccg/2, id/2." ++ 10 :: x)))))) pl_ws_nil (by decide)
  have d2 := pl_readClauses_directive (f + 2) [10] (lit " op(601, xfx, (\\)).")
      (58 :: 45 :: (lit " multifile ccg/2, id/2." ++ 10 ::
      (58 :: 45 :: (lit " discontiguous ccg/2, id/2." ++ 10 :: x)))) (pl_ws_cons (Or.inr rfl) pl_ws_nil) (by decide)
  have d3 := pl_readClauses_directive (f + 1) [10] (lit " multifile ccg/2, id/2.")
      (58 :: 45 :: (lit " discontiguous ccg/2, id/2." ++ 10 :: x)) (pl_ws_cons (Or.inr rfl) pl_ws_nil) (by decide)
  have d4 := pl_readClauses_directive f [10] (lit " discontiguous ccg/2, id/2.") x
    (pl_ws_cons (Or.inr rfl) pl_ws_nil) (by decide)
  simp only [List.nil_append, List.cons_append] at d1 d2 d3 d4
  rw [d1, d2, d3, d4]

theorem pl_header_length : prologHeader.length = 100 := by decide

/-- a whole output: header, blank line, clauses -/
theorem pl_decProlog (items : List (Nat × Str × PView)) (h : ∀ i ∈ items, Reads i.2.1 i.2.2) :
    decProlog (prologHeader ++ [10] ++ bodyText items) = some (items.map fun i => (i.1, i.2.2)) := by
  unfold decProlog
  have hl := pl_bodyText_length items
  rw [List.append_assoc, pl_readClauses_header _ _ (by simp only [List.length_append, pl_header_length]; omega)]
  have := pl_readClauses_body items [10, 10] ((prologHeader ++ ([10] ++ bodyText items)).length + 1 - 4)
    (pl_ws_cons (Or.inr rfl) (pl_ws_cons (Or.inr rfl) pl_ws_nil)) h
    (by simp only [List.length_append, pl_header_length, List.length_cons, List.length_nil]; omega)
  simpa using this

/-! ### Japanese: the whole output -/

theorem pl_lit_ccg : lit "ccg(" = [99, 99, 103, 40] := by decide
theorem pl_lit_endJa : lit ").\n\n" = [41, 46, 10, 10] := by decide

/-- one clause of `to_prolog_ja` -/
def jaClause (p : Nat × Tree) : Except Err Str :=
  (prologJaRec p.2 1).map fun s => lit "ccg(" ++ Str.ofNat p.1 ++ lit "," ++ s ++ lit ").\n\n"

theorem pl_prologJa_eq (batch : List (List Tree)) :
    prologJa batch = match catExcept jaClause (numbered batch) with
      | .error e => .error e
      | .ok body => .ok (prologHeader ++ [10] ++ body) := rfl

theorem pl_jaClause_ok (p : Nat × Tree) (s : Str) (h : jaClause p = .ok s)
    (hp : AllCats JaCatOK p.2 ∧ AllToks JaTokOK p.2) :
    ∃ r, s = clauseText p.1 r ∧ Reads r (viewPrologJa p.2) := by
  unfold jaClause at h
  cases h1 : prologJaRec p.2 1 with
  | error e => simp [h1, Except.map] at h
  | ok s0 =>
    obtain ⟨r, rfl, hr⟩ := pl_ja_term p.2 1 s0 h1 hp.1 hp.2
    simp only [h1, Except.map, Except.ok.injEq] at h
    subst h
    exact ⟨r, by simp [clauseText, pl_lit_ccg, pl_lit_endJa, pl_lit_c], hr⟩

/-- the clauses of a batch, given a clause printer whose outputs are clause layouts -/
theorem pl_items (f : Nat × Tree → Except Err Str) (view : Tree → PView) (P : Tree → Prop)
    (hf : ∀ p s, f p = .ok s → P p.2 → ∃ r, s = clauseText p.1 r ∧ Reads r (view p.2)) :
    ∀ (xs : List (Nat × Tree)) (body : Str), (∀ p ∈ xs, P p.2) → catExcept f xs = .ok body →
    ∃ items : List (Nat × Str × PView), body = bodyText items ∧ (∀ i ∈ items, Reads i.2.1 i.2.2) ∧
      items.map (fun i => (i.1, i.2.2)) = xs.map fun p => (p.1, view p.2) := by
  intro xs
  induction xs with
  | nil =>
    intro body _ h
    simp only [catExcept, Except.ok.injEq] at h
    refine ⟨[], h.symm, ?_, rfl⟩
    intro i hi; cases hi
  | cons p xs ih =>
    intro body hp h
    simp only [catExcept] at h
    cases h1 : f p with
    | error e => simp [h1] at h
    | ok s0 =>
      obtain ⟨r, rfl, hr⟩ := hf p s0 h1 (hp p (List.mem_cons_self ..))
      cases h2 : catExcept f xs with
      | error e => simp [h1, h2] at h
      | ok rest =>
        obtain ⟨items, rfl, hi, hm⟩ := ih rest (fun q hq => hp q (List.mem_cons_of_mem _ hq)) h2
        simp only [h1, h2, Except.ok.injEq] at h
        subst h
        refine ⟨(p.1, r, view p.2) :: items, rfl, ?_, ?_⟩
        · intro i hi'
          rcases List.mem_cons.1 hi' with rfl | hi'
          · exact hr
          · exact hi i hi'
        · simp [hm]

/-! ### English -/

theorem pl_lit_cnl : lit ",\n" = [44, 10] := by decide
theorem pl_lit_nl : lit "\n" = [10] := by decide
theorem pl_lit_sp : lit " " = [32] := by decide
theorem pl_lit_bs : lit "\\" = [92] := by decide
theorem pl_lit_lx : lit "lx(" = lit "lx" ++ [40] := by decide
theorem pl_lit_conj : lit "conj(" = lit "conj" ++ [40] := by decide
theorem pl_lit_lpp : lit "lp(" = lit "lp" ++ [40] := by decide

theorem pl_allCats_root {p : Cat → Prop} : ∀ {t : Tree}, AllCats p t → p t.cat
  | .leaf .., h => h
  | .un .., h => h.1
  | .bin .., h => h.1

theorem pl_dict_map (tbl : List (Str × Str)) (g : Str → Str) (k : Str) :
    Dict.get? (tbl.map fun p => (p.1, g p.2)) k = (Dict.get? tbl k).map g := by
  induction tbl with
  | nil => rfl
  | cons p rest ih =>
    obtain ⟨a, b⟩ := p
    simp only [List.map_cons, Dict.get?]
    split
    · rfl
    · exact ih

theorem pl_enTable : opMapping = enFunctorTable.map fun p => (p.1, p.2 ++ [40]) := by decide

theorem pl_enTable_names : ∀ p ∈ enFunctorTable, NameOK p.2 := by
  unfold NameOK; decide

/-- the head the printer takes from `_op_mapping` is the view's functor and a parenthesis -/
theorem pl_en_head {os head : Str} (h : Dict.get? opMapping os = some head) :
    ∃ nm, head = nm ++ [40] ∧ NameOK nm ∧ (Dict.get? enFunctorTable os).getD [] = nm := by
  rw [pl_enTable, pl_dict_map enFunctorTable (fun x => x ++ [40]) os] at h
  cases hg : Dict.get? enFunctorTable os with
  | none => simp [hg] at h
  | some nm =>
    simp only [hg, Option.map_some, Option.some.injEq] at h
    exact ⟨nm, h.symm, pl_enTable_names (os, nm) (C08.dict_get?_mem hg), rfl⟩

/-- the printed English leaf is the leaf layout of its five fields -/
theorem pl_en_leaf (c : Cat) (tok : Token) (os oy : Str) (d : Nat) (s : Str)
    (h : prologEnRec (.leaf c tok os oy) d = .ok s) (ht : EnTokOK tok) :
    s = leafText (spaces d) (prologCat c) (enFields tok) := by
  simp only [prologEnRec] at h
  cases hw : Token.get tok (lit "word") with
  | error e => simp [hw] at h
  | ok w =>
    have hw' : Token.getD tok (lit "word") [] = w := C08.getD_of_get? (C08.get_ok_iff.1 hw)
    simp only [hw, Except.ok.injEq] at h
    subst h
    obtain ⟨_, _, h3, h4, h5⟩ := ht
    simp only [enFields, hw', leafText, fieldsText, pl_esc_raw h3, pl_esc_raw h4, pl_esc_raw h5]
    simp [pl_lit_t, pl_lit_cs, pl_lit_rp, pl_q]

theorem pl_enFields_ok (tok : Token) (ht : EnTokOK tok) : ∀ f ∈ enFields tok, NoTrailingBackslash f := by
  obtain ⟨h1, h2, h3, h4, h5⟩ := ht
  intro f hf
  simp only [enFields, List.mem_cons, List.mem_nil_iff, or_false] at hf
  rcases hf with rfl | rfl | rfl | rfl | rfl
  · exact h1
  · exact h2
  · exact h3.2
  · exact h4.2
  · exact h5.2

theorem pl_reads_two {sl sr : Str} {vl vr : PView} (hl : Reads sl vl) (hr : Reads sr vr) :
    ∀ p ∈ [(sl, vl), (sr, vr)], Reads p.1 p.2 := by
  intro p hp
  simp only [List.mem_cons, List.mem_nil_iff, or_false] at hp
  rcases hp with rfl | rfl
  · exact hl
  · exact hr

theorem pl_reads_one {s : Str} {v : PView} (h : Reads s v) : ∀ p ∈ [(s, v)], Reads p.1 p.2 := by
  intro p hp
  simp only [List.mem_cons, List.mem_nil_iff, or_false] at hp
  subst hp
  exact h

theorem pl_extras_one {e : Str} (h : ExtraText e) : ∀ x ∈ [e], ExtraText x := by
  intro x hx
  simp only [List.mem_cons, List.mem_nil_iff, or_false] at hx
  subst hx
  exact h

theorem pl_extras_none : ∀ x ∈ ([] : List Str), ExtraText x := fun _ h => by cases h

theorem pl_get_conj2 : Dict.get? opMapping (lit "conj2") = some (lit "conj" ++ [40]) := by decide
theorem pl_get_conj : Dict.get? opMapping (lit "conj") = some (lit "conj" ++ [40]) := by decide
theorem pl_get_lp : Dict.get? opMapping (lit "lp") = some (lit "lx" ++ [40]) := by decide
theorem pl_fn_conj2 : (Dict.get? enFunctorTable (lit "conj2")).getD [] = lit "conj" := by decide
theorem pl_fn_conj : (Dict.get? enFunctorTable (lit "conj")).getD [] = lit "conj" := by decide
theorem pl_fn_lp : (Dict.get? enFunctorTable (lit "lp")).getD [] = lit "lx" := by decide
theorem pl_name_conj : NameOK (lit "conj") := by unfold NameOK; decide
theorem pl_name_lx : NameOK (lit "lx") := by unfold NameOK; decide
theorem pl_name_lp : NameOK (lit "lp") := by unfold NameOK; decide
theorem pl_ne_c_c2 : lit "conj" ≠ lit "conj2" := by decide
theorem pl_ne_l_c2 : lit "lp" ≠ lit "conj2" := by decide
theorem pl_ne_l_c : lit "lp" ≠ lit "conj" := by decide
theorem pl_ne_c2_c : lit "conj2" ≠ lit "conj" := by decide
theorem pl_ne_c2_l : lit "conj2" ≠ lit "lp" := by decide
theorem pl_ne_c_l : lit "conj" ≠ lit "lp" := by decide

theorem pl_reads_congr {a b : Str} {v : PView} (h : Reads a v) (e : b = a) : Reads b v := e ▸ h

theorem pl_beq_false {a b : Str} (h : a ≠ b) : (a == b) = false := by simpa using h
theorem pl_beq_true (a : Str) : (a == a) = true := by simp

/-- the printed English tree reads as its view -/
theorem pl_en_term (t : Tree) : ∀ (d : Nat) (s : Str), prologEnRec t d = .ok s →
    AllCats EnCatOK t → AllToks EnTokOK t → Reads s (viewPrologEn t) := by
  induction t with
  | leaf c tok os oy =>
    intro d s h hc ht
    rw [pl_en_leaf c tok os oy d s h ht]
    exact pl_read_leaf (spaces d) (prologCat c) (enFields tok) (pl_ws_spaces d) hc.1.1
      (pl_enFields_ok tok ht) (by simp [enFields])
  | un c os y ch ih =>
    intro d s h hc ht
    simp only [prologEnRec] at h
    cases hch : prologEnRec ch (d + 1) with
    | error e => simp [hch] at h
    | ok sc =>
      have hrc := ih (d + 1) sc hch hc.2 ht
      simp only [hch, Except.ok.injEq] at h
      subst h
      have e : spaces d ++ lit "lx(" ++ prologCat c ++ lit ", " ++ prologCat ch.cat ++ lit ",\n" ++ sc ++ lit ")" =
          nodeText (spaces d) (lit "lx") (prologCat c) [prologCat ch.cat] ([(sc, viewPrologEn ch)].map Prod.fst) := by
        simp [nodeText, extrasText, kidsText, pl_lit_lx, pl_lit_cs, pl_lit_cnl, pl_lit_rp]
      rw [e]
      exact pl_read_node (spaces d) (lit "lx") (prologCat c) [prologCat ch.cat] [(sc, viewPrologEn ch)]
        (pl_ws_spaces d) pl_name_lx hc.1.1.1 (pl_extras_one (pl_allCats_root hc.2).1) (by simp)
        (pl_reads_one hrc)
  | bin c os y hl l r ihl ihr =>
    intro d s h hc ht
    obtain ⟨hcc, hcl, hcr⟩ := hc
    have hrcat : EnCatOK r.cat := pl_allCats_root hcr
    by_cases h1 : os = lit "conj2"
    · subst h1
      simp only [prologEnRec, pl_get_conj2, pl_beq_true, pl_beq_false pl_ne_c2_c, pl_beq_false pl_ne_c2_l,
        if_true, Bool.false_eq_true, if_false, Bool.true_or] at h
      cases hsl : prologEnRec l (d + 1 + 1) with
      | error e => simp [hsl] at h
      | ok sl =>
        cases hsr : prologEnRec r (d + 1 + 1) with
        | error e => simp [hsl, hsr] at h
        | ok sr =>
          have hrl := ihl _ sl hsl hcl ht.1
          have hrr := ihr _ sr hsr hcr ht.2
          simp only [hsl, hsr, Except.ok.injEq] at h
          subst h
          have hv : viewPrologEn (.bin c (lit "conj2") y hl l r) =
              .node (lit "conj") (prologCat c) [prologCat r.cat ++ 92 :: prologCat r.cat]
                [.node (lit "conj") (prologCat r.cat ++ 92 :: prologCat r.cat) [prologCat r.cat]
                  [viewPrologEn l, viewPrologEn r]] := by
            simp only [viewPrologEn, if_true, pl_fn_conj2]
          have inner := pl_read_node (spaces (d + 1)) (lit "conj") (prologCat r.cat ++ 92 :: prologCat r.cat)
            [prologCat r.cat] [(sl, viewPrologEn l), (sr, viewPrologEn r)] (pl_ws_spaces _) pl_name_conj
            (pl_argText_bs _ hrcat.1.1) (pl_extras_one hrcat.1) (by simp) (pl_reads_two hrl hrr)
          have outer := pl_read_node (spaces d) (lit "conj") (prologCat c)
            [prologCat r.cat ++ 92 :: prologCat r.cat] [(_, _)] (pl_ws_spaces _) pl_name_conj
            hcc.1.1 (pl_extras_one (pl_extraText_bs _ hrcat.1)) (by simp) (pl_reads_one inner)
          rw [hv]
          exact pl_reads_congr outer (by
            simp [nodeText, extrasText, kidsText, pl_lit_conj, pl_lit_cs, pl_lit_cnl, pl_lit_rp, pl_lit_c,
              pl_lit_sp, pl_lit_bs, pl_lit_nl])
    · by_cases h2 : os = lit "conj"
      · subst h2
        simp only [prologEnRec, pl_get_conj, pl_beq_true, pl_beq_false pl_ne_c_c2, pl_beq_false pl_ne_c_l,
          if_true, Bool.false_eq_true, if_false, Bool.or_self] at h
        cases c with
        | atom b f => simp [catLeft, Except.map] at h
        | fn cl sl0 cr =>
          simp only [catLeft, Except.map] at h
          cases hsl : prologEnRec l (d + 1) with
          | error e => simp [hsl] at h
          | ok sl =>
            cases hsr : prologEnRec r (d + 1) with
            | error e => simp [hsl, hsr] at h
            | ok sr =>
              have hrl := ihl _ sl hsl hcl ht.1
              have hrr := ihr _ sr hsr hcr ht.2
              simp only [hsl, hsr, Except.ok.injEq] at h
              subst h
              have hv : viewPrologEn (.bin (.fn cl sl0 cr) (lit "conj") y hl l r) =
                  .node (lit "conj") (prologCat (.fn cl sl0 cr)) [prologCat cl]
                    [viewPrologEn l, viewPrologEn r] := by
                simp only [viewPrologEn, if_true, pl_fn_conj, pl_ne_c_c2, if_false]
              have outer := pl_read_node (spaces d) (lit "conj") (prologCat (.fn cl sl0 cr))
                [prologCat cl] [(sl, viewPrologEn l), (sr, viewPrologEn r)] (pl_ws_spaces _) pl_name_conj
                hcc.1.1 (pl_extras_one hcc.2) (by simp) (pl_reads_two hrl hrr)
              rw [hv]
              exact pl_reads_congr outer (by
                simp [nodeText, extrasText, kidsText, pl_lit_cnl, pl_lit_rp, pl_lit_c, pl_lit_sp, pl_lit_nl])
      · by_cases h3 : os = lit "lp"
        · subst h3
          simp only [prologEnRec, pl_get_lp, pl_beq_true, pl_beq_false pl_ne_l_c2, pl_beq_false pl_ne_l_c,
            if_true, Bool.false_eq_true, if_false, Bool.false_or] at h
          cases hsl : prologEnRec l (d + 1 + 1) with
          | error e => simp [hsl] at h
          | ok sl =>
            cases hsr : prologEnRec r (d + 1 + 1) with
            | error e => simp [hsl, hsr] at h
            | ok sr =>
              have hrl := ihl _ sl hsl hcl ht.1
              have hrr := ihr _ sr hsr hcr ht.2
              simp only [hsl, hsr, Except.ok.injEq] at h
              subst h
              have hv : viewPrologEn (.bin c (lit "lp") y hl l r) =
                  .node (lit "lx") (prologCat c) [prologCat r.cat]
                    [.node (lit "lp") (prologCat r.cat) [] [viewPrologEn l, viewPrologEn r]] := by
                simp only [viewPrologEn, if_true, pl_fn_lp, pl_ne_l_c2, pl_ne_l_c, if_false]
              have inner := pl_read_node (spaces (d + 1)) (lit "lp") (prologCat r.cat)
                [] [(sl, viewPrologEn l), (sr, viewPrologEn r)] (pl_ws_spaces _) pl_name_lp
                hrcat.1.1 pl_extras_none (by simp) (pl_reads_two hrl hrr)
              have outer := pl_read_node (spaces d) (lit "lx") (prologCat c)
                [prologCat r.cat] [(_, _)] (pl_ws_spaces _) pl_name_lx
                hcc.1.1 (pl_extras_one hrcat.1) (by simp) (pl_reads_one inner)
              rw [hv]
              exact pl_reads_congr outer (by
                simp [nodeText, extrasText, kidsText, pl_lit_lpp, pl_lit_cnl, pl_lit_rp, pl_lit_c, pl_lit_sp,
                  pl_lit_nl])
        · simp only [prologEnRec] at h
          cases hm : Dict.get? opMapping os with
          | none => simp [hm] at h
          | some head =>
            obtain ⟨nm, rfl, hnm, hfn⟩ := pl_en_head hm
            simp only [hm, pl_beq_false h1, pl_beq_false h2, pl_beq_false h3,
              Bool.false_eq_true, if_false, Bool.or_self] at h
            cases hsl : prologEnRec l (d + 1) with
            | error e => simp [hsl] at h
            | ok sl =>
              cases hsr : prologEnRec r (d + 1) with
              | error e => simp [hsl, hsr] at h
              | ok sr =>
                have hrl := ihl _ sl hsl hcl ht.1
                have hrr := ihr _ sr hsr hcr ht.2
                simp only [hsl, hsr, Except.ok.injEq] at h
                subst h
                have hv : viewPrologEn (.bin c os y hl l r) =
                    .node nm (prologCat c) [] [viewPrologEn l, viewPrologEn r] := by
                  simp only [viewPrologEn, hfn, h1, h2, h3, if_false]
                have outer := pl_read_node (spaces d) nm (prologCat c)
                  [] [(sl, viewPrologEn l), (sr, viewPrologEn r)] (pl_ws_spaces _) hnm
                  hcc.1.1 pl_extras_none (by simp) (pl_reads_two hrl hrr)
                rw [hv]
                exact pl_reads_congr outer (by
                  simp [nodeText, extrasText, kidsText, pl_lit_cnl, pl_lit_rp, pl_lit_c, pl_lit_nl])


/-! ### English: the whole output -/

theorem pl_lit_endEn : lit ").\n" = [41, 46, 10] := by decide

/-- one clause of `to_prolog_en` -/
def enClause (p : Nat × Tree) : Except Err Str := (prologEnOne p.2 p.1).map (· ++ [10])

theorem pl_prologEn_eq (batch : List (List Tree)) :
    prologEn batch = match catExcept enClause (numbered batch) with
      | .error e => .error e
      | .ok body => .ok (prologHeader ++ [10] ++ body) := rfl

theorem pl_enClause_ok (p : Nat × Tree) (s : Str) (h : enClause p = .ok s)
    (hp : AllCats EnCatOK p.2 ∧ AllToks EnTokOK p.2) :
    ∃ r, s = clauseText p.1 r ∧ Reads r (viewPrologEn p.2) := by
  unfold enClause prologEnOne at h
  cases h1 : prologEnRec p.2 1 with
  | error e => simp [h1, Except.map] at h
  | ok s0 =>
    have hr := pl_en_term p.2 1 s0 h1 hp.1 hp.2
    simp only [h1, Except.map, Except.ok.injEq] at h
    subst h
    exact ⟨s0, by simp [clauseText, pl_lit_ccg, pl_lit_endEn, pl_lit_cnl], hr⟩

/-! ### sufficient conditions on the category values -/

def PlainStr (s : Str) : Prop := ∀ ch ∈ s, PlainCh ch

theorem pl_plain_argDepth (s : Str) (h : PlainStr s) (d : Nat) : argDepth d s = some d := by
  induction s with
  | nil => rfl
  | cons c cs ih =>
    obtain ⟨_, _, h44, h40, h41⟩ := h c (List.mem_cons_self ..)
    simp only [argDepth, h44, h40, h41, false_and, if_false]
    exact ih (fun x hx => h x (List.mem_cons_of_mem _ hx))

theorem pl_plain_head (s : Str) (h : PlainStr s) : s.head? ≠ some 32 ∧ s.head? ≠ some 10 := by
  cases s with
  | nil => simp
  | cons c cs =>
    obtain ⟨h32, h10, _⟩ := h c (List.mem_cons_self ..)
    simp [h32, h10]

theorem pl_plain_lower (s : Str) (h : PlainStr s) : PlainStr (lowerAscii s) := by
  intro ch hch
  simp only [lowerAscii, List.mem_map] at hch
  obtain ⟨c, hc, rfl⟩ := hch
  have := h c hc
  unfold PlainCh at *
  split <;> omega

theorem pl_plain_append {a b : Str} (ha : PlainStr a) (hb : PlainStr b) : PlainStr (a ++ b) := by
  intro ch h
  rcases List.mem_append.1 h with h | h
  · exact ha ch h
  · exact hb ch h

theorem pl_plain_cons {c : Nat} {a : Str} (hc : PlainCh c) (ha : PlainStr a) : PlainStr (c :: a) := by
  intro ch h
  rcases List.mem_cons.1 h with rfl | h
  · exact hc
  · exact ha ch h

/-- a spelling `(` l s r `)` built from balanced parts with a plain slash -/
theorem pl_fn_text (l r : Str) (s : Nat) (hs : PlainCh s) (hl : ∀ d, argDepth d l = some d)
    (hr : ∀ d, argDepth d r = some d) (d : Nat) :
    argDepth d (cLPar :: l ++ s :: r ++ [cRPar]) = some d := by
  obtain ⟨_, _, h44, h40, h41⟩ := hs
  have e : cLPar :: l ++ s :: r ++ [cRPar] = 40 :: (l ++ (s :: (r ++ [41]))) := by simp [cLPar, cRPar]
  rw [e]
  simp only [argDepth, show ¬ (40 = 44 ∧ d = 0) by omega, if_false, if_true]
  rw [pl_argDepth_append l (d + 1) (d + 1) _ (hl _)]
  simp only [argDepth, h44, h40, h41, false_and, if_false]
  rw [pl_argDepth_append r (d + 1) (d + 1) _ (hr _)]
  simp [argDepth]

theorem pl_en_atom_plain (b : Str) (f : Feat) (h : PlainCatEn (.atom b f)) : PlainStr (prologCat (.atom b f)) := by
  have hb := pl_plain_lower b h.1
  simp only [prologCat]
  split
  · unfold PlainStr PlainCh; decide
  · split
    · unfold PlainStr PlainCh; decide
    · split
      · unfold PlainStr PlainCh; decide
      · split
        · unfold PlainStr PlainCh; decide
        · split
          · exact hb
          · exact pl_plain_append hb (pl_plain_cons (by unfold PlainCh; decide) h.2)

theorem pl_en_plain_text (c : Cat) (h : PlainCatEn c) :
    (∀ d, argDepth d (prologCat c) = some d) ∧ (prologCat c).head? ≠ some 32 ∧ (prologCat c).head? ≠ some 10 := by
  induction c with
  | atom b f =>
    have hp := pl_en_atom_plain b f h
    exact ⟨pl_plain_argDepth _ hp, pl_plain_head _ hp⟩
  | fn l s r ihl ihr =>
    obtain ⟨hl, hs, hr⟩ := h
    refine ⟨pl_fn_text _ _ s hs (ihl hl).1 (ihr hr).1, ?_, ?_⟩ <;> simp [prologCat, cLPar]

/-- plain category values satisfy the English hypothesis -/
theorem pl_enCatOK_of_plain (c : Cat) (h : PlainCatEn c) : EnCatOK c := by
  have h0 := pl_en_plain_text c h
  refine ⟨⟨h0.1 0, h0.2⟩, ?_⟩
  cases c with
  | atom b f => trivial
  | fn l s r =>
    have hl := pl_en_plain_text l h.1
    exact ⟨hl.1 0, hl.2⟩

theorem pl_ja_plain_text (c : Cat) (h : PlainCatJa c) : ∀ d, argDepth d (prologJaCat c) = some d := by
  induction c with
  | atom b f =>
    cases f with
    | un v => exact pl_plain_argDepth _ (pl_plain_lower b h)
    | tri k1 v1 k2 v2 k3 v3 =>
      obtain ⟨hb, h1, h2, h3⟩ := h
      have hb' := pl_plain_lower b hb
      have hcol : PlainCh 58 := by unfold PlainCh; decide
      apply pl_plain_argDepth
      simp only [prologJaCat]
      split
      · rename_i v hv
        have hvp : PlainStr v := by
          split at hv
          · cases hv; exact h3
          · split at hv
            · cases hv; exact h2
            · split at hv
              · cases hv; exact h1
              · cases hv
        exact pl_plain_append hb' (pl_plain_cons hcol (pl_plain_lower _ hvp))
      · exact hb'
  | fn l s r ihl ihr =>
    obtain ⟨hl, hs, hr⟩ := h
    exact pl_fn_text _ _ s hs (ihl hl) (ihr hr)

/-- plain category values satisfy the Japanese hypothesis -/
theorem pl_jaCatOK_of_plain (c : Cat) (h : PlainCatJa c) : JaCatOK c := pl_ja_plain_text c h 0

theorem pl_allCats_mono {p q : Cat → Prop} (h : ∀ c, p c → q c) : ∀ (t : Tree), AllCats p t → AllCats q t
  | .leaf .., ht => h _ ht
  | .un _ _ _ ch, ht => ⟨h _ ht.1, pl_allCats_mono h ch ht.2⟩
  | .bin _ _ _ _ l r, ht => ⟨h _ ht.1, pl_allCats_mono h l ht.2.1, pl_allCats_mono h r ht.2.2⟩

/-! ### the hypotheses are decidable (for the examples) -/

instance : DecidablePred ArgText := fun s => by unfold ArgText; infer_instance
instance : DecidablePred ExtraText := fun s => by unfold ExtraText; infer_instance
instance : DecidablePred NoTrailingBackslash := fun s => by unfold NoTrailingBackslash; infer_instance
instance : DecidablePred RawQuotable := fun s => by unfold RawQuotable; infer_instance
instance : DecidablePred JaCatOK := fun c => by unfold JaCatOK; infer_instance
instance : DecidablePred JaTokOK := fun t => by unfold JaTokOK; infer_instance
instance : DecidablePred EnTokOK := fun t => by unfold EnTokOK; infer_instance
instance : DecidablePred EnCatOK := fun c => by
  cases c with
  | atom b f => unfold EnCatOK; infer_instance
  | fn l s r => unfold EnCatOK; infer_instance

def decAllCats (p : Cat → Prop) [DecidablePred p] : (t : Tree) → Decidable (AllCats p t)
  | .leaf c _ _ _ => inferInstanceAs (Decidable (p c))
  | .un c _ _ ch => @instDecidableAnd _ _ (inferInstanceAs (Decidable (p c))) (decAllCats p ch)
  | .bin c _ _ _ l r =>
    @instDecidableAnd _ _ (inferInstanceAs (Decidable (p c)))
      (@instDecidableAnd _ _ (decAllCats p l) (decAllCats p r))

def decAllToks (p : Token → Prop) [DecidablePred p] : (t : Tree) → Decidable (AllToks p t)
  | .leaf _ tok _ _ => inferInstanceAs (Decidable (p tok))
  | .un _ _ _ ch => decAllToks p ch
  | .bin _ _ _ _ l r => @instDecidableAnd _ _ (decAllToks p l) (decAllToks p r)

instance (p : Cat → Prop) [DecidablePred p] : DecidablePred (AllCats p) := decAllCats p
instance (p : Token → Prop) [DecidablePred p] : DecidablePred (AllToks p) := decAllToks p

end Depccg.C07
