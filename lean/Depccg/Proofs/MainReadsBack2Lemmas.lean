/-
  Lemmas for `Props/MainReadsBack2.lean`: `read_ptb` and the Prolog term reader on the printed
  text *with the newline `print` adds*.
-/
import Depccg.Props.MainReadsBack2Defs
import Depccg.Props.File
import Depccg.Props.C07Prolog
import Depccg.Proofs.CliLemmas
import Depccg.Proofs.MainReadsBackLemmas

namespace Depccg.CliProps
open Depccg Str Search GlueRun Lazy Print Cli LazyProps Read FileProps C07

/-! ### ptb -/

/-- the score texts of the results are legal, whatever is asked of the trees -/
theorem mrb2_scored_batchOK (p : Tree → Prop) (results : List SentResult)
    (h : ∀ r ∈ results, ∀ ts ∈ scored r, p ts.1) :
    BatchOK p (results.map scored) := by
  intro trees htr ts hts
  obtain ⟨r, hr, rfl⟩ := List.mem_map.1 htr
  refine ⟨h r hr ts hts, ?_⟩
  cases r with
  | failed =>
    simp only [scored, List.mem_singleton] at hts
    rw [hts]
    exact cli_scoreText_ok none
  | parsed l =>
    simp only [scored] at hts
    obtain ⟨tk, _, rfl⟩ := List.mem_map.1 hts
    exact cli_scoreText_ok (some tk.2)

/-- the newline `print` adds is not seen by `read_ptb` -/
theorem mrb2_readPtbFile_newline (lang : Lang) (t : Str) :
    readPtbFile lang (t ++ [10]) = readPtbFile lang t := by
  rw [fl_readPtbFile_split, fl_readPtbFile_split, C08.splitOn_append_sep, fl_splitOn_nil,
    fl_readPtbLoop_snoc_nil]

theorem mrb2_main_ptb_reads_back : MainPtbReadsBackStatement := by
  intro lang results text hok hp
  have hp' : (match toStringLines Fmt.ptb.fn (Fmt.ptb == Fmt.conll) (results.map scored) with
      | .error e => Except.error e
      | .ok s => Except.ok (s ++ [10])) = Except.ok text := hp
  have hp := hp'
  have hf : (Fmt.ptb == Fmt.conll) = false := by decide
  rw [hf] at hp
  cases ht : toStringLines Fmt.ptb.fn false (results.map scored) with
  | error e => rw [ht] at hp; cases hp
  | ok t0 =>
    rw [ht] at hp
    cases hp
    obtain ⟨rs, h1, h2⟩ := ptb_file_roundtrip lang (results.map scored) t0
      (mrb2_scored_batchOK (PtbTreeOK lang) results hok) ht
    exact ⟨rs, h1, by rw [mrb2_readPtbFile_newline, h2]⟩

/-! ### prolog: white space after the last clause is skipped -/

theorem mrb2_ws_append {a b : Str} (ha : Ws a) (hb : Ws b) : Ws (a ++ b) := by
  intro ch h
  rcases List.mem_append.1 h with h | h
  · exact ha ch h
  · exact hb ch h

/-- the clauses read back, white space after them -/
theorem mrb2_readClauses_body (tl : Str) (htl : Ws tl) (items : List (Nat × Str × PView)) :
    ∀ (w : Str) (fuel : Nat), Ws w →
    (∀ i ∈ items, Reads i.2.1 i.2.2) → items.length + 1 ≤ fuel →
    readClauses fuel (w ++ (bodyText items ++ tl)) = some (items.map fun i => (i.1, i.2.2)) := by
  induction items with
  | nil =>
    intro w fuel hw _ hf
    obtain ⟨f, rfl⟩ : ∃ f, fuel = f + 1 := ⟨fuel - 1, by omega⟩
    simp only [bodyText, List.nil_append, List.map_nil]
    exact pl_readClauses_end f (w ++ tl) (mrb2_ws_append hw htl)
  | cons i rest ih =>
    intro w fuel hw h hf
    simp only [List.length_cons] at hf
    obtain ⟨f, rfl⟩ : ∃ f, fuel = f + 1 := ⟨fuel - 1, by omega⟩
    simp only [bodyText, List.append_assoc]
    rw [pl_readClauses_clause f w i.1 i.2.1 i.2.2 _ hw (h i (List.mem_cons_self ..))]
    have := ih [10, 10] f (pl_ws_cons (Or.inr rfl) (pl_ws_cons (Or.inr rfl) pl_ws_nil))
      (fun j hj => h j (List.mem_cons_of_mem _ hj)) (by omega)
    simp only [List.cons_append, List.nil_append] at this
    rw [this]
    rfl

/-- a whole output and the newline `print` adds: header, blank line, clauses, newline -/
theorem mrb2_decProlog_nl (items : List (Nat × Str × PView)) (h : ∀ i ∈ items, Reads i.2.1 i.2.2) :
    decProlog (prologHeader ++ [10] ++ bodyText items ++ [10]) = some (items.map fun i => (i.1, i.2.2)) := by
  unfold decProlog
  have hl := pl_bodyText_length items
  rw [List.append_assoc, List.append_assoc,
    pl_readClauses_header _ _ (by simp only [List.length_append, pl_header_length]; omega)]
  have := mrb2_readClauses_body [10] (pl_ws_cons (Or.inr rfl) pl_ws_nil) items [10, 10]
    ((prologHeader ++ ([10] ++ (bodyText items ++ [10]))).length + 1 - 4)
    (pl_ws_cons (Or.inr rfl) (pl_ws_cons (Or.inr rfl) pl_ws_nil)) h
    (by simp only [List.length_append, pl_header_length, List.length_cons, List.length_nil]; omega)
  simpa using this

theorem mrb2_main_prolog_en_reads_back : MainPrologEnReadsBackStatement := by
  intro results text hb h
  simp only [printText] at h
  obtain ⟨t, ht, rfl⟩ := mrb_addNewline h
  rw [pl_prologEn_eq] at ht
  cases hc : catExcept enClause (numbered (treesOnly results)) with
  | error e => simp [hc] at ht
  | ok body =>
    simp only [hc, Except.ok.injEq] at ht
    subst ht
    obtain ⟨items, rfl, hr, hm⟩ := pl_items enClause viewPrologEn
      (fun t => TextProps.AllCats EnCatOK t ∧ TextProps.AllToks EnTokOK t) pl_enClause_ok
      (numbered (treesOnly results)) body
      (fun p hp => by
        obtain ⟨ts, hts, ht⟩ := C19.mem_numbered hp
        exact hb ts hts p.2 ht) hc
    unfold decPrologEn
    rw [mrb2_decProlog_nl items hr, hm]

theorem mrb2_main_prolog_ja_reads_back : MainPrologJaReadsBackStatement := by
  intro results text hb h
  simp only [printText] at h
  obtain ⟨t, ht, rfl⟩ := mrb_addNewline h
  rw [pl_prologJa_eq] at ht
  cases hc : catExcept jaClause (numbered (treesOnly results)) with
  | error e => simp [hc] at ht
  | ok body =>
    simp only [hc, Except.ok.injEq] at ht
    subst ht
    obtain ⟨items, rfl, hr, hm⟩ := pl_items jaClause viewPrologJa
      (fun t => TextProps.AllCats JaCatOK t ∧ TextProps.AllToks JaTokOK t) pl_jaClause_ok
      (numbered (treesOnly results)) body
      (fun p hp => by
        obtain ⟨ts, hts, ht⟩ := C19.mem_numbered hp
        exact hb ts hts p.2 ht) hc
    unfold decPrologJa
    rw [mrb2_decProlog_nl items hr, hm]

end Depccg.CliProps
