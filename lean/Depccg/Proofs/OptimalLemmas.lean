/-
  The optimality argument for the 1-best search (C01): A* with a consistent estimate and a
  closed set.  Head-uniformity makes the outside estimate a function of the span, the history
  invariant `Hist` records what was pushed / dropped, the cover lemma (`cover`) shows that every
  licensed derivation is either closed by the chart with an at-least-as-good inside score or
  dominated by an agenda item.  Core Lean only.
-/
import Depccg.Proofs.SearchLemmas

namespace Depccg.SearchProps
open Depccg Search

/-! ### head-uniformity: the head word is a function of the span -/

theorem mem_of_getElem?_eq_some {α : Type} {l : List α} {i : Nat} {a : α} (h : l[i]? = some a) :
    a ∈ l := List.mem_of_getElem? h

theorem dhead_of_headLeft {g : Grammar} {s : Sent} {cfg : Cfg} {d : Deriv}
    (hu : ∀ x y, ∀ r ∈ g.bin x y, r.headLeft = true) (h : Licensed g s cfg d) :
    dhead d = dstart d := by
  induction h with
  | leaf t c sc _ _ => rfl
  | un c rid d _ _ _ ih => simpa only [dhead, dstart] using ih
  | bin c rid hl l r _ _ _ hr ihl _ =>
    have : hl = true := hu _ _ _ (mem_of_getElem?_eq_some hr)
    subst this
    simpa only [dhead, dstart, if_true] using ihl

theorem dhead_of_headRight {g : Grammar} {s : Sent} {cfg : Cfg} {d : Deriv}
    (hu : ∀ x y, ∀ r ∈ g.bin x y, r.headLeft = false) (h : Licensed g s cfg d) :
    dhead d + 1 = dstart d + dlen d := by
  induction h with
  | leaf t c sc _ _ => rfl
  | un c rid d _ _ _ ih => simpa only [dhead, dstart, dlen] using ih
  | bin c rid hl l r _ _ hadj hr _ ihr =>
    have : hl = false := hu _ _ _ (mem_of_getElem?_eq_some hr)
    subst this
    simp only [dstop] at hadj
    simp only [dhead, dstart, dlen, Bool.false_eq_true, if_false]
    omega

/-- two licensed derivations over the same span have the same head word -/
theorem dhead_eq_of_span {g : Grammar} {s : Sent} {cfg : Cfg} {d₁ d₂ : Deriv} (hu : HeadUniform g)
    (h₁ : Licensed g s cfg d₁) (h₂ : Licensed g s cfg d₂) (hst : dstart d₁ = dstart d₂)
    (hlen : dlen d₁ = dlen d₂) : dhead d₁ = dhead d₂ := by
  rcases hu with hu | hu
  · rw [dhead_of_headLeft hu h₁, dhead_of_headLeft hu h₂, hst]
  · have e₁ := dhead_of_headRight hu h₁
    have e₂ := dhead_of_headRight hu h₂
    omega

/-- the head of a well-formed item is the head of any licensed derivation over its span -/
theorem NonFinOK.head_eq {g : Grammar} {s : Sent} {cfg : Cfg} {it : Item} {d : Deriv}
    (hu : HeadUniform g) (h : NonFinOK g s cfg it) (hd : Licensed g s cfg d)
    (hst : it.start = dstart d) (hlen : it.len = dlen d) : it.head = dhead d := by
  rw [h.head]
  exact dhead_eq_of_span hu h.lic hd (by rw [← h.start, hst]) (by rw [← h.len, hlen])

/-- two well-formed items over the same span have the same head, hence the same outside score -/
theorem NonFinOK.outS_eq {g : Grammar} {s : Sent} {cfg : Cfg} {a b : Item} (hu : HeadUniform g)
    (ha : NonFinOK g s cfg a) (hb : NonFinOK g s cfg b) (hst : a.start = b.start)
    (hlen : a.len = b.len) : a.outS = b.outS := by
  have hh : a.head = b.head := by
    rw [hb.head]
    exact ha.head_eq hu hb.lic (by rw [hst, hb.start]) (by rw [hlen, hb.len])
  rw [ha.outS, hb.outS, hst, hlen, hh]

/-! ### the priority of a derivation and its consistency -/

/-- the priority a non-final item carrying `d` has: inside score + outside estimate of the span -/
def Pd (s : Sent) (cfg : Cfg) (d : Deriv) : Int :=
  inScore s cfg d + binOut s (dstart d) (dstart d + dlen d) (dhead d)

theorem Pd_eq {g : Grammar} {s : Sent} {cfg : Cfg} {d : Deriv} (h : Licensed g s cfg d) :
    Pd s cfg d = inScore s cfg d +
      ((sumTo (bestTag s) (dstart d) + (sumTo (bestTag s) s.n - sumTo (bestTag s) (dstart d + dlen d)))
      + (sumTo (bestDep s) (dstart d) + (sumTo (bestDep s) s.n - sumTo (bestDep s) (dstart d + dlen d)))
      + bestDep s (dhead d)) := by
  have := dlen_pos d
  have sp := h.span
  rw [Pd, binOut_eq s _ (by omega) sp.2.2]

theorem NonFinOK.prio_eq_Pd {g : Grammar} {s : Sent} {cfg : Cfg} {it : Item}
    (h : NonFinOK g s cfg it) : it.prio = Pd s cfg it.d := by
  rw [Item.prio, Pd, h.inS, h.outS, h.start, h.len, h.head]

theorem Pd_un_le {s : Sent} {cfg : Cfg} (hp : 0 ≤ cfg.penalty) (c rid : Nat) (d : Deriv) :
    Pd s cfg (.un c rid d) ≤ Pd s cfg d := by
  simp only [Pd, inScore_un, dstart, dlen, dhead]
  omega

theorem Pd_bin_le {g : Grammar} {s : Sent} {cfg : Cfg} (hs : SentOK s) (hp : 0 ≤ cfg.penalty)
    {c rid : Nat} {hl : Bool} {l r : Deriv} (h : Licensed g s cfg (.bin c rid hl l r)) :
    Pd s cfg (.bin c rid hl l r) ≤ Pd s cfg l ∧ Pd s cfg (.bin c rid hl l r) ≤ Pd s cfg r := by
  have e := Pd_eq h
  cases h with
  | bin _ _ _ _ _ hl' hr' hadj _ =>
    have el := Pd_eq hl'
    have er := Pd_eq hr'
    have il := inside_le hs hp hl'
    have ir := inside_le hs hp hr'
    have sl := hl'.span
    have sr := hr'.span
    simp only [dstop] at hadj il ir
    rw [e, el, er]
    simp only [inScore_bin, dstart, dlen, dhead]
    rw [← hadj] at ir sr ⊢
    rw [← Nat.add_assoc]
    cases hl with
    | true =>
      have hd := depAt_le_bestDep hs (t := dhead r) (col := dhead l + 1) (by omega) (by omega)
      simp only [if_true]
      omega
    | false =>
      have hd := depAt_le_bestDep hs (t := dhead l) (col := dhead r + 1) (by omega) (by omega)
      simp only [Bool.false_eq_true, if_false]
      omega

/-- for a complete parse the model score is bounded by the priority -/
theorem modelScore_le_Pd {g : Grammar} {s : Sent} {cfg : Cfg} {d : Deriv} (hs : SentOK s)
    (h : LicensedRoot g s cfg d) : modelScore s cfg d ≤ Pd s cfg d := by
  obtain ⟨hl, h0, hn, _⟩ := h
  have sp := hl.span
  have hd := depAt_le_bestDep hs (t := dhead d) (col := 0) (by omega) (by omega)
  rw [Pd_eq hl, modelScore_eq, h0, hn, Nat.zero_add]
  simp only [sumTo]
  omega

/-! ### membership in `expand`, `unaryItems`, `binaryItems` -/

theorem mem_expand_fin {g : Grammar} {s : Sent} {cfg : Cfg} {chart : List Item} {it : Item}
    (hlen : it.len = s.n) (hroot : s.roots.elem it.cat = true) :
    finItem s it ∈ expand g s cfg chart it := by
  simp only [expand, List.mem_append]
  exact Or.inl (Or.inl (Or.inl (by rw [if_pos ⟨hlen, hroot⟩]; exact List.mem_singleton.2 rfl)))

theorem mem_expand_un {g : Grammar} {s : Sent} {cfg : Cfg} {chart : List Item} {it x : Item}
    (hu : s.n = 1 ∨ it.len ≠ s.n) (hx : x ∈ unaryItems g cfg it) :
    x ∈ expand g s cfg chart it := by
  simp only [expand, List.mem_append]
  exact Or.inl (Or.inl (Or.inr (by rw [if_pos hu]; exact hx)))

theorem mem_expand_binL {g : Grammar} {s : Sent} {cfg : Cfg} {chart : List Item} {it o x : Item}
    (ho : o ∈ chart) (hadj : o.start = it.stop) (hx : x ∈ binaryItems g s it o) :
    x ∈ expand g s cfg chart it := by
  simp only [expand, List.mem_append, List.mem_flatMap, mem_neighbours, beq_iff_eq]
  exact Or.inl (Or.inr ⟨o, ⟨ho, hadj⟩, hx⟩)

theorem mem_expand_binR {g : Grammar} {s : Sent} {cfg : Cfg} {chart : List Item} {it o x : Item}
    (ho : o ∈ chart) (hadj : o.stop = it.start) (hx : x ∈ binaryItems g s o it) :
    x ∈ expand g s cfg chart it := by
  simp only [expand, List.mem_append, List.mem_flatMap, mem_neighbours, beq_iff_eq]
  exact Or.inr ⟨o, ⟨ho, hadj⟩, hx⟩

theorem unaryItems_mem {g : Grammar} {cfg : Cfg} {it : Item} {c rid : Nat}
    (h : (g.un it.cat)[rid]? = some c) :
    ({ it with cat := c, inS := it.inS - cfg.penalty, rule := rid, d := .un c rid it.d } : Item)
      ∈ unaryItems g cfg it := by
  simp only [unaryItems, List.mem_map]
  exact ⟨(c, rid), List.mem_zipIdx_iff_getElem?.2 h, rfl⟩

theorem binaryItems_mem {g : Grammar} {s : Sent} {l r : Item} {rule : Rule} {rid : Nat}
    (h : (g.bin l.cat r.cat)[rid]? = some rule) :
    ({ fin := false, cat := rule.cat,
       inS := l.inS + r.inS +
         depAt s (if rule.headLeft then r.head else l.head)
           ((if rule.headLeft then l.head else r.head) + 1),
       outS := binOut s l.start (l.start + (l.len + r.len))
         (if rule.headLeft then l.head else r.head),
       start := l.start, len := l.len + r.len,
       head := if rule.headLeft then l.head else r.head, rule := rid,
       d := .bin rule.cat rid rule.headLeft l.d r.d } : Item) ∈ binaryItems g s l r := by
  simp only [binaryItems, List.mem_map]
  exact ⟨(rule, rid), List.mem_zipIdx_iff_getElem?.2 h, rfl⟩

theorem mem_inChart {chart : List Item} {it : Item} (h : inChart chart it = true) :
    ∃ o ∈ chart, o.start = it.start ∧ o.len = it.len ∧ o.cat = it.cat := by
  simp only [inChart, List.any_eq_true, decide_eq_true_eq] at h
  exact h

/-! ### the history invariant -/

/-- `x` was pushed at some point: it is still in the agenda or it has been popped -/
def Pushed (st : St) (x : Item) : Prop := x ∈ st.agenda ∨ x ∈ st.popped

/-- what the search has done so far: all leaves were pushed; a popped non-final item is
    represented in the chart by an item of its key with an at-least-as-good inside score;
    everything derivable in one step from chart items was pushed -/
structure Hist (g : Grammar) (s : Sent) (cfg : Cfg) (st : St) : Prop where
  leaf : ∀ x ∈ leafItems s cfg, Pushed st x
  drop : ∀ x ∈ st.popped, x.fin = false →
    ∃ c ∈ st.chart, c.start = x.start ∧ c.len = x.len ∧ c.cat = x.cat ∧ x.inS ≤ c.inS
  fin : ∀ c ∈ st.chart, c.len = s.n → s.roots.elem c.cat = true → Pushed st (finItem s c)
  un : ∀ c ∈ st.chart, (s.n = 1 ∨ c.len ≠ s.n) → ∀ x ∈ unaryItems g cfg c, Pushed st x
  bin : ∀ l ∈ st.chart, ∀ r ∈ st.chart, r.start = l.stop → ∀ x ∈ binaryItems g s l r, Pushed st x

theorem Hist.init {pick : Pick} (hp : PickOK pick) (g : Grammar) (s : Sent) (cfg : Cfg) :
    Hist g s cfg (init pick s cfg) where
  leaf := fun _ h => Or.inl (hp.mem_push_nil.2 h)
  drop := fun _ h => by cases h
  fin := fun _ h => by cases h
  un := fun _ h => by cases h
  bin := fun _ h => by cases h

/-- a step never forgets a pushed item -/
theorem Pushed.mono {st st' : St} {it x : Item} {rest : List Item}
    (hperm : (it :: rest).Perm st.agenda) (hag : ∀ y ∈ rest, y ∈ st'.agenda)
    (hpop : st'.popped = it :: st.popped) (h : Pushed st x) : Pushed st' x := by
  rcases h with h | h
  · rcases List.mem_cons.1 (hperm.mem_iff.2 h) with rfl | h
    · exact Or.inr (by rw [hpop]; exact List.mem_cons_self ..)
    · exact Or.inl (hag x h)
  · exact Or.inr (by rw [hpop]; exact List.mem_cons_of_mem _ h)

/-- a step that leaves the chart alone and whose popped item is represented in the chart -/
theorem Hist.step_same {g : Grammar} {s : Sent} {cfg : Cfg} {st st' : St} {it : Item}
    {rest : List Item} (h : Hist g s cfg st) (hperm : (it :: rest).Perm st.agenda)
    (hag : ∀ y ∈ rest, y ∈ st'.agenda) (hpop : st'.popped = it :: st.popped)
    (hch : st'.chart = st.chart)
    (hit : it.fin = false →
      ∃ c ∈ st.chart, c.start = it.start ∧ c.len = it.len ∧ c.cat = it.cat ∧ it.inS ≤ c.inS) :
    Hist g s cfg st' where
  leaf := fun x hx => (h.leaf x hx).mono hperm hag hpop
  drop := by
    intro x hx hf
    rw [hpop] at hx
    rw [hch]
    rcases List.mem_cons.1 hx with rfl | hx
    · exact hit hf
    · exact h.drop x hx hf
  fin := by
    intro c hc; rw [hch] at hc
    exact fun h1 h2 => (h.fin c hc h1 h2).mono hperm hag hpop
  un := by
    intro c hc; rw [hch] at hc
    exact fun h1 x hx => (h.un c hc h1 x hx).mono hperm hag hpop
  bin := by
    intro l hl r hr; rw [hch] at hl hr
    exact fun h1 x hx => (h.bin l hl r hr h1 x hx).mono hperm hag hpop

/-- a dropped item is no better than the chart item of its key: that one was popped earlier,
    so its priority is at least as large, and the outside scores agree (head-uniformity) -/
theorem dropped_le {g : Grammar} {s : Sent} {cfg : Cfg} {st : St} {it : Item} (hu : HeadUniform g)
    (hok : StOK g s cfg st) (hprio : PrioOK st) (hmem : it ∈ st.agenda) (hf : it.fin = false)
    (hc : inChart st.chart it = true) :
    ∃ c ∈ st.chart, c.start = it.start ∧ c.len = it.len ∧ c.cat = it.cat ∧ it.inS ≤ c.inS := by
  obtain ⟨o, ho, h1, h2, h3⟩ := mem_inChart hc
  refine ⟨o, ho, h1, h2, h3, ?_⟩
  have hle := hprio.bound it hmem o (hok.chart_sub o ho)
  have hout := ((hok.chart o ho).2).outS_eq hu ((hok.agenda it hmem).1 hf) h1 h2
  simp only [Item.prio] at hle
  omega

theorem Hist.step {pick : Pick} {g : Grammar} {s : Sent} {cfg : Cfg} {st st' : St}
    (hp : PickOK pick) (hu : HeadUniform g) (hok : StOK g s cfg st) (hprio : PrioOK st)
    (h : Hist g s cfg st) (hstep : stepWith pick g s cfg st = some st') : Hist g s cfg st' := by
  obtain ⟨-, it, rest, hpick, hcases⟩ := stepWith_cases hstep
  obtain ⟨hperm, -⟩ := hp.spec hpick
  have hitmem : it ∈ st.agenda := hperm.mem_iff.1 (List.mem_cons_self ..)
  rcases hcases with ⟨hf, _, rfl⟩ | ⟨hf, _, rfl⟩ | ⟨hf, hc, rfl⟩ | ⟨hf, _, rfl⟩
  · exact h.step_same hperm (fun _ hy => hy) rfl rfl (fun hf' => by rw [hf] at hf'; cases hf')
  · exact h.step_same hperm (fun _ hy => hy) rfl rfl (fun hf' => by rw [hf] at hf'; cases hf')
  · exact h.step_same hperm (fun _ hy => hy) rfl rfl
      (fun _ => dropped_le hu hok hprio hitmem hf hc.2)
  · have hag : ∀ y ∈ rest, y ∈ pick.push (expand g s cfg st.chart it) rest :=
      fun y hy => hp.mem_push.2 (Or.inr hy)
    have hnew : ∀ x ∈ expand g s cfg st.chart it,
        Pushed { popSt st it rest with chart := it :: st.chart,
                                       agenda := pick.push (expand g s cfg st.chart it) rest } x :=
      fun x hx => Or.inl (hp.mem_push.2 (Or.inl hx))
    have hmono : ∀ x, Pushed st x →
        Pushed { popSt st it rest with chart := it :: st.chart,
                                       agenda := pick.push (expand g s cfg st.chart it) rest } x :=
      fun x hx => hx.mono hperm hag rfl
    have hlen := ((hok.agenda it hitmem).1 hf).len_pos
    refine ⟨fun x hx => hmono x (h.leaf x hx), ?_, ?_, ?_, ?_⟩
    · intro x hx hfx
      rcases List.mem_cons.1 hx with rfl | hx
      · exact ⟨x, List.mem_cons_self .., rfl, rfl, rfl, Int.le_refl _⟩
      · obtain ⟨c, hc, hk⟩ := h.drop x hx hfx
        exact ⟨c, List.mem_cons_of_mem _ hc, hk⟩
    · intro c hc h1 h2
      rcases List.mem_cons.1 hc with rfl | hc
      · exact hnew _ (mem_expand_fin h1 h2)
      · exact hmono _ (h.fin c hc h1 h2)
    · intro c hc h1 x hx
      rcases List.mem_cons.1 hc with rfl | hc
      · exact hnew _ (mem_expand_un h1 hx)
      · exact hmono _ (h.un c hc h1 x hx)
    · intro l hl r hr hadj x hx
      rcases List.mem_cons.1 hl with rfl | hl' <;> rcases List.mem_cons.1 hr with rfl | hr'
      · simp only [Item.stop] at hadj; omega
      · exact hnew _ (mem_expand_binL hr' hadj hx)
      · exact hnew _ (mem_expand_binR hl' hadj.symm hx)
      · exact hmono _ (h.bin l hl' r hr' hadj x hx)

/-! ### the cover lemma -/

/-- the key of `d` is in the chart with an at-least-as-good inside score -/
def Closed (s : Sent) (cfg : Cfg) (st : St) (d : Deriv) : Prop :=
  ∃ c ∈ st.chart, c.start = dstart d ∧ c.len = dlen d ∧ c.cat = dcat d ∧ inScore s cfg d ≤ c.inS

/-- some agenda item dominates the priority of `d` -/
def Open (s : Sent) (cfg : Cfg) (st : St) (d : Deriv) : Prop :=
  ∃ a ∈ st.agenda, Pd s cfg d ≤ a.prio

/-- a pushed well-formed non-final item with the key of `d` and an at-least-as-good inside score
    witnesses that `d` is closed or open -/
theorem cover_of_pushed {g : Grammar} {s : Sent} {cfg : Cfg} {st : St} {x : Item} {d : Deriv}
    (hu : HeadUniform g) (h : Hist g s cfg st) (hd : Licensed g s cfg d) (hx : Pushed st x)
    (hf : x.fin = false) (hxok : NonFinOK g s cfg x) (hst : x.start = dstart d)
    (hlen : x.len = dlen d) (hcat : x.cat = dcat d) (hin : inScore s cfg d ≤ x.inS) :
    Closed s cfg st d ∨ Open s cfg st d := by
  rcases hx with hx | hx
  · refine Or.inr ⟨x, hx, ?_⟩
    have hh := hxok.head_eq hu hd hst hlen
    rw [Item.prio, Pd, hxok.outS, hst, hlen, hh]
    omega
  · obtain ⟨c, hc, k1, k2, k3, k4⟩ := h.drop x hx hf
    exact Or.inl ⟨c, hc, by rw [k1, hst], by rw [k2, hlen], by rw [k3, hcat], Int.le_trans hin k4⟩

theorem leafItem_mem {s : Sent} {cfg : Cfg} {t : Nat} {p : Int × Nat} (ht : t < s.n)
    (hm : p ∈ admitted s cfg t) : leafItem s t p ∈ leafItems s cfg := by
  simp only [leafItems, List.mem_flatMap, List.mem_range, List.mem_map]
  exact ⟨t, ht, p, hm, rfl⟩

/-- every licensed derivation is closed (its key is in the chart with an inside score at least
    its own) or open (an agenda item has a priority at least its own) -/
theorem cover {g : Grammar} {s : Sent} {cfg : Cfg} {st : St} (hu : HeadUniform g) (hs : SentOK s)
    (hp : 0 ≤ cfg.penalty) (hok : StOK g s cfg st) (h : Hist g s cfg st) {d : Deriv}
    (hd : Licensed g s cfg d) : Closed s cfg st d ∨ Open s cfg st d := by
  induction hd with
  | leaf t c sc ht hm =>
    refine cover_of_pushed hu h (Licensed.leaf t c sc ht hm) (h.leaf _ (leafItem_mem ht hm)) rfl
      (leafItem_ok ht hm) rfl rfl rfl ?_
    rw [inScore_leaf]
    exact Int.le_of_eq (mem_admitted hm).2.symm
  | un c rid d' hd' hr hcond ih =>
    rcases ih with ⟨c', hc', k1, k2, k3, k4⟩ | ⟨a, ha, hle⟩
    · have hcond' : s.n = 1 ∨ c'.len ≠ s.n := by rw [k2]; exact hcond
      have hx := unaryItems_mem (g := g) (cfg := cfg) (it := c') (c := c) (rid := rid)
        (by rw [k3]; exact hr)
      have hxok := unaryItems_ok (hok.chart c' hc').2 (hok.chart c' hc').1 hcond' hx
      refine cover_of_pushed hu h (Licensed.un c rid d' hd' hr hcond) (h.un c' hc' hcond' _ hx)
        hxok.1 hxok.2 k1 k2 rfl ?_
      rw [inScore_un]
      show inScore s cfg d' - cfg.penalty ≤ c'.inS - cfg.penalty
      omega
    · exact Or.inr ⟨a, ha, Int.le_trans (Pd_un_le hp c rid d') hle⟩
  | bin c rid hl l r hl' hr' hadj hrule ihl ihr =>
    have hlic := Licensed.bin c rid hl l r hl' hr' hadj hrule
    have hcons := Pd_bin_le hs hp hlic
    rcases ihl with ⟨cl, hcl, l1, l2, l3, l4⟩ | ⟨a, ha, hle⟩
    · rcases ihr with ⟨cr, hcr, r1, r2, r3, r4⟩ | ⟨a, ha, hle⟩
      · have hadj' : cr.start = cl.stop := by
          simp only [dstop] at hadj
          rw [Item.stop, r1, l1, l2, hadj]
        have hx := binaryItems_mem (g := g) (s := s) (l := cl) (r := cr) (rule := ⟨c, hl⟩)
          (rid := rid) (by rw [l3, r3]; exact hrule)
        have hclok := (hok.chart cl hcl).2
        have hcrok := (hok.chart cr hcr).2
        have hxok := binaryItems_ok hclok hcrok hadj' hx
        refine cover_of_pushed hu h hlic (h.bin cl hcl cr hcr hadj' _ hx) hxok.1 hxok.2 l1
          (by show cl.len + cr.len = dlen l + dlen r; rw [l2, r2]) rfl ?_
        have hhl := hclok.head_eq hu hl' l1 l2
        have hhr := hcrok.head_eq hu hr' r1 r2
        rw [inScore_bin]
        show _ ≤ cl.inS + cr.inS +
          depAt s (if hl = true then cr.head else cl.head) ((if hl = true then cl.head else cr.head) + 1)
        rw [hhl, hhr]
        cases hl <;> simp only [Bool.false_eq_true, if_false, if_true] <;> omega
      · exact Or.inr ⟨a, ha, Int.le_trans hcons.2 hle⟩
    · exact Or.inr ⟨a, ha, Int.le_trans hcons.1 hle⟩

/-! ### the 1-best invariant -/

/-- while the goal is empty (and no final item was popped), every complete parse is dominated by
    an agenda item: by the witness of its openness, or by the final item of the chart item
    closing it -/
theorem root_bound {g : Grammar} {s : Sent} {cfg : Cfg} {st : St} (hu : HeadUniform g)
    (hs : SentOK s) (hp : 0 ≤ cfg.penalty) (hok : StOK g s cfg st) (h : Hist g s cfg st)
    (hnf : ∀ x ∈ st.popped, x.fin = false) {d : Deriv} (hd : LicensedRoot g s cfg d) :
    ∃ a ∈ st.agenda, modelScore s cfg d ≤ a.prio := by
  rcases cover hu hs hp hok h hd.1 with ⟨c, hc, k1, k2, k3, k4⟩ | ⟨a, ha, hle⟩
  · obtain ⟨hl, h0, hn, hroot⟩ := hd
    have hcok := (hok.chart c hc).2
    have hroot' : s.roots.elem c.cat = true := by rw [k3]; simpa using hroot
    rcases h.fin c hc (by rw [k2, hn]) hroot' with hm | hm
    · refine ⟨_, hm, ?_⟩
      have hh := hcok.head_eq hu hl k1 k2
      rw [modelScore_eq]
      simp only [Item.prio, finItem, hh]
      omega
    · exact absurd (hnf _ hm) (by simp [finItem])
  · exact ⟨a, ha, Int.le_trans (modelScore_le_Pd hs hd) hle⟩

/-- the invariant of the 1-best search: either nothing final has been popped yet and the history
    invariant holds, or the goal holds exactly one item, which dominates every complete parse -/
def Opt1 (g : Grammar) (s : Sent) (cfg : Cfg) (st : St) : Prop :=
  (st.goal = [] ∧ (∀ x ∈ st.popped, x.fin = false) ∧ Hist g s cfg st) ∨
  (∃ t, st.goal = [t] ∧ ∀ d, LicensedRoot g s cfg d → modelScore s cfg d ≤ t.prio)

theorem Opt1.init {pick : Pick} (hp : PickOK pick) (g : Grammar) (s : Sent) (cfg : Cfg) :
    Opt1 g s cfg (Search.init pick s cfg) :=
  Or.inl ⟨rfl, fun _ h => (by cases h), Hist.init hp g s cfg⟩

theorem Opt1.step {pick : Pick} {g : Grammar} {s : Sent} {cfg : Cfg} {st st' : St}
    (hp : PickOK pick) (hu : HeadUniform g) (hs : SentOK s) (hpen : 0 ≤ cfg.penalty)
    (hn : cfg.nbest = 1) (hok : StOK g s cfg st) (hprio : PrioOK st) (h : Opt1 g s cfg st)
    (hstep : stepWith pick g s cfg st = some st') : Opt1 g s cfg st' := by
  obtain ⟨hlen, it, rest, hpick, hcases⟩ := stepWith_cases hstep
  obtain ⟨hperm, hmax⟩ := hp.spec hpick
  rcases h with ⟨hg, hnf, hh⟩ | ⟨t, hg, _⟩
  · have hh' := hh.step hp hu hok hprio hstep
    have hnf' : it.fin = false → ∀ x ∈ it :: st.popped, x.fin = false := by
      intro hf x hx
      rcases List.mem_cons.1 hx with rfl | hx
      · exact hf
      · exact hnf x hx
    rcases hcases with ⟨_, hc, rfl⟩ | ⟨_, _, rfl⟩ | ⟨hf, _, rfl⟩ | ⟨hf, _, rfl⟩
    · rw [hg] at hc
      simp [inGoal] at hc
    · refine Or.inr ⟨it, by show it :: st.goal = [it]; rw [hg], ?_⟩
      intro d hd
      obtain ⟨a, ha, hle⟩ := root_bound hu hs hpen hok hh hnf hd
      exact Int.le_trans hle (hmax a ha)
    · exact Or.inl ⟨hg, hnf' hf, hh'⟩
    · exact Or.inl ⟨hg, hnf' hf, hh'⟩
  · rw [hg, hn] at hlen
    simp at hlen

/-- the three invariants hold in the final state of a 1-best run -/
theorem Opt1.final {pick : Pick} {g : Grammar} {s : Sent} {cfg : Cfg} (hp : PickOK pick)
    (hu : HeadUniform g) (hs : SentOK s) (hpen : 0 ≤ cfg.penalty) (hn : cfg.nbest = 1) :
    StOK g s cfg (loop pick g s cfg cfg.maxStep (Search.init pick s cfg)) ∧
    PrioOK (loop pick g s cfg cfg.maxStep (Search.init pick s cfg)) ∧
    Opt1 g s cfg (loop pick g s cfg cfg.maxStep (Search.init pick s cfg)) :=
  loop_inv (pick := pick) (g := g) (s := s) (cfg := cfg)
    (fun st => StOK g s cfg st ∧ PrioOK st ∧ Opt1 g s cfg st)
    (fun _ _ h hstep => ⟨h.1.step hp hstep, h.2.1.step hp hs hpen h.1 hstep,
      h.2.2.step hp hu hs hpen hn h.1 h.2.1 hstep⟩)
    cfg.maxStep (Search.init pick s cfg)
    ⟨StOK.init hp g s cfg, PrioOK.init pick s cfg, Opt1.init hp g s cfg⟩

theorem sortDesc_nil : sortDesc [] = [] := rfl

theorem sortDesc_singleton (t : Item) : sortDesc [t] = [t] := rfl

/-- a `pick` that returns nothing was given an empty agenda -/
theorem PickOK.eq_nil {pick : Pick} (hp : PickOK pick) {l : List Item} (h : pick.pop l = none) :
    l = [] := by
  cases l with
  | nil => rfl
  | cons x xs =>
    obtain ⟨it, rest, e, _⟩ := hp.2.1 (x :: xs) (by simp)
    rw [e] at h; cases h

end Depccg.SearchProps
