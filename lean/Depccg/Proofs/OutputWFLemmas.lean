/-
  Helper lemmas for `Depccg/Props/OutputWF.lean`: the leaves of a retrieved tree carry categories
  of the caller's list (a leaf's tag id is a column of the tag matrix, the table of the run extends
  the caller's list by prefix), the finaliser loop, the `sentenceL` wrapper, and the shipped
  grammars as `toE2E`.
-/
import Depccg.Props.OutputWFDefs
import Depccg.Props.Lazy
import Depccg.Props.LazySearch
import Depccg.Props.Closure
import Depccg.Props.C05

namespace Depccg.OutputWF
open Depccg Search SearchProps GlueTree GlueRun Lazy LazyProps GlueRunProps C05 TextProps Closure

/-! ### `AllCats` is monotone -/

theorem ow_allCats_mono {p q : Cat → Prop} (h : ∀ c, p c → q c) : ∀ t : Tree, AllCats p t → AllCats q t
  | .leaf c _ _ _ => fun ht => h c ht
  | .un c _ _ ch => fun ht => ⟨h c ht.1, ow_allCats_mono h ch ht.2⟩
  | .bin c _ _ _ l r => fun ht => ⟨h c ht.1, ow_allCats_mono h l ht.2.1, ow_allCats_mono h r ht.2.2⟩

/-! ### leaves of a retrieved tree -/

/-- every leaf category of a tree retrieved from a licensed derivation is the table's entry at a
    column of the tag matrix -/
theorem ow_retrieve_leaves {g : Grammar} {gF : GSt} {s : Sent} {cfg : Cfg} {tokens : List Token} {n : Nat}
    (htags : ∀ row ∈ s.tags, row.length ≤ n) {d : Deriv} (hl : Licensed g s cfg d) :
    ∀ t, retrieve (tablesOf gF) tokens d = .ok t → ∀ c ∈ Closure.leafCats t, ∃ i, i < n ∧ gF.cats[i]? = some c := by
  induction hl with
  | leaf tk cid sc ht hadm =>
    intro t hret c hc
    have h1 := (mem_admitted hadm).1
    have h2 := lz_getD_len htags tk
    simp only at h1
    simp only [retrieve] at hret
    split at hret
    · rename_i cat tok hcat htok
      cases hret
      simp only [Tree.mkTerminal, Closure.leafCats, List.mem_singleton] at hc
      subst hc
      exact ⟨cid, by omega, hcat⟩
    · cases hret
    · cases hret
  | un cid rid d _ _ _ ih =>
    intro t hret c hc
    simp only [retrieve] at hret
    split at hret
    · cases hret
    · rename_i child hch
      split at hret
      · cases hret
        simp only [Closure.leafCats] at hc
        exact ih child hch c hc
      · cases hret
      · cases hret
  | bin cid rid hd l r _ _ _ _ ihl ihr =>
    intro t hret c hc
    simp only [retrieve] at hret
    split at hret
    · cases hret
    · rename_i tl htl
      split at hret
      · cases hret
      · rename_i tr htr
        split at hret
        · cases hret
          simp only [Closure.leafCats, List.mem_append] at hc
          rcases hc with hc | hc
          · exact ihl tl htl c hc
          · exact ihr tr htr c hc
        · cases hret
        · cases hret

/-- an entry of a list below the length of a prefix is an entry of the prefix -/
theorem ow_prefix_mem {l m : List Cat} (h : l <+: m) {i : Nat} (hi : i < l.length) {c : Cat}
    (hc : m[i]? = some c) : c ∈ l := by
  obtain ⟨t, rfl⟩ := h
  rw [List.getElem?_append_left hi] at hc
  exact List.mem_of_getElem? hc

/-! ### the finaliser loop -/

theorem ow_treesOf_mem (gst : GSt) (tokens : List Token) :
    ∀ (rs : List Item) (ts : List (Tree × Int)), treesOf gst tokens rs = .ok ts →
      ∀ p ∈ ts, ∃ r ∈ rs, retrieve (tablesOf gst) tokens r.d = .ok p.1 := by
  intro rs
  induction rs with
  | nil =>
    intro ts h p hp
    simp only [treesOf] at h
    cases h
    cases hp
  | cons r rs ih =>
    intro ts h p hp
    simp only [treesOf] at h
    split at h
    · cases h
    · rename_i t ht
      split at h
      · cases h
      · rename_i ts' hts'
        cases h
        rcases List.mem_cons.1 hp with rfl | hp
        · exact ⟨r, List.mem_cons_self, ht⟩
        · obtain ⟨r', hr', h'⟩ := ih ts' hts' p hp
          exact ⟨r', List.mem_cons_of_mem _ hr', h'⟩

/-! ### the `sentenceL` wrapper -/

theorem ow_sentenceL_go_parsed {pick : Pick} {G : GlueRun.CatGrammar} {rootIds : List Nat} {cfg : Cfg}
    {gst : GSt} {x : SentIn} {trees : List (Tree × Int)}
    (h : (sentenceL.go pick G rootIds cfg gst x).1 = .ok (.parsed trees)) :
    treesOf (runLWith pick G gst (sentOf rootIds x) cfg).2 x.tokens
      (runLWith pick G gst (sentOf rootIds x) cfg).1.results = .ok trees := by
  simp only [sentenceL.go] at h
  split at h
  · cases h
  · split at h
    · cases h
    · rename_i ts hts
      simp only [Except.ok.injEq, SentResult.parsed.injEq] at h
      rw [← h]
      exact hts

theorem ow_sentenceL_parsed {pick : Pick} {G : GlueRun.CatGrammar} {rootIds : List Nat} {cfg : Cfg}
    {maxLength : Option Nat} {gst : GSt} {x : SentIn} {trees : List (Tree × Int)}
    (h : (sentenceL pick G rootIds cfg maxLength gst x).1 = .ok (.parsed trees)) :
    treesOf (runLWith pick G gst (sentOf rootIds x) cfg).2 x.tokens
      (runLWith pick G gst (sentOf rootIds x) cfg).1.results = .ok trees := by
  simp only [sentenceL] at h
  split at h
  · split at h
    · cases h
    · exact ow_sentenceL_go_parsed h
  · exact ow_sentenceL_go_parsed h

/-! ### the shipped grammars -/

theorem ow_toE2E_shipped (en : Bool) (seen : Option (List (Cat × Cat))) (table : List (Cat × List Cat)) :
    toE2E (shipped en seen table) =
      if en then EndToEnd.enGrammar seen table else EndToEnd.jaGrammar seen table := by
  cases en <;> rfl

theorem ow_shipped_closed (en : Bool) (seen : Option (List (Cat × Cat))) (table : List (Cat × List Cat))
    (ht : TableWF table) : GrammarClosed (toE2E (shipped en seen table)) := by
  rw [ow_toE2E_shipped]
  cases en
  · exact (shipped_closed seen table ht).2
  · exact (shipped_closed seen table ht).1

/-! ### every tree of a sentence: licensed, leaves among the caller's categories -/

theorem ow_sentence_trees {G : GlueRun.CatGrammar} {categories roots : List Cat} {calls : List Call}
    {cfg : Cfg} {maxLength : Option Nat} {x : SentIn} {trees : List (Tree × Int)}
    (hnd : categories.Nodup) (hlex : LexOK categories x)
    (h : (sentenceL pickHeap G (addRoots categories roots).2 cfg maxLength
        (calls.foldl (GlueRun.step G) (GlueRun.init categories roots)) x).1 = .ok (.parsed trees)) :
    ∀ ts ∈ trees, EndToEnd.TreeLicensed (toE2E G) ts.1 ∧ ∀ c ∈ Closure.leafCats ts.1, c ∈ categories := by
  intro ts hts
  have htr := ow_sentenceL_parsed h
  obtain ⟨r, hr, hret⟩ := ow_treesOf_mem _ _ _ _ htr ts hts
  obtain ⟨hinv0, hpre0⟩ := gr_run_inv' G calls _ (init_inv' G categories roots hnd)
  have hlic := lazy_trees_licensed pickHeap G _ (sentOf (addRoots categories roots).2 x) cfg x.tokens
    pickHeap_ok hinv0 rfl r hr ts.1 hret
  refine ⟨hlic.1, ?_⟩
  intro c hc
  obtain ⟨⟨hl, -⟩, -⟩ := lz_results_valid pickHeap_ok G
    (calls.foldl (GlueRun.step G) (GlueRun.init categories roots)) (sentOf (addRoots categories roots).2 x) cfg r hr
  obtain ⟨i, hi, hget⟩ := ow_retrieve_leaves (n := categories.length) (tokens := x.tokens)
    (s := sentOf (addRoots categories roots).2 x) hlex hl ts.1 hret c hc
  have hpre : categories <+: (runLWith pickHeap G (calls.foldl (GlueRun.step G) (GlueRun.init categories roots))
      (sentOf (addRoots categories roots).2 x) cfg).2.cats :=
    List.IsPrefix.trans (gr_addRoots_prefix roots categories)
      (List.IsPrefix.trans hpre0 (lazy_inv pickHeap G _ _ cfg hinv0).2)
  exact ow_prefix_mem hpre hi hget

end Depccg.OutputWF
