/-
  Lemmas for `Props/MainReadsBack.lean`: the readers on the printed text *with the newline `print`
  adds*, and the hypotheses on token keys for the tokens the program builds.
-/
import Depccg.Props.MainReadsBackDefs
import Depccg.Proofs.C07JsonLemmas
import Depccg.Proofs.C15TextLemmas

namespace Depccg.CliProps
open Depccg Str Search GlueRun Lazy Print Cli LazyProps Xml Read

/-! ### json: the trailing newline -/

theorem mrb_parseJson_nl (v : JVal) (ind : Nat) (h : C07Json.ScalarVal v) :
    parseJson (v.render ind ++ [10]) = some v := by
  have := C07Json.js_parse_val v ind [10] ((v.render ind ++ [10]).length + 1) h
    (show jsonDigit 10 = false by decide) (Nat.lt_succ_self _)
  unfold parseJson
  rw [this]
  rfl

theorem mrb_json_decode_nl (nbest : List (List (Tree × Option Int))) (h : C07Json.BatchOK nbest) :
    readJsonOutput (jsonText nbest ++ [10]) = some (C07Json.expected 1 nbest) := by
  have hp := mrb_parseJson_nl (jsonValue nbest) 0 (C07Json.scalar_jsonValue nbest h)
  unfold readJsonOutput jsonText
  rw [hp]
  exact C07Json.js_readSentences nbest 1 h

/-! ### xml: the trailing newline -/

theorem mrb_parseXml_nl (e : Elem) (ind : Nat) (he : C15Text.ElemOK e) :
    parseXml (e.render ind ++ [10]) = some e := by
  have h := C15Text.xt_parse_elem e ind [10, 10] ((e.render ind ++ [10]).length + 1) he
    (by rw [C15Text.xt_render_eq]; simp only [List.length_append, List.length_cons, List.length_nil]; omega)
  obtain ⟨d, r, hd, _⟩ := C15Text.xt_core_head he ind [10, 10]
  have e1 : e.render ind ++ [10] = indent ind ++ (C15Text.core ind e ++ [10, 10]) := by
    rw [C15Text.xt_render_eq]
    simp only [List.append_assoc, List.cons_append, List.nil_append]
  unfold parseXml
  rw [show xmlSkipWs (e.render ind ++ [10]) = C15Text.core ind e ++ [10, 10] by
    rw [e1, C15Text.xt_skipWs_indent, hd, C15Text.xt_skipWs_cons _ (by decide)], h]
  rfl

theorem mrb_xml_decode_nl (batch : List (List Tree)) (text : Str)
    (hk : ∀ ts ∈ batch, ∀ t ∈ ts, C15Text.TreeKeysOK t)
    (h : xmlText batch = .ok text) : readXmlText (text ++ [10]) = some (xmlOf batch) := by
  have e := C15Text.xt_docText_ok h
  subst e
  unfold readXmlText
  rw [mrb_parseXml_nl _ 0 (C15Text.xt_elemOK_xmlDoc batch hk)]
  simp only [xmlDoc, if_true]
  exact C15Text.xt_ccgs_back _

theorem mrb_jigg_decode_nl (u : Bool) (batch : List (List (Tree × Option Int))) (ss : List JSentence) (text : Str)
    (hk : ∀ ts ∈ batch, ∀ p ∈ ts, C15Text.TreeKeysOK p.1)
    (hj : jiggOf u (batch.map fun ts => ts.map fun p => p.1) = .ok ss) (h : jiggText u batch = .ok text) :
    readJiggText (text ++ [10]) = some (withScoresAll ss (batch.map fun ts => ts.map fun p => p.2)) := by
  unfold jiggText at h
  rw [hj] at h
  have e := C15Text.xt_docText_ok h
  subst e
  have hk' : ∀ ts ∈ batch.map (fun ts => ts.map fun p => p.1), ∀ t ∈ ts, C15Text.TreeKeysOK t := by
    intro ts hts t ht
    obtain ⟨ps, hps, rfl⟩ := List.mem_map.1 hts
    obtain ⟨p, hp, rfl⟩ := List.mem_map.1 ht
    exact hk ps hps p hp
  have hok := C15Text.xt_withScoresAll_ok ss (batch.map fun ts => ts.map fun p => p.2)
    (C15Text.xt_jiggOfAux_ok u _ 0 ss hj hk')
  unfold readJiggText
  rw [mrb_parseXml_nl _ 0 (C15Text.xt_elemOK_jiggDoc _ hok)]
  simp only [jiggDoc, and_self, if_true]
  exact C15Text.xt_jsentences_back _

/-! ### `scored` and `scoredK` have the same trees -/

theorem mrb_scored_trees (r : SentResult) :
    (scored r).map (fun (p : Tree × Str) => p.1) = (scoredK r).map fun (p : Tree × Option Int) => p.1 := by
  cases r with
  | failed => rfl
  | parsed ts => simp only [scored, scoredK, List.map_map]; rfl

theorem mrb_treesOnly (results : List SentResult) :
    ((results.map scoredK).map fun ts => ts.map fun (p : Tree × Option Int) => p.1) = treesOnly results := by
  unfold treesOnly
  rw [List.map_map]
  exact List.map_congr_left fun r _ => (mrb_scored_trees r).symm

theorem mrb_scores (results : List SentResult) :
    ((results.map scoredK).map fun ts => ts.map fun (p : Tree × Option Int) => p.2) =
      results.map fun r => (scoredK r).map fun p => p.2 := by
  rw [List.map_map]; rfl

theorem mrb_keys_trees {results : List SentResult}
    (hk : ∀ r ∈ results, ∀ p ∈ scoredK r, C15Text.TreeKeysOK p.1) :
    ∀ ts ∈ treesOnly results, ∀ t ∈ ts, C15Text.TreeKeysOK t := by
  intro ts hts t ht
  rw [← mrb_treesOnly] at hts
  simp only [List.map_map, List.mem_map, Function.comp] at hts
  obtain ⟨r, hr, rfl⟩ := hts
  obtain ⟨p, hp, rfl⟩ := List.mem_map.1 ht
  exact hk r hr p hp

theorem mrb_keys_batch {results : List SentResult}
    (hk : ∀ r ∈ results, ∀ p ∈ scoredK r, C15Text.TreeKeysOK p.1) :
    ∀ ts ∈ results.map scoredK, ∀ p ∈ ts, C15Text.TreeKeysOK p.1 := by
  intro ts hts p hp
  obtain ⟨r, hr, rfl⟩ := List.mem_map.1 hts
  exact hk r hr p hp

theorem mrb_addNewline {r : Except Err Str} {text : Str} (h : addNewline r = .ok text) :
    ∃ t, r = .ok t ∧ text = t ++ [10] := by
  cases r with
  | error e => cases h
  | ok s => cases h; exact ⟨s, rfl, rfl⟩

/-- jigg, for a program flag -/
theorem mrb_jigg (u : Bool) (results : List SentResult) (text : Str)
    (hk : ∀ r ∈ results, ∀ p ∈ scoredK r, C15Text.TreeKeysOK p.1)
    (h : addNewline (jiggText u (results.map scoredK)) = .ok text) :
    ∃ ss, jiggOf u (treesOnly results) = .ok ss ∧
      readJiggText text = some (withScoresAll ss (results.map fun r => (scoredK r).map fun p => p.2)) := by
  obtain ⟨t, ht, rfl⟩ := mrb_addNewline h
  cases hj : jiggOf u ((results.map scoredK).map fun ts => ts.map fun p => p.1) with
  | error e =>
    unfold jiggText at ht
    rw [hj] at ht
    cases ht
  | ok ss =>
    have := mrb_jigg_decode_nl u _ ss t (mrb_keys_batch hk) hj ht
    rw [mrb_treesOnly] at hj
    rw [mrb_scores] at this
    exact ⟨ss, hj, this⟩

/-! ### the keys of the program's tokens -/

theorem mrb_name_word : C15Text.NameOK (lit "word") := by decide
theorem mrb_name_lemma : C15Text.NameOK (lit "lemma") := by decide
theorem mrb_name_pos : C15Text.NameOK (lit "pos") := by decide
theorem mrb_name_entity : C15Text.NameOK (lit "entity") := by decide
theorem mrb_name_chunk : C15Text.NameOK (lit "chunk") := by decide

theorem mrb_tok5 (w l p e c : Str) :
    C15Text.TokKeysOK [(lit "word", w), (lit "lemma", l), (lit "pos", p), (lit "entity", e), (lit "chunk", c)] := by
  intro kv hkv
  simp only [List.mem_cons, List.not_mem_nil, or_false] at hkv
  rcases hkv with rfl | rfl | rfl | rfl | rfl
  · exact mrb_name_word
  · exact mrb_name_lemma
  · exact mrb_name_pos
  · exact mrb_name_entity
  · exact mrb_name_chunk

theorem mrb_ofWord (w : Str) : C15Text.TokKeysOK (Token.ofWord w) := mrb_tok5 w _ _ _ _

theorem mrb_ofPiped {s : Str} {tok : Token} (h : ofPiped s = .ok tok) : C15Text.TokKeysOK tok := by
  unfold ofPiped at h
  split at h
  · cases h; exact mrb_tok5 _ _ _ _ _
  · cases h; exact mrb_tok5 _ _ _ _ _
  · cases h; exact mrb_tok5 _ _ _ _ _
  · cases h

theorem mrb_mapExcept {α β : Type} (f : α → Except Err β) (P : β → Prop)
    (hf : ∀ a b, f a = .ok b → P b) : ∀ (l : List α) (out : List β), mapExcept f l = .ok out → ∀ b ∈ out, P b
  | [], out, h, b, hb => by
    simp only [mapExcept] at h
    cases h
    cases hb
  | a :: l, out, h, b, hb => by
    simp only [mapExcept] at h
    cases hfa : f a with
    | error e => rw [hfa] at h; cases h
    | ok y =>
      rw [hfa] at h
      cases hl : mapExcept f l with
      | error e => rw [hl] at h; cases h
      | ok ys =>
        rw [hl] at h
        cases h
        rcases List.mem_cons.1 hb with rfl | hb'
        · exact hf a _ hfa
        · exact mrb_mapExcept f P hf l ys hl b hb'

theorem mrb_tokensOfLine (piped : Bool) (line : Str) (toks : List Token)
    (h : tokensOfLine piped line = .ok toks) : ∀ tok ∈ toks, C15Text.TokKeysOK tok := by
  unfold tokensOfLine at h
  refine mrb_mapExcept _ C15Text.TokKeysOK ?_ _ _ h
  intro w tok hw
  cases piped with
  | true => exact mrb_ofPiped (by simpa using hw)
  | false =>
    simp only [Bool.false_eq_true, if_false] at hw
    cases hw
    exact mrb_ofWord w

theorem mrb_placeholder : C15Text.TreeKeysOK placeholder := by
  unfold placeholder Tree.mkTerminal
  simp only [C15Text.TreeKeysOK]
  intro kv hkv
  simp only [List.mem_cons, List.not_mem_nil, or_false] at hkv
  subst hkv
  exact mrb_name_word

end Depccg.CliProps
