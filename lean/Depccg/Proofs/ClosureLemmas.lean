/-
  Helper lemmas for the closure ("type preservation") theorems: rule results on well-formed
  categories are well-formed.  Core Lean only.
-/
import Depccg.Props.ClosureDefs
import Depccg.Proofs.C03Lemmas
import Depccg.Proofs.C04Lemmas
import Depccg.Proofs.C17Lemmas

namespace Depccg.Closure
open Depccg Cat Str Unify C05 C06

/-! ### structure of `WF` -/

theorem cl_wf_fn {l r : Cat} {s : Nat} :
    WF (.fn l s r) ↔ WF l ∧ Cat.isSlashCode s = true ∧ WF r := Iff.rfl

theorem cl_wf_mk_fn {l r : Cat} {s : Nat} (hl : WF l) (hs : Cat.isSlashCode s = true) (hr : WF r) :
    WF (.fn l s r) := ⟨hl, hs, hr⟩

theorem cl_wf_fwd {l r : Cat} (hl : WF l) (hr : WF r) : WF (.fn l cSlash r) := ⟨hl, by decide, hr⟩

theorem cl_wf_bwd {l r : Cat} (hl : WF l) (hr : WF r) : WF (.fn l cBSlash r) := ⟨hl, by decide, hr⟩

/-- erasing the feature of an atom is fine on every atom, punctuation or not -/
theorem cl_wf_atom_none {b : Str} {f : Feat} (h : WF (.atom b f)) : WF (.atom b (.un none)) :=
  ⟨h.1, trivial, fun _ => rfl⟩

/-- `clear_features` (as the function `erase`, C14) preserves well-formedness -/
theorem cl_wf_erase (p : Feat → Bool) {c : Cat} (h : WF c) : WF (C14.erase p c) := by
  induction c with
  | atom b f =>
    simp only [C14.erase]
    split
    · exact cl_wf_atom_none h
    · exact h
  | fn l s r ihl ihr => exact ⟨ihl h.1, h.2.1, ihr h.2.2⟩

/-- `clear_features(*args)` with any argument list preserves well-formedness -/
theorem cl_wf_clear (args : List Str) {c c' : Cat} (h : WF c) (hc : Cat.clear args c = .ok c') :
    WF c' := by
  induction c generalizing c' with
  | atom b f =>
    simp only [Cat.clear] at hc
    split at hc
    · cases hc; exact cl_wf_atom_none h
    · cases hc; exact h
    · cases hc
  | fn l s r ihl ihr =>
    simp only [Cat.clear] at hc
    split at hc
    · cases hc
    · rename_i l' hl
      split at hc
      · cases hc
      · rename_i r' hr
        cases hc
        exact ⟨ihl h.1 hl, h.2.1, ihr h.2.2 hr⟩

/-- the features of a well-formed category are well-formed -/
theorem cl_feats_wf {t : Cat} (ht : WF t) : ∀ f ∈ feats t, WFFeat f := by
  induction t with
  | atom b g =>
    intro f hf
    simp only [feats, List.mem_singleton] at hf
    subst hf
    exact ht.2.1
  | fn l s r ihl ihr =>
    intro f hf
    simp only [feats, List.mem_append] at hf
    rcases hf with hf | hf
    · exact ihl ht.1 f hf
    · exact ihr ht.2.2 f hf

/-- the sub-categories the pattern variables stand for are well-formed -/
theorem cl_wf_matched {p t : Cat} {v : Str} {c : Cat} (h : (v, c) ∈ matched p t) (ht : WF t) :
    WF c := by
  induction p generalizing t with
  | atom w g =>
    simp only [matched, List.mem_singleton, Prod.mk.injEq] at h
    rw [h.2]; exact ht
  | fn pl ps pr ihl ihr =>
    cases t with
    | atom b g => simp [matched] at h
    | fn tl ts tr =>
      simp only [matched, List.mem_append] at h
      rcases h with h | h
      · exact ihl h ht.1
      · exact ihr h ht.2.2

/-! ### substitution of variable features -/

/-- a variable feature is a feature: never the absent one -/
theorem cl_var_ne_none {f : Feat} (h : f.isVariable = true) : f ≠ .un none := by
  rintro rfl
  revert h
  decide

/-- replacing variable features by well-formed features keeps a category well-formed: a variable
    feature sits on an atom that has a feature, hence not on a punctuation atom -/
theorem cl_wf_instance {pool : List Feat} (hp : ∀ f ∈ pool, WFFeat f) {b c : Cat}
    (h : InstanceOf pool b c) (hc : WF c) : WF b := by
  induction b generalizing c with
  | atom n f =>
    cases c with
    | atom n' f' =>
      obtain ⟨rfl, h2⟩ := h
      rcases h2 with rfl | ⟨hv, hf⟩
      · exact hc
      · exact ⟨hc.1, hp f hf, fun hb => absurd (hc.2.2 hb) (cl_var_ne_none hv)⟩
    | fn l' s' r' => exact h.elim
  | fn l s r ihl ihr =>
    cases c with
    | atom n' f' => exact h.elim
    | fn l' s' r' =>
      obtain ⟨h1, rfl, h3⟩ := h
      exact ⟨ihl h1 hc.1, hc.2.1, ihr h3 hc.2.2⟩

/-- every binding of a successful match of well-formed categories is well-formed (any patterns) -/
theorem cl_wf_binding {px py x y : Cat} {σ : Bindings} (hx : WF x) (hy : WF y)
    (h : unify px py x y = .ok (some σ)) {k : Str} {b : Cat} (hg : σ.get k = .ok b) : WF b := by
  obtain ⟨cats1, xf, cats2, yf, m, h1, h2, ha, rfl⟩ := unify_some_iff.1 h
  obtain ⟨_, rfl, rfl⟩ := scan_ok h1
  obtain ⟨_, rfl, rfl⟩ := scan_ok h2
  have hm : MapOK (feats x ++ feats y) m :=
    agree_mapOK (fun k f hf => List.mem_append_left _ (writes_values hf))
      (fun k f hf => List.mem_append_right _ (writes_values hf)) (MapOK.nil _) ha
  have hpool : ∀ f ∈ feats x ++ feats y, WFFeat f := by
    intro f hf
    rcases List.mem_append.1 hf with hf | hf
    · exact cl_feats_wf hx f hf
    · exact cl_feats_wf hy f hf
  simp only [Bindings.get] at hg
  cases hc : Dict.get? (setAll (setAll ([] : Dict Str Cat) (matched px x)) (matched py y)) k with
  | none => rw [hc] at hg; cases hg
  | some c =>
    rw [hc] at hg
    cases hg
    have hwc : WF c := by
      rcases get?_setAll_sub _ _ hc with h' | h'
      · exact cl_wf_matched h' hy
      · rcases get?_setAll_sub _ _ h' with h'' | h''
        · exact cl_wf_matched h'' hx
        · simp [Dict.get?] at h''
    exact cl_wf_instance hpool (instanceOf_subst hm c) hwc

/-! ### the English combinators -/

/-- `y.functor(l, r)`: the slash is the slash of the well-formed functor `y` -/
theorem cl_wf_functorOf {y l r c : Cat} (hy : WF y) (hl : WF l) (hr : WF r)
    (h : En.functorOf y l r = .ok c) : WF c := by
  cases y with
  | atom b f => cases h
  | fn yl s yr =>
    simp only [En.functorOf, Except.ok.injEq] at h
    subst h
    exact ⟨hl, hy.2.1, hr⟩

theorem cl_wf_leftOf {x l : Cat} (hx : WF x) (h : Ja.leftOf x = .ok l) : WF l := by
  cases x with
  | atom b f => cases h
  | fn xl s xr =>
    simp only [Ja.leftOf, Except.ok.injEq] at h
    subst h
    exact hx.1

theorem cl_wf_sNP_bwd : WF (.fn En.sNP cBSlash En.sNP) := C17.wfB_sound_aux _ (by decide)
theorem cl_wf_sNP_fwd : WF (.fn En.sNP cSlash En.sNP) := C17.wfB_sound_aux _ (by decide)

section En
set_option linter.unusedSectionVars false
variable {x y : Cat} {r : RuleRes} (hx : WF x) (hy : WF y)
include hx hy

theorem cl_en_fa (h : En.forwardApplication x y = .ok (some r)) : WF r.cat := by
  unfold En.forwardApplication at h
  split at h
  · cases h
  · cases h
  · rename_i σ hu
    split at h
    · rw [C03.mk_inv h]; exact hy
    · split at h
      · rename_i a ha
        rw [C03.mk_inv h]; exact cl_wf_binding hx hy hu ha
      · cases h

theorem cl_en_ba (h : En.backwardApplication x y = .ok (some r)) : WF r.cat := by
  unfold En.backwardApplication at h
  split at h
  · rw [C03.mk_inv h]; exact hx
  · split at h
    · cases h
    · cases h
    · rename_i σ hu
      split at h
      · rw [C03.mk_inv h]; exact hx
      · split at h
        · rename_i a ha
          rw [C03.mk_inv h]; exact cl_wf_binding hx hy hu ha
        · cases h

theorem cl_en_fc (h : En.forwardComposition x y = .ok (some r)) : WF r.cat := by
  unfold En.forwardComposition at h
  split at h
  · cases h
  · cases h
  · rename_i σ hu
    split at h
    · rw [C03.mk_inv h]; exact hy
    · split at h
      · rename_i a c ha hc
        rw [C03.mk_inv h]
        exact cl_wf_fwd (cl_wf_binding hx hy hu ha) (cl_wf_binding hx hy hu hc)
      · cases h
      · cases h

theorem cl_en_bx (h : En.backwardComposition x y = .ok (some r)) : WF r.cat := by
  unfold En.backwardComposition at h
  split at h
  · cases h
  · cases h
  · rename_i σ hu
    split at h
    · cases h
    · split at h
      · cases h
      · split at h
        · rw [C03.mk_inv h]; exact hx
        · split at h
          · rename_i a c ha hc
            rw [C03.mk_inv h]
            exact cl_wf_fwd (cl_wf_binding hx hy hu ha) (cl_wf_binding hx hy hu hc)
          · cases h
          · cases h

theorem cl_en_gfc (h : En.generalizedForwardComposition x y = .ok (some r)) : WF r.cat := by
  unfold En.generalizedForwardComposition at h
  split at h
  · cases h
  · cases h
  · rename_i σ hu
    split at h
    · rw [C03.mk_inv h]; exact hy
    · split at h
      · rename_i a c d ha hc hd
        split at h
        · rename_i q hq
          rw [C03.mk_inv h]
          exact cl_wf_functorOf hy
            (cl_wf_fwd (cl_wf_binding hx hy hu ha) (cl_wf_binding hx hy hu hc))
            (cl_wf_binding hx hy hu hd) hq
        · cases h
      · cases h
      · cases h
      · cases h

theorem cl_en_gbx (h : En.generalizedBackwardComposition x y = .ok (some r)) : WF r.cat := by
  unfold En.generalizedBackwardComposition at h
  split at h
  · cases h
  · cases h
  · rename_i σ hu
    split at h
    · cases h
    · split at h
      · cases h
      · split at h
        · rw [C03.mk_inv h]; exact hx
        · split at h
          · rename_i a c d ha hc hd
            split at h
            · rename_i q hq
              rw [C03.mk_inv h]
              exact cl_wf_functorOf hx
                (cl_wf_fwd (cl_wf_binding hx hy hu ha) (cl_wf_binding hx hy hu hc))
                (cl_wf_binding hx hy hu hd) hq
            · cases h
          · cases h
          · cases h
          · cases h

theorem cl_en_conj (h : En.conjunction x y = .ok (some r)) : WF r.cat := by
  unfold En.conjunction at h
  split at h
  · cases h
  · split at h
    · rw [C03.mk_inv h]; exact cl_wf_bwd hy hy
    · cases h

theorem cl_en_conj2 (h : En.conjunction2 x y = .ok (some r)) : WF r.cat := by
  unfold En.conjunction2 at h
  split at h
  · rw [C03.mk_inv h]; exact hy
  · cases h

theorem cl_en_rp1 (h : En.removePunctuation1 x y = .ok (some r)) : WF r.cat := by
  unfold En.removePunctuation1 at h
  split at h
  · cases h
  · rw [C03.mk_inv h]; exact hy
  · cases h

theorem cl_en_rp2 (h : En.removePunctuation2 x y = .ok (some r)) : WF r.cat := by
  unfold En.removePunctuation2 at h
  split at h
  · cases h
  · rw [C03.mk_inv h]; exact hx
  · cases h

theorem cl_en_rpl (h : En.removePunctuationLeft x y = .ok (some r)) : WF r.cat := by
  unfold En.removePunctuationLeft at h
  split at h
  · rw [C03.mk_inv h]; exact cl_wf_bwd hy hy
  · cases h

theorem cl_en_comma (h : En.commaVpToAdv x y = .ok (some r)) : WF r.cat := by
  unfold En.commaVpToAdv at h
  split at h
  · rw [C03.mk_inv h]; exact cl_wf_sNP_bwd
  · cases h

theorem cl_en_pds (h : En.parentheticalDirectSpeech x y = .ok (some r)) : WF r.cat := by
  unfold En.parentheticalDirectSpeech at h
  split at h
  · rw [C03.mk_inv h]; exact cl_wf_sNP_fwd
  · cases h

/-- every English combinator returns a well-formed category on well-formed inputs -/
theorem cl_en_comb {c : En.Comb} (hc : c ∈ En.combinators) (h : c x y = .ok (some r)) :
    WF r.cat := by
  rcases C03.mem_combinators hc with
    rfl | rfl | rfl | rfl | rfl | rfl | rfl | rfl | rfl | rfl | rfl | rfl | rfl
  · exact cl_en_fa hx hy h
  · exact cl_en_ba hx hy h
  · exact cl_en_fc hx hy h
  · exact cl_en_bx hx hy h
  · exact cl_en_gfc hx hy h
  · exact cl_en_gbx hx hy h
  · exact cl_en_conj hx hy h
  · exact cl_en_conj2 hx hy h
  · exact cl_en_rp1 hx hy h
  · exact cl_en_rp2 hx hy h
  · exact cl_en_rpl hx hy h
  · exact cl_en_comma hx hy h
  · exact cl_en_pds hx hy h

end En

/-- the English binary rule function: the seen gate and the rule list only select among
    combinator results on the inputs with `nb` erased -/
theorem cl_en_applyBinary {seen : Option (List (Cat × Cat))} {x y : Cat} {rs : List RuleRes}
    (hx : WF x) (hy : WF y) (h : En.applyBinary seen x y = .ok rs) : ∀ r ∈ rs, WF r.cat := by
  intro r hr
  obtain ⟨c, hc, hcr⟩ := C03.applyBinary_mem (C14.clear_nb_eq x) (C14.clear_nb_eq y) h hr
  exact cl_en_comb (cl_wf_erase _ hx) (cl_wf_erase _ hy) hc hcr

/-- the English unary rule function returns targets of the table -/
theorem cl_en_applyUnary {table : List (Cat × List Cat)} {x : Cat} {r : RuleRes}
    (hr : r ∈ En.applyUnary table x) : ∃ p ∈ table, r.cat ∈ p.2 := by
  unfold En.applyUnary at hr
  split at hr
  · cases hr
  · rename_i a targets hf
    obtain ⟨t, ht, rfl⟩ := List.mem_map.1 hr
    exact ⟨_, List.mem_of_find?_eq_some hf, ht⟩

/-! ### the Japanese combinators -/

theorem cl_get2 {σ : Bindings} {k1 k2 : Nat} {f : Cat → Cat → Except Err Cat} {c : Cat}
    (hb : ∀ k b, σ.get k = .ok b → WF b)
    (hf : ∀ a c' q, WF a → WF c' → f a c' = .ok q → WF q)
    (h : Ja.get2 σ k1 k2 f = .ok c) : WF c := by
  unfold Ja.get2 at h
  split at h
  · cases h
  · rename_i a ha
    split at h
    · cases h
    · rename_i c' hc
      exact hf a c' c (hb _ _ ha) (hb _ _ hc) h

theorem cl_get3 {σ : Bindings} {k1 k2 k3 : Nat} {f : Cat → Cat → Cat → Except Err Cat} {c : Cat}
    (hb : ∀ k b, σ.get k = .ok b → WF b)
    (hf : ∀ a c' d q, WF a → WF c' → WF d → f a c' d = .ok q → WF q)
    (h : Ja.get3 σ k1 k2 k3 f = .ok c) : WF c := by
  unfold Ja.get3 at h
  refine cl_get2 hb ?_ h
  intro a c' q ha hc hq
  split at hq
  · cases hq
  · rename_i d hd
    exact hf a c' d q ha hc (hb _ _ hd) hq

section Ja
set_option linter.unusedSectionVars false
variable {x y : Cat} {r : RuleRes} (hx : WF x) (hy : WF y)
include hx hy

theorem cl_ja_fa (h : Ja.forwardApplication x y = .ok (some r)) : WF r.cat := by
  obtain ⟨σ, hu, ⟨_, rfl⟩ | ⟨_, c, hc, rfl⟩⟩ := C04.viaUnify_inv h
  · exact hy
  · exact cl_wf_binding hx hy hu hc

theorem cl_ja_ba (h : Ja.backwardApplication x y = .ok (some r)) : WF r.cat := by
  obtain ⟨σ, hu, ⟨_, rfl⟩ | ⟨_, c, hc, rfl⟩⟩ := C04.viaUnify_inv h
  · exact hx
  · exact cl_wf_binding hx hy hu hc

theorem cl_ja_fc (h : Ja.forwardComposition x y = .ok (some r)) : WF r.cat := by
  obtain ⟨σ, hu, ⟨_, rfl⟩ | ⟨_, c, hc, rfl⟩⟩ := C04.viaUnify_inv h
  · exact hy
  · refine cl_get2 (fun k b => cl_wf_binding hx hy hu) ?_ hc
    intro a c' q ha hc' hq
    cases hq
    exact cl_wf_fwd ha hc'

theorem cl_ja_gbc1 (h : Ja.generalizedBackwardComposition1 x y = .ok (some r)) : WF r.cat := by
  obtain ⟨σ, hu, ⟨_, rfl⟩ | ⟨_, c, hc, rfl⟩⟩ := C04.viaUnify_inv h
  · exact hx
  · refine cl_get2 (fun k b => cl_wf_binding hx hy hu) ?_ hc
    intro a c' q ha hc' hq
    cases hq
    exact cl_wf_bwd ha hc'

theorem cl_ja_gbc2 (h : Ja.generalizedBackwardComposition2 x y = .ok (some r)) : WF r.cat := by
  obtain ⟨σ, hu, ⟨_, rfl⟩ | ⟨_, c, hc, rfl⟩⟩ := C04.viaUnify_inv h
  · exact hx
  · refine cl_get3 (fun k b => cl_wf_binding hx hy hu) ?_ hc
    intro a c' d q ha hc' hd hq
    exact cl_wf_functorOf hx (cl_wf_bwd ha hc') hd hq

theorem cl_ja_gbc3 (h : Ja.generalizedBackwardComposition3 x y = .ok (some r)) : WF r.cat := by
  obtain ⟨σ, hu, ⟨_, rfl⟩ | ⟨_, c, hc, rfl⟩⟩ := C04.viaUnify_inv h
  · exact hx
  · refine cl_get3 (fun k b => cl_wf_binding hx hy hu) ?_ hc
    intro a c' d q ha hc' hd hq
    split at hq
    · cases hq
    · rename_i xl hxl
      split at hq
      · cases hq
      · rename_i inner hin
        split at hq
        · cases hq
        · rename_i e he
          exact cl_wf_functorOf hx
            (cl_wf_functorOf (cl_wf_leftOf hx hxl) (cl_wf_bwd ha hc') hd hin)
            (cl_wf_binding hx hy hu he) hq

theorem cl_ja_gbc4 (h : Ja.generalizedBackwardComposition4 x y = .ok (some r)) : WF r.cat := by
  obtain ⟨σ, hu, ⟨_, rfl⟩ | ⟨_, c, hc, rfl⟩⟩ := C04.viaUnify_inv h
  · exact hx
  · refine cl_get3 (fun k b => cl_wf_binding hx hy hu) ?_ hc
    intro a c' d q ha hc' hd hq
    split at hq
    · cases hq
    · rename_i xl hxl
      split at hq
      · cases hq
      · rename_i xll hxll
        split at hq
        · cases hq
        · rename_i i1 hi1
          split at hq
          · cases hq
          · rename_i e he
            split at hq
            · cases hq
            · rename_i i2 hi2
              split at hq
              · cases hq
              · rename_i f hf
                have wxl := cl_wf_leftOf hx hxl
                have wxll := cl_wf_leftOf wxl hxll
                have w1 := cl_wf_functorOf wxll (cl_wf_bwd ha hc') hd hi1
                have w2 := cl_wf_functorOf wxl w1 (cl_wf_binding hx hy hu he) hi2
                exact cl_wf_functorOf hx w2 (cl_wf_binding hx hy hu hf) hq

theorem cl_ja_gfc1 (h : Ja.generalizedForwardComposition1 x y = .ok (some r)) : WF r.cat := by
  obtain ⟨σ, hu, ⟨_, rfl⟩ | ⟨_, c, hc, rfl⟩⟩ := C04.viaUnify_inv h
  · exact hy
  · refine cl_get2 (fun k b => cl_wf_binding hx hy hu) ?_ hc
    intro a c' q ha hc' hq
    cases hq
    exact cl_wf_bwd ha hc'

theorem cl_ja_gfc2 (h : Ja.generalizedForwardComposition2 x y = .ok (some r)) : WF r.cat := by
  obtain ⟨σ, hu, ⟨_, rfl⟩ | ⟨_, c, hc, rfl⟩⟩ := C04.viaUnify_inv h
  · exact hy
  · refine cl_get3 (fun k b => cl_wf_binding hx hy hu) ?_ hc
    intro a c' d q ha hc' hd hq
    exact cl_wf_functorOf hy (cl_wf_bwd ha hc') hd hq

theorem cl_ja_gfc3 (h : Ja.generalizedForwardComposition3 x y = .ok (some r)) : WF r.cat := by
  obtain ⟨σ, hu, ⟨_, rfl⟩ | ⟨_, c, hc, rfl⟩⟩ := C04.viaUnify_inv h
  · exact hy
  · refine cl_get3 (fun k b => cl_wf_binding hx hy hu) ?_ hc
    intro a c' d q ha hc' hd hq
    split at hq
    · cases hq
    · rename_i yl hyl
      split at hq
      · cases hq
      · rename_i inner hin
        split at hq
        · cases hq
        · rename_i e he
          exact cl_wf_functorOf hy
            (cl_wf_functorOf (cl_wf_leftOf hy hyl) (cl_wf_bwd ha hc') hd hin)
            (cl_wf_binding hx hy hu he) hq

theorem cl_ja_conjoin (h : Ja.conjoin x y = .ok (some r)) : WF r.cat := by
  simp only [Ja.conjoin] at h
  split at h
  · simp only [Ja.mk] at h
    cases h
    exact hy
  · cases h

/-- every Japanese combinator returns a well-formed category on well-formed inputs -/
theorem cl_ja_comb {c : Ja.Comb} (hc : c ∈ Ja.combinators) (h : c x y = .ok (some r)) :
    WF r.cat := by
  simp only [Ja.combinators, List.mem_cons, List.not_mem_nil, or_false] at hc
  rcases hc with rfl | rfl | rfl | rfl | rfl | rfl | rfl | rfl | rfl | rfl | rfl
  · exact cl_ja_fa hx hy h
  · exact cl_ja_ba hx hy h
  · exact cl_ja_fc hx hy h
  · exact cl_ja_gbc1 hx hy h
  · exact cl_ja_gbc2 hx hy h
  · exact cl_ja_gbc3 hx hy h
  · exact cl_ja_gbc4 hx hy h
  · exact cl_ja_gfc1 hx hy h
  · exact cl_ja_gfc2 hx hy h
  · exact cl_ja_gfc3 hx hy h
  · exact cl_ja_conjoin hx hy h

end Ja

theorem cl_ja_applyBinary {seen : Option (List (Cat × Cat))} {x y : Cat} {rs : List RuleRes}
    (hx : WF x) (hy : WF y) (h : Ja.applyBinary seen x y = .ok rs) : ∀ r ∈ rs, WF r.cat := by
  intro r hr
  obtain ⟨c, hc, hcr⟩ := C04.applyBinary_mem h hr
  exact cl_ja_comb hx hy hc hcr

/-- the Japanese unary rule function returns targets of the table -/
theorem cl_ja_applyUnary {table : List (Cat × List Cat)} {x : Cat} {rs : List RuleRes}
    (h : Ja.applyUnary table x = .ok rs) {r : RuleRes} (hr : r ∈ rs) :
    ∃ p ∈ table, r.cat ∈ p.2 := by
  simp only [Ja.applyUnary] at h
  cases hf : table.find? fun p => Cat.pyEq p.1 x with
  | none => rw [hf] at h; cases h; cases hr
  | some p =>
    rw [hf] at h
    obtain ⟨a, targets⟩ := p
    cases targets with
    | nil => cases h; cases hr
    | cons t ts =>
      simp only at h
      cases hs : Ja.unaryRuleSymbol x with
      | error e => rw [hs] at h; cases h
      | ok sym =>
        rw [hs] at h
        cases h
        obtain ⟨c, hcm, rfl⟩ := List.mem_map.1 hr
        exact ⟨_, List.mem_of_find?_eq_some hf, hcm⟩

/-! ### trees -/

theorem cl_allCats_root {p : Cat → Prop} {t : Tree} (h : TextProps.AllCats p t) : p t.cat := by
  cases t with
  | leaf c tok s y => exact h
  | un c s y ch => exact h.1
  | bin c s y hl l r => exact h.1

theorem cl_licensed_wf {G : EndToEnd.CatGrammar} (hG : GrammarClosed G) {t : Tree}
    (ht : EndToEnd.TreeLicensed G t) (hl : ∀ c ∈ leafCats t, WF c) : TextProps.AllCats WF t := by
  induction ht with
  | leaf c tok => exact hl c (by simp [Tree.mkTerminal, leafCats])
  | un c opS opY ch r _ hr hc _ _ ih =>
    have hch := ih hl
    refine ⟨?_, hch⟩
    rw [← hc]
    exact hG.2 _ (cl_allCats_root hch) r hr
  | bin c opS opY hd l r res _ _ hres hc _ _ _ ihl ihr =>
    have hL := ihl (fun c hc => hl c (by simp only [leafCats, List.mem_append]; exact Or.inl hc))
    have hR := ihr (fun c hc => hl c (by simp only [leafCats, List.mem_append]; exact Or.inr hc))
    refine ⟨?_, hL, hR⟩
    rw [← hc]
    exact hG.1 _ _ (cl_allCats_root hL) (cl_allCats_root hR) res hres

end Depccg.Closure
