/-
  Lemmas for Props/Config.lean: `read_params` (Config.lean) hands out the configured unary
  targets, seen-rule gate, dictionary and roots.
-/
import Depccg.Props.ConfigDefs
import Depccg.Props.C13
import Depccg.Props.C14

namespace Depccg.ConfigProps
open Depccg Str Config

-- for evaluating `readParams` on concrete configurations
deriving instance DecidableEq for Config.Loaded

/-! ### `Cat.pyEq` is equality (C13), as a `Bool` -/

theorem cf_pyEq_decide (a b : Cat) : Cat.pyEq a b = decide (a = b) := by
  by_cases h : a = b
  · rw [decide_eq_true h]; exact (C13.pyEq_iff a b).2 h
  · rw [decide_eq_false h]
    cases hp : Cat.pyEq a b with
    | false => rfl
    | true => exact absurd ((C13.pyEq_iff a b).1 hp) h

/-! ### `mapExcept` -/

theorem cf_mapExcept_cons_ok {α β : Type} (f : α → Except Err β) (x : α) (xs : List α) (zs : List β)
    (h : Cli.mapExcept f (x :: xs) = .ok zs) :
    ∃ y ys, f x = .ok y ∧ Cli.mapExcept f xs = .ok ys ∧ zs = y :: ys := by
  simp only [Cli.mapExcept] at h
  cases hx : f x with
  | error e => rw [hx] at h; cases h
  | ok y =>
    rw [hx] at h
    cases hxs : Cli.mapExcept f xs with
    | error e => rw [hxs] at h; cases h
    | ok ys =>
      rw [hxs] at h
      cases h
      exact ⟨y, ys, rfl, rfl, rfl⟩

theorem cf_mapExcept_total {α β : Type} (f : α → Except Err β) :
    ∀ (l : List α), (∀ x ∈ l, ∃ y, f x = .ok y) → ∃ ys, Cli.mapExcept f l = .ok ys
  | [], _ => ⟨_, rfl⟩
  | x :: xs, h => by
    obtain ⟨y, hy⟩ := h x List.mem_cons_self
    obtain ⟨ys, hys⟩ := cf_mapExcept_total f xs fun z hz => h z (List.mem_cons_of_mem _ hz)
    simp only [Cli.mapExcept, hy, hys]
    exact ⟨_, rfl⟩

theorem cf_mapExcept_nil_of_ne {α β : Type} (f : α → Except Err β) (l : List α) (ys : List β)
    (h : Cli.mapExcept f l = .ok ys) (hl : l ≠ []) : ys ≠ [] := by
  cases l with
  | nil => exact absurd rfl hl
  | cons x xs =>
    obtain ⟨y, ys', -, -, rfl⟩ := cf_mapExcept_cons_ok f x xs ys h
    exact List.cons_ne_nil _ _

/-! ### the unary table -/

theorem cf_lookup_cons (k : Cat) (vs : List Cat) (rest : List (Cat × List Cat)) (x : Cat) :
    C14.lookup ((k, vs) :: rest) x = if k = x then some vs else C14.lookup rest x := by
  simp only [C14.lookup, List.find?_cons, cf_pyEq_decide]
  by_cases h : k = x
  · simp [h]
  · simp [h]

theorem cf_lookup_appendKey (tbl : List (Cat × List Cat)) (k v x : Cat) :
    C14.lookup (appendKey tbl k v) x =
      if k = x then some ((C14.lookup tbl x).getD [] ++ [v]) else C14.lookup tbl x := by
  induction tbl with
  | nil =>
    simp only [appendKey, cf_lookup_cons]
    by_cases h : k = x
    · simp [h, C14.lookup]
    · simp [h]
  | cons p rest ih =>
    obtain ⟨k', vs⟩ := p
    simp only [appendKey, cf_pyEq_decide]
    by_cases hk : k' = k
    · subst hk
      simp only [decide_true, if_true, cf_lookup_cons]
      by_cases h : k' = x
      · simp [h]
      · simp [h]
    · simp only [hk, decide_false, Bool.false_eq_true, if_false, cf_lookup_cons, ih]
      by_cases h' : k' = x
      · have hkx : k ≠ x := fun e => hk (h'.trans e.symm)
        simp [h', hkx]
      · simp [h']

theorem cf_targetsOf_nil (x : Cat) : targetsOf [] x = [] := rfl

theorem cf_targetsOf_cons (a b : Cat) (ps : List (Cat × Cat)) (x : Cat) :
    targetsOf ((a, b) :: ps) x = if a = x then b :: targetsOf ps x else targetsOf ps x := by
  simp only [targetsOf, List.filter_cons, cf_pyEq_decide]
  by_cases h : a = x
  · simp [h]
  · simp [h]

theorem cf_parsePair_ok (q : Str × Str) (a b : Cat) (ha : Cat.parse q.1 = .ok a)
    (hb : Cat.parse q.2 = .ok b) : parsePair q = .ok (a, b) := by
  simp only [parsePair, ha, hb]

/-- the loop, from any table: the result's entry for `x` is the old entry followed by the targets
    of the lines read -/
theorem cf_unaryTable_lookup : ∀ (pairs : List (Str × Str)) (tbl tbl' : List (Cat × List Cat)),
    unaryTable tbl pairs = .ok tbl' →
    ∃ ps, Cli.mapExcept parsePair pairs = .ok ps ∧
      ∀ x, (C14.lookup tbl' x).getD [] = (C14.lookup tbl x).getD [] ++ targetsOf ps x
  | [], tbl, tbl', h => by
    simp only [unaryTable, Except.ok.injEq] at h
    subst h
    exact ⟨[], rfl, fun x => by simp [cf_targetsOf_nil]⟩
  | (ks, vs) :: rest, tbl, tbl', h => by
    simp only [unaryTable] at h
    cases hk : Cat.parse ks with
    | error e => rw [hk] at h; cases h
    | ok k =>
      rw [hk] at h
      cases hv : Cat.parse vs with
      | error e => rw [hv] at h; cases h
      | ok v =>
        rw [hv] at h
        obtain ⟨ps, hps, hl⟩ := cf_unaryTable_lookup rest (appendKey tbl k v) tbl' h
        refine ⟨(k, v) :: ps, ?_, ?_⟩
        · simp only [Cli.mapExcept, cf_parsePair_ok (ks, vs) k v hk hv, hps]
        · intro x
          rw [hl x, cf_lookup_appendKey, cf_targetsOf_cons]
          by_cases hx : k = x
          · simp [hx]
          · simp [hx]

theorem cf_unaryTable_total : ∀ (pairs : List (Str × Str)) (tbl : List (Cat × List Cat)) (ps : List (Cat × Cat)),
    Cli.mapExcept parsePair pairs = .ok ps → ∃ tbl', unaryTable tbl pairs = .ok tbl'
  | [], tbl, _, _ => ⟨tbl, rfl⟩
  | (ks, vs) :: rest, tbl, ps, h => by
    obtain ⟨y, ys, hy, hys, -⟩ := cf_mapExcept_cons_ok parsePair (ks, vs) rest ps h
    simp only [parsePair] at hy
    cases hk : Cat.parse ks with
    | error e => rw [hk] at hy; cases hy
    | ok k =>
      rw [hk] at hy
      cases hv : Cat.parse vs with
      | error e => rw [hv] at hy; cases hy
      | ok v =>
        simp only [unaryTable, hk, hv]
        exact cf_unaryTable_total rest _ ys hys

/-! ### `readParams`, taken apart -/

theorem cf_readParams_inv (p : Params) (dd ds : Bool) (L : Loaded) (h : readParams p dd ds = .ok L) :
    unaryTable [] p.unaryRules = .ok L.table ∧
    (if dd then .ok none else (Cli.mapExcept dictEntry p.catDict).map some) = .ok L.catDict ∧
    (if ds then .ok none else seenSet p.seenRules) = .ok L.seen ∧
    Cli.mapExcept Cat.parse p.targets = .ok L.roots := by
  simp only [readParams] at h
  cases h1 : unaryTable [] p.unaryRules with
  | error e => rw [h1] at h; cases h
  | ok table =>
    rw [h1] at h
    cases h2 : (if dd then (Except.ok none : Except Err (Option (List (Str × List Cat))))
        else (Cli.mapExcept dictEntry p.catDict).map some) with
    | error e => rw [h2] at h; cases h
    | ok dict =>
      rw [h2] at h
      cases h3 : (if ds then (Except.ok none : Except Err (Option (List (Cat × Cat))))
          else seenSet p.seenRules) with
      | error e => rw [h3] at h; cases h
      | ok seen =>
        rw [h3] at h
        cases h4 : Cli.mapExcept Cat.parse p.targets with
        | error e => rw [h4] at h; cases h
        | ok roots =>
          rw [h4] at h
          cases h
          exact ⟨rfl, rfl, rfl, rfl⟩

theorem cf_seenSet_of_ok (pairs : List (Str × Str)) (S : List (Cat × Cat))
    (h : Cli.mapExcept seenPair pairs = .ok S) :
    seenSet pairs = .ok (if S = [] then none else some S) := by
  simp only [seenSet, h]
  cases S with
  | nil => rfl
  | cons a as => simp

theorem cf_readParams_table_lookup (p : Params) (dd ds : Bool) (L : Loaded) (ps : List (Cat × Cat))
    (h : readParams p dd ds = .ok L) (hps : Cli.mapExcept parsePair p.unaryRules = .ok ps) (x : Cat) :
    (C14.lookup L.table x).getD [] = targetsOf ps x := by
  obtain ⟨ht, -, -, -⟩ := cf_readParams_inv p dd ds L h
  obtain ⟨ps', hps', hl⟩ := cf_unaryTable_lookup _ _ _ ht
  rw [hps] at hps'
  cases hps'
  rw [hl x]
  simp [C14.lookup]

theorem cf_readParams_seen (p : Params) (dd : Bool) (L : Loaded) (S : List (Cat × Cat))
    (h : readParams p dd false = .ok L) (hS : Cli.mapExcept seenPair p.seenRules = .ok S)
    (hne : p.seenRules ≠ []) : L.seen = some S := by
  obtain ⟨-, -, hs, -⟩ := cf_readParams_inv p dd false L h
  simp only [Bool.false_eq_true, if_false] at hs
  rw [cf_seenSet_of_ok _ _ hS, if_neg (cf_mapExcept_nil_of_ne _ _ _ hS hne)] at hs
  exact (Except.ok.inj hs).symm

theorem cf_seenPair_total (q : Str × Str) (a b : Cat) (ha : Cat.parse q.1 = .ok a)
    (hb : Cat.parse q.2 = .ok b) : ∃ r, seenPair q = .ok r := by
  have h1 := C14.clear_nbX_eq a
  have h2 := C14.clear_nbX_eq b
  simp only [C14.nbX] at h1 h2
  simp only [seenPair, ha, hb, Config.nbX, h1, h2]
  exact ⟨_, rfl⟩

theorem cf_seenSet_total (pairs : List (Str × Str))
    (h : ∀ q ∈ pairs, (∃ c, Cat.parse q.1 = .ok c) ∧ (∃ c, Cat.parse q.2 = .ok c)) :
    ∃ r, seenSet pairs = .ok r := by
  obtain ⟨S, hS⟩ := cf_mapExcept_total seenPair pairs fun q hq => by
    obtain ⟨⟨a, ha⟩, ⟨b, hb⟩⟩ := h q hq
    exact cf_seenPair_total q a b ha hb
  exact ⟨_, cf_seenSet_of_ok _ _ hS⟩

theorem cf_dictEntry_total (q : Str × List Str) (h : ∀ s ∈ q.2, ∃ c, Cat.parse s = .ok c) :
    ∃ r, dictEntry q = .ok r := by
  obtain ⟨cs, hcs⟩ := cf_mapExcept_total Cat.parse q.2 h
  simp only [dictEntry, hcs]
  exact ⟨_, rfl⟩

end Depccg.ConfigProps
