/-
  Helper lemmas for `Depccg/Props/MainTotalXml.lean`: XML text (`Xml.xmlStrOk`) is closed under
  the two shipped grammars and under `Category.parse`, the element trees `xmlOf` / `jiggOf` build
  over trees of a run hold XML text only, hence `--format xml` / `--format jigg_xml` print.

  The rule-by-rule analysis of `Proofs/SystemLemmas.lean` is redone for a predicate `CatS Q F S`
  that also asks `S` of every slash (`Cat.str` prints the slash, which is a code point of the
  value, so XML text has to know about it).
-/
import Depccg.Props.MainTotalXmlDefs
import Depccg.Proofs.MainTotalLemmas
import Depccg.Proofs.SystemLemmas
import Depccg.Proofs.C15Lemmas

namespace Depccg.CliProps
open Depccg Cat Str Unify C06 C14 GlueRun Xml

/-- `Q` of every atom name, `F` of every feature, `S` of every slash -/
def CatS (Q : Str → Prop) (F : Feat → Prop) (S : Nat → Prop) : Cat → Prop
  | .atom b f => Q b ∧ F f
  | .fn l s r => CatS Q F S l ∧ S s ∧ CatS Q F S r

section Generic
variable {Q : Str → Prop} {F : Feat → Prop} {S : Nat → Prop}

theorem xs_mk_fn {l r : Cat} {s : Nat} (hs : S s) (hl : CatS Q F S l) (hr : CatS Q F S r) :
    CatS Q F S (.fn l s r) :=
  ⟨hl, hs, hr⟩

/-- `clear_features` (as the function `erase`, C14) stays inside a system that has the absent
    feature -/
theorem xs_erase (hn : F (.un none)) (p : Feat → Bool) {c : Cat} (h : CatS Q F S c) :
    CatS Q F S (C14.erase p c) := by
  induction c with
  | atom b f =>
    simp only [C14.erase]
    split
    · exact ⟨h.1, hn⟩
    · exact h
  | fn l s r ihl ihr => exact ⟨ihl h.1, h.2.1, ihr h.2.2⟩

theorem xs_feats {t : Cat} (ht : CatS Q F S t) : ∀ f ∈ feats t, F f := by
  induction t with
  | atom b g =>
    intro f hf
    simp only [feats, List.mem_singleton] at hf
    subst hf
    exact ht.2
  | fn l s r ihl ihr =>
    intro f hf
    simp only [feats, List.mem_append] at hf
    rcases hf with hf | hf
    · exact ihl ht.1 f hf
    · exact ihr ht.2.2 f hf

theorem xs_matched {p t : Cat} {v : Str} {c : Cat} (h : (v, c) ∈ matched p t) (ht : CatS Q F S t) :
    CatS Q F S c := by
  induction p generalizing t with
  | atom w g =>
    simp only [matched, List.mem_singleton, Prod.mk.injEq] at h
    rw [h.2]; exact ht
  | fn pl ps pr ihl ihr =>
    cases t with
    | atom b g => simp [matched] at h
    | fn tl ts tr =>
      simp only [matched, List.mem_append] at h
      rcases h with h | h
      · exact ihl h ht.1
      · exact ihr h ht.2.2

theorem xs_instance {pool : List Feat} (hp : ∀ f ∈ pool, F f) {b c : Cat}
    (h : InstanceOf pool b c) (hc : CatS Q F S c) : CatS Q F S b := by
  induction b generalizing c with
  | atom n f =>
    cases c with
    | atom n' f' =>
      obtain ⟨rfl, h2⟩ := h
      rcases h2 with rfl | ⟨_, hf⟩
      · exact hc
      · exact ⟨hc.1, hp f hf⟩
    | fn l' s' r' => exact h.elim
  | fn l s r ihl ihr =>
    cases c with
    | atom n' f' => exact h.elim
    | fn l' s' r' =>
      obtain ⟨h1, rfl, h3⟩ := h
      exact ⟨ihl h1 hc.1, hc.2.1, ihr h3 hc.2.2⟩

/-- every binding of a successful match of categories of the system is in the system -/
theorem xs_binding {px py x y : Cat} {σ : Bindings} (hx : CatS Q F S x) (hy : CatS Q F S y)
    (h : unify px py x y = .ok (some σ)) {k : Str} {b : Cat} (hg : σ.get k = .ok b) :
    CatS Q F S b := by
  obtain ⟨cats1, xf, cats2, yf, m, h1, h2, ha, rfl⟩ := unify_some_iff.1 h
  obtain ⟨_, rfl, rfl⟩ := scan_ok h1
  obtain ⟨_, rfl, rfl⟩ := scan_ok h2
  have hm : MapOK (feats x ++ feats y) m :=
    agree_mapOK (fun k f hf => List.mem_append_left _ (writes_values hf))
      (fun k f hf => List.mem_append_right _ (writes_values hf)) (MapOK.nil _) ha
  have hpool : ∀ f ∈ feats x ++ feats y, F f := by
    intro f hf
    rcases List.mem_append.1 hf with hf | hf
    · exact xs_feats hx f hf
    · exact xs_feats hy f hf
  simp only [Bindings.get] at hg
  cases hc : Dict.get? (setAll (setAll ([] : Dict Str Cat) (matched px x)) (matched py y)) k with
  | none => rw [hc] at hg; cases hg
  | some c =>
    rw [hc] at hg
    cases hg
    have hwc : CatS Q F S c := by
      rcases get?_setAll_sub _ _ hc with h' | h'
      · exact xs_matched h' hy
      · rcases get?_setAll_sub _ _ h' with h'' | h''
        · exact xs_matched h'' hx
        · simp [Dict.get?] at h''
    exact xs_instance hpool (instanceOf_subst hm c) hwc

theorem xs_functorOf {y l r c : Cat} (hy : CatS Q F S y) (hl : CatS Q F S l) (hr : CatS Q F S r)
    (h : En.functorOf y l r = .ok c) : CatS Q F S c := by
  cases y with
  | atom b f => cases h
  | fn yl s yr =>
    simp only [En.functorOf, Except.ok.injEq] at h
    subst h
    exact ⟨hl, hy.2.1, hr⟩

/-! ### the English combinators -/

section En
set_option linter.unusedSectionVars false
variable {x y : Cat} {r : RuleRes} (hS1 : S cSlash) (hS2 : S cBSlash) (hx : CatS Q F S x) (hy : CatS Q F S y)
  (hsb : CatS Q F S (.fn En.sNP cBSlash En.sNP)) (hsf : CatS Q F S (.fn En.sNP cSlash En.sNP))
include hS1 hS2 hx hy

theorem xs_en_fa (h : En.forwardApplication x y = .ok (some r)) : CatS Q F S r.cat := by
  unfold En.forwardApplication at h
  split at h
  · cases h
  · cases h
  · rename_i σ hu
    split at h
    · rw [C03.mk_inv h]; exact hy
    · split at h
      · rename_i a ha
        rw [C03.mk_inv h]; exact xs_binding hx hy hu ha
      · cases h

theorem xs_en_ba (h : En.backwardApplication x y = .ok (some r)) : CatS Q F S r.cat := by
  unfold En.backwardApplication at h
  split at h
  · rw [C03.mk_inv h]; exact hx
  · split at h
    · cases h
    · cases h
    · rename_i σ hu
      split at h
      · rw [C03.mk_inv h]; exact hx
      · split at h
        · rename_i a ha
          rw [C03.mk_inv h]; exact xs_binding hx hy hu ha
        · cases h

theorem xs_en_fc (h : En.forwardComposition x y = .ok (some r)) : CatS Q F S r.cat := by
  unfold En.forwardComposition at h
  split at h
  · cases h
  · cases h
  · rename_i σ hu
    split at h
    · rw [C03.mk_inv h]; exact hy
    · split at h
      · rename_i a c ha hc
        rw [C03.mk_inv h]
        exact xs_mk_fn (by assumption) (xs_binding hx hy hu ha) (xs_binding hx hy hu hc)
      · cases h
      · cases h

theorem xs_en_bx (h : En.backwardComposition x y = .ok (some r)) : CatS Q F S r.cat := by
  unfold En.backwardComposition at h
  split at h
  · cases h
  · cases h
  · rename_i σ hu
    split at h
    · cases h
    · split at h
      · cases h
      · split at h
        · rw [C03.mk_inv h]; exact hx
        · split at h
          · rename_i a c ha hc
            rw [C03.mk_inv h]
            exact xs_mk_fn (by assumption) (xs_binding hx hy hu ha) (xs_binding hx hy hu hc)
          · cases h
          · cases h

theorem xs_en_gfc (h : En.generalizedForwardComposition x y = .ok (some r)) : CatS Q F S r.cat := by
  unfold En.generalizedForwardComposition at h
  split at h
  · cases h
  · cases h
  · rename_i σ hu
    split at h
    · rw [C03.mk_inv h]; exact hy
    · split at h
      · rename_i a c d ha hc hd
        split at h
        · rename_i q hq
          rw [C03.mk_inv h]
          exact xs_functorOf hy
            (xs_mk_fn (by assumption) (xs_binding hx hy hu ha) (xs_binding hx hy hu hc))
            (xs_binding hx hy hu hd) hq
        · cases h
      · cases h
      · cases h
      · cases h

theorem xs_en_gbx (h : En.generalizedBackwardComposition x y = .ok (some r)) : CatS Q F S r.cat := by
  unfold En.generalizedBackwardComposition at h
  split at h
  · cases h
  · cases h
  · rename_i σ hu
    split at h
    · cases h
    · split at h
      · cases h
      · split at h
        · rw [C03.mk_inv h]; exact hx
        · split at h
          · rename_i a c d ha hc hd
            split at h
            · rename_i q hq
              rw [C03.mk_inv h]
              exact xs_functorOf hx
                (xs_mk_fn (by assumption) (xs_binding hx hy hu ha) (xs_binding hx hy hu hc))
                (xs_binding hx hy hu hd) hq
            · cases h
          · cases h
          · cases h
          · cases h

theorem xs_en_conj (h : En.conjunction x y = .ok (some r)) : CatS Q F S r.cat := by
  unfold En.conjunction at h
  split at h
  · cases h
  · split at h
    · rw [C03.mk_inv h]; exact xs_mk_fn (by assumption) hy hy
    · cases h

theorem xs_en_conj2 (h : En.conjunction2 x y = .ok (some r)) : CatS Q F S r.cat := by
  unfold En.conjunction2 at h
  split at h
  · rw [C03.mk_inv h]; exact hy
  · cases h

theorem xs_en_rp1 (h : En.removePunctuation1 x y = .ok (some r)) : CatS Q F S r.cat := by
  unfold En.removePunctuation1 at h
  split at h
  · cases h
  · rw [C03.mk_inv h]; exact hy
  · cases h

theorem xs_en_rp2 (h : En.removePunctuation2 x y = .ok (some r)) : CatS Q F S r.cat := by
  unfold En.removePunctuation2 at h
  split at h
  · cases h
  · rw [C03.mk_inv h]; exact hx
  · cases h

theorem xs_en_rpl (h : En.removePunctuationLeft x y = .ok (some r)) : CatS Q F S r.cat := by
  unfold En.removePunctuationLeft at h
  split at h
  · rw [C03.mk_inv h]; exact xs_mk_fn (by assumption) hy hy
  · cases h

include hsb in
theorem xs_en_comma (h : En.commaVpToAdv x y = .ok (some r)) : CatS Q F S r.cat := by
  unfold En.commaVpToAdv at h
  split at h
  · rw [C03.mk_inv h]; exact hsb
  · cases h

include hsf in
theorem xs_en_pds (h : En.parentheticalDirectSpeech x y = .ok (some r)) : CatS Q F S r.cat := by
  unfold En.parentheticalDirectSpeech at h
  split at h
  · rw [C03.mk_inv h]; exact hsf
  · cases h

include hsb hsf in
/-- every English combinator stays inside the system -/
theorem xs_en_comb {c : En.Comb} (hc : c ∈ En.combinators) (h : c x y = .ok (some r)) :
    CatS Q F S r.cat := by
  rcases C03.mem_combinators hc with
    rfl | rfl | rfl | rfl | rfl | rfl | rfl | rfl | rfl | rfl | rfl | rfl | rfl
  · exact xs_en_fa hS1 hS2 hx hy h
  · exact xs_en_ba hS1 hS2 hx hy h
  · exact xs_en_fc hS1 hS2 hx hy h
  · exact xs_en_bx hS1 hS2 hx hy h
  · exact xs_en_gfc hS1 hS2 hx hy h
  · exact xs_en_gbx hS1 hS2 hx hy h
  · exact xs_en_conj hS1 hS2 hx hy h
  · exact xs_en_conj2 hS1 hS2 hx hy h
  · exact xs_en_rp1 hS1 hS2 hx hy h
  · exact xs_en_rp2 hS1 hS2 hx hy h
  · exact xs_en_rpl hS1 hS2 hx hy h
  · exact xs_en_comma hS1 hS2 hx hy hsb h
  · exact xs_en_pds hS1 hS2 hx hy hsf h

end En

/-! ### the Japanese combinators -/

theorem xs_leftOf {x l : Cat} (hx : CatS Q F S x) (h : Ja.leftOf x = .ok l) : CatS Q F S l := by
  cases x with
  | atom b f => cases h
  | fn xl s xr =>
    simp only [Ja.leftOf, Except.ok.injEq] at h
    subst h
    exact hx.1

theorem xs_get2 {σ : Bindings} {k1 k2 : Nat} {f : Cat → Cat → Except Err Cat} {c : Cat}
    (hb : ∀ k b, σ.get k = .ok b → CatS Q F S b)
    (hf : ∀ a c' q, CatS Q F S a → CatS Q F S c' → f a c' = .ok q → CatS Q F S q)
    (h : Ja.get2 σ k1 k2 f = .ok c) : CatS Q F S c := by
  unfold Ja.get2 at h
  split at h
  · cases h
  · rename_i a ha
    split at h
    · cases h
    · rename_i c' hc
      exact hf a c' c (hb _ _ ha) (hb _ _ hc) h

theorem xs_get3 {σ : Bindings} {k1 k2 k3 : Nat} {f : Cat → Cat → Cat → Except Err Cat} {c : Cat}
    (hb : ∀ k b, σ.get k = .ok b → CatS Q F S b)
    (hf : ∀ a c' d q, CatS Q F S a → CatS Q F S c' → CatS Q F S d → f a c' d = .ok q → CatS Q F S q)
    (h : Ja.get3 σ k1 k2 k3 f = .ok c) : CatS Q F S c := by
  unfold Ja.get3 at h
  refine xs_get2 hb ?_ h
  intro a c' q ha hc hq
  split at hq
  · cases hq
  · rename_i d hd
    exact hf a c' d q ha hc (hb _ _ hd) hq

section Ja
set_option linter.unusedSectionVars false
variable {x y : Cat} {r : RuleRes} (hS1 : S cSlash) (hS2 : S cBSlash) (hx : CatS Q F S x) (hy : CatS Q F S y)
include hS1 hS2 hx hy

theorem xs_ja_fa (h : Ja.forwardApplication x y = .ok (some r)) : CatS Q F S r.cat := by
  obtain ⟨σ, hu, ⟨_, rfl⟩ | ⟨_, c, hc, rfl⟩⟩ := C04.viaUnify_inv h
  · exact hy
  · exact xs_binding hx hy hu hc

theorem xs_ja_ba (h : Ja.backwardApplication x y = .ok (some r)) : CatS Q F S r.cat := by
  obtain ⟨σ, hu, ⟨_, rfl⟩ | ⟨_, c, hc, rfl⟩⟩ := C04.viaUnify_inv h
  · exact hx
  · exact xs_binding hx hy hu hc

theorem xs_ja_fc (h : Ja.forwardComposition x y = .ok (some r)) : CatS Q F S r.cat := by
  obtain ⟨σ, hu, ⟨_, rfl⟩ | ⟨_, c, hc, rfl⟩⟩ := C04.viaUnify_inv h
  · exact hy
  · refine xs_get2 (fun k b => xs_binding hx hy hu) ?_ hc
    intro a c' q ha hc' hq
    cases hq
    exact xs_mk_fn (by assumption) ha hc'

theorem xs_ja_gbc1 (h : Ja.generalizedBackwardComposition1 x y = .ok (some r)) : CatS Q F S r.cat := by
  obtain ⟨σ, hu, ⟨_, rfl⟩ | ⟨_, c, hc, rfl⟩⟩ := C04.viaUnify_inv h
  · exact hx
  · refine xs_get2 (fun k b => xs_binding hx hy hu) ?_ hc
    intro a c' q ha hc' hq
    cases hq
    exact xs_mk_fn (by assumption) ha hc'

theorem xs_ja_gbc2 (h : Ja.generalizedBackwardComposition2 x y = .ok (some r)) : CatS Q F S r.cat := by
  obtain ⟨σ, hu, ⟨_, rfl⟩ | ⟨_, c, hc, rfl⟩⟩ := C04.viaUnify_inv h
  · exact hx
  · refine xs_get3 (fun k b => xs_binding hx hy hu) ?_ hc
    intro a c' d q ha hc' hd hq
    exact xs_functorOf hx (xs_mk_fn (by assumption) ha hc') hd hq

theorem xs_ja_gbc3 (h : Ja.generalizedBackwardComposition3 x y = .ok (some r)) : CatS Q F S r.cat := by
  obtain ⟨σ, hu, ⟨_, rfl⟩ | ⟨_, c, hc, rfl⟩⟩ := C04.viaUnify_inv h
  · exact hx
  · refine xs_get3 (fun k b => xs_binding hx hy hu) ?_ hc
    intro a c' d q ha hc' hd hq
    split at hq
    · cases hq
    · rename_i xl hxl
      split at hq
      · cases hq
      · rename_i inner hin
        split at hq
        · cases hq
        · rename_i e he
          exact xs_functorOf hx (xs_functorOf (xs_leftOf hx hxl) (xs_mk_fn (by assumption) ha hc') hd hin)
            (xs_binding hx hy hu he) hq

theorem xs_ja_gbc4 (h : Ja.generalizedBackwardComposition4 x y = .ok (some r)) : CatS Q F S r.cat := by
  obtain ⟨σ, hu, ⟨_, rfl⟩ | ⟨_, c, hc, rfl⟩⟩ := C04.viaUnify_inv h
  · exact hx
  · refine xs_get3 (fun k b => xs_binding hx hy hu) ?_ hc
    intro a c' d q ha hc' hd hq
    split at hq
    · cases hq
    · rename_i xl hxl
      split at hq
      · cases hq
      · rename_i xll hxll
        split at hq
        · cases hq
        · rename_i i1 hi1
          split at hq
          · cases hq
          · rename_i e he
            split at hq
            · cases hq
            · rename_i i2 hi2
              split at hq
              · cases hq
              · rename_i f hf
                have w1 := xs_functorOf (xs_leftOf (xs_leftOf hx hxl) hxll) (xs_mk_fn (by assumption) ha hc') hd hi1
                have w2 := xs_functorOf (xs_leftOf hx hxl) w1 (xs_binding hx hy hu he) hi2
                exact xs_functorOf hx w2 (xs_binding hx hy hu hf) hq

theorem xs_ja_gfc1 (h : Ja.generalizedForwardComposition1 x y = .ok (some r)) : CatS Q F S r.cat := by
  obtain ⟨σ, hu, ⟨_, rfl⟩ | ⟨_, c, hc, rfl⟩⟩ := C04.viaUnify_inv h
  · exact hy
  · refine xs_get2 (fun k b => xs_binding hx hy hu) ?_ hc
    intro a c' q ha hc' hq
    cases hq
    exact xs_mk_fn (by assumption) ha hc'

theorem xs_ja_gfc2 (h : Ja.generalizedForwardComposition2 x y = .ok (some r)) : CatS Q F S r.cat := by
  obtain ⟨σ, hu, ⟨_, rfl⟩ | ⟨_, c, hc, rfl⟩⟩ := C04.viaUnify_inv h
  · exact hy
  · refine xs_get3 (fun k b => xs_binding hx hy hu) ?_ hc
    intro a c' d q ha hc' hd hq
    exact xs_functorOf hy (xs_mk_fn (by assumption) ha hc') hd hq

theorem xs_ja_gfc3 (h : Ja.generalizedForwardComposition3 x y = .ok (some r)) : CatS Q F S r.cat := by
  obtain ⟨σ, hu, ⟨_, rfl⟩ | ⟨_, c, hc, rfl⟩⟩ := C04.viaUnify_inv h
  · exact hy
  · refine xs_get3 (fun k b => xs_binding hx hy hu) ?_ hc
    intro a c' d q ha hc' hd hq
    split at hq
    · cases hq
    · rename_i yl hyl
      split at hq
      · cases hq
      · rename_i inner hin
        split at hq
        · cases hq
        · rename_i e he
          exact xs_functorOf hy (xs_functorOf (xs_leftOf hy hyl) (xs_mk_fn (by assumption) ha hc') hd hin)
            (xs_binding hx hy hu he) hq

theorem xs_ja_conjoin (h : Ja.conjoin x y = .ok (some r)) : CatS Q F S r.cat := by
  simp only [Ja.conjoin] at h
  split at h
  · simp only [Ja.mk] at h
    cases h
    exact hy
  · cases h

/-- every Japanese combinator stays inside the system -/
theorem xs_ja_comb {c : Ja.Comb} (hc : c ∈ Ja.combinators) (h : c x y = .ok (some r)) :
    CatS Q F S r.cat := by
  simp only [Ja.combinators, List.mem_cons, List.not_mem_nil, or_false] at hc
  rcases hc with rfl | rfl | rfl | rfl | rfl | rfl | rfl | rfl | rfl | rfl | rfl
  · exact xs_ja_fa hS1 hS2 hx hy h
  · exact xs_ja_ba hS1 hS2 hx hy h
  · exact xs_ja_fc hS1 hS2 hx hy h
  · exact xs_ja_gbc1 hS1 hS2 hx hy h
  · exact xs_ja_gbc2 hS1 hS2 hx hy h
  · exact xs_ja_gbc3 hS1 hS2 hx hy h
  · exact xs_ja_gbc4 hS1 hS2 hx hy h
  · exact xs_ja_gfc1 hS1 hS2 hx hy h
  · exact xs_ja_gfc2 hS1 hS2 hx hy h
  · exact xs_ja_gfc3 hS1 hS2 hx hy h
  · exact xs_ja_conjoin hS1 hS2 hx hy h

end Ja
end Generic

/-! ### XML text -/

theorem xm_ok_iff (s : Str) : xmlStrOk s = true ↔ ∀ c ∈ s, xmlCharOk c = true := by
  simp [xmlStrOk, List.all_eq_true]

theorem xm_ok_nil : xmlStrOk [] = true := rfl

theorem xm_ok_append (a b : Str) : xmlStrOk (a ++ b) = (xmlStrOk a && xmlStrOk b) := by
  simp [xmlStrOk, List.all_append]

theorem xm_ok_cons (c : Nat) (a : Str) : xmlStrOk (c :: a) = (xmlCharOk c && xmlStrOk a) := by
  simp [xmlStrOk, List.all_cons]

theorem xm_ok_app {a b : Str} (ha : xmlStrOk a = true) (hb : xmlStrOk b = true) : xmlStrOk (a ++ b) = true := by
  rw [xm_ok_append, ha, hb]; rfl

theorem xm_ok_cons' {c : Nat} {a : Str} (hc : xmlCharOk c = true) (ha : xmlStrOk a = true) :
    xmlStrOk (c :: a) = true := by
  rw [xm_ok_cons, hc, ha]; rfl

theorem xm_ok_of_sub {a b : Str} (h : ∀ c ∈ a, c ∈ b) (hb : xmlStrOk b = true) : xmlStrOk a = true := by
  rw [xm_ok_iff] at hb ⊢
  exact fun c hc => hb c (h c hc)

/-- printable ASCII is XML text -/
theorem xm_char_ascii {c : Nat} (h1 : 32 ≤ c) (h2 : c ≤ 126) : xmlCharOk c = true := by
  simp only [xmlCharOk, Bool.and_eq_true, Bool.or_eq_true, decide_eq_true_eq, Bool.not_eq_true',
    Bool.and_eq_false_iff, decide_eq_false_iff_not, bne_iff_ne, ne_eq, beq_iff_eq]
  omega

theorem xm_ok_ofNat (n : Nat) : xmlStrOk (Str.ofNat n) = true := by
  rw [xm_ok_iff]
  intro c hc
  have := C15.ofNat_digits n c hc
  exact xm_char_ascii (by omega) (by omega)

/-! ### categories of XML text -/

abbrev XQ (b : Str) : Prop := xmlStrOk b = true
abbrev XF (f : Feat) : Prop := xmlStrOk f.str = true
abbrev XS (s : Nat) : Prop := xmlCharOk s = true

/-- `XmlCat` part by part -/
abbrev XCat : Cat → Prop := CatS XQ XF XS

theorem xm_wrap_ok (c : Cat) :
    xmlStrOk (if c.isFunctor then cLPar :: c.str ++ [cRPar] else c.str) = xmlStrOk c.str := by
  split
  · simp only [xm_ok_cons, xm_ok_append]
    have h1 : xmlCharOk cLPar = true := by decide
    have h2 : xmlCharOk cRPar = true := by decide
    simp [h1, h2, xmlStrOk]
  · rfl

theorem xm_xmlCat_iff (c : Cat) : XmlCat c ↔ XCat c := by
  induction c with
  | atom b f =>
    simp only [XmlCat, Cat.str, CatS, XQ, XF]
    split
    · rename_i h
      have : f.str = [] := List.eq_nil_of_length_eq_zero (by simpa using h)
      rw [this]
      simp [xm_ok_nil]
    · have h1 : xmlCharOk cLBr = true := by decide
      have h2 : xmlCharOk cRBr = true := by decide
      simp [xm_ok_cons, xm_ok_append, h1, h2, xm_ok_nil]
  | fn l s r ihl ihr =>
    simp only [XmlCat] at ihl ihr ⊢
    show _ ↔ XCat l ∧ XS s ∧ XCat r
    rw [← ihl, ← ihr]
    simp only [XS, Cat.str, xm_ok_append, xm_ok_cons, xm_wrap_ok, Bool.and_eq_true]

/-! ### XML text is closed under the grammars -/

theorem xm_S1 : XS cSlash := by decide
theorem xm_S2 : XS cBSlash := by decide
theorem xm_none : XF (.un none) := rfl

theorem xm_sNP_bwd : XCat (.fn En.sNP cBSlash En.sNP) :=
  (xm_xmlCat_iff _).1 (show xmlStrOk _ = true by decide)

theorem xm_sNP_fwd : XCat (.fn En.sNP cSlash En.sNP) :=
  (xm_xmlCat_iff _).1 (show xmlStrOk _ = true by decide)

theorem xm_en_applyBinary {seen : Option (List (Cat × Cat))} {x y : Cat} {rs : List RuleRes}
    (hx : XCat x) (hy : XCat y) (h : En.applyBinary seen x y = .ok rs) : ∀ r ∈ rs, XCat r.cat := by
  intro r hr
  obtain ⟨c, hc, hcr⟩ := C03.applyBinary_mem (C14.clear_nb_eq x) (C14.clear_nb_eq y) h hr
  exact xs_en_comb xm_S1 xm_S2 (xs_erase xm_none _ hx) (xs_erase xm_none _ hy) xm_sNP_bwd xm_sNP_fwd hc hcr

theorem xm_ja_applyBinary {seen : Option (List (Cat × Cat))} {x y : Cat} {rs : List RuleRes}
    (hx : XCat x) (hy : XCat y) (h : Ja.applyBinary seen x y = .ok rs) : ∀ r ∈ rs, XCat r.cat := by
  intro r hr
  obtain ⟨c, hc, hcr⟩ := C04.applyBinary_mem h hr
  exact xs_ja_comb xm_S1 xm_S2 hx hy hc hcr

/-- the binary rule function of a shipped grammar returns XML text on XML text -/
theorem xm_shipped_bin (en : Bool) (seen : Option (List (Cat × Cat))) (table : List (Cat × List Cat))
    {x y : Cat} (hx : XmlCat x) (hy : XmlCat y) :
    ∀ r ∈ (OutputWF.shipped en seen table).bin x y, XmlCat r.cat := by
  intro r hr
  rw [xm_xmlCat_iff] at hx hy ⊢
  cases en with
  | true =>
    simp only [OutputWF.shipped, if_true, EndToEnd.enGrammar] at hr
    split at hr
    · rename_i rs h
      exact xm_en_applyBinary hx hy h r hr
    · cases hr
  | false =>
    simp only [OutputWF.shipped, Bool.false_eq_true, if_false, EndToEnd.jaGrammar] at hr
    split at hr
    · rename_i rs h
      exact xm_ja_applyBinary hx hy h r hr
    · cases hr

/-- the unary rule function of a shipped grammar returns targets of the table -/
theorem xm_shipped_un (en : Bool) (seen : Option (List (Cat × Cat))) (table : List (Cat × List Cat))
    (ht : ∀ p ∈ table, ∀ c ∈ p.2, XmlCat c) (x : Cat) :
    ∀ r ∈ (OutputWF.shipped en seen table).un x, XmlCat r.cat := by
  intro r hr
  cases en with
  | true =>
    simp only [OutputWF.shipped, if_true, EndToEnd.enGrammar] at hr
    obtain ⟨p, hp, hc⟩ := Closure.cl_en_applyUnary hr
    exact ht p hp _ hc
  | false =>
    simp only [OutputWF.shipped, Bool.false_eq_true, if_false, EndToEnd.jaGrammar] at hr
    split at hr
    · rename_i rs h
      obtain ⟨p, hp, hc⟩ := Closure.cl_ja_applyUnary h hr
      exact ht p hp _ hc
    · cases hr

theorem xm_shipped_closed : ShippedXmlClosedStatement := by
  intro en seen table ht
  exact ⟨fun x y hx hy => xm_shipped_bin en seen table hx hy, fun x _ => xm_shipped_un en seen table ht x⟩

/-! ### `Category.parse` keeps XML text -/

theorem xm_splitOnAux_mem (c : Nat) : ∀ (s acc : Str), ∀ p ∈ splitOnAux c acc s, ∀ x ∈ p, x ∈ acc ∨ x ∈ s
  | [], acc, p, hp, x, hx => by
    simp only [splitOnAux, List.mem_singleton] at hp
    subst hp
    exact Or.inl (List.mem_reverse.1 hx)
  | y :: ys, acc, p, hp, x, hx => by
    simp only [splitOnAux] at hp
    split at hp
    · rcases List.mem_cons.1 hp with rfl | hp
      · exact Or.inl (List.mem_reverse.1 hx)
      · rcases xm_splitOnAux_mem c ys [] p hp x hx with h | h
        · cases h
        · exact Or.inr (List.mem_cons_of_mem _ h)
    · rcases xm_splitOnAux_mem c ys (y :: acc) p hp x hx with h | h
      · rcases List.mem_cons.1 h with rfl | h
        · exact Or.inr List.mem_cons_self
        · exact Or.inl h
      · exact Or.inr (List.mem_cons_of_mem _ h)

/-- the fields of `s.split(c)` are made of characters of `s` -/
theorem xm_splitOn_ok {c : Nat} {s : Str} (hs : xmlStrOk s = true) : ∀ p ∈ splitOn c s, xmlStrOk p = true := by
  intro p hp
  refine xm_ok_of_sub (fun x hx => ?_) hs
  rcases xm_splitOnAux_mem c s [] p hp x hx with h | h
  · cases h
  · exact h

theorem xm_tokenizeAux_mem : ∀ (s acc : Str), ∀ t ∈ tokenizeAux acc s, ∀ x ∈ t, x ∈ acc ∨ x ∈ s
  | [], acc, t, ht, x, hx => by
    simp only [tokenizeAux] at ht
    split at ht
    · cases ht
    · simp only [List.mem_singleton] at ht
      subst ht
      exact Or.inl (List.mem_reverse.1 hx)
  | y :: ys, acc, t, ht, x, hx => by
    have rec0 : ∀ t ∈ tokenizeAux [] ys, ∀ x ∈ t, x ∈ acc ∨ x ∈ y :: ys := by
      intro t ht x hx
      rcases xm_tokenizeAux_mem ys [] t ht x hx with h | h
      · cases h
      · exact Or.inr (List.mem_cons_of_mem _ h)
    simp only [tokenizeAux] at ht
    split at ht
    · split at ht
      · exact rec0 t ht x hx
      · rcases List.mem_cons.1 ht with rfl | ht
        · exact Or.inl (List.mem_reverse.1 hx)
        · exact rec0 t ht x hx
    · split at ht
      · split at ht
        · rcases List.mem_cons.1 ht with rfl | ht
          · simp only [List.mem_singleton] at hx
            subst hx
            exact Or.inr List.mem_cons_self
          · exact rec0 t ht x hx
        · rcases List.mem_cons.1 ht with rfl | ht
          · exact Or.inl (List.mem_reverse.1 hx)
          · rcases List.mem_cons.1 ht with rfl | ht
            · simp only [List.mem_singleton] at hx
              subst hx
              exact Or.inr List.mem_cons_self
            · exact rec0 t ht x hx
      · rcases xm_tokenizeAux_mem ys (y :: acc) t ht x hx with h | h
        · rcases List.mem_cons.1 h with rfl | h
          · exact Or.inr List.mem_cons_self
          · exact Or.inl h
        · exact Or.inr (List.mem_cons_of_mem _ h)

theorem xm_tokenize_ok {s : Str} (hs : xmlStrOk s = true) : ∀ t ∈ tokenize s, xmlStrOk t = true := by
  intro t ht
  refine xm_ok_of_sub (fun x hx => ?_) hs
  rcases xm_tokenizeAux_mem s [] t ht x hx with h | h
  · cases h
  · exact h

theorem xm_tri {k1 v1 k2 v2 k3 v3 : Str} (h1 : xmlStrOk k1 = true) (h2 : xmlStrOk v1 = true)
    (h3 : xmlStrOk k2 = true) (h4 : xmlStrOk v2 = true) (h5 : xmlStrOk k3 = true) (h6 : xmlStrOk v3 = true) :
    XF (.tri k1 v1 k2 v2 k3 v3) := by
  have e : xmlCharOk cEq = true := by decide
  have c : xmlCharOk cComma = true := by decide
  simp only [XF, Feat.str, xm_ok_append, xm_ok_cons, h1, h2, h3, h4, h5, h6, e, c, Bool.and_self]

theorem xm_feat_parse {t : Str} {f : Feat} (ht : xmlStrOk t = true) (h : Feat.parse t = .ok f) : XF f := by
  unfold Feat.parse at h
  split at h
  · split at h
    · rename_i a b c hsp
      have hp := xm_splitOn_ok (c := cComma) ht
      rw [hsp] at hp
      have ha := hp a (by simp)
      have hb := hp b (by simp)
      have hc := hp c (by simp)
      split at h
      · rename_i k1 v1 k2 v2 k3 v3 e1 e2 e3
        cases h
        have p1 := xm_splitOn_ok (c := cEq) ha
        have p2 := xm_splitOn_ok (c := cEq) hb
        have p3 := xm_splitOn_ok (c := cEq) hc
        rw [e1] at p1
        rw [e2] at p2
        rw [e3] at p3
        exact xm_tri (p1 _ (by simp)) (p1 _ (by simp)) (p2 _ (by simp)) (p2 _ (by simp)) (p3 _ (by simp)) (p3 _ (by simp))
      · cases h
    · cases h
  · cases h
    exact ht

/-- what the reader's stack holds -/
def ItemOk : Cat.Item → Prop
  | .cat c => XCat c
  | .sym _ => True

theorem xm_slashCode {s : Nat} (h : Cat.isSlashCode s = true) : XS s := by
  simp only [Cat.isSlashCode, Bool.or_eq_true, beq_iff_eq] at h
  rcases h with (rfl | rfl) | rfl <;> decide

theorem xm_mkFunctor {x f y : Cat.Item} {c : Cat} (hx : ItemOk x) (hy : ItemOk y)
    (h : Cat.mkFunctor x f y = .ok c) : XCat c := by
  unfold Cat.mkFunctor at h
  split at h
  · split at h
    · rename_i hs
      cases h
      exact ⟨hx, xm_slashCode hs, hy⟩
    · cases h
  · cases h

theorem xm_closeStep {item : Str} {st st' : List Cat.Item} (hst : ∀ i ∈ st, ItemOk i)
    (h : Cat.closeStep item st = .ok st') : ∀ i ∈ st', ItemOk i := by
  unfold Cat.closeStep at h
  split at h
  · cases h
  · rename_i y st0
    split at h
    · cases h
    · rename_i top st1
      split at h
      · cases h
        intro i hi
        rcases List.mem_cons.1 hi with rfl | hi
        · exact hst _ (by simp)
        · exact hst _ (by simp [hi])
      · split at h
        · cases h
        · rename_i x st2
          split at h
          · cases h
          · cases h
          · rename_i o st3
            split at h
            · split at h
              · rename_i c hc
                cases h
                intro i hi
                rcases List.mem_cons.1 hi with rfl | hi
                · exact xm_mkFunctor (hst _ (by simp)) (hst _ (by simp)) hc
                · exact hst _ (by simp [hi])
              · cases h
            · cases h

theorem xm_atomStep {item : Str} {buf rest : List Str} {c : Cat} (hi : xmlStrOk item = true)
    (hb : ∀ t ∈ buf, xmlStrOk t = true) (h : Cat.atomStep item buf = .ok (c, rest)) :
    XCat c ∧ ∀ t ∈ rest, xmlStrOk t = true := by
  unfold Cat.atomStep at h
  split at h
  · rename_i b1 b2 b3 rest0
    split at h
    · split at h
      · cases h
      · rename_i f hf
        split at h
        · cases h
          exact ⟨⟨hi, xm_feat_parse (hb b2 (by simp)) hf⟩, fun t ht => hb t (by simp [ht])⟩
        · cases h
    · cases h
      exact ⟨⟨hi, xm_none⟩, hb⟩
  · cases h
    exact ⟨⟨hi, xm_none⟩, hb⟩

theorem xm_readLoop : ∀ (fuel : Nat) (st : List Cat.Item) (buf : List Str) (st' : List Cat.Item),
    (∀ i ∈ st, ItemOk i) → (∀ t ∈ buf, xmlStrOk t = true) → Cat.readLoop fuel st buf = .ok st' →
    ∀ i ∈ st', ItemOk i
  | _, st, [], st', hst, _, h => by
    simp only [Cat.readLoop] at h
    cases h
    exact hst
  | 0, _, _ :: _, _, _, _, h => by
    simp only [Cat.readLoop] at h
    cases h
  | fuel + 1, st, item :: buf, st', hst, hb, h => by
    have hi : xmlStrOk item = true := hb item (by simp)
    have hb' : ∀ t ∈ buf, xmlStrOk t = true := fun t ht => hb t (by simp [ht])
    have push : ∀ (i : Cat.Item), ItemOk i → ∀ j ∈ i :: st, ItemOk j := by
      intro i hi j hj
      rcases List.mem_cons.1 hj with rfl | hj
      · exact hi
      · exact hst j hj
    simp only [Cat.readLoop] at h
    split at h
    · exact xm_readLoop fuel _ buf st' (push (.cat (.atom item (.un none))) ⟨hi, xm_none⟩) hb' h
    · split at h
      · exact xm_readLoop fuel _ buf st' (push (.sym (item.headD 0)) trivial) hb' h
      · split at h
        · split at h
          · rename_i st1 hc
            exact xm_readLoop fuel _ buf st' (xm_closeStep hst hc) hb' h
          · cases h
        · split at h
          · exact xm_readLoop fuel _ buf st' (push (.sym (item.headD 0)) trivial) hb' h
          · split at h
            · rename_i c rest ha
              obtain ⟨h1, h2⟩ := xm_atomStep hi hb' ha
              exact xm_readLoop fuel _ rest st' (push (.cat c) h1) h2 h
            · cases h

theorem xm_finish {st : List Cat.Item} {c : Cat} (hst : ∀ i ∈ st, ItemOk i) (h : Cat.finish st = .ok c) :
    XCat c := by
  unfold Cat.finish at h
  split at h
  · cases h
    exact hst (.cat c) (by simp)
  · cases h
  · exact xm_mkFunctor (hst _ (by simp)) (hst _ (by simp)) h
  · cases h

theorem xm_parse : ParseXmlCatStatement := by
  intro s c hs h
  rw [xm_xmlCat_iff]
  unfold Cat.parse at h
  split at h
  · rename_i st hst
    exact xm_finish (xm_readLoop _ _ _ _ (fun _ hi => by cases hi) (xm_tokenize_ok hs) hst) h
  · cases h

open Cli Print

/-! ### the rule labels are XML text -/

theorem xm_enLabels_ok : ∀ p ∈ C03.enLabels, xmlStrOk p.1 = true ∧ xmlStrOk p.2 = true := by decide
theorem xm_jaLabels_ok : ∀ p ∈ C04.jaLabels, xmlStrOk p.1 = true ∧ xmlStrOk p.2 = true := by decide
theorem xm_jaUnaryLabels_ok : ∀ s ∈ C04.jaUnaryLabels, xmlStrOk s = true := by decide

theorem xm_shipped_bin_labels (en : Bool) (seen : Option (List (Cat × Cat))) (table : List (Cat × List Cat))
    (x y : Cat) : ∀ r ∈ (OutputWF.shipped en seen table).bin x y,
      xmlStrOk r.opString = true ∧ xmlStrOk r.opSymbol = true := by
  intro r hr
  cases en with
  | true =>
    simp only [OutputWF.shipped, if_true, EndToEnd.enGrammar] at hr
    split at hr
    · rename_i rs h
      exact xm_enLabels_ok _ (C03.en_labels_closed seen x y rs h r hr)
    · cases hr
  | false =>
    simp only [OutputWF.shipped, Bool.false_eq_true, if_false, EndToEnd.jaGrammar] at hr
    split at hr
    · rename_i rs h
      exact xm_jaLabels_ok _ (C04.ja_labels_closed seen x y rs h r hr)
    · cases hr

theorem xm_shipped_un_labels (en : Bool) (seen : Option (List (Cat × Cat))) (table : List (Cat × List Cat))
    (x : Cat) : ∀ r ∈ (OutputWF.shipped en seen table).un x,
      xmlStrOk r.opString = true ∧ xmlStrOk r.opSymbol = true := by
  intro r hr
  cases en with
  | true =>
    simp only [OutputWF.shipped, if_true, EndToEnd.enGrammar] at hr
    obtain ⟨h1, h2, -⟩ := C03.unary_labels table x r hr
    rw [h2]
    rcases h1 with h1 | h1 <;> rw [h1] <;> decide
  | false =>
    simp only [OutputWF.shipped, Bool.false_eq_true, if_false, EndToEnd.jaGrammar] at hr
    split at hr
    · rename_i rs h
      obtain ⟨h1, h2⟩ := C04.ja_unary_labels_closed table x rs h r hr
      rw [h2]
      exact ⟨xm_jaUnaryLabels_ok _ h1, xm_jaUnaryLabels_ok _ h1⟩
    · cases hr

/-! ### trees of XML text -/

/-- every value of the token is XML text -/
def TokOk (tok : Token) : Prop := ∀ kv ∈ tok, xmlStrOk kv.2 = true

/-- categories, labels of the inner nodes and tokens of the tree are XML text -/
def XTreeOk : Tree → Prop
  | .leaf c tok _ _ => XCat c ∧ TokOk tok
  | .un c s y ch => XCat c ∧ xmlStrOk s = true ∧ xmlStrOk y = true ∧ XTreeOk ch
  | .bin c s y _ l r => XCat c ∧ xmlStrOk s = true ∧ xmlStrOk y = true ∧ XTreeOk l ∧ XTreeOk r

theorem xm_tree_cat : ∀ {t : Tree}, XTreeOk t → XCat t.cat
  | .leaf .., h => h.1
  | .un .., h => h.1
  | .bin .., h => h.1

/-- a tree licensed by a grammar under which XML text is closed and whose labels are XML text,
    over lexical categories and tokens of XML text -/
theorem xm_licensed {G : EndToEnd.CatGrammar}
    (hb : ∀ x y, XCat x → XCat y → ∀ r ∈ G.bin x y, XCat r.cat)
    (hu : ∀ x, XCat x → ∀ r ∈ G.un x, XCat r.cat)
    (hlb : ∀ x y, ∀ r ∈ G.bin x y, xmlStrOk r.opString = true ∧ xmlStrOk r.opSymbol = true)
    (hlu : ∀ x, ∀ r ∈ G.un x, xmlStrOk r.opString = true ∧ xmlStrOk r.opSymbol = true)
    {t : Tree} (hl : EndToEnd.TreeLicensed G t) :
    (∀ c ∈ Closure.leafCats t, XCat c) → (∀ tok ∈ t.tokens, TokOk tok) → XTreeOk t := by
  induction hl with
  | leaf c tok =>
    intro h1 h2
    exact ⟨h1 c (by simp [Tree.mkTerminal, Closure.leafCats]), h2 tok (by simp [Tree.mkTerminal, Tree.tokens])⟩
  | un c opS opY ch r _ hmem hcat hos hoy ih =>
    intro h1 h2
    have hch := ih h1 h2
    subst hcat hos hoy
    exact ⟨hu _ (xm_tree_cat hch) r hmem, (hlu _ r hmem).1, (hlu _ r hmem).2, hch⟩
  | bin c opS opY hd l r res _ _ hmem hcat hos hoy _ ihl ihr =>
    intro h1 h2
    have hl' := ihl (fun c hc => h1 c (by simp [Closure.leafCats, hc])) (fun t ht => h2 t (by simp [Tree.tokens, ht]))
    have hr' := ihr (fun c hc => h1 c (by simp [Closure.leafCats, hc])) (fun t ht => h2 t (by simp [Tree.tokens, ht]))
    subst hcat hos hoy
    exact ⟨hb _ _ (xm_tree_cat hl') (xm_tree_cat hr') res hmem, (hlb _ _ res hmem).1, (hlb _ _ res hmem).2, hl', hr'⟩

theorem xm_placeholder : XTreeOk placeholder := by
  show XCat _ ∧ TokOk _
  refine ⟨⟨by decide, xm_none⟩, ?_⟩
  intro kv hkv
  simp only [List.mem_singleton] at hkv
  subst hkv
  decide

/-! ### the tokens of the input side -/

theorem xm_tok_ofWord {w : Str} (h : xmlStrOk w = true) : TokOk (Token.ofWord w) := by
  intro kv hkv
  simp only [Token.ofWord, List.mem_cons, List.not_mem_nil, or_false] at hkv
  rcases hkv with rfl | rfl | rfl | rfl | rfl
  · exact h
  all_goals decide

theorem xm_tok_mk {w l p e c : Str} (hw : xmlStrOk w = true) (hl : xmlStrOk l = true) (hp : xmlStrOk p = true)
    (he : xmlStrOk e = true) (hc : xmlStrOk c = true) :
    TokOk [(lit "word", w), (lit "lemma", l), (lit "pos", p), (lit "entity", e), (lit "chunk", c)] := by
  intro kv hkv
  simp only [List.mem_cons, List.not_mem_nil, or_false] at hkv
  rcases hkv with rfl | rfl | rfl | rfl | rfl <;> assumption

theorem xm_tok_ofPiped {s : Str} {tok : Token} (hs : xmlStrOk s = true) (h : ofPiped s = .ok tok) : TokOk tok := by
  have hp := xm_splitOn_ok (c := cBar) hs
  have hxx : xmlStrOk (lit "XX") = true := by decide
  unfold ofPiped at h
  split at h
  · rename_i w l p e c heq
    rw [heq] at hp
    cases h
    exact xm_tok_mk (hp _ (by simp)) (hp _ (by simp)) (hp _ (by simp)) (hp _ (by simp)) (hp _ (by simp))
  · rename_i w l p e heq
    rw [heq] at hp
    cases h
    exact xm_tok_mk (hp _ (by simp)) (hp _ (by simp)) (hp _ (by simp)) (hp _ (by simp)) hxx
  · rename_i w p e heq
    rw [heq] at hp
    cases h
    exact xm_tok_mk (hp _ (by simp)) hxx (hp _ (by simp)) (hp _ (by simp)) hxx
  · cases h

theorem xm_tokensOfLine {piped : Bool} {line : Str} {toks : List Token} (hl : xmlStrOk line = true)
    (h : tokensOfLine piped line = .ok toks) : ∀ tok ∈ toks, TokOk tok := by
  intro tok htok
  obtain ⟨w, hw, hwt⟩ := mt_mapExcept_mem _ _ _ h tok htok
  have hwo := xm_splitOn_ok hl w hw
  cases piped
  · simp only [Bool.false_eq_true, if_false, Except.ok.injEq] at hwt
    subst hwt
    exact xm_tok_ofWord hwo
  · simp only [if_true] at hwt
    exact xm_tok_ofPiped hwo hwt

theorem xm_doc {piped : Bool} {lines : List Str} {doc : List (List Token)}
    (hl : ∀ l ∈ lines, xmlStrOk l = true) (h : Cli.mapExcept (tokensOfLine piped) lines = .ok doc) :
    ∀ toks ∈ doc, ∀ tok ∈ toks, TokOk tok := by
  intro toks htoks
  obtain ⟨line, hline, h'⟩ := mt_mapExcept_mem _ _ _ h toks htoks
  exact xm_tokensOfLine (hl line hline) h'

/-! ### attributes of XML text -/

def AttrsOk (a : Attrs) : Prop := ∀ kv ∈ a, xmlStrOk kv.2 = true

theorem xm_attrs_nil : AttrsOk [] := fun _ h => by cases h

theorem xm_attrs_cons {k v : Str} {a : Attrs} (hv : xmlStrOk v = true) (ha : AttrsOk a) : AttrsOk ((k, v) :: a) := by
  intro kv hkv
  rcases List.mem_cons.1 hkv with rfl | hkv
  · exact hv
  · exact ha kv hkv

theorem xm_dict_set : ∀ {a : Attrs} {k v : Str}, AttrsOk a → xmlStrOk v = true → AttrsOk (Dict.set a k v)
  | [], k, v, _, hv => by
    simp only [Dict.set]
    exact xm_attrs_cons hv xm_attrs_nil
  | (k', v') :: rest, k, v, ha, hv => by
    simp only [Dict.set]
    split
    · exact xm_attrs_cons hv fun kv hkv => ha kv (List.mem_cons_of_mem _ hkv)
    · exact xm_attrs_cons (ha (k', v') List.mem_cons_self)
        (xm_dict_set (fun kv hkv => ha kv (List.mem_cons_of_mem _ hkv)) hv)

theorem xm_setAttr {a : Attrs} {k v : Str} (ha : AttrsOk a) (hv : xmlStrOk v = true) : AttrsOk (setAttr a k v) :=
  xm_dict_set ha hv

theorem xm_foldl_setAttr : ∀ (tok : Token) (base : Attrs), TokOk tok → AttrsOk base →
    AttrsOk (tok.foldl (fun acc kv => setAttr acc kv.1 kv.2) base)
  | [], base, _, hb => hb
  | kv :: rest, base, ht, hb => by
    simp only [List.foldl_cons]
    exact xm_foldl_setAttr rest _ (fun x hx => ht x (List.mem_cons_of_mem _ hx))
      (xm_setAttr hb (ht kv List.mem_cons_self))

theorem xm_dict_get {a : Attrs} {k v : Str} (ha : AttrsOk a) (h : Dict.get? a k = some v) : xmlStrOk v = true := by
  induction a with
  | nil => simp [Dict.get?] at h
  | cons kv rest ih =>
    obtain ⟨k', v'⟩ := kv
    simp only [Dict.get?] at h
    split at h
    · cases h
      exact ha _ List.mem_cons_self
    · exact ih (fun x hx => ha x (List.mem_cons_of_mem _ hx)) h

theorem xm_all_of_attrsOk {a : Attrs} (h : AttrsOk a) : a.all (fun kv => xmlStrOk kv.2) = true :=
  List.all_eq_true.2 h

theorem xm_validKids_map {α : Type} (f : α → Elem) : ∀ (l : List α), (∀ x ∈ l, (f x).valid = true) →
    validKids (l.map f) = true
  | [], _ => by simp [validKids]
  | x :: xs, h => by
    simp only [List.map_cons, validKids, Bool.and_eq_true]
    exact ⟨h x List.mem_cons_self, xm_validKids_map f xs fun y hy => h y (List.mem_cons_of_mem _ hy)⟩

theorem xm_valid_mk {tag : Str} {a : Attrs} {kids : List Elem} (ha : AttrsOk a) (hk : validKids kids = true) :
    (Elem.mk tag a kids).valid = true := by
  simp only [Elem.valid, Bool.and_eq_true]
  exact ⟨xm_all_of_attrsOk ha, hk⟩

theorem xm_valid_leaf {tag : Str} {a : Attrs} (ha : AttrsOk a) : (Elem.mk tag a []).valid = true :=
  xm_valid_mk ha (by simp [validKids])

/-! ### C&C XML -/

def XTOk : XTree → Prop
  | .lf a => AttrsOk a
  | .rule1 a ch => AttrsOk a ∧ XTOk ch
  | .rule2 a l r => AttrsOk a ∧ XTOk l ∧ XTOk r

theorem xm_cat_str {c : Cat} (h : XCat c) : xmlStrOk c.str = true := (xm_xmlCat_iff c).2 h

theorem xm_xmlTree : ∀ (t : Tree) (n : Nat), XTreeOk t → XTOk (xmlTree t n).1
  | .leaf c tok _ _, n, h => by
    simp only [xmlTree]
    exact xm_foldl_setAttr tok _ h.2
      (xm_attrs_cons (xm_ok_ofNat n) (xm_attrs_cons (by decide) (xm_attrs_cons (xm_cat_str h.1) xm_attrs_nil)))
  | .un c s _ ch, n, h => by
    simp only [xmlTree]
    exact ⟨xm_attrs_cons h.2.1 (xm_attrs_cons (xm_cat_str h.1) xm_attrs_nil), xm_xmlTree ch n h.2.2.2⟩
  | .bin c s _ _ l r, n, h => by
    simp only [xmlTree]
    exact ⟨xm_attrs_cons h.2.1 (xm_attrs_cons (xm_cat_str h.1) xm_attrs_nil), xm_xmlTree l n h.2.2.2.1,
      xm_xmlTree r _ h.2.2.2.2⟩

theorem xm_elemOfXTree : ∀ (x : XTree), XTOk x → (elemOfXTree x).valid = true
  | .lf a, h => xm_valid_leaf h
  | .rule1 a ch, h => by
    simp only [elemOfXTree]
    exact xm_valid_mk h.1 (by simp [validKids, xm_elemOfXTree ch h.2])
  | .rule2 a l r, h => by
    simp only [elemOfXTree]
    exact xm_valid_mk h.1 (by simp [validKids, xm_elemOfXTree l h.2.1, xm_elemOfXTree r h.2.2])

theorem xm_elemOfCcg (c : CcgElem) (h : XTOk c.tree) : (elemOfCcg c).valid = true := by
  simp only [elemOfCcg]
  exact xm_valid_mk (xm_attrs_cons (xm_ok_ofNat _) (xm_attrs_cons (xm_ok_ofNat _) xm_attrs_nil))
    (by simp [validKids, xm_elemOfXTree _ h])

theorem xm_xmlOfAux : ∀ (batch : List (List Tree)) (si : Nat), (∀ trees ∈ batch, ∀ t ∈ trees, XTreeOk t) →
    ∀ c ∈ xmlOfAux batch si, XTOk c.tree
  | [], _, _, c, hc => by simp [xmlOfAux] at hc
  | trees :: rest, si, h, c, hc => by
    simp only [xmlOfAux, List.mem_append, List.mem_map] at hc
    rcases hc with ⟨p, hp, rfl⟩ | hc
    · obtain ⟨t, i⟩ := p
      have ht : t ∈ trees := (List.mem_zipIdx hp).2.2 ▸ List.getElem_mem _
      exact xm_xmlTree t 0 (h trees List.mem_cons_self t ht)
    · exact xm_xmlOfAux rest (si + 1) (fun ts hts => h ts (List.mem_cons_of_mem _ hts)) c hc

/-- `to_string(·, format='xml')` prints trees of XML text -/
theorem xm_xmlText_total (batch : List (List Tree)) (h : ∀ trees ∈ batch, ∀ t ∈ trees, XTreeOk t) :
    ∃ s, xmlText batch = .ok s := by
  have hv : (xmlDoc batch).valid = true := by
    simp only [xmlDoc]
    exact xm_valid_mk xm_attrs_nil
      (xm_validKids_map _ _ fun c hc => xm_elemOfCcg c (xm_xmlOfAux batch 1 h c hc))
  simp only [xmlText, docText, hv, if_true]
  exact ⟨_, rfl⟩

/-! ### Jigg XML -/

theorem xm_lit_eqTrue : xmlStrOk (lit "=true]") = true := by decide

/-- `_cat_multi_valued` of a category of XML text -/
theorem xm_catMulti : ∀ {c : Cat}, XCat c → xmlStrOk (catMulti c) = true
  | .atom b (.un none), h => h.1
  | .atom b (.un (some v)), h => by
    have hv : xmlStrOk v = true := h.2
    have hb : xmlStrOk b = true := h.1
    have h1 : xmlCharOk cLBr = true := by decide
    simp only [catMulti, catMultiRec, xm_ok_append, xm_ok_cons, hv, hb, h1, xm_lit_eqTrue, Bool.and_self]
  | .atom b (.tri k1 v1 k2 v2 k3 v3), h => by
    simp only [catMulti, catMultiRec]
    exact xm_cat_str h
  | .fn l s r, h => by
    have hl : xmlStrOk (catMultiRec l) = true := xm_catMulti h.1
    have hr : xmlStrOk (catMultiRec r) = true := xm_catMulti h.2.2
    have hs : xmlCharOk s = true := h.2.1
    have h1 : xmlCharOk cLPar = true := by decide
    have h2 : xmlCharOk cRPar = true := by decide
    simp only [catMulti, catMultiRec]
    split <;> split <;>
      simp only [xm_ok_append, xm_ok_cons, hl, hr, hs, h1, h2, xm_ok_nil, Bool.and_self]

theorem xm_spanId (sid n : Nat) : xmlStrOk (spanId sid n) = true := by
  simp only [spanId, xm_ok_append, xm_ok_ofNat, Bool.and_true]
  decide

theorem xm_tokId (sid n : Nat) : xmlStrOk (lit "s" ++ Str.ofNat sid ++ lit "_" ++ Str.ofNat n) = true := by
  simp only [xm_ok_append, xm_ok_ofNat, Bool.and_true]
  decide

theorem xm_ccgId (sid n : Nat) : xmlStrOk (lit "s" ++ Str.ofNat sid ++ lit "_ccg" ++ Str.ofNat n) = true := by
  simp only [xm_ok_append, xm_ok_ofNat, Bool.and_true]
  decide

def SpansOk (l : List Attrs) : Prop := ∀ a ∈ l, AttrsOk a

theorem xm_spans_append {l : List Attrs} {a : Attrs} (hl : SpansOk l) (ha : AttrsOk a) : SpansOk (l ++ [a]) := by
  intro x hx
  rcases List.mem_append.1 hx with hx | hx
  · exact hl x hx
  · rw [List.mem_singleton.1 hx]; exact ha

theorem xm_spans_set {l : List Attrs} {a : Attrs} (i : Nat) (hl : SpansOk l) (ha : AttrsOk a) : SpansOk (l.set i a) := by
  intro x hx
  rcases List.mem_or_eq_of_mem_set hx with hx | rfl
  · exact hl x hx
  · exact ha

/-- `traverse(node)` makes spans of XML text and returns an identifier -/
theorem xm_jiggTraverse (sid : Nat) (useSymbol : Bool) : ∀ (t : Tree) (st : SpanSt), XTreeOk t → SpansOk st.spans →
    xmlStrOk (jiggTraverse sid useSymbol t st).1.1 = true ∧ SpansOk (jiggTraverse sid useSymbol t st).2.spans
  | .leaf c _ _ _, st, h, hst => by
    simp only [jiggTraverse]
    refine ⟨xm_spanId _ _, xm_spans_append hst ?_⟩
    exact xm_attrs_cons (xm_catMulti h.1) (xm_attrs_cons (xm_spanId _ _) (xm_attrs_cons (xm_tokId _ _)
      (xm_attrs_cons (xm_ok_ofNat _) (xm_attrs_cons (xm_ok_ofNat _) xm_attrs_nil))))
  | .un c s y ch, st, h, hst => by
    have ih := xm_jiggTraverse sid useSymbol ch
      { st with next := st.next + 1, spans := st.spans ++ [[]] } h.2.2.2 (xm_spans_append hst xm_attrs_nil)
    simp only [jiggTraverse]
    refine ⟨xm_spanId _ _, xm_spans_set _ ih.2 ?_⟩
    have hrule : xmlStrOk (if useSymbol then y else s) = true := by
      cases useSymbol
      · exact h.2.1
      · exact h.2.2.1
    exact xm_attrs_cons (xm_catMulti h.1) (xm_attrs_cons (xm_spanId _ _) (xm_attrs_cons ih.1
      (xm_attrs_cons hrule (xm_attrs_cons (xm_ok_ofNat _) (xm_attrs_cons (xm_ok_ofNat _) xm_attrs_nil)))))
  | .bin c s y _ l r, st, h, hst => by
    have ihl := xm_jiggTraverse sid useSymbol l
      { st with next := st.next + 1, spans := st.spans ++ [[]] } h.2.2.2.1 (xm_spans_append hst xm_attrs_nil)
    have ihr := xm_jiggTraverse sid useSymbol r _ h.2.2.2.2 ihl.2
    simp only [jiggTraverse]
    refine ⟨xm_spanId _ _, xm_spans_set _ ihr.2 ?_⟩
    have hrule : xmlStrOk (if useSymbol then y else s) = true := by
      cases useSymbol
      · exact h.2.1
      · exact h.2.2.1
    have hchild : xmlStrOk ((jiggTraverse sid useSymbol l
        { st with next := st.next + 1, spans := st.spans ++ [[]] }).1.1 ++ cSpace ::
        (jiggTraverse sid useSymbol r (jiggTraverse sid useSymbol l
          { st with next := st.next + 1, spans := st.spans ++ [[]] }).2).1.1) = true :=
      xm_ok_app ihl.1 (xm_ok_cons' (by decide) ihr.1)
    exact xm_attrs_cons (xm_catMulti h.1) (xm_attrs_cons (xm_spanId _ _) (xm_attrs_cons hchild
      (xm_attrs_cons hrule (xm_attrs_cons (xm_ok_ofNat _) (xm_attrs_cons (xm_ok_ofNat _) xm_attrs_nil)))))

def JCcgOk (c : JCcg) : Prop := AttrsOk c.attrs ∧ SpansOk c.spans

theorem xm_jiggProcess (sid processed : Nat) (useSymbol : Bool) (t : Tree) (next : Nat) (h : XTreeOk t) :
    JCcgOk (jiggProcess sid processed useSymbol t next).1 := by
  have ih := xm_jiggTraverse sid useSymbol t { next := next, spans := [], counter := 0 } h (fun _ hx => by cases hx)
  simp only [jiggProcess]
  refine ⟨xm_attrs_cons (xm_ccgId _ _) (xm_attrs_cons ih.1 xm_attrs_nil), ?_⟩
  show SpansOk (match (jiggTraverse sid useSymbol t { next := next, spans := [], counter := 0 }).2.spans with
    | [] => []
    | first :: rest => setAttr first (lit "root") (lit "true") :: rest)
  split
  · exact fun _ hx => by cases hx
  · rename_i first rest heq
    have h2 := ih.2
    rw [heq] at h2
    intro a ha
    rcases List.mem_cons.1 ha with rfl | ha
    · exact xm_setAttr (h2 first List.mem_cons_self) (by decide)
    · exact h2 a (List.mem_cons_of_mem _ ha)

theorem xm_jiggTrees (sid : Nat) (useSymbol : Bool) : ∀ (ts : List Tree) (processed next : Nat),
    (∀ t ∈ ts, XTreeOk t) → ∀ c ∈ jiggTrees sid useSymbol ts processed next, JCcgOk c
  | [], _, _, _, c, hc => by simp [jiggTrees] at hc
  | t :: ts, processed, next, h, c, hc => by
    simp only [jiggTrees, List.mem_cons] at hc
    rcases hc with rfl | hc
    · exact xm_jiggProcess sid processed useSymbol t next (h t List.mem_cons_self)
    · exact xm_jiggTrees sid useSymbol ts _ _ (fun t' ht' => h t' (List.mem_cons_of_mem _ ht')) c hc

theorem xm_tok_filter {t : Token} (p : Str × Str → Bool) (h : TokOk t) : TokOk (t.filter p) :=
  fun kv hkv => h kv (List.mem_filter.1 hkv).1

theorem xm_renameKey {t : Token} (old new : Str) (h : TokOk t) : TokOk (renameKey t old new) := by
  simp only [renameKey]
  split
  · rename_i v hv
    exact xm_dict_set (xm_tok_filter _ h) (xm_dict_get h hv)
  · exact h

theorem xm_jiggToken (sid idx : Nat) {c : Cat} {tok : Token} (hc : XCat c) (ht : TokOk tok) :
    AttrsOk (jiggToken sid idx c tok) := by
  simp only [jiggToken]
  exact xm_foldl_setAttr _ _ (xm_renameKey _ _ (xm_renameKey _ _ ht))
    (xm_attrs_cons (xm_ok_ofNat _) (xm_attrs_cons (xm_cat_str hc) (xm_attrs_cons (xm_tokId _ _) xm_attrs_nil)))

theorem xm_tree_tokens : ∀ {t : Tree}, XTreeOk t → ∀ tok ∈ t.tokens, TokOk tok
  | .leaf _ _ _ _, h, tok, hm => by
    simp only [Tree.tokens, List.mem_singleton] at hm
    rw [hm]; exact h.2
  | .un _ _ _ ch, h, tok, hm => xm_tree_tokens (t := ch) h.2.2.2 tok hm
  | .bin _ _ _ _ l r, h, tok, hm => by
    rcases List.mem_append.1 hm with hm | hm
    · exact xm_tree_tokens (t := l) h.2.2.2.1 tok hm
    · exact xm_tree_tokens (t := r) h.2.2.2.2 tok hm

theorem xm_tree_leafCats : ∀ {t : Tree}, XTreeOk t → ∀ c ∈ Xml.leafCats t, XCat c
  | .leaf _ _ _ _, h, c, hm => by
    simp only [Xml.leafCats, List.mem_singleton] at hm
    rw [hm]; exact h.1
  | .un _ _ _ ch, h, c, hm => xm_tree_leafCats (t := ch) h.2.2.2 c hm
  | .bin _ _ _ _ l r, h, c, hm => by
    rcases List.mem_append.1 hm with hm | hm
    · exact xm_tree_leafCats (t := l) h.2.2.2.1 c hm
    · exact xm_tree_leafCats (t := r) h.2.2.2.2 c hm

def JSentOk (s : JSentence) : Prop := SpansOk s.tokens ∧ ∀ c ∈ s.ccgs, JCcgOk c

/-- `to_jigg_xml` on non-empty n-best lists of trees of XML text -/
theorem xm_jiggOfAux (useSymbol : Bool) : ∀ (batch : List (List Tree)) (sid : Nat),
    (∀ trees ∈ batch, trees ≠ [] ∧ ∀ t ∈ trees, XTreeOk t) →
    ∃ ss, jiggOfAux useSymbol batch sid = .ok ss ∧ ∀ s ∈ ss, JSentOk s
  | [], _, _ => ⟨[], rfl, fun _ h => by cases h⟩
  | [] :: _, _, h => absurd rfl (h [] List.mem_cons_self).1
  | (t :: ts) :: rest, sid, h => by
    obtain ⟨more, hm, hmore⟩ := xm_jiggOfAux useSymbol rest (sid + 1) fun trees ht => h trees (List.mem_cons_of_mem _ ht)
    have htr := (h (t :: ts) List.mem_cons_self).2
    simp only [jiggOfAux, hm]
    refine ⟨_, rfl, ?_⟩
    intro s hs
    rcases List.mem_cons.1 hs with rfl | hs
    · refine ⟨?_, xm_jiggTrees sid useSymbol (t :: ts) 0 0 htr⟩
      intro a ha
      simp only [List.mem_map] at ha
      obtain ⟨⟨⟨tok, c⟩, i⟩, hp, rfl⟩ := ha
      have hz : (tok, c) ∈ t.tokens.zip (Xml.leafCats t) := (List.mem_zipIdx hp).2.2 ▸ List.getElem_mem _
      have ht0 := htr t List.mem_cons_self
      exact xm_jiggToken sid i (xm_tree_leafCats ht0 c (List.of_mem_zip hz).2) (xm_tree_tokens ht0 tok (List.of_mem_zip hz).1)
    · exact hmore s hs

theorem xm_stripZeros_sub (s : Str) : ∀ c ∈ Print.stripZeros s, c ∈ s := by
  intro c hc
  simp only [Print.stripZeros, List.mem_reverse] at hc
  exact List.mem_reverse.1 ((List.dropWhile_sublist _).subset hc)

theorem xm_jsonFloat (k : Int) : xmlStrOk (Print.jsonFloat k) = true := by
  have h48 : xmlCharOk 48 = true := by decide
  have hrep : ∀ n, xmlStrOk (List.replicate n 48) = true := by
    intro n
    rw [xm_ok_iff]
    intro c hc
    rw [List.eq_of_mem_replicate hc]
    exact h48
  simp only [Print.jsonFloat]
  refine xm_ok_app (xm_ok_app (xm_ok_app ?_ (xm_ok_ofNat _)) (by decide)) ?_
  · split <;> decide
  · split
    · decide
    · exact xm_ok_of_sub (xm_stripZeros_sub _) (xm_ok_app (hrep _) (xm_ok_ofNat _))

theorem xm_scoreAttr (s : Option Int) : xmlStrOk (scoreAttr s) = true := by
  cases s with
  | none => decide
  | some k => exact xm_jsonFloat k

theorem xm_withScores : ∀ (cs : List JCcg) (ss : List (Option Int)), (∀ c ∈ cs, JCcgOk c) →
    ∀ c ∈ withScores cs ss, JCcgOk c
  | [], _, h => by
    intro c hc
    cases ‹List (Option Int)› <;> simp [withScores] at hc
  | c :: cs, [], h => by simpa [withScores] using h
  | c :: cs, s :: ss, h => by
    intro c' hc'
    simp only [withScores, List.mem_cons] at hc'
    rcases hc' with rfl | hc'
    · exact ⟨xm_setAttr (h c List.mem_cons_self).1 (xm_scoreAttr s), (h c List.mem_cons_self).2⟩
    · exact xm_withScores cs ss (fun x hx => h x (List.mem_cons_of_mem _ hx)) c' hc'

theorem xm_withScoresAll : ∀ (ss : List JSentence) (scs : List (List (Option Int))), (∀ s ∈ ss, JSentOk s) →
    ∀ s ∈ withScoresAll ss scs, JSentOk s
  | [], _, h => by
    intro s hs
    cases ‹List (List (Option Int))› <;> simp [withScoresAll] at hs
  | s :: ss, [], h => by simpa [withScoresAll] using h
  | s :: ss, sc :: scs, h => by
    intro s' hs'
    simp only [withScoresAll, List.mem_cons] at hs'
    rcases hs' with rfl | hs'
    · exact ⟨(h s List.mem_cons_self).1, xm_withScores _ _ (h s List.mem_cons_self).2⟩
    · exact xm_withScoresAll ss scs (fun x hx => h x (List.mem_cons_of_mem _ hx)) s' hs'

theorem xm_elemOfSentence {s : JSentence} (h : JSentOk s) : (elemOfSentence s).valid = true := by
  simp only [elemOfSentence]
  refine xm_valid_mk xm_attrs_nil ?_
  simp only [validKids, Bool.and_eq_true]
  refine ⟨xm_valid_mk xm_attrs_nil (xm_validKids_map _ _ fun t ht => xm_valid_leaf (h.1 t ht)), ?_⟩
  exact xm_validKids_map _ _ fun c hc =>
    xm_valid_mk (h.2 c hc).1 (xm_validKids_map _ _ fun sp hsp => xm_valid_leaf ((h.2 c hc).2 sp hsp))

theorem xm_jiggDoc {ss : List JSentence} (h : ∀ s ∈ ss, JSentOk s) : (jiggDoc ss).valid = true := by
  simp only [jiggDoc]
  refine xm_valid_mk xm_attrs_nil ?_
  simp only [validKids, Bool.and_true]
  refine xm_valid_mk xm_attrs_nil ?_
  simp only [validKids, Bool.and_true]
  exact xm_valid_mk xm_attrs_nil (xm_validKids_map _ _ fun s hs => xm_elemOfSentence (h s hs))

/-- `to_string(·, format='jigg_xml')` prints non-empty n-best lists of trees of XML text -/
theorem xm_jiggText_total (useSymbol : Bool) (batch : List (List (Tree × Option Int)))
    (h : ∀ l ∈ batch, l ≠ [] ∧ ∀ p ∈ l, XTreeOk p.1) : ∃ s, jiggText useSymbol batch = .ok s := by
  obtain ⟨ss, hss, hok⟩ := xm_jiggOfAux useSymbol (batch.map fun ts => ts.map fun p => p.1) 0 (by
    intro trees ht
    obtain ⟨l, hl, rfl⟩ := List.mem_map.1 ht
    refine ⟨fun e => (h l hl).1 (List.map_eq_nil_iff.1 e), ?_⟩
    intro t ht'
    obtain ⟨p, hp, rfl⟩ := List.mem_map.1 ht'
    exact (h l hl).2 p hp)
  have hv := xm_jiggDoc (xm_withScoresAll ss (batch.map fun ts => ts.map fun p => p.2) hok)
  simp only [jiggText, jiggOf, hss, docText, hv, if_true]
  exact ⟨_, rfl⟩

open Cli Print Search Lazy LazyProps GlueRunProps

/-! ### `print_` and the whole program -/

/-- `print_` under the two XML formats is total on results whose trees are XML text; no result is
    an empty list of trees (`to_jigg_xml` indexes `parsed[0]`) -/
theorem xm_printText_total (f : Fmt) (results : List SentResult)
    (hf : f = Fmt.xml ∨ f = Fmt.jiggEn ∨ f = Fmt.jiggJa)
    (hne : ∀ r ∈ results, r ≠ .parsed [])
    (hok : ∀ r ∈ results, ∀ ts ∈ scored r, XTreeOk ts.1) :
    ∃ text, printText f results = .ok text := by
  have hjigg : ∀ l ∈ results.map scoredK, l ≠ [] ∧ ∀ p ∈ l, XTreeOk p.1 := by
    intro l hl
    obtain ⟨r, hr, rfl⟩ := List.mem_map.1 hl
    refine ⟨mt_scoredK_ne (hne r hr), ?_⟩
    intro p hp
    obtain ⟨ts, hts, e⟩ := mt_mem_scoredK hp
    rw [← e]
    exact hok r hr ts hts
  rcases hf with rfl | rfl | rfl
  · simp only [printText]
    apply mt_addNewline_ok
    apply xm_xmlText_total
    intro trees htrees t ht
    obtain ⟨r, hr, ts, hts, rfl⟩ := mt_mem_treesOnly htrees ht
    exact hok r hr ts hts
  · simp only [printText]
    exact mt_addNewline_ok (xm_jiggText_total false _ hjigg)
  · simp only [printText]
    exact mt_addNewline_ok (xm_jiggText_total true _ hjigg)

/-- `MainTotalXmlStatement` -/
theorem xm_main_total : MainTotalXmlStatement := by
  intro en seen table o lines tagCats scores roots categories doc hr hd hc hnd hlex hfmt hlines htags _ htable
  have hready : ∀ x ∈ zipSents doc scores, ∃ r,
      (sentenceL pickHeap (OutputWF.shipped en seen table) (addRoots categories roots).2 o.cfg (some o.maxLength)
        (GlueRun.init categories roots) x).1 = .ok r := fun x hx =>
    mt_sentenceL_ok (ready_of_history _ categories roots [] x hnd (hlex x hx))
  obtain ⟨results, hres⟩ := mt_mapExcept_total _ _ hready
  rw [main_eq_map_solo _ o lines tagCats scores roots categories doc hr hd hc hnd hlex results hres]
  have hcats : ∀ c ∈ categories, XCat c := by
    intro c hc'
    obtain ⟨s, hs, hsc⟩ := mt_mapExcept_mem _ _ _ hc c hc'
    exact (xm_xmlCat_iff c).1 (xm_parse s c (htags s hs) hsc)
  have hb : ∀ x y, XCat x → XCat y → ∀ r ∈ (toE2E (OutputWF.shipped en seen table)).bin x y, XCat r.cat :=
    fun x y hx hy r hr' => (xm_xmlCat_iff _).1
      (xm_shipped_bin en seen table ((xm_xmlCat_iff _).2 hx) ((xm_xmlCat_iff _).2 hy) r hr')
  have hu : ∀ x, XCat x → ∀ r ∈ (toE2E (OutputWF.shipped en seen table)).un x, XCat r.cat :=
    fun x _ r hr' => (xm_xmlCat_iff _).1 (xm_shipped_un en seen table htable x r hr')
  have hall : ∀ r ∈ results, ∀ ts ∈ scored r, XTreeOk ts.1 := by
    intro r hr'
    obtain ⟨x, hx, hxr⟩ := mt_mapExcept_mem _ _ _ hres r hr'
    cases r with
    | failed =>
      intro ts hts
      simp only [scored, List.mem_singleton] at hts
      subst hts
      exact xm_placeholder
    | parsed trees =>
      intro ts hts
      simp only [scored, List.mem_map] at hts
      obtain ⟨p, hp, rfl⟩ := hts
      obtain ⟨hlic, htok, hleaf⟩ := mt_sentence_trees (calls := []) hnd (hlex x hx) hxr p hp
      refine xm_licensed hb hu (xm_shipped_bin_labels en seen table) (xm_shipped_un_labels en seen table) hlic
        (fun c hc' => hcats c (hleaf c hc')) ?_
      rw [htok]
      exact xm_doc hlines hd _ (mt_zipSents_tokens doc scores x hx)
  apply xm_printText_total _ _ hfmt
  · intro r hr'
    obtain ⟨x, -, hxr⟩ := mt_mapExcept_mem _ _ _ hres r hr'
    exact mt_sentenceL_nonempty hxr
  · exact hall

/-! ### a control character in a word makes `--format xml` fail -/

namespace XmlCounter

def cfg : Cfg := { penalty := 6, pruning := 50, nbest := 1, maxStep := 10000 }

/-- `--format xml`, root category `NP` -/
def o : Opts where
  cfg := cfg
  maxLength := 250
  procs := 1
  rootCats := lit "NP"
  piped := false
  format := .xml

/-- one sentence of one word, the single character U+0001 -/
def lines : List Str := [[1]]

def scores : List Scores := [{ tags := [[0]], deps := [[0, 0]], passes := [[true]] }]

theorem auto_ok : mainText (OutputWF.shipped true none []) { o with format := Fmt.auto } lines [lit "NP"] scores =
    .ok (lit "ID=1, log probability=0.00000000\n(<L NP XX XX " ++ [1] ++ lit " NP>)\n\n") := by decide +kernel

theorem xml_fails : mainText (OutputWF.shipped true none []) o lines [lit "NP"] scores = .error .valueError := by
  decide +kernel

end XmlCounter

theorem xm_main_refuses : MainXmlRefusesStatement :=
  ⟨XmlCounter.o, XmlCounter.lines, [lit "NP"], XmlCounter.scores, rfl, ⟨_, XmlCounter.auto_ok⟩, XmlCounter.xml_fails⟩

end Depccg.CliProps
