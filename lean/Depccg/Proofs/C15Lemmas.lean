/-
  C15  helper lemmas: `normalize_token`; numbering and reading of the C&C XML; the Jigg XML
  converter (`jiggTraverse` writes exactly `exp`, the pre-order list of spans), identifiers,
  looking spans up, ccg2lambda's tree builder, the token elements, reading Japanese Jigg XML back,
  well-formedness of one `<ccg>`, of a sentence, of the document.   Core Lean only.
-/
import Depccg.Props.C15Defs
import Depccg.Props.C05
import Depccg.Props.C14
import Depccg.Proofs.C08Lemmas
import Depccg.Proofs.C06Lemmas

namespace Depccg.C15
open Depccg Str Xml TextProps

/-! ### `normalize_token` -/

/-- free of the six characters `. , ( ) ! -` -/
def Clean (s : Str) : Prop := ∀ c ∈ s, c ∉ logicPunct

theorem clean_closed (s : Str) (h : s.all (fun c => !logicPunct.contains c) = true) : Clean s := by
  intro c hc hm
  have := List.all_eq_true.1 h c hc
  simp [hm] at this

theorem replaceChar_free {old : Nat} {new s : Str} (hn : old ∉ new) : old ∉ replaceChar old new s := by
  intro hm
  rcases C08.replaceChar_mem hm with h | ⟨_, h⟩
  · exact hn h
  · exact h rfl

theorem replaceChar_keeps {old x : Nat} {new s : Str} (hn : x ∉ new) (hs : x ∉ s) :
    x ∉ replaceChar old new s := by
  intro hm
  rcases C08.replaceChar_mem hm with h | ⟨h, _⟩
  · exact hn h
  · exact hs h

theorem startsWith_us {s : Str} (h : startsWith s (lit "_") = true) : ∃ r, s = cUnderscore :: r := by
  cases s with
  | nil => simp [startsWith, lit] at h
  | cons x xs =>
    have hl : lit "_" = [95] := by decide
    rw [hl] at h
    simp only [startsWith, Bool.and_true, beq_iff_eq] at h
    exact ⟨xs, by rw [h]; rfl⟩

theorem startsWith_us_cons (r : Str) : startsWith (cUnderscore :: r) (lit "_") = true := by
  have hl : lit "_" = [95] := by decide
  rw [hl]; simp [startsWith, cUnderscore]

def step5 (s : Str) : Str := if s == lit "-" then lit "_HYPHEN" else s
def step6 (s : Str) : Str := if s == lit "&" then lit "_AMPERSAND" else s
def stepFin (s : Str) : Str := if startsWith s (lit "_") then s else cUnderscore :: s

theorem normalize_eq (s : Str) : normalizeToken s =
    stepFin (replaceChar 45 (lit "_dash_") (replaceChar 33 (lit "_EXCLAMATION") (step6 (step5
      (replaceChar cRPar (lit "_RIGHTB") (replaceChar cLPar (lit "_LEFTB")
        (replaceChar cComma (lit "_COMMA") (replaceChar 46 (lit "_DOT") s)))))))) := rfl

theorem stepFin_head (s : Str) : (stepFin s).head? = some cUnderscore := by
  unfold stepFin
  split
  · next h => obtain ⟨r, hr⟩ := startsWith_us h; rw [hr]; rfl
  · rfl

theorem normalize_head (s : Str) : (normalizeToken s).head? = some cUnderscore := by
  rw [normalize_eq]; exact stepFin_head _

theorem stepFin_keeps {x : Nat} {s : Str} (hx : x ≠ cUnderscore) (h : x ∉ s) : x ∉ stepFin s := by
  unfold stepFin
  split
  · exact h
  · intro hm
    rcases List.mem_cons.1 hm with h' | h'
    · exact hx h'
    · exact h h'

theorem step5_keeps {x : Nat} {s : Str} (hx : x ∉ lit "_HYPHEN") (h : x ∉ s) : x ∉ step5 s := by
  unfold step5; split
  · exact hx
  · exact h

theorem step6_keeps {x : Nat} {s : Str} (hx : x ∉ lit "_AMPERSAND") (h : x ∉ s) : x ∉ step6 s := by
  unfold step6; split
  · exact hx
  · exact h

theorem normalize_free (s : Str) : Clean (normalizeToken s) := by
  have n1 : ∀ x ∈ logicPunct, x ∉ lit "_DOT" := by decide
  have n2 : ∀ x ∈ logicPunct, x ∉ lit "_COMMA" := by decide
  have n3 : ∀ x ∈ logicPunct, x ∉ lit "_LEFTB" := by decide
  have n4 : ∀ x ∈ logicPunct, x ∉ lit "_RIGHTB" := by decide
  have n5 : ∀ x ∈ logicPunct, x ∉ lit "_HYPHEN" := by decide
  have n6 : ∀ x ∈ logicPunct, x ∉ lit "_AMPERSAND" := by decide
  have n7 : ∀ x ∈ logicPunct, x ∉ lit "_EXCLAMATION" := by decide
  have n8 : ∀ x ∈ logicPunct, x ∉ lit "_dash_" := by decide
  have nu : ∀ x ∈ logicPunct, x ≠ cUnderscore := by decide
  intro x hm hx
  revert hm
  rw [normalize_eq]
  have hx' : x = 46 ∨ x = cComma ∨ x = cLPar ∨ x = cRPar ∨ x = 33 ∨ x = 45 := by
    simpa [logicPunct] using hx
  apply stepFin_keeps (nu x hx)
  rcases hx' with h | h | h | h | h | h
  · refine replaceChar_keeps (n8 x hx) (replaceChar_keeps (n7 x hx) (step6_keeps (n6 x hx) (step5_keeps (n5 x hx)
      (replaceChar_keeps (n4 x hx) (replaceChar_keeps (n3 x hx) (replaceChar_keeps (n2 x hx) ?_))))))
    subst h; exact replaceChar_free (n1 _ hx)
  · refine replaceChar_keeps (n8 x hx) (replaceChar_keeps (n7 x hx) (step6_keeps (n6 x hx) (step5_keeps (n5 x hx)
      (replaceChar_keeps (n4 x hx) (replaceChar_keeps (n3 x hx) ?_)))))
    subst h; exact replaceChar_free (n2 _ hx)
  · refine replaceChar_keeps (n8 x hx) (replaceChar_keeps (n7 x hx) (step6_keeps (n6 x hx) (step5_keeps (n5 x hx)
      (replaceChar_keeps (n4 x hx) ?_))))
    subst h; exact replaceChar_free (n3 _ hx)
  · refine replaceChar_keeps (n8 x hx) (replaceChar_keeps (n7 x hx) (step6_keeps (n6 x hx) (step5_keeps (n5 x hx) ?_)))
    subst h; exact replaceChar_free (n4 _ hx)
  · refine replaceChar_keeps (n8 x hx) ?_
    subst h; exact replaceChar_free (n7 _ hx)
  · subst h; exact replaceChar_free (n8 _ hx)

/-- a name starting with `_` and free of logic punctuation is a fixed point -/
theorem normalize_fixed (r : Str) (hc : Clean (cUnderscore :: r)) :
    normalizeToken (cUnderscore :: r) = cUnderscore :: r := by
  have f : ∀ x ∈ logicPunct, x ∉ cUnderscore :: r := fun x hx hm => hc x hm hx
  have h1 : replaceChar 46 (lit "_DOT") (cUnderscore :: r) = cUnderscore :: r :=
    C08.replaceChar_id (f _ (by decide))
  have h2 : replaceChar cComma (lit "_COMMA") (cUnderscore :: r) = cUnderscore :: r :=
    C08.replaceChar_id (f _ (by decide))
  have h3 : replaceChar cLPar (lit "_LEFTB") (cUnderscore :: r) = cUnderscore :: r :=
    C08.replaceChar_id (f _ (by decide))
  have h4 : replaceChar cRPar (lit "_RIGHTB") (cUnderscore :: r) = cUnderscore :: r :=
    C08.replaceChar_id (f _ (by decide))
  have h5 : step5 (cUnderscore :: r) = cUnderscore :: r := by
    have : lit "-" = [45] := by decide
    unfold step5; rw [this]; simp [cUnderscore]
  have h6 : step6 (cUnderscore :: r) = cUnderscore :: r := by
    have : lit "&" = [38] := by decide
    unfold step6; rw [this]; simp [cUnderscore]
  have h7 : replaceChar 33 (lit "_EXCLAMATION") (cUnderscore :: r) = cUnderscore :: r :=
    C08.replaceChar_id (f _ (by decide))
  have h8 : replaceChar 45 (lit "_dash_") (cUnderscore :: r) = cUnderscore :: r :=
    C08.replaceChar_id (f _ (by decide))
  have h9 : stepFin (cUnderscore :: r) = cUnderscore :: r := by
    unfold stepFin; rw [startsWith_us_cons]; rfl
  rw [normalize_eq, h1, h2, h3, h4, h5, h6, h7, h8, h9]

theorem normalize_clean_thm : NormalizeCleanStatement := fun s => ⟨normalize_head s, normalize_free s⟩

theorem normalize_idem_thm : NormalizeIdemStatement := by
  intro s
  have hh := normalize_head s
  have hf := normalize_free s
  cases h : normalizeToken s with
  | nil => rw [h] at hh; simp at hh
  | cons x r =>
    rw [h] at hh hf
    simp only [List.head?_cons, Option.some.injEq] at hh
    subst hh
    exact normalize_fixed r hf

/-! ### numbering of the C&C XML output -/

theorem zipIdx_map_snd {α β : Type} (f : Nat → β) : ∀ (l : List α) (k : Nat),
    (l.zipIdx k).map (fun p => f p.2) = (List.range' k l.length).map f
  | [], _ => rfl
  | x :: xs, k => by
    simp only [List.zipIdx_cons, List.map_cons, List.length_cons, List.range'_succ]
    rw [zipIdx_map_snd f xs (k + 1)]

theorem xmlOfAux_numbering : ∀ (batch : List (List Tree)) (k : Nat),
    (xmlOfAux batch (k + 1)).map (fun c => (c.sentence, c.id)) =
      ((batch.zipIdx k).map fun (trees, si) =>
        (List.range trees.length).map fun ti => (si + 1, ti + 1)).flatten
  | [], _ => rfl
  | trees :: rest, k => by
    simp only [xmlOfAux, List.map_append, List.map_map, List.zipIdx_cons, List.map_cons, List.flatten_cons]
    rw [xmlOfAux_numbering rest (k + 1)]
    congr 1
    have := zipIdx_map_snd (fun ti => (k + 1, ti + 1)) trees 0
    rw [List.range_eq_range']
    rw [← this]
    rfl

theorem xml_numbering_thm : XmlNumberingStatement := fun batch => xmlOfAux_numbering batch 0

/-! ### dictionaries: `foldl setAttr` -/

theorem foldl_set_notin (k : Str) : ∀ (d acc : Attrs), k ∉ d.map (·.1) →
    Dict.get? (d.foldl (fun acc kv => setAttr acc kv.1 kv.2) acc) k = Dict.get? acc k
  | [], _, _ => rfl
  | (k', v') :: rest, acc, h => by
    simp only [List.map_cons, List.mem_cons, not_or] at h
    simp only [List.foldl_cons]
    rw [foldl_set_notin k rest _ h.2]
    exact C06.get?_set_ne _ _ (fun e => h.1 e.symm)

theorem foldl_set_mem (k v : Str) : ∀ (d acc : Attrs), (d.map (·.1)).Nodup → (k, v) ∈ d →
    Dict.get? (d.foldl (fun acc kv => setAttr acc kv.1 kv.2) acc) k = some v
  | [], _, _, h => by cases h
  | (k', v') :: rest, acc, hn, hm => by
    simp only [List.map_cons, List.nodup_cons] at hn
    simp only [List.foldl_cons]
    rcases List.mem_cons.1 hm with h | h
    · cases h
      rw [foldl_set_notin k rest _ hn.1]
      exact C06.get?_set_self _ _ _
    · exact foldl_set_mem k v rest _ hn.2 h

theorem foldl_set_get (k : Str) (d acc : Attrs) (hn : (d.map (·.1)).Nodup) :
    Dict.get? (d.foldl (fun acc kv => setAttr acc kv.1 kv.2) acc) k =
      match Dict.get? d k with
      | some v => some v
      | none => Dict.get? acc k := by
  cases h : Dict.get? d k with
  | some v => exact foldl_set_mem k v d acc hn (C06.mem_of_get? h)
  | none =>
    apply foldl_set_notin
    intro hm
    obtain ⟨kv, hkv, he⟩ := List.mem_map.1 hm
    have := C06.get?_eq_none_iff.1 h kv.2
    apply this
    rw [← he]; exact hkv

theorem getAttr_of_get? {a : Attrs} {k v : Str} (h : Dict.get? a k = some v) : getAttr a k = .ok v := by
  simp [getAttr, h]

/-! ### reading C&C XML back -/

theorem xmlImage_cat {lang : Lang} : ∀ {t t' : Tree}, xmlImage lang t = .ok t' → t'.cat = t.cat
  | .leaf .., _, h => by simp only [xmlImage] at h; cases h; rfl
  | .un c s y ch, _, h => by
    simp only [xmlImage] at h
    split at h
    · cases h
    · cases h; rfl
  | .bin c s y hd l r, _, h => by
    simp only [xmlImage] at h
    split at h
    · split at h
      · cases h
      · cases h; rfl
    · cases h
    · cases h

theorem xml_leaf_attr (c : Cat) (tok : Token) (start : Nat) (ht : XmlTokOK tok) :
    Dict.get? (tok.foldl (fun acc kv => setAttr acc kv.1 kv.2)
      [(lit "start", Str.ofNat start), (lit "span", lit "1"), (lit "cat", c.str)]) (lit "cat") = some c.str ∧
    ∀ k ∈ fiveKeys, Dict.get? (tok.foldl (fun acc kv => setAttr acc kv.1 kv.2)
      [(lit "start", Str.ofNat start), (lit "span", lit "1"), (lit "cat", c.str)]) k
        = some (Token.getD tok k []) := by
  obtain ⟨h5, hres, hnd⟩ := ht
  constructor
  · rw [foldl_set_notin]
    · have h1 : lit "start" ≠ lit "cat" := by decide
      have h2 : lit "span" ≠ lit "cat" := by decide
      simp [Dict.get?, h1, h2]
    · intro hm
      obtain ⟨kv, hkv, he⟩ := List.mem_map.1 hm
      apply hres kv hkv
      rw [he]; decide
  · intro k hk
    obtain ⟨v, hv⟩ := h5 k hk
    rw [C08.getD_of_get? hv]
    exact foldl_set_mem k v tok _ hnd (C08.get?_mem hv)

theorem xml_roundtrip_aux (lang : Lang) : ∀ (t : Tree) (start : Nat),
    AllCats C05.WF t → AllCats (OneSystem lang) t → AllToks XmlTokOK t →
    ∃ t', xmlImage lang t = .ok t' ∧ readXTree lang (xmlTree t start).1 = .ok (t', t'.tokens)
  | .leaf c tok s y, start, hw, _, ht => by
    refine ⟨_, rfl, ?_⟩
    obtain ⟨hcat, hk⟩ := xml_leaf_attr c tok start ht
    simp only [xmlTree, readXTree]
    rw [getAttr_of_get? hcat]
    simp only [C05.parse_print c hw]
    rw [getAttr_of_get? (hk (lit "word") (by decide)), getAttr_of_get? (hk (lit "pos") (by decide)),
      getAttr_of_get? (hk (lit "entity") (by decide)), getAttr_of_get? (hk (lit "lemma") (by decide)),
      getAttr_of_get? (hk (lit "chunk") (by decide))]
    rfl
  | .un c s y ch, start, hw, ho, ht => by
    obtain ⟨ch', hi, hr⟩ := xml_roundtrip_aux lang ch start hw.2 ho.2 ht
    refine ⟨.un c s (lit "<un>") ch', by simp only [xmlImage, hi], ?_⟩
    have h1 : lit "type" ≠ lit "cat" := by decide
    have hcat : getAttr [(lit "type", s), (lit "cat", c.str)] (lit "cat") = .ok c.str := by
      simp [getAttr, Dict.get?, h1]
    have hty : Dict.get? [(lit "type", s), (lit "cat", c.str)] (lit "type") = some s := by
      simp [Dict.get?]
    simp only [xmlTree, readXTree, hcat, C05.parse_print c hw.1, hr, hty]
    rfl
  | .bin c s y hd l r, start, hw, ho, ht => by
    obtain ⟨l', hil, hrl⟩ := xml_roundtrip_aux lang l start hw.2.1 ho.2.1 ht.1
    obtain ⟨r', hir, hrr⟩ := xml_roundtrip_aux lang r (xmlTree l start).2 hw.2.2 ho.2.2 ht.2
    obtain ⟨rule, hg⟩ := C08.guess_total lang c l'.cat r'.cat
      (by rw [xmlImage_cat hil]; exact C08.allCats_cat ho.2.1)
      (by rw [xmlImage_cat hir]; exact C08.allCats_cat ho.2.2)
      (by rw [xmlImage_cat hil]; exact C08.allCats_cat hw.2.1)
      (by rw [xmlImage_cat hir]; exact C08.allCats_cat hw.2.2)
    refine ⟨.bin c rule.opString rule.opSymbol rule.headLeft l' r', by simp only [xmlImage, hil, hir, hg], ?_⟩
    have h1 : lit "type" ≠ lit "cat" := by decide
    have hcat : getAttr [(lit "type", s), (lit "cat", c.str)] (lit "cat") = .ok c.str := by
      simp [getAttr, Dict.get?, h1]
    simp only [xmlTree, readXTree, hcat, C05.parse_print c hw.1, hrl, hrr, hg]
    rfl

theorem xml_roundtrip_thm : XmlRoundtripStatement := fun lang t start hw ho ht =>
  xml_roundtrip_aux lang t start hw ho ht

/-! ### literals -/

theorem lit_category : lit "category" = [99, 97, 116, 101, 103, 111, 114, 121] := by decide
theorem lit_id : lit "id" = [105, 100] := by decide
theorem lit_terminal : lit "terminal" = [116, 101, 114, 109, 105, 110, 97, 108] := by decide
theorem lit_begin : lit "begin" = [98, 101, 103, 105, 110] := by decide
theorem lit_end : lit "end" = [101, 110, 100] := by decide
theorem lit_child : lit "child" = [99, 104, 105, 108, 100] := by decide
theorem lit_rule : lit "rule" = [114, 117, 108, 101] := by decide
theorem lit_root : lit "root" = [114, 111, 111, 116] := by decide
theorem lit_true : lit "true" = [116, 114, 117, 101] := by decide
theorem lit_s : lit "s" = [115] := by decide
theorem lit_us : lit "_" = [95] := by decide
theorem lit_usp : lit "_sp" = [95, 115, 112] := by decide
theorem lit_uccg : lit "_ccg" = [95, 99, 99, 103] := by decide
theorem lit_start : lit "start" = [115, 116, 97, 114, 116] := by decide
theorem lit_cat : lit "cat" = [99, 97, 116] := by decide
theorem lit_surf : lit "surf" = [115, 117, 114, 102] := by decide
theorem lit_base : lit "base" = [98, 97, 115, 101] := by decide
theorem lit_word : lit "word" = [119, 111, 114, 100] := by decide
theorem lit_lemma : lit "lemma" = [108, 101, 109, 109, 97] := by decide

/-! ### the span entries the converter writes -/

def tokId (sid i : Nat) : Str := lit "s" ++ Str.ofNat sid ++ lit "_" ++ Str.ofNat i
def ccgId (sid k : Nat) : Str := lit "s" ++ Str.ofNat sid ++ lit "_ccg" ++ Str.ofNat k

def leafAttrs (cm id term b e : Str) : Attrs :=
  [(lit "category", cm), (lit "id", id), (lit "terminal", term), (lit "begin", b), (lit "end", e)]

def nodeAttrs (cm id ch rule b e : Str) : Attrs :=
  [(lit "category", cm), (lit "id", id), (lit "child", ch), (lit "rule", rule), (lit "begin", b), (lit "end", e)]

section
attribute [local simp] lit_category lit_id lit_terminal lit_begin lit_end lit_child lit_rule lit_root
  leafAttrs nodeAttrs Dict.get?

variable (cm id x r b e : Str)
theorem leaf_category : Dict.get? (leafAttrs cm id x b e) (lit "category") = some cm := by simp
theorem leaf_id : Dict.get? (leafAttrs cm id x b e) (lit "id") = some id := by simp
theorem leaf_terminal : Dict.get? (leafAttrs cm id x b e) (lit "terminal") = some x := by simp
theorem leaf_begin : Dict.get? (leafAttrs cm id x b e) (lit "begin") = some b := by simp
theorem leaf_end : Dict.get? (leafAttrs cm id x b e) (lit "end") = some e := by simp
theorem leaf_child : Dict.get? (leafAttrs cm id x b e) (lit "child") = none := by simp
theorem leaf_rule : Dict.get? (leafAttrs cm id x b e) (lit "rule") = none := by simp
theorem leaf_root : Dict.get? (leafAttrs cm id x b e) (lit "root") = none := by simp
theorem node_category : Dict.get? (nodeAttrs cm id x r b e) (lit "category") = some cm := by simp
theorem node_id : Dict.get? (nodeAttrs cm id x r b e) (lit "id") = some id := by simp
theorem node_child : Dict.get? (nodeAttrs cm id x r b e) (lit "child") = some x := by simp
theorem node_rule : Dict.get? (nodeAttrs cm id x r b e) (lit "rule") = some r := by simp
theorem node_begin : Dict.get? (nodeAttrs cm id x r b e) (lit "begin") = some b := by simp
theorem node_end : Dict.get? (nodeAttrs cm id x r b e) (lit "end") = some e := by simp
theorem node_terminal : Dict.get? (nodeAttrs cm id x r b e) (lit "terminal") = none := by simp
theorem node_root : Dict.get? (nodeAttrs cm id x r b e) (lit "root") = none := by simp
end

def nodes : Tree → Nat
  | .leaf .. => 1
  | .un _ _ _ ch => nodes ch + 1
  | .bin _ _ _ _ l r => nodes l + nodes r + 1

theorem nodes_pos : ∀ t : Tree, 1 ≤ nodes t
  | .leaf .. => Nat.le_refl _
  | .un .. => Nat.le_add_left _ _
  | .bin .. => Nat.le_add_left _ _

/-- the spans `traverse` writes for the tree, when `n` is the next span number and `k` the leaf counter -/
def exp (sid : Nat) (u : Bool) : Tree → Nat → Nat → List Attrs
  | .leaf c _ _ _, n, k =>
    [leafAttrs (catMulti c) (spanId sid n) (tokId sid k) (Str.ofNat k) (Str.ofNat (k + 1))]
  | .un c s y ch, n, k =>
    nodeAttrs (catMulti c) (spanId sid n) (spanId sid (n + 1)) (if u then y else s)
        (Str.ofNat k) (Str.ofNat (k + ch.numLeaves)) :: exp sid u ch (n + 1) k
  | .bin c s y _ l r, n, k =>
    nodeAttrs (catMulti c) (spanId sid n) (spanId sid (n + 1) ++ cSpace :: spanId sid (n + 1 + nodes l))
        (if u then y else s) (Str.ofNat k) (Str.ofNat (k + (l.numLeaves + r.numLeaves))) ::
      (exp sid u l (n + 1) k ++ exp sid u r (n + 1 + nodes l) (k + l.numLeaves))

theorem exp_length (sid : Nat) (u : Bool) : ∀ (t : Tree) (n k : Nat), (exp sid u t n k).length = nodes t
  | .leaf .., _, _ => rfl
  | .un _ _ _ ch, n, k => by simp [exp, nodes, exp_length sid u ch]
  | .bin _ _ _ _ l r, n, k => by simp [exp, nodes, exp_length sid u l, exp_length sid u r]

theorem set_mid {α : Type} (x a : α) : ∀ (xs ys : List α), (xs ++ x :: ys).set xs.length a = xs ++ a :: ys
  | [], _ => rfl
  | z :: zs, ys => by simp [set_mid x a zs ys]

theorem traverse_eq (sid : Nat) (u : Bool) : ∀ (t : Tree) (st : SpanSt),
    jiggTraverse sid u t st = ((spanId sid st.next, st.counter),
      { next := st.next + nodes t, spans := st.spans ++ exp sid u t st.next st.counter,
        counter := st.counter + t.numLeaves })
  | .leaf c tok s y, st => rfl
  | .un c s y ch, st => by
    simp only [jiggTraverse, traverse_eq sid u ch, exp, nodes, Tree.numLeaves]
    refine Prod.ext rfl ?_
    simp only [SpanSt.mk.injEq]
    refine ⟨by omega, ?_, trivial⟩
    rw [List.append_assoc, List.singleton_append, set_mid]
    rfl
  | .bin c s y hd l r, st => by
    simp only [jiggTraverse, traverse_eq sid u l, traverse_eq sid u r, exp, nodes, Tree.numLeaves]
    refine Prod.ext rfl ?_
    simp only [SpanSt.mk.injEq]
    refine ⟨by omega, ?_, by omega⟩
    rw [List.append_assoc, List.append_assoc, List.singleton_append, set_mid]
    simp [Nat.add_assoc, nodeAttrs]

/-- the first span gets `root="true"` -/
def rootify : List Attrs → List Attrs
  | [] => []
  | first :: rest => setAttr first (lit "root") (lit "true") :: rest

theorem process_eq (sid processed : Nat) (u : Bool) (t : Tree) (next : Nat) :
    jiggProcess sid processed u t next =
      ({ attrs := [(lit "id", ccgId sid processed), (lit "root", spanId sid next)],
         spans := rootify (exp sid u t next 0) }, next + nodes t) := by
  simp only [jiggProcess, traverse_eq, List.nil_append]
  rfl

/-- the span numbers consumed by the trees before the `i`-th -/
theorem trees_eq (sid : Nat) (u : Bool) : ∀ (ts : List Tree) (processed next : Nat),
    jiggTrees sid u ts processed next =
      match ts with
      | [] => []
      | t :: ts' => { attrs := [(lit "id", ccgId sid processed), (lit "root", spanId sid next)],
                      spans := rootify (exp sid u t next 0) } ::
                    jiggTrees sid u ts' (processed + 1) (next + nodes t)
  | [], _, _ => rfl
  | t :: ts, p, n => by simp only [jiggTrees, process_eq]

/-! ### identifiers -/

theorem ofNat_digits (n : Nat) : ∀ c ∈ Str.ofNat n, 48 ≤ c ∧ c ≤ 57 :=
  C08.natDigitsAux_digits (n + 1) n [] (fun _ h => by cases h)

theorem natDigitsAux_ne_nil : ∀ (fuel n : Nat) (acc : Str), n < fuel → natDigitsAux fuel n acc ≠ []
  | 0, _, _, h => by omega
  | fuel + 1, n, acc, h => by
    simp only [natDigitsAux]
    split
    · simp
    · exact natDigitsAux_ne_nil fuel _ _ (by omega)

theorem ofNat_ne_nil (n : Nat) : Str.ofNat n ≠ [] := natDigitsAux_ne_nil (n + 1) n [] (by omega)

theorem ofNat_head (n : Nat) : ∃ d r, Str.ofNat n = d :: r ∧ 48 ≤ d ∧ d ≤ 57 := by
  cases h : Str.ofNat n with
  | nil => exact absurd h (ofNat_ne_nil n)
  | cons d r => exact ⟨d, r, rfl, ofNat_digits n d (by rw [h]; simp)⟩

theorem ofNat_notMem {x : Nat} (n : Nat) (h : x < 48 ∨ 57 < x) : x ∉ Str.ofNat n := by
  intro hm
  have := ofNat_digits n x hm
  omega

theorem append_sep_inj {c : Nat} : ∀ {d1 d2 t1 t2 : Str}, c ∉ d1 → c ∉ d2 →
    d1 ++ c :: t1 = d2 ++ c :: t2 → d1 = d2 ∧ t1 = t2
  | [], [], _, _, _, _, h => by simpa using h
  | [], y :: ys, _, _, _, h2, h => by
    simp only [List.nil_append, List.cons_append, List.cons.injEq] at h
    exact absurd (by simp [h.1]) h2
  | x :: xs, [], _, _, h1, _, h => by
    simp only [List.nil_append, List.cons_append, List.cons.injEq] at h
    exact absurd (by simp [h.1]) h1
  | x :: xs, y :: ys, t1, t2, h1, h2, h => by
    simp only [List.cons_append, List.cons.injEq] at h
    have := append_sep_inj (c := c) (d1 := xs) (d2 := ys) (fun m => h1 (by simp [m])) (fun m => h2 (by simp [m])) h.2
    exact ⟨by rw [h.1, this.1], this.2⟩

/-- `s{sid}_{tail}` -/
def mkId (sid : Nat) (tail : Str) : Str := 115 :: (Str.ofNat sid ++ 95 :: tail)

theorem mkId_inj {a b : Nat} {t1 t2 : Str} (h : mkId a t1 = mkId b t2) : a = b ∧ t1 = t2 := by
  simp only [mkId, List.cons.injEq, true_and] at h
  have := append_sep_inj (ofNat_notMem a (Or.inr (by omega))) (ofNat_notMem b (Or.inr (by omega))) h
  exact ⟨C06.ofNat_inj this.1, this.2⟩

theorem spanId_eq (sid n : Nat) : spanId sid n = mkId sid (115 :: 112 :: Str.ofNat n) := by
  simp [spanId, mkId, lit_s, lit_usp]

theorem tokId_eq (sid n : Nat) : tokId sid n = mkId sid (Str.ofNat n) := by
  simp [tokId, mkId, lit_s, lit_us]

theorem ccgId_eq (sid n : Nat) : ccgId sid n = mkId sid (99 :: 99 :: 103 :: Str.ofNat n) := by
  simp [ccgId, mkId, lit_s, lit_uccg]

theorem spanId_inj {sid a b : Nat} (h : spanId sid a = spanId sid b) : a = b := by
  rw [spanId_eq, spanId_eq] at h
  have := (mkId_inj h).2
  simp only [List.cons.injEq, true_and] at this
  exact C06.ofNat_inj this

theorem tokId_inj {sid a b : Nat} (h : tokId sid a = tokId sid b) : a = b := by
  rw [tokId_eq, tokId_eq] at h
  exact C06.ofNat_inj (mkId_inj h).2

theorem ccgId_inj {sid a b : Nat} (h : ccgId sid a = ccgId sid b) : a = b := by
  rw [ccgId_eq, ccgId_eq] at h
  have := (mkId_inj h).2
  simp only [List.cons.injEq, true_and] at this
  exact C06.ofNat_inj this

theorem tok_ne_span (a i b n : Nat) : tokId a i ≠ spanId b n := by
  rw [tokId_eq, spanId_eq]
  intro h
  have := (mkId_inj h).2
  obtain ⟨d, r, hd, h1, h2⟩ := ofNat_head i
  rw [hd] at this
  simp only [List.cons.injEq] at this
  omega

theorem tok_ne_ccg (a i b n : Nat) : tokId a i ≠ ccgId b n := by
  rw [tokId_eq, ccgId_eq]
  intro h
  have := (mkId_inj h).2
  obtain ⟨d, r, hd, h1, h2⟩ := ofNat_head i
  rw [hd] at this
  simp only [List.cons.injEq] at this
  omega

theorem span_ne_ccg (a i b n : Nat) : spanId a i ≠ ccgId b n := by
  rw [spanId_eq, ccgId_eq]
  intro h
  have := (mkId_inj h).2
  simp at this

theorem spanId_noSpace (sid n : Nat) : cSpace ∉ spanId sid n := by
  rw [spanId_eq, mkId]
  have h1 := ofNat_notMem (x := 32) sid (Or.inl (by omega))
  have h2 := ofNat_notMem (x := 32) n (Or.inl (by omega))
  simp [cSpace, h1, h2]

theorem spanId_ne_nil (sid n : Nat) : spanId sid n ≠ [] := by
  rw [spanId_eq, mkId]; simp

theorem split_one (sid n : Nat) : splitOn cSpace (spanId sid n) = [spanId sid n] :=
  C05.splitOn_last _ _ (spanId_noSpace sid n)

theorem split_two (sid n m : Nat) :
    splitOn cSpace (spanId sid n ++ cSpace :: spanId sid m) = [spanId sid n, spanId sid m] := by
  rw [C05.splitOn_sep _ _ _ (spanId_noSpace sid n), split_one]

/-! ### looking spans up by id -/

def idOf (a : Attrs) : Option Str := Dict.get? a (lit "id")

theorem findSpan_of_mem : ∀ (L : List Attrs) (a : Attrs) (id : Str), (L.map idOf).Nodup → a ∈ L →
    idOf a = some id → findSpan L id = some a
  | [], _, _, _, h, _ => by cases h
  | b :: rest, a, id, hn, hm, hid => by
    simp only [List.map_cons, List.nodup_cons] at hn
    simp only [findSpan, List.find?_cons]
    by_cases hb : idOf b = some id
    · have : (Dict.get? b (lit "id") == some id) = true := by simpa [idOf] using hb
      rw [this]
      rcases List.mem_cons.1 hm with h | h
      · rw [h]
      · exfalso
        apply hn.1
        rw [hb, ← hid]
        exact List.mem_map.2 ⟨a, h, rfl⟩
    · have : (Dict.get? b (lit "id") == some id) = false := by
        simpa [idOf] using hb
      rw [this]
      rcases List.mem_cons.1 hm with h | h
      · exact absurd (h ▸ hid) hb
      · exact findSpan_of_mem rest a id hn.2 h hid

/-- the same attributes, `root` apart -/
def Agree (a' a : Attrs) : Prop := ∀ k, k ≠ lit "root" → Dict.get? a' k = Dict.get? a k

theorem Agree.refl (a : Attrs) : Agree a a := fun _ _ => rfl

theorem agree_setRoot (a : Attrs) (v : Str) : Agree (setAttr a (lit "root") v) a :=
  fun _ hk => C06.get?_set_ne _ _ (fun e => hk e.symm)

theorem rootify_map_id (M : List Attrs) : (rootify M).map idOf = M.map idOf := by
  cases M with
  | nil => rfl
  | cons first rest =>
    simp only [rootify, List.map_cons, List.cons.injEq, and_true]
    exact agree_setRoot first _ _ (by decide)

theorem rootify_length (M : List Attrs) : (rootify M).length = M.length := by
  cases M <;> rfl

theorem rootify_mem {M : List Attrs} {a : Attrs} (h : a ∈ M) : ∃ a' ∈ rootify M, Agree a' a := by
  cases M with
  | nil => cases h
  | cons first rest =>
    rcases List.mem_cons.1 h with h | h
    · exact ⟨_, List.mem_cons_self, h ▸ agree_setRoot first _⟩
    · exact ⟨a, List.mem_cons_of_mem _ h, Agree.refl a⟩

theorem mem_rootify {M : List Attrs} {a' : Attrs} (h : a' ∈ rootify M) : ∃ a ∈ M, Agree a' a := by
  cases M with
  | nil => cases h
  | cons first rest =>
    rcases List.mem_cons.1 h with h | h
    · exact ⟨first, List.mem_cons_self, h ▸ agree_setRoot first _⟩
    · exact ⟨a', List.mem_cons_of_mem _ h, Agree.refl a'⟩

/-- every span of `M` is found in `L` under its id, up to the `root` mark -/
def Finds (L M : List Attrs) : Prop :=
  ∀ a ∈ M, ∀ id, idOf a = some id → ∃ a', findSpan L id = some a' ∧ Agree a' a

theorem Finds.mono {L M M' : List Attrs} (h : Finds L M) (hs : ∀ a ∈ M', a ∈ M) : Finds L M' :=
  fun a ha => h a (hs a ha)

theorem finds_rootify (M : List Attrs) (hn : (M.map idOf).Nodup) : Finds (rootify M) M := by
  intro a ha id hid
  obtain ⟨a', ha', hag⟩ := rootify_mem ha
  refine ⟨a', findSpan_of_mem _ a' id (by rw [rootify_map_id]; exact hn) ha' ?_, hag⟩
  rw [← hid]; exact hag _ (by decide)

/-! ### the ids of the spans of one tree -/

theorem exp_ids (sid : Nat) (u : Bool) : ∀ (t : Tree) (n k : Nat),
    (exp sid u t n k).map idOf = (List.range' n (nodes t)).map fun j => some (spanId sid j)
  | .leaf .., n, k => by simp [exp, nodes, idOf, leaf_id]
  | .un _ _ _ ch, n, k => by
    rw [nodes, List.range'_succ]
    simp [exp, idOf, node_id]
    exact exp_ids sid u ch (n + 1) k
  | .bin _ _ _ _ l r, n, k => by
    rw [nodes, List.range'_succ, ← List.range'_append (s := n + 1)]
    simp only [exp, List.map_cons, List.map_append, idOf, node_id, Nat.one_mul]
    congr 1
    congr 1
    · exact exp_ids sid u l (n + 1) k
    · exact exp_ids sid u r (n + 1 + nodes l) (k + l.numLeaves)

theorem nodup_map_of_inj {α β : Type} {f : α → β} (hf : ∀ a b, f a = f b → a = b) {l : List α}
    (h : l.Nodup) : (l.map f).Nodup := by
  rw [List.Nodup, List.pairwise_map]
  exact h.imp (fun hne e => hne (hf _ _ e))

theorem exp_ids_nodup (sid : Nat) (u : Bool) (t : Tree) (n k : Nat) :
    ((exp sid u t n k).map idOf).Nodup := by
  rw [exp_ids]
  exact nodup_map_of_inj (fun a b e => spanId_inj (Option.some.inj e)) (List.nodup_range' 1)

theorem finds_exp (sid : Nat) (u : Bool) (t : Tree) (n k : Nat) :
    Finds (rootify (exp sid u t n k)) (exp sid u t n k) := finds_rootify _ (exp_ids_nodup sid u t n k)

/-! ### ccg2lambda's tree builder -/

theorem kids_one {L : List Attrs} {f : Nat} {k : Str} {b : Built} (h : buildTree L f k = .ok b) :
    buildTree.kids L f [k] = .ok [b] := by
  rw [buildTree.kids.eq_def]
  simp only [h]
  rw [buildTree.kids.eq_def]

theorem kids_two {L : List Attrs} {f : Nat} {k1 k2 : Str} {b1 b2 : Built} (h1 : buildTree L f k1 = .ok b1)
    (h2 : buildTree L f k2 = .ok b2) : buildTree.kids L f [k1, k2] = .ok [b1, b2] := by
  rw [buildTree.kids.eq_def]
  simp only [h1, kids_one h2]

theorem build_iso (sid : Nat) (u : Bool) (L : List Attrs) : ∀ (t : Tree) (n k fuel : Nat),
    nodes t ≤ fuel → Finds L (exp sid u t n k) → ∃ b, buildTree L fuel (spanId sid n) = .ok b ∧ Iso u b t
  | .leaf c tok s y, n, k, 0, hf, _ => by simp [nodes] at hf
  | .un c s y ch, n, k, 0, hf, _ => by simp [nodes] at hf
  | .bin c s y hd l r, n, k, 0, hf, _ => by simp [nodes] at hf
  | .leaf c tok s y, n, k, f + 1, _, hF => by
    obtain ⟨a', hfind, hag⟩ := hF _ List.mem_cons_self (spanId sid n) (leaf_id ..)
    have hch : Dict.get? a' (lit "child") = none := by rw [hag _ (by decide)]; exact leaf_child ..
    refine ⟨.node a' [], ?_, ?_⟩
    · rw [buildTree.eq_2]; simp only [hfind, hch]
    · refine Iso.leaf a' c tok s y ?_ ?_ hch
      · simp only [attr]; rw [hag _ (by decide)]; exact leaf_category ..
      · simp only [attr]; rw [hag _ (by decide), leaf_terminal]; rfl
  | .un c s y ch, n, k, f + 1, hf, hF => by
    obtain ⟨a', hfind, hag⟩ := hF _ List.mem_cons_self (spanId sid n) (node_id ..)
    have hch : Dict.get? a' (lit "child") = some (spanId sid (n + 1)) := by
      rw [hag _ (by decide)]; exact node_child ..
    obtain ⟨b, hb, hiso⟩ := build_iso sid u L ch (n + 1) k f (by simp only [nodes] at hf; omega)
      (hF.mono fun a ha => List.mem_cons_of_mem _ ha)
    refine ⟨.node a' [b], ?_, ?_⟩
    · rw [buildTree.eq_2]
      simp only [hfind, hch, split_one]
      have : List.filter (fun s => !List.isEmpty s) [spanId sid (n + 1)] = [spanId sid (n + 1)] := by
        cases h : spanId sid (n + 1) with
        | nil => exact absurd h (spanId_ne_nil _ _)
        | cons _ _ => rfl
      rw [this]
      simp only [kids_one hb]
    · refine Iso.un a' b c s y ch ?_ ?_ hiso
      · simp only [attr]; rw [hag _ (by decide)]; exact node_category ..
      · simp only [attr]; rw [hag _ (by decide)]; exact node_rule ..
  | .bin c s y hd l r, n, k, f + 1, hf, hF => by
    obtain ⟨a', hfind, hag⟩ := hF _ List.mem_cons_self (spanId sid n) (node_id ..)
    have hch : Dict.get? a' (lit "child") =
        some (spanId sid (n + 1) ++ cSpace :: spanId sid (n + 1 + nodes l)) := by
      rw [hag _ (by decide)]; exact node_child ..
    obtain ⟨b1, hb1, hiso1⟩ := build_iso sid u L l (n + 1) k f (by simp only [nodes] at hf; omega)
      (hF.mono fun a ha => List.mem_cons_of_mem _ (List.mem_append_left _ ha))
    obtain ⟨b2, hb2, hiso2⟩ := build_iso sid u L r (n + 1 + nodes l) (k + l.numLeaves) f
      (by simp only [nodes] at hf; omega)
      (hF.mono fun a ha => List.mem_cons_of_mem _ (List.mem_append_right _ ha))
    refine ⟨.node a' [b1, b2], ?_, ?_⟩
    · rw [buildTree.eq_2]
      simp only [hfind, hch, split_two]
      have : List.filter (fun s => !List.isEmpty s) [spanId sid (n + 1), spanId sid (n + 1 + nodes l)] =
          [spanId sid (n + 1), spanId sid (n + 1 + nodes l)] := by
        cases h : spanId sid (n + 1) with
        | nil => exact absurd h (spanId_ne_nil _ _)
        | cons _ _ =>
          cases h' : spanId sid (n + 1 + nodes l) with
          | nil => exact absurd h' (spanId_ne_nil _ _)
          | cons _ _ => rfl
      rw [this]
      simp only [kids_two hb1 hb2]
    · refine Iso.bin a' b1 b2 c s y hd l r ?_ ?_ hiso1 hiso2
      · simp only [attr]; rw [hag _ (by decide)]; exact node_category ..
      · simp only [attr]; rw [hag _ (by decide)]; exact node_rule ..

theorem build_tree_iso_thm : BuildTreeIsoStatement := by
  intro sid processed next u t root hroot
  rw [process_eq] at hroot ⊢
  simp only [attr] at hroot
  have hr : root = spanId sid next := by
    have : Dict.get? [(lit "id", ccgId sid processed), (lit "root", spanId sid next)] (lit "root")
        = some (spanId sid next) := by
      simp [Dict.get?, lit_id, lit_root]
    rw [this] at hroot
    exact (Option.some.inj hroot).symm
  subst hr
  exact build_iso sid u _ t next 0 _ (by rw [rootify_length, exp_length]; omega) (finds_exp sid u t next 0)

/-! ### dictionaries: filter, set, rename -/

theorem get?_filter (p : Str → Bool) : ∀ (a : Attrs) (k : Str),
    Dict.get? (a.filter fun kv => p kv.1) k = if p k then Dict.get? a k else none
  | [], k => by simp [Dict.get?]
  | (k', v') :: rest, k => by
    by_cases hp : p k' = true
    · rw [List.filter_cons_of_pos (by simpa using hp)]
      simp only [Dict.get?]
      by_cases hk : k' = k
      · subst hk; simp [hp]
      · simp only [hk, if_false]; exact get?_filter p rest k
    · rw [List.filter_cons_of_neg (by simpa using hp)]
      simp only [Dict.get?]
      by_cases hk : k' = k
      · subst hk; rw [get?_filter p rest k']; simp [hp]
      · simp only [hk, if_false]; exact get?_filter p rest k

theorem keys_set_sub (k v : Str) : ∀ (d : Attrs) (k' : Str), k' ∈ (Dict.set d k v).map (·.1) →
    k' = k ∨ k' ∈ d.map (·.1)
  | [], k', h => by simp [Dict.set] at h; exact Or.inl h
  | (k₀, v₀) :: rest, k', h => by
    simp only [Dict.set] at h
    split at h
    · next e =>
      simp only [List.map_cons, List.mem_cons] at h ⊢
      rcases h with h | h
      · exact Or.inl h
      · exact Or.inr (Or.inr h)
    · simp only [List.map_cons, List.mem_cons] at h ⊢
      rcases h with h | h
      · exact Or.inr (Or.inl h)
      · rcases keys_set_sub k v rest k' h with h | h
        · exact Or.inl h
        · exact Or.inr (Or.inr h)

theorem keys_set_nodup (k v : Str) : ∀ (d : Attrs), (d.map (·.1)).Nodup → ((Dict.set d k v).map (·.1)).Nodup
  | [], _ => by simp [Dict.set]
  | (k₀, v₀) :: rest, h => by
    simp only [List.map_cons, List.nodup_cons] at h
    simp only [Dict.set]
    split
    · next e => subst e; simpa using h
    · next e =>
      simp only [List.map_cons, List.nodup_cons]
      refine ⟨fun hm => ?_, keys_set_nodup k v rest h.2⟩
      rcases keys_set_sub k v rest k₀ hm with h' | h'
      · exact e h'
      · exact h.1 h'

theorem keys_filter_sub (p : Str × Str → Bool) (d : Attrs) (k : Str)
    (h : k ∈ (d.filter p).map (·.1)) : k ∈ d.map (·.1) := by
  obtain ⟨kv, hkv, he⟩ := List.mem_map.1 h
  exact List.mem_map.2 ⟨kv, (List.mem_filter.1 hkv).1, he⟩

theorem keys_filter_nodup (p : Str × Str → Bool) (d : Attrs) (h : (d.map (·.1)).Nodup) :
    ((d.filter p).map (·.1)).Nodup :=
  List.Nodup.sublist (List.Sublist.map _ List.filter_sublist) h

theorem keys_rename_sub (old new : Str) (d : Token) (k : Str) (h : k ∈ (renameKey d old new).map (·.1)) :
    k = new ∨ k ∈ d.map (·.1) := by
  unfold renameKey at h
  split at h
  · rcases keys_set_sub _ _ _ _ h with h | h
    · exact Or.inl h
    · exact Or.inr (keys_filter_sub _ _ _ h)
  · exact Or.inr h

theorem keys_rename_nodup (old new : Str) (d : Token) (h : (d.map (·.1)).Nodup) :
    ((renameKey d old new).map (·.1)).Nodup := by
  unfold renameKey
  split
  · exact keys_set_nodup _ _ _ (keys_filter_nodup _ _ h)
  · exact h

theorem get?_rename (old new : Str) (d : Token) (k : Str) :
    Dict.get? (renameKey d old new) k =
      match Dict.get? d old with
      | some v => if k = new then some v else if k = old then none else Dict.get? d k
      | none => Dict.get? d k := by
  unfold renameKey
  cases h : Dict.get? d old with
  | none => rfl
  | some v =>
    simp only
    by_cases hk : k = new
    · subst hk; simp [C06.get?_set_self]
    · rw [C06.get?_set_ne _ _ (fun e => hk e.symm), if_neg hk]
      rw [get?_filter (fun x => x != old)]
      by_cases ho : k = old
      · simp [ho]
      · simp [ho]

theorem get?_none_of_notin {d : Attrs} {k : Str} (h : k ∉ d.map (·.1)) : Dict.get? d k = none :=
  C06.get?_eq_none_iff.2 fun v hv => h (List.mem_map.2 ⟨(k, v), hv, rfl⟩)

/-! ### the `<token>` elements -/

/-- the token after the two renamings -/
def renamed (tok : Token) : Token := renameKey (renameKey tok (lit "word") (lit "surf")) (lit "lemma") (lit "base")

theorem jiggToken_eq (sid idx : Nat) (c : Cat) (tok : Token) :
    jiggToken sid idx c tok = (renamed tok).foldl (fun acc kv => setAttr acc kv.1 kv.2)
      [(lit "start", Str.ofNat idx), (lit "cat", c.str), (lit "id", tokId sid idx)] := rfl

theorem renamed_keys (tok : Token) (k : Str) (h : k ∈ (renamed tok).map (·.1)) :
    k = lit "base" ∨ k = lit "surf" ∨ k ∈ tok.map (·.1) := by
  rcases keys_rename_sub _ _ _ _ h with h | h
  · exact Or.inl h
  · exact Or.inr (keys_rename_sub _ _ _ _ h)

/-- the encoder's `id` survives unless the token itself has an `id` entry -/
theorem jiggToken_id (sid idx : Nat) (c : Cat) (tok : Token) (h : ∀ kv ∈ tok, kv.1 ≠ lit "id") :
    Dict.get? (jiggToken sid idx c tok) (lit "id") = some (tokId sid idx) := by
  rw [jiggToken_eq, foldl_set_notin]
  · simp [Dict.get?, lit_start, lit_cat, lit_id]
  · intro hm
    rcases renamed_keys tok _ hm with h' | h' | h'
    · revert h'; decide
    · revert h'; decide
    · obtain ⟨kv, hkv, he⟩ := List.mem_map.1 h'
      exact h kv hkv he

def rdTok (a : Attrs) : Token :=
  a.filter fun kv => kv.1 != lit "id" && kv.1 != lit "start" && kv.1 != lit "cat"

theorem jiggToken_word (sid idx : Nat) (c : Cat) (tok : Token) (h : JiggTokOK tok) :
    Dict.get? (rdTok (jiggToken sid idx c tok)) (lit "word") = none ∧
    Dict.get? (rdTok (jiggToken sid idx c tok)) (lit "surf") = some (Token.getD tok (lit "word") []) := by
  obtain ⟨⟨w, hw⟩, hres, hnd⟩ := h
  have hw' : Dict.get? tok (lit "word") = some w := hw
  have hnd' : ((renamed tok).map (·.1)).Nodup := keys_rename_nodup _ _ _ (keys_rename_nodup _ _ _ hnd)
  have e1 : ∀ k, Dict.get? (renameKey tok (lit "word") (lit "surf")) k =
      if k = lit "surf" then some w else if k = lit "word" then none else Dict.get? tok k := by
    intro k; rw [get?_rename, hw']
  have hword : Dict.get? (renamed tok) (lit "word") = none := by
    unfold renamed
    rw [get?_rename]
    have : Dict.get? (renameKey tok (lit "word") (lit "surf")) (lit "word") = none := by
      rw [e1]; simp [lit_word, lit_surf]
    split
    · simp [lit_word, lit_base, lit_lemma]; exact this
    · exact this
  have hsurf : Dict.get? (renamed tok) (lit "surf") = some w := by
    unfold renamed
    rw [get?_rename]
    have : Dict.get? (renameKey tok (lit "word") (lit "surf")) (lit "surf") = some w := by
      rw [e1]; simp
    split
    · simp [lit_surf, lit_base, lit_lemma]; exact this
    · exact this
  rw [C08.getD_of_get? hw]
  unfold rdTok
  constructor
  · rw [get?_filter (fun k => k != lit "id" && k != lit "start" && k != lit "cat")]
    rw [jiggToken_eq, foldl_set_get _ _ _ hnd', hword]
    simp [Dict.get?, lit_word, lit_start, lit_cat, lit_id]
  · rw [get?_filter (fun k => k != lit "id" && k != lit "start" && k != lit "cat")]
    rw [jiggToken_eq, foldl_set_get _ _ _ hnd', hsurf]
    simp [lit_surf, lit_start, lit_cat, lit_id]

/-- the `<tokens>` of a sentence -/
def sentToks (sid : Nat) (t : Tree) : List Attrs :=
  ((t.tokens.zip (leafCats t)).zipIdx).map fun x => jiggToken sid x.2 x.1.2 x.1.1

theorem sentToks_eq' (sid : Nat) (t : Tree) :
    ((t.tokens.zip (leafCats t)).zipIdx.map fun ((tok, c), i) => jiggToken sid i c tok) = sentToks sid t := rfl

theorem readTokens_map (sid : Nat) : ∀ (l : List ((Token × Cat) × Nat)),
    (∀ x ∈ l, ∀ kv ∈ x.1.1, kv.1 ≠ lit "id") →
    readJiggTokens (l.map fun x => jiggToken sid x.2 x.1.2 x.1.1) =
      .ok (l.map fun x => (tokId sid x.2, rdTok (jiggToken sid x.2 x.1.2 x.1.1)))
  | [], _ => rfl
  | x :: rest, h => by
    simp only [List.map_cons, readJiggTokens]
    rw [getAttr_of_get? (jiggToken_id sid x.2 x.1.2 x.1.1 (h x List.mem_cons_self))]
    rw [readTokens_map sid rest (fun y hy => h y (List.mem_cons_of_mem _ hy))]
    rfl

theorem find_tok {α : Type} (sid : Nat) (G : α × Nat → Token) : ∀ (xs : List α) (k j : Nat) (y : α),
    xs[j]? = some y →
    ((xs.zipIdx k).map fun x => (tokId sid x.2, G x)).find? (fun p => p.1 == tokId sid (k + j)) =
      some (tokId sid (k + j), G (y, k + j))
  | [], _, _, _, h => by simp at h
  | x :: xs, k, 0, y, h => by
    simp only [List.getElem?_cons_zero, Option.some.injEq] at h
    subst h
    simp [List.zipIdx_cons]
  | x :: xs, k, j + 1, y, h => by
    simp only [List.getElem?_cons_succ] at h
    simp only [List.zipIdx_cons, List.map_cons, List.find?_cons]
    have hne : (tokId sid k == tokId sid (k + (j + 1))) = false := by
      rw [beq_eq_false_iff_ne]
      intro e
      have := tokId_inj e
      omega
    rw [hne]
    have := find_tok sid G xs (k + 1) j y h
    rw [show k + 1 + j = k + (j + 1) by omega] at this
    exact this

theorem leafCats_length : ∀ t : Tree, (leafCats t).length = t.numLeaves
  | .leaf .. => rfl
  | .un _ _ _ ch => leafCats_length ch
  | .bin _ _ _ _ l r => by simp [leafCats, Tree.numLeaves, leafCats_length l, leafCats_length r]

theorem tokens_length : ∀ t : Tree, t.tokens.length = t.numLeaves
  | .leaf .. => rfl
  | .un _ _ _ ch => tokens_length ch
  | .bin _ _ _ _ l r => by simp [Tree.tokens, Tree.numLeaves, tokens_length l, tokens_length r]

theorem allToks_mem {p : Token → Prop} : ∀ {t : Tree}, AllToks p t → ∀ tok ∈ t.tokens, p tok
  | .leaf .., h, tok, hm => by simp only [Tree.tokens, List.mem_singleton] at hm; rw [hm]; exact h
  | .un _ _ _ ch, h, tok, hm => allToks_mem (t := ch) h tok hm
  | .bin _ _ _ _ l r, h, tok, hm => by
    rcases List.mem_append.1 hm with hm | hm
    · exact allToks_mem h.1 tok hm
    · exact allToks_mem h.2 tok hm

/-! ### the multi-valued spelling of Japanese categories -/

theorem catMulti_ternary : ∀ c : Cat, C14.AllTernary c → catMulti c = c.str
  | .atom b (.tri ..), _ => rfl
  | .atom b (.un _), h => by simp [C14.AllTernary] at h
  | .fn l s r, h => by
    have hl := catMulti_ternary l h.1
    have hr := catMulti_ternary r h.2
    simp only [catMulti] at hl hr ⊢
    simp only [catMultiRec, Cat.str, hl, hr]

/-! ### reading the spans of one tree back -/

def wordOf (tok : Token) : Str := Token.getD tok (lit "word") []

/-- the reader finds every token of the sentence under its id, with the word under `surf` -/
def TokTable (sid : Nat) (toks : List (Str × Token)) (W : List Str) : Prop :=
  ∀ j w, W[j]? = some w → ∃ p, toks.find? (fun p => p.1 == tokId sid j) = some p ∧
    Dict.get? p.2 (lit "word") = none ∧ Dict.get? p.2 (lit "surf") = some w

theorem shapeWords_terminal (w : Str) (c : Cat) :
    shapeWords (Tree.mkTerminal [(lit "word", w)] c) = .leaf c [(lit "word", w)] [] [] := by
  simp [shapeWords, Tree.mkTerminal, Token.getD, Dict.get?]

theorem read_span (sid : Nat) (u : Bool) (L : List Attrs) (toks : List (Str × Token)) (W : List Str)
    (hW : TokTable sid toks W) : ∀ (t : Tree) (n k fuel : Nat) (pre post : List Str),
    nodes t ≤ fuel → Finds L (exp sid u t n k) → AllCats C05.WF t → AllCats C14.AllTernary t →
    W = pre ++ t.tokens.map wordOf ++ post → pre.length = k →
    ∃ t', readJiggSpan .ja L toks fuel (spanId sid n) = .ok t' ∧ shapeWords t' = shapeWords t ∧ t'.cat = t.cat
  | .leaf c tok s y, n, k, 0, _, _, hf, _, _, _, _, _ => by simp [nodes] at hf
  | .un c s y ch, n, k, 0, _, _, hf, _, _, _, _, _ => by simp [nodes] at hf
  | .bin c s y hd l r, n, k, 0, _, _, hf, _, _, _, _, _ => by simp [nodes] at hf
  | .leaf c tok s y, n, k, f + 1, pre, post, _, hF, hw, h3, hWeq, hpre => by
    obtain ⟨a', hfind, hag⟩ := hF _ List.mem_cons_self (spanId sid n) (leaf_id ..)
    have hcat : getAttr a' (lit "category") = .ok c.str := by
      apply getAttr_of_get?
      rw [hag _ (by decide), leaf_category, catMulti_ternary c h3]
    have hterm : Dict.get? a' (lit "terminal") = some (tokId sid k) := by
      rw [hag _ (by decide)]; exact leaf_terminal ..
    have hj : W[k]? = some (wordOf tok) := by
      rw [hWeq, ← hpre]; simp [Tree.tokens]
    obtain ⟨⟨pid, ptok⟩, hp, hpw, hps⟩ := hW k _ hj
    refine ⟨Tree.mkTerminal [(lit "word", wordOf tok)] c, ?_, ?_, rfl⟩
    · rw [readJiggSpan]
      simp only [hfind, hcat, hterm, C05.parse_print c hw, hp]
      simp only at hpw hps
      simp only [hpw, hps]
    · rw [shapeWords_terminal]; rfl
  | .un c s y ch, n, k, f + 1, pre, post, hf, hF, hw, h3, hWeq, hpre => by
    obtain ⟨a', hfind, hag⟩ := hF _ List.mem_cons_self (spanId sid n) (node_id ..)
    have hcat : getAttr a' (lit "category") = .ok c.str := by
      apply getAttr_of_get?
      rw [hag _ (by decide), node_category, catMulti_ternary c h3.1]
    have hterm : Dict.get? a' (lit "terminal") = none := by
      rw [hag _ (by decide)]; exact node_terminal ..
    have hch : getAttr a' (lit "child") = .ok (spanId sid (n + 1)) := by
      apply getAttr_of_get?
      rw [hag _ (by decide)]; exact node_child ..
    obtain ⟨t', ht', hs', hc'⟩ := read_span sid u L toks W hW ch (n + 1) k f pre post
      (by simp only [nodes] at hf; omega) (hF.mono fun a ha => List.mem_cons_of_mem _ ha) hw.2 h3.2 hWeq hpre
    refine ⟨Tree.mkUnary c t', ?_, ?_, rfl⟩
    · rw [readJiggSpan]
      simp only [hfind, hcat, hterm, C05.parse_print c hw.1, hch, split_one, ht']
    · simp only [shapeWords, Tree.mkUnary, hs']
  | .bin c s y hd l r, n, k, f + 1, pre, post, hf, hF, hw, h3, hWeq, hpre => by
    obtain ⟨a', hfind, hag⟩ := hF _ List.mem_cons_self (spanId sid n) (node_id ..)
    have hcat : getAttr a' (lit "category") = .ok c.str := by
      apply getAttr_of_get?
      rw [hag _ (by decide), node_category, catMulti_ternary c h3.1]
    have hterm : Dict.get? a' (lit "terminal") = none := by
      rw [hag _ (by decide)]; exact node_terminal ..
    have hch : getAttr a' (lit "child") =
        .ok (spanId sid (n + 1) ++ cSpace :: spanId sid (n + 1 + nodes l)) := by
      apply getAttr_of_get?
      rw [hag _ (by decide)]; exact node_child ..
    obtain ⟨tl, htl, hsl, hcl⟩ := read_span sid u L toks W hW l (n + 1) k f pre (r.tokens.map wordOf ++ post)
      (by simp only [nodes] at hf; omega)
      (hF.mono fun a ha => List.mem_cons_of_mem _ (List.mem_append_left _ ha)) hw.2.1 h3.2.1
      (by rw [hWeq]; simp [Tree.tokens]) hpre
    obtain ⟨tr, htr, hsr, hcr⟩ := read_span sid u L toks W hW r (n + 1 + nodes l) (k + l.numLeaves) f
      (pre ++ l.tokens.map wordOf) post
      (by simp only [nodes] at hf; omega)
      (hF.mono fun a ha => List.mem_cons_of_mem _ (List.mem_append_right _ ha)) hw.2.2 h3.2.2
      (by rw [hWeq]; simp [Tree.tokens]) (by simp [hpre, tokens_length])
    obtain ⟨rs, hrs⟩ := C14.total_ja none tl.cat tr.cat (by rw [hcl]; exact C08.allCats_cat h3.2.1)
      (by rw [hcr]; exact C08.allCats_cat h3.2.2)
    have hg : ∃ rule, guess .ja c tl.cat tr.cat = .ok rule := by
      simp only [guess, binaryRules, hrs]
      split
      · exact ⟨_, rfl⟩
      · exact ⟨_, rfl⟩
    obtain ⟨rule, hg⟩ := hg
    refine ⟨.bin c rule.opString rule.opSymbol rule.headLeft tl tr, ?_, ?_, rfl⟩
    · rw [readJiggSpan]
      simp only [hfind, hcat, hterm, C05.parse_print c hw.1, hch, split_two, htl, htr, hg]
    · simp only [shapeWords, hsl, hsr]

theorem go_trees (sid : Nat) (u : Bool) (toks : List (Str × Token)) (W : List Str)
    (hW : TokTable sid toks W) : ∀ (ts : List Tree) (processed next : Nat),
    (∀ t ∈ ts, AllCats C05.WF t ∧ AllCats C14.AllTernary t ∧ t.tokens.map wordOf = W) →
    ∃ rs, readJiggSentence.go .ja toks (jiggTrees sid u ts processed next) = .ok rs ∧
      rs.map (fun r => shapeWords r.1) = ts.map shapeWords
  | [], _, _, _ => ⟨[], rfl, rfl⟩
  | t :: ts, processed, next, h => by
    obtain ⟨h1, h2, h3⟩ := h t List.mem_cons_self
    obtain ⟨rs, hrs, hmap⟩ := go_trees sid u toks W hW ts (processed + 1) (next + nodes t)
      (fun t' ht' => h t' (List.mem_cons_of_mem _ ht'))
    obtain ⟨t', ht', hs', _⟩ := read_span sid u (rootify (exp sid u t next 0)) toks W hW t next 0
      ((rootify (exp sid u t next 0)).length + 1) [] []
      (by rw [rootify_length, exp_length]; omega) (finds_exp sid u t next 0) h1 h2 (by simp [h3]) rfl
    refine ⟨(t', toks.map (·.2)) :: rs, ?_, by simp [hs', hmap]⟩
    rw [trees_eq]
    simp only
    rw [readJiggSentence.go]
    have hroot : getAttr [(lit "id", ccgId sid processed), (lit "root", spanId sid next)] (lit "root")
        = .ok (spanId sid next) := by
      simp [getAttr, Dict.get?, lit_id, lit_root]
    simp only [hroot, ht', hrs]

theorem sentToks_eq (sid : Nat) (t : Tree) :
    ((t.tokens.zip (leafCats t)).zipIdx.map fun ((tok, c), i) => jiggToken sid i c tok) = sentToks sid t := rfl

theorem tokTable_sent (sid : Nat) (t : Tree) (ht : AllToks JiggTokOK t) :
    TokTable sid (((t.tokens.zip (leafCats t)).zipIdx).map fun x =>
      (tokId sid x.2, rdTok (jiggToken sid x.2 x.1.2 x.1.1))) (t.tokens.map wordOf) := by
  intro j w hj
  rw [List.getElem?_map] at hj
  cases htok : t.tokens[j]? with
  | none => rw [htok] at hj; cases hj
  | some tok =>
    rw [htok] at hj
    simp only [Option.map_some, Option.some.injEq] at hj
    have hjl : j < (leafCats t).length := by
      rw [leafCats_length, ← tokens_length]
      exact (List.getElem?_eq_some_iff.1 htok).1
    have hzip : (t.tokens.zip (leafCats t))[j]? = some (tok, (leafCats t)[j]) :=
      List.getElem?_zip_eq_some.2 ⟨htok, List.getElem?_eq_getElem hjl⟩
    have := find_tok sid (fun x => rdTok (jiggToken sid x.2 x.1.2 x.1.1)) _ 0 j _ hzip
    rw [Nat.zero_add] at this
    refine ⟨_, this, ?_⟩
    have hok : JiggTokOK tok := allToks_mem ht tok (List.mem_of_getElem? htok)
    have := jiggToken_word sid j (leafCats t)[j] tok hok
    rw [← hj]
    exact this

theorem jigg_roundtrip_ja_thm : JiggRoundtripJaStatement := by
  intro trees ss hne hall hsame hjigg
  cases trees with
  | nil => exact absurd rfl hne
  | cons t ts =>
    simp only [jiggOf, jiggOfAux] at hjigg
    cases hjigg
    simp only
    rw [sentToks_eq]
    have htoks : AllToks JiggTokOK t := (hall t List.mem_cons_self).2.2
    have hread : readJiggTokens (sentToks 0 t) = .ok (((t.tokens.zip (leafCats t)).zipIdx).map fun x =>
        (tokId 0 x.2, rdTok (jiggToken 0 x.2 x.1.2 x.1.1))) := by
      apply readTokens_map
      intro x hx kv hkv
      have hx1 : x.1 ∈ t.tokens.zip (leafCats t) := by
        have : x.1 ∈ List.map Prod.fst ((t.tokens.zip (leafCats t)).zipIdx) := List.mem_map.2 ⟨x, hx, rfl⟩
        rwa [List.zipIdx_eq_zip_range', List.map_fst_zip (by simp)] at this
      have hx2 : x.1.1 ∈ t.tokens := (List.of_mem_zip (a := x.1.1) (b := x.1.2) hx1).1
      have := (allToks_mem htoks _ hx2).2.1 kv hkv
      intro e; apply this; rw [e]; decide
    obtain ⟨rs, hrs, hmap⟩ := go_trees 0 true _ _ (tokTable_sent 0 t htoks) (t :: ts) 0 0 (by
      intro t' ht'
      refine ⟨(hall t' ht').1, (hall t' ht').2.1, ?_⟩
      rw [hsame t' ht' t List.mem_cons_self])
    refine ⟨rs, ?_, hmap⟩
    simp only [readJiggSentence, hread]
    exact hrs

/-! ### facts about the spans of one tree -/

inductive Shape : Attrs → Prop
  | leaf (cm id x b e : Str) : Shape (leafAttrs cm id x b e)
  | node (cm id x r b e : Str) : Shape (nodeAttrs cm id x r b e)

theorem exp_shape (sid : Nat) (u : Bool) : ∀ (t : Tree) (n k : Nat), ∀ a ∈ exp sid u t n k, Shape a
  | .leaf .., n, k, a, h => by
    simp only [exp, List.mem_singleton] at h; rw [h]; exact Shape.leaf ..
  | .un _ _ _ ch, n, k, a, h => by
    simp only [exp, List.mem_cons] at h
    rcases h with h | h
    · rw [h]; exact Shape.node ..
    · exact exp_shape sid u ch _ _ a h
  | .bin _ _ _ _ l r, n, k, a, h => by
    simp only [exp, List.mem_cons, List.mem_append] at h
    rcases h with h | h | h
    · rw [h]; exact Shape.node ..
    · exact exp_shape sid u l _ _ a h
    · exact exp_shape sid u r _ _ a h

theorem Shape.has_id {a : Attrs} (h : Shape a) : ∃ id, Dict.get? a (lit "id") = some id := by
  cases h with
  | leaf cm id x b e => exact ⟨id, leaf_id ..⟩
  | node cm id x r b e => exact ⟨id, node_id ..⟩

theorem Shape.no_root {a : Attrs} (h : Shape a) : Dict.get? a (lit "root") = none := by
  cases h with
  | leaf cm id x b e => exact leaf_root ..
  | node cm id x r b e => exact node_root ..

theorem Shape.leaf_or_internal {a : Attrs} (h : Shape a) :
    (Dict.get? a (lit "terminal")).isSome ≠ (Dict.get? a (lit "child")).isSome := by
  cases h with
  | leaf cm id x b e => rw [leaf_terminal, leaf_child]; simp
  | node cm id x r b e => rw [node_terminal, node_child]; simp

theorem Shape.has_rule {a : Attrs} (h : Shape a) (hc : (Dict.get? a (lit "child")).isSome) :
    (Dict.get? a (lit "rule")).isSome := by
  cases h with
  | leaf cm id x b e => rw [leaf_child] at hc; cases hc
  | node cm id x r b e => rw [node_rule]; rfl

/-- the entry of the node itself comes first -/
theorem exp_cons (sid : Nat) (u : Bool) : ∀ (t : Tree) (n k : Nat), ∃ a rest, exp sid u t n k = a :: rest ∧
    Dict.get? a (lit "id") = some (spanId sid n) ∧ Dict.get? a (lit "begin") = some (Str.ofNat k) ∧
    Dict.get? a (lit "end") = some (Str.ofNat (k + t.numLeaves))
  | .leaf .., _, _ => ⟨_, _, rfl, leaf_id .., leaf_begin .., leaf_end ..⟩
  | .un .., _, _ => ⟨_, _, rfl, node_id .., node_begin .., node_end ..⟩
  | .bin .., _, _ => ⟨_, _, rfl, node_id .., node_begin .., node_end ..⟩

theorem exp_head_mem (sid : Nat) (u : Bool) (t : Tree) (n k : Nat) : ∃ a ∈ exp sid u t n k,
    idOf a = some (spanId sid n) ∧ Dict.get? a (lit "begin") = some (Str.ofNat k) ∧
    Dict.get? a (lit "end") = some (Str.ofNat (k + t.numLeaves)) := by
  obtain ⟨a, rest, he, h1, h2, h3⟩ := exp_cons sid u t n k
  exact ⟨a, by rw [he]; exact List.mem_cons_self, h1, h2, h3⟩

/-- terminals point at the leaf positions the tree covers -/
theorem exp_terminals (sid : Nat) (u : Bool) : ∀ (t : Tree) (n k : Nat), ∀ a ∈ exp sid u t n k, ∀ x,
    Dict.get? a (lit "terminal") = some x → ∃ j, k ≤ j ∧ j < k + t.numLeaves ∧ x = tokId sid j
  | .leaf .., n, k, a, h, x, hx => by
    simp only [exp, List.mem_singleton] at h
    rw [h, leaf_terminal] at hx
    exact ⟨k, Nat.le_refl _, by simp [Tree.numLeaves], (Option.some.inj hx).symm⟩
  | .un _ _ _ ch, n, k, a, h, x, hx => by
    simp only [exp, List.mem_cons] at h
    rcases h with h | h
    · rw [h, node_terminal] at hx; cases hx
    · exact exp_terminals sid u ch _ _ a h x hx
  | .bin _ _ _ _ l r, n, k, a, h, x, hx => by
    simp only [exp, List.mem_cons, List.mem_append] at h
    rcases h with h | h | h
    · rw [h, node_terminal] at hx; cases hx
    · obtain ⟨j, h1, h2, h3⟩ := exp_terminals sid u l _ _ a h x hx
      exact ⟨j, h1, by simp only [Tree.numLeaves]; omega, h3⟩
    · obtain ⟨j, h1, h2, h3⟩ := exp_terminals sid u r _ _ a h x hx
      exact ⟨j, by omega, by simp only [Tree.numLeaves]; omega, h3⟩

/-- what an internal span says about its children -/
def ChildOK (M : List Attrs) (a : Attrs) (ch : Str) : Prop :=
  ∃ fa ∈ M, ∃ la ∈ M, ∃ first last, idOf fa = some first ∧ idOf la = some last ∧
    (splitOn cSpace ch = [first] ∧ first = last ∨ splitOn cSpace ch = [first, last]) ∧
    Dict.get? a (lit "begin") = Dict.get? fa (lit "begin") ∧ Dict.get? a (lit "end") = Dict.get? la (lit "end")

theorem ChildOK.mono {M M' : List Attrs} {a : Attrs} {ch : Str} (h : ChildOK M a ch) (hs : ∀ x ∈ M, x ∈ M') :
    ChildOK M' a ch := by
  obtain ⟨fa, hfa, la, hla, rest⟩ := h
  exact ⟨fa, hs _ hfa, la, hs _ hla, rest⟩

theorem exp_children (sid : Nat) (u : Bool) : ∀ (t : Tree) (n k : Nat), ∀ a ∈ exp sid u t n k, ∀ ch,
    Dict.get? a (lit "child") = some ch → ChildOK (exp sid u t n k) a ch
  | .leaf .., n, k, a, h, x, hx => by
    simp only [exp, List.mem_singleton] at h
    rw [h, leaf_child] at hx; cases hx
  | .un c s y ch, n, k, a, h, x, hx => by
    simp only [exp, List.mem_cons] at h
    rcases h with h | h
    · rw [h, node_child] at hx
      cases hx
      obtain ⟨fa, hfa, h1, h2, h3⟩ := exp_head_mem sid u ch (n + 1) k
      refine ⟨fa, ?_, fa, ?_, spanId sid (n + 1), spanId sid (n + 1), h1, h1,
        Or.inl ⟨split_one _ _, rfl⟩, ?_, ?_⟩
      · simp only [exp]; exact List.mem_cons_of_mem _ hfa
      · simp only [exp]; exact List.mem_cons_of_mem _ hfa
      · rw [h, node_begin, h2]
      · rw [h, node_end, h3]
    · exact (exp_children sid u ch _ _ a h x hx).mono fun z hz => by
        simp only [exp]; exact List.mem_cons_of_mem _ hz
  | .bin c s y hd l r, n, k, a, h, x, hx => by
    simp only [exp, List.mem_cons, List.mem_append] at h
    rcases h with h | h | h
    · rw [h, node_child] at hx
      cases hx
      obtain ⟨fa, hfa, f1, f2, f3⟩ := exp_head_mem sid u l (n + 1) k
      obtain ⟨la, hla, l1, l2, l3⟩ := exp_head_mem sid u r (n + 1 + nodes l) (k + l.numLeaves)
      refine ⟨fa, ?_, la, ?_, spanId sid (n + 1), spanId sid (n + 1 + nodes l), f1, l1,
        Or.inr (split_two _ _ _), ?_, ?_⟩
      · simp only [exp]; exact List.mem_cons_of_mem _ (List.mem_append_left _ hfa)
      · simp only [exp]; exact List.mem_cons_of_mem _ (List.mem_append_right _ hla)
      · rw [h, node_begin, f2]
      · rw [h, node_end, l3, Nat.add_assoc]
    · exact (exp_children sid u l _ _ a h x hx).mono fun z hz => by
        simp only [exp]; exact List.mem_cons_of_mem _ (List.mem_append_left _ hz)
    · exact (exp_children sid u r _ _ a h x hx).mono fun z hz => by
        simp only [exp]; exact List.mem_cons_of_mem _ (List.mem_append_right _ hz)

/-! ### decoding positions -/

theorem natOf_digits (F : Option Nat → Nat → Option Nat)
    (hF : ∀ a c, 48 ≤ c ∧ c ≤ 57 → F (some a) c = some (a * 10 + (c - 48))) :
    ∀ (d : Str) (a : Nat), (∀ c ∈ d, 48 ≤ c ∧ c ≤ 57) → d.foldl F (some a) = some (C06.decode a d)
  | [], a, _ => rfl
  | c :: d, a, h => by
    have hc := h c List.mem_cons_self
    simp only [List.foldl_cons, hF a c hc, C06.decode]
    have := natOf_digits F hF d (a * 10 + (c - 48)) (fun x hx => h x (List.mem_cons_of_mem _ hx))
    rw [this, Nat.mul_comm]
    rfl

theorem natOf_ofNat (n : Nat) : natOf (some (Str.ofNat n)) = some n := by
  simp only [natOf]
  rw [natOf_digits _ _ _ _ (ofNat_digits n), C06.decode_ofNat]
  intro a c hc
  simp [hc]

/-- the terminal spans tile the leaf positions -/
theorem exp_tile (sid : Nat) (u : Bool) : ∀ (t : Tree) (n k : Nat),
    ((exp sid u t n k).filter fun a => (attr a "terminal").isSome).map
      (fun a => (natOf (attr a "begin"), natOf (attr a "end"))) =
    (List.range' k t.numLeaves).map fun i => (some i, some (i + 1))
  | .leaf .., n, k => by
    simp [exp, attr, leaf_terminal, leaf_begin, leaf_end, natOf_ofNat, Tree.numLeaves]
  | .un _ _ _ ch, n, k => by
    simp only [exp, Tree.numLeaves]
    rw [List.filter_cons_of_neg (by simp [attr, node_terminal])]
    exact exp_tile sid u ch (n + 1) k
  | .bin _ _ _ _ l r, n, k => by
    simp only [exp, Tree.numLeaves]
    rw [List.filter_cons_of_neg (by simp [attr, node_terminal])]
    rw [List.filter_append, List.map_append, exp_tile sid u l, exp_tile sid u r,
      ← List.range'_append (s := k), List.map_append, Nat.one_mul]

/-! ### one `<ccg>` is well-formed -/

theorem filterMap_of_map_some {α β : Type} (f : α → Option β) : ∀ (l : List α) (ys : List β),
    l.map f = ys.map some → l.filterMap f = ys
  | [], [], _ => rfl
  | [], _ :: _, h => by simp at h
  | _ :: _, [], h => by simp at h
  | x :: xs, y :: ys, h => by
    simp only [List.map_cons, List.cons.injEq] at h
    rw [List.filterMap_cons, h.1]
    simp only
    rw [filterMap_of_map_some f xs ys h.2]

theorem spanIds_eq (sid : Nat) (u : Bool) (t : Tree) (n : Nat) (at' : Attrs) :
    spanIds ⟨at', rootify (exp sid u t n 0)⟩ = (List.range' n (nodes t)).map (spanId sid) := by
  unfold spanIds
  apply filterMap_of_map_some
  have := exp_ids sid u t n 0
  rw [← rootify_map_id] at this
  simp only [List.map_map]
  exact this

theorem rootify_filter_map {β : Type} (p : Attrs → Bool) (g : Attrs → β)
    (h : ∀ a' a, Agree a' a → p a' = p a ∧ g a' = g a) (M : List Attrs) :
    ((rootify M).filter p).map g = (M.filter p).map g := by
  cases M with
  | nil => rfl
  | cons first rest =>
    obtain ⟨h1, h2⟩ := h _ _ (agree_setRoot first (lit "true"))
    simp only [rootify, List.filter_cons, h1]
    split
    · simp only [List.map_cons, h2]
    · rfl

theorem mem_spanIds_of {sid : Nat} {u : Bool} {t : Tree} {n : Nat} {at' : Attrs} {a : Attrs} {id : Str}
    (ha : a ∈ exp sid u t n 0) (hid : idOf a = some id) : id ∈ spanIds ⟨at', rootify (exp sid u t n 0)⟩ := by
  obtain ⟨a', ha', hag⟩ := rootify_mem ha
  unfold spanIds
  rw [List.mem_filterMap]
  refine ⟨a', ha', ?_⟩
  simp only [attr]
  rw [hag _ (by decide)]
  exact hid

theorem ccg_wf (sid : Nat) (u : Bool) (t : Tree) (n p N : Nat) (hN : t.numLeaves = N) :
    CcgWellFormed ((List.range' 0 N).map (tokId sid)) t.numLeaves
      ⟨[(lit "id", ccgId sid p), (lit "root", spanId sid n)], rootify (exp sid u t n 0)⟩ := by
  have hfinds := finds_exp sid u t n 0
  refine
    { ids_nodup := ?_, every_span_has_id := ?_, one_root := ?_, terminals_resolve := ?_,
      children_resolve := ?_, leaf_or_internal := ?_, internal_has_rule := ?_, leaves_tile := ?_,
      spans_cover_children := ?_ }
  · rw [spanIds_eq]
    exact nodup_map_of_inj (fun a b e => spanId_inj e) (List.nodup_range' 1)
  · intro a' ha'
    obtain ⟨a, ha, hag⟩ := mem_rootify ha'
    obtain ⟨id, hid⟩ := (exp_shape sid u t n 0 a ha).has_id
    exact ⟨id, by simp only [attr]; rw [hag _ (by decide)]; exact hid⟩
  · refine ⟨spanId sid n, by simp [attr, Dict.get?, lit_id, lit_root], ?_⟩
    obtain ⟨first, rest, he, hid, _, _⟩ := exp_cons sid u t n 0
    simp only [he, rootify]
    have h1 : (attr (setAttr first (lit "root") (lit "true")) "root" == some (lit "true")) = true := by
      simp only [attr, setAttr, C06.get?_set_self]; simp
    rw [List.filter_cons_of_pos (p := fun a => attr a "root" == some (lit "true")) h1]
    have h2 : rest.filter (fun a => attr a "root" == some (lit "true")) = [] := by
      rw [List.filter_eq_nil_iff]
      intro a ha
      have : a ∈ exp sid u t n 0 := by rw [he]; exact List.mem_cons_of_mem _ ha
      simp only [attr, (exp_shape sid u t n 0 a this).no_root]
      simp
    rw [h2]
    simp only [List.map_cons, List.map_nil, attr]
    rw [agree_setRoot first _ _ (by decide), hid]
  · intro a' ha' x hx
    obtain ⟨a, ha, hag⟩ := mem_rootify ha'
    simp only [attr] at hx
    rw [hag _ (by decide)] at hx
    obtain ⟨j, _, h2, h3⟩ := exp_terminals sid u t n 0 a ha x hx
    rw [h3]
    exact List.mem_map.2 ⟨j, by rw [List.mem_range']; exact ⟨j, by omega, by omega⟩, rfl⟩
  · intro a' ha' ch hch k hk
    obtain ⟨a, ha, hag⟩ := mem_rootify ha'
    simp only [attr] at hch
    rw [hag _ (by decide)] at hch
    obtain ⟨fa, hfa, la, hla, first, last, hf, hl, hsplit, _, _⟩ := exp_children sid u t n 0 a ha ch hch
    rcases hsplit with ⟨hs, _⟩ | hs
    · rw [hs] at hk
      simp only [List.mem_singleton] at hk
      rw [hk]; exact mem_spanIds_of hfa hf
    · rw [hs] at hk
      simp only [List.mem_cons, List.not_mem_nil, or_false] at hk
      rcases hk with hk | hk
      · rw [hk]; exact mem_spanIds_of hfa hf
      · rw [hk]; exact mem_spanIds_of hla hl
  · intro a' ha'
    obtain ⟨a, ha, hag⟩ := mem_rootify ha'
    simp only [attr]
    rw [hag _ (by decide), hag _ (by decide)]
    exact (exp_shape sid u t n 0 a ha).leaf_or_internal
  · intro a' ha' hc
    obtain ⟨a, ha, hag⟩ := mem_rootify ha'
    simp only [attr] at hc ⊢
    rw [hag _ (by decide)] at hc
    rw [hag _ (by decide)]
    exact (exp_shape sid u t n 0 a ha).has_rule hc
  · simp only
    rw [rootify_filter_map, exp_tile, List.range_eq_range']
    intro a' a hag
    simp only [attr]
    rw [hag _ (by decide), hag _ (by decide), hag _ (by decide)]
    exact ⟨rfl, rfl⟩
  · intro a' ha' ch hch
    obtain ⟨a, ha, hag⟩ := mem_rootify ha'
    simp only [attr] at hch
    rw [hag _ (by decide)] at hch
    obtain ⟨fa, hfa, la, hla, first, last, hf, hl, hsplit, hb, he⟩ := exp_children sid u t n 0 a ha ch hch
    obtain ⟨fa', hfa', hagf⟩ := hfinds fa hfa first hf
    obtain ⟨la', hla', hagl⟩ := hfinds la hla last hl
    refine ⟨first, last, fa', la', ?_, ?_, hfa', hla', ?_, ?_⟩
    · rcases hsplit with ⟨hs, _⟩ | hs <;> rw [hs] <;> rfl
    · rcases hsplit with ⟨hs, hfl⟩ | hs
      · rw [hs, hfl]; rfl
      · rw [hs]; rfl
    · simp only [attr]; rw [hag _ (by decide), hagf _ (by decide)]; exact hb
    · simp only [attr]; rw [hag _ (by decide), hagl _ (by decide)]; exact he

/-! ### the `<ccg>`s of one sentence -/

def totalNodes : List Tree → Nat
  | [] => 0
  | t :: ts => nodes t + totalNodes ts

theorem jiggTrees_length (sid : Nat) (u : Bool) : ∀ (ts : List Tree) (p n : Nat),
    (jiggTrees sid u ts p n).length = ts.length
  | [], _, _ => rfl
  | t :: ts, p, n => by rw [trees_eq]; simp [jiggTrees_length sid u ts]

theorem trees_spanIds (sid : Nat) (u : Bool) : ∀ (ts : List Tree) (p n : Nat),
    ((jiggTrees sid u ts p n).map spanIds).flatten = (List.range' n (totalNodes ts)).map (spanId sid)
  | [], _, _ => rfl
  | t :: ts, p, n => by
    rw [trees_eq]
    simp only [List.map_cons, List.flatten_cons, totalNodes]
    rw [spanIds_eq, trees_spanIds sid u ts, ← List.range'_append (s := n), List.map_append, Nat.one_mul]

theorem trees_ccgIds (sid : Nat) (u : Bool) : ∀ (ts : List Tree) (p n : Nat),
    (jiggTrees sid u ts p n).filterMap (fun c => attr c.attrs "id") =
      (List.range' p ts.length).map (ccgId sid)
  | [], _, _ => rfl
  | t :: ts, p, n => by
    rw [trees_eq]
    simp only [List.length_cons, List.range'_succ, List.map_cons]
    rw [List.filterMap_cons]
    have : attr [(lit "id", ccgId sid p), (lit "root", spanId sid n)] "id" = some (ccgId sid p) := by
      simp [attr, Dict.get?]
    simp only [this]
    rw [trees_ccgIds sid u ts]

theorem trees_wf (sid : Nat) (u : Bool) (N : Nat) : ∀ (ts : List Tree) (p n : Nat),
    (∀ t ∈ ts, t.numLeaves = N) → ∀ q ∈ (jiggTrees sid u ts p n).zip ts,
      CcgWellFormed ((List.range' 0 N).map (tokId sid)) q.2.numLeaves q.1
  | [], _, _, _, q, hq => by simp [jiggTrees] at hq
  | t :: ts, p, n, h, q, hq => by
    rw [trees_eq] at hq
    simp only [List.zip_cons_cons, List.mem_cons] at hq
    rcases hq with hq | hq
    · rw [hq]
      exact ccg_wf sid u t n p N (h t List.mem_cons_self)
    · exact trees_wf sid u N ts _ _ (fun t' ht' => h t' (List.mem_cons_of_mem _ ht')) q hq

/-! ### the `<tokens>` of one sentence -/

theorem sent_tokenIds (sid : Nat) (t : Tree) (ccgs : List JCcg) (h : AllToks NoIdKey t) :
    tokenIds ⟨sentToks sid t, ccgs⟩ = (List.range' 0 t.numLeaves).map (tokId sid) := by
  unfold tokenIds
  apply filterMap_of_map_some
  simp only [sentToks, List.map_map]
  have hlen : (t.tokens.zip (leafCats t)).length = t.numLeaves := by
    simp [List.length_zip, tokens_length, leafCats_length]
  rw [← hlen]
  have := zipIdx_map_snd (fun i => some (tokId sid i)) (t.tokens.zip (leafCats t)) 0
  have e : (some ∘ tokId sid) = fun i => some (tokId sid i) := rfl
  rw [e, ← this]
  apply List.map_congr_left
  intro x hx
  have hx1 : x.1 ∈ t.tokens.zip (leafCats t) := by
    have : x.1 ∈ List.map Prod.fst ((t.tokens.zip (leafCats t)).zipIdx) := List.mem_map.2 ⟨x, hx, rfl⟩
    rwa [List.zipIdx_eq_zip_range', List.map_fst_zip (by simp)] at this
  have hx2 : x.1.1 ∈ t.tokens := (List.of_mem_zip (a := x.1.1) (b := x.1.2) hx1).1
  simp only [Function.comp, attr]
  exact jiggToken_id sid x.2 x.1.2 x.1.1 (allToks_mem h _ hx2)

/-! ### all ids of a sentence, and of the document -/

def docIds (s : JSentence) : List Str :=
  tokenIds s ++ (s.ccgs.map spanIds).flatten ++ s.ccgs.filterMap (fun c => attr c.attrs "id")

def IsId (sid : Nat) (x : Str) : Prop := ∃ tail, x = mkId sid tail

theorem IsId.unique {a b : Nat} {x : Str} (ha : IsId a x) (hb : IsId b x) : a = b := by
  obtain ⟨t1, h1⟩ := ha
  obtain ⟨t2, h2⟩ := hb
  exact (mkId_inj (h1.symm.trans h2)).1

def SentOK (p : JSentence × List Tree) : Prop :=
  p.1.ccgs.length = p.2.length ∧ (tokenIds p.1).Nodup ∧
  (∀ t ∈ p.2.head?, (tokenIds p.1).length = t.numLeaves) ∧
  (∀ q ∈ p.1.ccgs.zip p.2, CcgWellFormed (tokenIds p.1) q.2.numLeaves q.1) ∧
  ((p.1.ccgs.map spanIds).flatten).Nodup

theorem sentence_ok (sid : Nat) (u : Bool) (t : Tree) (ts : List Tree)
    (hN : ∀ t' ∈ t :: ts, t'.numLeaves = t.numLeaves) (hid : AllToks NoIdKey t) :
    SentOK (⟨sentToks sid t, jiggTrees sid u (t :: ts) 0 0⟩, t :: ts) ∧
    (docIds ⟨sentToks sid t, jiggTrees sid u (t :: ts) 0 0⟩).Nodup ∧
    ∀ x ∈ docIds ⟨sentToks sid t, jiggTrees sid u (t :: ts) 0 0⟩, IsId sid x := by
  have htok := sent_tokenIds sid t (jiggTrees sid u (t :: ts) 0 0) hid
  have nd1 : ((List.range' 0 t.numLeaves).map (tokId sid)).Nodup :=
    nodup_map_of_inj (fun a b e => tokId_inj e) (List.nodup_range' 1)
  have nd2 : ((List.range' 0 (totalNodes (t :: ts))).map (spanId sid)).Nodup :=
    nodup_map_of_inj (fun a b e => spanId_inj e) (List.nodup_range' 1)
  have nd3 : ((List.range' 0 (t :: ts).length).map (ccgId sid)).Nodup :=
    nodup_map_of_inj (fun a b e => ccgId_inj e) (List.nodup_range' 1)
  refine ⟨⟨jiggTrees_length .., ?_, ?_, ?_, ?_⟩, ?_, ?_⟩
  · simp only [htok]; exact nd1
  · intro t' ht'
    simp only [List.head?_cons, Option.mem_def, Option.some.injEq] at ht'
    simp only [htok, ← ht']
    simp
  · simp only [htok]
    exact trees_wf sid u t.numLeaves (t :: ts) 0 0 hN
  · simp only [trees_spanIds]; exact nd2
  · unfold docIds
    simp only [htok, trees_spanIds, trees_ccgIds]
    rw [List.nodup_append, List.nodup_append]
    refine ⟨⟨nd1, nd2, ?_⟩, nd3, ?_⟩
    · intro a ha b hb
      obtain ⟨i, _, rfl⟩ := List.mem_map.1 ha
      obtain ⟨j, _, rfl⟩ := List.mem_map.1 hb
      exact tok_ne_span _ _ _ _
    · intro a ha b hb
      obtain ⟨j, _, rfl⟩ := List.mem_map.1 hb
      rcases List.mem_append.1 ha with ha | ha
      · obtain ⟨i, _, rfl⟩ := List.mem_map.1 ha
        exact tok_ne_ccg _ _ _ _
      · obtain ⟨i, _, rfl⟩ := List.mem_map.1 ha
        exact span_ne_ccg _ _ _ _
  · intro x hx
    unfold docIds at hx
    simp only [htok, trees_spanIds, trees_ccgIds] at hx
    rcases List.mem_append.1 hx with hx | hx
    · rcases List.mem_append.1 hx with hx | hx
      · obtain ⟨i, _, rfl⟩ := List.mem_map.1 hx
        exact ⟨_, tokId_eq ..⟩
      · obtain ⟨i, _, rfl⟩ := List.mem_map.1 hx
        exact ⟨_, spanId_eq ..⟩
    · obtain ⟨i, _, rfl⟩ := List.mem_map.1 hx
      exact ⟨_, ccgId_eq ..⟩

theorem aux_wf (u : Bool) : ∀ (batch : List (List Tree)) (sid : Nat) (ss : List JSentence),
    (∀ trees ∈ batch, ∀ t ∈ trees, ∀ t' ∈ trees, t.numLeaves = t'.numLeaves) →
    (∀ trees ∈ batch, ∀ t ∈ trees.head?, AllToks NoIdKey t) →
    jiggOfAux u batch sid = .ok ss →
    ss.length = batch.length ∧ (∀ p ∈ ss.zip batch, SentOK p) ∧
    ((ss.map docIds).flatten).Nodup ∧ ∀ x ∈ (ss.map docIds).flatten, ∃ sid', sid ≤ sid' ∧ IsId sid' x
  | [], sid, ss, _, _, h => by
    simp only [jiggOfAux] at h
    cases h
    exact ⟨rfl, by simp, by simp, by simp⟩
  | [] :: rest, sid, ss, _, _, h => by simp [jiggOfAux] at h
  | (t :: ts) :: rest, sid, ss, h1, h2, h => by
    simp only [jiggOfAux] at h
    split at h
    · cases h
    · next more hmore =>
      cases h
      obtain ⟨r1, r2, r3, r4⟩ := aux_wf u rest (sid + 1) more
        (fun trees ht => h1 trees (List.mem_cons_of_mem _ ht))
        (fun trees ht => h2 trees (List.mem_cons_of_mem _ ht)) hmore
      obtain ⟨s1, s2, s3⟩ := sentence_ok sid u t ts
        (fun t' ht' => h1 (t :: ts) List.mem_cons_self t' ht' t List.mem_cons_self)
        (h2 (t :: ts) List.mem_cons_self t rfl)
      rw [sentToks_eq']
      refine ⟨by simp [r1], ?_, ?_, ?_⟩
      · intro p hp
        simp only [List.zip_cons_cons, List.mem_cons] at hp
        rcases hp with hp | hp
        · rw [hp]; exact s1
        · exact r2 p hp
      · simp only [List.map_cons, List.flatten_cons]
        rw [List.nodup_append]
        refine ⟨s2, r3, ?_⟩
        intro a ha b hb e
        obtain ⟨sid', hle, hb'⟩ := r4 b hb
        have := (s3 a ha).unique (e ▸ hb')
        omega
      · intro x hx
        simp only [List.map_cons, List.flatten_cons] at hx
        rcases List.mem_append.1 hx with hx | hx
        · exact ⟨sid, Nat.le_refl _, s3 x hx⟩
        · obtain ⟨sid', hle, hx'⟩ := r4 x hx
          exact ⟨sid', by omega, hx'⟩

theorem jigg_wellformed_partial_thm : JiggWellFormedStatement' := by
  intro u batch ss h1 h2 h
  obtain ⟨r1, r2, r3, _⟩ := aux_wf u batch 0 ss h1 h2 h
  exact ⟨r1, r2, r3⟩

end Depccg.C15
