/-
  C17  helper lemmas: soundness of the Boolean well-formedness tests, `catIndex`, `binarize`,
  `resolve` / `buildMasks`, `maskRow`, `filterRows`.
-/
import Depccg.Props.C17Defs
import Depccg.Props.C13

namespace Depccg.C17
open Depccg Cat Str Glue

/-! ### the Boolean well-formedness tests -/

theorem plainTokB_sound {s : Str} (h : plainTokB s = true) : C05.PlainTok s := by
  simp only [plainTokB, Bool.and_eq_true, Bool.not_eq_true', List.all_eq_true] at h
  refine ⟨?_, h.2⟩
  intro hs
  subst hs
  simp at h

theorem triPartB_sound {s : Str} (h : triPartB s = true) : C05.TriPart s := by
  simp only [triPartB, List.all_eq_true, Bool.and_eq_true, bne_iff_ne] at h
  intro c hc
  exact ⟨(h c hc).1.1, (h c hc).1.2, (h c hc).2⟩

theorem wfFeatB_sound {f : Feat} (h : wfFeatB f = true) : C05.WFFeat f := by
  cases f with
  | un o =>
    cases o with
    | none => trivial
    | some v =>
      simp only [wfFeatB, Bool.and_eq_true, Bool.not_eq_true'] at h
      refine ⟨plainTokB_sound h.1, ?_⟩
      intro hh
      have h2 := h.2
      rw [hh.1, hh.2] at h2
      simp at h2
  | tri k1 v1 k2 v2 k3 v3 =>
    simp only [wfFeatB, Bool.and_eq_true] at h
    exact ⟨triPartB_sound h.1.1.1.1.1, triPartB_sound h.1.1.1.1.2, triPartB_sound h.1.1.1.2,
      triPartB_sound h.1.1.2, triPartB_sound h.1.2, triPartB_sound h.2⟩

theorem wfB_sound_aux (c : Cat) (h : wfB c = true) : C05.WF c := by
  induction c with
  | atom b f =>
    simp only [wfB, Bool.and_eq_true, Bool.or_eq_true, Bool.not_eq_true', beq_iff_eq] at h
    refine ⟨plainTokB_sound h.1.1, wfFeatB_sound h.1.2, ?_⟩
    intro hb
    rcases h.2 with h2 | h2
    · rw [List.elem_eq_mem] at h2
      simp [hb] at h2
    · exact h2
  | fn l s r ihl ihr =>
    simp only [wfB, Bool.and_eq_true] at h
    exact ⟨ihl h.1.1, h.1.2, ihr h.2⟩

/-! ### `dictWithin` -/

theorem dictWithin_sound_aux (targets dictCats : List Str) (residual : List (Str × Str))
    (h : dictWithin targets dictCats residual = true) :
    ∀ s ∈ dictCats, ∃ t ∈ targets, Cat.parse s = Cat.parse t ∨ s = t := by
  intro s hs
  simp only [dictWithin, List.all_eq_true, Bool.or_eq_true, List.any_eq_true,
    Bool.and_eq_true, beq_iff_eq] at h
  rcases h s hs with h1 | ⟨p, _, ⟨hp1, hp2⟩, hp3⟩
  · exact ⟨s, by simpa using h1, Or.inr rfl⟩
  · refine ⟨p.2, by simpa using hp2, Or.inl ?_⟩
    subst hp1
    split at hp3
    · rename_i a b ha hb
      rw [ha, hb, beq_iff_eq.1 hp3]
    · cases hp3

/-! ### `catIndex` -/

theorem catIndexAux_some (c : Cat) :
    ∀ (xs : List Cat) (k : Nat) (acc : Option Nat) (i : Nat),
      catIndexAux c k xs acc = some i → acc = some i ∨ (k ≤ i ∧ xs[i - k]? = some c) := by
  intro xs
  induction xs with
  | nil => intro k acc i h; exact Or.inl h
  | cons x xs ih =>
    intro k acc i h
    simp only [catIndexAux] at h
    rcases ih _ _ _ h with h1 | ⟨h1, h2⟩
    · by_cases hx : Cat.pyEq x c = true
      · rw [if_pos hx] at h1
        have hk : k = i := Option.some.inj h1
        subst hk
        right
        refine ⟨Nat.le_refl _, ?_⟩
        rw [Nat.sub_self, (C13.pyEq_iff x c).1 hx]
        rfl
      · rw [if_neg hx] at h1
        exact Or.inl h1
    · right
      refine ⟨Nat.le_of_succ_le h1, ?_⟩
      have : i - k = (i - (k + 1)) + 1 := by omega
      rw [this, List.getElem?_cons_succ]
      exact h2

theorem catIndexAux_exists (c : Cat) :
    ∀ (xs : List Cat) (k : Nat) (acc : Option Nat),
      (∃ i, catIndexAux c k xs acc = some i) ↔ ((∃ i, acc = some i) ∨ c ∈ xs) := by
  intro xs
  induction xs with
  | nil => intro k acc; simp [catIndexAux]
  | cons x xs ih =>
    intro k acc
    simp only [catIndexAux]
    rw [ih]
    by_cases hx : Cat.pyEq x c = true
    · have hxc := (C13.pyEq_iff x c).1 hx
      rw [if_pos hx]
      constructor
      · intro _; right; rw [hxc]; exact List.mem_cons_self
      · intro _; left; exact ⟨k, rfl⟩
    · rw [if_neg hx]
      have hne : c ≠ x := fun e => hx ((C13.pyEq_iff x c).2 e.symm)
      simp [List.mem_cons, hne]

theorem catIndex_some {cats : List Cat} {c : Cat} {i : Nat} (h : catIndex cats c = some i) :
    cats[i]? = some c := by
  rcases catIndexAux_some c cats 0 none i h with h1 | ⟨_, h2⟩
  · cases h1
  · simpa using h2

theorem catIndex_exists (cats : List Cat) (c : Cat) :
    (∃ i, catIndex cats c = some i) ↔ c ∈ cats := by
  unfold catIndex
  rw [catIndexAux_exists]
  simp

/-! ### `binarize` -/

theorem binarize_length (indices : List Nat) (n : Nat) : (binarize indices n).length = n := by
  simp [binarize]

theorem binarize_getD (indices : List Nat) (n c : Nat) (h : c < n) :
    (binarize indices n).getD c false = !(indices.elem c) := by
  simp [binarize, List.getD, h]

/-! ### `resolve`, `buildMasks` -/

theorem resolve_ok_iff (cats : List Cat) (cs : List Cat) :
    (∃ is, resolve cats cs = .ok is) ↔ ∀ c ∈ cs, ∃ i, catIndex cats c = some i := by
  induction cs with
  | nil => simp [resolve]
  | cons c cs ih =>
    simp only [resolve, List.mem_cons, forall_eq_or_imp]
    rw [← ih]
    cases hc : catIndex cats c with
    | none => simp
    | some i =>
      cases hr : resolve cats cs with
      | error e => simp
      | ok is => simp

theorem buildMasks_ok_iff (cats : List Cat) (n : Nat) (dict : List (Str × List Cat)) :
    (∃ ms, buildMasks cats n dict = .ok ms) ↔
      ∀ wc ∈ dict, ∀ c ∈ wc.2, ∃ i, catIndex cats c = some i := by
  induction dict with
  | nil => simp [buildMasks]
  | cons wc rest ih =>
    obtain ⟨w, cs⟩ := wc
    simp only [buildMasks, List.mem_cons, forall_eq_or_imp]
    rw [← ih, ← resolve_ok_iff]
    cases hr : resolve cats cs with
    | error e => simp
    | ok is =>
      cases hb : buildMasks cats n rest with
      | error e => simp
      | ok ms => simp

/-! ### `maskRow` -/

theorem maskRow_length (big : Int) :
    ∀ (row : List Int) (m : List Bool), (maskRow big row m).length = row.length := by
  intro row
  induction row with
  | nil => intro m; simp [maskRow]
  | cons x xs ih =>
    intro m
    cases m with
    | nil => simp [maskRow]
    | cons b ms => simp [maskRow, ih]

theorem maskRow_getD (big : Int) :
    ∀ (row : List Int) (m : List Bool) (c : Nat),
      (maskRow big row m).getD c 0 =
        if m.getD c false = true ∧ c < row.length then big else row.getD c 0 := by
  intro row
  induction row with
  | nil => intro m c; simp [maskRow]
  | cons x xs ih =>
    intro m c
    cases m with
    | nil => simp [maskRow]
    | cons b ms =>
      cases c with
      | zero =>
        cases b <;> simp [maskRow]
      | succ c =>
        simp only [maskRow, List.getD_cons_succ, List.length_cons, Nat.add_lt_add_iff_right]
        exact ih ms c

/-! ### `filterRows` -/

theorem filterRows_length (masks : List (Str × List Bool)) (big : Int) :
    ∀ (words : List Str) (rows : List (List Int)),
      (filterRows masks big words rows).length = rows.length := by
  intro words
  induction words with
  | nil => intro rows; simp [filterRows]
  | cons w ws ih =>
    intro rows
    cases rows with
    | nil => simp [filterRows]
    | cons r rs => simp [filterRows, ih]

/-- the row of token `i` after filtering -/
def filteredRow (masks : List (Str × List Bool)) (big : Int) (words : List Str)
    (rows : List (List Int)) (i : Nat) : List Int :=
  match words[i]? with
  | none => getRow rows i
  | some w =>
    match lookupMask masks w with
    | none => getRow rows i
    | some m => maskRow big (getRow rows i) m

theorem filterRows_getRow (masks : List (Str × List Bool)) (big : Int) :
    ∀ (words : List Str) (rows : List (List Int)) (i : Nat),
      getRow (filterRows masks big words rows) i = filteredRow masks big words rows i := by
  intro words
  induction words with
  | nil => intro rows i; simp [filterRows, filteredRow]
  | cons w ws ih =>
    intro rows i
    cases rows with
    | nil =>
      simp only [filterRows, filteredRow, getRow, List.getD_nil]
      split
      · rfl
      · split
        · rfl
        · simp [maskRow]
    | cons r rs =>
      cases i with
      | zero =>
        simp only [filterRows, filteredRow, getRow, List.getD_cons_zero, List.getElem?_cons_zero]
        cases lookupMask masks w <;> rfl
      | succ i =>
        have := ih rs i
        simp only [getRow, filteredRow] at this
        simp only [filterRows, filteredRow, getRow, List.getD_cons_succ, List.getElem?_cons_succ]
        exact this

theorem filteredRow_length (masks : List (Str × List Bool)) (big : Int) (words : List Str)
    (rows : List (List Int)) (i : Nat) :
    (filteredRow masks big words rows i).length = (getRow rows i).length := by
  unfold filteredRow
  split
  · rfl
  · split
    · rfl
    · exact maskRow_length _ _ _

end Depccg.C17
