/-
  Reusable invariants and lemmas about the search model (`Depccg/Search.lean`):
  prefix sums / outside estimate, row maxima, the supertag beam, licensed derivations,
  the item invariant `ItemOK`, the state invariant `StOK`, the priority consistency of `expand`
  and the agenda bound `PrioOK`, `sortDesc`, `pickFirstMax`.  Core Lean only.
-/
import Depccg.Props.SearchDefs

namespace Depccg.SearchProps
open Depccg Search

/-! ### prefix sums and the outside estimate -/

theorem fromLeft_eq (f : Nat → Int) {n i : Nat} (h : i < n) : fromLeft f n i = sumTo f i := by
  simp [fromLeft, h]

theorem fromRight_eq (f : Nat → Int) {n j : Nat} (h0 : 0 < j) (h : j ≤ n) :
    fromRight f n j = sumTo f n - sumTo f j := by
  simp [fromRight, h0, h]

theorem outside_eq (f : Nat → Int) {n i j : Nat} (hij : i < j) (hj : j ≤ n) :
    outside f n i j = sumTo f i + (sumTo f n - sumTo f j) := by
  rw [outside, fromLeft_eq f (by omega), fromRight_eq f (by omega) hj]

theorem sumTo_succ (f : Nat → Int) (k : Nat) : sumTo f (k + 1) = sumTo f k + f k := rfl

theorem binOut_eq (s : Sent) {st en : Nat} (h : Nat) (h1 : st < en) (h2 : en ≤ s.n) :
    binOut s st en h =
      (sumTo (bestTag s) st + (sumTo (bestTag s) s.n - sumTo (bestTag s) en))
      + (sumTo (bestDep s) st + (sumTo (bestDep s) s.n - sumTo (bestDep s) en)) + bestDep s h := by
  rw [binOut, outside_eq _ h1 h2, outside_eq _ h1 h2]

theorem leafOut_eq_binOut (s : Sent) {tok : Nat} (h : tok < s.n) :
    leafOut s tok = binOut s tok (tok + 1) tok := by
  rw [binOut_eq s tok (by omega) (by omega), leafOut, depLeafOut, outside_eq _ (by omega) (by omega)]
  simp only [sumTo_succ]
  omega

/-! ### row maxima -/

theorem foldl_max_ge_init (l : List Int) (a : Int) : a ≤ l.foldl max a := by
  induction l generalizing a with
  | nil => simp
  | cons x xs ih =>
    simp only [List.foldl_cons]
    exact Int.le_trans (Int.le_max_left a x) (ih _)

theorem foldl_max_ge_mem (l : List Int) (a x : Int) (h : x ∈ l) : x ≤ l.foldl max a := by
  induction l generalizing a with
  | nil => cases h
  | cons y ys ih =>
    simp only [List.foldl_cons]
    rcases List.mem_cons.1 h with rfl | h
    · exact Int.le_trans (Int.le_max_right a x) (foldl_max_ge_init _ _)
    · exact ih _ h

/-- `rowMax` is an upper bound of every entry of the row -/
theorem le_rowMax {l : List Int} {x : Int} (h : x ∈ l) : x ≤ rowMax l := by
  cases l with
  | nil => cases h
  | cons y ys =>
    simp only [rowMax]
    rcases List.mem_cons.1 h with rfl | h
    · exact foldl_max_ge_init _ _
    · exact foldl_max_ge_mem _ _ _ h

theorem getI_le_rowMax {l : List Int} {i : Nat} (h : i < l.length) : getI l i ≤ rowMax l := by
  apply le_rowMax
  simp [getI, List.getD, h]

theorem tagAt_le_bestTag (s : Sent) {t c : Nat} (h : c < (s.tags.getD t []).length) :
    tagAt s t c ≤ bestTag s t := getI_le_rowMax h

theorem SentOK.depRow {s : Sent} (h : SentOK s) {t : Nat} (ht : t < s.n) :
    (s.deps.getD t []).length = s.n + 1 := by
  obtain ⟨_, h2, h3, _⟩ := h
  apply h3
  have : t < s.deps.length := by omega
  simp [List.getD, this]

theorem depAt_le_bestDep {s : Sent} (h : SentOK s) {t col : Nat} (ht : t < s.n) (hc : col ≤ s.n) :
    depAt s t col ≤ bestDep s t :=
  getI_le_rowMax (by rw [h.depRow ht]; omega)

/-! ### the supertag beam -/

theorem enumFrom_map_snd (l : List Int) (i : Nat) :
    (enumFrom i l).map (·.2) = List.range' i l.length := by
  induction l generalizing i with
  | nil => rfl
  | cons x xs ih => simp [enumFrom, ih, List.range'_succ]

theorem mem_enumFrom {l : List Int} {i : Nat} {p : Int × Nat} (h : p ∈ enumFrom i l) :
    i ≤ p.2 ∧ l[p.2 - i]? = some p.1 := by
  induction l generalizing i with
  | nil => cases h
  | cons x xs ih =>
    rcases List.mem_cons.1 h with rfl | h
    · simp
    · obtain ⟨h1, h2⟩ := ih h
      have e : p.2 - i = (p.2 - (i + 1)) + 1 := by omega
      exact ⟨by omega, by rw [e, List.getElem?_cons_succ]; exact h2⟩

theorem insertCand_perm (c : Int × Nat) (l : List (Int × Nat)) : (insertCand c l).Perm (c :: l) := by
  induction l with
  | nil => exact List.Perm.refl _
  | cons d ds ih =>
    simp only [insertCand]
    split
    · exact List.Perm.refl _
    · exact ((List.Perm.cons d ih).trans (List.Perm.swap c d ds))

theorem sortCands_perm (l : List (Int × Nat)) : (sortCands l).Perm l := by
  induction l with
  | nil => exact List.Perm.refl _
  | cons c cs ih =>
    exact (insertCand_perm c _).trans (List.Perm.cons c ih)

theorem insertCand_sorted {c : Int × Nat} {l : List (Int × Nat)}
    (h : l.Pairwise (fun a b : Int × Nat => a.1 ≥ b.1)) :
    (insertCand c l).Pairwise (fun a b : Int × Nat => a.1 ≥ b.1) := by
  induction l with
  | nil => simp [insertCand]
  | cons d ds ih =>
    rw [List.pairwise_cons] at h
    simp only [insertCand]
    split
    · rename_i hc
      refine List.pairwise_cons.2 ⟨?_, List.pairwise_cons.2 h⟩
      intro b hb
      rcases List.mem_cons.1 hb with rfl | hb
      · omega
      · have := h.1 b hb; omega
    · rename_i hc
      refine List.pairwise_cons.2 ⟨?_, ih h.2⟩
      intro b hb
      rcases List.mem_cons.1 ((insertCand_perm c ds).mem_iff.1 hb) with rfl | hb'
      · omega
      · exact h.1 b hb'

theorem sortCands_sorted (l : List (Int × Nat)) :
    (sortCands l).Pairwise (fun a b : Int × Nat => a.1 ≥ b.1) := by
  induction l with
  | nil => exact List.Pairwise.nil
  | cons c cs ih => exact insertCand_sorted ih

/-- a candidate carries the tag score of its category id, which lies inside the row -/
theorem mem_candidates {s : Sent} {tok : Nat} {p : Int × Nat} (h : p ∈ candidates s tok) :
    p.2 < (s.tags.getD tok []).length ∧ p.1 = tagAt s tok p.2 := by
  have h' := mem_enumFrom ((sortCands_perm _).mem_iff.1 h)
  simp only [Nat.sub_zero] at h'
  obtain ⟨hlt, hx⟩ := List.getElem?_eq_some_iff.1 h'.2
  refine ⟨hlt, ?_⟩
  show p.1 = (s.tags.getD tok []).getD p.2 0
  rw [List.getD_eq_getElem?_getD, h'.2]; rfl

theorem admitLoop_prefix (k : Nat) (cs : List (Int × Nat)) (ps : List Bool) :
    ∃ j, j ≤ k ∧ admitLoop k cs ps = cs.take j := by
  induction k generalizing cs ps with
  | zero => exact ⟨0, Nat.le_refl _, by simp [admitLoop]⟩
  | succ k ih =>
    cases cs with
    | nil => exact ⟨0, Nat.zero_le _, by simp [admitLoop]⟩
    | cons c cs =>
      cases ps with
      | nil =>
        obtain ⟨j, hj, e⟩ := ih cs []
        exact ⟨j + 1, by omega, by simp [admitLoop, e]⟩
      | cons p ps =>
        cases p with
        | false => exact ⟨0, Nat.zero_le _, by simp [admitLoop]⟩
        | true =>
          obtain ⟨j, hj, e⟩ := ih cs ps
          exact ⟨j + 1, by omega, by simp [admitLoop, e]⟩

theorem admitLoop_nil_passes (k : Nat) (cs : List (Int × Nat)) : admitLoop k cs [] = cs.take k := by
  induction k generalizing cs with
  | zero => simp [admitLoop]
  | succ k ih => cases cs <;> simp [admitLoop, ih]

theorem admitLoop_all_pass {k : Nat} {cs : List (Int × Nat)} {ps : List Bool} {i : Nat} {c : Int × Nat}
    (hl : cs.length ≤ ps.length) (h : (admitLoop k cs ps)[i]? = some c) : ps[i]? = some true := by
  induction k generalizing cs ps i with
  | zero => simp [admitLoop] at h
  | succ k ih =>
    cases cs with
    | nil => simp [admitLoop] at h
    | cons c' cs =>
      cases ps with
      | nil => simp at hl
      | cons p ps =>
        cases p with
        | false => simp [admitLoop] at h
        | true =>
          cases i with
          | zero => simp
          | succ i =>
            simp only [admitLoop, if_true, List.getElem?_cons_succ] at h ⊢
            exact ih (by simpa using hl) h

theorem admitLoop_stops {k : Nat} {cs : List (Int × Nat)} {ps : List Bool} {i : Nat}
    (h : ps[i]? = some false) : (admitLoop k cs ps).length ≤ i := by
  induction k generalizing cs ps i with
  | zero => simp [admitLoop]
  | succ k ih =>
    cases cs with
    | nil => simp [admitLoop]
    | cons c' cs =>
      cases ps with
      | nil => simp at h
      | cons p ps =>
        cases i with
        | zero =>
          simp only [List.getElem?_cons_zero, Option.some.injEq] at h
          simp [admitLoop, h]
        | succ i =>
          simp only [List.getElem?_cons_succ] at h
          cases p with
          | false => simp [admitLoop]
          | true => simpa [admitLoop] using ih h

theorem admitted_eq_take (s : Sent) (cfg : Cfg) (tok : Nat) :
    ∃ k, k ≤ cfg.pruning ∧ admitted s cfg tok = (candidates s tok).take k :=
  admitLoop_prefix _ _ _

theorem admitted_subset_candidates {s : Sent} {cfg : Cfg} {tok : Nat} {p : Int × Nat}
    (h : p ∈ admitted s cfg tok) : p ∈ candidates s tok := by
  obtain ⟨k, _, e⟩ := admitted_eq_take s cfg tok
  rw [e] at h
  exact List.mem_of_mem_take h

/-- an admitted pair carries the tag score of its category id, which lies inside the row -/
theorem mem_admitted {s : Sent} {cfg : Cfg} {tok : Nat} {p : Int × Nat} (h : p ∈ admitted s cfg tok) :
    p.2 < (s.tags.getD tok []).length ∧ p.1 = tagAt s tok p.2 :=
  mem_candidates (admitted_subset_candidates h)

/-! ### licensed derivations -/

theorem dlen_pos (d : Deriv) : 0 < dlen d := by
  induction d with
  | leaf => simp [dlen]
  | un _ _ _ ih => simpa [dlen] using ih
  | bin _ _ _ _ _ ihl ihr => simp only [dlen]; omega

/-- the inside score of a derivation: tags + attachments − unary penalties -/
def inScore (s : Sent) (cfg : Cfg) (d : Deriv) : Int :=
  tagSum s d + depSum s d - cfg.penalty * (nUnary d)

theorem inScore_leaf (s : Sent) (cfg : Cfg) (t c : Nat) : inScore s cfg (.leaf t c) = tagAt s t c := by
  simp [inScore, tagSum, depSum, nUnary]

theorem inScore_un (s : Sent) (cfg : Cfg) (c rid : Nat) (d : Deriv) :
    inScore s cfg (.un c rid d) = inScore s cfg d - cfg.penalty := by
  simp only [inScore, tagSum, depSum, nUnary, Int.natCast_add, Int.mul_add, Int.natCast_one,
    Int.mul_one]
  omega

theorem inScore_bin (s : Sent) (cfg : Cfg) (c rid : Nat) (hl : Bool) (l r : Deriv) :
    inScore s cfg (.bin c rid hl l r) = inScore s cfg l + inScore s cfg r +
      (if hl then depAt s (dhead r) (dhead l + 1) else depAt s (dhead l) (dhead r + 1)) := by
  simp only [inScore, tagSum, depSum, nUnary, Int.natCast_add, Int.mul_add]
  generalize (if hl = true then _ else _ : Int) = x
  omega

theorem modelScore_eq (s : Sent) (cfg : Cfg) (d : Deriv) :
    modelScore s cfg d = inScore s cfg d + depAt s (dhead d) 0 := by
  simp only [modelScore, inScore]; omega

/-- the head word lies inside the span, the span inside the sentence -/
theorem Licensed.span {g : Grammar} {s : Sent} {cfg : Cfg} {d : Deriv} (h : Licensed g s cfg d) :
    dstart d ≤ dhead d ∧ dhead d < dstart d + dlen d ∧ dstart d + dlen d ≤ s.n := by
  induction h with
  | leaf t c sc ht _ => simp only [dstart, dhead, dlen]; omega
  | un c rid d _ _ _ ih => simpa only [dstart, dhead, dlen] using ih
  | bin c rid hl l r _ _ hadj _ ihl ihr =>
    simp only [dstop] at hadj
    simp only [dstart, dhead, dlen]
    cases hl <;> simp only [if_true, if_false, Bool.false_eq_true] <;> omega

theorem Licensed.leafToks_eq {g : Grammar} {s : Sent} {cfg : Cfg} {d : Deriv}
    (h : Licensed g s cfg d) : leafToks d = List.range' (dstart d) (dlen d) := by
  induction h with
  | leaf t c sc ht _ => rfl
  | un c rid d _ _ _ ih => simpa only [leafToks, dstart, dlen] using ih
  | bin c rid hl l r _ _ hadj _ ihl ihr =>
    simp only [dstop] at hadj
    simp only [leafToks, dstart, dlen, ihl, ihr, ← hadj, List.range'_append_1]

theorem Licensed.leafCats_admitted {g : Grammar} {s : Sent} {cfg : Cfg} {d : Deriv}
    (h : Licensed g s cfg d) : ∀ tc ∈ leafCats d, ∃ sc, (sc, tc.2) ∈ admitted s cfg tc.1 := by
  induction h with
  | leaf t c sc ht hm =>
    intro tc htc
    simp only [leafCats, List.mem_singleton] at htc
    subst htc; exact ⟨sc, hm⟩
  | un c rid d _ _ _ ih => simpa only [leafCats] using ih
  | bin c rid hl l r _ _ hadj _ ihl ihr =>
    intro tc htc
    simp only [leafCats, List.mem_append] at htc
    rcases htc with h | h
    · exact ihl tc h
    · exact ihr tc h

/-- the inside score is bounded by the best tags and dependencies of the span
    (all but the head word's dependency) -/
theorem inside_le {g : Grammar} {s : Sent} {cfg : Cfg} {d : Deriv} (hs : SentOK s)
    (hp : 0 ≤ cfg.penalty) (h : Licensed g s cfg d) :
    inScore s cfg d ≤ (sumTo (bestTag s) (dstop d) - sumTo (bestTag s) (dstart d))
      + (sumTo (bestDep s) (dstop d) - sumTo (bestDep s) (dstart d)) - bestDep s (dhead d) := by
  induction h with
  | leaf t c sc ht hm =>
    have h1 := tagAt_le_bestTag s (mem_admitted hm).1
    simp only [inScore_leaf, dstop, dstart, dlen, dhead, sumTo_succ]
    simp only at h1
    omega
  | un c rid d _ _ _ ih =>
    simp only [inScore_un, dstop, dstart, dlen, dhead] at ih ⊢
    omega
  | bin c rid hl l r hl' hr' hadj _ ihl ihr =>
    have sl := hl'.span
    have sr := hr'.span
    simp only [dstop] at hadj ihl ihr
    simp only [inScore_bin, dstop, dstart, dlen, dhead]
    rw [show dstart l + (dlen l + dlen r) = dstart r + dlen r by omega]
    rw [hadj] at ihl
    cases hl with
    | true =>
      have hd := depAt_le_bestDep hs (t := dhead r) (col := dhead l + 1) (by omega) (by omega)
      simp only [if_true]
      omega
    | false =>
      have hd := depAt_le_bestDep hs (t := dhead l) (col := dhead r + 1) (by omega) (by omega)
      simp only [if_false, Bool.false_eq_true]
      omega

/-! ### the item invariant -/

/-- invariant of an agenda / chart item (not `fin`) -/
structure NonFinOK (g : Grammar) (s : Sent) (cfg : Cfg) (it : Item) : Prop where
  lic : Licensed g s cfg it.d
  cat : it.cat = dcat it.d
  inS : it.inS = inScore s cfg it.d
  start : it.start = dstart it.d
  len : it.len = dlen it.d
  head : it.head = dhead it.d
  outS : it.outS = binOut s it.start (it.start + it.len) it.head
  stop_le : it.start + it.len ≤ s.n
  head_ge : it.start ≤ it.head
  head_lt : it.head < it.start + it.len

/-- invariant of a final (goal) item -/
structure FinOK (g : Grammar) (s : Sent) (cfg : Cfg) (it : Item) : Prop where
  lic : LicensedRoot g s cfg it.d
  cat : it.cat = dcat it.d
  inS : it.inS = modelScore s cfg it.d
  outS : it.outS = 0
  start : it.start = dstart it.d
  len : it.len = dlen it.d
  head : it.head = dhead it.d

/-- the invariant of every item the search ever creates -/
def ItemOK (g : Grammar) (s : Sent) (cfg : Cfg) (it : Item) : Prop :=
  (it.fin = false → NonFinOK g s cfg it) ∧ (it.fin = true → FinOK g s cfg it)

theorem ItemOK.of_nonFin {g : Grammar} {s : Sent} {cfg : Cfg} {it : Item} (hf : it.fin = false)
    (h : NonFinOK g s cfg it) : ItemOK g s cfg it :=
  ⟨fun _ => h, fun h' => by rw [hf] at h'; cases h'⟩

theorem ItemOK.of_fin {g : Grammar} {s : Sent} {cfg : Cfg} {it : Item} (hf : it.fin = true)
    (h : FinOK g s cfg it) : ItemOK g s cfg it :=
  ⟨fun h' => (by rw [hf] at h'; cases h'), fun _ => h⟩

theorem NonFinOK.len_pos {g : Grammar} {s : Sent} {cfg : Cfg} {it : Item} (h : NonFinOK g s cfg it) :
    0 < it.len := by rw [h.len]; exact dlen_pos _

/-- the priority of a non-final item through prefix sums -/
theorem NonFinOK.prio_eq {g : Grammar} {s : Sent} {cfg : Cfg} {it : Item} (h : NonFinOK g s cfg it) :
    it.prio = it.inS +
      ((sumTo (bestTag s) it.start + (sumTo (bestTag s) s.n - sumTo (bestTag s) (it.start + it.len)))
      + (sumTo (bestDep s) it.start + (sumTo (bestDep s) s.n - sumTo (bestDep s) (it.start + it.len)))
      + bestDep s it.head) := by
  have := h.len_pos
  rw [Item.prio, h.outS, binOut_eq s _ (by omega) h.stop_le]

/-- the inside bound of an item -/
theorem NonFinOK.inside_le {g : Grammar} {s : Sent} {cfg : Cfg} {it : Item} (h : NonFinOK g s cfg it)
    (hs : SentOK s) (hp : 0 ≤ cfg.penalty) :
    it.inS ≤ (sumTo (bestTag s) (it.start + it.len) - sumTo (bestTag s) it.start)
      + (sumTo (bestDep s) (it.start + it.len) - sumTo (bestDep s) it.start) - bestDep s it.head := by
  have := SearchProps.inside_le hs hp h.lic
  rw [h.inS, h.start, h.len, h.head]
  exact this

theorem FinOK.prio_eq {g : Grammar} {s : Sent} {cfg : Cfg} {it : Item} (h : FinOK g s cfg it) :
    it.prio = modelScore s cfg it.d := by
  rw [Item.prio, h.inS, h.outS]; omega

/-- build `NonFinOK` from the derivation facts; the range facts follow from `Licensed.span` -/
theorem NonFinOK.mk' {g : Grammar} {s : Sent} {cfg : Cfg} {it : Item}
    (lic : Licensed g s cfg it.d) (cat : it.cat = dcat it.d) (inS : it.inS = inScore s cfg it.d)
    (start : it.start = dstart it.d) (len : it.len = dlen it.d) (head : it.head = dhead it.d)
    (outS : it.outS = binOut s it.start (it.start + it.len) it.head) : NonFinOK g s cfg it := by
  have sp := lic.span
  exact ⟨lic, cat, inS, start, len, head, outS, by omega, by omega, by omega⟩

theorem leafItem_ok {g : Grammar} {s : Sent} {cfg : Cfg} {tok : Nat} {c : Int × Nat}
    (ht : tok < s.n) (hc : c ∈ admitted s cfg tok) : NonFinOK g s cfg (leafItem s tok c) := by
  refine NonFinOK.mk' (Licensed.leaf tok c.2 c.1 ht hc) rfl ?_ rfl rfl rfl ?_
  · simp only [leafItem, inScore_leaf]; exact (mem_admitted hc).2
  · exact leafOut_eq_binOut s ht

theorem mem_leafItems {s : Sent} {cfg : Cfg} {it : Item} (h : it ∈ leafItems s cfg) :
    ∃ tok c, tok < s.n ∧ c ∈ admitted s cfg tok ∧ it = leafItem s tok c := by
  simp only [leafItems, List.mem_flatMap, List.mem_range, List.mem_map] at h
  obtain ⟨tok, ht, c, hc, e⟩ := h
  exact ⟨tok, c, ht, hc, e.symm⟩

theorem leafItems_ok {g : Grammar} {s : Sent} {cfg : Cfg} {it : Item} (h : it ∈ leafItems s cfg) :
    it.fin = false ∧ NonFinOK g s cfg it := by
  obtain ⟨tok, c, ht, hc, rfl⟩ := mem_leafItems h
  exact ⟨rfl, leafItem_ok ht hc⟩

theorem mem_unaryItems {g : Grammar} {cfg : Cfg} {it x : Item} (h : x ∈ unaryItems g cfg it) :
    ∃ c rid, (g.un it.cat)[rid]? = some c ∧
      x = { it with cat := c, inS := it.inS - cfg.penalty, rule := rid, d := .un c rid it.d } := by
  simp only [unaryItems, List.mem_map] at h
  obtain ⟨⟨c, rid⟩, hm, e⟩ := h
  exact ⟨c, rid, List.mem_zipIdx_iff_getElem?.1 hm, e.symm⟩

theorem unaryItems_ok {g : Grammar} {s : Sent} {cfg : Cfg} {it x : Item} (h : NonFinOK g s cfg it)
    (hf : it.fin = false) (hu : s.n = 1 ∨ it.len ≠ s.n) (hx : x ∈ unaryItems g cfg it) :
    x.fin = false ∧ NonFinOK g s cfg x := by
  obtain ⟨c, rid, hr, rfl⟩ := mem_unaryItems hx
  refine ⟨hf, NonFinOK.mk' ?_ rfl ?_ h.start h.len h.head h.outS⟩
  · exact Licensed.un c rid it.d h.lic (by rw [← h.cat]; exact hr) (by rw [← h.len]; exact hu)
  · simp only [inScore_un, h.inS]

theorem mem_binaryItems {g : Grammar} {s : Sent} {l r x : Item} (h : x ∈ binaryItems g s l r) :
    ∃ rule rid, (g.bin l.cat r.cat)[rid]? = some rule ∧
      x = { fin := false, cat := rule.cat,
            inS := l.inS + r.inS +
              depAt s (if rule.headLeft then r.head else l.head)
                ((if rule.headLeft then l.head else r.head) + 1),
            outS := binOut s l.start (l.start + (l.len + r.len))
              (if rule.headLeft then l.head else r.head),
            start := l.start, len := l.len + r.len,
            head := if rule.headLeft then l.head else r.head, rule := rid,
            d := .bin rule.cat rid rule.headLeft l.d r.d } := by
  simp only [binaryItems, List.mem_map] at h
  obtain ⟨⟨rule, rid⟩, hm, e⟩ := h
  exact ⟨rule, rid, List.mem_zipIdx_iff_getElem?.1 hm, e.symm⟩

theorem binaryItems_ok {g : Grammar} {s : Sent} {cfg : Cfg} {l r x : Item} (hl : NonFinOK g s cfg l)
    (hr : NonFinOK g s cfg r) (hadj : r.start = l.start + l.len) (hx : x ∈ binaryItems g s l r) :
    x.fin = false ∧ NonFinOK g s cfg x := by
  obtain ⟨rule, rid, hrule, rfl⟩ := mem_binaryItems hx
  refine ⟨rfl, NonFinOK.mk' ?_ rfl ?_ hl.start ?_ ?_ rfl⟩
  · refine Licensed.bin _ _ _ _ _ hl.lic hr.lic ?_ ?_
    · rw [dstop, ← hl.start, ← hl.len, ← hr.start]; exact hadj.symm
    · rw [← hl.cat, ← hr.cat, hrule]
  · simp only [inScore_bin, hl.inS, hr.inS, hl.head, hr.head]
    cases rule.headLeft <;> simp
  · simp only [dlen, hl.len, hr.len]
  · simp only [dhead, hl.head, hr.head]

theorem finItem_ok {g : Grammar} {s : Sent} {cfg : Cfg} {it : Item} (h : NonFinOK g s cfg it)
    (hlen : it.len = s.n) (hroot : s.roots.elem it.cat = true) : FinOK g s cfg (finItem s it) := by
  have hst := h.stop_le
  refine ⟨⟨h.lic, ?_, ?_, ?_⟩, h.cat, ?_, rfl, h.start, h.len, h.head⟩
  · show dstart it.d = 0
    rw [← h.start]; omega
  · show dlen it.d = s.n
    rw [← h.len]; exact hlen
  · show dcat it.d ∈ s.roots
    rw [← h.cat]; simpa using hroot
  · simp only [finItem, modelScore_eq, h.inS, h.head]

/-! ### the order in which the chart is walked: `neighbours` is a permutation of the filter -/

theorem firstSeen_foldl_mem (keys acc : List Nat) (k : Nat) :
    k ∈ keys.foldl (fun acc k => if acc.elem k then acc else acc ++ [k]) acc ↔ k ∈ acc ∨ k ∈ keys := by
  induction keys generalizing acc with
  | nil => simp
  | cons x xs ih =>
    rw [List.foldl_cons, ih]
    by_cases hx : x ∈ acc
    · simp only [List.elem_eq_mem, hx, decide_true, if_true, List.mem_cons]
      constructor
      · rintro (h | h)
        · exact Or.inl h
        · exact Or.inr (Or.inr h)
      · rintro (h | rfl | h)
        · exact Or.inl h
        · exact Or.inl hx
        · exact Or.inr h
    · simp only [List.elem_eq_mem, hx, decide_false, Bool.false_eq_true, if_false, List.mem_append,
        List.mem_cons, List.mem_nil_iff, or_false]
      constructor
      · rintro ((h | h) | h)
        · exact Or.inl h
        · exact Or.inr (Or.inl h)
        · exact Or.inr (Or.inr h)
      · rintro (h | h | h)
        · exact Or.inl (Or.inl h)
        · exact Or.inl (Or.inr h)
        · exact Or.inr h

theorem firstSeen_foldl_nodup (keys acc : List Nat) (h : acc.Nodup) :
    (keys.foldl (fun acc k => if acc.elem k then acc else acc ++ [k]) acc).Nodup := by
  induction keys generalizing acc with
  | nil => exact h
  | cons x xs ih =>
    rw [List.foldl_cons]
    apply ih
    by_cases hx : x ∈ acc
    · simpa only [List.elem_eq_mem, hx, decide_true, if_true] using h
    · simp only [List.elem_eq_mem, hx, decide_false, Bool.false_eq_true, if_false]
      refine List.nodup_append.2 ⟨h, List.pairwise_singleton _ _, ?_⟩
      intro a ha b hb e
      rw [List.mem_singleton] at hb
      subst hb; subst e
      exact hx ha

theorem mem_firstSeen {keys : List Nat} {k : Nat} : k ∈ firstSeen keys ↔ k ∈ keys := by
  rw [firstSeen, firstSeen_foldl_mem]; simp

theorem firstSeen_nodup (keys : List Nat) : (firstSeen keys).Nodup :=
  firstSeen_foldl_nodup keys [] List.nodup_nil

/-- grouping a list by a key taken from a duplicate-free list of all its keys permutes it -/
theorem flatMap_filter_len_perm (ks : List Nat) (l : List Item) (hnd : ks.Nodup)
    (hall : ∀ x ∈ l, x.len ∈ ks) :
    (ks.flatMap fun k => l.filter (fun o => o.len == k)).Perm l := by
  induction ks generalizing l with
  | nil =>
    cases l with
    | nil => exact List.Perm.refl _
    | cons x xs => exact absurd (hall x List.mem_cons_self) (by simp)
  | cons k ks ih =>
    rw [List.flatMap_cons]
    have hnd' := List.nodup_cons.1 hnd
    have h1 : (ks.flatMap fun k' => l.filter (fun o => o.len == k')) =
        ks.flatMap fun k' => (l.filter (fun o => !(o.len == k))).filter (fun o => o.len == k') := by
      rw [List.flatMap_def, List.flatMap_def]
      congr 1
      apply List.map_congr_left
      intro k' hk'
      rw [List.filter_filter]
      apply List.filter_congr
      intro x _
      have hne : k' ≠ k := fun e => hnd'.1 (e ▸ hk')
      by_cases hxk : x.len = k'
      · have : ¬ x.len = k := fun e => hne (hxk.symm.trans e)
        simp [hxk, hne]
      · simp [hxk]
    rw [h1]
    refine (List.Perm.append_left _ (ih _ hnd'.2 ?_)).trans (List.filter_append_perm _ l)
    intro x hx
    rw [List.mem_filter] at hx
    rcases List.mem_cons.1 (hall x hx.1) with e | h
    · simp [e] at hx
    · exact h

theorem neighbours_perm (chart : List Item) (p : Item → Bool) :
    (neighbours chart p).Perm (chart.filter p) := by
  unfold neighbours
  refine flatMap_filter_len_perm _ _ (firstSeen_nodup _) ?_
  intro x hx
  rw [mem_firstSeen, List.map_reverse, List.mem_reverse]
  exact List.mem_map.2 ⟨x, hx, rfl⟩

theorem mem_neighbours {chart : List Item} {p : Item → Bool} {o : Item} :
    o ∈ neighbours chart p ↔ o ∈ chart ∧ p o = true := by
  rw [(neighbours_perm chart p).mem_iff, List.mem_filter]

/-- everything pushed when a well-formed item enters a well-formed chart is well-formed -/
theorem expand_ok {g : Grammar} {s : Sent} {cfg : Cfg} {chart : List Item} {it x : Item}
    (h : NonFinOK g s cfg it) (hf : it.fin = false) (hc : ∀ o ∈ chart, NonFinOK g s cfg o)
    (hx : x ∈ expand g s cfg chart it) : ItemOK g s cfg x := by
  simp only [expand, List.mem_append, List.mem_flatMap, mem_neighbours, beq_iff_eq] at hx
  rcases hx with ((hx | hx) | ⟨o, ⟨ho, hadj⟩, hx⟩) | ⟨o, ⟨ho, hadj⟩, hx⟩
  · split at hx
    · rename_i hcond
      rw [List.mem_singleton] at hx; subst hx
      exact ItemOK.of_fin rfl (finItem_ok h hcond.1 hcond.2)
    · cases hx
  · split at hx
    · rename_i hcond
      have := unaryItems_ok h hf hcond hx
      exact ItemOK.of_nonFin this.1 this.2
    · cases hx
  · have := binaryItems_ok h (hc o ho) hadj hx
    exact ItemOK.of_nonFin this.1 this.2
  · have := binaryItems_ok (hc o ho) h (by rw [← hadj]; rfl) hx
    exact ItemOK.of_nonFin this.1 this.2

/-! ### one step of the loop -/

theorem PickOK.spec {pick : Pick} (hp : PickOK pick) {l : List Item} {it : Item} {rest : List Item}
    (h : pick.pop l = some (it, rest)) : (it :: rest).Perm l ∧ ∀ o ∈ l, o.prio ≤ it.prio := by
  have hne : l ≠ [] := by
    intro e; subst e; rw [hp.1] at h; cases h
  obtain ⟨it', rest', e, hperm, hmax⟩ := hp.2.1 l hne
  rw [e] at h
  cases h
  exact ⟨hperm, hmax⟩

theorem PickOK.push_perm {pick : Pick} (hp : PickOK pick) (new old : List Item) :
    (pick.push new old).Perm (new ++ old) := hp.2.2 new old

theorem PickOK.mem_push {pick : Pick} (hp : PickOK pick) {new old : List Item} {x : Item} :
    x ∈ pick.push new old ↔ x ∈ new ∨ x ∈ old := by
  rw [(hp.push_perm new old).mem_iff, List.mem_append]

theorem PickOK.mem_push_nil {pick : Pick} (hp : PickOK pick) {new : List Item} {x : Item} :
    x ∈ pick.push new [] ↔ x ∈ new := by
  rw [hp.mem_push]; simp

/-- the state right after `it` was taken from the agenda -/
def popSt (st : St) (it : Item) (rest : List Item) : St :=
  { st with agenda := rest, popped := it :: st.popped, steps := st.steps + 1,
            tie := st.tie || rest.any fun o => o.prio == it.prio }

/-- the four outcomes of a successful step -/
theorem stepWith_cases {pick : Pick} {g : Grammar} {s : Sent} {cfg : Cfg} {st st' : St}
    (h : stepWith pick g s cfg st = some st') :
    st.goal.length < cfg.nbest ∧ ∃ it rest, pick.pop st.agenda = some (it, rest) ∧
      ( (it.fin = true ∧ (cfg.nbest ≤ 1 ∧ inGoal st.goal it = true) ∧ st' = popSt st it rest)
      ∨ (it.fin = true ∧ ¬ (cfg.nbest ≤ 1 ∧ inGoal st.goal it = true) ∧
          st' = { popSt st it rest with goal := it :: st.goal })
      ∨ (it.fin = false ∧ (cfg.nbest ≤ 1 ∧ inChart st.chart it = true) ∧ st' = popSt st it rest)
      ∨ (it.fin = false ∧ ¬ (cfg.nbest ≤ 1 ∧ inChart st.chart it = true) ∧
          st' = { popSt st it rest with chart := it :: st.chart,
                                        agenda := pick.push (expand g s cfg st.chart it) rest }) ) := by
  unfold stepWith at h
  split at h
  · cases h
  · rename_i hlen
    split at h
    · cases h
    · rename_i it rest hpick
      refine ⟨by omega, it, rest, hpick, ?_⟩
      dsimp only at h
      cases hf : it.fin
      · simp only [hf, Bool.false_eq_true, if_false] at h
        split at h
        · rename_i hc
          exact Or.inr (Or.inr (Or.inl ⟨rfl, hc, (Option.some.inj h).symm⟩))
        · rename_i hc
          exact Or.inr (Or.inr (Or.inr ⟨rfl, hc, (Option.some.inj h).symm⟩))
      · simp only [hf, if_true] at h
        split at h
        · rename_i hc
          exact Or.inl ⟨rfl, hc, (Option.some.inj h).symm⟩
        · rename_i hc
          exact Or.inr (Or.inl ⟨rfl, hc, (Option.some.inj h).symm⟩)

theorem stepWith_none_iff {pick : Pick} {g : Grammar} {s : Sent} {cfg : Cfg} {st : St} :
    stepWith pick g s cfg st = none ↔ cfg.nbest ≤ st.goal.length ∨ pick.pop st.agenda = none := by
  unfold stepWith
  split
  · simp [*]
  · rename_i hlen
    split
    · simp [*]
    · rename_i it rest hpick
      simp only [hlen, hpick, false_or, reduceCtorEq, iff_false]
      split <;> split <;> simp

/-- invariants of `loop` are the properties preserved by every successful step -/
theorem loop_inv {pick : Pick} {g : Grammar} {s : Sent} {cfg : Cfg} (P : St → Prop)
    (hstep : ∀ st st', P st → stepWith pick g s cfg st = some st' → P st') :
    ∀ (fuel : Nat) (st : St), P st → P (loop pick g s cfg fuel st) := by
  intro fuel
  induction fuel with
  | zero => intro st h; exact h
  | succ fuel ih =>
    intro st h
    simp only [loop]
    split
    · exact h
    · rename_i st' hs
      exact ih st' (hstep st st' h hs)

theorem stepWith_steps {pick : Pick} {g : Grammar} {s : Sent} {cfg : Cfg} {st st' : St}
    (h : stepWith pick g s cfg st = some st') : st'.steps = st.steps + 1 := by
  obtain ⟨-, it, rest, -, hc⟩ := stepWith_cases h
  rcases hc with ⟨_, _, rfl⟩ | ⟨_, _, rfl⟩ | ⟨_, _, rfl⟩ | ⟨_, _, rfl⟩ <;> rfl

/-- the loop ends either because no step is possible or because the fuel ran out
    (for the later stages: `steps < maxStep` means the final state is stuck) -/
theorem loop_stuck_or_fuel {pick : Pick} {g : Grammar} {s : Sent} {cfg : Cfg} (fuel : Nat) (st : St) :
    stepWith pick g s cfg (loop pick g s cfg fuel st) = none ∨
      (loop pick g s cfg fuel st).steps = st.steps + fuel := by
  induction fuel generalizing st with
  | zero => exact Or.inr rfl
  | succ fuel ih =>
    simp only [loop]
    split
    · rename_i hs; exact Or.inl hs
    · rename_i st' hs
      rcases ih st' with h | h
      · exact Or.inl h
      · exact Or.inr (by rw [h, stepWith_steps hs]; omega)

/-! ### the state invariant -/

structure StOK (g : Grammar) (s : Sent) (cfg : Cfg) (st : St) : Prop where
  agenda : ∀ it ∈ st.agenda, ItemOK g s cfg it
  chart : ∀ it ∈ st.chart, it.fin = false ∧ NonFinOK g s cfg it
  goal : ∀ it ∈ st.goal, it.fin = true ∧ FinOK g s cfg it
  popped : ∀ it ∈ st.popped, ItemOK g s cfg it
  chart_sub : ∀ it ∈ st.chart, it ∈ st.popped
  goal_sub : ∀ it ∈ st.goal, it ∈ st.popped
  goal_le : st.goal.length ≤ cfg.nbest
  steps_eq : st.steps = st.popped.length

theorem StOK.init {pick : Pick} (hp : PickOK pick) (g : Grammar) (s : Sent) (cfg : Cfg) :
    StOK g s cfg (init pick s cfg) where
  agenda := fun it h =>
    let h' := leafItems_ok (g := g) (s := s) (cfg := cfg) (it := it) (hp.mem_push_nil.1 h)
    ItemOK.of_nonFin h'.1 h'.2
  chart := fun it h => by cases h
  goal := fun it h => by cases h
  popped := fun it h => by cases h
  chart_sub := fun it h => by cases h
  goal_sub := fun it h => by cases h
  goal_le := Nat.zero_le _
  steps_eq := rfl

theorem StOK.step {pick : Pick} {g : Grammar} {s : Sent} {cfg : Cfg} {st st' : St}
    (hp : PickOK pick) (h : StOK g s cfg st) (hs : stepWith pick g s cfg st = some st') :
    StOK g s cfg st' := by
  obtain ⟨hlen, it, rest, hpick, hcases⟩ := stepWith_cases hs
  obtain ⟨hperm, -⟩ := hp.spec hpick
  have hit : ItemOK g s cfg it := h.agenda it (hperm.mem_iff.1 (List.mem_cons_self ..))
  have hrest : ∀ x ∈ rest, ItemOK g s cfg x :=
    fun x hx => h.agenda x (hperm.mem_iff.1 (List.mem_cons_of_mem _ hx))
  have hpop : ∀ x ∈ it :: st.popped, ItemOK g s cfg x := by
    intro x hx
    rcases List.mem_cons.1 hx with rfl | hx
    · exact hit
    · exact h.popped x hx
  have hsteps : st.steps + 1 = (it :: st.popped).length := by rw [h.steps_eq]; rfl
  rcases hcases with ⟨_, _, rfl⟩ | ⟨hf, _, rfl⟩ | ⟨_, _, rfl⟩ | ⟨hf, _, rfl⟩
  · exact ⟨hrest, h.chart, h.goal, hpop, fun x hx => List.mem_cons_of_mem _ (h.chart_sub x hx),
      fun x hx => List.mem_cons_of_mem _ (h.goal_sub x hx), h.goal_le, hsteps⟩
  · refine ⟨hrest, h.chart, ?_, hpop, fun x hx => List.mem_cons_of_mem _ (h.chart_sub x hx), ?_, ?_,
      hsteps⟩
    · intro x hx
      rcases List.mem_cons.1 hx with rfl | hx
      · exact ⟨hf, hit.2 hf⟩
      · exact h.goal x hx
    · intro x hx
      rcases List.mem_cons.1 hx with rfl | hx
      · exact List.mem_cons_self ..
      · exact List.mem_cons_of_mem _ (h.goal_sub x hx)
    · exact hlen
  · exact ⟨hrest, h.chart, h.goal, hpop, fun x hx => List.mem_cons_of_mem _ (h.chart_sub x hx),
      fun x hx => List.mem_cons_of_mem _ (h.goal_sub x hx), h.goal_le, hsteps⟩
  · refine ⟨?_, ?_, h.goal, hpop, ?_, fun x hx => List.mem_cons_of_mem _ (h.goal_sub x hx),
      h.goal_le, hsteps⟩
    · intro x hx
      rcases hp.mem_push.1 hx with hx | hx
      · exact expand_ok (hit.1 hf) hf (fun o ho => (h.chart o ho).2) hx
      · exact hrest x hx
    · intro x hx
      rcases List.mem_cons.1 hx with rfl | hx
      · exact ⟨hf, hit.1 hf⟩
      · exact h.chart x hx
    · intro x hx
      rcases List.mem_cons.1 hx with rfl | hx
      · exact List.mem_cons_self ..
      · exact List.mem_cons_of_mem _ (h.chart_sub x hx)

/-- every state reached by the loop is well-formed -/
theorem StOK.of_loop {pick : Pick} (hp : PickOK pick) (g : Grammar) (s : Sent) (cfg : Cfg) (fuel : Nat)
    {st : St} (h : StOK g s cfg st) : StOK g s cfg (Search.loop pick g s cfg fuel st) :=
  loop_inv (StOK g s cfg) (fun _ _ h hs => h.step hp hs) fuel st h

theorem StOK.final {pick : Pick} (hp : PickOK pick) (g : Grammar) (s : Sent) (cfg : Cfg) :
    StOK g s cfg (Search.loop pick g s cfg cfg.maxStep (Search.init pick s cfg)) :=
  (StOK.init hp g s cfg).of_loop hp g s cfg cfg.maxStep

/-! ### consistency: nothing pushed by `expand … it` has a larger priority than `it` -/

theorem finItem_prio_le {g : Grammar} {s : Sent} {cfg : Cfg} {it : Item} (hs : SentOK s)
    (h : NonFinOK g s cfg it) (hlen : it.len = s.n) : (finItem s it).prio ≤ it.prio := by
  have h1 := h.stop_le
  have h2 := h.head_lt
  have h3 := h.len_pos
  have hd := depAt_le_bestDep hs (t := it.head) (col := 0) (by omega) (by omega)
  have e := h.prio_eq
  have e0 : it.start = 0 := by omega
  rw [e0, hlen, Nat.zero_add] at e
  rw [e]
  simp only [Item.prio, finItem, sumTo]
  omega

theorem unaryItems_prio_le {g : Grammar} {cfg : Cfg} {it x : Item} (hp : 0 ≤ cfg.penalty)
    (hx : x ∈ unaryItems g cfg it) : x.prio ≤ it.prio := by
  obtain ⟨c, rid, _, rfl⟩ := mem_unaryItems hx
  simp only [Item.prio]
  omega

/-- a binary result is bounded by both of its children: the inside bound of the other child pays
    for the part of the outside estimate that is lost -/
theorem binaryItems_prio_le {g : Grammar} {s : Sent} {cfg : Cfg} {l r x : Item} (hs : SentOK s)
    (hp : 0 ≤ cfg.penalty) (hl : NonFinOK g s cfg l) (hr : NonFinOK g s cfg r)
    (hadj : r.start = l.start + l.len) (hx : x ∈ binaryItems g s l r) :
    x.prio ≤ l.prio ∧ x.prio ≤ r.prio := by
  have hxok := (binaryItems_ok hl hr hadj hx).2
  obtain ⟨rule, rid, _, rfl⟩ := mem_binaryItems hx
  have e := hxok.prio_eq
  have el := hl.prio_eq
  have er := hr.prio_eq
  have il := hl.inside_le hs hp
  have ir := hr.inside_le hs hp
  have l1 := hl.len_pos
  have l2 := hl.head_ge
  have l3 := hl.head_lt
  have r1 := hr.len_pos
  have r2 := hr.head_ge
  have r3 := hr.head_lt
  have r4 := hr.stop_le
  rw [hadj] at er ir r2 r3 r4
  rw [e, el, er]
  dsimp only
  rw [← Nat.add_assoc]
  cases rule.headLeft with
  | false =>
    have hd := depAt_le_bestDep hs (t := l.head) (col := r.head + 1) (by omega) (by omega)
    simp only [Bool.false_eq_true, if_false]
    omega
  | true =>
    have hd := depAt_le_bestDep hs (t := r.head) (col := l.head + 1) (by omega) (by omega)
    simp only [if_true]
    omega

theorem expand_prio_le {g : Grammar} {s : Sent} {cfg : Cfg} {chart : List Item} {it x : Item}
    (hs : SentOK s) (hp : 0 ≤ cfg.penalty) (h : NonFinOK g s cfg it)
    (hc : ∀ o ∈ chart, NonFinOK g s cfg o) (hx : x ∈ expand g s cfg chart it) :
    x.prio ≤ it.prio := by
  simp only [expand, List.mem_append, List.mem_flatMap, mem_neighbours, beq_iff_eq] at hx
  rcases hx with ((hx | hx) | ⟨o, ⟨ho, hadj⟩, hx⟩) | ⟨o, ⟨ho, hadj⟩, hx⟩
  · split at hx
    · rename_i hcond
      rw [List.mem_singleton] at hx; subst hx
      exact finItem_prio_le hs h hcond.1
    · cases hx
  · split at hx
    · exact unaryItems_prio_le hp hx
    · cases hx
  · exact (binaryItems_prio_le hs hp h (hc o ho) hadj hx).1
  · exact (binaryItems_prio_le hs hp (hc o ho) h (by rw [← hadj]; rfl) hx).2

/-! ### the agenda bound -/

/-- popped priorities (most recent first) never decrease towards the past, and every agenda
    item is bounded by every popped item (equivalently: by the last popped one) -/
structure PrioOK (st : St) : Prop where
  chain : (st.popped.map Item.prio).Pairwise (· ≤ ·)
  bound : ∀ a ∈ st.agenda, ∀ p ∈ st.popped, a.prio ≤ p.prio

theorem PrioOK.init (pick : Pick) (s : Sent) (cfg : Cfg) : PrioOK (init pick s cfg) :=
  ⟨List.Pairwise.nil, fun _ _ _ hp => by cases hp⟩

theorem PrioOK.step {pick : Pick} {g : Grammar} {s : Sent} {cfg : Cfg} {st st' : St}
    (hp : PickOK pick) (hs : SentOK s) (hpen : 0 ≤ cfg.penalty) (hok : StOK g s cfg st)
    (h : PrioOK st) (hstep : stepWith pick g s cfg st = some st') : PrioOK st' := by
  obtain ⟨-, it, rest, hpick, hcases⟩ := stepWith_cases hstep
  obtain ⟨hperm, hmax⟩ := hp.spec hpick
  have hitmem : it ∈ st.agenda := hperm.mem_iff.1 (List.mem_cons_self ..)
  have hit : ItemOK g s cfg it := hok.agenda it hitmem
  have hchain : ((it :: st.popped).map Item.prio).Pairwise (· ≤ ·) := by
    rw [List.map_cons, List.pairwise_cons]
    refine ⟨?_, h.chain⟩
    intro q hq
    obtain ⟨p, hp', rfl⟩ := List.mem_map.1 hq
    exact h.bound it hitmem p hp'
  have hrest : ∀ a ∈ rest, ∀ p ∈ it :: st.popped, a.prio ≤ p.prio := by
    intro a ha p hp'
    have ha' : a ∈ st.agenda := hperm.mem_iff.1 (List.mem_cons_of_mem _ ha)
    rcases List.mem_cons.1 hp' with rfl | hp'
    · exact hmax a ha'
    · exact h.bound a ha' p hp'
  rcases hcases with ⟨_, _, rfl⟩ | ⟨_, _, rfl⟩ | ⟨_, _, rfl⟩ | ⟨hf, _, rfl⟩
  · exact ⟨hchain, hrest⟩
  · exact ⟨hchain, hrest⟩
  · exact ⟨hchain, hrest⟩
  · refine ⟨hchain, ?_⟩
    intro a ha p hp'
    rcases hp.mem_push.1 ha with ha | ha
    · have h1 : a.prio ≤ it.prio :=
        expand_prio_le hs hpen (hit.1 hf) (fun o ho => (hok.chart o ho).2) ha
      rcases List.mem_cons.1 hp' with rfl | hp'
      · exact h1
      · exact Int.le_trans h1 (h.bound it hitmem p hp')
    · exact hrest a ha p hp'

theorem PrioOK.final {pick : Pick} (hp : PickOK pick) {g : Grammar} {s : Sent} {cfg : Cfg}
    (hs : SentOK s) (hpen : 0 ≤ cfg.penalty) :
    PrioOK (Search.loop pick g s cfg cfg.maxStep (Search.init pick s cfg)) := by
  have := loop_inv (pick := pick) (g := g) (s := s) (cfg := cfg)
    (fun st => StOK g s cfg st ∧ PrioOK st)
    (fun st st' h hstep => ⟨h.1.step hp hstep, h.2.step hp hs hpen h.1 hstep⟩)
    cfg.maxStep (Search.init pick s cfg) ⟨StOK.init hp g s cfg, PrioOK.init pick s cfg⟩
  exact this.2

/-! ### sorting the goal list -/

theorem insertDesc_perm (it : Item) (l : List Item) : (insertDesc it l).Perm (it :: l) := by
  induction l with
  | nil => exact List.Perm.refl _
  | cons o os ih =>
    simp only [insertDesc]
    split
    · exact List.Perm.refl _
    · exact (List.Perm.cons o ih).trans (List.Perm.swap it o os)

theorem sortDesc_perm (l : List Item) : (sortDesc l).Perm l := by
  induction l with
  | nil => exact List.Perm.refl _
  | cons c cs ih => exact (insertDesc_perm c _).trans (List.Perm.cons c ih)

theorem insertDesc_sorted {it : Item} {l : List Item}
    (h : l.Pairwise (fun a b : Item => a.prio ≥ b.prio)) :
    (insertDesc it l).Pairwise (fun a b : Item => a.prio ≥ b.prio) := by
  induction l with
  | nil => simp [insertDesc]
  | cons o os ih =>
    rw [List.pairwise_cons] at h
    simp only [insertDesc]
    split
    · rename_i hc
      refine List.pairwise_cons.2 ⟨?_, List.pairwise_cons.2 h⟩
      intro b hb
      rcases List.mem_cons.1 hb with rfl | hb
      · omega
      · have := h.1 b hb; omega
    · rename_i hc
      refine List.pairwise_cons.2 ⟨?_, ih h.2⟩
      intro b hb
      rcases List.mem_cons.1 ((insertDesc_perm it os).mem_iff.1 hb) with rfl | hb'
      · omega
      · exact h.1 b hb'

theorem sortDesc_sorted (l : List Item) :
    (sortDesc l).Pairwise (fun a b : Item => a.prio ≥ b.prio) := by
  induction l with
  | nil => exact List.Pairwise.nil
  | cons c cs ih => exact insertDesc_sorted ih

/-! ### the simplest agenda `pickFirstMax` -/

theorem foldl_maxPrio_ge_init (l : List Item) (a : Int) :
    a ≤ l.foldl (fun m i => max m i.prio) a := by
  induction l generalizing a with
  | nil => simp
  | cons x xs ih =>
    simp only [List.foldl_cons]
    exact Int.le_trans (Int.le_max_left a x.prio) (ih _)

theorem foldl_maxPrio_ge_mem (l : List Item) (a : Int) (x : Item) (h : x ∈ l) :
    x.prio ≤ l.foldl (fun m i => max m i.prio) a := by
  induction l generalizing a with
  | nil => cases h
  | cons y ys ih =>
    simp only [List.foldl_cons]
    rcases List.mem_cons.1 h with rfl | h
    · exact Int.le_trans (Int.le_max_right a x.prio) (foldl_maxPrio_ge_init _ _)
    · exact ih _ h

theorem foldl_maxPrio_attained (l : List Item) (a : Int) :
    l.foldl (fun m i => max m i.prio) a = a ∨ ∃ x ∈ l, x.prio = l.foldl (fun m i => max m i.prio) a := by
  induction l generalizing a with
  | nil => exact Or.inl rfl
  | cons y ys ih =>
    simp only [List.foldl_cons]
    rcases ih (max a y.prio) with h | ⟨x, hx, e⟩
    · rw [h]
      rcases Int.le_total a y.prio with hle | hle
      · exact Or.inr ⟨y, List.mem_cons_self .., by rw [Int.max_eq_right hle]⟩
      · exact Or.inl (Int.max_eq_left hle)
    · exact Or.inr ⟨x, List.mem_cons_of_mem _ hx, e⟩

theorem maxPrio_spec {l : List Item} {m : Int} (h : maxPrio l = some m) :
    (∀ o ∈ l, o.prio ≤ m) ∧ ∃ x ∈ l, x.prio = m := by
  cases l with
  | nil => cases h
  | cons y ys =>
    simp only [maxPrio, Option.some.injEq] at h
    subst h
    constructor
    · intro o ho
      rcases List.mem_cons.1 ho with rfl | ho
      · exact foldl_maxPrio_ge_init _ _
      · exact foldl_maxPrio_ge_mem _ _ _ ho
    · rcases foldl_maxPrio_attained ys y.prio with h | ⟨x, hx, e⟩
      · exact ⟨y, List.mem_cons_self .., h.symm⟩
      · exact ⟨x, List.mem_cons_of_mem _ hx, e⟩

theorem removeFirst_spec {p : Item → Bool} {l : List Item} (h : ∃ x ∈ l, p x = true) :
    ∃ y rest, removeFirst p l = some (y, rest) ∧ p y = true ∧ (y :: rest).Perm l := by
  induction l with
  | nil => obtain ⟨x, hx, _⟩ := h; cases hx
  | cons z zs ih =>
    simp only [removeFirst]
    cases hz : p z with
    | true => exact ⟨z, zs, by simp, hz, List.Perm.refl _⟩
    | false =>
      have : ∃ x ∈ zs, p x = true := by
        obtain ⟨x, hx, hpx⟩ := h
        rcases List.mem_cons.1 hx with rfl | hx
        · rw [hz] at hpx; cases hpx
        · exact ⟨x, hx, hpx⟩
      obtain ⟨y, rest, e, hy, hperm⟩ := ih this
      refine ⟨y, z :: rest, by simp [e], hy, ?_⟩
      exact (List.Perm.swap z y rest).trans (List.Perm.cons z hperm)

theorem pickFirstMax_PickOK : PickOK pickFirstMax := by
  refine ⟨rfl, ?_, fun _ _ => List.Perm.refl _⟩
  intro l hne
  cases hm : maxPrio l with
  | none => cases l with
    | nil => exact absurd rfl hne
    | cons y ys => simp [maxPrio] at hm
  | some m =>
    obtain ⟨hmax, x, hx, hxm⟩ := maxPrio_spec hm
    obtain ⟨y, rest, e, hy, hperm⟩ :=
      removeFirst_spec (p := fun i => i.prio == m) (l := l) ⟨x, hx, by simp [hxm]⟩
    refine ⟨y, rest, ?_, hperm, ?_⟩
    · simp only [pickFirstMax, popFirstMax, hm]; exact e
    · intro o ho
      have : y.prio = m := by simpa using hy
      rw [this]; exact hmax o ho

end Depccg.SearchProps
