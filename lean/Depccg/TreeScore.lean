/-
  The model score of a returned tree, computed from the tree alone (its head flags, its leaf
  categories) and the inputs — what C09 says the attached score must equal. Used by the theorems
  of `Props/TreeLevel.lean` and, through the driver op `treescore`, on the real trees.
-/
import Depccg.Search
import Depccg.Tree

namespace Depccg.TreeLevel
open Depccg Search

/-- the categories of the leaves, left to right -/
def leafCatsT : Tree → List Cat
  | .leaf c _ _ _ => [c]
  | .un _ _ _ ch => leafCatsT ch
  | .bin _ _ _ _ l r => leafCatsT l ++ leafCatsT r

/-- head word of a subtree whose first word has index `off`, by the tree's own head flags -/
def headT : Tree → Nat → Nat
  | .leaf .., off => off
  | .un _ _ _ ch, off => headT ch off
  | .bin _ _ _ h l r, off => if h then headT l off else headT r (off + l.numLeaves)

/-- Σ over leaves of the tag score of (word, column of the leaf's category in `categories`);
    `none` if a leaf category is not in the list -/
def tagSumT (categories : List Cat) (s : Sent) : Tree → Nat → Option Int
  | .leaf c _ _ _, off => if c ∈ categories then some (tagAt s off (categories.idxOf c)) else none
  | .un _ _ _ ch, off => tagSumT categories s ch off
  | .bin _ _ _ _ l r, off =>
    match tagSumT categories s l off, tagSumT categories s r (off + l.numLeaves) with
    | some a, some b => some (a + b)
    | _, _ => none

/-- Σ over binary nodes of the dependency score of the non-head child's head word attaching to
    the head child's head word -/
def depSumT (s : Sent) : Tree → Nat → Int
  | .leaf .., _ => 0
  | .un _ _ _ ch, off => depSumT s ch off
  | .bin _ _ _ h l r, off =>
    let hl := headT l off
    let hr := headT r (off + l.numLeaves)
    depSumT s l off + depSumT s r (off + l.numLeaves) + (if h then depAt s hr (hl + 1) else depAt s hl (hr + 1))

def nUnaryT : Tree → Nat
  | .leaf .. => 0
  | .un _ _ _ ch => nUnaryT ch + 1
  | .bin _ _ _ _ l r => nUnaryT l + nUnaryT r

/-- the model score of a returned tree, from the tree alone and the inputs -/
def treeScore (categories : List Cat) (s : Sent) (cfg : Cfg) (t : Tree) : Option Int :=
  (tagSumT categories s t 0).map fun ts => ts + depSumT s t 0 + depAt s (headT t 0) 0 - cfg.penalty * (nUnaryT t)

end Depccg.TreeLevel
