/-
  Model of depccg/unification.py : `Unification(meta_x, meta_y)(x, y)` and `uni[key]`.
  Python dicts are association lists with insertion order and in-place overwrite.
-/
import Depccg.Cat

namespace Depccg
open Str

/-- Python dict as association list: insertion order, overwrite keeps the position -/
abbrev Dict (κ : Type) (α : Type) := List (κ × α)

namespace Dict
variable {κ α : Type} [DecidableEq κ]

def get? (d : Dict κ α) (k : κ) : Option α :=
  match d with
  | [] => none
  | (k', v) :: rest => if k' = k then some v else get? rest k

def set (d : Dict κ α) (k : κ) (v : α) : Dict κ α :=
  match d with
  | [] => [(k, v)]
  | (k', v') :: rest => if k' = k then (k, v) :: rest else (k', v') :: set rest k v

def keys (d : Dict κ α) : List κ := d.map (·.1)

def contains (d : Dict κ α) (k : κ) : Bool := (get? d k).isSome

end Dict

namespace Unify

/-- `scan_deep(s, v, index, results)` : features of the atoms of `s`, left to right, under the
    keys `v0, v1, …`; returns the next index -/
def scanDeep : Cat → Str → Nat → Dict Str Feat → Nat × Dict Str Feat
  | .fn l _ r, v, i, res =>
    let (i1, res1) := scanDeep l v i res
    scanDeep r v i1 res1
  | .atom _ f, v, i, res => (i + 1, Dict.set res (v ++ Str.ofNat i) f)

/-- `scan(s, t, results)` with `self.cats` threaded through. `s` is the pattern. -/
def scan : Cat → Cat → Dict Str Cat → Dict Str Feat → Bool × Dict Str Cat × Dict Str Feat
  | .atom b _, t, cats, res =>
    let clash := match Dict.get? cats b with
      | some c => !(Cat.xorEq t c)
      | none => false
    if clash then (false, cats, res) else
    let cats' := Dict.set cats b t
    match t with
    | .fn .. => (true, cats', (scanDeep t b 0 res).2)
    | .atom _ tf => (true, cats', Dict.set res b tf)
  | .fn sl ss sr, t, cats, res =>
    match t with
    | .fn tl ts tr =>
      if ss == ts || ss == cBar || ts == cBar then
        match scan sl tl cats res with
        | (true, cats1, res1) => scan sr tr cats1 res1
        | (false, cats1, res1) => (false, cats1, res1)
      else (false, cats, res)
    | .atom .. => (false, cats, res)

/-- the agreement loop over the shared meta variables -/
def agree (xf yf : Dict Str Feat) : List Str → Dict Feat Feat → Except Err (Option (Dict Feat Feat))
  | [], m => .ok (some m)
  | v :: vs, m =>
    match Dict.get? xf v, Dict.get? yf v with
    | some fx, some fy =>
      match Feat.unifies fx fy with
      | .error e => .error e
      | .ok true => agree xf yf vs (if fx.isVariable then Dict.set m fx fy else m)
      | .ok false =>
        match Feat.unifies fy fx with
        | .error e => .error e
        | .ok true => agree xf yf vs (if fy.isVariable then Dict.set m fy fx else m)
        | .ok false => .ok none
    | _, _ => .error .keyError   -- unreachable: vs are shared keys

/-- the shared meta variables in the order the code visits them: the keys of `x_features`, in
    insertion order, that are also keys of `y_features` -/
def sharedVars (xf yf : Dict Str Feat) : List Str :=
  (Dict.keys xf).filter fun k => Dict.contains yf k

/-- what a successful call leaves behind -/
structure Bindings where
  cats : Dict Str Cat
  mapping : Dict Feat Feat
  deriving Repr

/-- `Unification(px, py)(x, y)`, with the visiting order of the shared variables as a parameter
    (`ord` must permute its argument; the code's own order is `id`). -/
def unifyOrd (ord : List Str → List Str) (px py x y : Cat) : Except Err (Option Bindings) :=
  match scan px x [] [] with
  | (false, _, _) => .ok none
  | (true, cats1, xf) =>
    match scan py y cats1 [] with
    | (false, _, _) => .ok none
    | (true, cats2, yf) =>
      match agree xf yf (ord (sharedVars xf yf)) [] with
      | .error e => .error e
      | .ok none => .ok none
      | .ok (some m) => .ok (some ⟨cats2, m⟩)

def unify (px py x y : Cat) : Except Err (Option Bindings) := unifyOrd id px py x y

/-- `rec` of `__getitem__` : substitute instantiated variable features -/
def subst (m : Dict Feat Feat) : Cat → Cat
  | .fn l s r => .fn (subst m l) s (subst m r)
  | .atom b f =>
    match Dict.get? m f with
    | some g => .atom b g
    | none => .atom b f

/-- `uni[key]` after a successful call -/
def Bindings.get (σ : Bindings) (key : Str) : Except Err Cat :=
  match Dict.get? σ.cats key with
  | some c => .ok (subst σ.mapping c)
  | none => .error .keyError

/-! ### the object protocol: answers once, no binding after a failure -/

inductive Obj where
  | fresh (px py : Cat)
  | succeeded (σ : Bindings)
  | failed
  deriving Repr

/-- `uni(x, y)` -/
def Obj.call : Obj → Cat → Cat → Except Err Bool × Obj
  | .fresh px py, x, y =>
    match unify px py x y with
    | .ok (some σ) => (.ok true, .succeeded σ)
    | .ok none => (.ok false, .failed)
    | .error e => (.error e, .failed)
  | o, _, _ => (.error .runtime, o)

/-- `uni[key]` -/
def Obj.get : Obj → Str → Except Err Cat
  | .succeeded σ, k => σ.get k
  | _, _ => .error .assertion

end Unify
end Depccg
