/-
  Corrected versions of the two statements of `MainTotalDefs.lean`, both false as written
  (`Props/MainTotal.lean`: `results_render_original_false`, `main_total_original_false`).

  Both fail in the same corner, and only for the English Prolog format: the rule `conjunction2` of
  en.py returns its right argument `y` under the label `conj` whenever `str(y) == "NP\\NP"`, and the
  Prolog printer reads `.left` of the category of every node labelled `conj`. For the functor
  `NP\NP` that is fine; but an *atom* whose name is the five characters `NP\NP` prints the same
  text, passes the test, and has no `.left`: `AttributeError`. `Category.parse` never builds such an
  atom (the tokenizer isolates the backslash), but the statements quantify over arbitrary category
  values in the caller's category list (`ResultsRenderStatement`) and in the unary table (both).

  The extra hypothesis is the one of `OutputWF`: the caller's categories and the targets of the
  unary table are well-formed (`C05.WF`; for the shipped inventories and tables this is
  `Generated.shipped_all_wf`, C17). It is needed only for the English Prolog format; the six record
  formats, json, html and the Japanese Prolog format are total without it.
-/
import Depccg.Props.MainTotalDefs
import Depccg.Props.ClosureDefs

namespace Depccg.CliProps
open Depccg Str Search GlueRun Lazy Print Cli LazyProps

/-- `ResultsRenderStatement` with well-formed categories and unary-table targets for the English
    Prolog printer's condition (the other two conclusions hold as stated) -/
def ResultsRenderStatement' : Prop :=
  ∀ (en : Bool) (seen : Option (List (Cat × Cat))) (table : List (Cat × List Cat))
    (categories roots : List Cat) (calls : List Call) (cfg : Cfg) (maxLength : Option Nat) (x : SentIn) (r : SentResult),
    categories.Nodup → LexOK categories x →
    (∀ tok ∈ x.tokens, C19.HasWord tok) →
    (sentenceL pickHeap (OutputWF.shipped en seen table) (addRoots categories roots).2 cfg maxLength
        (calls.foldl (GlueRun.step (OutputWF.shipped en seen table)) (GlueRun.init categories roots)) x).1 = .ok r →
    ∀ ts ∈ scored r, TextProps.AllToks C19.HasWord ts.1 ∧
      (en = true → Closure.TableWF table → (∀ c ∈ categories, C05.WF c) → C19.EnPrologOK ts.1) ∧
      (en = false → C19.JaPrologOK ts.1)

/-- `MainTotalStatement` with, for `--format prolog` under the English program only, well-formed
    tagger categories and unary-table targets -/
def MainTotalStatement' : Prop :=
  ∀ (en : Bool) (seen : Option (List (Cat × Cat))) (table : List (Cat × List Cat)) (o : Opts)
    (lines tagCats : List Str) (scores : List Scores) (roots categories : List Cat) (doc : List (List Token)),
    rootsOf o.rootCats = .ok roots → Cli.mapExcept (tokensOfLine o.piped) lines = .ok doc →
    Cli.mapExcept Cat.parse tagCats = .ok categories → categories.Nodup →
    (∀ x ∈ zipSents doc scores, LexOK categories x) → fmtFits en o.format = true →
    (o.format = Fmt.prologEn → Closure.TableWF table ∧ ∀ c ∈ categories, C05.WF c) →
    ∃ text, mainText (OutputWF.shipped en seen table) o lines tagCats scores = .ok text

end Depccg.CliProps
