/-
  C15 at the level of files: the theorems.   Statements: `Depccg/Props/C15FileDefs.lean`;
  lemmas: `Depccg/Proofs/C15FileLemmas.lean`.  Both statements are proved as stated.
-/
import Depccg.Proofs.C15FileLemmas

namespace Depccg.C15File
open Depccg Str Xml TextProps C15

/-- the C&C XML text of a batch, read back by `read_xml`: the image of `xml_roundtrip` for every tree -/
theorem xml_file_roundtrip : XmlFileRoundtripStatement := cf_xml_file

/-- the Jigg XML text of a Japanese batch, read back by `read_jigg_xml`: categories, shape, words -/
theorem jigg_file_roundtrip_ja : JiggFileRoundtripJaStatement := cf_jigg_file

end Depccg.C15File
