/-
  Type preservation all the way to what the caller receives. Statements in
  `Depccg/Props/OutputWFDefs.lean` (unchanged), helper lemmas in `Depccg/Proofs/OutputWFLemmas.lean`.

  `lazy_trees_wf` joins `lazy_trees_licensed` (every returned tree is licensed by the rule
  functions), `shipped_closed` / `licensed_tree_wf` (the shipped grammars preserve well-formedness)
  and the missing piece, the leaves: a leaf's tag id is a column of the tag matrix, hence
  (`LexOK`) a position of the caller's category list, of which the table of the run is an extension
  by prefix. `output_cats_roundtrip` follows with C05 (`parse_print`).
-/
import Depccg.Props.OutputWFDefs
import Depccg.Proofs.OutputWFLemmas

namespace Depccg.OutputWF
open Depccg Search GlueTree GlueRun Lazy LazyProps C05 TextProps Closure

/-- every category of every tree returned for a sentence is well-formed, whatever the call did before -/
theorem lazy_trees_wf : LazyTreesWFStatement := by
  intro en seen table categories roots calls cfg maxLength x trees hnd hlex htab hcats _ h ts hts
  obtain ⟨hlic, hleaf⟩ := ow_sentence_trees hnd hlex h ts hts
  exact licensed_tree_wf _ ts.1 (ow_shipped_closed en seen table htab) hlic
    (fun c hc => hcats c (hleaf c hc))

/-- … hence every category that occurs in the output reads back from its own text -/
theorem output_cats_roundtrip : OutputCatsRoundtripStatement := by
  intro en seen table categories roots calls cfg maxLength x trees hnd hlex htab hcats hroots h ts hts
  exact ow_allCats_mono parse_print ts.1
    (lazy_trees_wf en seen table categories roots calls cfg maxLength x trees hnd hlex htab hcats hroots h ts hts)

end Depccg.OutputWF
