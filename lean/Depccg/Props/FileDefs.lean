/-
  File-level round trips: text written by `to_string` (AUTO, PTB) or one `ja_of` line per tree
  (Japanese bank) read back by `read_auto` / `read_ptb` / `read_ccgbank`.   Statements.

  The line-level theorems (`C08.auto_roundtrip`, `C20.ptb_roundtrip`, `C20.ja_roundtrip_partial`)
  are reused with exactly their hypotheses.  What the file level needs in addition:
  * score texts: no newline inside, and the last character is not Unicode white space (`ScoreOK`).
    `PlainWord` alone is too weak: it allows e.g. a final no-break space (160), which `strip`
    removes from the `ID` line, so the name read back is not the header written
    (`Props/File.lean`, `score_trailing_space_changes_name`).  `PlainWord` is also stronger than
    needed (blanks inside the score text are harmless): `ScoreOK` is the minimal condition, and
    `PlainWord sc` + "last character not white space" implies it (`score_ok`).
  * Japanese lines: the line-level hypotheses allow a newline inside a category name or a
    part-of-speech / inflection value (nothing in `JaCatOK` / `JaTokOK` forbids the code point
    10); `JaNoNL` excludes it (`Props/File.lean`, `ja_newline_breaks_file`).
    Nothing is needed for AUTO / PTB: `CatOK`, `TokOK`, `PtbTokOK` already exclude newlines, and
    the lines start with `(` and end with `)`, so `strip` is the identity on them whatever the
    words are; a tree line never starts with `ID`.
-/
import Depccg.Props.C08Defs
import Depccg.Props.C20Defs
import Depccg.Print.More
import Depccg.Read.File

namespace Depccg.FileProps
open Depccg Str Print Read TextProps C20

/-- `[f(x) for x in xs]` where `f` may raise: the first error wins -/
def mapExcept {α β : Type} (f : α → Except Err β) : List α → Except Err (List β)
  | [] => .ok []
  | x :: xs =>
    match f x with
    | .error e => .error e
    | .ok y =>
      match mapExcept f xs with
      | .error e => .error e
      | .ok ys => .ok (y :: ys)

/-- two lists related position by position (Mathlib's `List.Forall₂`) -/
inductive Forall2 {α β : Type} (R : α → β → Prop) : List α → List β → Prop
  | nil : Forall2 R [] []
  | cons {a : α} {b : β} {as : List α} {bs : List β} :
      R a b → Forall2 R as bs → Forall2 R (a :: as) (b :: bs)

/-! ### `strip` -/

/-- `strip` leaves a string alone whose first and last characters are not white space -/
def StripNoopStatement : Prop :=
  ∀ (s : Str) (a b : Nat), s.head? = some a → s.getLast? = some b →
    isPySpace a = false → isPySpace b = false → strip s = s

/-- a string of white space only strips to the empty string -/
def StripBlankStatement : Prop := ∀ (s : Str), (∀ c ∈ s, isPySpace c = true) → strip s = []

/-- the stripped string neither starts nor ends with white space, and stripping twice is
    stripping once -/
def StripEndsStatement : Prop :=
  ∀ (s : Str),
    (∀ a, (strip s).head? = some a → isPySpace a = false) ∧
    (∀ b, (strip s).getLast? = some b → isPySpace b = false) ∧
    strip (strip s) = strip s

/-! ### hypotheses -/

/-- a score text the `ID` line can carry: no newline inside, last character not white space -/
def ScoreOK (sc : Str) : Prop := 10 ∉ sc ∧ ∀ c, sc.getLast? = some c → isPySpace c = false

/-- the hypotheses of `C08.auto_roundtrip` on one tree -/
def AutoTreeOK (lang : Lang) (t : Tree) : Prop :=
  AllCats CatOK t ∧ AllCats (OneSystem lang) t ∧ AllToks TokOK t

/-- the hypotheses of `C20.ptb_roundtrip` on one tree -/
def PtbTreeOK (lang : Lang) (t : Tree) : Prop :=
  AllCats CatOK t ∧ AllCats (OneSystem lang) t ∧ AllToks PtbTokOK t

/-- the hypotheses of `C20.ja_roundtrip_partial` on one tree -/
def JaTreeOK (t : Tree) : Prop :=
  AllCats JaCatOK t ∧ AllToks JaTokOK t ∧ AllToks JaInflOK t ∧ SymOK t

/-- no newline inside a category text or a printed part-of-speech / inflection field (the extra
    file-level hypothesis for the Japanese format) -/
def JaNoNL (t : Tree) : Prop :=
  AllCats (fun c => 10 ∉ c.str) t ∧
  AllToks (fun tok => 10 ∉ jaField tok ["pos", "pos1", "pos2", "pos3"] ∧
                      10 ∉ jaField tok ["inflectionForm", "inflectionType"]) t

/-- every tree of the batch satisfies `p`, every score text is `ScoreOK` -/
def BatchOK (p : Tree → Prop) (batch : List (List (Tree × Str))) : Prop :=
  ∀ trees ∈ batch, ∀ ts ∈ trees, p ts.1 ∧ ScoreOK ts.2

/-! ### the expected results -/

/-- one result per tree of the batch, in order: named by the tree's own header line
    `ID=<sentence number>, log probability=<score>` (so all n-best trees of a sentence carry the
    sentence's number, `C07.numbering`), with the line-level image of the tree and its tokens -/
def fileImage (img : Tree → Except Err Tree) (batch : List (List (Tree × Str))) :
    Except Err (List ReaderResult) :=
  mapExcept (fun p : Nat × (Tree × Str) =>
      (img p.2.1).map fun t' => (header false p.1 p.2.2, t'.tokens, t')) (numbered batch)

/-- AUTO text written by `to_string` is read by `read_auto` to one result per tree, in order,
    each named by its header line and carrying the image of `C08.auto_roundtrip` -/
def AutoFileRoundtripStatement : Prop :=
  ∀ (lang : Lang) (batch : List (List (Tree × Str))) (text : Str),
    BatchOK (AutoTreeOK lang) batch →
    toStringLines autoOf false batch = .ok text →
    ∃ rs, fileImage (autoImage lang) batch = .ok rs ∧ readAutoFile lang text = .ok rs

/-- the same for PTB text and `read_ptb`, with the image of `C20.ptb_roundtrip` -/
def PtbFileRoundtripStatement : Prop :=
  ∀ (lang : Lang) (batch : List (List (Tree × Str))) (text : Str),
    BatchOK (PtbTreeOK lang) batch →
    toStringLines ptbOf false batch = .ok text →
    ∃ rs, fileImage (ptbImage lang) batch = .ok rs ∧ readPtbFile lang text = .ok rs

/-- the results listed explicitly: `mapExcept f xs = .ok ys` says `ys` is `xs` mapped through `f`,
    position by position -/
def MapExceptSpecStatement : Prop :=
  ∀ {α β : Type} (f : α → Except Err β) (xs : List α) (ys : List β),
    mapExcept f xs = .ok ys ↔ Forall2 (fun x y => f x = .ok y) xs ys

/-- `fileImage … = .ok rs` spelled out: one result per printed record, in order, named by the
    record's own header line, carrying the line-level image of the record's tree and the token
    list of that image -/
def FileImagePointwiseStatement : Prop :=
  ∀ (img : Tree → Except Err Tree) (batch : List (List (Tree × Str))) (rs : List ReaderResult),
    fileImage img batch = .ok rs →
    Forall2 (fun (p : Nat × (Tree × Str)) (r : ReaderResult) =>
        r.1 = header false p.1 p.2.2 ∧ img p.2.1 = .ok r.2.2 ∧ r.2.1 = r.2.2.tokens)
      (numbered batch) rs

/-- a `PlainWord` score text whose last character is not white space is `ScoreOK`; so is any
    text without white space (what `{:.8f}` prints) -/
def ScoreOKStatement : Prop :=
  (∀ sc : Str, PlainWord sc → (∀ c, sc.getLast? = some c → isPySpace c = false) → ScoreOK sc) ∧
  (∀ sc : Str, sc.all (fun c => !isPySpace c) = true → ScoreOK sc)

/-! ### Japanese bank -/

/-- one `ja_of` line per tree, every line ended by a newline -/
def jaFileLines (trees : List Tree) : Except Err Str :=
  catExcept (fun t => (jaOf t).map (· ++ [10])) trees

/-- one `ja_of` line per tree, joined by newlines (no final newline) -/
def jaFileJoined (trees : List Tree) : Except Err Str :=
  (mapExcept jaOf trees).map (joinSep 10)

/-- what the `i`-th result must be for the tree `ti.1` on line `ti.2`: named by the decimal
    line index, carrying the image of `C20.ja_roundtrip_partial` (the tree; the surface forms of
    the reader's tokens are the words of the tree) -/
def JaResultOK (ti : Tree × Nat) (r : ReaderResult) : Prop :=
  r.1 = Str.ofNat ti.2 ∧
  ∃ t', jaImage ti.1 = .ok t' ∧ r.2.2 = t' ∧
    r.2.1.map (fun tok => Token.getD tok (lit "surf") []) =
      t'.tokens.map (fun tok => Token.getD tok (lit "word") [])

/-- Japanese lines (no `ID` lines: `read_ccgbank` would parse one as a tree) are read back in
    order; the `i`-th result is named by the decimal line index `i` (from 0) and carries the
    image of `C20.ja_roundtrip_partial` -/
def JaFileRoundtripStatement : Prop :=
  ∀ (trees : List Tree) (text : Str),
    (∀ t ∈ trees, JaTreeOK t ∧ JaNoNL t) →
    (jaFileLines trees = .ok text ∨ jaFileJoined trees = .ok text) →
    ∃ rs, readJaFile text = .ok rs ∧ Forall2 JaResultOK trees.zipIdx rs

/-! ### a tree line before any `ID` line -/

/-- lines of white space only, each ended by its newline -/
def blankFront (pre : List Str) : Str := (pre.map (· ++ [10])).flatten

/-- `read_auto` on a text whose first non-empty line is a tree line raises (the local `name` is
    unbound), whatever follows that line -/
def AutoFileNeedsIdStatement : Prop :=
  ∀ (lang : Lang) (pre : List Str) (t : Tree) (s post : Str),
    (∀ l ∈ pre, 10 ∉ l ∧ ∀ c ∈ l, isPySpace c = true) →
    AutoTreeOK lang t → autoOf t = .ok s →
    (post = [] ∨ post.head? = some 10) →
    readAutoFile lang (blankFront pre ++ s ++ post) = .error .runtime

/-- `read_ptb` on the same kind of text names the tree `ID=<index of its line>` -/
def PtbFileDefaultNameStatement : Prop :=
  ∀ (lang : Lang) (pre : List Str) (t : Tree) (s post : Str),
    (∀ l ∈ pre, 10 ∉ l ∧ ∀ c ∈ l, isPySpace c = true) →
    PtbTreeOK lang t → ptbOf t = .ok s →
    (post = [] ∨ post = [10]) →
    ∃ t', ptbImage lang t = .ok t' ∧
      readPtbFile lang (blankFront pre ++ s ++ post) =
        .ok [(lit "ID=" ++ Str.ofNat pre.length, t'.tokens, t')]

end Depccg.FileProps
