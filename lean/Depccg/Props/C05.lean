/-
  C05  Category text and category values round-trip.
  Property theorems only; helper lemmas are in Depccg/Proofs/C05Lemmas.lean.
-/
import Depccg.Props.C05Defs
import Depccg.Proofs.C05Lemmas

/-!
  The definitions (`PlainTok`, `WFFeat`, `WF`, `Operand`, `Expr`, `Spells`) and the five
  statements (`…Statement : Prop`) are in `Depccg/Props/C05Defs.lean`, unchanged.
-/

namespace Depccg.C05
open Depccg Cat Str

/-- any well-formed text of a value reads to that value -/
theorem parse_denotes : ParseDenotesStatement := by
  intro ts c text he hsp
  rw [parse_eq, tokenize_of_spells hsp]
  exact read_expr_top he

/-- the printed text of a well-formed value is a well-formed text of that value -/
theorem denotes_print : DenotesPrintStatement := by
  intro c hc
  rw [tokenize_str' c hc]
  exact expr_toks c hc

/-- print, then parse: the same value -/
theorem parse_print : ParsePrintStatement := by
  intro c hc
  rw [parse_eq]
  exact read_expr_top (denotes_print c hc)

/-- `a/b/c` at top level is rejected with `RuntimeError` -/
theorem reject_flat_top : RejectFlatTopStatement := by
  intro t1 t2 t3 a b c s1 s2 text h1 h2 h3 hs1 hs2 hsp
  rw [parse_eq, tokenize_of_spells hsp]
  exact read_flat_top h1 h2 h3 hs1 hs2

/-- `(a/b/c)` anywhere is rejected with `AssertionError` -/
theorem reject_flat_inner : RejectFlatInnerStatement := by
  intro t1 t2 t3 pre post a b c s1 s2 o cl text h1 h2 h3 hs1 hs2 ho hcl hpre hsp
  rw [parse_eq, tokenize_of_spells hsp, read_flat_inner h1 h2 h3 hs1 hs2 ho hcl hpre]

/-! ### the hypotheses are satisfiable -/

/-- `S[dcl]\NP` is a well-formed value … -/
example : WF (.fn (.atom (lit "S") (.un (some (lit "dcl")))) cBSlash (.atom (lit "NP") (.un none))) := by
  refine ⟨⟨⟨by decide, ?_⟩, ⟨⟨by decide, ?_⟩, by decide⟩, by decide⟩, by decide,
    ⟨⟨by decide, ?_⟩, trivial, fun _ => rfl⟩⟩
  all_goals decide

/-- … so printing and reading it back is the identity, by the theorem and by evaluation -/
example : Cat.parse (lit "S[dcl]\\NP") =
    .ok (.fn (.atom (lit "S") (.un (some (lit "dcl")))) cBSlash (.atom (lit "NP") (.un none))) := by
  decide

/-- `< ( S[dcl] )\NP >  ` with redundant brackets and blanks: tokens, value, spelling -/
theorem example_text :
    Expr [[cLt], [cLPar], lit "S", [cLBr], lit "dcl", [cRBr], [cRPar], [cBSlash], lit "NP", [cGt]]
        (.fn (.atom (lit "S") (.un (some (lit "dcl")))) cBSlash (.atom (lit "NP") (.un none))) ∧
    Spells [[cLt], [cLPar], lit "S", [cLBr], lit "dcl", [cRBr], [cRPar], [cBSlash], lit "NP", [cGt]]
        (lit "< ( S[dcl] )\\NP >  ") := by
  have pS : PlainTok (lit "S") := ⟨by decide, by decide⟩
  have pNP : PlainTok (lit "NP") := ⟨by decide, by decide⟩
  have pdcl : PlainTok (lit "dcl") := ⟨by decide, by decide⟩
  constructor
  · refine Expr.op _ _ (Operand.angle _ _ (Expr.bin _ _ _ _ _ (Operand.round _ _ (Expr.op _ _
      (Operand.feat (lit "S") (.un (some (lit "dcl"))) pS (by decide) ⟨pdcl, by decide⟩
        (by decide)))) (by decide) (Operand.bare _ pNP)))
  · exact Spells.special 0 cLt _ _ (by decide) <|
      Spells.special 1 cLPar _ _ (by decide) <|
      Spells.plain 1 (lit "S") _ _ pS (Or.inr ⟨_, _, rfl, by decide⟩) <|
      Spells.special 0 cLBr _ _ (by decide) <|
      Spells.plain 0 (lit "dcl") _ _ pdcl (Or.inr ⟨_, _, rfl, by decide⟩) <|
      Spells.special 0 cRBr _ _ (by decide) <|
      Spells.special 1 cRPar _ _ (by decide) <|
      Spells.special 0 cBSlash _ _ (by decide) <|
      Spells.plain 0 (lit "NP") _ _ pNP (Or.inr ⟨_, _, rfl, by decide⟩) <|
      Spells.special 1 cGt _ _ (by decide) <|
      Spells.nil 2

/-- … hence it reads to `S[dcl]\NP`, by the theorem -/
example : Cat.parse (lit "< ( S[dcl] )\\NP >  ") =
    .ok (.fn (.atom (lit "S") (.un (some (lit "dcl")))) cBSlash (.atom (lit "NP") (.un none))) :=
  parse_denotes _ _ _ example_text.1 example_text.2

/-- the two rejections, evaluated -/
example : Cat.parse (lit "a/b\\c") = .error .runtime := by decide
example : Cat.parse (lit "((a/b\\c) x") = .error .assertion := by decide

end Depccg.C05
