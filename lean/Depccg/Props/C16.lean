/-
  C16  The supertag beam is honoured.
  The loop theorems (`admitted_prefix`, `admitted_subset_topk`, `admitted_all_pass`, `filter_off`,
  `admitted_stops_at_failure`, `candidates_sorted`, `leaf_tags_admitted`, `returned_valid`) are in
  Props/SearchBasics.lean; this file adds the consequence for the whole search:
  tags excluded by the beam are not available, so a sentence whose only derivations need them fails.
-/
import Depccg.Props.SearchBasics

namespace Depccg.SearchProps
open Depccg Search

/-- if no complete parse can be built from the admitted tags, nothing is returned -/
theorem excluded_tags_unavailable (pick : Pick) (g : Grammar) (s : Sent) (cfg : Cfg) (hp : PickOK pick)
    (h : ¬ ∃ d, LicensedRoot g s cfg d) : (runWith pick g s cfg).results = [] := by
  cases hres : (runWith pick g s cfg).results with
  | nil => rfl
  | cons r rest =>
    exfalso
    have hr : r ∈ (runWith pick g s cfg).results := by rw [hres]; exact List.mem_cons_self
    exact h ⟨r.d, (returned_valid pick g s cfg hp r hr).1⟩

/-- every leaf of every returned parse carries a tag among the `pruning` best of its token that,
    with the filter on, passed the probability test -/
theorem leaf_tags_within_beam (pick : Pick) (g : Grammar) (s : Sent) (cfg : Cfg) (hp : PickOK pick) :
    ∀ r ∈ (runWith pick g s cfg).results, ∀ tc ∈ leafCats r.d,
      ∃ sc, (sc, tc.2) ∈ admitted s cfg tc.1 ∧ (sc, tc.2) ∈ topK s cfg tc.1 := by
  intro r hr tc htc
  obtain ⟨sc, hsc⟩ := leaf_tags_admitted g s cfg r.d (returned_valid pick g s cfg hp r hr).1.1 tc htc
  exact ⟨sc, hsc, admitted_subset_topk s cfg tc.1 _ hsc⟩

end Depccg.SearchProps
