import Depccg.Props.C17Defs
import Depccg.Props.C17Thms
import Depccg.Generated.All
