import Depccg.Props.C17Defs
import Depccg.Generated.All
