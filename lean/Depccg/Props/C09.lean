import Depccg.Props.SearchBasics
