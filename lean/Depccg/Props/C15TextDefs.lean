/-
  C15 / C07 for the two XML formats at the level of the printed characters: the text
  `etree.tostring(…, pretty_print=True)` produces (`Xml.Elem.render`, compared character by
  character with the real output) is read by an XML reader written in Lean (`Read.parseXml`:
  elements, attributes, the five predefined entities, decimal and hexadecimal character
  references, white space between elements) and yields exactly the element tree that was printed;
  from it the `<ccg>` records of `xmlOf` and the sentences of `jiggOf` — on which `xml_roundtrip`,
  `jigg_roundtrip_ja`, `jigg_wellformed_partial`, `build_tree_iso` are stated — are recovered.
-/
import Depccg.Print.XmlText
import Depccg.Read.XmlText
import Depccg.Props.C15Defs

namespace Depccg.C15Text
open Depccg Str Xml

/-- the characters of an XML name as far as this printer needs them: not empty, no white space, none
    of `= < > / " ' &` (the tags are fixed words; attribute names are the token's keys) -/
def NameOK (s : Str) : Prop :=
  s ≠ [] ∧ ∀ c ∈ s, c ≠ 32 ∧ c ≠ 9 ∧ c ≠ 10 ∧ c ≠ 13 ∧ c ≠ 61 ∧ c ≠ 60 ∧ c ≠ 62 ∧ c ≠ 47 ∧ c ≠ 34 ∧ c ≠ 39 ∧ c ≠ 38

def AttrsOK (a : Attrs) : Prop := ∀ kv ∈ a, NameOK kv.1

mutual
def ElemOK : Elem → Prop
  | .mk tag attrs kids => NameOK tag ∧ AttrsOK attrs ∧ KidsOK kids
def KidsOK : List Elem → Prop
  | [] => True
  | k :: ks => ElemOK k ∧ KidsOK ks
end

/-- the reader inverts the serialiser at every indentation: whatever the attribute values are
    (every character is either escaped or literal), the element tree is read back -/
def XmlParseRenderStatement : Prop :=
  ∀ (e : Elem) (ind : Nat), ElemOK e → Read.parseXml (e.render ind) = some e

/-- the serialiser is injective -/
def XmlRenderInjectiveStatement : Prop :=
  ∀ (a b : Elem), ElemOK a → ElemOK b → a.render 0 = b.render 0 → a = b

/-- escaping is undone by the reader's attribute-value decoding, for every string -/
def EscAttrRoundtripStatement : Prop :=
  ∀ (s : Str), Read.unescAttr (escAttr s) = some s

/-- an escaped value contains none of `< " &`-unbalanced: no `<`, no `"`, no tab, newline or
    carriage return, and `&` only as the start of a reference the reader knows -/
def EscAttrSafeStatement : Prop :=
  ∀ (s : Str), ∀ c ∈ escAttr s, c ≠ 60 ∧ c ≠ 34 ∧ c ≠ 9 ∧ c ≠ 10 ∧ c ≠ 13

/-! ### back to the records -/

def TokKeysOK (tok : Token) : Prop := ∀ kv ∈ tok, NameOK kv.1

def TreeKeysOK : Tree → Prop
  | .leaf _ tok _ _ => TokKeysOK tok
  | .un _ _ _ ch => TreeKeysOK ch
  | .bin _ _ _ _ l r => TreeKeysOK l ∧ TreeKeysOK r

/-- the text of `--format xml` reads back as the `<ccg>` records of `xmlOf` (sentence number,
    tree number, element tree with every attribute) -/
def XmlTextDecodeStatement : Prop :=
  ∀ (batch : List (List Tree)) (text : Str), (∀ ts ∈ batch, ∀ t ∈ ts, TreeKeysOK t) →
    xmlText batch = .ok text → Read.readXmlText text = some (xmlOf batch)

/-- the text of `--format jigg_xml` reads back as the sentences of `jiggOf` (token elements, `<ccg>`
    elements with their `score`, span elements, all attributes in order) -/
def JiggTextDecodeStatement : Prop :=
  ∀ (useSymbol : Bool) (batch : List (List (Tree × Option Int))) (ss : List JSentence) (text : Str),
    (∀ ts ∈ batch, ∀ p ∈ ts, TreeKeysOK p.1) →
    jiggOf useSymbol (batch.map fun ts => ts.map fun p => p.1) = .ok ss →
    jiggText useSymbol batch = .ok text →
    Read.readJiggText text = some (withScoresAll ss (batch.map fun ts => ts.map fun p => p.2))

/-- the call fails exactly when some attribute value is not XML text -/
def XmlTextTotalStatement : Prop :=
  ∀ (batch : List (List Tree)), (∃ text, xmlText batch = .ok text) ↔ (xmlDoc batch).valid = true

/-- two batches with the same xml text have the same records -/
def XmlTextInjectiveStatement : Prop :=
  ∀ (a b : List (List Tree)) (text : Str), (∀ ts ∈ a, ∀ t ∈ ts, TreeKeysOK t) → (∀ ts ∈ b, ∀ t ∈ ts, TreeKeysOK t) →
    xmlText a = .ok text → xmlText b = .ok text → xmlOf a = xmlOf b

end Depccg.C15Text
