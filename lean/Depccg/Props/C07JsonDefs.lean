/-
  C07 for `--format json`, at the level of the printed characters: the text of
  `json.dumps(results, indent=4)` (`Print.jsonText`, compared character by character with the real
  output) is read by a JSON reader written in Lean (`Read.parseJson`: objects, arrays, strings with
  all of JSON's escapes and surrogate pairs, numbers with a fraction, `-Infinity`) and yields
  exactly the value that was printed; from that value the sentence numbers, the n-best order, the
  score of every tree and the json tree `Print.jsonOf` (shape, rule labels, categories, every token
  attribute: `json_shape`) are recovered.
-/
import Depccg.Print.Json
import Depccg.Read.Json
import Depccg.Props.C07Defs

namespace Depccg.C07Json
open Depccg Str Print

/-- text a Python `str` can hold and `json.loads` returns unchanged: no surrogate code points -/
def ScalarStr (s : Str) : Prop := ∀ c ∈ s, c < 55296 ∨ (57344 ≤ c ∧ c < 1114112)

mutual
/-- every string and key of the value is such text -/
def ScalarVal : JVal → Prop
  | .str s => ScalarStr s
  | .num _ => True
  | .negInf => True
  | .arr xs => ScalarItems xs
  | .obj ms => ScalarMembers ms
def ScalarItems : List JVal → Prop
  | [] => True
  | x :: xs => ScalarVal x ∧ ScalarItems xs
def ScalarMembers : List (Str × JVal) → Prop
  | [] => True
  | (k, v) :: ms => ScalarStr k ∧ ScalarVal v ∧ ScalarMembers ms
end

/-- the reader inverts the serialiser, at every nesting depth -/
def JsonRoundtripStatement : Prop :=
  ∀ (v : JVal) (ind : Nat), ScalarVal v → Read.parseJson (v.render ind) = some v

/-- the serialiser is injective on such values -/
def JsonInjectiveStatement : Prop :=
  ∀ (v w : JVal), ScalarVal v → ScalarVal w → v.render 0 = w.render 0 → v = w

/-- the escaped spelling of a string contains only printable ASCII (the output is plain ASCII
    whatever the words are) -/
def JsonAsciiStatement : Prop :=
  ∀ (v : JVal) (ind : Nat), ∀ c ∈ v.render ind, c = 10 ∨ (32 ≤ c ∧ c ≤ 126)

/-- `repr` of a score is read back exactly -/
def JsonFloatStatement : Prop :=
  ∀ k : Int, Read.parseJson (jsonFloat k) = some (.num k)

/-! ### from the value back to the derivations -/

def ScalarTok (tok : Token) : Prop := ∀ p ∈ tok, ScalarStr p.1 ∧ ScalarStr p.2

/-- the strings of a tree the json output carries: token keys and values, rule labels, category
    spellings; no token uses the keys the printer adds to the same dict at other levels -/
def TreeOK : Tree → Prop
  | .leaf c tok _ _ => ScalarStr c.str ∧ ScalarTok tok ∧
      Dict.get? tok (lit "children") = none ∧ Dict.get? tok (lit "log_prob") = none
  | .un c s _ ch => ScalarStr c.str ∧ ScalarStr s ∧ TreeOK ch
  | .bin c s _ _ l r => ScalarStr c.str ∧ ScalarStr s ∧ TreeOK l ∧ TreeOK r

def BatchOK (nbest : List (List (Tree × Option Int))) : Prop := ∀ ts ∈ nbest, ∀ p ∈ ts, TreeOK p.1

/-- what the output says: per sentence its number and, in n-best order, the json tree and the
    score of every tree -/
def expected : Nat → List (List (Tree × Option Int)) → List (Nat × List (JTree × Option Int))
  | _, [] => []
  | i, ts :: rest => (i, ts.map fun p => (jsonOf p.1, p.2)) :: expected (i + 1) rest

/-- reading the printed text gives the numbered sentences with their trees and scores -/
def JsonTextDecodeStatement : Prop :=
  ∀ (nbest : List (List (Tree × Option Int))), BatchOK nbest →
    Read.readJsonOutput (jsonText nbest) = some (expected 1 nbest)

/-- hence two batches with the same json text have the same json trees and scores -/
def JsonTextInjectiveStatement : Prop :=
  ∀ (a b : List (List (Tree × Option Int))), BatchOK a → BatchOK b → jsonText a = jsonText b →
    expected 1 a = expected 1 b

end Depccg.C07Json
