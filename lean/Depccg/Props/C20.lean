/-
  C20  PTB and Japanese-bank text written by depccg reads back to the same tree.
  Property theorems only; helper lemmas are in Depccg/Proofs/C20Lemmas.lean, definitions and
  statements in Depccg/Props/C20Defs.lean.

  `JaRoundtripStatement` is false as written (a token attribute whose value is the empty string
  prints an empty inflection field, see `ja_roundtrip_original_false`); the corrected statement
  `JaRoundtripStatement'` (extra hypothesis `AllToks JaInflOK t`) is proved as
  `ja_roundtrip_partial`.
-/
import Depccg.Props.C20Defs
import Depccg.Proofs.C20Lemmas

namespace Depccg.C20
open Depccg Str Print Read TextProps

/-- a tree printed by `ptb_of` is read by `_parse_ptb` to its image (same categories, shape and
    escaped words; guessed labels) -/
theorem ptb_roundtrip : PtbRoundtripStatement := by
  intro lang t s hc hs htok h
  exact ptb_roundtrip_main lang t s hc hs htok h

/-- a proper prefix of the fields of a printed PTB line is rejected -/
theorem ptb_incomplete_rejected : PtbIncompleteRejectedStatement := by
  intro lang t s k hc _ htok h hk
  exact ptb_incomplete_main lang t s k hc htok h hk

/-- a tree printed by `ja_of` is read by `_JaCCGLineReader` to its image, when no leaf prints an
    empty inflection field -/
theorem ja_roundtrip_partial : JaRoundtripStatement' := by
  intro t s hc htok hinfl hsym h
  exact ja_roundtrip_main t s hc htok hinfl hsym h

/-- `_suffix` and `{…}` annotations of a leaf category are removed before it is read -/
theorem ja_annot_irrelevant : JaAnnotIrrelevantStatement :=
  ⟨cutSuffix_suffix, cutSuffix_id, stripDeps_group, stripDeps_id⟩

/-! ### the hypotheses are satisfiable; the theorems evaluated on concrete trees -/

instance (bad : List Nat) (w : Str) : Decidable (noneOf bad w) := by
  unfold noneOf; infer_instance
instance (s : Str) : Decidable (C05.TriPart s) := by unfold C05.TriPart; infer_instance
instance (t : Token) : Decidable (JaInflOK t) := by unfold JaInflOK; infer_instance

/-! #### English: `(ROOT (S[dcl] (NP John) (S[dcl]\NP sleeps)))` -/

def exS : Cat := .atom (lit "S") (.un (some (lit "dcl")))
def exNP : Cat := .atom (lit "NP") (.un none)
def exVP : Cat := .fn exS cBSlash exNP

def exEn : Tree :=
  .bin exS (lit "ba") (lit "<") false
    (.leaf exNP (Token.ofWord (lit "John")) [] [])
    (.leaf exVP (Token.ofWord (lit "sleeps")) [] [])

def exEnLine : Str := lit "(ROOT (S[dcl] (NP John) (S[dcl]\\NP sleeps)))"

/-- what the reader returns: bare word tokens, default leaf labels, the label and head of the
    guessed rule (backward application) on the binary node -/
def exEnImage : Tree :=
  .bin exS (lit "ba") (lit "<") true
    (.leaf exNP [(lit "word", lit "John")] (lit "lex") (lit "<lex>"))
    (.leaf exVP [(lit "word", lit "sleeps")] (lit "lex") (lit "<lex>"))

theorem exS_wf : C05.WF exS := ⟨⟨by decide, by decide⟩, ⟨⟨by decide, by decide⟩, by decide⟩, by decide⟩
theorem exNP_wf : C05.WF exNP := ⟨⟨by decide, by decide⟩, trivial, fun _ => rfl⟩

theorem exEn_cats : AllCats CatOK exEn :=
  ⟨⟨exS_wf, by decide, by decide⟩, ⟨exNP_wf, by decide, by decide⟩,
   ⟨⟨exS_wf, by decide, exNP_wf⟩, by decide, by decide⟩⟩
theorem exEn_sys : AllCats (OneSystem .en) exEn := by
  simp [exEn, AllCats, OneSystem, exS, exNP, exVP, C14.AllUnary]
theorem exEn_toks : AllToks PtbTokOK exEn :=
  ⟨⟨lit "John", by decide, ⟨by decide, by decide⟩, by decide, by decide⟩,
   ⟨lit "sleeps", by decide, ⟨by decide, by decide⟩, by decide, by decide⟩⟩

example : ptbOf exEn = .ok exEnLine := by decide +kernel
example : ptbImage .en exEn = .ok exEnImage := by decide +kernel
/-- printed and read back, by evaluation … -/
example : parsePtb .en exEnLine = .ok (exEnImage, exEnImage.tokens) := by decide +kernel
/-- … and by the theorem -/
example : ∃ t', ptbImage .en exEn = .ok t' ∧ parsePtb .en exEnLine = .ok (t', t'.tokens) :=
  ptb_roundtrip .en exEn exEnLine exEn_cats exEn_sys exEn_toks (by decide +kernel)

/-- the line has six fields … -/
example : (splitOn cSpace exEnLine).length = 6 := by decide +kernel
/-- … the first four are `(ROOT (S[dcl] (NP John)`: rejected, by evaluation … -/
example : joinSep cSpace ((splitOn cSpace exEnLine).take 4) = lit "(ROOT (S[dcl] (NP John)" := by
  decide +kernel
example : parsePtb .en (lit "(ROOT (S[dcl] (NP John)") = .error .runtime := by decide +kernel
example : parsePtb .en (lit "(ROOT (S[dcl] (NP John) (S[dcl]\\NP") = .error .runtime := by
  decide +kernel
/-- … and by the theorem -/
example : ∃ e, parsePtb .en (joinSep cSpace ((splitOn cSpace exEnLine).take 4)) = .error e :=
  ptb_incomplete_rejected .en exEn exEnLine 4 exEn_cats exEn_sys exEn_toks (by decide +kernel)
    (by decide +kernel)

/-! #### Japanese: categories with three-part features, rule symbol `<` -/

def exJaNP : Cat :=
  .atom (lit "NP") (.tri (lit "case") (lit "ga") (lit "mod") (lit "nm") (lit "fin") (lit "f"))
def exJaS : Cat :=
  .atom (lit "S") (.tri (lit "mod") (lit "nm") (lit "form") (lit "base") (lit "fin") (lit "t"))
def exJaVP : Cat := .fn exJaS cBSlash exJaNP

def exJaTok1 : Token := [(lit "word", lit "猫"), (lit "pos", lit "名詞"), (lit "pos1", lit "一般")]
def exJaTok2 : Token :=
  [(lit "word", lit "寝る"), (lit "pos", lit "動詞"), (lit "inflectionForm", lit "基本形"),
   (lit "inflectionType", lit "一段")]

def exJa : Tree :=
  .bin exJaS (lit "ba") (lit "<") false (.leaf exJaNP exJaTok1 [] []) (.leaf exJaVP exJaTok2 [] [])

def exJaLine : Str :=
  lit ("{< S[mod=nm,form=base,fin=t] {NP[case=ga,mod=nm,fin=f] 猫/猫/名詞-一般/_} " ++
       "{S[mod=nm,form=base,fin=t]\\NP[case=ga,mod=nm,fin=f] 寝る/寝る/動詞/基本形-一段}}")

/-- what the reader returns: bare word tokens, the rule symbol as label and symbol, head left -/
def exJaImage : Tree :=
  .bin exJaS (lit "<") (lit "<") true
    (.leaf exJaNP [(lit "word", lit "猫")] (lit "lex") (lit "<lex>"))
    (.leaf exJaVP [(lit "word", lit "寝る")] (lit "lex") (lit "<lex>"))

theorem exJaNP_ok : JaCatOK exJaNP := by
  refine ⟨⟨⟨by decide, by decide⟩, ?_, by decide⟩, by decide, by decide⟩
  refine ⟨?_, ?_, ?_, ?_, ?_, ?_⟩ <;> decide
theorem exJaS_ok : JaCatOK exJaS := by
  refine ⟨⟨⟨by decide, by decide⟩, ?_, by decide⟩, by decide, by decide⟩
  refine ⟨?_, ?_, ?_, ?_, ?_, ?_⟩ <;> decide
theorem exJa_cats : AllCats JaCatOK exJa :=
  ⟨exJaS_ok, exJaNP_ok, ⟨exJaS_ok.1, by decide, exJaNP_ok.1⟩, by decide, by decide⟩
theorem exJa_toks : AllToks JaTokOK exJa :=
  ⟨⟨⟨lit "猫", by decide, ⟨by decide, by decide⟩, by decide⟩, by decide, by decide⟩,
   ⟨⟨lit "寝る", by decide, ⟨by decide, by decide⟩, by decide⟩, by decide, by decide⟩⟩
theorem exJa_infl : AllToks JaInflOK exJa :=
  ⟨(by decide : JaInflOK exJaTok1), (by decide : JaInflOK exJaTok2)⟩
theorem exJa_sym : SymOK exJa := ⟨by decide, trivial, trivial⟩

example : jaOf exJa = .ok exJaLine := by decide +kernel
example : jaImage exJa = .ok exJaImage := by decide +kernel
/-- printed and read back, by evaluation (the tree, and the surface forms of the tokens) … -/
example : (readJaLine exJaLine).map (·.1) = .ok exJaImage := by decide +kernel
example : (readJaLine exJaLine).map (fun r => r.2.map fun tok => Token.getD tok (lit "surf") []) =
    .ok [lit "猫", lit "寝る"] := by decide +kernel
/-- … and by the theorem -/
example : ∃ t' toks, jaImage exJa = .ok t' ∧ readJaLine exJaLine = .ok (t', toks) ∧
    toks.map (fun tok => Token.getD tok (lit "surf") []) =
      t'.tokens.map (fun tok => Token.getD tok (lit "word") []) :=
  ja_roundtrip_partial exJa exJaLine exJa_cats exJa_toks exJa_infl exJa_sym (by decide +kernel)

/-- a leaf category with the bank's `{I1}` and `_suffix` annotations reads to the same category,
    and the annotated leaf line to the same leaf -/
example : Cat.parse (stripDeps (cutSuffix (lit "NP[case=ga,mod=nm,fin=f]{I1}_I1(unk,I1)"))) =
    .ok exJaNP := by decide +kernel
example : readJaLine (lit "{NP[case=ga,mod=nm,fin=f]{I1}_I1 猫/猫/名詞-一般/_}") =
    readJaLine (lit "{NP[case=ga,mod=nm,fin=f] 猫/猫/名詞-一般/_}") := by decide +kernel
example : (readJaLine (lit "{NP[case=ga,mod=nm,fin=f]{I1}_I1 猫/猫/名詞-一般/_}")).map (·.1.cat) =
    .ok exJaNP := by decide +kernel

/-! #### the original Japanese statement is false -/

/-- a token whose `inflectionForm` attribute is the empty string -/
def cxTok : Token := [(lit "word", lit "a"), (lit "inflectionForm", [])]
def cxTree : Tree := .leaf exNP cxTok [] []

/-- the printed inflection field is empty, the reader's `[:-1]` eats the last `/` … -/
example : jaOf cxTree = .ok (lit "{NP a/a/_/}") := by decide +kernel
example : readJaLine (lit "{NP a/a/_/}") = .error .valueError := by decide +kernel

/-- … so `JaRoundtripStatement` (without `JaInflOK`) does not hold -/
theorem ja_roundtrip_original_false : ¬ JaRoundtripStatement := by
  intro h
  obtain ⟨t', toks, _, hr, _⟩ := h cxTree (lit "{NP a/a/_/}")
    ⟨exNP_wf, by decide, by decide⟩
    ⟨⟨lit "a", by decide, ⟨by decide, by decide⟩, by decide⟩, by decide, by decide⟩
    trivial (by decide +kernel)
  have : readJaLine (lit "{NP a/a/_/}") = .error .valueError := by decide +kernel
  rw [this] at hr
  exact absurd hr (by simp)

end Depccg.C20
