/-
  The callback side of `run` maintains what the end-to-end theorems assume (`EndToEnd.Represents`,
  `RowsKnown`): whatever calls the search makes, in whatever order, the category table stays
  duplicate-free and only grows, ids handed out earlier keep their meaning, and every cache row is
  the rule function's result list under the table's ids.
-/
import Depccg.GlueRun
import Depccg.Props.EndToEndDefs

namespace Depccg.GlueRunProps
open Depccg GlueTree GlueRun

def toE2E (G : GlueRun.CatGrammar) : EndToEnd.CatGrammar := { bin := G.bin, un := G.un }

/-- the invariant -/
def Inv (G : GlueRun.CatGrammar) (st : GSt) : Prop :=
  st.cats.Nodup ∧ EndToEnd.Represents (toE2E G) (tablesOf st) ∧ EndToEnd.RowsKnown (tablesOf st)

/-- `run` rejects a category list with duplicates; from a duplicate-free one the initial state
    satisfies the invariant, the caller's ids are kept and every root has its id -/
def InitInvStatement : Prop :=
  ∀ (G : GlueRun.CatGrammar) (categories roots : List Cat), categories.Nodup →
    Inv G (init categories roots) ∧
    categories <+: (init categories roots).cats ∧
    (addRoots categories roots).2.length = roots.length ∧
    ∀ (i : Nat) (r : Cat), roots[i]? = some r → ∃ k : Nat, (addRoots categories roots).2[i]? = some k ∧ (init categories roots).cats[k]? = some r

/-- every call preserves the invariant, the table only grows, existing rows are never rewritten -/
def StepInvStatement : Prop :=
  ∀ (G : GlueRun.CatGrammar) (st : GSt) (c : Call), Inv G st →
    Inv G (step G st c) ∧ st.cats <+: (step G st c).cats ∧
    (∀ x y row, binRow st x y = some row → binRow (step G st c) x y = some row) ∧
    (∀ x row, unRow st x = some row → unRow (step G st c) x = some row)

/-- hence for every sequence of calls (every search, every batch, any history) -/
def RunInvStatement : Prop :=
  ∀ (G : GlueRun.CatGrammar) (categories roots : List Cat) (calls : List Call), categories.Nodup →
    Inv G (calls.foldl (step G) (init categories roots)) ∧
    categories <+: (calls.foldl (step G) (init categories roots)).cats

/-- after a call the requested row is there and is the rule function's result list in order:
    same length, entry by entry the result's category (under the final table), head flag and labels -/
def RowIsResultListStatement : Prop :=
  ∀ (G : GlueRun.CatGrammar) (st : GSt) (x y : Nat) (cx cy : Cat), Inv G st →
    st.cats[x]? = some cx → st.cats[y]? = some cy →
    ∃ row, binRow (binCall G st x y) x y = some row ∧ row.length = (G.bin cx cy).length ∧
      ∀ (rid : Nat) (r : RuleRes), (G.bin cx cy)[rid]? = some r →
        ∃ e : CacheEntry, row[rid]? = some e ∧ (binCall G st x y).cats[e.catId]? = some r.cat ∧
          e.headLeft = r.headLeft ∧ e.opString = r.opString ∧ e.opSymbol = r.opSymbol

end Depccg.GlueRunProps
