/-
  `--format conll` at the level of the whole output: the reader `Read.decConllDoc`
  (Depccg/Read/ConllDoc.lean) splits the text that `to_string(…, format='conll')` / `print_` emits
  into its records and reads every table with the row reader of `conll_decode`: sentence numbers,
  n-best order, score texts and rows of every printed tree.   Statements:
  Depccg/Props/MainConllDefs.lean; helper lemmas: Depccg/Proofs/MainConllLemmas.lean.
-/
import Depccg.Props.MainConllDefs
import Depccg.Proofs.MainConllLemmas

namespace Depccg.CliProps
open Depccg Str Search GlueRun Lazy Print Cli LazyProps Read C07 TextProps

/-- the text of `to_string(batch, format='conll')` is read back record by record -/
theorem conll_doc_decode : ConllDocDecodeStatement := by
  intro batch text h hp
  have := mc_run_doc batch text h hp []
  rw [List.append_nil] at this
  rw [decConllDoc, this]
  simp [conllDocRun, conllDocFinish, recView]

/-- what `main` prints under `--format conll` (the text of `to_string` and the newline of `print`)
    is read back: one record per returned tree, named by sentence, with its score text -/
theorem main_conll_reads_back : MainConllReadsBackStatement := by
  intro results text hok hp
  have hp' : (match toStringLines Fmt.conll.fn (Fmt.conll == Fmt.conll) (results.map scored) with
      | .error e => Except.error e
      | .ok s => Except.ok (s ++ [10])) = Except.ok text := hp
  have hf : (Fmt.conll == Fmt.conll) = true := by decide
  rw [hf] at hp'
  cases ht : toStringLines Fmt.conll.fn true (results.map scored) with
  | error e => rw [ht] at hp'; cases hp'
  | ok t0 =>
    rw [ht] at hp'
    cases hp'
    have hb : ∀ ts ∈ results.map scored, ∀ p ∈ ts,
        AllCats (fun c => Cell c.str) p.1 ∧ AllToks TokCells p.1 ∧ 10 ∉ p.2 := by
      intro ts hts p hpm
      obtain ⟨r, hr, rfl⟩ := List.mem_map.1 hts
      exact ⟨(hok r hr p hpm).1, (hok r hr p hpm).2, mc_scored_no10 r p hpm⟩
    have := mc_run_doc (results.map scored) t0 hb ht [[]]
    rw [decConllDoc, C08.splitOn_append_sep, FileProps.fl_splitOn_nil, this]
    simp [conllDocRun, conllDocStep, conllDocStart, conllDocFinish, recView, conllExpected]

/-! ### evaluated: two sentences, the first with two trees (which differ in the analysis of `Kim`
  and in the head flag of the root), the second failed (the placeholder, score text `-inf`) -/

section examples

private def kN : Cat := .atom (lit "N") (.un none)
private def kNP : Cat := .atom (lit "NP") (.un none)
private def kS : Cat := .atom (lit "S") (.un (some (lit "dcl")))
private def kVP : Cat := .fn kS cBSlash kNP

private def kSleeps : Tree :=
  .leaf kVP [(lit "word", lit "sleeps"), (lit "lemma", lit "sleep"), (lit "pos", lit "VBZ")]
    (lit "lex") (lit "<lex>")

private def kTree1 : Tree :=
  .bin kS (lit "ba") (lit "<") false (.leaf kNP [(lit "word", lit "Kim")] (lit "lex") (lit "<lex>")) kSleeps

private def kTree2 : Tree :=
  .bin kS (lit "ba") (lit "<") true
    (.un kNP (lit "lex") (lit "<un>") (.leaf kN [(lit "word", lit "Kim")] (lit "lex") (lit "<lex>"))) kSleeps

private def kResults : List SentResult := [.parsed [(kTree1, -32), (kTree2, -100)], .failed]

private def kFragV : Str := lit "(<L S[dcl]\\NP VBZ VBZ sleeps S[dcl]\\NP>) )"

private def kText : Str :=
  lit "# ID=1\n# log probability=-0.50000000\n" ++
  lit "1\tKim\t_\t_\t_\t_\t2\tNP\t_\t(<T S[dcl] 1 2> (<L NP _ _ Kim NP>)\n" ++
  lit "2\tsleeps\tsleep\tVBZ\tVBZ\t_\t0\tS[dcl]\\NP\t_\t" ++ kFragV ++ lit "\n" ++
  lit "# ID=1\n# log probability=-1.56250000\n" ++
  lit "1\tKim\t_\t_\t_\t_\t0\tN\t_\t(<T S[dcl] 0 2> (<T NP 0 1> (<L N _ _ Kim N>) )\n" ++
  lit "2\tsleeps\tsleep\tVBZ\tVBZ\t_\t1\tS[dcl]\\NP\t_\t" ++ kFragV ++ lit "\n" ++
  lit "# ID=2\n# log probability=-inf\n" ++
  lit "1\tFAILED\t_\t_\t_\t_\t0\tNP\t_\t(<L NP _ _ FAILED NP>)\n" ++
  lit "\n"

private def kRecords : List (Nat × Str × List ConllRow) :=
  [(1, lit "-0.50000000",
    [⟨1, lit "Kim", lit "_", lit "_", lit "_", 2, lit "NP", lit "(<T S[dcl] 1 2> (<L NP _ _ Kim NP>)"⟩,
     ⟨2, lit "sleeps", lit "sleep", lit "VBZ", lit "VBZ", 0, lit "S[dcl]\\NP", kFragV⟩]),
   (1, lit "-1.56250000",
    [⟨1, lit "Kim", lit "_", lit "_", lit "_", 0, lit "N", lit "(<T S[dcl] 0 2> (<T NP 0 1> (<L N _ _ Kim N>) )"⟩,
     ⟨2, lit "sleeps", lit "sleep", lit "VBZ", lit "VBZ", 1, lit "S[dcl]\\NP", kFragV⟩]),
   (2, lit "-inf",
    [⟨1, lit "FAILED", lit "_", lit "_", lit "_", 0, lit "NP", lit "(<L NP _ _ FAILED NP>)"⟩])]

/-- the reader, run on the text the program prints for the batch -/
example : printText Fmt.conll kResults = .ok kText ∧ decConllDoc kText = some kRecords ∧
    conllExpected kResults = kRecords := by decide +kernel

/-- the reader is strict: text before the first record, a sentence number with a leading zero, a
    missing score line, a record without a row, a comment line inside a table are rejected; empty
    lines between records are skipped and an empty line ends a table -/
example : decConllDoc (lit "x\n# ID=1\n# log probability=0\n1\ta\t_\t_\t_\t_\t0\tN\t_\tf\n") = none := by
  decide +kernel
example : decConllDoc (lit "# ID=01\n# log probability=0\n1\ta\t_\t_\t_\t_\t0\tN\t_\tf\n") = none := by
  decide +kernel
example : decConllDoc (lit "# ID=1\n1\ta\t_\t_\t_\t_\t0\tN\t_\tf\n") = none := by decide +kernel
example : decConllDoc (lit "# ID=1\n# log probability=0\n\n") = none := by decide +kernel
example : decConllDoc (lit "# ID=1\n# log probability=0\n1\ta\t_\t_\t_\t_\t0\tN\t_\tf\n# x\n") = none := by
  decide +kernel
example : decConllDoc (lit "\n# ID=1\n# log probability=0\n1\ta\t_\t_\t_\t_\t0\tN\t_\tf\n\n\n# ID=2\n# log probability=\n1\tb\t_\t_\t_\t_\t0\tN\t_\tg") =
    some [(1, lit "0", [⟨1, lit "a", lit "_", lit "_", lit "_", 0, lit "N", lit "f"⟩]),
          (2, [], [⟨1, lit "b", lit "_", lit "_", lit "_", 0, lit "N", lit "g"⟩])] := by decide +kernel

end examples

end Depccg.CliProps
