/-
  C06  Pattern matching of categories succeeds exactly when it should.
  Definitions and statements (proofs in Props/C06.lean, lemmas in Proofs/C06Lemmas.lean).
-/
import Depccg.En

namespace Depccg.C06
open Depccg Cat Str Unify

/-! ### the declarative conditions, stated without reference to the algorithm -/

/-- the category has the shape the pattern requires: pattern atoms (variables) match anything,
    a pattern functor needs a functor with the same slash, where `|` on either side matches
    either slash -/
def Shape : Cat → Cat → Prop
  | .atom _ _, _ => True
  | .fn pl ps pr, .fn tl ts tr => (ps = ts ∨ ps = cBar ∨ ts = cBar) ∧ Shape pl tl ∧ Shape pr tr
  | .fn _ _ _, .atom _ _ => False

/-- the sub-categories the pattern variables stand for, left to right -/
def matched : Cat → Cat → List (Str × Cat)
  | .atom v _, t => [(v, t)]
  | .fn pl _ pr, .fn tl _ tr => matched pl tl ++ matched pr tr
  | .fn _ _ _, .atom _ _ => []

/-- the variables of a pattern, left to right -/
def vars : Cat → List Str
  | .atom v _ => [v]
  | .fn l _ r => vars l ++ vars r

/-- features of the atoms of a category, left to right -/
def feats : Cat → List Feat
  | .atom _ f => [f]
  | .fn l _ r => feats l ++ feats r

/-- every variable occurs at most once in the pattern (true of all grammar patterns) -/
def Linear (p : Cat) : Prop := (vars p).Nodup

/-- pattern variables are single characters that are not digits, so the keys `v`, `v0`, `v1`, …
    of different variables never collide (true of all grammar patterns: `a` … `f`) -/
def VarsOK (p : Cat) : Prop := ∀ v ∈ vars p, ∃ c : Nat, v = [c] ∧ ¬ (48 ≤ c ∧ c ≤ 57)

/-- every variable shared by the two patterns stands for sub-categories identical up to features -/
def SharedBlind (px py x y : Cat) : Prop :=
  ∀ v tx ty, (v, tx) ∈ matched px x → (v, ty) ∈ matched py y → Cat.xorEq ty tx = true

/-- two features are compatible: equal, or one side is absent, `nb` or a variable; for
    three-part features: same keys and value-wise equal or `X…`, in one direction -/
def Compat : Feat → Feat → Prop
  | .un a, .un b =>
      a = b ∨ a = none ∨ a = some (lit "nb") ∨ a = some (lit "X")
            ∨ b = none ∨ b = some (lit "nb") ∨ b = some (lit "X")
  | .tri k1 v1 k2 v2 k3 v3, .tri c1 d1 c2 d2 c3 d3 =>
      (k1 = c1 ∧ k2 = c2 ∧ k3 = c3) ∧
      (((v1 = d1 ∨ startsWith v1 [88] = true) ∧ (v2 = d2 ∨ startsWith v2 [88] = true) ∧ (v3 = d3 ∨ startsWith v3 [88] = true))
       ∨ ((d1 = v1 ∨ startsWith d1 [88] = true) ∧ (d2 = v2 ∨ startsWith d2 [88] = true) ∧ (d3 = v3 ∨ startsWith d3 [88] = true)))
  | _, _ => False

/-- position-wise compatibility of two feature lists of equal length -/
def AllCompat : List Feat → List Feat → Prop
  | [], [] => True
  | f :: fs, g :: gs => Compat f g ∧ AllCompat fs gs
  | _, _ => False

/-- the features at corresponding positions of the sub-categories of every shared variable are
    compatible -/
def FeatCompat (px py x y : Cat) : Prop :=
  ∀ v tx ty, (v, tx) ∈ matched px x → (v, ty) ∈ matched py y →
    AllCompat (feats tx) (feats ty)

/-- both categories use one feature system (no mixture of unary and three-part features;
    mixtures make the real code raise AttributeError, which the model reproduces) -/
def SameKind (x y : Cat) : Prop :=
  (∀ f ∈ feats x ++ feats y, ∃ v, f = .un v) ∨ (∀ f ∈ feats x ++ feats y, ∃ k1 v1 k2 v2 k3 v3, f = .tri k1 v1 k2 v2 k3 v3)

def Succeeds (px py x y : Cat) : Prop := ∃ σ, unify px py x y = .ok (some σ)

/-! ### statements -/

/-- matching succeeds exactly when both categories have the required shape, shared variables
    stand for feature-blind identical sub-categories, and features at corresponding positions
    are compatible -/
def UnifyOkIffStatement : Prop :=
  ∀ (px py x y : Cat), Linear px → Linear py → VarsOK px → VarsOK py → SameKind x y →
    (Succeeds px py x y ↔ Shape px x ∧ Shape py y ∧ SharedBlind px py x y ∧ FeatCompat px py x y)

/-- within one feature system matching never raises -/
def UnifyTotalStatement : Prop :=
  ∀ (px py x y : Cat), SameKind x y → ∃ r, unify px py x y = .ok r

/-- the sub-category a variable was matched with last (the second pattern's match wins) -/
def lastMatched (px py x y : Cat) (v : Str) : Option Cat :=
  match (matched py y).find? (·.1 == v) with
  | some p => some p.2
  | none => ((matched px x).find? (·.1 == v)).map (·.2)

/-- `c'` is `c` with at most its variable features replaced by features from `pool` -/
def InstanceOf (pool : List Feat) : Cat → Cat → Prop
  | .atom b f, .atom b' f' => b = b' ∧ (f = f' ∨ (f'.isVariable = true ∧ f ∈ pool))
  | .fn l s r, .fn l' s' r' => InstanceOf pool l l' ∧ s = s' ∧ InstanceOf pool r r'
  | _, _ => False

/-- on success each variable's binding is the matched sub-category with at most its variable
    features replaced by features from the inputs -/
def BindingSpecStatement : Prop :=
  ∀ (px py x y : Cat) (σ : Bindings), Linear px → Linear py → unify px py x y = .ok (some σ) →
    ∀ v, v ∈ vars px ++ vars py →
      ∃ c b, lastMatched px py x y v = some c ∧ σ.get v = .ok b ∧
        InstanceOf (feats x ++ feats y) b c ∧ Cat.xorEq b c = true

/-- a variable of neither pattern has no binding (KeyError) -/
def UnknownVarStatement : Prop :=
  ∀ (px py x y : Cat) (σ : Bindings) (v : Str), unify px py x y = .ok (some σ) →
    v ∉ vars px ++ vars py → σ.get v = .error .keyError

/-- after a failure no binding can be read -/
def NoBindingAfterFailureStatement : Prop :=
  ∀ (px py x y : Cat) (k : Str), (Obj.call (.fresh px py) x y).1 = .ok false →
    (Obj.call (.fresh px py) x y).2.get k = .error .assertion

/-- nor before the matcher was used -/
def NoBindingBeforeCallStatement : Prop :=
  ∀ (px py : Cat) (k : Str), (Obj.fresh px py).get k = .error .assertion

/-- a matcher answers only once: every later call raises RuntimeError and changes nothing -/
def AnswersOnceStatement : Prop :=
  ∀ (px py x y x' y' : Cat),
    let o := (Obj.call (.fresh px py) x y).2
    (Obj.call o x' y').1 = .error .runtime ∧ ∀ k, (Obj.call o x' y').2.get k = o.get k

/-- the six English and ten Japanese pattern pairs are linear with single-letter variables -/
def grammarPatterns : List (Cat × Cat) :=
  open Depccg.Pat in
  [(fwd a b, b), (b, bwd a b), (fwd a b, fwd b c), (fwd b c, bwd a b), (fwd a b, any (fwd b c) d),
   (any (fwd b c) d, fwd a b), (bwd b c, bwd a b), (any (bwd b c) d, bwd a b),
   (any (any (bwd b c) d) e, bwd a b), (any (any (any (bwd b c) d) e) f, bwd a b),
   (fwd a b, bwd b c), (fwd a b, any (bwd b c) d), (fwd a b, any (any (bwd b c) d) e)]

def GrammarPatternsOKStatement : Prop :=
  ∀ p ∈ grammarPatterns, Linear p.1 ∧ Linear p.2 ∧ VarsOK p.1 ∧ VarsOK p.2

end Depccg.C06
