/-
  The agenda of the real code. `run` (what the driver executes and what is compared, pop by pop,
  with the real `parse_sentence`) is `runWith pickHeap`: libstdc++'s binary heap. `pickHeap` is an
  admissible agenda, so every search theorem holds of `run` itself; and the guard inside `popHeap`
  (needed to make it admissible on *arbitrary* lists) never fails in a run.
-/
import Depccg.Props.SearchBasics
import Depccg.Props.SearchOptimal
import Depccg.Props.SearchNBest
import Depccg.Proofs.HeapLemmas

namespace Depccg.SearchProps
open Depccg Search

/-- C02 for the real agenda -/
theorem run_returned_valid (g : Grammar) (s : Sent) (cfg : Cfg) :
    ∀ r ∈ (run g s cfg).results,
      LicensedRoot g s cfg r.d ∧ leafToks r.d = List.range s.n ∧ r.cat = dcat r.d ∧ r.fin = true :=
  returned_valid pickHeap g s cfg pickHeap_ok

/-- C09 for the real agenda -/
theorem run_score_accounting (g : Grammar) (s : Sent) (cfg : Cfg) :
    ∀ r ∈ (run g s cfg).results, r.prio = modelScore s cfg r.d :=
  score_accounting pickHeap g s cfg pickHeap_ok

/-- C01 (observable half) for the real agenda -/
theorem run_pops_nonincreasing (g : Grammar) (s : Sent) (cfg : Cfg) (hs : SentOK s) (hpen : 0 ≤ cfg.penalty) :
    ((run g s cfg).popped.map Item.prio).Pairwise (· ≥ ·) :=
  pops_nonincreasing pickHeap g s cfg pickHeap_ok hs hpen

/-- C01 for the real agenda -/
theorem run_first_parse_optimal (g : Grammar) (s : Sent) (cfg : Cfg) (hs : SentOK s) (hpen : 0 ≤ cfg.penalty)
    (hu : HeadUniform g) (h1 : cfg.nbest = 1) :
    ∀ t rest, (run g s cfg).results = t :: rest →
      ∀ d, LicensedRoot g s cfg d → modelScore s cfg d ≤ t.prio :=
  first_parse_optimal pickHeap g s cfg pickHeap_ok hs hpen hu h1

theorem run_failure_only_if_none (g : Grammar) (s : Sent) (cfg : Cfg) (hs : SentOK s) (hpen : 0 ≤ cfg.penalty)
    (hu : HeadUniform g) (h1 : cfg.nbest = 1) :
    (run g s cfg).results = [] → (run g s cfg).steps < cfg.maxStep → ¬ ∃ d, LicensedRoot g s cfg d :=
  failure_only_if_none pickHeap g s cfg pickHeap_ok hs hpen hu h1

/-- C10 for the real agenda -/
theorem run_nbest_topk (g : Grammar) (s : Sent) (cfg : Cfg) (hs : SentOK s) (hpen : 0 ≤ cfg.penalty)
    (hn : 1 < cfg.nbest) (hsteps : (run g s cfg).steps < cfg.maxStep) :
    let res := (run g s cfg).results
    (∀ d, LicensedRoot g s cfg d → d ∉ res.map (·.d) → ∀ r ∈ res, modelScore s cfg d ≤ r.prio) ∧
    (res.length < cfg.nbest → ∀ d, LicensedRoot g s cfg d → d ∈ res.map (·.d)) ∧
    (res.map (·.d)).Nodup :=
  nbest_topk pickHeap g s cfg pickHeap_ok hs hpen hn hsteps

/-- in every state the search reaches, the agenda list is a heap: `popHeap` takes the heap branch
    (never the `popFirstMax` fallback) and is `std::pop_heap` on the vector -/
theorem run_agenda_always_heap (g : Grammar) (s : Sent) (cfg : Cfg) (fuel : Nat) :
    IsHeap (loop pickHeap g s cfg fuel (init pickHeap s cfg)).agenda.toArray :=
  loop_agenda_isHeap g s cfg fuel _ (init_agenda_isHeap s cfg)

theorem run_pop_is_heapPop (g : Grammar) (s : Sent) (cfg : Cfg) (fuel : Nat) :
    let st := loop pickHeap g s cfg fuel (init pickHeap s cfg)
    popHeap st.agenda = (heapPop st.agenda.toArray).map (fun p => (p.1, p.2.toList)) :=
  popHeap_eq_heapPop _ (run_agenda_always_heap g s cfg fuel)

end Depccg.SearchProps
