/-
  C11 at the level of trees, for the lazy model of `depccg._parsing.run` (`Depccg.Lazy`):
  what a sentence gets — the failure placeholder or the list of scored trees — and the number of
  search steps do not depend on what the call has parsed before.

  `lazy_history_independent : LazyHistoryIndependentStatement`,
  `batch_eq_map_solo : BatchEqMapSoloStatement`, both as stated in `LazyDefs`.

  Proof (`Proofs/LazyHistoryLemmas`): the run from the initial state and the run from the state
  with a history both satisfy the glue invariant `Inv'` and extend the initial table; with `σ`
  the renumbering that sends an id of the first run's final table to the id of the same category
  in the second run's final table (`lhSig`), the two lazy searches proceed in lock step, their
  search states related by `renameSt σ` (`lh_loopL_sim`), every derivation of the first decoded
  to the same tree as its renaming under the second cache (`lh_retrieve_sim`).
  `lazy_history_general` is the statement for any state satisfying `Inv'` that extends the
  initial table (no reference to how it was reached).
-/
import Depccg.Props.LazyDefs
import Depccg.Proofs.LazyHistoryLemmas

namespace Depccg.LazyProps
open Depccg Search SearchProps GlueTree GlueRun Lazy GlueRunProps

/-- history independence from any state that satisfies the glue invariant and whose table
    extends the initial one -/
theorem lazy_history_general (G : GlueRun.CatGrammar) (categories roots : List Cat) (cfg : Cfg)
    (maxLength : Option Nat) (x : SentIn) (gstH : GSt)
    (hnd : categories.Nodup) (hlex : LexOK categories x) (hinv : Inv' G gstH)
    (hpre : (GlueRun.init categories roots).cats <+: gstH.cats) :
    (sentenceL pickHeap G (addRoots categories roots).2 cfg maxLength gstH x).1
      = (sentenceL pickHeap G (addRoots categories roots).2 cfg maxLength
          (GlueRun.init categories roots) x).1 ∧
    (sentenceL pickHeap G (addRoots categories roots).2 cfg maxLength gstH x).2.1.steps
      = (sentenceL pickHeap G (addRoots categories roots).2 cfg maxLength
          (GlueRun.init categories roots) x).2.1.steps :=
  lh_sentence_indep G categories roots cfg maxLength x gstH hnd hlex hinv hpre

theorem lazy_history_independent : LazyHistoryIndependentStatement := by
  intro G categories roots calls cfg maxLength x hnd hlex
  obtain ⟨hinv, hpre⟩ := gr_run_inv' G calls _ (init_inv' G categories roots hnd)
  exact lh_sentence_indep G categories roots cfg maxLength x _ hnd hlex hinv hpre

theorem batch_eq_map_solo : BatchEqMapSoloStatement := by
  intro G categories roots cfg maxLength doc hnd hlex
  refine ⟨(sentencesL pickHeap G (addRoots categories roots).2 cfg maxLength
      (GlueRun.init categories roots) doc).1,
    (sentencesL pickHeap G (addRoots categories roots).2 cfg maxLength
      (GlueRun.init categories roots) doc).2, ?_, ?_⟩
  · unfold Lazy.runBatch runBatchWith
    rw [if_pos hnd]
  · exact lh_sentencesL_indep G categories roots cfg maxLength hnd doc _ hlex
      (init_inv' G categories roots hnd) (List.prefix_refl _)

end Depccg.LazyProps
