/-
  `--format auto_extended` and `--format ja` at the level of the whole output: the records of
  `main_line_reads_back` composed with the per-line theorems `C07.autoext_decode` and
  `C20.ja_roundtrip_partial`.   Statements: Depccg/Props/MainLine2Defs.lean; helper lemmas:
  Depccg/Proofs/MainLine2Lemmas.lean.
-/
import Depccg.Props.MainLine2Defs
import Depccg.Proofs.MainLine2Lemmas

namespace Depccg.CliProps
open Depccg Str Search GlueRun Lazy Print Cli LazyProps Read TextProps

/-- every tree line of the `auto_extended` output decodes to the view of the returned tree -/
theorem main_autoext_reads_back : MainAutoExtReadsBackStatement := by
  intro results text hok hp
  obtain ⟨recs, hdec, hf⟩ := main_line_reads_back Fmt.autoExt results text rfl
    (fun r hr ts hts s hs =>
      m2_autoExtOf_no10 ts.1 s (hok r hr ts hts).1 (hok r hr ts hts).2.1 (hok r hr ts hts).2.2 hs) hp
  refine ⟨recs, hdec, m2_forall2_upgrade results ?_ hf⟩
  rintro p r ⟨res, hres, hmem⟩ ⟨h1, h2, h3⟩
  obtain ⟨hc, ht, hl⟩ := hok res hres p.2 hmem
  exact ⟨h1, h2, C07.autoext_decode p.2.1 r.2.2 hc ht hl h3⟩

/-- the `ja` statement as first written is false: the line-level hypotheses allow a newline inside
    a printed part-of-speech value (`FileProps.exNlTree`, the leaf `NP` with word `a` and
    `pos = "x\ny"`); its line `{NP a/a/x\ny/_}` is printed as two lines and the document reader
    rejects the text -/
theorem main_ja_reads_back_original_false : ¬ MainJaReadsBackStatement := by
  intro h
  have hok : ∀ r ∈ m2NlResults, ∀ ts ∈ scored r, AllCats C20.JaCatOK ts.1 ∧
      AllToks C20.JaTokOK ts.1 ∧ AllToks C20.JaInflOK ts.1 ∧ C20.SymOK ts.1 := by
    intro r hr ts hts
    simp only [m2NlResults, List.mem_singleton] at hr
    subst hr
    simp only [scored, List.map_cons, List.map_nil, List.mem_singleton] at hts
    subst hts
    exact FileProps.exNlTree_ok
  have hp : printText Fmt.ja m2NlResults =
      .ok (lit "ID=1, log probability=0.00000000\n{NP a/a/x\ny/_}\n\n") := by decide +kernel
  obtain ⟨recs, hdec, _⟩ := h m2NlResults _ hok hp
  have hnone : decLineDoc (lit "ID=1, log probability=0.00000000\n{NP a/a/x\ny/_}\n\n") = none := by
    decide +kernel
  rw [hnone] at hdec
  cases hdec

/-- with no newline inside a category text or a printed part-of-speech / inflection field
    (`FileProps.JaNoNL`), every tree line of the `ja` output is read by the model of the bank
    reader to the image of the returned tree -/
theorem main_ja_reads_back_partial : MainJaReadsBackPartialStatement := by
  intro results text hok hp
  obtain ⟨recs, hdec, hf⟩ := main_line_reads_back Fmt.ja results text rfl
    (fun r hr ts hts s hs =>
      FileProps.fl_jaOf_no10 ts.1 s (hok r hr ts hts).2.1 (hok r hr ts hts).2.2.2.1
        (hok r hr ts hts).2.2.2.2 hs) hp
  refine ⟨recs, hdec, m2_forall2_upgrade results ?_ hf⟩
  rintro p r ⟨res, hres, hmem⟩ ⟨h1, h2, h3⟩
  obtain ⟨hc, ht, hi, hs, _⟩ := hok res hres p.2 hmem
  obtain ⟨t', toks, him, hrd, _⟩ := C20.ja_roundtrip_partial p.2.1 r.2.2 hc ht hi hs h3
  exact ⟨h1, h2, t', toks, him, hrd⟩

end Depccg.CliProps
