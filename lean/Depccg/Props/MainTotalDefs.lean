/-
  C19 at the level of the program: whatever the input lines and the supertagger's scores are, the
  model of the whole program (`Cli.mainText`, compared character by character with the real command
  line) prints a text — no sentence, parsed, failed or over-long, and no rule label either shipped
  grammar can emit makes any of the formats it models fail, and one sentence never prevents the
  others from being printed.
  (In the model a rule function that raises — categories mixing the two feature systems — counts as
  returning nothing; on one-system categories the rule functions are total: C14 `total_en`,
  `total_ja`.)
-/
import Depccg.Props.CliDefs
import Depccg.Props.OutputWFDefs
import Depccg.Props.C19Defs

namespace Depccg.CliProps
open Depccg Str Search GlueRun Lazy Print Cli LazyProps

/-- the formats offered under each language: English Prolog for `en`, Japanese Prolog for `ja` -/
def fmtFits (en : Bool) : Fmt → Bool
  | .prologEn => en
  | .prologJa => !en
  -- the XML formats refuse text that is not XML text (`Xml.xmlStrOk`: control characters in a word
  -- or a category name make `element.set` raise); their totality is not claimed at this level
  | .xml => false
  | .jiggEn => false
  | .jiggJa => false
  | _ => true

def MainTotalStatement : Prop :=
  ∀ (en : Bool) (seen : Option (List (Cat × Cat))) (table : List (Cat × List Cat)) (o : Opts)
    (lines tagCats : List Str) (scores : List Scores) (roots categories : List Cat) (doc : List (List Token)),
    rootsOf o.rootCats = .ok roots → Cli.mapExcept (tokensOfLine o.piped) lines = .ok doc →
    Cli.mapExcept Cat.parse tagCats = .ok categories → categories.Nodup →
    (∀ x ∈ zipSents doc scores, LexOK categories x) → fmtFits en o.format = true →
    ∃ text, mainText (OutputWF.shipped en seen table) o lines tagCats scores = .ok text

/-- every record format renders every result list of the lazy run over a shipped grammar -/
def ResultsRenderStatement : Prop :=
  ∀ (en : Bool) (seen : Option (List (Cat × Cat))) (table : List (Cat × List Cat))
    (categories roots : List Cat) (calls : List Call) (cfg : Cfg) (maxLength : Option Nat) (x : SentIn) (r : SentResult),
    categories.Nodup → LexOK categories x →
    (∀ tok ∈ x.tokens, C19.HasWord tok) →
    (sentenceL pickHeap (OutputWF.shipped en seen table) (addRoots categories roots).2 cfg maxLength
        (calls.foldl (GlueRun.step (OutputWF.shipped en seen table)) (GlueRun.init categories roots)) x).1 = .ok r →
    ∀ ts ∈ scored r, TextProps.AllToks C19.HasWord ts.1 ∧
      (en = true → C19.EnPrologOK ts.1) ∧ (en = false → C19.JaPrologOK ts.1)

end Depccg.CliProps
