/-
  C06  Pattern matching of categories succeeds exactly when it should.
  Property theorems only; definitions and statements are in Depccg/Props/C06Defs.lean (unchanged),
  helper lemmas in Depccg/Proofs/C06Lemmas.lean.
-/
import Depccg.Props.C06Defs
import Depccg.Proofs.C06Lemmas

namespace Depccg.C06
open Depccg Cat Str Unify

/-! ### the object protocol -/

/-- nor before the matcher was used -/
theorem no_binding_before_call : NoBindingBeforeCallStatement := by
  intro px py k
  rfl

theorem call_fresh (px py x y : Cat) :
    (∃ σ, Obj.call (.fresh px py) x y = (.ok true, .succeeded σ)) ∨
    (∃ r, r ≠ .ok true ∧ Obj.call (.fresh px py) x y = (r, .failed)) := by
  cases h : unify px py x y with
  | error e => exact Or.inr ⟨.error e, ⟨fun h' => (by cases h'), (by simp only [Obj.call, h])⟩⟩
  | ok r =>
    cases r with
    | none => exact Or.inr ⟨.ok false, ⟨fun h' => (by cases h'), (by simp only [Obj.call, h])⟩⟩
    | some σ => exact Or.inl ⟨σ, (by simp only [Obj.call, h])⟩

/-- after a failure no binding can be read -/
theorem no_binding_after_failure : NoBindingAfterFailureStatement := by
  intro px py x y k h
  rcases call_fresh px py x y with ⟨σ, hσ⟩ | ⟨r, _, hr⟩
  · rw [hσ] at h; cases h
  · rw [hr]; rfl

/-- a matcher answers only once: every later call raises RuntimeError and changes nothing -/
theorem answers_once : AnswersOnceStatement := by
  intro px py x y x' y'
  rcases call_fresh px py x y with ⟨σ, hσ⟩ | ⟨r, _, hr⟩
  · simp only [hσ]
    exact ⟨rfl, fun _ => rfl⟩
  · simp only [hr]
    exact ⟨rfl, fun _ => rfl⟩

/-! ### the grammar's patterns -/

instance (p : Cat) : Decidable (Linear p) := inferInstanceAs (Decidable (vars p).Nodup)

/-- executable form of `VarsOK` -/
def varsOKb (p : Cat) : Bool :=
  (vars p).all fun v => match v with
    | [c] => !(decide (48 ≤ c) && decide (c ≤ 57))
    | _ => false

theorem varsOK_of_varsOKb {p : Cat} (h : varsOKb p = true) : VarsOK p := by
  intro v hv
  have := List.all_eq_true.1 h v hv
  match v, this with
  | [c], this =>
    refine ⟨c, rfl, ?_⟩
    simp at this
    omega

/-- the six English and ten Japanese pattern pairs are linear with single-letter variables -/
theorem grammar_patterns_ok : GrammarPatternsOKStatement := by
  have h : grammarPatterns.all (fun p =>
      decide (Linear p.1) && decide (Linear p.2) && varsOKb p.1 && varsOKb p.2) = true := by
    decide
  intro p hp
  have := List.all_eq_true.1 h p hp
  simp only [Bool.and_eq_true, decide_eq_true_eq] at this
  exact ⟨this.1.1.1, this.1.1.2, varsOK_of_varsOKb this.1.2, varsOK_of_varsOKb this.2⟩

/-! ### the call -/

/-- within one feature system matching never raises -/
theorem unify_total : UnifyTotalStatement := by
  intro px py x y sk
  rcases unify_cases px py x y with h | ⟨cats1, xf, cats2, yf, h1, h2, h⟩
  · exact ⟨_, h⟩
  · obtain ⟨_, _, rfl⟩ := scan_ok h1
    obtain ⟨_, _, rfl⟩ := scan_ok h2
    have hv := visitable_shared sk (fun k f => writes_values (p := px) (t := x) (k := k))
      (fun k f => writes_values (p := py) (t := y) (k := k))
    obtain ⟨r, hr⟩ := agree_total hv []
    rw [hr] at h
    cases r with
    | none => exact ⟨_, h⟩
    | some m => exact ⟨_, h⟩

/-- a variable of neither pattern has no binding (KeyError) -/
theorem unknown_var : UnknownVarStatement := by
  intro px py x y σ v h hv
  obtain ⟨cats1, xf, cats2, yf, m, h1, h2, _, rfl⟩ := unify_some_iff.1 h
  simp only [List.mem_append, not_or] at hv
  have e2 := scan_cats_notin hv.2 y cats1 []
  have e1 := scan_cats_notin hv.1 x [] []
  rw [h2] at e2
  rw [h1] at e1
  simp only at e1 e2
  have : Dict.get? cats2 v = none := by rw [e2, e1]; rfl
  simp only [Bindings.get, this]

/-- on success each variable's binding is the matched sub-category with at most its variable
    features replaced by features from the inputs -/
theorem binding_spec : BindingSpecStatement := by
  intro px py x y σ lx ly h v hv
  obtain ⟨cats1, xf, cats2, yf, m, h1, h2, ha, rfl⟩ := unify_some_iff.1 h
  obtain ⟨s1, rfl, rfl⟩ := scan_ok h1
  obtain ⟨s2, rfl, rfl⟩ := scan_ok h2
  have hm : MapOK (feats x ++ feats y) m :=
    agree_mapOK (fun k f hf => List.mem_append_left _ (writes_values hf))
      (fun k f hf => List.mem_append_right _ (writes_values hf)) (MapOK.nil _) ha
  have fmx := matched_functional lx x
  have fmy := matched_functional ly y
  -- the matched sub-category and what `cats` holds
  have key : ∃ c, lastMatched px py x y v = some c ∧
      Dict.get? (setAll (setAll ([] : Dict Str Cat) (matched px x)) (matched py y)) v = some c := by
    rw [lastMatched_eq]
    by_cases hpy : v ∈ vars py
    · obtain ⟨c, hc⟩ := matched_of_shape s2 hpy
      refine ⟨c, ?_, ?_⟩
      · rw [fmy.get?_iff.2 hc]
      · exact (get?_setAll _ fmy _ _ _).2 (Or.inl hc)
    · have hpx : v ∈ vars px := by
        rcases List.mem_append.1 hv with h | h
        · exact h
        · exact absurd h hpy
      have hn : ∀ c, (v, c) ∉ matched py y := fun c hc => hpy (mem_matched_vars hc)
      obtain ⟨c, hc⟩ := matched_of_shape s1 hpx
      refine ⟨c, ?_, ?_⟩
      · rw [get?_eq_none_iff.2 hn, fmx.get?_iff.2 hc]
      · exact (get?_setAll _ fmy _ _ _).2 (Or.inr ⟨hn, (get?_setAll_nil _ fmx _ _).2 hc⟩)
  obtain ⟨c, hl, hg⟩ := key
  refine ⟨c, subst m c, hl, ?_, instanceOf_subst hm c, xorEq_subst m c⟩
  simp only [Bindings.get, hg]

/-- matching succeeds exactly when both categories have the required shape, shared variables
    stand for feature-blind identical sub-categories, and features at corresponding positions
    are compatible -/
theorem unify_ok_iff : UnifyOkIffStatement := by
  intro px py x y lx ly vx vy sk
  have fwx := writes_functional lx vx x
  have fwy := writes_functional ly vy y
  have fmx := matched_functional lx x
  have hvis : Visitable (setAll [] (writes px x)) (setAll [] (writes py y))
      (sharedVars (setAll [] (writes px x)) (setAll [] (writes py y))) :=
    visitable_shared sk (fun k f => writes_values (p := px) (t := x) (k := k))
      (fun k f => writes_values (p := py) (t := y) (k := k))
  constructor
  · rintro ⟨σ, hσ⟩
    obtain ⟨cats1, xf, cats2, yf, m, h1, h2, ha, _⟩ := unify_some_iff.1 hσ
    obtain ⟨s1, rfl, rfl⟩ := scan_ok h1
    obtain ⟨s2, _, rfl⟩ := scan_ok h2
    have hb : SharedBlind px py x y := by
      intro v tx ty hx hy
      have := (scan_true_iff ly y (setAll [] (matched px x)) []).1 (by rw [h2])
      exact this.2 v ty tx hy ((get?_setAll_nil _ fmx v tx).2 hx)
    refine ⟨s1, s2, hb, ?_⟩
    rw [← featCompat_iff vx vy hb]
    intro k f g hkf hkg
    have hf := (get?_setAll_nil _ fwx k f).2 hkf
    have hg := (get?_setAll_nil _ fwy k g).2 hkg
    exact (agree_ok_iff hvis []).1 ⟨m, ha⟩ k (mem_sharedVars.2 ⟨⟨f, hf⟩, ⟨g, hg⟩⟩) f g hf hg
  · rintro ⟨s1, s2, hb, hc⟩
    have h1 : (scan px x [] []).1 = true :=
      (scan_true_iff lx x [] []).2 ⟨s1, by intro v t' c _ hc; simp [Dict.get?] at hc⟩
    rcases hsc1 : scan px x [] [] with ⟨b1, cats1, xf⟩
    rw [hsc1] at h1
    simp only at h1
    subst h1
    obtain ⟨_, rfl, rfl⟩ := scan_ok hsc1
    have h2 : (scan py y (setAll [] (matched px x)) []).1 = true :=
      (scan_true_iff ly y _ []).2
        ⟨s2, fun v t' c hv hc => hb v c t' ((get?_setAll_nil _ fmx v c).1 hc) hv⟩
    rcases hsc2 : scan py y (setAll [] (matched px x)) [] with ⟨b2, cats2, yf⟩
    rw [hsc2] at h2
    simp only at h2
    subst h2
    obtain ⟨_, _, rfl⟩ := scan_ok hsc2
    obtain ⟨m, hm⟩ := (agree_ok_iff hvis []).2 (by
      intro k _ f g hf hg
      exact (featCompat_iff vx vy hb).2 hc k f g ((get?_setAll_nil _ fwx k f).1 hf)
        ((get?_setAll_nil _ fwy k g).1 hg))
    exact ⟨⟨cats2, m⟩, unify_some_iff.2 ⟨_, _, _, _, m, hsc1, hsc2, hm, rfl⟩⟩

/-! ### non-vacuity -/

section Examples
open Depccg.Pat

/-- `S[X]/NP[X]` -/
def exX : Cat := .fn (.atom (lit "S") (.un (some (lit "X")))) cSlash (.atom (lit "NP") (.un (some (lit "X"))))
/-- `NP[mod]` -/
def exY : Cat := .atom (lit "NP") (.un (some (lit "mod")))
/-- `N` -/
def exN : Cat := .atom (lit "N") (.un none)
/-- `S[dcl]/NP[a]` and `NP[b]` -/
def exA : Cat := .fn (.atom (lit "S") (.un (some (lit "dcl")))) cSlash (.atom (lit "NP") (.un (some (lit "a"))))
def exB : Cat := .atom (lit "NP") (.un (some (lit "b")))

theorem ex_hyps : Linear (fwd a b) ∧ Linear b ∧ VarsOK (fwd a b) ∧ VarsOK b :=
  grammar_patterns_ok (fwd a b, b) (by decide)

theorem ex_sameKind (x y : Cat) (h : (feats x ++ feats y).all (fun f => match f with | .un _ => true | _ => false) = true) :
    SameKind x y := by
  refine Or.inl fun f hf => ?_
  have := List.all_eq_true.1 h f hf
  cases f with
  | un v => exact ⟨v, rfl⟩
  | tri => cases this

/-- forward application of `S[X]/NP[X]` to `NP[mod]` matches: `a ↦ S[mod]`, `b ↦ NP[mod]` -/
example : ∃ σ, unify (fwd a b) b exX exY = .ok (some σ) ∧
    σ.get [97] = .ok (.atom (lit "S") (.un (some (lit "mod")))) ∧
    σ.get [98] = .ok exY ∧ σ.get [99] = .error .keyError :=
  ⟨_, rfl, by decide, by decide, by decide⟩

example : Succeeds (fwd a b) b exX exY := ⟨_, rfl⟩

/-- the characterisation applies to it (all hypotheses hold) and gives the declarative side -/
example : Shape (fwd a b) exX ∧ Shape b exY ∧ SharedBlind (fwd a b) b exX exY ∧
    FeatCompat (fwd a b) b exX exY :=
  (unify_ok_iff (fwd a b) b exX exY ex_hyps.1 ex_hyps.2.1 ex_hyps.2.2.1 ex_hyps.2.2.2
    (ex_sameKind _ _ (by decide))).1 ⟨_, rfl⟩

/-- and the binding specification applies to it -/
example : ∃ c b', lastMatched (fwd a b) b exX exY [97] = some c ∧
    c = .atom (lit "S") (.un (some (lit "X"))) ∧ b' = .atom (lit "S") (.un (some (lit "mod"))) ∧
    InstanceOf (feats exX ++ feats exY) b' c :=
  ⟨_, _, rfl, rfl, rfl, by simp [InstanceOf, Feat.isVariable, feats, exX, exY]⟩

/-- a failing match: `S[X]/NP[X]` does not apply to `N` (the shared variable `b` would stand
    for `NP[X]` and for `N`) -/
example : unify (fwd a b) b exX exN = .ok none := rfl

example : ¬ Succeeds (fwd a b) b exX exN := by
  rintro ⟨σ, h⟩
  rw [show unify (fwd a b) b exX exN = .ok none from rfl] at h
  cases h

example : ¬ SharedBlind (fwd a b) b exX exN := by
  intro h
  have := h [98] (.atom (lit "NP") (.un (some (lit "X")))) exN (by decide) (by decide)
  exact absurd this (by decide)

/-- a failing match because of incompatible features: `S[dcl]/NP[a]` with `NP[b]` -/
example : unify (fwd a b) b exA exB = .ok none := rfl

example : ¬ FeatCompat (fwd a b) b exA exB := by
  intro h
  have h' := (unify_ok_iff (fwd a b) b exA exB ex_hyps.1 ex_hyps.2.1 ex_hyps.2.2.1 ex_hyps.2.2.2
    (ex_sameKind _ _ (by decide))).2
      ⟨⟨by decide, trivial, trivial⟩, trivial, ?_, h⟩
  · obtain ⟨σ, hσ⟩ := h'
    rw [show unify (fwd a b) b exA exB = .ok none from rfl] at hσ
    cases hσ
  · intro v tx ty hx hy
    simp [matched, Pat.fwd, Pat.a, Pat.b, exA, exB] at hx hy
    rcases hx with ⟨rfl, rfl⟩ | ⟨rfl, rfl⟩
    · simp at hy
    · rw [hy.2]; decide

/-- without linearity the characterisation would fail: `a/a` on `S/NP` has the right shape and
    nothing shared with the second pattern, yet does not match -/
example : unify (fwd a a) b (.fn (.atom (lit "S") (.un none)) cSlash (.atom (lit "NP") (.un none))) exN
    = .ok none := rfl

/-- mixed feature systems make the call raise (why `SameKind` is assumed) -/
example : unify b b (.atom (lit "NP") (.tri [107] [118] [107] [118] [107] [118])) exY
    = .error .attributeError := rfl

end Examples

end Depccg.C06
