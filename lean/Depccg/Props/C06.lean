import Depccg.Unify
