/-
  `--format conll` at the level of the whole output: the text `print_` emits — per tree the two
  comment lines `# ID=<sentence>` and `# log probability=<score>`, the ten-column table, an empty
  line — is split into records by a reader written in Lean (`Read.decConllDoc`) and every table is
  read with `Read.decConll` (`conll_decode`): sentence numbers, n-best order, score texts and the
  rows (ids, escaped words, lemma / pos with `_` defaults, head column, leaf categories, fragments)
  of every returned tree.
-/
import Depccg.Props.CliDefs
import Depccg.Props.C07ConllDefs
import Depccg.Read.ConllDoc

namespace Depccg.CliProps
open Depccg Str Search GlueRun Lazy Print Cli LazyProps Read C07 TextProps

/-- what the output says: (sentence number, score text, rows) per returned tree, in order -/
def conllExpected (results : List SentResult) : List (Nat × Str × List ConllRow) :=
  (numbered (results.map scored)).map fun p => (p.1, p.2.2, viewConll p.2.1)

def MainConllReadsBackStatement : Prop :=
  ∀ (results : List SentResult) (text : Str),
    (∀ r ∈ results, ∀ ts ∈ scored r, AllCats (fun c => Cell c.str) ts.1 ∧ AllToks TokCells ts.1) →
    printText Fmt.conll results = .ok text →
    decConllDoc text = some (conllExpected results)

/-- the same for any batch handed to `to_string(…, format='conll')` (score texts without line breaks) -/
def ConllDocDecodeStatement : Prop :=
  ∀ (batch : List (List (Tree × Str))) (text : Str),
    (∀ ts ∈ batch, ∀ p ∈ ts, AllCats (fun c => Cell c.str) p.1 ∧ AllToks TokCells p.1 ∧ 10 ∉ p.2) →
    toStringLines conllOf true batch = .ok text →
    decConllDoc text = some ((numbered batch).map fun p => (p.1, p.2.2, viewConll p.2.1))

end Depccg.CliProps
