/-
  C12  Rule labels and head directions on trees are those the grammar assigned.

  (a) Parser output: `SearchProps.returned_valid` — every node of a returned derivation carries the
      rule id of the grammar result that created it (`Licensed`: `(g.bin …)[rid]? = some ⟨cat, headLeft⟩`,
      `(g.un …)[rid]? = some cat`); the glue turns the rule id into label / symbol / head direction
      by indexing the same result list (checked by the correspondence at glue level).
  (b) Readers: `guess_spec` below; the readers' images (`TextProps.autoImage`, `C20.ptbImage`)
      label binary nodes with exactly this `guess`, see C08.auto_roundtrip / C20.ptb_roundtrip.
-/
import Depccg.Props.SearchBasics
import Depccg.Props.C12Glue
import Depccg.Tree
import Depccg.Props.C13

namespace Depccg.C12
open Depccg

/-- a binary node whose category the active grammar derives from its children carries the label,
    symbol and head direction of the first rule result deriving it … -/
theorem guess_derivable (lang : Lang) (target x y : Cat) (rs : List RuleRes)
    (h : binaryRules lang x y = .ok rs) (hd : ∃ r ∈ rs, r.cat = target) :
    ∃ r, guess lang target x y = .ok r ∧ r ∈ rs ∧ r.cat = target := by
  obtain ⟨r0, hr0, hc⟩ := hd
  unfold guess
  rw [h]
  simp only
  cases hf : rs.find? (fun r => Cat.pyEq r.cat target) with
  | none =>
    have := List.find?_eq_none.1 hf r0 hr0
    rw [← hc] at this
    simp [(C13.pyEq_iff r0.cat r0.cat).2 rfl] at this
  | some r =>
    refine ⟨r, rfl, List.mem_of_find?_eq_some hf, ?_⟩
    have := List.find?_some (p := fun r : RuleRes => Cat.pyEq r.cat target) hf
    exact (C13.pyEq_iff r.cat target).1 this

/-- … and only underivable nodes are labelled unknown -/
theorem guess_underivable (lang : Lang) (target x y : Cat) (rs : List RuleRes)
    (h : binaryRules lang x y = .ok rs) (hd : ¬ ∃ r ∈ rs, r.cat = target) :
    guess lang target x y = .ok (unkRule target) := by
  unfold guess
  rw [h]
  simp only
  cases hf : rs.find? (fun r => Cat.pyEq r.cat target) with
  | none => rfl
  | some r =>
    exfalso
    exact hd ⟨r, List.mem_of_find?_eq_some hf, (C13.pyEq_iff r.cat target).1 (List.find?_some (p := fun r : RuleRes => Cat.pyEq r.cat target) hf)⟩

/-- the guessed rule never changes the category written in the file -/
theorem guess_cat (lang : Lang) (target x y : Cat) (r : RuleRes) (h : guess lang target x y = .ok r) :
    r.cat = target := by
  unfold guess at h
  cases hb : binaryRules lang x y with
  | error e => rw [hb] at h; cases h
  | ok rs =>
    rw [hb] at h
    simp only at h
    cases hf : rs.find? (fun r => Cat.pyEq r.cat target) with
    | none => rw [hf] at h; cases h; rfl
    | some r' =>
      rw [hf] at h
      simp only [Except.ok.injEq] at h
      subst h
      exact (C13.pyEq_iff r'.cat target).1 (List.find?_some (p := fun r : RuleRes => Cat.pyEq r.cat target) hf)

end Depccg.C12
