/-
  C01 at full strength for the model of the real call (`Lazy`): the first tree returned is optimal
  among ALL derivations the *rule functions* license — not only among those licensed by the part of
  the grammar the search happened to cache. Derivations are stated at the level of categories
  (`CDeriv`), independently of the numbering the callbacks invent.
-/
import Depccg.Props.LazyDefs
import Depccg.Props.SearchDefs

namespace Depccg.FullOptimal
open Depccg Search SearchProps GlueTree GlueRun Lazy LazyProps

/-- a derivation over categories; a leaf names its token, the column of the tag matrix and the
    category that column stands for -/
inductive CDeriv where
  | leaf (tok col : Nat) (cat : Cat)
  | un (cat : Cat) (rid : Nat) (d : CDeriv)
  | bin (cat : Cat) (rid : Nat) (headLeft : Bool) (l r : CDeriv)

def ccat : CDeriv → Cat
  | .leaf _ _ c => c
  | .un c _ _ => c
  | .bin c _ _ _ _ => c

/-- the id-level skeleton: leaves keep their columns, inner categories are irrelevant to spans,
    heads and scores -/
def skel : CDeriv → Deriv
  | .leaf t col _ => .leaf t col
  | .un _ rid d => .un 0 rid (skel d)
  | .bin _ rid hl l r => .bin 0 rid hl (skel l) (skel r)

/-- licensed by the rule functions `G` and the input: a leaf carries an admitted column and the
    category the caller's list gives that column; a unary / binary node is the `rid`-th result of the
    rule function for its children's categories (binary: with that result's head direction);
    children are adjacent; no unary step spans a whole multi-word sentence -/
inductive CLicensed (G : GlueRun.CatGrammar) (categories : List Cat) (s : Sent) (cfg : Cfg) : CDeriv → Prop
  | leaf (t col : Nat) (c : Cat) (sc : Int) : t < s.n → (sc, col) ∈ admitted s cfg t → categories[col]? = some c →
      CLicensed G categories s cfg (.leaf t col c)
  | un (c : Cat) (rid : Nat) (d : CDeriv) (r : RuleRes) : CLicensed G categories s cfg d →
      (G.un (ccat d))[rid]? = some r → r.cat = c → (s.n = 1 ∨ dlen (skel d) ≠ s.n) →
      CLicensed G categories s cfg (.un c rid d)
  | bin (c : Cat) (rid : Nat) (hl : Bool) (l r : CDeriv) (res : RuleRes) : CLicensed G categories s cfg l →
      CLicensed G categories s cfg r → dstop (skel l) = dstart (skel r) →
      (G.bin (ccat l) (ccat r))[rid]? = some res → res.cat = c → res.headLeft = hl →
      CLicensed G categories s cfg (.bin c rid hl l r)

/-- a complete parse with an allowed root category -/
def CLicensedRoot (G : GlueRun.CatGrammar) (categories roots : List Cat) (s : Sent) (cfg : Cfg) (d : CDeriv) : Prop :=
  CLicensed G categories s cfg d ∧ dstart (skel d) = 0 ∧ dlen (skel d) = s.n ∧ ccat d ∈ roots

/-- the model score of a category-level derivation -/
def cScore (s : Sent) (cfg : Cfg) (d : CDeriv) : Int := modelScore s cfg (skel d)

/-- all rules of the rule function share one head direction (as both shipped grammars do) -/
def HeadUniformG (G : GlueRun.CatGrammar) : Prop :=
  (∀ x y, ∀ r ∈ G.bin x y, r.headLeft = true) ∨ (∀ x y, ∀ r ∈ G.bin x y, r.headLeft = false)

/-- C01 (optimality), full strength: whatever the call did before, the first parse returned for a
    sentence scores at least as much as every complete derivation the rule functions license over the
    admitted supertags with an allowed root -/
def LazyOptimalFullStatement : Prop :=
  ∀ (G : GlueRun.CatGrammar) (categories roots : List Cat) (calls : List Call) (cfg : Cfg) (x : SentIn),
    categories.Nodup → LexOK categories x → HeadUniformG G →
    let s := sentOf (addRoots categories roots).2 x
    let gstH := calls.foldl (GlueRun.step G) (GlueRun.init categories roots)
    SentOK s → 0 ≤ cfg.penalty → cfg.nbest = 1 →
    ∀ t rest, (runL G gstH s cfg).1.results = t :: rest →
      ∀ cd, CLicensedRoot G categories roots s cfg cd → cScore s cfg cd ≤ t.prio

/-- C01 (failure), full strength: a sentence is reported as failed with step budget left only if
    the rule functions license no complete derivation at all -/
def LazyFailureFullStatement : Prop :=
  ∀ (G : GlueRun.CatGrammar) (categories roots : List Cat) (calls : List Call) (cfg : Cfg) (x : SentIn),
    categories.Nodup → LexOK categories x → HeadUniformG G →
    let s := sentOf (addRoots categories roots).2 x
    let gstH := calls.foldl (GlueRun.step G) (GlueRun.init categories roots)
    SentOK s → 0 ≤ cfg.penalty → cfg.nbest = 1 →
    (runL G gstH s cfg).1.results = [] → (runL G gstH s cfg).1.steps < cfg.maxStep →
      ¬ ∃ cd, CLicensedRoot G categories roots s cfg cd

/-- C10, full strength: in n-best mode with budget left, every complete derivation the rule
    functions license either scores no more than every returned tree, or is itself among the
    returned ones (same score, same leaves) -/
def LazyNBestFullStatement : Prop :=
  ∀ (G : GlueRun.CatGrammar) (categories roots : List Cat) (calls : List Call) (cfg : Cfg) (x : SentIn),
    categories.Nodup → LexOK categories x →
    let s := sentOf (addRoots categories roots).2 x
    let gstH := calls.foldl (GlueRun.step G) (GlueRun.init categories roots)
    SentOK s → 0 ≤ cfg.penalty → 1 < cfg.nbest → (runL G gstH s cfg).1.steps < cfg.maxStep →
    let res := (runL G gstH s cfg).1.results
    ∀ cd, CLicensedRoot G categories roots s cfg cd →
      (∀ r ∈ res, cScore s cfg cd ≤ r.prio) ∨ (∃ r ∈ res, r.prio = cScore s cfg cd ∧ leafCats r.d = leafCats (skel cd))

end Depccg.FullOptimal
