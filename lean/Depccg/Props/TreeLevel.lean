/-
  C09, C16 and C10 (order / count) on the objects the caller receives: the `(Tree, score)` pairs
  of a sentence parsed after any history of the call.  Statements in `TreeLevelDefs.lean`, helper
  lemmas (`tl_…`) in `Depccg/Proofs/TreeLevelLemmas.lean`.
-/
import Depccg.Props.TreeLevelDefs
import Depccg.Proofs.TreeLevelLemmas

namespace Depccg.TreeLevel
open Depccg Search SearchProps GlueTree GlueRun Lazy LazyProps GlueRunProps OutputWF

/-- C09 on the returned objects: the attached score is the model score recomputed from the tree -/
theorem tree_score : TreeScoreStatement := by
  intro G categories roots calls cfg maxLength x trees hnd hlex h ts hts
  obtain ⟨gF, d, hpre, hroot, hret, hsc⟩ := tl_sentence_pair hnd hlex h ts hts
  rw [hsc]
  have htags : ∀ row ∈ (sentOf (addRoots categories roots).2 x).tags, row.length ≤ categories.length := hlex
  exact tl_treeScore hnd htags hpre hroot.1 hroot.2.1 hret

/-- C16 on the returned objects: every leaf carries a category the beam admitted for its word -/
theorem tree_beam : TreeBeamStatement := by
  intro G categories roots calls cfg maxLength x trees hnd hlex h ts hts
  obtain ⟨gF, d, hpre, hroot, hret, -⟩ := tl_sentence_pair hnd hlex h ts hts
  have m := tl_mirror hroot.1 ts.1 hret
  refine ⟨?_, ?_⟩
  · rw [tl_leafCatsT_length, m.len, hroot.2.2.1]
    rfl
  · intro i c hc
    obtain ⟨sc, col, hadm, hcol⟩ := m.beam i c hc
    rw [hroot.2.1, Nat.zero_add] at hadm
    refine ⟨sc, col, hadm, ?_⟩
    have h1 := (mem_admitted hadm).1
    have htags : ∀ row ∈ (sentOf (addRoots categories roots).2 x).tags, row.length ≤ categories.length := hlex
    have h2 := lz_getD_len htags i
    simp only at h1
    have hlt : col < categories.length := by omega
    obtain ⟨rest, hrest⟩ := hpre
    rw [← hrest, List.getElem?_append_left hlt] at hcol
    exact hcol

/-- C10 (order, count) on the returned objects -/
theorem trees_sorted : TreesSortedStatement := by
  intro G categories roots calls cfg maxLength x trees hnd hlex h
  have htr := ow_sentenceL_parsed h
  have hready := ready_of_history G categories roots calls x hnd hlex
  have hmap := tl_treesOf_scores _ _ _ _ htr
  have hne := tl_sentenceL_nonempty h
  refine ⟨?_, ?_, ?_⟩
  · rw [hmap]
    exact lazy_results_sorted G _ _ cfg
  · have hlen : trees.length = (runLWith pickHeap G (calls.foldl (GlueRun.step G) (GlueRun.init categories roots))
        (sentOf (addRoots categories roots).2 x) cfg).1.results.length := by
      have := congrArg List.length hmap
      simpa only [List.length_map] using this
    rw [hlen]
    exact lazy_results_count G _ _ cfg hready
  · intro hnil
    rw [hnil] at hmap
    simp only [List.map_nil] at hmap
    exact hne (List.map_eq_nil_iff.1 hmap.symm)

end Depccg.TreeLevel
