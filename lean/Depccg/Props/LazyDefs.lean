/-
  Statements about `Depccg.Lazy`, the model of `depccg._parsing.run` in which the rule cache is
  filled during the search through the callbacks (as the real code does), and about its relation
  to `Search.run`, the search over a total id-level grammar that all the search theorems
  (C01 C02 C09 C10 C12 C16) are proved of.

  1. `LazyEqFinalStatement`: a lazy run *is* `Search.runWith` over the id-level view of its own
     final cache (and of any later cache) — the modelling step "the lazily filled cache behaves
     like the final table consulted where asked" as a theorem.
  2. `LazyReachableStatement` / `LazyInvStatement`: the lazy run only performs callbacks, so the
     glue invariant (`GlueRunProps.Inv'`: duplicate-free table, cache rows = the rule functions'
     result lists) holds after it.
  3. `LazyTreesLicensedStatement`, `LazyShippedOptimalStatement`: C02/C12 and C01 for what
     `run` hands to its caller.
  4. `LazyHistoryIndependentStatement`, `BatchEqMapSoloStatement`: C11 at the level of trees —
     the result of a sentence does not depend on what the call has parsed before.
-/
import Depccg.Lazy
import Depccg.Props.GlueRun
import Depccg.Props.EndToEndDefs

namespace Depccg.LazyProps
open Depccg Search SearchProps GlueTree GlueRun Lazy GlueRunProps

/-- the outcomes agree in everything the model records -/
def SameOutcome (a b : Outcome) : Prop :=
  a.results = b.results ∧ a.popped = b.popped ∧ a.steps = b.steps ∧ a.tie = b.tie

/-- a lazy run is the pure run over the id-level view of its final cache, and of every cache
    obtained from it by further callbacks (later sentences of the call) -/
def LazyEqFinalStatement : Prop :=
  ∀ (pick : Pick) (G : GlueRun.CatGrammar) (gst : GSt) (s : Sent) (cfg : Cfg) (later : List Call),
    SameOutcome (runLWith pick G gst s cfg).1
      (runWith pick (view (later.foldl (GlueRun.step G) (runLWith pick G gst s cfg).2)) s cfg)

/-- the search touches table and cache only through the callbacks -/
def LazyReachableStatement : Prop :=
  ∀ (pick : Pick) (G : GlueRun.CatGrammar) (gst : GSt) (s : Sent) (cfg : Cfg),
    ∃ calls : List Call, (runLWith pick G gst s cfg).2 = calls.foldl (GlueRun.step G) gst

/-- hence the glue invariant survives a sentence, and the table only grows -/
def LazyInvStatement : Prop :=
  ∀ (pick : Pick) (G : GlueRun.CatGrammar) (gst : GSt) (s : Sent) (cfg : Cfg), Inv' G gst →
    Inv' G (runLWith pick G gst s cfg).2 ∧ gst.cats <+: (runLWith pick G gst s cfg).2.cats

/-- every tree handed to the caller is licensed node by node by the rule functions, has the
    sentence's tokens as its leaves in order and an allowed root -/
def LazyTreesLicensedStatement : Prop :=
  ∀ (pick : Pick) (G : GlueRun.CatGrammar) (gst : GSt) (s : Sent) (cfg : Cfg) (tokens : List Token),
    PickOK pick → Inv' G gst → tokens.length = s.n →
    ∀ r ∈ (runLWith pick G gst s cfg).1.results, ∀ t,
      retrieve (tablesOf (runLWith pick G gst s cfg).2) tokens r.d = .ok t →
      EndToEnd.TreeLicensed (toE2E G) t ∧ t.tokens = tokens ∧
      (∃ rc ∈ s.roots, (runLWith pick G gst s cfg).2.cats[rc]? = some t.cat)

/-- `retrieve_tree` never fails on what the search returns -/
def LazyRetrieveTotalStatement : Prop :=
  ∀ (pick : Pick) (G : GlueRun.CatGrammar) (gst : GSt) (s : Sent) (cfg : Cfg) (tokens : List Token),
    PickOK pick → Inv' G gst → tokens.length = s.n →
    (∀ row ∈ s.tags, row.length ≤ gst.cats.length) →
    ∃ ts, treesOf (runLWith pick G gst s cfg).2 tokens (runLWith pick G gst s cfg).1.results = .ok ts

/-- C01 for the shipped grammars, about the lazy run itself: the first result has the maximum
    model score among all derivations licensed by the final cache -/
def LazyShippedOptimalStatement : Prop :=
  ∀ (pick : Pick) (seen : Option (List (Cat × Cat))) (table : List (Cat × List Cat)) (en : Bool)
    (gst : GSt) (s : Sent) (cfg : Cfg),
    let E := if en then EndToEnd.enGrammar seen table else EndToEnd.jaGrammar seen table
    let G : GlueRun.CatGrammar := { bin := E.bin, un := E.un }
    PickOK pick → SentOK s → 0 ≤ cfg.penalty → cfg.nbest = 1 → Inv' G gst →
    ∀ t rest, (runLWith pick G gst s cfg).1.results = t :: rest →
      ∀ d, LicensedRoot (view (runLWith pick G gst s cfg).2) s cfg d → modelScore s cfg d ≤ t.prio

/-! ### C11 at the level of trees -/

/-- the columns of the tag matrix are the caller's categories (`_type_check`: `num_tags` is the
    length of the category list) -/
def LexOK (categories : List Cat) (x : SentIn) : Prop :=
  ∀ row ∈ x.tags, row.length ≤ categories.length

/-- whatever the call has done before (`calls`: the callbacks of the sentences parsed earlier),
    a sentence gets the result — failure placeholder or scored trees — it gets when parsed alone,
    after the same number of steps -/
def LazyHistoryIndependentStatement : Prop :=
  ∀ (G : GlueRun.CatGrammar) (categories roots : List Cat) (calls : List Call) (cfg : Cfg)
    (maxLength : Option Nat) (x : SentIn),
    categories.Nodup → LexOK categories x →
    let rootIds := (addRoots categories roots).2
    let gst0 := GlueRun.init categories roots
    let gstH := calls.foldl (GlueRun.step G) gst0
    (sentenceL pickHeap G rootIds cfg maxLength gstH x).1 = (sentenceL pickHeap G rootIds cfg maxLength gst0 x).1 ∧
    (sentenceL pickHeap G rootIds cfg maxLength gstH x).2.1.steps = (sentenceL pickHeap G rootIds cfg maxLength gst0 x).2.1.steps

/-- one result per sentence, in order, each equal to parsing that sentence alone -/
def BatchEqMapSoloStatement : Prop :=
  ∀ (G : GlueRun.CatGrammar) (categories roots : List Cat) (cfg : Cfg) (maxLength : Option Nat)
    (doc : List SentIn),
    categories.Nodup → (∀ x ∈ doc, LexOK categories x) →
    ∃ outs gstF, Lazy.runBatch G categories roots cfg maxLength doc = .ok (outs, gstF) ∧
      outs.map (·.1) = doc.map fun x =>
        (sentenceL pickHeap G (addRoots categories roots).2 cfg maxLength (GlueRun.init categories roots) x).1

/-- C11 for `depccg.parsing.run` itself: whatever the chunk size and the number of worker
    processes, the call returns one result per sentence, in input order, each being the result of
    parsing that sentence alone from a fresh category table and an empty rule cache -/
def ParsingRunEqMapSoloStatement : Prop :=
  ∀ (G : GlueRun.CatGrammar) (categories roots : List Cat) (cfg : Cfg) (maxLength : Option Nat)
    (maxChunk procs : Nat) (doc : List SentIn),
    categories.Nodup → (∀ x ∈ doc, LexOK categories x) →
    parsingRun G categories roots cfg maxLength maxChunk procs doc = .ok (doc.map fun x =>
      (sentenceL pickHeap G (addRoots categories roots).2 cfg maxLength (GlueRun.init categories roots) x).1)

/-- a category list with duplicates is rejected before anything is parsed -/
def BatchRejectsDuplicatesStatement : Prop :=
  ∀ (G : GlueRun.CatGrammar) (categories roots : List Cat) (cfg : Cfg) (maxLength : Option Nat)
    (doc : List SentIn), ¬ categories.Nodup →
    Lazy.runBatch G categories roots cfg maxLength doc = .error .runtime

/-- a sentence longer than `max_length` yields the placeholder and leaves table and cache alone -/
def TooLongStatement : Prop :=
  ∀ (pick : Pick) (G : GlueRun.CatGrammar) (rootIds : List Nat) (cfg : Cfg) (m : Nat) (gst : GSt) (x : SentIn),
    m < x.tokens.length →
    sentenceL pick G rootIds cfg (some m) gst x =
      (.ok .failed, { results := [], popped := [], steps := 0, tie := false }, gst)

end Depccg.LazyProps
