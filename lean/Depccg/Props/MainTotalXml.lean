/-
  C19 at the level of the program for `--format xml` and `--format jigg_xml`. Statements in
  `Depccg/Props/MainTotalXmlDefs.lean` (unchanged: all four hold as written), helper lemmas in
  `Depccg/Proofs/MainTotalXmlLemmas.lean`.

  * XML text (`Xml.xmlStrOk` of the printed category) is closed under both shipped grammars: the
    rule functions build every category out of atoms, features and slashes of their arguments and
    of the fixed categories `(S\NP)\(S\NP)`, `(S\NP)/(S\NP)` with the slashes `/` and `\`.
  * `Category.parse` builds a category out of pieces of its text and the three slash characters.
  * Hence every attribute value of the two documents — categories (also in the `[f=true]` spelling
    of the Jigg format), rule labels and symbols (fixed tables), token values (fields of the input
    lines), identifiers, numbers and scores — is XML text, and `element.set` never refuses one;
    no n-best list is empty, so `parsed[0]` of `to_jigg_xml` is there.
  * The hypothesis is needed: the one-word sentence U+0001 prints under `--format auto` and makes
    `--format xml` fail with `ValueError`.
-/
import Depccg.Props.MainTotalXmlDefs
import Depccg.Proofs.MainTotalXmlLemmas

namespace Depccg.CliProps
open Depccg Str Search GlueRun Lazy Print Cli LazyProps Xml

/-- XML text is closed under both shipped grammars -/
theorem shipped_xml_closed : ShippedXmlClosedStatement := xm_shipped_closed

/-- parsing a category name of XML text gives a category of XML text -/
theorem parse_xml_cat : ParseXmlCatStatement := xm_parse

/-- the program under `--format xml` / `--format jigg_xml` prints a document whenever its inputs
    are XML text -/
theorem main_total_xml : MainTotalXmlStatement := xm_main_total

/-- and that hypothesis is needed: a control character in a word makes the call fail -/
theorem main_xml_refuses : MainXmlRefusesStatement := xm_main_refuses

end Depccg.CliProps
