/-
  The score text of the html output, `'{:.5e}'.format(k / 64)` (`Cli.fmt5e`, compared with CPython
  over many magnitudes and constructed ties), is the *correctly rounded* six-significant-digit
  decimal of the exact value: within half a unit of the last printed digit, an exact tie going to
  the even digit, in normalised scientific notation with a signed exponent of at least two digits.
  (`fmt8_roundtrip` and `json_float` say the other two spellings, `'{:.8f}'` and `repr`, are exact.)
-/
import Depccg.Cli

namespace Depccg.NumProps
open Depccg Str Cli

def digitVal (c : Nat) : Option Nat := if 48 ≤ c ∧ c ≤ 57 then some (c - 48) else none

/-- a run of decimal digits (leading zeros allowed), as a number -/
def natOfDigits : Str → Option Nat
  | [] => none
  | s => s.foldl (fun acc c => match acc, digitVal c with
      | some a, some d => some (10 * a + d)
      | _, _ => none) (some 0)

/-- reading `[-]d.ddddde±XX…` back: sign, the six digits as one number, the exponent -/
def dec5e (s : Str) : Option (Bool × Nat × Int) :=
  let neg := s.head? == some 45
  let body := if neg then s.drop 1 else s
  match body with
  | d0 :: 46 :: d1 :: d2 :: d3 :: d4 :: d5 :: 101 :: sg :: es =>
    match natOfDigits [d0, d1, d2, d3, d4, d5], natOfDigits es with
    | some q, some e =>
      if es.length < 2 then none
      else if sg = 43 then some (neg, q, (e : Int))
      else if sg = 45 then some (neg, q, -(e : Int))
      else none
    | _, _ => none
  | _ => none

/-- `10^7 ·` (printed value − exact value), as an integer: printed `q · 10^(e-5)`, exact
    `|k| · 15625 / 10^6` -/
def err7 (k : Int) (q : Nat) (e : Int) : Int :=
  (q : Int) * 10 ^ (e + 2).toNat - 10 * ((k.natAbs * 15625 : Nat) : Int)

def Fmt5eCorrectStatement : Prop :=
  ∀ k : Int, k ≠ 0 →
    ∃ (q : Nat) (e : Int), dec5e (fmt5e k) = some (decide (k < 0), q, e) ∧
      100000 ≤ q ∧ q < 1000000 ∧ -2 ≤ e ∧
      2 * (err7 k q e).natAbs ≤ 10 ^ (e + 2).toNat ∧
      (2 * (err7 k q e).natAbs = 10 ^ (e + 2).toNat → q % 2 = 0)

def Fmt5eZeroStatement : Prop := fmt5e 0 = lit "0.00000e+00"

/-- values that print exactly: at most six significant digits -/
def Fmt5eExactStatement : Prop :=
  ∀ k : Int, k ≠ 0 → (Str.ofNat (k.natAbs * 15625)).length ≤ 6 →
    ∀ q e, dec5e (fmt5e k) = some (decide (k < 0), q, e) → err7 k q e = 0

/-- the text is monotone in the value for non-negative scores' magnitudes: a larger magnitude never
    prints a smaller (exponent, digits) pair -/
def Fmt5eMonotoneStatement : Prop :=
  ∀ a b : Int, 0 < a → a ≤ b →
    ∀ qa ea qb eb, dec5e (fmt5e a) = some (false, qa, ea) → dec5e (fmt5e b) = some (false, qb, eb) →
      ea < eb ∨ (ea = eb ∧ qa ≤ qb)

/-- sign symmetry: the text of a negative score is `-` followed by the text of its magnitude (CPython
    formats sign and magnitude separately; a `-0.00000e+00` cannot arise from a non-zero `k/64`) -/
def Fmt5eNegStatement : Prop :=
  ∀ k : Int, 0 < k → fmt5e (-k) = 45 :: fmt5e k

/-- the same for the `'{:.8f}'` text of the record headers -/
def Fmt8NegStatement : Prop :=
  ∀ k : Int, 0 < k → fmt8 (-k) = 45 :: fmt8 k

end Depccg.NumProps
