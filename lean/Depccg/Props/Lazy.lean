/-
  The lazily filled rule cache (`Depccg.Lazy`, the model of `depccg._parsing.run` as it really
  runs) against the search over a total id-level grammar. Statements in `LazyDefs.lean`
  (unchanged) and `LazyDefs2.lean`; lemmas in `Depccg/Proofs/LazyLemmas.lean`.

  Proved as stated: `lazy_reachable`, `lazy_inv`, `lazy_trees_licensed`, `lazy_retrieve_total`,
  `too_long`, `batch_rejects_duplicates`.

  FALSE as stated, refuted and restated (`LazyDefs2.lean`):

  * `LazyEqFinalStatement` (`lazy_eq_final_original_false`): table `[A]`, `A ⇒ B`, `B ⇒ A`, one
    word whose tag row has two columns, column 1 (no id yet) scoring best. The leaf tagged 1 is
    popped first: the callback for the unknown id 1 is a no-op, nothing is pushed. Then the leaf
    `A` is expanded: `B` becomes id 1. The lazy run ends after 3 pops. A later callback `.un 1`
    now stores the row of `B`; over the view of that cache the leaf tagged 1 has a unary result
    and the run takes 4 pops.
  * `LazyShippedOptimalStatement` (`lazy_shipped_optimal_original_false`): the same corner inside
    one sentence, with the English grammar. Table `[S/N, S]`, unary table `S/N ⇒ N`, `N ⇒ S/N`;
    two words with three tag columns. The best leaf of word 0 is tagged 2 while 2 is no id:
    no unary result. Expanding the leaf `S/N` of word 0 makes `N` id 2; the leaf tagged 2 of
    word 1 then stores the unary row of `N`. The lazy run returns `S/N N ⇒ S` with score -1; the
    final cache licenses `(N ⇒ S/N) N ⇒ S` over the two leaves tagged 2 with score 9.

  Both hold when every tag column is an id of the table (and `pick` is admissible):
  `lazy_eq_final_partial`, `lazy_shipped_optimal_partial`.
-/
import Depccg.Props.LazyDefs
import Depccg.Props.LazyDefs2
import Depccg.Proofs.LazyLemmas
import Depccg.Props.SearchHeap

namespace Depccg.LazyProps
open Depccg Search SearchProps GlueTree GlueRun Lazy GlueRunProps

/-! ### the lazy run is the pure run over the view of its final cache -/

theorem lazy_eq_final_partial : LazyEqFinalStatement' := by
  intro pick G gst s cfg later hp hinv htags
  exact lz_run_eq hp hinv htags (lz_foldl_grows G later _)

theorem lazy_reachable : LazyReachableStatement := by
  intro pick G gst s cfg
  exact lz_run_reach pick G gst s cfg

theorem lazy_inv : LazyInvStatement := by
  intro pick G gst s cfg hinv
  have hr := lz_run_reach pick G gst s cfg
  exact ⟨lz_reach_inv hr hinv, (lz_reach_grows hr).1⟩

/-! ### what the caller receives -/

theorem lazy_trees_licensed : LazyTreesLicensedStatement := by
  intro pick G gst s cfg tokens hp hinv hlen r hr t hret
  have hinvF := lz_reach_inv (lz_run_reach pick G gst s cfg) hinv
  obtain ⟨⟨hlic, h0, hn, hroot⟩, hleaf, -, -⟩ := lz_results_valid hp G gst s cfg r hr
  obtain ⟨h1, h2, h3⟩ := EndToEnd.retrieved_tree_licensed (toE2E G) _ tokens s cfg r.d t hinvF.1.2.1 hlic hret
  refine ⟨h1, ?_, ⟨dcat r.d, hroot, h2⟩⟩
  rw [h3, hleaf, ← hlen]
  exact EndToEnd.e2e_filterMap_range tokens

theorem lazy_retrieve_total : LazyRetrieveTotalStatement := by
  intro pick G gst s cfg tokens hp hinv hlen htags
  have hr := lz_run_reach pick G gst s cfg
  have hinvF := lz_reach_inv hr hinv
  have hl := lz_grows_len (lz_reach_grows hr)
  apply lz_treesOf_total
  intro r hres
  obtain ⟨⟨hlic, -⟩, -⟩ := lz_results_valid hp G gst s cfg r hres
  exact (lz_retrieve_total hinvF hlen (fun row hrow => by have := htags row hrow; omega) hlic).2

theorem lazy_shipped_optimal_partial : LazyShippedOptimalStatement' := by
  intro pick seen table en gst s cfg E G hp hs hpen hn hinv htags t rest hres d hd
  have hinvF := lz_reach_inv (lz_run_reach pick G gst s cfg) hinv
  have heq := lz_run_eq (cfg := cfg) hp hinv htags (lz_grows_refl (runLWith pick G gst s cfg).2)
  rw [heq.1] at hres
  have hrep : EndToEnd.Represents (EndToEnd.enGrammar seen table) (tablesOf (runLWith pick G gst s cfg).2) ∨
      EndToEnd.Represents (EndToEnd.jaGrammar seen table) (tablesOf (runLWith pick G gst s cfg).2) := by
    have h := hinvF.1.2.1
    cases en
    · exact Or.inr h
    · exact Or.inl h
  exact EndToEnd.shipped_first_parse_optimal pick seen table _ s cfg hp hs hpen hn hinvF.1.2.2 hrep
    t rest hres d hd

/-! ### the batch loop -/

theorem too_long : TooLongStatement := by
  intro pick G rootIds cfg m gst x h
  simp only [sentenceL, if_pos h]

theorem batch_rejects_duplicates : BatchRejectsDuplicatesStatement := by
  intro G categories roots cfg maxLength doc h
  simp only [runBatch, runBatchWith, if_neg h]

/-! ### the two statements of `LazyDefs.lean` that are false as written -/

namespace LzCounter

def A : Cat := .atom [65] (.un none)
def B : Cat := .atom [66] (.un none)

/-- `A ⇒ B`, `B ⇒ A` (unary), no binary results -/
def G3 : GlueRun.CatGrammar :=
  { bin := fun _ _ => [],
    un := fun c => if c = A then [⟨B, [], [], true⟩] else if c = B then [⟨A, [], [], true⟩] else [] }

/-- the table knows `A` only -/
def gst3 : GSt := { cats := [A], bin := [], un := [] }

/-- one word, two tag columns: column 1 is not (yet) an id of the table and scores best -/
def s3 : Sent := { n := 1, tags := [[0, 5]], deps := [[0, 0]], roots := [], passes := [] }

def cfg3 : Cfg := { penalty := 0, pruning := 2, nbest := 1, maxStep := 10 }

/-- the lazy run takes 3 pops, the run over the view of the cache after the later callback
    `.un 1` takes 4 -/
theorem steps3 :
    (runLWith pickFirstMax G3 gst3 s3 cfg3).1.steps = 3 ∧
    (runWith pickFirstMax
      (view ([Call.un 1].foldl (GlueRun.step G3) (runLWith pickFirstMax G3 gst3 s3 cfg3).2)) s3 cfg3).steps = 4 := by
  decide +kernel

/-- the counterexample satisfies everything but the hypothesis on the tag columns -/
example : PickOK pickFirstMax ∧ Inv' G3 gst3 :=
  ⟨pickFirstMax_ok, gr_inv_empty G3 [A] (by decide)⟩

def cN : Cat := .atom (Str.lit "N") (.un none)
def cS : Cat := .atom (Str.lit "S") (.un none)
/-- `S/N` -/
def cSN : Cat := .fn cS Str.cSlash cN

/-- unary rules `S/N ⇒ N`, `N ⇒ S/N` -/
def table6 : List (Cat × List Cat) := [(cSN, [cN]), (cN, [cSN])]

/-- the only seen pair is `(S/N, N)` -/
def seen6 : Option (List (Cat × Cat)) := some [(cSN, cN)]

def G6 : GlueRun.CatGrammar :=
  { bin := (if true then EndToEnd.enGrammar seen6 table6 else EndToEnd.jaGrammar seen6 table6).bin,
    un := (if true then EndToEnd.enGrammar seen6 table6 else EndToEnd.jaGrammar seen6 table6).un }

/-- ids 0 = `S/N`, 1 = `S`; `N` has no id yet -/
def gst6 : GSt := { cats := [cSN, cS], bin := [], un := [] }

/-- two words, three tag columns; column 2 is no id of the table at the start -/
def s6 : Sent :=
  { n := 2, tags := [[0, -100, 10], [-100, 20, -1]], deps := [[0, 0, 0], [0, 0, 0]], roots := [1],
    passes := [] }

def cfg6 : Cfg := { penalty := 0, pruning := 3, nbest := 1, maxStep := 100 }

/-- `(N ⇒ S/N) N ⇒ S` over the two leaves tagged 2 -/
def d6 : Deriv := .bin 1 0 true (.un 0 0 (.leaf 0 2)) (.leaf 1 2)

theorem sentOK6 : SentOK s6 := by simp [SentOK, s6]

theorem inv6 : Inv' G6 gst6 := gr_inv_empty G6 [cSN, cS] (by decide)

theorem results6 : (runLWith pickFirstMax G6 gst6 s6 cfg6).1.results.map Item.prio = [-1] := by
  decide +kernel

theorem licensed6 : LicensedRoot (view (runLWith pickFirstMax G6 gst6 s6 cfg6).2) s6 cfg6 d6 := by
  refine ⟨?_, rfl, rfl, by decide⟩
  refine Licensed.bin 1 0 true _ _ ?_ ?_ rfl (by decide +kernel)
  · refine Licensed.un 0 0 _ ?_ (by decide +kernel) (by decide)
    exact Licensed.leaf 0 2 10 (by decide) (by decide +kernel)
  · exact Licensed.leaf 1 2 (-1) (by decide) (by decide +kernel)

theorem score6 : modelScore s6 cfg6 d6 = 9 := by decide +kernel

end LzCounter

open LzCounter in
theorem lazy_eq_final_original_false : ¬ LazyEqFinalStatement := by
  intro h
  have h1 := (h pickFirstMax G3 gst3 s3 cfg3 [.un 1]).2.2.1
  rw [steps3.1, steps3.2] at h1
  exact absurd h1 (by decide)

open LzCounter in
theorem lazy_shipped_optimal_original_false : ¬ LazyShippedOptimalStatement := by
  intro h
  have h1 := h pickFirstMax seen6 table6 true gst6 s6 cfg6 pickFirstMax_ok sentOK6 (by decide) rfl inv6
  have hres := results6
  cases hr : (runLWith pickFirstMax G6 gst6 s6 cfg6).1.results with
  | nil => rw [hr] at hres; cases hres
  | cons t rest =>
    rw [hr] at hres
    have h2 := h1 t rest hr d6 licensed6
    rw [score6] at h2
    have ht : t.prio = -1 := by
      simp only [List.map_cons, List.cons.injEq] at hres
      exact hres.1
    omega

end Depccg.LazyProps
