/-
  C05  Category text and category values round-trip: the definitions and the statements
  (moved verbatim from Props/C05.lean so that the lemma file can import them).
-/
import Depccg.Cat

namespace Depccg.C05
open Depccg Cat Str

/-! ### well-formed values -/

def plainChar (c : Nat) : Bool := !Cat.isSpecial c && c != cSpace

/-- a non-empty string without blanks and without the nine characters the tokenizer isolates -/
def PlainTok (s : Str) : Prop := s ≠ [] ∧ ∀ c ∈ s, plainChar c = true

/-- a key or value of a three-part feature: may be empty, no `=`/`,`, plain characters only -/
def TriPart (s : Str) : Prop := ∀ c ∈ s, plainChar c = true ∧ c ≠ cEq ∧ c ≠ cComma

def WFFeat : Feat → Prop
  | .un none => True
  | .un (some v) => PlainTok v ∧ ¬ (hasChar cEq v = true ∧ hasChar cComma v = true)
  | .tri k1 v1 k2 v2 k3 v3 => TriPart k1 ∧ TriPart v1 ∧ TriPart k2 ∧ TriPart v2 ∧ TriPart k3 ∧ TriPart v3

/-- the category values the property quantifies over: every atom name is a plain token, every
    feature prints to one plain token that reads back as the same kind of feature, slashes are
    `/ \ |`, and the nine punctuation atoms (which the reader never gives a feature) have none -/
def WF : Cat → Prop
  | .atom b f => PlainTok b ∧ WFFeat f ∧ (b ∈ Cat.punctuations → f = .un none)
  | .fn l s r => WF l ∧ Cat.isSlashCode s = true ∧ WF r

/-! ### well-formed text, at the level of tokens -/

mutual
/-- an operand: an atom (with or without feature), or any expression wrapped in `( )` or `< >` -/
inductive Operand : List Str → Cat → Prop
  | bare (b : Str) : PlainTok b → Operand [b] (.atom b (.un none))
  | feat (b : Str) (f : Feat) : PlainTok b → b ∉ Cat.punctuations → WFFeat f → f ≠ .un none →
      Operand [b, [cLBr], f.str, [cRBr]] (.atom b f)
  | round (ts : List Str) (c : Cat) : Expr ts c → Operand ([cLPar] :: ts ++ [[cRPar]]) c
  | angle (ts : List Str) (c : Cat) : Expr ts c → Operand ([cLt] :: ts ++ [[cGt]]) c
/-- an expression: one operand, or two operands around exactly one slash -/
inductive Expr : List Str → Cat → Prop
  | op (ts : List Str) (c : Cat) : Operand ts c → Expr ts c
  | bin (t1 t2 : List Str) (a b : Cat) (s : Nat) : Operand t1 a → Cat.isSlashCode s = true →
      Operand t2 b → Expr (t1 ++ [s] :: t2) (.fn a s b)
end

/-- `text` spells the token list: the tokens in order, any number of blanks before, between and
    after them, and at least one blank between two adjacent plain tokens -/
inductive Spells : List Str → Str → Prop
  | nil (k : Nat) : Spells [] (List.replicate k cSpace)
  | special (k : Nat) (c : Nat) (ts : List Str) (rest : Str) : Cat.isSpecial c = true →
      Spells ts rest → Spells ([c] :: ts) (List.replicate k cSpace ++ c :: rest)
  | plain (k : Nat) (t : Str) (ts : List Str) (rest : Str) : PlainTok t →
      (rest = [] ∨ ∃ c r, rest = c :: r ∧ plainChar c = false) →
      Spells ts rest → Spells (t :: ts) (List.replicate k cSpace ++ t ++ rest)

/-! ### the theorems -/

/-- printing any well-formed category and parsing the text back gives the same category -/
def ParsePrintStatement : Prop := ∀ c : Cat, WF c → Cat.parse c.str = .ok c

/-- the printed text is a well-formed text of the value (so the next theorem applies to it) -/
def DenotesPrintStatement : Prop := ∀ c : Cat, WF c → Expr (Cat.tokenize c.str) c

/-- any well-formed text of a value - arbitrary redundant round or angle brackets around
    operands and expressions, blanks anywhere between tokens - reads to that value: brackets
    and blanks never change the value.  Together with `parse_print`, printing the value read
    gives the canonical text of the same value, i.e. the same text up to brackets and blanks. -/
def ParseDenotesStatement : Prop :=
  ∀ (ts : List Str) (c : Cat) (text : Str), Expr ts c → Spells ts text → Cat.parse text = .ok c

/-- associativity is never guessed: three operands around two slashes at one level are rejected,
    at top level ... -/
def RejectFlatTopStatement : Prop :=
  ∀ (t1 t2 t3 : List Str) (a b c : Cat) (s1 s2 : Nat) (text : Str),
    Operand t1 a → Operand t2 b → Operand t3 c → Cat.isSlashCode s1 = true → Cat.isSlashCode s2 = true →
    Spells (t1 ++ [s1] :: t2 ++ [s2] :: t3) text → Cat.parse text = .error .runtime

/-- ... and inside brackets, whatever follows -/
def RejectFlatInnerStatement : Prop :=
  ∀ (t1 t2 t3 pre post : List Str) (a b c : Cat) (s1 s2 : Nat) (o cl : Nat) (text : Str),
    Operand t1 a → Operand t2 b → Operand t3 c → Cat.isSlashCode s1 = true → Cat.isSlashCode s2 = true →
    (o = cLPar ∨ o = cLt) → (cl = cRPar ∨ cl = cGt) →
    (∀ t ∈ pre, t = [cLPar] ∨ t = [cLt]) →
    Spells (pre ++ [o] :: (t1 ++ [s1] :: t2 ++ [s2] :: t3) ++ [cl] :: post) text →
    Cat.parse text = .error .assertion

end Depccg.C05
