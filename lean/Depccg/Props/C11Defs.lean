/-
  C11  Batch results align with inputs and do not depend on batch history.
  Definitions and statements.

  What "history" can change in the real glue (parsing.pyx) is only the numbering of the
  categories that are not in the lexical list: the category table is append-only and the rule
  cache is keyed by those numbers.  `Renamed` relates two id-level views of one grammar that
  differ by an injective renumbering fixing the lexical ids; the refinement theorem says the
  search commutes with the renumbering, so decoded results are identical.
-/
import Depccg.Glue
import Depccg.Search

namespace Depccg.C11
open Depccg Search Glue

/-! ### chunking and the batch driver -/

/-- chunking loses, duplicates and reorders nothing -/
def ChunksConcatStatement : Prop :=
  ∀ {α : Type} (l : List α) (k : Nat) (cs : List (List α)), chunks l k = .ok cs → cs.flatten = l

/-- at most `max k 1` chunks, none of them empty -/
def ChunksCountStatement : Prop :=
  ∀ {α : Type} (l : List α) (k : Nat) (cs : List (List α)), chunks l k = .ok cs →
    cs.length ≤ max k 1 ∧ ∀ c ∈ cs, c ≠ []

/-- only an empty list cannot be chunked -/
def ChunksTotalStatement : Prop :=
  ∀ {α : Type} (l : List α) (k : Nat), l ≠ [] → ∃ cs, chunks l k = .ok cs

/-- one result per sentence, in input order, whatever the chunk size and the number of
    processes: the batch driver is `map solo` -/
def RunBatchStatement : Prop :=
  ∀ {σ ρ : Type} (solo : σ → ρ) (doc : List σ) (maxChunk procs : Nat),
    runBatch solo doc maxChunk procs = .ok (doc.map solo)

/-- inputs whose shapes do not fit are rejected (and `typeCheck` is a function of the shapes
    alone: nothing has been parsed when it answers) -/
def ShapeRejectedStatement : Prop :=
  ∀ (numCats nDocs nScores : Nat) (sents : List Shapes),
    (nDocs ≠ nScores ∨ ∃ s ∈ sents, s.tag ≠ (s.tokens, numCats) ∨ s.dep ≠ (s.tokens, s.tokens + 1)) →
    typeCheck numCats nDocs nScores sents = .error .runtime

def ShapeAcceptedStatement : Prop :=
  ∀ (numCats n : Nat) (sents : List Shapes),
    (∀ s ∈ sents, s.tag = (s.tokens, numCats) ∧ s.dep = (s.tokens, s.tokens + 1)) →
    typeCheck numCats n n sents = .ok ()

/-! ### independence of the numbering of derived categories -/

def renameRule (σ : Nat → Nat) (r : Rule) : Rule := ⟨σ r.cat, r.headLeft⟩

def renameDeriv (σ : Nat → Nat) : Deriv → Deriv
  | .leaf t c => .leaf t (σ c)
  | .un c rid d => .un (σ c) rid (renameDeriv σ d)
  | .bin c rid hl l r => .bin (σ c) rid hl (renameDeriv σ l) (renameDeriv σ r)

def renameItem (σ : Nat → Nat) (it : Item) : Item :=
  { it with cat := σ it.cat, d := renameDeriv σ it.d }

/-- two id-level views of the same grammar and sentence: `σ` is injective and fixes the lexical
    ids (the columns of the tag matrix) -/
structure Renamed (σ : Nat → Nat) (g g' : Grammar) (s s' : Sent) : Prop where
  inj : ∀ a b, σ a = σ b → a = b
  lex : ∀ row ∈ s.tags, ∀ c, c < row.length → σ c = c
  bin : ∀ x y, g'.bin (σ x) (σ y) = (g.bin x y).map (renameRule σ)
  un : ∀ x, g'.un (σ x) = (g.un x).map σ
  n : s'.n = s.n
  tags : s'.tags = s.tags
  deps : s'.deps = s.deps
  passes : s'.passes = s.passes
  roots : ∀ c, s'.roots.elem (σ c) = s.roots.elem c

/-- the search commutes with the renumbering: same status, same number of steps, and results /
    pop trace equal up to the renumbering — so the trees decoded from them are identical -/
def RunRenameStatement : Prop :=
  ∀ (σ : Nat → Nat) (g g' : Grammar) (s s' : Sent) (cfg : Cfg), Renamed σ g g' s s' →
    (run g' s' cfg).results = (run g s cfg).results.map (renameItem σ) ∧
    (run g' s' cfg).popped = (run g s cfg).popped.map (renameItem σ) ∧
    (run g' s' cfg).steps = (run g s cfg).steps

end Depccg.C11
