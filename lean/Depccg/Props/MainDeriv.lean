/-
  `--format deriv` at the level of the whole output: the reader `Read.decBlockDoc`
  (Depccg/Read/BlockDoc.lean) splits the text that `to_string(…, 'deriv')` / `print_` emits into its
  records — sentence number, score text, block — one per returned tree, in order; a printed
  derivation is a block, and every block is read back by the derivation reader `Read.decDeriv`.
  Statements: Depccg/Props/MainDerivDefs.lean; helper lemmas: Depccg/Proofs/MainDerivLemmas.lean.
-/
import Depccg.Props.MainDerivDefs
import Depccg.Props.C07Deriv
import Depccg.Proofs.MainDerivLemmas

namespace Depccg.CliProps
open Depccg Str Search GlueRun Lazy Print Cli LazyProps Read C07 TextProps

/-- the text of `to_string(batch, format)` for a format that prints blocks is read back record by
    record -/
theorem block_doc_decode : BlockDocDecodeStatement := by
  intro fmt batch text h hp
  obtain ⟨out, hf, hrun⟩ := md_run_doc fmt batch text h hp
  have := hrun [] rfl
  rw [List.append_nil] at this
  exact ⟨out, this, hf⟩

/-- a printed derivation is a block: the two header lines, then a rule line and a category line per
    internal node, all non-empty, each ended by its newline -/
theorem deriv_is_block : DerivIsBlockStatement := by
  intro t s hc ht hy hs
  have ht' : AllToks (fun tok => ∃ w, Token.get? tok (lit "word") = some w) t :=
    dd_allToks_weaken t ht
  have hF := dd_cw_fields t hc ht
  obtain ⟨hf1, hf2⟩ := dd_header_fields (dd_cw t)
    (fun p hp => ⟨⟨(hF p hp).1.1, (hF p hp).1.noSp⟩, (hF p hp).2.1, (hF p hp).2.noSp⟩)
  obtain ⟨hn1, hn2⟩ := dd_header_noNL (dd_cw t) (fun p hp => ⟨(hF p hp).1.noNL, (hF p hp).2.noNL⟩)
  have hne : dd_cw t ≠ [] := md_dd_cw_ne t
  have he1 : rstripSp (derivHeader (dd_cw t)).1 ≠ [] :=
    md_rstrip_ne _ (by rw [hf1]; simpa using hne)
  have he2 : rstripSp (derivHeader (dd_cw t)).2 ≠ [] :=
    md_rstrip_ne _ (by rw [hf2]; simpa using hne)
  refine ⟨rstripSp (derivHeader (dd_cw t)).1 :: rstripSp (derivHeader (dd_cw t)).2 :: dd_lines t 0,
    by simp, ?_, ?_⟩
  · intro l hl
    simp only [List.mem_cons] at hl
    rcases hl with rfl | rfl | hl
    · exact ⟨he1, dd_rstrip_noNL _ hn1⟩
    · exact ⟨he2, dd_rstrip_noNL _ hn2⟩
    · exact md_dd_lines_ok t 0 hc hy l hl
  · rw [dd_derivOf t s ht' hs, md_ruleLines_text]
    show _ = blockText _
    rw [md_blockText_cons, md_blockText_cons]

/-- what `main` prints under `--format deriv` (the text of `to_string` and the newline of `print`)
    is read back: one record per returned tree, named by sentence, with its score text, and the
    block is read by `decDeriv` to the words, shape, categories and rule symbols of the tree -/
theorem main_deriv_reads_back : MainDerivReadsBackStatement := by
  intro results text hok hp
  have hp' : (match toStringLines derivOf false (results.map scored) with
      | .error e => Except.error e
      | .ok s => Except.ok (s ++ [10])) = Except.ok text := hp
  cases ht : toStringLines derivOf false (results.map scored) with
  | error e => rw [ht] at hp'; cases hp'
  | ok t0 =>
    rw [ht] at hp'
    cases hp'
    have hb : ∀ ts ∈ results.map scored, ∀ p ∈ ts,
        10 ∉ p.2 ∧ ∀ s, derivOf p.1 = .ok s → IsBlock s := by
      intro ts hts p hpm
      obtain ⟨r, hr, rfl⟩ := List.mem_map.1 hts
      obtain ⟨h1, h2, h3⟩ := hok r hr p hpm
      exact ⟨mc_scored_no10 r p hpm, fun s hs => deriv_is_block p.1 s h1 h2 h3 hs⟩
    obtain ⟨out, hf, hrun⟩ := md_run_doc derivOf (results.map scored) t0 hb ht
    have hall : ∀ p ∈ numbered (results.map scored),
        AllCats (fun c => Field c.str) p.2.1 ∧
        AllToks (fun tok => ∃ w, Token.get? tok (lit "word") = some w ∧ Field w) p.2.1 ∧
        SymsOK p.2.1 := by
      intro p hp
      obtain ⟨ts, hts, hm⟩ := FileProps.fl_numbered_mem _ p hp
      obtain ⟨r, hr, rfl⟩ := List.mem_map.1 hts
      exact hok r hr p.2 hm
    have := hrun [[]] rfl
    refine ⟨out, ?_, ?_⟩
    · rw [decBlockDoc, C08.splitOn_append_sep, FileProps.fl_splitOn_nil, this]
    · exact md_forall2_imp hf (fun p hp r hpr => by
        obtain ⟨h1, h2, h3⟩ := hall p hp
        exact ⟨hpr.1, hpr.2.1, deriv_decode p.2.1 r.2.2 h1 h2 h3 hpr.2.2⟩)

/-! ### evaluated: two sentences, the first with two trees, the second failed (the placeholder,
  score text `-inf`), printed in the `deriv` format -/

section examples

private def bN : Cat := .atom (lit "N") (.un none)
private def bNP : Cat := .atom (lit "NP") (.un none)
private def bS : Cat := .atom (lit "S") (.un (some (lit "dcl")))
private def bVP : Cat := .fn bS cBSlash bNP

private def bSleeps : Tree :=
  .leaf bVP [(lit "word", lit "sleeps"), (lit "lemma", lit "sleep"), (lit "pos", lit "VBZ")]
    (lit "lex") (lit "<lex>")

private def bTree1 : Tree :=
  .bin bS (lit "ba") (lit "<") false (.leaf bNP [(lit "word", lit "Kim")] (lit "lex") (lit "<lex>")) bSleeps

private def bTree2 : Tree :=
  .bin bS (lit "ba") (lit "<") true
    (.un bNP (lit "lex") (lit "<un>") (.leaf bN [(lit "word", lit "Kim")] (lit "lex") (lit "<lex>"))) bSleeps

private def bResults : List SentResult := [.parsed [(bTree1, -32), (bTree2, -100)], .failed]

private def bBlock1 : Str := lit " NP   S[dcl]\\NP\n Kim   sleeps\n----------------<\n     S[dcl]\n"
private def bBlock2 : Str :=
  lit "  N   S[dcl]\\NP\n Kim   sleeps\n-----<un>\n NP\n----------------<\n     S[dcl]\n"
private def bBlock3 : Str := lit "   NP\n FAILED\n"

private def bText : Str :=
  lit "ID=1, log probability=-0.50000000\n" ++ bBlock1 ++ lit "\n" ++
  lit "ID=1, log probability=-1.56250000\n" ++ bBlock2 ++ lit "\n" ++
  lit "ID=2, log probability=-inf\n" ++ bBlock3 ++ lit "\n" ++
  lit "\n"

/-- the reader, run on the text the program prints for the batch; the blocks read back as
    derivations -/
example : printText Fmt.deriv bResults = .ok bText ∧
    decBlockDoc bText =
      some [(1, lit "-0.50000000", bBlock1), (1, lit "-1.56250000", bBlock2), (2, lit "-inf", bBlock3)] ∧
    decDeriv bBlock2 = some (viewDeriv bTree2) := by
  decide +kernel

/-- the reader is strict: text before the first record, a header without a block (at an empty line
    or at the end of the text), a block that is not closed by an empty line are rejected; a line
    inside a block that looks like a header is a line of the block; empty lines between the records
    and at the end are skipped -/
example : decBlockDoc (lit "x\nID=1, log probability=0\na\n\n") = none := by decide +kernel
example : decBlockDoc (lit "ID=1, log probability=0\n\na\n\n") = none := by decide +kernel
example : decBlockDoc (lit "ID=1, log probability=0") = none := by decide +kernel
example : decBlockDoc (lit "ID=1, log probability=0\na\nb") = none := by decide +kernel
example : decBlockDoc (lit "ID=1 log probability=0\na\n\n") = none := by decide +kernel
example : decBlockDoc (lit "\n\nID=1, log probability=0\na\nID=7, log probability=1\n\n\n\nID=2, log probability=\nb\n\n\n") =
    some [(1, lit "0", lit "a\nID=7, log probability=1\n"), (2, [], lit "b\n")] := by
  decide +kernel
example : decBlockDoc [] = some [] := by decide +kernel

end examples

end Depccg.CliProps
