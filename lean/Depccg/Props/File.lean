/-
  File-level round trips: text written by `to_string` (AUTO, PTB) or one `ja_of` line per tree
  (Japanese bank) read back by `read_auto` / `read_ptb` / `read_ccgbank`
  (models: Depccg/Read/File.lean).
  Property theorems only; the statements are in Depccg/Props/FileDefs.lean, helper lemmas in
  Depccg/Proofs/FileLemmas.lean.
-/
import Depccg.Props.FileDefs
import Depccg.Proofs.FileLemmas

namespace Depccg.FileProps
open Depccg Str Print Read TextProps C20

/-! ### `strip` -/

/-- `strip` leaves a string alone whose first and last characters are not white space -/
theorem strip_noop : StripNoopStatement := fl_strip_noop

/-- white space only strips to the empty string -/
theorem strip_blank : StripBlankStatement := fl_strip_blank

/-- the stripped string neither starts nor ends with white space; `strip` is idempotent -/
theorem strip_ends : StripEndsStatement :=
  fun s => ⟨fl_strip_head s, fl_strip_last s, fl_strip_idem s⟩

/-! ### the round trips -/

/-- AUTO text written by `to_string` is read by `read_auto` to one result per tree, in order,
    each named by its own header line and carrying the image of `C08.auto_roundtrip` -/
theorem auto_file_roundtrip : AutoFileRoundtripStatement := by
  intro lang batch text hok h
  rw [fl_readAutoFile_split]
  refine fl_auto_records lang (numbered batch) text ?_ h none
  intro p hp
  obtain ⟨trees, htr, hmem⟩ := fl_numbered_mem batch p hp
  exact hok trees htr p.2 hmem

/-- the same for PTB text and `read_ptb`, with the image of `C20.ptb_roundtrip` -/
theorem ptb_file_roundtrip : PtbFileRoundtripStatement := by
  intro lang batch text hok h
  rw [fl_readPtbFile_split]
  refine fl_ptb_records lang (numbered batch) text ?_ h 0 none
  intro p hp
  obtain ⟨trees, htr, hmem⟩ := fl_numbered_mem batch p hp
  exact hok trees htr p.2 hmem

/-- Japanese lines are read back in order, the `i`-th named `i` -/
theorem ja_file_roundtrip : JaFileRoundtripStatement := fl_ja_file

/-- `mapExcept f xs = .ok ys` : `ys` is `xs` through `f`, position by position -/
theorem mapexcept_spec : MapExceptSpecStatement := fun f xs ys => fl_mapExcept_spec f xs ys

/-- the expected results, position by position -/
theorem file_image_pointwise : FileImagePointwiseStatement := fl_fileImage_pointwise

/-- sufficient conditions for `ScoreOK` -/
theorem score_ok : ScoreOKStatement := ⟨fl_scoreOK_of_plain, fl_scoreOK_of_all⟩

/-! ### a tree line before any `ID` line -/

/-- `read_auto` raises (unbound `name`) on a text whose first non-empty line is a tree line -/
theorem auto_file_needs_id : AutoFileNeedsIdStatement := fl_auto_needs_id

/-- `read_ptb` names such a tree `ID=<index of its line>` -/
theorem ptb_file_default_name : PtbFileDefaultNameStatement := fl_ptb_default_name

/-! ### the hypotheses are satisfiable; the theorems evaluated on a concrete batch

  two sentences, two trees (n-best) for the first one:
  `John sleeps` (score -0.5), a unary tree over the word `(` (score -1.25); `Mary` (score -0.125) -/

section examples

def exA : Tree := exEn
def exB : Tree :=
  .un exS (lit "lex") (lit "<un>") (.leaf exNP [(lit "word", lit "("), (lit "pos", lit "NN")] [] [])
def exC : Tree := .leaf exNP (Token.ofWord (lit "Mary")) [] []

def exBatch : List (List (Tree × Str)) :=
  [[(exA, lit "-0.5"), (exB, lit "-1.25")], [(exC, lit "-0.125")]]

def exAutoText : Str := lit
  ("ID=1, log probability=-0.5\n" ++
   "(<T S[dcl] 1 2> (<L NP XX XX John NP>) (<L S[dcl]\\NP XX XX sleeps S[dcl]\\NP>) )\n" ++
   "ID=1, log probability=-1.25\n" ++
   "(<T S[dcl] 0 1> (<L NP NN NN -LRB- NP>) )\n" ++
   "ID=2, log probability=-0.125\n" ++
   "(<L NP XX XX Mary NP>)\n")

def exPtbText : Str := lit
  ("ID=1, log probability=-0.5\n" ++
   "(ROOT (S[dcl] (NP John) (S[dcl]\\NP sleeps)))\n" ++
   "ID=1, log probability=-1.25\n" ++
   "(ROOT (S[dcl] (NP -LRB-)))\n" ++
   "ID=2, log probability=-0.125\n" ++
   "(ROOT (NP Mary))\n")

theorem exS_ok : CatOK exS := ⟨exS_wf, by decide, by decide⟩
theorem exNP_ok : CatOK exNP := ⟨exNP_wf, by decide, by decide⟩

theorem exA_auto : AutoTreeOK .en exA := by
  refine ⟨exEn_cats, exEn_sys, ⟨⟨_, rfl⟩, ?_⟩, ⟨⟨_, rfl⟩, ?_⟩⟩ <;> (simp only [PlainWord]; decide)
theorem exB_auto : AutoTreeOK .en exB := by
  refine ⟨⟨exS_ok, exNP_ok⟩, ⟨trivial, trivial⟩, ⟨_, rfl⟩, ?_⟩
  simp only [PlainWord]; decide
theorem exC_auto : AutoTreeOK .en exC := by
  refine ⟨exNP_ok, trivial, ⟨_, rfl⟩, ?_⟩
  simp only [PlainWord]; decide

theorem exA_ptb : PtbTreeOK .en exA := ⟨exEn_cats, exEn_sys, exEn_toks⟩
theorem exB_ptb : PtbTreeOK .en exB :=
  ⟨⟨exS_ok, exNP_ok⟩, ⟨trivial, trivial⟩, lit "(", by decide, ⟨by decide, by decide⟩, by decide, by decide⟩
theorem exC_ptb : PtbTreeOK .en exC :=
  ⟨exNP_ok, trivial, lit "Mary", by decide, ⟨by decide, by decide⟩, by decide, by decide⟩

theorem exBatch_ok {p : Tree → Prop} (hA : p exA) (hB : p exB) (hC : p exC) : BatchOK p exBatch := by
  intro trees htr ts hts
  simp only [exBatch, List.mem_cons, List.not_mem_nil, or_false] at htr
  rcases htr with rfl | rfl
  · simp only [List.mem_cons, List.not_mem_nil, or_false] at hts
    rcases hts with rfl | rfl
    · exact ⟨hA, score_ok.2 _ (by decide)⟩
    · exact ⟨hB, score_ok.2 _ (by decide)⟩
  · simp only [List.mem_cons, List.not_mem_nil, or_false] at hts
    subst hts
    exact ⟨hC, score_ok.2 _ (by decide)⟩

/-- the printed texts, evaluated -/
theorem exAuto_printed : toStringLines autoOf false exBatch = .ok exAutoText := by decide +kernel
theorem exPtb_printed : toStringLines ptbOf false exBatch = .ok exPtbText := by decide +kernel

/-- read back, by the theorems … -/
example : ∃ rs, fileImage (autoImage .en) exBatch = .ok rs ∧ readAutoFile .en exAutoText = .ok rs :=
  auto_file_roundtrip .en exBatch exAutoText (exBatch_ok exA_auto exB_auto exC_auto) exAuto_printed

example : ∃ rs, fileImage (ptbImage .en) exBatch = .ok rs ∧ readPtbFile .en exPtbText = .ok rs :=
  ptb_file_roundtrip .en exBatch exPtbText (exBatch_ok exA_ptb exB_ptb exC_ptb) exPtb_printed

/-- … and by evaluation: the results are the images, and both trees of the first sentence carry
    the sentence number 1 -/
example : readAutoFile .en exAutoText = fileImage (autoImage .en) exBatch := by decide +kernel
example : readPtbFile .en exPtbText = fileImage (ptbImage .en) exBatch := by decide +kernel

example : (readAutoFile .en exAutoText).map (fun rs => rs.map (·.1)) =
    .ok [lit "ID=1, log probability=-0.5", lit "ID=1, log probability=-1.25",
         lit "ID=2, log probability=-0.125"] := by decide +kernel
example : (readPtbFile .en exPtbText).map (fun rs => rs.map (·.1)) =
    .ok [lit "ID=1, log probability=-0.5", lit "ID=1, log probability=-1.25",
         lit "ID=2, log probability=-0.125"] := by decide +kernel

/-- the image of the second tree of the first sentence: the word `(` in its escaped spelling -/
example : (readAutoFile .en exAutoText).map (fun rs => rs.map (·.2.2)) =
    .ok [.bin exS (lit "ba") (lit "<") false
           (Tree.mkTerminal (autoToken (lit "John") (lit "XX") (lit "XX")) exNP)
           (Tree.mkTerminal (autoToken (lit "sleeps") (lit "XX") (lit "XX")) exVP),
         Tree.mkUnary exS (Tree.mkTerminal (autoToken (lit "-LRB-") (lit "NN") (lit "NN")) exNP),
         Tree.mkTerminal (autoToken (lit "Mary") (lit "XX") (lit "XX")) exNP] := by decide +kernel

/-! #### `ScoreOK` is needed: a score text that is a `PlainWord` but ends in a no-break space -/

/-- `-0.5` followed by U+00A0 -/
def exBadScore : Str := lit "-0.5" ++ [160]

theorem exBadScore_plain : PlainWord exBadScore := by simp only [PlainWord]; decide

/-- the name read back is not the header written: `strip` removed the last character -/
theorem score_trailing_space_changes_name :
    toStringLines autoOf false [[(exC, exBadScore)]] =
      .ok (header false 1 exBadScore ++ [10] ++ lit "(<L NP XX XX Mary NP>)" ++ [10]) ∧
    (readAutoFile .en (header false 1 exBadScore ++ [10] ++ lit "(<L NP XX XX Mary NP>)" ++ [10])).map
        (fun rs => rs.map (·.1)) = .ok [lit "ID=1, log probability=-0.5"] ∧
    header false 1 exBadScore ≠ lit "ID=1, log probability=-0.5" := by decide +kernel

/-! #### no `ID` line -/

/-- two blank lines (one empty, one of a blank and a tab), then a tree line -/
example : readAutoFile .en (lit "\n \t\n(<L NP XX XX Mary NP>)\nID=7\n") = .error .runtime :=
  auto_file_needs_id .en [[], [32, 9]] exC (lit "(<L NP XX XX Mary NP>)") (lit "\nID=7\n")
    (by decide) exC_auto (by decide +kernel) (Or.inr (by decide))

example : readAutoFile .en (lit "\n \t\n(<L NP XX XX Mary NP>)\nID=7\n") = .error .runtime := by
  decide +kernel

/-- `read_ptb` names the tree by the index of its line (2) -/
example : ∃ t', ptbImage .en exC = .ok t' ∧
    readPtbFile .en (lit "\n \t\n(ROOT (NP Mary))\n") = .ok [(lit "ID=2", t'.tokens, t')] :=
  ptb_file_default_name .en [[], [32, 9]] exC (lit "(ROOT (NP Mary))") [10]
    (by decide) exC_ptb (by decide +kernel) (Or.inr rfl)

example : (readPtbFile .en (lit "\n \t\n(ROOT (NP Mary))\n")).map (fun rs => rs.map (·.1)) =
    .ok [lit "ID=2"] := by decide +kernel

/-- with an `ID` line in front the tree is named by that line, not by its index -/
example : (readPtbFile .en (lit "ID=7\n\n(ROOT (NP Mary))\n(ROOT (NP Mary))")).map
    (fun rs => rs.map (·.1)) = .ok [lit "ID=7", lit "ID=7"] := by decide +kernel

/-! #### Japanese bank -/

def exJaLeaf : Tree := .leaf exJaNP exJaTok1 [] []

def exJaText : Str := lit
  ("{< S[mod=nm,form=base,fin=t] {NP[case=ga,mod=nm,fin=f] 猫/猫/名詞-一般/_} " ++
   "{S[mod=nm,form=base,fin=t]\\NP[case=ga,mod=nm,fin=f] 寝る/寝る/動詞/基本形-一段}}\n" ++
   "{NP[case=ga,mod=nm,fin=f] 猫/猫/名詞-一般/_}")

theorem exJa_ok : JaTreeOK exJa ∧ JaNoNL exJa :=
  ⟨⟨exJa_cats, exJa_toks, exJa_infl, exJa_sym⟩,
   ⟨(by decide +kernel : 10 ∉ exJaS.str), (by decide +kernel : 10 ∉ exJaNP.str),
    (by decide +kernel : 10 ∉ exJaVP.str)⟩,
   ⟨by decide +kernel, by decide +kernel⟩, ⟨by decide +kernel, by decide +kernel⟩⟩

theorem exJaLeaf_ok : JaTreeOK exJaLeaf ∧ JaNoNL exJaLeaf :=
  ⟨⟨exJaNP_ok, exJa_toks.1, exJa_infl.1, trivial⟩,
   (by decide +kernel : 10 ∉ exJaNP.str), ⟨by decide +kernel, by decide +kernel⟩⟩

theorem exJaTrees_ok : ∀ t ∈ [exJa, exJaLeaf], JaTreeOK t ∧ JaNoNL t := by
  intro t ht
  simp only [List.mem_cons, List.not_mem_nil, or_false] at ht
  rcases ht with rfl | rfl
  · exact exJa_ok
  · exact exJaLeaf_ok

/-- joined by a newline (no final newline): by the theorem … -/
example : ∃ rs, readJaFile exJaText = .ok rs ∧ Forall2 JaResultOK [(exJa, 0), (exJaLeaf, 1)] rs :=
  ja_file_roundtrip [exJa, exJaLeaf] exJaText exJaTrees_ok (Or.inr (by decide +kernel))

/-- … every line ended by a newline … -/
example : ∃ rs, readJaFile (exJaText ++ [10]) = .ok rs ∧
    Forall2 JaResultOK [(exJa, 0), (exJaLeaf, 1)] rs :=
  ja_file_roundtrip [exJa, exJaLeaf] (exJaText ++ [10]) exJaTrees_ok (Or.inl (by decide +kernel))

/-- … and by evaluation: names and trees -/
example : (readJaFile exJaText).map (fun rs => rs.map fun r => (r.1, r.2.2)) =
    .ok [(lit "0", exJaImage),
         (lit "1", .leaf exJaNP [(lit "word", lit "猫")] (lit "lex") (lit "<lex>"))] := by
  decide +kernel

/-- an `ID` line is not understood by `read_ccgbank`: it is parsed as a tree line -/
example : readJaFile (lit "ID=1, log probability=-0.5\n" ++ exJaText) = .error .runtime := by
  decide +kernel

/-! #### `JaNoNL` is needed: a part-of-speech value with a newline inside -/

def exNlTok : Token := [(lit "word", lit "a"), (lit "pos", [120, 10, 121])]
def exNlTree : Tree := .leaf exNP exNlTok [] []

/-- the line-level hypotheses hold … -/
theorem exNlTree_ok : JaTreeOK exNlTree :=
  ⟨⟨exNP_wf, by decide, by decide⟩,
   ⟨⟨lit "a", by decide, ⟨by decide, by decide⟩, by decide⟩, by decide, by decide⟩,
   (by decide : JaInflOK exNlTok), trivial⟩

/-- … the printed "line" reads back as a line, but as a file it is two lines and the reader
    raises -/
theorem ja_newline_breaks_file :
    jaOf exNlTree = .ok (lit "{NP a/a/x\ny/_}") ∧
    (readJaLine (lit "{NP a/a/x\ny/_}")).map (·.1) =
      .ok (.leaf exNP [(lit "word", lit "a")] (lit "lex") (lit "<lex>")) ∧
    readJaFile (lit "{NP a/a/x\ny/_}") = .error .valueError := by decide +kernel

end examples

end Depccg.FileProps
