/-
  C07, `deriv` format: the independent reader `Read.decDeriv` reads back every printed derivation
  (words, shape, leaf and node categories, rule symbols); hence trees with the same printed
  derivation have the same view.   Statements: Depccg/Props/C07DerivDefs.lean; helper lemmas:
  Depccg/Proofs/C07DerivLemmas.lean.
-/
import Depccg.Props.C07DerivDefs
import Depccg.Props.C07
import Depccg.Proofs.C07DerivLemmas

namespace Depccg.C07
open Depccg Str Print Read TextProps

/-- every printed derivation reads back to the view of the tree -/
theorem deriv_decode : DerivDecodeStatement := by
  intro t s hc ht hy hs
  have ht' : AllToks (fun tok => ∃ w, Token.get? tok (lit "word") = some w) t :=
    dd_allToks_weaken t ht
  have hF := dd_cw_fields t hc ht
  obtain ⟨hf1, hf2⟩ := dd_header_fields (dd_cw t)
    (fun p hp => ⟨⟨(hF p hp).1.1, (hF p hp).1.noSp⟩, (hF p hp).2.1, (hF p hp).2.noSp⟩)
  obtain ⟨hn1, hn2⟩ := dd_header_noNL (dd_cw t) (fun p hp => ⟨(hF p hp).1.noNL, (hF p hp).2.noNL⟩)
  have hsplit : splitOn 10 s = rstripSp (derivHeader (dd_cw t)).1 :: rstripSp (derivHeader (dd_cw t)).2 ::
      (dd_lines t 0 ++ [[]]) := by
    rw [dd_derivOf t s ht' hs, C05.splitOn_sep 10 _ _ (dd_rstrip_noNL _ hn1),
      C05.splitOn_sep 10 _ _ (dd_rstrip_noNL _ hn2)]
    have := dd_split_ruleLines t 0 [] hc hy
    rw [List.append_nil] at this
    rw [this]
    rfl
  have hred := dd_reduceAll_tree t 0 [] [] [[]] hc hy (by simp)
  simp only [List.nil_append, List.append_nil, Nat.zero_add] at hred
  unfold decDeriv
  simp only [hsplit, dd_fields_rstrip, hf1, hf2, dd_leafForest, hred, reduceAll, List.isEmpty_nil, if_true]

/-- two trees with the same printed derivation have the same view -/
theorem deriv_injective : DerivInjectiveStatement := by
  intro t t' s hc ht hy hc' ht' hy' hs hs'
  have h1 := deriv_decode t s hc ht hy hs
  have h2 := deriv_decode t' s hc' ht' hy' hs'
  rw [h1] at h2
  exact Option.some.inj h2

/-! ### the hypotheses are satisfiable: three words, a unary node that is the LEFT child of the
  root (its rule line does not reach the last column), a binary node below the root, an odd
  padding (`dogs` under `N`), an empty and a non-empty rule symbol -/

section examples

private def dN : Cat := .atom (lit "N") (.un none)
private def dNP : Cat := .atom (lit "NP") (.un none)
private def dS : Cat := .atom (lit "S") (.un (some (lit "dcl")))
private def dVP : Cat := .fn dS cBSlash dNP
private def dTV : Cat := .fn dVP cSlash dNP

private def dTree : Tree :=
  .bin dS (lit "ba") (lit "<") false
    (.un dNP (lit "lex") (lit "<un>") (.leaf dN (Token.ofWord (lit "dogs")) (lit "lex") (lit "<lex>")))
    (.bin dVP (lit "fa") [] true
      (.leaf dTV [(lit "word", lit "see"), (lit "pos", lit "VBP")] (lit "lex") (lit "<lex>"))
      (.leaf dNP (Token.ofWord (lit "Kim")) (lit "lex") (lit "<lex>")))

private def dText : Str := lit
  ("  N    (S[dcl]\\NP)/NP  NP\n dogs       see        Kim\n------<un>\n  NP\n" ++
   "      ---------------------\n            S[dcl]\\NP\n---------------------------<\n          S[dcl]\n")

private def dView : DView :=
  .bin (lit "S[dcl]") (lit "<")
    (.un (lit "NP") (lit "<un>") (.leaf (lit "N") (lit "dogs")))
    (.bin (lit "S[dcl]\\NP") [] (.leaf (lit "(S[dcl]\\NP)/NP") (lit "see")) (.leaf (lit "NP") (lit "Kim")))

private theorem dCats : AllCats (fun c => Field c.str) dTree := by
  simp only [dTree, AllCats, Field]; decide +kernel

private theorem dToks :
    AllToks (fun tok => ∃ w, Token.get? tok (lit "word") = some w ∧ Field w) dTree :=
  ⟨⟨lit "dogs", by decide +kernel, by simp only [Field]; decide +kernel⟩,
   ⟨lit "see", by decide +kernel, by simp only [Field]; decide +kernel⟩,
   ⟨lit "Kim", by decide +kernel, by simp only [Field]; decide +kernel⟩⟩

private theorem dSyms : SymsOK dTree := by
  simp only [dTree, SymsOK, SymOK]; decide +kernel

private theorem dPrinted : derivOf dTree = .ok dText := by decide +kernel

example : viewDeriv dTree = dView := by decide +kernel

/-- evaluated: the reader on the printed text -/
example : decDeriv dText = some dView := by decide +kernel

/-- the same by the theorem -/
example : decDeriv dText = some (viewDeriv dTree) := deriv_decode dTree dText dCats dToks dSyms dPrinted

/-- a single leaf: the text is just `cat\nword\n` -/
example : derivOf (.leaf dNP (Token.ofWord (lit "Kim")) [] []) = .ok (lit " NP\n Kim\n") ∧
    decDeriv (lit " NP\n Kim\n") = some (.leaf (lit "NP") (lit "Kim")) := by decide +kernel

end examples

end Depccg.C07
