/-
  C04  Japanese combinatory rules are sound.   Definitions and statements.
-/
import Depccg.Props.C03Defs

namespace Depccg.C04
open Depccg Cat Str
open Depccg.C03 (PartsMatch Inst fwdSlash bwdSlash)

def lab (os sym : String) (c : Cat) : RuleRes := ⟨c, lit os, lit sym, false⟩

def IsRoot (c : Cat) : Prop := c ∈ Ja.possibleRootCategories

/-- each result is justified by the schema its symbol names.  `B` = the composed-over category,
    crossed composition (`>Bx`) keeps the backward slash of the secondary functor, generalised
    composition keeps the outer slashes and arguments of the secondary functor. -/
inductive Justified (x y : Cat) : RuleRes → Prop
  | fa_mod (a b : Cat) (s : Nat) : x = .fn a s b → fwdSlash s → PartsMatch b y → a = b →
      Justified x y (lab "fa" ">" y)
  | fa (a b r : Cat) (s : Nat) : x = .fn a s b → fwdSlash s → PartsMatch b y → a ≠ b → Inst x y r a →
      Justified x y (lab "fa" ">" r)
  | ba_mod (a b : Cat) (s : Nat) : y = .fn a s b → bwdSlash s → PartsMatch x b → a = b →
      Justified x y (lab "ba" "<" x)
  | ba (a b r : Cat) (s : Nat) : y = .fn a s b → bwdSlash s → PartsMatch x b → a ≠ b → Inst x y r a →
      Justified x y (lab "ba" "<" r)
  | fc_mod (a b b' c : Cat) (s1 s2 : Nat) : x = .fn a s1 b → y = .fn b' s2 c → fwdSlash s1 → fwdSlash s2 →
      PartsMatch b b' → a = b → Justified x y (lab "fc" ">B" y)
  | fc (a b b' c ra rc : Cat) (s1 s2 : Nat) : x = .fn a s1 b → y = .fn b' s2 c → fwdSlash s1 → fwdSlash s2 →
      PartsMatch b b' → a ≠ b → Inst x y ra a → Inst x y rc c → Justified x y (lab "fc" ">B" (.fn ra cSlash rc))
  -- backward composition <B1 … <B4 : x = (…(B\C)|D…), y = A\B'
  | b1_mod (a b b' c : Cat) (s1 s2 : Nat) : x = .fn b s1 c → y = .fn a s2 b' → bwdSlash s1 → bwdSlash s2 →
      PartsMatch b b' → a = b' → Justified x y (lab "bx" "<B1" x)
  | b1 (a b b' c ra rc : Cat) (s1 s2 : Nat) : x = .fn b s1 c → y = .fn a s2 b' → bwdSlash s1 → bwdSlash s2 →
      PartsMatch b b' → a ≠ b' → Inst x y ra a → Inst x y rc c →
      Justified x y (lab "bx" "<B1" (.fn ra cBSlash rc))
  | b2_mod (a b b' c d : Cat) (s1 s2 s3 : Nat) : x = .fn (.fn b s1 c) s3 d → y = .fn a s2 b' →
      bwdSlash s1 → bwdSlash s2 → PartsMatch b b' → a = b' → Justified x y (lab "bx" "<B2" x)
  | b2 (a b b' c d ra rc rd : Cat) (s1 s2 s3 : Nat) : x = .fn (.fn b s1 c) s3 d → y = .fn a s2 b' →
      bwdSlash s1 → bwdSlash s2 → PartsMatch b b' → a ≠ b' → Inst x y ra a → Inst x y rc c → Inst x y rd d →
      Justified x y (lab "bx" "<B2" (.fn (.fn ra cBSlash rc) s3 rd))
  | b3_mod (a b b' c d e : Cat) (s1 s2 s3 s4 : Nat) : x = .fn (.fn (.fn b s1 c) s3 d) s4 e → y = .fn a s2 b' →
      bwdSlash s1 → bwdSlash s2 → PartsMatch b b' → a = b' → Justified x y (lab "bx" "<B3" x)
  | b3 (a b b' c d e ra rc rd re : Cat) (s1 s2 s3 s4 : Nat) :
      x = .fn (.fn (.fn b s1 c) s3 d) s4 e → y = .fn a s2 b' →
      bwdSlash s1 → bwdSlash s2 → PartsMatch b b' → a ≠ b' →
      Inst x y ra a → Inst x y rc c → Inst x y rd d → Inst x y re e →
      Justified x y (lab "bx" "<B3" (.fn (.fn (.fn ra cBSlash rc) s3 rd) s4 re))
  | b4_mod (a b b' c d e f : Cat) (s1 s2 s3 s4 s5 : Nat) :
      x = .fn (.fn (.fn (.fn b s1 c) s3 d) s4 e) s5 f → y = .fn a s2 b' →
      bwdSlash s1 → bwdSlash s2 → PartsMatch b b' → a = b' → Justified x y (lab "bx" "<B4" x)
  | b4 (a b b' c d e f ra rc rd re rf : Cat) (s1 s2 s3 s4 s5 : Nat) :
      x = .fn (.fn (.fn (.fn b s1 c) s3 d) s4 e) s5 f → y = .fn a s2 b' →
      bwdSlash s1 → bwdSlash s2 → PartsMatch b b' → a ≠ b' →
      Inst x y ra a → Inst x y rc c → Inst x y rd d → Inst x y re e → Inst x y rf f →
      Justified x y (lab "bx" "<B4" (.fn (.fn (.fn (.fn ra cBSlash rc) s3 rd) s4 re) s5 rf))
  -- forward crossed composition >Bx1 … >Bx3 : x = A/B, y = (…(B'\C)|D…)
  | x1_mod (a b b' c : Cat) (s1 s2 : Nat) : x = .fn a s1 b → y = .fn b' s2 c → fwdSlash s1 → bwdSlash s2 →
      PartsMatch b b' → a = b → Justified x y (lab "fx" ">Bx1" y)
  | x1 (a b b' c ra rc : Cat) (s1 s2 : Nat) : x = .fn a s1 b → y = .fn b' s2 c → fwdSlash s1 → bwdSlash s2 →
      PartsMatch b b' → a ≠ b → Inst x y ra a → Inst x y rc c →
      Justified x y (lab "fx" ">Bx1" (.fn ra cBSlash rc))
  | x2_mod (a b b' c d : Cat) (s1 s2 s3 : Nat) : x = .fn a s1 b → y = .fn (.fn b' s2 c) s3 d →
      fwdSlash s1 → bwdSlash s2 → PartsMatch b b' → a = b → Justified x y (lab "fx" ">Bx2" y)
  | x2 (a b b' c d ra rc rd : Cat) (s1 s2 s3 : Nat) : x = .fn a s1 b → y = .fn (.fn b' s2 c) s3 d →
      fwdSlash s1 → bwdSlash s2 → PartsMatch b b' → a ≠ b → Inst x y ra a → Inst x y rc c → Inst x y rd d →
      Justified x y (lab "fx" ">Bx2" (.fn (.fn ra cBSlash rc) s3 rd))
  | x3_mod (a b b' c d e : Cat) (s1 s2 s3 s4 : Nat) : x = .fn a s1 b → y = .fn (.fn (.fn b' s2 c) s3 d) s4 e →
      fwdSlash s1 → bwdSlash s2 → PartsMatch b b' → a = b → Justified x y (lab "fx" ">Bx3" y)
  | x3 (a b b' c d e ra rc rd re : Cat) (s1 s2 s3 s4 : Nat) :
      x = .fn a s1 b → y = .fn (.fn (.fn b' s2 c) s3 d) s4 e →
      fwdSlash s1 → bwdSlash s2 → PartsMatch b b' → a ≠ b →
      Inst x y ra a → Inst x y rc c → Inst x y rd d → Inst x y re e →
      Justified x y (lab "fx" ">Bx3" (.fn (.fn (.fn ra cBSlash rc) s3 rd) s4 re))
  | sseq : IsRoot x → IsRoot y → Justified x y (lab "other" "SSEQ" y)

/-- soundness: every result of the Japanese grammar is justified by the schema its symbol names -/
def JaSoundStatement : Prop :=
  ∀ (seen : Option (List (Cat × Cat))) (x y : Cat) (rs : List RuleRes),
    C14.AllTernary x → C14.AllTernary y →
    Ja.applyBinary seen x y = .ok rs → ∀ r ∈ rs, Justified x y r

/-- the head is always the right child -/
def JaHeadRightStatement : Prop :=
  ∀ (seen : Option (List (Cat × Cat))) (x y : Cat) (rs : List RuleRes),
    Ja.applyBinary seen x y = .ok rs → ∀ r ∈ rs, r.headLeft = false

def jaLabels : List (Str × Str) :=
  [(lit "fa", lit ">"), (lit "ba", lit "<"), (lit "fc", lit ">B"), (lit "bx", lit "<B1"), (lit "bx", lit "<B2"),
   (lit "bx", lit "<B3"), (lit "bx", lit "<B4"), (lit "fx", lit ">Bx1"), (lit "fx", lit ">Bx2"),
   (lit "fx", lit ">Bx3"), (lit "other", lit "SSEQ")]

def JaLabelsClosedStatement : Prop :=
  ∀ (seen : Option (List (Cat × Cat))) (x y : Cat) (rs : List RuleRes),
    Ja.applyBinary seen x y = .ok rs → ∀ r ∈ rs, (r.opString, r.opSymbol) ∈ jaLabels

/-- feature triples of a result come from the inputs -/
def JaFeaturesFromInputsStatement : Prop :=
  ∀ (seen : Option (List (Cat × Cat))) (x y : Cat) (rs : List RuleRes),
    C14.AllTernary x → C14.AllTernary y →
    Ja.applyBinary seen x y = .ok rs → ∀ r ∈ rs, ∀ f ∈ C06.feats r.cat, f ∈ C06.feats x ++ C06.feats y

/-! ### unary steps are labelled by the shape of their input -/

/-- the feature-blind shape of a category, as far as the labels look at it -/
inductive UShape where
  | s            -- S
  | s_np         -- S\NP
  | s_np_np      -- (S\NP)\NP
  | other
  deriving DecidableEq

def isBase (c : Cat) (b : String) : Bool := match c with | .atom base _ => base == lit b | _ => false

def ushape : Cat → UShape
  | .atom b _ => if b == lit "S" then .s else .other
  | .fn l s r =>
    if s == cBSlash && isBase r "NP" then
      match l with
      | .atom b _ => if b == lit "S" then .s_np else .other
      | .fn l2 s2 r2 => if s2 == cBSlash && isBase r2 "NP" && isBase l2 "S" then .s_np_np else .other
    else .other

/-- the value of the `mod` field of the result category's feature triple -/
def modOf (x : Cat) : Option Str :=
  match Ja.resultAtom x with
  | .atom _ (.tri k1 v1 k2 v2 k3 v3) =>
    if k1 == lit "mod" then some v1 else if k2 == lit "mod" then some v2 else if k3 == lit "mod" then some v3 else none
  | _ => none

/-- ADNext for a saturated adnominal clause, ADNint for one missing arguments; ADV1 / ADV2 for an
    adverbial clause missing one / two NP arguments, ADV0 otherwise; OTHER for anything else -/
def specLabel (x : Cat) : String :=
  if modOf x = some (lit "adn") then (if ushape x = .s then "ADNext" else "ADNint")
  else if modOf x = some (lit "adv") then
    (match ushape x with | .s_np => "ADV1" | .s_np_np => "ADV2" | _ => "ADV0")
  else "OTHER"

/-- the three feature keys are pairwise different (true of every category of the bank), so the
    `mod` field is unambiguous -/
def DistinctKeys (x : Cat) : Prop :=
  ∀ b k1 v1 k2 v2 k3 v3, Ja.resultAtom x = .atom b (.tri k1 v1 k2 v2 k3 v3) → k1 ≠ k2 ∧ k1 ≠ k3 ∧ k2 ≠ k3

def JaUnaryLabelStatement : Prop :=
  ∀ (T : List (Cat × List Cat)) (x : Cat) (rs : List RuleRes), DistinctKeys x →
    Ja.applyUnary T x = .ok rs → ∀ r ∈ rs,
      r.opString = lit (specLabel x) ∧ r.opSymbol = lit (specLabel x) ∧ r.headLeft = true

def jaUnaryLabels : List Str :=
  [lit "ADNext", lit "ADNint", lit "ADV0", lit "ADV1", lit "ADV2", lit "OTHER"]

def JaUnaryLabelsClosedStatement : Prop :=
  ∀ (T : List (Cat × List Cat)) (x : Cat) (rs : List RuleRes),
    Ja.applyUnary T x = .ok rs → ∀ r ∈ rs, r.opSymbol ∈ jaUnaryLabels ∧ r.opString = r.opSymbol

end Depccg.C04
