/-
  C15 / C07 for the two XML formats at the level of the printed characters: the theorems.
  Statements: `Depccg/Props/C15TextDefs.lean`; reader: `Depccg/Read/XmlText.lean`; lemmas:
  `Depccg/Proofs/C15TextLemmas.lean`.
-/
import Depccg.Proofs.C15TextLemmas

namespace Depccg.C15Text
open Depccg Str Xml

theorem xml_parse_render : XmlParseRenderStatement := fun e ind he => xt_parse_render e ind he

theorem xml_render_injective : XmlRenderInjectiveStatement := fun a b ha hb h => by
  have h1 := xt_parse_render a 0 ha
  rw [h, xt_parse_render b 0 hb] at h1
  exact (Option.some.inj h1).symm

theorem esc_attr_roundtrip : EscAttrRoundtripStatement := xt_unesc_esc

theorem esc_attr_safe : EscAttrSafeStatement := xt_esc_safe

theorem xml_text_decode : XmlTextDecodeStatement := xt_xml_decode

theorem jigg_text_decode : JiggTextDecodeStatement := xt_jigg_decode

theorem xml_text_total : XmlTextTotalStatement := fun batch => by
  unfold xmlText docText
  constructor
  · rintro ⟨text, h⟩
    split at h
    · assumption
    · cases h
  · intro h
    exact ⟨_, if_pos h⟩

theorem xml_text_injective : XmlTextInjectiveStatement := fun a b text ha hb h1 h2 => by
  have e := xt_xml_decode a text ha h1
  rw [xt_xml_decode b text hb h2] at e
  exact (Option.some.inj e).symm

/-! ### non-vacuity

  (the texts are written in short pieces: `lit` on a long string literal is slow in the kernel) -/

/-- a hand-written text the printer never emits (single quotes, `&apos;`, decimal and hexadecimal
    references, carriage returns, tabs, blanks around `=` and before `>`, an explicit end tag for an
    element without children) is read, and printed again in the printer's layout -/
example :
    (Read.parseXml (lit "\r\n <candc >\n\t<ccg sentence = '1'\tid=\"1\">\r\n" ++
        lit "<lf start='0' word='It&apos;s &#60;" ++ lit "&#x3c;&#x3C;&gt; \"q\"' cat=\"NP\"/>" ++
        lit "<lf\nstart=\"1\" word=\"a\tb\" cat='S\\NP' ></lf >\n" ++
        lit "</ccg  >\n\n</candc\n>\n\n")).map (fun e => e.render 0) =
      some (lit "<candc>\n" ++
        lit "  <ccg sentence=\"1\" id=\"1\">\n" ++
        lit "    <lf start=\"0\" word=\"It's &lt;&lt;&lt;&gt; " ++ lit "&quot;q&quot;\" cat=\"NP\"/>\n" ++
        lit "    <lf start=\"1\" word=\"a b\" cat=\"S\\NP\"/>\n" ++
        lit "  </ccg>\n" ++
        lit "</candc>\n") := by
  decide +kernel

/-- a text without any white space, as `<ccg>` records -/
example :
    (Read.readXmlText (lit "<candc><ccg sentence='12' id='3'>" ++ lit "<rule type='lex' cat='NP'>" ++
        lit "<lf start='0' span='1' cat='N' word='R&amp;D'/>" ++ lit "</rule></ccg></candc>")).map
        (fun l => l.map fun c => (c.sentence, c.id, c.tree)) =
      some [(12, 3, .rule1 [(lit "type", lit "lex"), (lit "cat", lit "NP")]
        (.lf [(lit "start", lit "0"), (lit "span", lit "1"), (lit "cat", lit "N"), (lit "word", lit "R&D")]))] := by
  decide +kernel

/-- malformed texts are rejected: text content, a mismatched end tag, two roots, an unknown entity, a
    raw `<` in a value, attributes that are not separated, an unterminated element, a reference to a
    code point that is no XML character, a reference without digits, `/ >` -/
example :
    [lit "<a>t</a>", lit "<a></b>", lit "<a/><b/>", lit "<a x=\"&foo;\"/>", lit "<a x=\"<\"/>",
      lit "<a x=\"1\"y=\"2\"/>", lit "<a><b/>", lit "<a x=\"&#0;\"/>", lit "<a x=\"&#x;\"/>", lit "<a/ >"].map
        (fun s => (Read.parseXml s).isSome) = List.replicate 10 false := by
  decide +kernel

/-- the printer on a tree whose word needs escaping: the text, to the character ... -/
example :
    xmlText [[.un (.atom (lit "NP") (.un none)) (lit "lex") (lit "<un>")
        (.leaf (.atom (lit "N") (.un none)) [(lit "word", lit "R&D <\"x\">\t'"), (lit "pos", [])] (lit "lex") (lit "<lex>"))]] =
      .ok (lit "<candc>\n" ++
        lit "  <ccg sentence=\"1\" id=\"1\">\n" ++
        lit "    <rule type=\"lex\" cat=\"NP\">\n" ++
        lit "      <lf start=\"0\" span=\"1\" cat=\"N\" " ++ lit "word=\"R&amp;D &lt;&quot;x&quot;&gt;&#9;'\" pos=\"\"/>\n" ++
        lit "    </rule>\n" ++
        lit "  </ccg>\n" ++
        lit "</candc>\n") := by
  decide +kernel

/-- ... and the records read from it -/
example :
    (Read.readXmlText (lit "<candc>\n" ++
        lit "  <ccg sentence=\"1\" id=\"1\">\n" ++
        lit "    <rule type=\"lex\" cat=\"NP\">\n" ++
        lit "      <lf start=\"0\" span=\"1\" cat=\"N\" " ++ lit "word=\"R&amp;D &lt;&quot;x&quot;&gt;&#9;'\" pos=\"\"/>\n" ++
        lit "    </rule>\n" ++
        lit "  </ccg>\n" ++
        lit "</candc>\n")).map (fun l => l.map fun c => (c.sentence, c.id, c.tree)) =
      some [(1, 1, .rule1 [(lit "type", lit "lex"), (lit "cat", lit "NP")]
        (.lf [(lit "start", lit "0"), (lit "span", lit "1"), (lit "cat", lit "N"), (lit "word", lit "R&D <\"x\">\t'"),
              (lit "pos", [])]))] := by
  decide +kernel

set_option synthInstance.maxSize 2048 in
/-- a Jigg text written by hand: the tokens, the attributes of a `<ccg>` with a span and of one without,
    and the spans -/
example :
    let r := Read.readJiggText (lit "<root><document><sentences>\n" ++
      lit "<sentence><tokens>" ++ lit "<token surf='a' id='s0_0'/></tokens>\n" ++
      lit "<ccg id='s0_ccg0' root='s0_sp0' score='-1.5'>" ++ lit "<span id='s0_sp0' terminal='s0_0'/></ccg>" ++
      lit "<ccg id='x'/></sentence>\n" ++ lit "</sentences></document></root>")
    r.map (fun l => l.map fun s => s.tokens) = some [[[(lit "surf", lit "a"), (lit "id", lit "s0_0")]]] ∧
    r.map (fun l => l.map fun s => s.ccgs.map (·.attrs)) =
      some [[[(lit "id", lit "s0_ccg0"), (lit "root", lit "s0_sp0"), (lit "score", lit "-1.5")], [(lit "id", lit "x")]]] ∧
    r.map (fun l => l.map fun s => s.ccgs.map (·.spans)) =
      some [[[[(lit "id", lit "s0_sp0"), (lit "terminal", lit "s0_0")]], []]] := by
  dsimp only
  decide +kernel

end Depccg.C15Text
