/-
  C03  English combinatory rules are sound.
  Property theorems only; definitions and statements are in Depccg/Props/C03Defs.lean (unchanged),
  helper lemmas (one soundness / completeness lemma per combinator) in Depccg/Proofs/C03Lemmas.lean.
-/
import Depccg.Props.C03Defs
import Depccg.Proofs.C03Lemmas

namespace Depccg.C03
open Depccg Cat Str Unify

/-- soundness: every result of the English grammar is justified by the schema its label names
    (on the inputs with `nb` erased) -/
theorem en_sound : EnSoundStatement := by
  intro seen x y x' y' rs hx hy cx cy h r hr
  obtain ⟨c, hc, hcr⟩ := applyBinary_mem cx cy h hr
  exact comb_sound hc (allUnary_clear hx cx) (allUnary_clear hy cy) hcr

/-- the head is always the left child -/
theorem en_head_left : EnHeadLeftStatement := by
  intro seen x y rs h r hr
  obtain ⟨c, hc, hcr⟩ := applyBinary_mem (C14.clear_nb_eq x) (C14.clear_nb_eq y) h hr
  exact (comb_label hc hcr).1

/-- only the ten listed labels are ever emitted -/
theorem en_labels_closed : EnLabelsClosedStatement := by
  intro seen x y rs h r hr
  obtain ⟨c, hc, hcr⟩ := applyBinary_mem (C14.clear_nb_eq x) (C14.clear_nb_eq y) h hr
  exact (comb_label hc hcr).2.1

/-- unary results are labelled `tr` or `lex`, with symbol `<un>` and the head on the left -/
theorem en_unary_labels : EnUnaryLabelsStatement :=
  unary_labels

/-- features in a result come from the inputs, except for the two type-changing rules `<*>` -/
theorem en_features_from_inputs : EnFeaturesFromInputsStatement := by
  intro seen x y x' y' rs hx hy cx cy h r hr hsym f hf
  exact Or.inr (justified_feats (en_sound seen x y x' y' rs hx hy cx cy h r hr) hsym f hf)

/-- backward crossed composition never composes over a bare `N` or `NP` -/
theorem en_bx_not_N_NP : EnBxNotNorNPStatement := by
  intro seen x y x' y' rs _ _ cx cy h
  constructor
  · rintro a b c s1 s2 rfl rfl hb r hr hlab
    obtain ⟨k, hk, hkr⟩ := applyBinary_mem cx cy h hr
    have := (comb_label hk hkr).2.2.1 hlab
    subst this
    exact bx_guard hb r hkr
  · rintro a b c d s1 s2 s3 rfl rfl hb r hr hlab
    obtain ⟨k, hk, hkr⟩ := applyBinary_mem cx cy h hr
    have := (comb_label hk hkr).2.2.2 hlab
    subst this
    exact gbx_guard hb r hkr

/-- completeness: a schema whose premises hold with identical matched parts yields its result -/
theorem en_complete : EnCompleteStatement := by
  intro a b c d s3 ua ub uc ud na nb nc nd ba bb bc bd _
  refine ⟨?_, ?_, ?_, ?_, ?_, ?_⟩
  · exact applyBinary_complete (c := En.forwardApplication) (by simp [En.combinators])
      ⟨ua, ub⟩ ub ⟨na, nb⟩ nb (noNb_fn _ ba bb) bb (fa_complete ua ub)
  · intro hne
    exact applyBinary_complete (c := En.backwardApplication) (by simp [En.combinators])
      ub ⟨ua, ub⟩ nb ⟨na, nb⟩ bb (noNb_fn _ ba bb) (ba_complete ua ub hne)
  · exact applyBinary_complete (c := En.forwardComposition) (by simp [En.combinators])
      ⟨ua, ub⟩ ⟨ub, uc⟩ ⟨na, nb⟩ ⟨nb, nc⟩ (noNb_fn _ ba bb) (noNb_fn _ bb bc) (fc_complete ua ub uc)
  · intro hn
    exact applyBinary_complete (c := En.backwardComposition) (by simp [En.combinators])
      ⟨ub, uc⟩ ⟨ua, ub⟩ ⟨nb, nc⟩ ⟨na, nb⟩ (noNb_fn _ bb bc) (noNb_fn _ ba bb) (bx_complete ua ub uc hn)
  · exact applyBinary_complete (c := En.generalizedForwardComposition) (by simp [En.combinators])
      ⟨ua, ub⟩ ⟨⟨ub, uc⟩, ud⟩ ⟨na, nb⟩ ⟨⟨nb, nc⟩, nd⟩ (noNb_fn _ ba bb)
      (noNb_fn _ (noNb_fn _ bb bc) bd) (gfc_complete s3 ua ub uc ud)
  · intro hn
    exact applyBinary_complete (c := En.generalizedBackwardComposition) (by simp [En.combinators])
      ⟨⟨ub, uc⟩, ud⟩ ⟨ua, ub⟩ ⟨⟨nb, nc⟩, nd⟩ ⟨na, nb⟩ (noNb_fn _ (noNb_fn _ bb bc) bd)
      (noNb_fn _ ba bb) (gbx_complete s3 ua ub uc ud hn)

/-! ### non-vacuity -/

section Examples

private def at' (b : String) (f : Option String) : Cat := .atom (lit b) (.un (f.map lit))
private def exNP : Cat := at' "NP" none
private def exPP : Cat := at' "PP" none
private def exS : Cat := at' "S" none
private def exSdcl : Cat := at' "S" (some "dcl")
/-- `S[dcl]\NP` -/
private def exVP : Cat := .fn exSdcl cBSlash exNP

/-- the hypotheses of `en_sound` are met by `NP` , `S[dcl]\NP` … -/
example : C14.AllUnary exNP ∧ C14.AllUnary exVP := ⟨trivial, trivial, trivial⟩
example : Cat.clear C14.nb exNP = .ok exNP ∧ Cat.clear C14.nb exVP = .ok exVP := by decide +kernel

/-- … backward application fires on them … -/
example : En.applyBinary none exNP exVP = .ok [lab "ba" "<" exSdcl] := by decide +kernel

/-- … and `en_sound` yields the justification of that result: the schema `Y  X\Y ⇒ X` -/
example : Justified exNP exVP (lab "ba" "<" exSdcl) :=
  en_sound none exNP exVP exNP exVP [lab "ba" "<" exSdcl] trivial ⟨trivial, trivial⟩
    (by decide +kernel) (by decide +kernel) (by decide +kernel) _ List.mem_cons_self

/-- the same justification built by hand, with the `ba` constructor -/
example : Justified exNP exVP (lab "ba" "<" exSdcl) :=
  Justified.ba exSdcl exNP exSdcl cBSlash rfl (Or.inl rfl) ⟨by decide, by simp [C06.AllCompat, C06.feats, C06.Compat, exNP, at']⟩
    (by decide) (by simp [Inst, C06.InstanceOf, exSdcl, at'])

/-- a variable feature instantiated from the argument: `S[X]/NP[X]` applied to `NP[mod]` gives
    `S[mod]`, and the feature of the result is a feature of the inputs -/
example : En.applyBinary none (.fn (at' "S" (some "X")) cSlash (at' "NP" (some "X"))) (at' "NP" (some "mod"))
    = .ok [lab "fa" ">" (at' "S" (some "mod"))] := by decide +kernel

/-- a pair firing `bx`: `PP/NP` , `S\PP` ⇒ `S/NP` -/
example : En.applyBinary none (.fn exPP cSlash exNP) (.fn exS cBSlash exPP) =
    .ok [lab "bx" "<B" (.fn exS cSlash exNP)] := by decide +kernel

/-- a pair firing `gbx`: `(PP/NP)\NP` , `S/PP` ⇒ `(S/NP)\NP` -/
example : En.applyBinary none (.fn (.fn exPP cSlash exNP) cBSlash exNP) (.fn exS cSlash exPP) =
    .ok [lab "gbx" "<B" (.fn (.fn exS cSlash exNP) cBSlash exNP)] := by decide +kernel

/-- … which is what `en_complete` predicts (its hypotheses hold for `a = S`, `b = PP`, `c = d = NP`) -/
example : ∃ rs, En.applyBinary none (.fn (.fn exPP cSlash exNP) cBSlash exNP) (.fn exS cSlash exPP) = .ok rs ∧
    lab "gbx" "<B" (if exS = exPP then .fn (.fn exPP cSlash exNP) cBSlash exNP
      else .fn (.fn exS cSlash exNP) cBSlash exNP) ∈ rs :=
  (en_complete exS exPP exNP exNP cBSlash trivial trivial trivial trivial
    (by decide : lit "S" ≠ []) (by decide : lit "PP" ≠ []) (by decide : lit "NP" ≠ [])
    (by decide : lit "NP" ≠ [])
    (by intro f hf; simp [C06.feats, exS, at'] at hf; subst hf; decide)
    (by intro f hf; simp [C06.feats, exPP, at'] at hf; subst hf; decide)
    (by intro f hf; simp [C06.feats, exNP, at'] at hf; subst hf; decide)
    (by intro f hf; simp [C06.feats, exNP, at'] at hf; subst hf; decide)
    (by decide)).2.2.2.2.2 (by rintro (h | h) <;> revert h <;> decide)

/-- the guard: over a bare `NP` nothing is composed — `NP/PP` , `S\NP` gives no result at all -/
example : BareNorNP exNP := Or.inr (by decide)
example : En.applyBinary none (.fn exNP cSlash exPP) (.fn exS cBSlash exNP) = .ok [] := by decide +kernel

/-- the two `<*>` rules are the exception in `en_features_from_inputs`: `,` with `S[ng]\NP` -/
example : En.applyBinary none (at' "," none) (.fn (at' "S" (some "ng")) cBSlash exNP) =
    .ok [lab "conj" "<Φ>" (.fn (.fn (at' "S" (some "ng")) cBSlash exNP) cBSlash (.fn (at' "S" (some "ng")) cBSlash exNP)),
         lab "lp" "<lp>" (.fn (at' "S" (some "ng")) cBSlash exNP),
         lab "lp" "<*>" (.fn En.sNP cBSlash En.sNP)] := by decide +kernel

/-- unary rules: `NP ⇒ S/(S\NP)` is labelled `tr` -/
example : En.applyUnary [(exNP, [.fn exS cSlash (.fn exS cBSlash exNP)])] exNP =
    [⟨.fn exS cSlash (.fn exS cBSlash exNP), lit "tr", lit "<un>", true⟩] := by decide +kernel

end Examples

end Depccg.C03
