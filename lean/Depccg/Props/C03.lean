import Depccg.En
