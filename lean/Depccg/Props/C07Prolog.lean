/-
  C07, the two Prolog formats: the independent readers `Read.decPrologEn` / `Read.decPrologJa`
  read back every printed output (sentence numbers, tree shape, categories as spelled by the
  format, rule functors, extra category arguments, leaf fields); hence batches with the same
  output have the same numbered views.   Statements: Depccg/Props/C07PrologDefs.lean; helper
  lemmas: Depccg/Proofs/C07PrologLemmas.lean.
-/
import Depccg.Props.C07PrologDefs
import Depccg.Proofs.C07PrologLemmas

namespace Depccg.C07
open Depccg Str Print Read TextProps

/-- every English Prolog output reads back to the numbered views of the batch -/
theorem prolog_en_decode : PrologEnDecodeStatement := by
  intro batch text hb h
  rw [pl_prologEn_eq] at h
  cases hc : catExcept enClause (numbered batch) with
  | error e => simp [hc] at h
  | ok body =>
    simp only [hc, Except.ok.injEq] at h
    subst h
    obtain ⟨items, rfl, hr, hm⟩ := pl_items enClause viewPrologEn
      (fun t => AllCats EnCatOK t ∧ AllToks EnTokOK t) pl_enClause_ok (numbered batch) body
      (fun p hp => by
        obtain ⟨ts, hts, ht⟩ := C19.mem_numbered hp
        exact hb ts hts p.2 ht) hc
    unfold decPrologEn
    rw [pl_decProlog items hr, hm]

/-- two batches with the same English output have the same numbered views -/
theorem prolog_en_injective : PrologEnInjectiveStatement := by
  intro b b' text hb hb' h h'
  have h1 := prolog_en_decode b text hb h
  have h2 := prolog_en_decode b' text hb' h'
  rw [h1] at h2
  exact Option.some.inj h2

/-- every Japanese Prolog output reads back to the numbered views of the batch -/
theorem prolog_ja_decode : PrologJaDecodeStatement := by
  intro batch text hb h
  rw [pl_prologJa_eq] at h
  cases hc : catExcept jaClause (numbered batch) with
  | error e => simp [hc] at h
  | ok body =>
    simp only [hc, Except.ok.injEq] at h
    subst h
    obtain ⟨items, rfl, hr, hm⟩ := pl_items jaClause viewPrologJa
      (fun t => AllCats JaCatOK t ∧ AllToks JaTokOK t) pl_jaClause_ok (numbered batch) body
      (fun p hp => by
        obtain ⟨ts, hts, ht⟩ := C19.mem_numbered hp
        exact hb ts hts p.2 ht) hc
    unfold decPrologJa
    rw [pl_decProlog items hr, hm]

/-- two batches with the same Japanese output have the same numbered views -/
theorem prolog_ja_injective : PrologJaInjectiveStatement := by
  intro b b' text hb hb' h h'
  have h1 := prolog_ja_decode b text hb h
  have h2 := prolog_ja_decode b' text hb' h'
  rw [h1] at h2
  exact Option.some.inj h2

/-- the hypotheses on the categories follow from a condition on the category VALUES: atom bases,
    feature texts and slashes free of blanks, newlines, commas and parentheses -/
theorem prolog_en_decode_plain (batch : List (List Tree)) (text : Str)
    (hb : ∀ ts ∈ batch, ∀ t ∈ ts, AllCats PlainCatEn t ∧ AllToks EnTokOK t)
    (h : prologEn batch = .ok text) :
    decPrologEn text = some ((numbered batch).map fun p => (p.1, viewPrologEn p.2)) :=
  prolog_en_decode batch text
    (fun ts hts t ht => ⟨pl_allCats_mono pl_enCatOK_of_plain t (hb ts hts t ht).1, (hb ts hts t ht).2⟩) h

theorem prolog_ja_decode_plain (batch : List (List Tree)) (text : Str)
    (hb : ∀ ts ∈ batch, ∀ t ∈ ts, AllCats PlainCatJa t ∧ AllToks JaTokOK t)
    (h : prologJa batch = .ok text) :
    decPrologJa text = some ((numbered batch).map fun p => (p.1, viewPrologJa p.2)) :=
  prolog_ja_decode batch text
    (fun ts hts t ht => ⟨pl_allCats_mono pl_jaCatOK_of_plain t (hb ts hts t ht).1, (hb ts hts t ht).2⟩) h

/-! ### the hypotheses are satisfiable -/

section examples

/-! English: two sentences, the second with two derivations. A unary `lx` node, a `conj` node
  (with its extra `leftcat`), a `conj2` wrapper, an `lp` wrapper, `fx` printed as `fc`, a category
  `,` printed as `comma`, a quote and an inner backslash in a word. -/

private def eN : Cat := .atom (lit "N") (.un none)
private def eNP : Cat := .atom (lit "NP") (.un none)
private def eS : Cat := .atom (lit "S") (.un (some (lit "dcl")))
private def eConj : Cat := .atom (lit "conj") (.un none)
private def eComma : Cat := .atom (lit ",") (.un none)
private def eVP : Cat := .fn eS cBSlash eNP
private def eMod : Cat := .fn eNP cBSlash eNP
private def eLeaf (c : Cat) (w : String) : Tree := .leaf c (Token.ofWord (lit w)) (lit "lex") (lit "<lex>")

private def eT1 : Tree :=
  .bin eS (lit "ba") (lit "<") false
    (.bin eNP (lit "ba") (lit "<") true
      (.un eNP (lit "lex") (lit "<un>") (eLeaf eN "dogs"))
      (.bin eMod (lit "conj") (lit "<Φ>") false (eLeaf eConj "and")
        (.leaf eNP [(lit "word", lit "Kim's"), (lit "pos", lit "NNP")] (lit "lex") (lit "<lex>"))))
    (eLeaf eVP "r\\un")

private def eT2 : Tree :=
  .bin eNP (lit "conj2") (lit "<Φ>") true (eLeaf eNP "a") (eLeaf eMod "b")

private def eT3 : Tree :=
  .bin eVP (lit "lp") (lit "<lp>") false (eLeaf eComma ",")
    (.bin eVP (lit "fx") (lit ">Bx") true (eLeaf eVP "c") (eLeaf eNP "d"))

private def eBatch : List (List Tree) := [[eT1], [eT2, eT3]]

/-- the lines of a text, each with its newline -/
private def unlines (ls : List String) : Str := (ls.map fun l => lit l ++ [10]).flatten

private def headerLines : List String :=
  [":- op(601, xfx, (/)).", ":- op(601, xfx, (\\)).", ":- multifile ccg/2, id/2.",
   ":- discontiguous ccg/2, id/2.", ""]

private def eText : Str := unlines (headerLines ++
  ["ccg(1,",
   " ba(s:dcl,",
   "  ba(np,",
   "   lx(np, n,",
   "    t(n, 'dogs', 'XX', 'XX', 'XX', 'XX')),",
   "   conj((np\\np), np,",
   "    t(conj, 'and', 'XX', 'XX', 'XX', 'XX'),",
   "    t(np, 'Kim\\'s', 'XX', 'NNP', 'XX', 'XX'))),",
   "  t((s:dcl\\np), 'r\\un', 'XX', 'XX', 'XX', 'XX'))).",
   "",
   "ccg(2,",
   " conj(np, (np\\np)\\(np\\np),",
   "  conj((np\\np)\\(np\\np), (np\\np),",
   "   t(np, 'a', 'XX', 'XX', 'XX', 'XX'),",
   "   t((np\\np), 'b', 'XX', 'XX', 'XX', 'XX')))).",
   "",
   "ccg(2,",
   " lx((s:dcl\\np), (s:dcl\\np),",
   "  lp((s:dcl\\np),",
   "   t(comma, ',', 'XX', 'XX', 'XX', 'XX'),",
   "   fc((s:dcl\\np),",
   "    t((s:dcl\\np), 'c', 'XX', 'XX', 'XX', 'XX'),",
   "    t(np, 'd', 'XX', 'XX', 'XX', 'XX'))))).",
   ""])

private def xx : Str := lit "XX"
private def eLeafV (c w : String) : PView := .leaf (lit c) [lit w, xx, xx, xx, xx]

private def eViews : List (Nat × PView) :=
  [(1, .node (lit "ba") (lit "s:dcl") []
        [.node (lit "ba") (lit "np") []
          [.node (lit "lx") (lit "np") [lit "n"] [eLeafV "n" "dogs"],
           .node (lit "conj") (lit "(np\\np)") [lit "np"]
             [eLeafV "conj" "and", .leaf (lit "np") [lit "Kim's", xx, lit "NNP", xx, xx]]],
         eLeafV "(s:dcl\\np)" "r\\un"]),
   (2, .node (lit "conj") (lit "np") [lit "(np\\np)\\(np\\np)"]
        [.node (lit "conj") (lit "(np\\np)\\(np\\np)") [lit "(np\\np)"]
          [eLeafV "np" "a", eLeafV "(np\\np)" "b"]]),
   (2, .node (lit "lx") (lit "(s:dcl\\np)") [lit "(s:dcl\\np)"]
        [.node (lit "lp") (lit "(s:dcl\\np)") []
          [eLeafV "comma" ",",
           .node (lit "fc") (lit "(s:dcl\\np)") [] [eLeafV "(s:dcl\\np)" "c", eLeafV "np" "d"]]])]

private theorem ePrinted : prologEn eBatch = .ok eText := by decide +kernel

private theorem eOK : ∀ ts ∈ eBatch, ∀ t ∈ ts, AllCats EnCatOK t ∧ AllToks EnTokOK t := by decide +kernel

example : (numbered eBatch).map (fun p => (p.1, viewPrologEn p.2)) = eViews := by decide +kernel

/-- evaluated: the reader on the printed text -/
example : decPrologEn eText = some eViews := by decide +kernel

/-- the same by the theorem -/
example : decPrologEn eText = some ((numbered eBatch).map fun p => (p.1, viewPrologEn p.2)) :=
  prolog_en_decode eBatch eText eOK ePrinted

/-! Japanese: a unary node (`ADNext`), a binary node, a ternary feature with a `case` value, a
  surface form different from the word, part-of-speech tags, a quote in a field. -/

private def jNP : Cat :=
  .atom (lit "NP") (.tri (lit "case") (lit "ga") (lit "mod") (lit "nm") (lit "fin") (lit "f"))
private def jS : Cat :=
  .atom (lit "S") (.tri (lit "mod") (lit "nm") (lit "form") (lit "base") (lit "fin") (lit "t"))
private def jVP : Cat := .fn jS cBSlash jNP

private def jT : Tree :=
  .bin jS (lit "ba") (lit "<") false
    (.un jNP (lit "other") (lit "ADNext")
      (.leaf jNP [(lit "word", lit "it's"), (lit "pos", lit "名詞"), (lit "pos1", lit "一般")] (lit "lex") (lit "<lex>")))
    (.leaf jVP [(lit "word", lit "w"), (lit "surf", lit "su"), (lit "base", lit "b"),
                (lit "inflectionForm", lit "f"), (lit "inflectionType", lit "y")] (lit "lex") (lit "<lex>"))

private def jText : Str := unlines (headerLines ++
  ["ccg(1,",
   " ba(s,",
   "  adnext(np:ga,",
   "   t(np:ga, 'it\\'s', '*', '名詞/一般/*/*', '*', '*')),",
   "  t((s\\np:ga), 'su', 'b', '*', 'f', 'y'))).",
   ""])

private def jViews : List (Nat × PView) :=
  [(1, .node (lit "ba") (lit "s") []
        [.node (lit "adnext") (lit "np:ga") []
          [.leaf (lit "np:ga") [lit "it's", lit "*", lit "名詞/一般/*/*", lit "*", lit "*"]],
         .leaf (lit "(s\\np:ga)") [lit "su", lit "b", lit "*", lit "f", lit "y"]])]

private theorem jPrinted : prologJa [[jT]] = .ok jText := by decide +kernel

private theorem jOK : ∀ ts ∈ [[jT]], ∀ t ∈ ts, AllCats JaCatOK t ∧ AllToks JaTokOK t := by decide +kernel

example : decPrologJa jText = some jViews := by decide +kernel

example : decPrologJa jText = some ((numbered [[jT]]).map fun p => (p.1, viewPrologJa p.2)) :=
  prolog_ja_decode [[jT]] jText jOK jPrinted

/-! ### the hypotheses are needed -/

/-- a word ending with a backslash swallows the closing quote (`'a\\'`): the text does not read back -/
example : (prologEn [[eLeaf eNP "a\\"]]).toOption.bind decPrologEn ≠ some [(1, viewPrologEn (eLeaf eNP "a\\"))] ∧
    (prologEn [[eLeaf eNP "a\\"]]).toOption.isSome := by decide +kernel

/-- `pos`, `chunk`, `entity` are printed between quotes without escaping: with a quote inside, two
    different leaves (different `pos`, different `chunk`) have the same text -/
example :
    let t1 : Tree := .leaf eNP [(lit "word", lit "w"), (lit "pos", lit "x', 'y"), (lit "chunk", lit "z")] [] []
    let t2 : Tree := .leaf eNP [(lit "word", lit "w"), (lit "pos", lit "x"), (lit "chunk", lit "y', 'z")] [] []
    prologEn [[t1]] = prologEn [[t2]] ∧ viewPrologEn t1 ≠ viewPrologEn t2 := by decide +kernel

/-- a comma outside parentheses in a category spelling is taken for the end of the argument -/
example :
    let t : Tree := .leaf (.atom (lit "a,b") (.un none)) [(lit "word", lit "w")] [] []
    (prologJa [[t]]).toOption.bind decPrologJa ≠ some [(1, viewPrologJa t)] ∧ (prologJa [[t]]).toOption.isSome := by
  decide +kernel

/-- what the view does not carry: `fx` and `fc` are both printed `fc(` -/
example : viewPrologEn (.bin eVP (lit "fx") [] true (eLeaf eVP "c") (eLeaf eNP "d")) =
    viewPrologEn (.bin eVP (lit "fc") [] true (eLeaf eVP "c") (eLeaf eNP "d")) := by decide +kernel

end examples

end Depccg.C07
