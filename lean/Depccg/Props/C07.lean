/-
  C07  Every output format encodes the same derivation: the formats without a reader
  (auto_extended, the conll dependency column, json, deriv, record numbering).
  Property theorems only; the statements are in Depccg/Props/C07Defs.lean, helper lemmas in
  Depccg/Proofs/C07Lemmas.lean.   auto / conll fragments: C08;  ptb / ja: C20;  xml: C15.
-/
import Depccg.Props.C07Defs
import Depccg.Proofs.C07Lemmas

namespace Depccg.C07
open Depccg Str Print TextProps

/-- records are numbered by sentence, from 1, n-best trees of one sentence under one number -/
theorem numbering : NumberingStatement := fun batch => ⟨numbered_fst batch, numbered_snd batch⟩

/-- the json tree has the shape, categories, labels and token attributes of the tree -/
theorem json_shape : JsonShapeStatement := jsonShape_jsonOf

/-- every attachment stays inside the span of the node that makes it and is not a self-loop -/
theorem attachments_in_span : AttachmentsInSpanStatement := attachments_span

/-- the dependency column of the conll format: one root (the head word of the tree), every other
    word attached as the head flags say -/
theorem conll_heads : ConllHeadsStatement := by
  intro t
  have h := resolveDeps_spec t []
  refine ⟨h.fst, ?_, h.head, ?_, ?_⟩
  · simpa using h.len
  · intro i hi hne
    exact h.dep i (Nat.zero_le _) (by simpa using hi) hne
  · have := h.cnt
    simpa [roots] using this

/-- the rule lines of the ASCII art: post-order of the internal nodes, each spanning exactly the
    columns of its leaves -/
theorem deriv_geometry : DerivGeometryStatement := derivRec_spec

/-- the independent decoder reads every printed extended AUTO line back to the view of the tree -/
theorem autoext_decode : AutoExtDecodeStatement :=
  fun t s hc ht hl hs => decExt_printed t s hc ht hl hs

/-! ### the hypotheses are satisfiable: a three-word tree with both head directions -/

section examples

private def cNP : Cat := .atom (lit "NP") (.un none)
private def cN : Cat := .atom (lit "N") (.un none)
private def cS : Cat := .atom (lit "S") (.un (some (lit "dcl")))
private def cVP : Cat := .fn cS cBSlash cNP
private def cTV : Cat := .fn cVP cSlash cNP

/-- `Kim sees (` : `NP` + (`(S[dcl]\NP)/NP` + (`N` ⇒ `NP`)); the root is headed by its right
    child, the verb phrase by its left child: the head word is `sees` -/
private def exTree : Tree :=
  .bin cS (lit "ba") (lit "<") false
    (.leaf cNP (Token.ofWord (lit "Kim")) (lit "lex") (lit "<lex>"))
    (.bin cVP (lit "fa") (lit ">") true
      (.leaf cTV [(lit "word", lit "sees"), (lit "lemma", lit "see"), (lit "pos", lit "VBZ")]
        (lit "lex") (lit "<lex>"))
      (.un cNP (lit "lex") (lit "<un>")
        (.leaf cN [(lit "word", lit "("), (lit "pos", lit "NN"), (lit "chunk", lit "I-NP")]
          (lit "lex") (lit "<lex>"))))

private theorem wfNP : C05.WF cNP := ⟨⟨by decide, by decide⟩, trivial, fun _ => rfl⟩
private theorem wfN : C05.WF cN := ⟨⟨by decide, by decide⟩, trivial, fun _ => rfl⟩
private theorem wfS : C05.WF cS :=
  ⟨⟨by decide, by decide⟩, ⟨⟨by decide, by decide⟩, by decide⟩, by decide⟩
private theorem wfVP : C05.WF cVP := ⟨wfS, by decide, wfNP⟩
private theorem wfTV : C05.WF cTV := ⟨wfVP, by decide, wfNP⟩

private theorem okNP : CatOK cNP := ⟨wfNP, by decide, by decide⟩
private theorem okN : CatOK cN := ⟨wfN, by decide, by decide⟩
private theorem okS : CatOK cS := ⟨wfS, by decide, by decide⟩
private theorem okVP : CatOK cVP := ⟨wfVP, by decide, by decide⟩
private theorem okTV : CatOK cTV := ⟨wfTV, by decide +kernel, by decide +kernel⟩

private theorem exCats : AllCats CatOK exTree := ⟨okS, okNP, okVP, okTV, okNP, okN⟩

private theorem exToks : AllToks TokOK exTree := by
  refine ⟨⟨⟨_, rfl⟩, ?_⟩, ⟨⟨_, rfl⟩, ?_⟩, ⟨⟨_, rfl⟩, ?_⟩⟩ <;> (simp only [PlainWord]; decide)

private theorem exLabels : LabelsPlain exTree := by
  refine ⟨?_, trivial, ?_, trivial, ?_, trivial⟩ <;> (simp only [PlainWord]; decide)

private theorem exWords :
    AllToks (fun tok => ∃ w, Token.get? tok (lit "word") = some w) exTree :=
  ⟨⟨_, rfl⟩, ⟨_, rfl⟩, ⟨_, rfl⟩⟩

/-- the extended AUTO line, evaluated: rule labels, both head flags, attributes or `XX`, the
    escaped bracket word -/
private theorem exLine : autoExtOf exTree = .ok (lit
    ("(<T S[dcl] ba 1 2> (<L NP Kim XX XX XX XX NP>) (<T S[dcl]\\NP fa 0 2> " ++
     "(<L (S[dcl]\\NP)/NP sees see VBZ XX XX (S[dcl]\\NP)/NP>) " ++
     "(<T NP lex 0 1> (<L N -LRB- XX NN XX I-NP N>) ) ) )")) := by
  decide +kernel

/-- what the line carries -/
private def exView : AView :=
  .bin (lit "S[dcl]") (lit "ba") false
    (.leaf (lit "NP") (lit "Kim") (lit "XX") (lit "XX") (lit "XX") (lit "XX"))
    (.bin (lit "S[dcl]\\NP") (lit "fa") true
      (.leaf (lit "(S[dcl]\\NP)/NP") (lit "sees") (lit "see") (lit "VBZ") (lit "XX") (lit "XX"))
      (.un (lit "NP") (lit "lex") true
        (.leaf (lit "N") (lit "-LRB-") (lit "XX") (lit "NN") (lit "XX") (lit "I-NP"))))

example : viewExt exTree = exView := by decide +kernel

/-- the decoder on the printed line, evaluated … -/
example : decExt (nodes exTree + 1) (splitOn cSpace (lit
    ("(<T S[dcl] ba 1 2> (<L NP Kim XX XX XX XX NP>) (<T S[dcl]\\NP fa 0 2> " ++
     "(<L (S[dcl]\\NP)/NP sees see VBZ XX XX (S[dcl]\\NP)/NP>) " ++
     "(<T NP lex 0 1> (<L N -LRB- XX NN XX I-NP N>) ) ) )"))) = some (exView, []) := by
  decide +kernel

/-- … and by the theorem -/
example : decExt (nodes exTree + 1) (splitOn cSpace (lit
    ("(<T S[dcl] ba 1 2> (<L NP Kim XX XX XX XX NP>) (<T S[dcl]\\NP fa 0 2> " ++
     "(<L (S[dcl]\\NP)/NP sees see VBZ XX XX (S[dcl]\\NP)/NP>) " ++
     "(<T NP lex 0 1> (<L N -LRB- XX NN XX I-NP N>) ) ) )"))) = some (viewExt exTree, []) :=
  autoext_decode exTree _ exCats exToks exLabels exLine

/-- a truncated line is rejected by the decoder -/
example : decExt 10 (splitOn cSpace (lit "(<T S[dcl] ba 1 2> (<L NP Kim XX XX XX XX NP>)")) = none := by
  decide +kernel

/-- the dependency column, evaluated: `sees` is the root, `Kim` and `(` attach to it -/
example : resolveDeps exTree [] = (1, [some 1, none, some 1]) := by decide +kernel
example : headIdx exTree 0 = 1 := by decide +kernel
example : attachments exTree 0 = [(2, 1), (0, 1)] := by decide +kernel

/-- every non-root entry of the column is an attachment, evaluated and by the theorem -/
example : ∀ i, i < 3 → i ≠ 1 →
    ∃ j, (resolveDeps exTree []).2[i]? = some (some j) ∧ (i, j) ∈ attachments exTree 0 :=
  (conll_heads exTree).2.2.2.1

example : ((resolveDeps exTree []).2.filter (· == none)).length = 1 := (conll_heads exTree).2.2.2.2

example : ∀ p ∈ attachments exTree 0, p.1 < 3 ∧ p.2 < 3 ∧ p.1 ≠ p.2 := by
  intro p hp
  have := attachments_in_span exTree 0 p hp
  have h3 : exTree.numLeaves = 3 := by decide +kernel
  rw [h3] at this
  omega

/-- the conll rows carry the column as 1-based numbers, 0 for the root -/
example : conllOf exTree = .ok (lit
    ("1\tKim\tXX\tXX\tXX\t_\t2\tNP\t_\t(<T S[dcl] 1 2> (<L NP XX XX Kim NP>)\n" ++
     "2\tsees\tsee\tVBZ\tVBZ\t_\t0\t(S[dcl]\\NP)/NP\t_\t(<T S[dcl]\\NP 0 2> (<L (S[dcl]\\NP)/NP VBZ VBZ sees (S[dcl]\\NP)/NP>)\n" ++
     "3\t-LRB-\t_\tNN\tNN\t_\t2\tN\t_\t(<T NP 0 1> (<L N NN NN -LRB- N>) ) ) )")) := by
  decide +kernel

/-- the ASCII art, evaluated -/
example : derivOf exTree = .ok (lit
    (" NP   (S[dcl]\\NP)/NP  N\n" ++
     " Kim       sees       (\n" ++
     "                     ---<un>\n" ++
     "                     NP\n" ++
     "     ------------------->\n" ++
     "          S[dcl]\\NP\n" ++
     "------------------------<\n" ++
     "         S[dcl]\n")) := by
  decide +kernel

/-- its rule lines are the ones the geometry prescribes: by the theorem, and evaluated -/
example : derivRec exTree 0 = .ok (0 + width exTree, ruleLines exTree 0) :=
  deriv_geometry exTree 0 exWords

example : width exTree = 24 ∧ ruleLines exTree 0 = lit
    ("                     ---<un>\n" ++
     "                     NP\n" ++
     "     ------------------->\n" ++
     "          S[dcl]\\NP\n" ++
     "------------------------<\n" ++
     "         S[dcl]\n") := by
  decide +kernel

/-- without a word the printer raises, so the hypothesis of `deriv_geometry` is needed -/
example : derivRec (.leaf cNP [] (lit "lex") (lit "<lex>")) 0 = .error .keyError := by decide +kernel

/-- numbering: two parses of the first sentence, none of the second, one of the third -/
example : numbered [[10, 11], [], [30]] = [(1, 10), (1, 11), (3, 30)] := by decide

example : (numbered [[10, 11], [], [30]]).map (·.1) = [1, 1, 3] :=
  (numbering [[10, 11], [], [30]]).1

/-- json: the leaf objects are the tokens with `cat` appended -/
example : jsonOf exTree =
    .node (lit "ba") (lit "S[dcl]")
      [.leaf (Token.ofWord (lit "Kim") ++ [(lit "cat", lit "NP")]),
       .node (lit "fa") (lit "S[dcl]\\NP")
        [.leaf [(lit "word", lit "sees"), (lit "lemma", lit "see"), (lit "pos", lit "VBZ"),
                (lit "cat", lit "(S[dcl]\\NP)/NP")],
         .node (lit "lex") (lit "NP")
          [.leaf [(lit "word", lit "("), (lit "pos", lit "NN"), (lit "chunk", lit "I-NP"),
                  (lit "cat", lit "N")]]]] := by
  rfl

example : jsonShape (jsonOf exTree) exTree := json_shape exTree

/-- a token that already has a `cat` key: the value is overwritten in place (the second clause of
    `jsonShape` on leaves does not apply) -/
example : jsonOf (.leaf cNP [(lit "cat", lit "X"), (lit "word", lit "a")] [] []) =
    .leaf [(lit "cat", lit "NP"), (lit "word", lit "a")] := by rfl

end examples

end Depccg.C07
