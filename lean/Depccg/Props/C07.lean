import Depccg.Print.More
