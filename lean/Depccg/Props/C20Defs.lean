/-
  C20  PTB and Japanese-bank text written by depccg reads back to the same tree.   Statements.
-/
import Depccg.Props.TextDefs

namespace Depccg.C20
open Depccg Str Print Read TextProps

/-! ### PTB -/

/-- a word the PTB format can carry: plain, and its escaped spelling neither starts with `(` nor
    ends with `)` (the format has no escaping for parentheses inside words — known finding) -/
def PtbWordOK (w : Str) : Prop :=
  PlainWord w ∧ (denormalize w).head? ≠ some cLPar ∧ (denormalize w).getLast? ≠ some cRPar

def PtbTokOK (t : Token) : Prop := ∃ w, Token.get? t (lit "word") = some w ∧ PtbWordOK w

/-- what `_parse_ptb` makes of a printed tree: bare word tokens in escaped spelling, default
    labels on leaves and unary nodes, label *and head direction* of the guessed rule on binary
    nodes (the format has no head field) -/
def ptbImage (lang : Lang) : Tree → Except Err Tree
  | .leaf c tok _ _ =>
    match Token.get tok (lit "word") with
    | .error e => .error e
    | .ok w => .ok (Tree.mkTerminal [(lit "word", denormalize w)] c)
  | .un c _ _ ch =>
    match ptbImage lang ch with
    | .error e => .error e
    | .ok ch' => .ok (Tree.mkUnary c ch')
  | .bin c _ _ _ l r =>
    match ptbImage lang l, ptbImage lang r with
    | .ok l', .ok r' =>
      match guess lang c l'.cat r'.cat with
      | .error e => .error e
      | .ok rule => .ok (.bin c rule.opString rule.opSymbol rule.headLeft l' r')
    | .error e, _ => .error e
    | _, .error e => .error e

/-- categories, shape and words, forgetting labels and head flags -/
def shapeOf : Tree → Tree
  | .leaf c tok _ _ => .leaf c [(lit "word", Token.getD tok (lit "word") [])] [] []
  | .un c _ _ ch => .un c [] [] (shapeOf ch)
  | .bin c _ _ _ l r => .bin c [] [] true (shapeOf l) (shapeOf r)

def PtbRoundtripStatement : Prop :=
  ∀ (lang : Lang) (t : Tree) (s : Str),
    AllCats CatOK t → AllCats (OneSystem lang) t → AllToks PtbTokOK t →
    ptbOf t = .ok s →
    ∃ t', ptbImage lang t = .ok t' ∧ parsePtb lang s = .ok (t', t'.tokens)

/-- an incomplete PTB line (a proper prefix of the blank-separated fields of a printed line) is
    rejected with an error -/
def PtbIncompleteRejectedStatement : Prop :=
  ∀ (lang : Lang) (t : Tree) (s : Str) (k : Nat),
    AllCats CatOK t → AllCats (OneSystem lang) t → AllToks PtbTokOK t →
    ptbOf t = .ok s → k < (splitOn cSpace s).length →
    ∃ e, parsePtb lang (joinSep cSpace ((splitOn cSpace s).take k)) = .error e

/-! ### Japanese CCGbank format -/

def noneOf (bad : List Nat) (w : Str) : Prop := ∀ c ∈ w, c ∉ bad

/-- a word the Japanese format can carry -/
def JaWordOK (w : Str) : Prop :=
  PlainWord w ∧ noneOf [cSlash, cLBrace, cRBrace] (normalize w)

/-- the token's word and its part-of-speech / inflection fields are free of the format's field
    and bracket characters -/
def JaTokOK (t : Token) : Prop :=
  (∃ w, Token.get? t (lit "word") = some w ∧ JaWordOK w) ∧
  noneOf [cSlash, cLBrace, cRBrace, cSpace] (jaField t ["pos", "pos1", "pos2", "pos3"]) ∧
  noneOf [cSlash, cLBrace, cRBrace, cSpace] (jaField t ["inflectionForm", "inflectionType"])

/-- categories of the Japanese format: well-formed, no `_`, `{`, `}` in their text, and not
    spelled like a rule symbol -/
def JaCatOK (c : Cat) : Prop :=
  C05.WF c ∧ noneOf [cUnderscore, cLBrace, cRBrace] c.str ∧ c.str ∉ jaCombinators

/-- internal nodes carry one of the bank's rule symbols -/
def SymOK : Tree → Prop
  | .leaf .. => True
  | .un _ _ y ch => y ∈ jaCombinators ∧ SymOK ch
  | .bin _ _ y _ l r => y ∈ jaCombinators ∧ SymOK l ∧ SymOK r

/-- what `_JaCCGLineReader` makes of a printed tree: bare word tokens (normalised spelling), the
    rule symbol as both label and symbol, head-left binary nodes (the format has no head field) -/
def jaImage : Tree → Except Err Tree
  | .leaf c tok _ _ =>
    match Token.get tok (lit "word") with
    | .error e => .error e
    | .ok w => .ok (Tree.mkTerminal [(lit "word", normalize w)] c)
  | .un c _ y ch =>
    match jaImage ch with
    | .error e => .error e
    | .ok ch' => .ok (.un c y y ch')
  | .bin c _ y _ l r =>
    match jaImage l, jaImage r with
    | .ok l', .ok r' => .ok (.bin c y y true l' r')
    | .error e, _ => .error e
    | _, .error e => .error e

/-- same categories, shape, words and rule symbols -/
def JaRoundtripStatement : Prop :=
  ∀ (t : Tree) (s : Str),
    AllCats JaCatOK t → AllToks JaTokOK t → SymOK t → jaOf t = .ok s →
    ∃ t' toks, jaImage t = .ok t' ∧ readJaLine s = .ok (t', toks) ∧
      toks.map (fun tok => Token.getD tok (lit "surf") []) = t'.tokens.map (fun tok => Token.getD tok (lit "word") [])

/-- the printed inflection field of the token is not empty.  `jaField` prints `_` when no
    attribute is present, but an attribute whose value is the empty string gives an empty field
    (e.g. `[("word","a"),("inflectionForm","")]` prints `{NP a/a/_/}`); the reader chops the last
    character before `}` and then finds only three `/`-separated parts: `JaRoundtripStatement`
    is false for such tokens (counterexample in `Props/C20.lean`). -/
def JaInflOK (t : Token) : Prop := jaField t ["inflectionForm", "inflectionType"] ≠ []

/-- `JaRoundtripStatement` with the missing hypothesis: the printed inflection field of every
    leaf is non-empty -/
def JaRoundtripStatement' : Prop :=
  ∀ (t : Tree) (s : Str),
    AllCats JaCatOK t → AllToks JaTokOK t → AllToks JaInflOK t → SymOK t → jaOf t = .ok s →
    ∃ t' toks, jaImage t = .ok t' ∧ readJaLine s = .ok (t', toks) ∧
      toks.map (fun tok => Token.getD tok (lit "surf") []) = t'.tokens.map (fun tok => Token.getD tok (lit "word") [])

/-- the bank's dependency annotations on a leaf category do not matter: a `_suffix` and `{…}`
    groups are removed before the category is read -/
def JaAnnotIrrelevantStatement : Prop :=
  (∀ (cs suf : Str), noneOf [cUnderscore] cs → cutSuffix (cs ++ cUnderscore :: suf) = cs) ∧
  (∀ (cs : Str), noneOf [cUnderscore] cs → cutSuffix cs = cs) ∧
  (∀ (a b g : Str), noneOf [cLBrace] a → g ≠ [] → noneOf [cRBrace] g →
      stripDeps (a ++ cLBrace :: g ++ cRBrace :: b) = a ++ stripDeps b) ∧
  (∀ (a : Str), noneOf [cLBrace] a → stripDeps a = a)

end Depccg.C20
