/-
  From the id-level search to the trees the caller receives, at the level of real categories and
  the real grammar functions (C02 / C12 / C01 "as both shipped grammars do"):

  `depccg._parsing.run` gives the C++ search an id-level view of the grammar: the callbacks number
  the categories (`maybe_add_and_get`) and `scaffold` copies each result of the rule function, in
  order, into a cache row (`Represents`). Whatever the search returns is turned into a `Tree` by
  `retrieve_tree` (`GlueTree.retrieve`).
-/
import Depccg.GlueTree
import Depccg.Props.SearchDefs
import Depccg.Props.C03Defs
import Depccg.Props.C04Defs

namespace Depccg.EndToEnd
open Depccg Search SearchProps GlueTree

/-- a category-level grammar: the two rule functions the caller passed to `run` -/
structure CatGrammar where
  bin : Cat → Cat → List RuleRes
  un : Cat → List RuleRes

/-- the cache rows are the rule functions' result lists, entry by entry (rule id = position), with
    the result category stored under the id the table gives it -/
def Represents (G : CatGrammar) (T : Tables) : Prop :=
  (∀ x y cx cy, T.cats x = some cx → T.cats y = some cy → ∀ (rid : Nat) (e : CacheEntry), (T.bin x y)[rid]? = some e →
      ∃ r : RuleRes, (G.bin cx cy)[rid]? = some r ∧ T.cats e.catId = some r.cat ∧ e.headLeft = r.headLeft ∧
        e.opString = r.opString ∧ e.opSymbol = r.opSymbol) ∧
  (∀ x cx, T.cats x = some cx → ∀ (rid : Nat) (e : CacheEntry), (T.un x)[rid]? = some e →
      ∃ r : RuleRes, (G.un cx)[rid]? = some r ∧ T.cats e.catId = some r.cat ∧
        e.opString = r.opString ∧ e.opSymbol = r.opSymbol)

/-- a tree every node of which is a result of the category-level grammar for its children's
    categories, carrying that result's category, label, symbol and head direction -/
inductive TreeLicensed (G : CatGrammar) : Tree → Prop
  | leaf (c : Cat) (tok : Token) : TreeLicensed G (Tree.mkTerminal tok c)
  | un (c : Cat) (opS opY : Str) (ch : Tree) (r : RuleRes) : TreeLicensed G ch →
      r ∈ G.un ch.cat → r.cat = c → r.opString = opS → r.opSymbol = opY →
      TreeLicensed G (.un c opS opY ch)
  | bin (c : Cat) (opS opY : Str) (hl : Bool) (l r : Tree) (res : RuleRes) :
      TreeLicensed G l → TreeLicensed G r → res ∈ G.bin l.cat r.cat →
      res.cat = c → res.opString = opS → res.opSymbol = opY → res.headLeft = hl →
      TreeLicensed G (.bin c opS opY hl l r)

/-- every tree built by `retrieve_tree` from a licensed derivation is licensed by the rule
    functions themselves, its root category is the category the table stores for the derivation's
    root id, and its leaves are the sentence's tokens in order -/
def RetrievedTreeLicensedStatement : Prop :=
  ∀ (G : CatGrammar) (T : Tables) (tokens : List Token) (s : Sent) (cfg : Cfg) (d : Deriv) (t : Tree),
    Represents G T → Licensed (grammarOf T) s cfg d → retrieve T tokens d = .ok t →
      TreeLicensed G t ∧ T.cats (dcat d) = some t.cat ∧
      t.tokens = (leafToks d).filterMap (fun i => tokens[i]?)

/-- so the search theorems speak about what the caller receives: every result of a run whose cache
    represents the rule functions becomes a tree licensed by those functions, spanning the sentence -/
def RunTreesLicensedStatement : Prop :=
  ∀ (pick : Pick) (G : CatGrammar) (T : Tables) (tokens : List Token) (s : Sent) (cfg : Cfg),
    PickOK pick → Represents G T → tokens.length = s.n →
    ∀ r ∈ (runWith pick (grammarOf T) s cfg).results, ∀ t, retrieve T tokens r.d = .ok t →
      TreeLicensed G t ∧ t.tokens = tokens ∧ (∃ rc ∈ s.roots, T.cats rc = some t.cat)

/-- the English rule functions (binary rules with a seen-rules filter, unary table) as a grammar -/
def enGrammar (seen : Option (List (Cat × Cat))) (table : List (Cat × List Cat)) : CatGrammar :=
  { bin := fun x y => match En.applyBinary seen x y with | .ok rs => rs | .error _ => [],
    un := fun x => En.applyUnary table x }

/-- the Japanese ones -/
def jaGrammar (seen : Option (List (Cat × Cat))) (table : List (Cat × List Cat)) : CatGrammar :=
  { bin := fun x y => match Ja.applyBinary seen x y with | .ok rs => rs | .error _ => [],
    un := fun x => match Ja.applyUnary table x with | .ok rs => rs | .error _ => [] }

/-- cache rows exist only for ids of the category table (the callbacks index the table) -/
def RowsKnown (T : Tables) : Prop :=
  ∀ x y, T.bin x y ≠ [] → (T.cats x).isSome ∧ (T.cats y).isSome

/-- a cache that represents a shipped grammar is head-uniform … -/
def ShippedHeadUniformStatement : Prop :=
  ∀ (seen : Option (List (Cat × Cat))) (table : List (Cat × List Cat)) (T : Tables),
    RowsKnown T →
    (Represents (enGrammar seen table) T → HeadUniform (grammarOf T)) ∧
    (Represents (jaGrammar seen table) T → HeadUniform (grammarOf T))

/-- … hence, for both shipped grammars, the first tree returned has the maximum model score among
    all derivations the cache licenses (C01, with the hypothesis "head-uniform" discharged) -/
def ShippedFirstParseOptimalStatement : Prop :=
  ∀ (pick : Pick) (seen : Option (List (Cat × Cat))) (table : List (Cat × List Cat)) (T : Tables)
    (s : Sent) (cfg : Cfg),
    PickOK pick → SentOK s → 0 ≤ cfg.penalty → cfg.nbest = 1 → RowsKnown T →
    (Represents (enGrammar seen table) T ∨ Represents (jaGrammar seen table) T) →
    ∀ t rest, (runWith pick (grammarOf T) s cfg).results = t :: rest →
      ∀ d, LicensedRoot (grammarOf T) s cfg d → modelScore s cfg d ≤ t.prio

end Depccg.EndToEnd
