/-
  C14  Rule application is a pure, total, reproducible function; filters only remove.
  Definitions and statements (proofs in Props/C14.lean, lemmas in Proofs/C14Lemmas.lean).

  Purity ("leaves its arguments unchanged", "same list on every call, in every process") is
  what being a Lean function means: `En.applyBinary`, `Ja.applyBinary`, `applyUnary` are
  functions of their arguments alone.  The part of reproducibility that is *not* automatic is
  independence of the iteration order of Python's hash-based containers; the model exposes that
  order as the parameter `ord` of `Unify.unifyOrd`, and the theorems below say when it matters.
-/
import Depccg.Ja

namespace Depccg.C14
open Depccg Cat Str

/-! ### the seen-rule gate -/

def nbX : List Str := [lit "X", lit "nb"]
def nb : List Str := [lit "nb"]

/-- membership as Python's `in` on a set of pairs of categories computes it -/
def inSeen (S : List (Cat × Cat)) (a b : Cat) : Bool := S.any fun p => Cat.pyEq p.1 a && Cat.pyEq p.2 b

/-- English: with a seen set the result is exactly the unrestricted result when the pair with
    `X` and `nb` erased is in the set, and empty otherwise -/
def SeenGateEnStatement : Prop :=
  ∀ (S : List (Cat × Cat)) (x y sx sy : Cat),
    Cat.clear nbX x = .ok sx → Cat.clear nbX y = .ok sy →
    En.applyBinary (some S) x y = if inSeen S sx sy then En.applyBinary none x y else .ok []

/-- Japanese: the raw pair is the key -/
def SeenGateJaStatement : Prop :=
  ∀ (S : List (Cat × Cat)) (x y : Cat),
    Ja.applyBinary (some S) x y = if inSeen S x y then Ja.applyBinary none x y else .ok []

/-- `clear` with readable names never fails (so the hypotheses above are always met) -/
def ClearTotalStatement : Prop :=
  ∀ (x : Cat), (∃ c, Cat.clear nbX x = .ok c) ∧ (∃ c, Cat.clear nb x = .ok c)

/-- English results do not depend on `nb` marks -/
def NbIrrelevantStatement : Prop :=
  ∀ (seen : Option (List (Cat × Cat))) (x y x' y' : Cat),
    Cat.clear nb x = .ok x' → Cat.clear nb y = .ok y' →
    En.applyBinary seen x y = En.applyBinary seen x' y'

/-! ### unary rules return exactly the configured targets, in order -/

def lookup (T : List (Cat × List Cat)) (x : Cat) : Option (List Cat) :=
  (T.find? fun p => Cat.pyEq p.1 x).map (·.2)

def UnaryExactEnStatement : Prop :=
  ∀ (T : List (Cat × List Cat)) (x : Cat),
    (En.applyUnary T x).map (·.cat) = (lookup T x).getD []

def UnaryExactJaStatement : Prop :=
  ∀ (T : List (Cat × List Cat)) (x : Cat) (rs : List RuleRes),
    Ja.applyUnary T x = .ok rs → rs.map (·.cat) = (lookup T x).getD []

/-- and the Japanese unary rules do not raise on categories whose result atom carries a
    three-part feature (every category of the Japanese bank) -/
def UnaryTotalJaStatement : Prop :=
  ∀ (T : List (Cat × List Cat)) (x : Cat) (b k1 v1 k2 v2 k3 v3 : Str),
    Ja.resultAtom x = .atom b (.tri k1 v1 k2 v2 k3 v3) → ∃ rs, Ja.applyUnary T x = .ok rs

/-! ### totality of the binary rules -/

/-- all features of one system -/
def AllUnary : Cat → Prop
  | .atom _ (.un _) => True
  | .atom _ (.tri ..) => False
  | .fn l _ r => AllUnary l ∧ AllUnary r

def AllTernary : Cat → Prop
  | .atom _ (.tri ..) => True
  | .atom _ (.un _) => False
  | .fn l _ r => AllTernary l ∧ AllTernary r

def NonEmptyBases : Cat → Prop
  | .atom b _ => b ≠ []
  | .fn l _ r => NonEmptyBases l ∧ NonEmptyBases r

/-- the English rules never raise on categories with unary features and non-empty atom names -/
def TotalEnStatement : Prop :=
  ∀ (seen : Option (List (Cat × Cat))) (x y : Cat),
    AllUnary x → AllUnary y → NonEmptyBases x → NonEmptyBases y →
    ∃ rs, En.applyBinary seen x y = .ok rs

/-- the Japanese rules never raise on categories with three-part features -/
def TotalJaStatement : Prop :=
  ∀ (seen : Option (List (Cat × Cat))) (x y : Cat),
    AllTernary x → AllTernary y → ∃ rs, Ja.applyBinary seen x y = .ok rs

/-! ### reproducibility: when does the visiting order of shared variables matter? -/

/-- the dictionary write `mapping[variable feature] = value` that the agreement loop makes for the
    shared variable `v`, if it makes one -/
def assignment (xf yf : Dict Str Feat) (v : Str) : Option (Feat × Feat) :=
  match Dict.get? xf v, Dict.get? yf v with
  | some fx, some fy =>
    match Feat.unifies fx fy with
    | .ok true => if fx.isVariable then some (fx, fy) else none
    | .ok false =>
      match Feat.unifies fy fx with
      | .ok true => if fy.isVariable then some (fy, fx) else none
      | _ => none
    | _ => none
  | _, _ => none

/-- no feature variable is instantiated twice with different values -/
def NoConflict (px py x y : Cat) : Prop :=
  ∀ cats1 xf cats2 yf, Unify.scan px x [] [] = (true, cats1, xf) → Unify.scan py y cats1 [] = (true, cats2, yf) →
    ∀ v ∈ Unify.sharedVars xf yf, ∀ w ∈ Unify.sharedVars xf yf, ∀ a b,
      assignment xf yf v = some a → assignment xf yf w = some b → a.1 = b.1 → a.2 = b.2

/-- whether matching succeeds never depends on the order (any permutation of the shared
    variables), as long as no exception is raised on the way -/
def OkOrderIndependentStatement : Prop :=
  ∀ (ord : List Str → List Str) (px py x y : Cat), (∀ l, (ord l).Perm l) →
    (∀ σ, Unify.unifyOrd ord px py x y ≠ .error σ) → (∀ σ, Unify.unify px py x y ≠ .error σ) →
    ((∃ σ, Unify.unifyOrd ord px py x y = .ok (some σ)) ↔ (∃ σ, Unify.unify px py x y = .ok (some σ)))

/-- without a conflict the bindings do not depend on the order either -/
def OrderIrrelevantStatement : Prop :=
  ∀ (ord : List Str → List Str) (px py x y : Cat) (k : Str), (∀ l, (ord l).Perm l) → NoConflict px py x y →
    ∀ σ τ, Unify.unifyOrd ord px py x y = .ok (some σ) → Unify.unify px py x y = .ok (some τ) →
      σ.get k = τ.get k

/-- with a conflict it does: `S[X]/(S[X]\NP[X])` applied to `S[dcl]\NP[b]` gives `S[b]` in the
    code's order and `S[dcl]` in the reverse order — the hash-seed dependence repaired by the
    fix (the code now uses one fixed order, `id`) -/
def OrderMattersWitnessStatement : Prop :=
  ∃ (px py x y : Cat) (σ τ : Unify.Bindings),
    Unify.unifyOrd id px py x y = .ok (some σ) ∧ Unify.unifyOrd List.reverse px py x y = .ok (some τ) ∧
    σ.get [97] ≠ τ.get [97]

end Depccg.C14
