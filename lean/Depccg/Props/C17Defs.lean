/-
  C17  The category dictionary restricts exactly the listed words.   Definitions and statements.
-/
import Depccg.Glue
import Depccg.Props.C05Defs

namespace Depccg.C17
open Depccg Cat Str Glue

/-! ### decidable well-formedness, for the generated tables -/

def plainTokB (s : Str) : Bool := !s.isEmpty && s.all C05.plainChar
def triPartB (s : Str) : Bool := s.all fun c => C05.plainChar c && c != cEq && c != cComma

def wfFeatB : Feat → Bool
  | .un none => true
  | .un (some v) => plainTokB v && !(hasChar cEq v && hasChar cComma v)
  | .tri k1 v1 k2 v2 k3 v3 => triPartB k1 && triPartB v1 && triPartB k2 && triPartB v2 && triPartB k3 && triPartB v3

def wfB : Cat → Bool
  | .atom b f => plainTokB b && wfFeatB f && (!(Cat.punctuations.elem b) || f == .un none)
  | .fn l s r => wfB l && Cat.isSlashCode s && wfB r

/-- the string reads, with the model of `Category.parse`, to a well-formed category -/
def okStr (s : Str) : Bool :=
  match Cat.parse s with
  | .ok c => wfB c
  | .error _ => false

/-- the Boolean test is sound for the `WF` of C05 -/
def WfBSoundStatement : Prop := ∀ c : Cat, wfB c = true → C05.WF c

/-- every dictionary category string is literally an inventory string, or is listed with an
    inventory string that reads to the same category -/
def dictWithin (targets dictCats : List Str) (residual : List (Str × Str)) : Bool :=
  dictCats.all fun s =>
    targets.contains s ||
    residual.any fun p => p.1 == s && targets.contains p.2 &&
      (match Cat.parse p.1, Cat.parse p.2 with
       | .ok a, .ok b => a == b
       | _, _ => false)

/-- … which means: the category it reads to is the reading of some inventory string -/
def DictWithinSoundStatement : Prop :=
  ∀ (targets dictCats : List Str) (residual : List (Str × Str)),
    dictWithin targets dictCats residual = true →
    ∀ s ∈ dictCats, ∃ t ∈ targets, Cat.parse s = Cat.parse t ∨ s = t

/-! ### the filter -/

/-- the listed category indices of a word are within range and the category list has no
    duplicates: then `catIndex` is the position -/
def CatsNodup (cats : List Cat) : Prop := cats.Nodup

def getRow (rows : List (List Int)) (i : Nat) : List Int := rows.getD i []

/-- elementwise specification: position `(i, c)` of a sentence keeps its score unless the word
    of token `i` is in the dictionary and category `c` is not among its listed ones, in which
    case it becomes `big`; rows of tokens beyond the word list are untouched -/
def FilterSpecStatement : Prop :=
  ∀ (masks : List (Str × List Bool)) (big : Int) (words : List Str) (rows : List (List Int)) (i c : Nat),
    i < rows.length →
    (getRow (filterRows masks big words rows) i).getD c 0 =
      match words[i]? with
      | none => (getRow rows i).getD c 0
      | some w =>
        match lookupMask masks w with
        | none => (getRow rows i).getD c 0
        | some m => if m.getD c false ∧ c < (getRow rows i).length then big else (getRow rows i).getD c 0

/-- shape is preserved: same number of rows, same row lengths (token order unchanged) -/
def FilterShapeStatement : Prop :=
  ∀ (masks : List (Str × List Bool)) (big : Int) (words : List Str) (rows : List (List Int)),
    (filterRows masks big words rows).length = rows.length ∧
    ∀ i, (getRow (filterRows masks big words rows) i).length = (getRow rows i).length

/-- the mask of a word is True exactly at the categories that are not listed for it -/
def BinarizeSpecStatement : Prop :=
  ∀ (indices : List Nat) (n c : Nat),
    (binarize indices n).length = n ∧ (c < n → (binarize indices n).getD c false = !(indices.elem c))

/-- the operation is applicable (no KeyError) exactly when every dictionary category is in the
    category list -/
def ApplicableIffStatement : Prop :=
  ∀ (cats : List Cat) (n : Nat) (dict : List (Str × List Cat)),
    (∃ ms, buildMasks cats n dict = .ok ms) ↔ ∀ wc ∈ dict, ∀ c ∈ wc.2, ∃ i, catIndex cats c = some i

/-- `catIndex` finds a category exactly when it is in the list, at a position holding it -/
def CatIndexSpecStatement : Prop :=
  ∀ (cats : List Cat) (c : Cat),
    (c ∈ cats ↔ ∃ i, catIndex cats c = some i) ∧ ∀ i, catIndex cats c = some i → cats[i]? = some c

end Depccg.C17
