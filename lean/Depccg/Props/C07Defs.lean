/-
  C07  Every output format encodes the same derivation.   Definitions and statements for the formats
  that have no reader in depccg (auto_extended, conll heads, json, deriv, prolog, record numbering).
  auto / conll fragments: C08;  ptb / ja: C20;  xml / jigg_xml: C15.
-/
import Depccg.Print.More
import Depccg.Props.TextDefs

namespace Depccg.C07
open Depccg Str Print TextProps

/-! ### auto_extended: an independent decoder -/

/-- what the extended AUTO format carries -/
inductive AView where
  | leaf (cat word lemma pos entity chunk : Str)
  | un (cat rule : Str) (headLeft : Bool) (kid : AView)
  | bin (cat rule : Str) (headLeft : Bool) (l r : AView)
  deriving DecidableEq, Repr

def viewExt : Tree → AView
  | .leaf c tok _ _ =>
    let g (k : String) := Token.getD tok (lit k) (lit "XX")
    .leaf c.str (denormalize (Token.getD tok (lit "word") [])) (g "lemma") (g "pos") (g "entity") (g "chunk")
  | .un c s _ ch => .un c.str s true (viewExt ch)
  | .bin c s _ h l r => .bin c.str s h (viewExt l) (viewExt r)

/-- recursive-descent reader of the blank-separated fields of an extended AUTO line -/
def decExt : Nat → List Str → Option (AView × List Str)
  | 0, _ => none
  | fuel + 1, toks =>
    match toks with
    | t0 :: cat :: a :: b :: c :: d :: rest =>
      if t0 == lit "(<L" then
        match rest with
        | e :: last :: rest' => if last == cat ++ lit ">)" then some (.leaf cat a b c d e, rest') else none
        | _ => none
      else if t0 == lit "(<T" then
        -- a = rule, b = head flag, c = "n>"
        if c == lit "1>" then
          match decExt fuel (d :: rest) with
          | some (k, r1) =>
            match r1 with
            | cl :: r2 => if cl == lit ")" then some (.un cat a (b == lit "0") k, r2) else none
            | [] => none
          | none => none
        else if c == lit "2>" then
          match decExt fuel (d :: rest) with
          | some (l, r1) =>
            match decExt fuel r1 with
            | some (r, r2) =>
              match r2 with
              | cl :: r3 => if cl == lit ")" then some (.bin cat a (b == lit "0") l r, r3) else none
              | [] => none
            | none => none
          | none => none
        else none
      else none
    | _ => none

def nodes : Tree → Nat
  | .leaf .. => 1
  | .un _ _ _ ch => nodes ch + 1
  | .bin _ _ _ _ l r => nodes l + nodes r + 1

/-- tokens whose attribute values are plain and whose rule labels contain no blank -/
def LabelsPlain : Tree → Prop
  | .leaf .. => True
  | .un _ s _ ch => PlainWord s ∧ LabelsPlain ch
  | .bin _ s _ _ l r => PlainWord s ∧ LabelsPlain l ∧ LabelsPlain r

/-- the independent decoder reads every printed extended AUTO line back to the view of the tree:
    words (escaped), shape, categories, rule labels, head flags and the four token attributes -/
def AutoExtDecodeStatement : Prop :=
  ∀ (t : Tree) (s : Str),
    AllCats CatOK t → AllToks TokOK t → LabelsPlain t → autoExtOf t = .ok s →
    decExt (nodes t + 1) (splitOn cSpace s) = some (viewExt t, [])

/-! ### conll: the dependency column is the head assignment implied by the head flags -/

/-- index of the head word of a subtree whose first word has index `off` -/
def headIdx : Tree → Nat → Nat
  | .leaf .., off => off
  | .un _ _ _ ch, off => headIdx ch off
  | .bin _ _ _ h l r, off => if h then headIdx l off else headIdx r (off + l.numLeaves)

/-- (dependent word, head word) for every binary node: the head word of the non-head child
    attaches to the head word of the head child -/
def attachments : Tree → Nat → List (Nat × Nat)
  | .leaf .., _ => []
  | .un _ _ _ ch, off => attachments ch off
  | .bin _ _ _ h l r, off =>
    let hl := headIdx l off
    let hr := headIdx r (off + l.numLeaves)
    attachments l off ++ attachments r (off + l.numLeaves) ++ [if h then (hr, hl) else (hl, hr)]

/-- one root, every other word attached exactly as the head flags say -/
def ConllHeadsStatement : Prop :=
  ∀ (t : Tree),
    let res := (resolveDeps t []).2
    (resolveDeps t []).1 = headIdx t 0 ∧ res.length = t.numLeaves ∧
    res[headIdx t 0]? = some none ∧
    (∀ i, i < t.numLeaves → i ≠ headIdx t 0 → ∃ j, res[i]? = some (some j) ∧ (i, j) ∈ attachments t 0) ∧
    (res.filter (· == none)).length = 1

/-- every attachment stays inside the span of the node that makes it, hence inside the sentence -/
def AttachmentsInSpanStatement : Prop :=
  ∀ (t : Tree) (off : Nat), ∀ p ∈ attachments t off,
    off ≤ p.1 ∧ p.1 < off + t.numLeaves ∧ off ≤ p.2 ∧ p.2 < off + t.numLeaves ∧ p.1 ≠ p.2

/-! ### record numbering -/

/-- records are numbered by sentence (from 1), all n-best trees of a sentence under its number,
    in order -/
def NumberingStatement : Prop :=
  ∀ {α : Type} (batch : List (List α)),
    (numbered batch).map (·.1) = (batch.zipIdx.map fun (ts, i) => List.replicate ts.length (i + 1)).flatten ∧
    (numbered batch).map (·.2) = batch.flatten

/-! ### json -/

/-- the json tree carries shape, categories, rule labels and, on leaves, all token attributes
    (the `cat` field is added last unless the token already has such a key) -/
def jsonShape : JTree → Tree → Prop
  | .leaf fs, .leaf c tok _ _ =>
      Dict.get? fs (lit "cat") = some c.str ∧ (Dict.get? tok (lit "cat") = none → fs = tok ++ [(lit "cat", c.str)])
  | .node ty c [k], .un cat s _ ch => ty = s ∧ c = cat.str ∧ jsonShape k ch
  | .node ty c [k1, k2], .bin cat s _ _ l r => ty = s ∧ c = cat.str ∧ jsonShape k1 l ∧ jsonShape k2 r
  | _, _ => False

def JsonShapeStatement : Prop := ∀ t : Tree, jsonShape (jsonOf t) t

/-! ### deriv: geometry of the ASCII art -/

def leafWidth (c : Cat) (w : Str) : Nat := 2 + max w.length c.str.length

/-- total width of the columns of a subtree -/
def width : Tree → Nat
  | .leaf c tok _ _ => leafWidth c (Token.getD tok (lit "word") [])
  | .un _ _ _ ch => width ch
  | .bin _ _ _ _ l r => width l + width r

/-- the rule lines of a subtree whose columns start at `lw`: post-order of the internal nodes;
    each rule line spans exactly the columns of the node's leaves and ends with the rule symbol;
    the category is centred under it -/
def ruleLines : Tree → Nat → Str
  | .leaf .., _ => []
  | .un c _ y ch, lw =>
    ruleLines ch lw ++ spaces lw ++ List.replicate (width ch) 45 ++ y ++ [10]
      ++ spacesI (((width ch : Int) - c.str.length) / 2 + lw) ++ c.str ++ [10]
  | .bin c _ y _ l r, lw =>
    ruleLines l lw ++ ruleLines r (lw + width l) ++ spaces lw ++ List.replicate (width l + width r) 45 ++ y ++ [10]
      ++ spacesI ((((width l + width r : Nat) : Int) - c.str.length) / 2 + lw) ++ c.str ++ [10]

/-- (partial decoder property) extents of each rule line equal the leaf-column interval of the
    node's span; number and order of rule lines = post-order of internal nodes -/
def DerivGeometryStatement : Prop :=
  ∀ (t : Tree) (lw : Nat), AllToks (fun tok => ∃ w, Token.get? tok (lit "word") = some w) t →
    derivRec t lw = .ok (lw + width t, ruleLines t lw)

end Depccg.C07
