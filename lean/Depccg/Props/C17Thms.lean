/-
  C17  The category dictionary restricts exactly the listed words.   Theorems.
-/
import Depccg.Props.C17Defs
import Depccg.Proofs.C17Lemmas

namespace Depccg.C17
open Depccg Cat Str Glue

/-- the Boolean well-formedness test used on the generated tables implies `C05.WF` -/
theorem wfB_sound : WfBSoundStatement := wfB_sound_aux

/-- a passed `dictWithin` check means every dictionary string is, or reads the same as, an
    inventory string -/
theorem dictWithin_sound : DictWithinSoundStatement := dictWithin_sound_aux

/-- elementwise behaviour of the filter on one sentence -/
theorem filter_spec : FilterSpecStatement := by
  intro masks big words rows i c _
  rw [filterRows_getRow]
  unfold filteredRow
  cases words[i]? with
  | none => rfl
  | some w =>
    dsimp only
    cases hl : lookupMask masks w with
    | none => rfl
    | some m => exact maskRow_getD big (getRow rows i) m c

/-- the filter keeps the number of rows and every row length -/
theorem filter_shape : FilterShapeStatement := by
  intro masks big words rows
  refine ⟨filterRows_length masks big words rows, ?_⟩
  intro i
  rw [filterRows_getRow]
  exact filteredRow_length masks big words rows i

/-- `_binarize`: length `n`, True exactly off the listed indices -/
theorem binarize_spec : BinarizeSpecStatement := by
  intro indices n c
  exact ⟨binarize_length indices n, binarize_getD indices n c⟩

/-- no KeyError exactly when every dictionary category is in the category list -/
theorem applicable_iff : ApplicableIffStatement := buildMasks_ok_iff

/-- `catIndex` succeeds exactly on members, and the index it returns holds the category -/
theorem catIndex_spec : CatIndexSpecStatement := by
  intro cats c
  exact ⟨(catIndex_exists cats c).symm, fun i h => catIndex_some h⟩

/-! ### non-vacuity: concrete instances -/

section Examples

/-- categories `S`, `NP`, `N` -/
private def exCats : List Cat :=
  [.atom [83] (.un none), .atom [78, 80] (.un none), .atom [78] (.un none)]

/-- the word `a` (code point 97) is listed with `NP` and `N` only -/
private def exDict : List (Str × List Cat) :=
  [([97], [.atom [78, 80] (.un none), .atom [78] (.un none)])]

-- the mask dictionary built from it: True (= to be masked) exactly at `S`
example : buildMasks exCats 3 exDict = .ok [([97], [true, false, false])] := by decide

-- 2 words `a b`, 2 rows of 3 scores: the row of `a` is masked at `S`, the row of `b` is untouched
example :
    filterRows [([97], [true, false, false])] (-1000) [[97], [98]] [[1, 2, 3], [4, 5, 6]]
      = [[-1000, 2, 3], [4, 5, 6]] := by decide

-- the same through `apply_category_filters` on a one-sentence document
example :
    applyFilters exCats exDict (-1000) 3 [([[97], [98]], [[1, 2, 3], [4, 5, 6]])]
      = .ok [[[-1000, 2, 3], [4, 5, 6]]] := by decide

-- a category outside the list: KeyError
example : applyFilters exCats [([97], [.atom [80, 80] (.un none)])] (-1000) 3 [] = .error .keyError := by
  decide

-- words shorter than rows: the extra row is untouched; words longer than rows: extra words ignored
example :
    filterRows [([97], [true, false, false])] (-1000) [[97]] [[1, 2, 3], [4, 5, 6]]
      = [[-1000, 2, 3], [4, 5, 6]] := by decide
example :
    filterRows [([97], [true, false, false])] (-1000) [[98], [97], [97]] [[1, 2, 3], [4, 5, 6]]
      = [[1, 2, 3], [-1000, 5, 6]] := by decide

-- a mask shorter than the row stops masking where it ends
example : maskRow (-1000) [1, 2, 3] [true] = [-1000, 2, 3] := by decide

-- the last index wins on a list with duplicates, and it still holds the category
example : catIndex [.atom [78] (.un none), .atom [83] (.un none), .atom [78] (.un none)]
    (.atom [78] (.un none)) = some 2 := by decide

-- `S[dcl]\NP` reads to a well-formed category
example : okStr [83, 91, 100, 99, 108, 93, 92, 78, 80] = true := by decide
example : Str.lit "S[dcl]\\NP" = [83, 91, 100, 99, 108, 93, 92, 78, 80] := by decide
example : okStr (Str.lit "S[dcl]\\NP") = true := by decide

-- and the check rejects ill-formed text
example : okStr (Str.lit "S[dcl]\\") = false := by decide

-- `dictWithin` on a residual pair: `(N/N)` is listed with the inventory string `N/N`
example : dictWithin [Str.lit "N/N", Str.lit "NP"] [Str.lit "NP", Str.lit "(N/N)"]
    [(Str.lit "(N/N)", Str.lit "N/N")] = true := by decide

end Examples

end Depccg.C17
