/-
  Statements about the whole program (`Cli.mainText`: input lines and tagger scores in, printed
  text out).

  * the score text of a header reads back to the exact score (`fmt8`);
  * the piped input format and the blank-separated line are read field by field;
  * C11 at the level of the program: the printed text is the records of each sentence parsed
    alone, in input order, whatever `--num-processes`;
  * C08 composed with C02 / C11: what the program writes in the AUTO format is read by
    `read_auto` to exactly one result per returned tree, named by sentence.
-/
import Depccg.Cli
import Depccg.Props.LazyDefs
import Depccg.Props.FileDefs

namespace Depccg.CliProps
open Depccg Str Search GlueRun Lazy Print Cli Read FileProps LazyProps

/-! ### the score text -/

/-- value of a run of decimal digits -/
def digitsVal : Str → Option Nat
  | [] => some 0
  | s => s.foldl (fun acc c => match acc with
      | some a => if 48 ≤ c ∧ c ≤ 57 then some (a * 10 + (c - 48)) else none
      | none => none) (some 0)

/-- an independent reader of `d+.d{8}` with an optional sign: the number times 64, when that is an
    integer -/
def readFmt8 (s : Str) : Option Int :=
  let (neg, body) := match s with | 45 :: r => (true, r) | r => (false, r)
  match splitOn 46 body with
  | [ip, fp] =>
    if fp.length = 8 ∧ ip ≠ [] then
      match digitsVal ip, digitsVal fp with
      | some i, some f =>
        if (f * 64) % 100000000 = 0 then
          let k : Int := (i * 64 + f * 64 / 100000000 : Nat)
          some (if neg then -k else k)
        else none
      | _, _ => none
    else none
  | _ => none

/-- the header's score text determines the score: reading `'{:.8f}'` text back gives `k` -/
def Fmt8RoundtripStatement : Prop := ∀ k : Int, readFmt8 (fmt8 k) = some k

/-- it is a legal score text for the file readers (no newline, no trailing white space) -/
def Fmt8ScoreOKStatement : Prop := ∀ k : Option Int, ScoreOK (scoreText k)

/-! ### the input side -/

/-- a field of the piped format / a word of a line -/
def NoBar (s : Str) : Prop := cBar ∉ s
def NoBlank (s : Str) : Prop := cSpace ∉ s

def OfPipedStatement : Prop :=
  ∀ w l p e c : Str, NoBar w → NoBar l → NoBar p → NoBar e → NoBar c →
    ofPiped (joinSep cBar [w, l, p, e, c]) =
      .ok [(lit "word", w), (lit "lemma", l), (lit "pos", p), (lit "entity", e), (lit "chunk", c)] ∧
    ofPiped (joinSep cBar [w, l, p, e]) =
      .ok [(lit "word", w), (lit "lemma", l), (lit "pos", p), (lit "entity", e), (lit "chunk", lit "XX")] ∧
    ofPiped (joinSep cBar [w, p, e]) =
      .ok [(lit "word", w), (lit "lemma", lit "XX"), (lit "pos", p), (lit "entity", e), (lit "chunk", lit "XX")]

/-- a line of blank-separated words becomes one token per word, in order -/
def TokensOfLineStatement : Prop :=
  ∀ ws : List Str, ws ≠ [] → (∀ w ∈ ws, NoBlank w) →
    tokensOfLine false (joinSep cSpace ws) = .ok (ws.map Token.ofWord)

/-- `--root-cats`: the texts of well-formed categories without the `|` slash, joined by `|`, are
    read back (a category that contains the `|` slash cannot be named on the command line) -/
def RootsOfStatement : Prop :=
  ∀ cs : List Cat, cs ≠ [] → (∀ c ∈ cs, C05.WF c ∧ NoBar c.str) →
    rootsOf (joinSep cBar (cs.map Cat.str)) = .ok cs

/-! ### C11 at the level of the program -/

/-- the records the program prints are those of each sentence parsed alone (fresh category table,
    empty rule cache), in input order, whatever `--num-processes` -/
def MainEqMapSoloStatement : Prop :=
  ∀ (G : GlueRun.CatGrammar) (o : Opts) (lines tagCats : List Str) (scores : List Scores)
    (roots categories : List Cat) (doc : List (List Token)),
    rootsOf o.rootCats = .ok roots → Cli.mapExcept (tokensOfLine o.piped) lines = .ok doc →
    Cli.mapExcept Cat.parse tagCats = .ok categories → categories.Nodup →
    (∀ x ∈ zipSents doc scores, LexOK categories x) →
    ∀ results : List SentResult,
      Cli.mapExcept (fun x => (sentenceL pickHeap G (addRoots categories roots).2 o.cfg (some o.maxLength)
          (GlueRun.init categories roots) x).1) (zipSents doc scores) = .ok results →
      mainText G o lines tagCats scores = printText o.format results

/-- the option `--num-processes` does not change the output -/
def MainProcsIrrelevantStatement : Prop :=
  ∀ (G : GlueRun.CatGrammar) (o : Opts) (procs' : Nat) (lines tagCats : List Str) (scores : List Scores)
    (categories : List Cat),
    Cli.mapExcept Cat.parse tagCats = .ok categories → categories.Nodup →
    (∀ doc, Cli.mapExcept (tokensOfLine o.piped) lines = .ok doc → ∀ x ∈ zipSents doc scores, LexOK categories x) →
    mainText G { o with procs := procs' } lines tagCats scores = mainText G o lines tagCats scores

/-! ### what the program writes can be read back (C08 ∘ C11) -/

/-- in the AUTO format: if every returned tree is within the domain of the AUTO round trip, the
    printed text is read by `read_auto` to one result per returned tree, in order, each under the
    `ID` line of its sentence and with the image of the line-level round trip -/
def MainAutoReadsBackStatement : Prop :=
  ∀ (lang : Lang) (results : List SentResult) (text : Str),
    (∀ r ∈ results, ∀ ts ∈ scored r, AutoTreeOK lang ts.1) →
    printText .auto results = .ok text →
    ∃ rs, fileImage (TextProps.autoImage lang) (results.map scored) = .ok rs ∧ readAutoFile lang text = .ok rs

end Depccg.CliProps
