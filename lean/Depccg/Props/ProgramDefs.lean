/-
  The program from its configuration on. `main(args)` calls `read_params(config, args)` — `args` lands
  in the position of `disable_category_dictionary`, the seen rules stay enabled — and parses with the
  two rule functions it hands out. Everything the program computes categories from is text
  (`unary_rules`, `seen_rules` of the configuration, the tagger's category names, `--root-cats`), and
  what `Category.parse` accepts is a well-formed category (`parse_wf`), so the well-formedness
  hypotheses of `main_total_partial` are met by construction: the program fails only on a string that
  is not a category (or, for the XML formats, on text that is not XML text).
-/
import Depccg.Config
import Depccg.Props.MainTotalDefs2
import Depccg.Props.ConfigDefs

namespace Depccg.ProgramProps
open Depccg Str Search GlueRun Lazy Print Cli LazyProps Config

/-- whatever text the reader accepts denotes a well-formed category value -/
def ParseWFStatement : Prop := ∀ (s : Str) (c : Cat), Cat.parse s = .ok c → C05.WF c

/-! ### what the reader guarantees (`ParseWFStatement` is false: `parse_wf_original_false`)

  The reader treats a token `[` or `]` that is not part of a group `name [ feature ]` as an atom
  name (`"["` reads to the atom named `[`), and takes *any* token between `[` and `]` as the feature
  text, also one of the nine isolated characters (`"S[/]"` reads to `S` with the feature `/`).
  Neither is a plain token, so neither value is `C05.WF`. `ReadWF` allows exactly these two things
  more than `C05.WF`, and it is exactly the set of values the reader returns. -/

/-- a token of the reader: a plain token, or one of the nine characters the tokenizer isolates -/
def Tok (s : Str) : Prop := C05.PlainTok s ∨ ∃ c, Cat.isSpecial c = true ∧ s = [c]

/-- what the reader takes as an atom name: a plain token, or a square bracket -/
def ReadName (b : Str) : Prop := C05.PlainTok b ∨ b = [cLBr] ∨ b = [cRBr]

/-- as `C05.WFFeat`, but the text of a one-part feature is any token -/
def ReadFeat : Feat → Prop
  | .un none => True
  | .un (some v) => Tok v ∧ ¬ (hasChar cEq v = true ∧ hasChar cComma v = true)
  | .tri k1 v1 k2 v2 k3 v3 =>
    C05.TriPart k1 ∧ C05.TriPart v1 ∧ C05.TriPart k2 ∧ C05.TriPart v2 ∧ C05.TriPart k3 ∧ C05.TriPart v3

/-- as `C05.WF` with `ReadName` and `ReadFeat` -/
def ReadWF : Cat → Prop
  | .atom b f => ReadName b ∧ ReadFeat f ∧ (b ∈ Cat.punctuations → f = .un none)
  | .fn l s r => ReadWF l ∧ Cat.isSlashCode s = true ∧ ReadWF r

/-- no atom is named `[` or `]`, no one-part feature is one of the nine isolated characters -/
def BracketFree : Cat → Prop
  | .atom b f => b ≠ [cLBr] ∧ b ≠ [cRBr] ∧ ∀ v c, f = .un (some v) → Cat.isSpecial c = true → v ≠ [c]
  | .fn l _ r => BracketFree l ∧ BracketFree r

/-- whatever the reader accepts is `ReadWF`; every `ReadWF` value is read from its own printed text
    (so `ReadWF` is exactly the range of the reader, and printing and reading is the identity on
    it); and `C05.WF` is `ReadWF` without the stray brackets -/
def ParseWFPartialStatement : Prop :=
  (∀ (s : Str) (c : Cat), Cat.parse s = .ok c → ReadWF c) ∧
  (∀ c : Cat, ReadWF c → Cat.parse c.str = .ok c) ∧
  (∀ c : Cat, C05.WF c ↔ ReadWF c ∧ BracketFree c)

/-- hence reading, printing and reading again gives the same value: printing normalises the text -/
def ParseIdemStatement : Prop := ∀ (s : Str) (c : Cat), Cat.parse s = .ok c → Cat.parse c.str = .ok c

/-- `main(args)` from the configuration on -/
def programText (en : Bool) (p : Params) (o : Opts) (lines tagCats : List Str) (scores : List Scores) :
    Except Err Str :=
  match readParams p true false with
  | .error e => .error e
  | .ok L => mainText (OutputWF.shipped en L.seen L.table) o lines tagCats scores

def Parses (s : Str) : Prop := ∃ c, Cat.parse s = .ok c

/-- the program prints a text whenever every string it reads as a category is one, the input lines
    are tokens (`POSandNERtagged` input: three to five `|`-separated fields per word), the tagger's
    category names are distinct categories and its score matrices have one column per category -/
def ProgramTotalStatement : Prop :=
  ∀ (en : Bool) (p : Params) (o : Opts) (lines tagCats : List Str) (scores : List Scores)
    (categories : List Cat) (doc : List (List Token)),
    (∀ q ∈ p.unaryRules, Parses q.1 ∧ Parses q.2) → (∀ q ∈ p.seenRules, Parses q.1 ∧ Parses q.2) →
    (∀ s ∈ p.targets, Parses s) →
    (∃ roots, rootsOf o.rootCats = .ok roots) → Cli.mapExcept (tokensOfLine o.piped) lines = .ok doc →
    Cli.mapExcept Cat.parse tagCats = .ok categories → categories.Nodup →
    (∀ x ∈ zipSents doc scores, LexOK categories x) → CliProps.fmtFits en o.format = true →
    ∃ text, programText en p o lines tagCats scores = .ok text

/-- and the result is the one of parsing every sentence alone with the configured grammar -/
def ProgramEqStatement : Prop :=
  ∀ (en : Bool) (p : Params) (o : Opts) (lines tagCats : List Str) (scores : List Scores) (L : Loaded),
    readParams p true false = .ok L →
    programText en p o lines tagCats scores = mainText (OutputWF.shipped en L.seen L.table) o lines tagCats scores

end Depccg.ProgramProps
