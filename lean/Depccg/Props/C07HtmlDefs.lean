/-
  C07 for the html format: the MathML text of a tree, read by an independent reader, gives back the
  derivation's nesting, words, rule labels and category segments.
-/
import Depccg.Print.Html

namespace Depccg.C07
open Depccg Str Print

/-- escaped text contains no markup characters -/
def HtmlEscapeSafeStatement : Prop :=
  ∀ (s : Str), ∀ c ∈ htmlEscape s, c ≠ 60 ∧ c ≠ 62 ∧ c ≠ 34 ∧ c ≠ 39

/-- escaping loses nothing -/
def HtmlEscapeRoundtripStatement : Prop :=
  ∀ (s : Str), unesc (htmlEscape s) = s

/-- the html text of a tree decodes to the tree's skeleton (every word, every rule label, the
    nesting, and the (part, feature) segments of every category) -/
def HtmlDecodeStatement : Prop :=
  ∀ (t : Tree) (s : Str), mathmlSubtree t = .ok s →
    ∃ sk, skelOf t = .ok sk ∧ readMathml s = some sk

/-- hence two trees with the same html text have the same skeleton -/
def HtmlSameTextSameSkeletonStatement : Prop :=
  ∀ (t₁ t₂ : Tree) (s : Str), mathmlSubtree t₁ = .ok s → mathmlSubtree t₂ = .ok s → skelOf t₁ = skelOf t₂

/-- rendering fails exactly when a leaf token has no `word` -/
def HtmlTotalStatement : Prop :=
  ∀ (t : Tree), (∀ tok ∈ t.tokens, (Token.get? tok (lit "word")).isSome) → ∃ s, mathmlSubtree t = .ok s

end Depccg.C07
